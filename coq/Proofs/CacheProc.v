(* A whole process keeps the invariant: the load, every group of every operation (database
   update, in-memory update, save), deaths, deletions of cache files. *)
From Eupsv Require Import Base.Base Base.BaseLemmas Model.Db Model.Cache.
From Eupsv Require Import Proofs.DbLib Proofs.Db Proofs.DbSim Proofs.DbInv Proofs.DbCor.
From Eupsv Require Import Proofs.CacheLib Proofs.CacheWt Proofs.CacheRebuild Proofs.CacheEff Proofs.CacheU Proofs.CacheInv Proofs.CacheLoad.
From Coq Require Import Lia.

Definition wpath (w : world) : list str := map fst (w_db w).

(* ---------------------------------------------------------------- the load of all stacks *)

Lemma ps_ok_same w w' uo s ps :
  w_db w' = w_db w -> w_uc w' = w_uc w -> (forall l f, pk_get w' l s f = pk_get w l s f) ->
  ps_ok w uo s ps -> ps_ok w' uo s ps.
Proof.
  intros E1 E3 E2 [A [U B]]. split; [rewrite E1; exact A|]. split; [rewrite E3; exact U|].
  intros l f m p H1 H2. rewrite E2 in H2. exact (B l f m p H1 H2).
Qed.

Lemma load_stacks_ok tick loc utd nf path : forall w w' m,
  clock_strict tick -> INV w -> utd = owner loc -> NoDup path -> load_stacks tick false w loc utd nf path = (w', m) ->
  INV w' /\ w_db w' = w_db w /\ w_uc w' = w_uc w /\ map fst m = path /\
  (forall s, ~ In s path -> forall l f, pk_get w' l s f = pk_get w l s f) /\
  (forall s ps, alookup s m = Some ps ->
     ps_ok w' utd s ps /\ (forall f, In f nf -> alookup f (ps_lookup ps) <> None)).
Proof.
  induction path as [|s r IH]; intros w w' m CS I Hu ND E; cbn [load_stacks] in E.
  - inversion E. subst. split; [exact I|]. split; [reflexivity|]. split; [reflexivity|]. split; [reflexivity|].
    split; [reflexivity|]. intros s ps H. cbn in H. discriminate.
  - destruct (from_cache tick false w s loc utd nf) as [w1 ps1] eqn:Ef.
    destruct (load_stacks tick false w1 loc utd nf r) as [w2 m2] eqn:El. inversion E. subst w' m. clear E.
    destruct (from_cache_ok tick w s loc utd nf w1 ps1 CS I Hu Ef) as [I1 [OK1 [[D1 [_ [_ [U1 P1]]]] L1]]].
    inversion ND as [|? ? Hn ND']. subst.
    destruct (IH w1 w2 m2 CS I1 eq_refl ND' El) as [I2 [D2 [U2 [M2 [P2 R2]]]]].
    split; [exact I2|]. split; [congruence|]. split; [congruence|]. split; [cbn; rewrite M2; reflexivity|]. split.
    + intros s' Hs' l f. rewrite P2 by (intro; apply Hs'; right; assumption).
      apply P1. intro. subst. apply Hs'. left. reflexivity.
    + intros s' ps H. cbn [alookup] in H. destruct (str_eqb_spec s' s) as [->|N].
      * inversion H. subst ps. split; [|exact L1]. apply (ps_ok_same w1); [exact D2|exact U2| |exact OK1].
        intros l f. apply P2. exact Hn.
      * apply R2. exact H.
Qed.

(* ---------------------------------------------------------------- lists of actions *)

Definition apply_acts (d : db) (g : list aact) : db := fold_left (fun d x => apply (compile d x) d) g d.

Lemma do_acts_db tick g : forall w, w_db (do_acts tick w g) = apply_acts (w_db w) g.
Proof.
  induction g as [|x g IH]; intro w; [reflexivity|]. cbn [do_acts fold_left apply_acts].
  change (fold_left (do_act tick) g (do_act tick w x)) with (do_acts tick (do_act tick w x) g).
  rewrite IH, do_act_db. reflexivity.
Qed.

Lemma do_acts_pickles tick g : forall w, w_pickles (do_acts tick w g) = w_pickles w.
Proof.
  induction g as [|x g IH]; intro w; [reflexivity|]. cbn [do_acts fold_left].
  change (fold_left (do_act tick) g (do_act tick w x)) with (do_acts tick (do_act tick w x) g).
  rewrite IH, do_act_pickles. reflexivity.
Qed.

Lemma act_ok_aeq a b x : aeq a b -> act_ok a x -> act_ok b x.
Proof. intros [_ [H _]] K. destruct x; cbn in *; auto. rewrite <- H. exact K. Qed.

Lemma acts_ok_aeq xs : forall a b, aeq a b -> acts_ok a xs -> acts_ok b xs.
Proof.
  induction xs as [|x xs IH]; intros a b E H; [exact I|]. cbn [acts_ok] in *. destruct H as [H1 H2]. split.
  - eapply act_ok_aeq; eassumption.
  - eapply IH; [|exact H2]. apply aapply_aeq. exact E.
Qed.

Lemma apply_acts_refines g : forall d, aeq (view (apply_acts d g)) (aapply_all g (view d)).
Proof.
  induction g as [|x g IH]; intro d; [apply aeq_refl|]. cbn [apply_acts fold_left]. rewrite aapply_all_cons.
  change (fold_left (fun d0 x0 => apply (compile d0 x0) d0) g (apply (compile d x) d))
    with (apply_acts (apply (compile d x) d) g).
  eapply aeq_trans; [apply IH|]. apply aapply_all_aeq. apply compile_refines.
Qed.

Lemma apply_acts_path g : forall d, map fst (apply_acts d g) = map fst d.
Proof.
  induction g as [|x g IH]; intro d; [reflexivity|]. cbn [apply_acts fold_left].
  change (fold_left (fun d0 x0 => apply (compile d0 x0) d0) g (apply (compile d x) d))
    with (apply_acts (apply (compile d x) d) g).
  rewrite IH. apply path_apply.
Qed.

Lemma apply_acts_has_stack g d s : has_stack (apply_acts d g) s = has_stack d s.
Proof. rewrite <- !has_stack_path, apply_acts_path. reflexivity. Qed.

Lemma do_acts_inv tick g : clock_strict tick -> forall w,
  INV w -> acts_ok (view (w_db w)) g -> INV (do_acts tick w g).
Proof.
  intro CS. induction g as [|x g IH]; intros w I OK; [exact I|]. cbn [do_acts fold_left].
  change (fold_left (do_act tick) g (do_act tick w x)) with (do_acts tick (do_act tick w x) g).
  destruct OK as [O1 O2]. apply IH.
  - apply do_act_inv; assumption.
  - rewrite do_act_db. eapply acts_ok_aeq; [apply aeq_sym, compile_refines|exact O2].
Qed.

Lemma do_acts_clock tick g : clock_strict tick -> forall w, w_clock w <= w_clock (do_acts tick w g).
Proof.
  intro CS. induction g as [|x g IH]; intro w; [cbn; lia|]. cbn [do_acts fold_left].
  change (fold_left (do_act tick) g (do_act tick w x)) with (do_acts tick (do_act tick w x) g).
  specialize (IH (do_act tick w x)). pose proof (do_effects_clock tick (compile (w_db w) x) CS w). unfold do_act in *. lia.
Qed.

Lemma wt_acts_agree uts s fl g : forall ps d,
  lookup_agree ps d s -> no_dangling (view d) -> acts_ok (view d) g ->
  Forall (fun x => act_root x = s /\ act_flavor x = fl) g ->
  has_stack d s = true -> alookup fl (ps_lookup ps) <> None ->
  exists ps' ch, wt_acts false uts g ps = Ok (ps', ch) /\
    lookup_agree ps' (apply_acts d g) s /\ ps_modtimes ps' = ps_modtimes ps /\
    (forall f, alookup f (ps_lookup ps) <> None -> alookup f (ps_lookup ps') <> None).
Proof.
  induction g as [|x g IH]; intros ps d A ND OK F Hs Hf.
  - exists ps, false. split; [reflexivity|]. split; [exact A|]. split; [reflexivity|auto].
  - destruct OK as [O1 O2]. inversion F as [|? ? [R1 R2] F']. subst.
    assert (Hf' : alookup (act_flavor x) (ps_lookup ps) <> None) by exact Hf.
    destruct (wt_act_agree uts ps d (act_root x) x A ND O1 eq_refl Hs Hf') as [ps1 [c1 [E1 [A1 [M1 K1]]]]].
    assert (ND1 : no_dangling (view (apply (compile d x) d))).
    { eapply no_dangling_aeq; [apply aeq_sym, compile_refines|]. apply aapply_no_dangling; assumption. }
    assert (OK1 : acts_ok (view (apply (compile d x) d)) g).
    { eapply acts_ok_aeq; [apply aeq_sym, compile_refines|exact O2]. }
    assert (Hs1 : has_stack (apply (compile d x) d) (act_root x) = true) by (rewrite has_stack_apply; exact Hs).
    destruct (IH ps1 _ A1 ND1 OK1 F' Hs1 (K1 _ Hf)) as [ps2 [c2 [E2 [A2 [M2 K2]]]]].
    exists ps2, (c1 || c2). cbn [wt_acts]. rewrite E1, E2. split; [reflexivity|]. split; [exact A2|].
    split; [congruence|]. intros f H. apply K2, K1, H.
Qed.

Lemma lookup_agree_other_stack g : forall ps d s2,
  lookup_agree ps d s2 -> Forall (fun x => act_root x <> s2) g -> lookup_agree ps (apply_acts d g) s2.
Proof.
  induction g as [|x g IH]; intros ps d s2 A F; [exact A|]. inversion F as [|? ? N F']. subst.
  cbn [apply_acts fold_left].
  change (fold_left (fun d0 x0 => apply (compile d0 x0) d0) g (apply (compile d x) d))
    with (apply_acts (apply (compile d x) d) g).
  apply IH; [|exact F']. intros f fd H n. destruct (A f fd H n) as [B1 B2].
  assert (Fr : (n, f) <> act_nf x \/ s2 <> act_stack x).
  { right. rewrite <- act_root_stack. congruence. }
  split; intro k; destruct (compile_frame d x s2 n k f Fr) as [E1 E2]; rewrite ?E1, ?E2; auto.
Qed.

(* ---------------------------------------------------------------- one group *)

(* the loaded stacks of an instance of user u (not an administrator): every one agrees with the files
   and with the tag directory of u *)
Definition mem_ok (w : world) (uo : option str) (fl : str) (m : mem) : Prop :=
  forall s ps, alookup s m = Some ps ->
    ps_ok w uo s ps /\ has_stack (w_db w) s = true /\ alookup fl (ps_lookup ps) <> None.

Definition group_wf (fl : str) (g : list aact) : Prop :=
  g <> [] /\ Forall (fun x => act_root x = group_stack g /\ act_flavor x = fl) g.

(* what [groups] produces: one action, or a declaration with the tag it carries *)
Definition group_shape (g : list aact) : Prop :=
  (exists x, g = [x]) \/
  (exists s n v f r t, g = [ASetDecl s n v f r; ASetTag s n t f v]).

Lemma mem_ok_aset w uo fl m s ps :
  mem_ok w uo fl m -> ps_ok w uo s ps -> has_stack (w_db w) s = true -> alookup fl (ps_lookup ps) <> None ->
  mem_ok w uo fl (aset s ps m).
Proof.
  intros M A B C s' ps' H. rewrite alookup_aset in H. destruct (str_eqb_spec s' s) as [->|N].
  - inversion H. subst. auto.
  - apply M. exact H.
Qed.

Lemma owner_user u : u <> upsdb -> owner u = Some u.
Proof. intro H. unfold owner. destruct (str_eqb_spec u upsdb); [contradiction|reflexivity]. Qed.

Lemma save_flavor_ok tick w s loc u fl ps w' ps' :
  clock_strict tick -> INV w -> ps_ok w (owner loc) s ps -> alookup fl (ps_lookup ps) <> None ->
  save_flavor tick w s loc u fl ps = (w', ps') ->
  INV w' /\ ps_ok w' (owner loc) s ps' /\ same_but s w w' /\ alookup fl (ps_lookup ps') <> None.
Proof.
  intros CS I OK Hf E. unfold save_flavor in E. rewrite (in_sync_true _ _ _ _ _ _ OK) in E.
  destruct (persist_ok tick w s loc fl ps w' ps' CS I OK (fun H => False_ind _ (Hf H)) E) as [A [B [C [D _]]]].
  auto.
Qed.

(* nobody rewrote the cache files: ensureInSync leaves the data alone *)
Lemma ensure_in_sync_same w w' uo s loc ps :
  w_pickles w' = w_pickles w -> ps_ok w uo s ps -> ensure_in_sync w' s loc ps = ps.
Proof.
  intros P [_ [_ B]]. unfold ensure_in_sync.
  assert (X : forallb (in_sync w' s ps loc) (akeys (ps_lookup ps)) = true).
  { apply forallb_forall. intros f _. unfold in_sync.
    destruct (glookup key_eqb (loc, f) (ps_modtimes ps)) as [mm|] eqn:E1; [|reflexivity].
    destruct (pk_get w' loc s f) as [p|] eqn:E2; [|reflexivity].
    apply Nat.leb_le. rewrite (pk_get_pickles w) in E2 by exact P. exact (B _ _ _ _ E1 E2). }
  rewrite X. reflexivity.
Qed.

(* the write-through of a group keeps the agreement with the tag directory *)
Lemma wt_group_ugood tick w u uts s fl g ps ps' ch :
  group_shape g -> Forall (fun x => act_root x = s /\ act_flavor x = fl) g ->
  (forall s n v f, uts s n v f = utags_on (w_uc (do_uacts tick w u g)) u s n v f) ->
  ps_ugood ps (w_uc w) (Some u) s -> lookup_agree ps (w_db w) s ->
  no_dangling (view (w_db w)) -> acts_ok (view (w_db w)) g -> has_stack (w_db w) s = true ->
  alookup fl (ps_lookup ps) <> None ->
  wt_acts false uts g ps = Ok (ps', ch) ->
  ps_ugood ps' (w_uc (do_acts tick (do_uacts tick w u g) g)) (Some u) s.
Proof.
  intros Sh F Huts G A ND OK HS Hfl E. rewrite do_acts_uc.
  destruct Sh as [[x ->]|[s0 [n [v [f [r [t ->]]]]]]].
  - inversion F as [|? ? [R1 R2] _]. subst. cbn [wt_acts] in E.
    destruct (wt_act false uts x ps) as [[ps1 c1]|] eqn:E1; [|discriminate]. inversion E. subst ps' ch.
    unfold do_uacts in *. cbn [fold_left] in *.
    rewrite <- (do_act_uc tick (do_uact tick w u x) x).
    apply (wt_act_ugood tick w u uts ps (act_root x) x ps1 c1); auto.
  - inversion F as [|? ? [R1 R2] F']. inversion F' as [|? ? [R3 R4] _]. subst. cbn [act_root act_flavor act_nf snd] in *.
    unfold do_uacts in *. cbn [fold_left do_uact] in *. cbn [wt_acts] in E.
    destruct (wt_act false uts (ASetDecl s0 n v f r) ps) as [[ps1 c1]|] eqn:E1; [|discriminate].
    destruct (wt_act false uts (ASetTag s0 n t f v) ps1) as [[ps2 c2]|] eqn:E2; [|discriminate].
    inversion E. subst ps' ch. destruct OK as [O1 [O2 _]].
    destruct (wt_act_agree uts ps (w_db w) s0 (ASetDecl s0 n v f r) A ND O1 eq_refl HS Hfl)
      as [ps1' [c1' [E1' [A1 [_ K1]]]]].
    rewrite E1 in E1'. inversion E1'. subst ps1' c1'.
    pose proof (wt_act_ugood tick w u uts ps s0 (ASetDecl s0 n v f r) ps1 c1 Huts G A eq_refl Hfl E1) as G1.
    cbn [do_uact] in G1.
    assert (G2 := wt_act_ugood tick (do_act tick w (ASetDecl s0 n v f r)) u uts ps1 s0 (ASetTag s0 n t f v) ps2 c2).
    cbn [do_uact] in G2. rewrite !do_act_uc in G2. rewrite do_act_uc in G1. apply G2; auto; try (rewrite do_act_db; exact A1); try (apply K1; exact Hfl).
Qed.

Lemma run_group_ok tick u fl w m g die w' m' r :
  clock_strict tick -> u <> upsdb -> INV w -> mem_ok w (Some u) fl m ->
  acts_ok (view (w_db w)) g -> group_wf fl g -> group_shape g ->
  run_group tick repaired u u fl w m g die = (w', m', r) ->
  INV w' /\ r <> GRaised /\ (r = GOk -> mem_ok w' (Some u) fl m') /\
  aeq (view (w_db w')) (aapply_all g (view (w_db w))).
Proof.
  intros CS Hu I M OK [Gne GF] Sh E. unfold run_group in E.
  set (wa := do_uacts tick w u g) in *.
  assert (Ia : INV wa) by (apply do_uacts_inv; assumption).
  assert (Da : w_db wa = w_db w) by apply do_uacts_db.
  assert (Pa : w_pickles wa = w_pickles w) by apply do_uacts_pickles.
  assert (OKa : acts_ok (view (w_db wa)) g) by (rewrite Da; exact OK).
  pose proof (do_acts_inv tick g CS wa Ia OKa) as I1.
  pose proof (do_acts_db tick g wa) as D1. rewrite Da in D1. pose proof (do_acts_pickles tick g wa) as P1. rewrite Pa in P1.
  pose proof (do_acts_uc tick g wa) as U1.
  assert (AE : aeq (view (w_db (do_acts tick wa g))) (aapply_all g (view (w_db w)))).
  { rewrite D1. apply apply_acts_refines. }
  (* the loaded stacks other than the group's are not concerned *)
  assert (Others : forall s2 ps2, s2 <> group_stack g -> alookup s2 m = Some ps2 ->
            ps_ok (do_acts tick wa g) (Some u) s2 ps2 /\ has_stack (w_db (do_acts tick wa g)) s2 = true /\
            alookup fl (ps_lookup ps2) <> None).
  { intros s2 ps2 N H. destruct (M s2 ps2 H) as [[A [U B]] [C D]].
    assert (FN : Forall (fun x => act_root x <> s2) g).
    { apply Forall_forall. intros x Hx. destruct (proj1 (Forall_forall _ _) GF x Hx) as [R _]. congruence. }
    split; [split; [|split]|split].
    - rewrite D1. apply lookup_agree_other_stack; [exact A|exact FN].
    - rewrite U1. apply (ps_ugood_ext ps2 (w_uc w)); [|exact U].
      intros u0 n t f Eu. inversion Eu. subst u0. apply do_uacts_uc_other. exact FN.
    - intros l f mm p H1 H2. rewrite (pk_get_pickles w) in H2 by exact P1. exact (B l f mm p H1 H2).
    - rewrite D1, apply_acts_has_stack. exact C.
    - exact D. }
  destruct die.
  - inversion E. subst. split; [exact I1|]. split; [discriminate|]. split; [discriminate|exact AE].
  - destruct (alookup (group_stack g) m) as [ps|] eqn:Em.
    + destruct (M _ _ Em) as [[A [U B]] [C D]].
      assert (MT : mt_ok (do_acts tick wa g) (group_stack g) ps).
      { intros l f mm p H1 H2. rewrite (pk_get_pickles w) in H2 by exact P1. exact (B l f mm p H1 H2). }
      rewrite (ensure_in_sync_same w _ (Some u) _ _ ps P1 (conj A (conj U B))) in E.
      destruct (wt_acts_agree (read_back false (do_acts tick wa g) u) (group_stack g) fl g ps (w_db w) A (inv_nd w I) OK GF C D)
        as [ps2 [ch [Ew [A2 [M2 K2]]]]].
      cbn [v_rm v_noread repaired] in E. rewrite Ew in E.
      assert (U2 : ps_ugood ps2 (w_uc (do_acts tick wa g)) (Some u) (group_stack g)).
      { apply (wt_group_ugood tick w u (read_back false (do_acts tick wa g) u) (group_stack g) fl g ps ps2 ch Sh GF); auto.
        - intros s0 n0 v0 f0. unfold read_back. rewrite U1. reflexivity.
        - apply (inv_nd w I). }
      assert (OK2 : ps_ok (do_acts tick wa g) (Some u) (group_stack g) ps2).
      { split; [rewrite D1; exact A2|]. split; [exact U2|]. rewrite M2. exact MT. }
      assert (HS : has_stack (w_db (do_acts tick wa g)) (group_stack g) = true).
      { rewrite D1, apply_acts_has_stack. exact C. }
      rewrite <- (owner_user u Hu) in OK2.
      destruct (save_always g || ch).
      * destruct (save_flavor tick (do_acts tick wa g) (group_stack g) u u fl ps2) as [w2 ps3] eqn:Es.
        inversion E. subst w' m' r. clear E.
        destruct (save_flavor_ok tick _ _ u u fl ps2 w2 ps3 CS I1 OK2 (K2 _ D) Es) as [I2 [OK3 [SB F3]]].
        rewrite (owner_user u Hu) in OK3.
        split; [exact I2|]. split; [discriminate|]. split.
        -- intros _ s2 ps2' H. rewrite alookup_aset in H. destruct (str_eqb_spec s2 (group_stack g)) as [->|N].
           ++ inversion H. subst ps2'. destruct SB as [Edb _]. rewrite Edb. auto.
           ++ destruct (Others s2 ps2' N H) as [X1 [X2 X3]]. split; [|split; [|exact X3]].
              ** eapply ps_ok_frame; [exact SB|exact N|exact X1].
              ** destruct SB as [Edb _]. rewrite Edb. exact X2.
        -- destruct SB as [Edb _]. rewrite Edb. exact AE.
      * inversion E. subst w' m' r. clear E. rewrite (owner_user u Hu) in OK2.
        split; [exact I1|]. split; [discriminate|]. split; [|exact AE].
        intros _ s2 ps2' H. rewrite alookup_aset in H. destruct (str_eqb_spec s2 (group_stack g)) as [->|N].
        -- inversion H. subst ps2'. auto.
        -- exact (Others s2 ps2' N H).
    + inversion E. subst w' m' r. clear E.
      split; [exact I1|]. split; [discriminate|]. split; [|exact AE].
      intros _ s2 ps2 H. apply Others; [|exact H]. intro. subst. congruence.
Qed.

(* ---------------------------------------------------------------- the groups of an operation *)

Definition gwf (g : list aact) : Prop := g <> [] /\ Forall (fun x => act_root x = group_stack g) g.

Lemma groups_spec_len n : forall xs, length xs <= n ->
  concat (groups xs) = xs /\ Forall gwf (groups xs) /\ Forall group_shape (groups xs).
Proof.
  induction n as [|n IH]; intros xs L.
  - destruct xs; [|cbn in L; lia]. split; [reflexivity|split; constructor].
  - destruct xs as [|x rest]; [split; [reflexivity|split; constructor]|]. cbn [length] in L.
    assert (Single : forall y, concat ([y] :: groups rest) = y :: rest /\ Forall gwf ([y] :: groups rest) /\
                                Forall group_shape ([y] :: groups rest)).
    { intro y. destruct (IH rest) as [C [F S]]; [lia|]. split; [|split].
      - cbn [concat app]. rewrite C. reflexivity.
      - constructor; [|exact F]. split; [discriminate|]. constructor; [reflexivity|constructor].
      - constructor; [|exact S]. left. exists y. reflexivity. }
    destruct x as [s n0 v f r|s n0 v f|s n0 t f v|s n0 t f]; cbn [groups]; try apply Single.
    destruct rest as [|y rest']; [apply (Single (ASetDecl s n0 v f r))|].
    destruct y as [s' n' v' f' r'|s' n' v' f'|s' n' t' f' v'|s' n' t' f']; try apply (Single (ASetDecl s n0 v f r)).
    destruct (str_eqb s s' && str_eqb n0 n' && str_eqb f f' && str_eqb v v') eqn:E;
      [|apply (Single (ASetDecl s n0 v f r))].
    rewrite !andb_true_iff, !str_eqb_eq in E. destruct E as [[[-> ->] ->] ->].
    cbn [length] in L. destruct (IH rest') as [C [F S]]; [lia|]. split; [|split].
    + cbn [concat app]. rewrite C. reflexivity.
    + constructor; [|exact F]. split; [discriminate|]. repeat constructor.
    + constructor; [|exact S]. right. exists s', n', v', f', r, t'. reflexivity.
Qed.

Lemma groups_spec xs : concat (groups xs) = xs /\ Forall gwf (groups xs) /\ Forall group_shape (groups xs).
Proof. apply (groups_spec_len (length xs)). lia. Qed.

Lemma aeq_path a b : aeq a b -> apath a = apath b.
Proof. intros [H _]. exact H. Qed.

Lemma run_groups_ok tick u fl gs : forall w m crash w' m' r,
  clock_strict tick -> u <> upsdb -> INV w -> mem_ok w (Some u) fl m ->
  acts_ok (view (w_db w)) (concat gs) -> Forall (group_wf fl) gs -> Forall group_shape gs ->
  run_groups tick repaired u u fl w m gs crash = (w', m', r) ->
  INV w' /\ r <> GRaised /\ (r = GOk -> mem_ok w' (Some u) fl m') /\ wpath w' = wpath w.
Proof.
  induction gs as [|g rest IH]; intros w m crash w' m' r CS Hu I M OK F SH E; cbn [run_groups] in E.
  - inversion E. subst. split; [exact I|]. split; [discriminate|]. split; [auto|reflexivity].
  - cbn [concat] in OK. apply acts_ok_app in OK. destruct OK as [OKg OKr]. inversion F as [|? ? Fg Fr]. subst.
    inversion SH as [|? ? Sg Sr]. subst.
    assert (Step : forall die crash',
      (let '(w1, m1, r1) := run_group tick repaired u u fl w m g die in
       match r1 with GOk => run_groups tick repaired u u fl w1 m1 rest crash' | _ => (w1, m1, r1) end) = (w', m', r) ->
      INV w' /\ r <> GRaised /\ (r = GOk -> mem_ok w' (Some u) fl m') /\ wpath w' = wpath w).
    { intros die crash' E'. destruct (run_group tick repaired u u fl w m g die) as [[w1 m1] r1] eqn:Eg.
      destruct (run_group_ok tick u fl w m g die w1 m1 r1 CS Hu I M OKg Fg Sg Eg) as [I1 [NR [M1 AE]]].
      assert (P1 : wpath w1 = wpath w).
      { unfold wpath. rewrite <- !apath_view, (aeq_path _ _ AE), apath_aapply_all. reflexivity. }
      destruct r1.
      - destruct (IH w1 m1 crash' w' m' r CS Hu I1 (M1 eq_refl)) as [A [B [C D]]]; auto.
        + eapply acts_ok_aeq; [apply aeq_sym; exact AE|exact OKr].
        + split; [exact A|]. split; [exact B|]. split; [exact C|congruence].
      - inversion E'. subst. split; [exact I1|]. split; [discriminate|]. split; [discriminate|exact P1].
      - congruence. }
    destruct crash as [[[|k] [|]]|].
    + apply (Step true None E).
    + inversion E. subst. split; [exact I|]. split; [discriminate|]. split; [discriminate|reflexivity].
    + apply (Step false (Some (k, true)) E).
    + apply (Step false (Some (k, false)) E).
    + apply (Step false None E).
Qed.

Lemma run_op_ok tick u fl w m x crash w' m' oc :
  clock_strict tick -> u <> upsdb -> INV w -> mem_ok w (Some u) fl m ->
  run_op tick repaired u u fl w m x crash = (w', m', oc) ->
  INV w' /\ (oc <> OCrashed -> mem_ok w' (Some u) fl m') /\ wpath w' = wpath w.
Proof.
  intros CS Hu I M E. unfold run_op in E.
  destruct (str_eqb_spec (o_flavor (op_opts x)) fl) as [Efl|N]; cbn [negb] in E.
  2:{ inversion E. subst. auto. }
  destruct (decide false (view (w_db w)) x) as [acts|e] eqn:Ed.
  2:{ inversion E. subst. auto. }
  destruct (run_groups tick repaired u u fl w m (groups acts) crash) as [[w1 m1] r] eqn:Eg.
  inversion E. subst w' m' oc. clear E.
  destruct (groups_spec acts) as [C [G SH]].
  assert (FL : Forall (fun x0 => act_flavor x0 = fl) acts).
  { pose proof (decide_scope _ _ _ _ Ed) as S. apply Forall_forall. intros y Hy.
    pose proof (proj1 (Forall_forall _ _) S y Hy) as Hn. unfold act_flavor. rewrite Hn. exact Efl. }
  assert (GW : Forall (group_wf fl) (groups acts)).
  { apply Forall_forall. intros g Hg. destruct (proj1 (Forall_forall _ _) G g Hg) as [G1 G2].
    split; [exact G1|]. apply Forall_forall. intros y Hy. split.
    - exact (proj1 (Forall_forall _ _) G2 y Hy).
    - apply (proj1 (Forall_forall _ _) FL y). rewrite <- C. apply in_concat. exists g. auto. }
  destruct (run_groups_ok tick u fl (groups acts) w m crash w1 m1 r CS Hu I M) as [I1 [NR [M1 P1]]]; auto.
  - rewrite C. apply (decide_acts_ok _ _ _ _ Ed).
  - split; [exact I1|]. split; [|exact P1]. intro H. apply M1. destruct r; congruence.
Qed.

(* ---------------------------------------------------------------- the two user-tag commands *)

Lemma do_udb_facts tick w u x : clock_strict tick -> u <> upsdb -> INV w ->
  INV (do_udb tick false w u x) /\ w_db (do_udb tick false w u x) = w_db w /\
  w_pickles (do_udb tick false w u x) = w_pickles w /\
  (forall u' s2 n t f, s2 <> uact_stack x ->
     uc_tag (w_uc (do_udb tick false w u x)) u' s2 n t f = uc_tag (w_uc w) u' s2 n t f).
Proof.
  intros CS Hu I. destruct x as [s n t f v|s n t f]; cbn [do_udb uact_stack].
  - split; [apply do_uset_inv; assumption|]. split; [reflexivity|]. split; [reflexivity|].
    intros u' s2 n' t' f' N. rewrite do_uset_uc_tag. unfold ukey_eqb.
    destruct (str_eqb_spec s2 s); [contradiction|]. rewrite !andb_false_r. cbn [andb]. rewrite ?andb_false_r. reflexivity.
  - split; [apply do_udel_inv; assumption|]. split; [apply do_udel_db|]. split; [apply do_udel_pickles|].
    intros u' s2 n' t' f' N. rewrite do_udel_uc_tag. unfold ukey_eqb.
    destruct (str_eqb_spec s2 s); [contradiction|]. rewrite !andb_false_r. cbn [andb]. rewrite ?andb_false_r. reflexivity.
Qed.

(* a USet is issued for a version that the files declare: the write-through does not raise *)
Definition uact_ok (d : db) (x : uact) : Prop :=
  match x with USet s n t f v => db_decl d s n v f <> None | UDel _ _ _ _ => True end.

Definition uact_flavor (x : uact) : str := match x with USet _ _ _ f _ | UDel _ _ _ f => f end.

Lemma run_uact_ok tick u fl w m x crash w' m' oc :
  clock_strict tick -> u <> upsdb -> INV w -> mem_ok w (Some u) fl m ->
  uact_ok (w_db w) x -> uact_flavor x = fl ->
  run_uact tick false u u fl w m x crash = (w', m', oc) ->
  INV w' /\ (oc <> OCrashed -> mem_ok w' (Some u) fl m') /\ wpath w' = wpath w.
Proof.
  intros CS Hu I M UOK UF E. unfold run_uact in E.
  destruct (do_udb_facts tick w u x CS Hu I) as [I1 [D1 [P1 UC1]]].
  set (w1 := do_udb tick false w u x) in *.
  assert (Pw : wpath w1 = wpath w) by (unfold wpath; rewrite D1; reflexivity).
  assert (Others : forall s2 ps2, s2 <> uact_stack x -> alookup s2 m = Some ps2 ->
            ps_ok w1 (Some u) s2 ps2 /\ has_stack (w_db w1) s2 = true /\ alookup fl (ps_lookup ps2) <> None).
  { intros s2 ps2 N H. destruct (M s2 ps2 H) as [[A [U B]] [C D]]. split; [split; [|split]|split].
    - rewrite D1. exact A.
    - apply (ps_ugood_ext ps2 (w_uc w)); [|exact U]. intros u0 n t f _. apply UC1. exact N.
    - intros l f mm p H1 H2. rewrite (pk_get_pickles w) in H2 by exact P1. exact (B l f mm p H1 H2).
    - rewrite D1. exact C.
    - exact D. }
  assert (Dead : forall w0, INV w0 -> wpath w0 = wpath w ->
            INV w0 /\ (OCrashed <> OCrashed -> mem_ok w0 (Some u) fl m) /\ wpath w0 = wpath w).
  { intros w0 I0 P0. split; [exact I0|]. split; [congruence|exact P0]. }
  assert (Live : (match alookup (uact_stack x) m with
                  | None => (w1, m, OOk)
                  | Some ps =>
                      let ps1 := ensure_in_sync w1 (uact_stack x) u ps in
                      match wt_uact x ps1 with
                      | Err _ => (w1, aset (uact_stack x) ps1 m, ORaised)
                      | Ok (ps2, changed) =>
                          if (match x with USet _ _ _ _ _ => true | UDel _ _ _ _ => false end) || changed then
                            let '(w2, ps3) := save_flavor tick w1 (uact_stack x) u u fl ps2 in
                            (w2, aset (uact_stack x) ps3 m, OOk)
                          else (w1, aset (uact_stack x) ps2 m, OOk)
                      end
                  end) = (w', m', oc) ->
            INV w' /\ (oc <> OCrashed -> mem_ok w' (Some u) fl m') /\ wpath w' = wpath w).
  { clear E. intro E. destruct (alookup (uact_stack x) m) as [ps|] eqn:Em.
    - destruct (M _ _ Em) as [[A [U B]] [C D]].
      cbv zeta in E. rewrite (ensure_in_sync_same w w1 (Some u) _ _ ps P1 (conj A (conj U B))) in E.
      destruct (wt_uact x ps) as [[ps2 ch]|e] eqn:Ew.
      + destruct (wt_uact_agree x ps (w_db w) (uact_stack x) ps2 ch A Ew) as [A2 [M2 K2]].
        pose proof (wt_uact_ugood tick w u ps x ps2 ch U Ew) as U2. fold w1 in U2.
        assert (OK2 : ps_ok w1 (Some u) (uact_stack x) ps2).
        { split; [rewrite D1; exact A2|]. split; [exact U2|]. rewrite M2.
          intros l f mm p H1 H2. rewrite (pk_get_pickles w) in H2 by exact P1. exact (B l f mm p H1 H2). }
        assert (HS : has_stack (w_db w1) (uact_stack x) = true) by (rewrite D1; exact C).
        destruct ((match x with USet _ _ _ _ _ => true | UDel _ _ _ _ => false end) || ch).
        * destruct (save_flavor tick w1 (uact_stack x) u u fl ps2) as [w2 ps3] eqn:Es.
          inversion E. subst w' m' oc. clear E. rewrite <- (owner_user u Hu) in OK2.
          destruct (save_flavor_ok tick _ _ u u fl ps2 w2 ps3 CS I1 OK2 (K2 _ D) Es) as [I2 [OK3 [SB F3]]].
          rewrite (owner_user u Hu) in OK3.
          split; [exact I2|]. split.
          -- intros _ s2 ps2' H. rewrite alookup_aset in H. destruct (str_eqb_spec s2 (uact_stack x)) as [->|N].
             ++ inversion H. subst ps2'. destruct SB as [Edb _]. rewrite Edb. auto.
             ++ destruct (Others s2 ps2' N H) as [X1 [X2 X3]]. split; [|split; [|exact X3]].
                ** eapply ps_ok_frame; [exact SB|exact N|exact X1].
                ** destruct SB as [Edb _]. rewrite Edb. exact X2.
          -- destruct SB as [Edb _]. unfold wpath. rewrite Edb. exact Pw.
        * inversion E. subst w' m' oc. clear E. split; [exact I1|]. split; [|exact Pw].
          intros _ s2 ps2' H. rewrite alookup_aset in H. destruct (str_eqb_spec s2 (uact_stack x)) as [->|N].
          -- inversion H. subst ps2'. auto.
          -- exact (Others s2 ps2' N H).
      + (* the write-through cannot raise: the version is in the loaded family *)
        exfalso. destruct x as [s n t f v|s n t f]; cbn [wt_uact uact_stack uact_ok uact_flavor] in *.
        * subst fl. destruct (alookup f (ps_lookup ps)) as [fd|] eqn:Ef; [|congruence].
          unfold ps_family in Ew. rewrite Ef in Ew. pose proof (proj1 (A f fd Ef n) v) as Hv.
          unfold fd_decl in Hv. destruct (alookup n fd) as [fm|] eqn:Efm; [|congruence].
          unfold fam_assign_utag, fam_has_version, amem in Ew.
          destruct (alookup v (f_versions fm)); [discriminate|congruence].
        * unfold ps_family in Ew. destruct (alookup f (ps_lookup ps)) as [fd|]; [|discriminate].
          destruct (alookup n fd) as [fm|]; [|discriminate].
          destruct (fam_unassign_utag t fm) as [fm' [|]]; discriminate.
    - inversion E. subst w' m' oc. split; [exact I1|]. split; [|exact Pw].
      intros _ s2 ps2 H. apply Others; [|exact H]. intro. subst. congruence. }
  destruct crash as [[[|k] [|]]|].
  - inversion E. subst. apply Dead; assumption.
  - inversion E. subst. apply Dead; [exact I|reflexivity].
  - apply Live. exact E.
  - apply Live. exact E.
  - apply Live. exact E.
Qed.

Lemma uassign_plan_ok w o t n v x : uassign_plan w o t n v = Ok (Some x) ->
  uact_ok (w_db w) x /\ uact_flavor x = o_flavor o.
Proof.
  unfold uassign_plan. destruct (find_exact _ _ n v (o_flavor o)) as [[s' r]|] eqn:E; [|discriminate].
  intro H. inversion H. subst x. cbn [uact_ok uact_flavor]. split; [|reflexivity].
  apply find_exact_some in E. destruct E as [_ E]. rewrite a_decl_view in E. congruence.
Qed.

Lemma uunassign_plan_ok w m o t n vo x : uunassign_plan w m o t n vo = Ok (Some x) ->
  uact_ok (w_db w) x /\ uact_flavor x = o_flavor o.
Proof.
  unfold uunassign_plan. intro H.
  assert (G : forall s, uact_ok (w_db w) (UDel s n t (o_flavor o)) /\ uact_flavor (UDel s n t (o_flavor o)) = o_flavor o)
    by (intro s; split; [exact Logic.I|reflexivity]).
  destruct vo as [v|].
  - destruct (find_exact _ _ n v (o_flavor o)) as [[s' r]|]; [|discriminate].
    destruct (opt_str_eqb _ v); [|discriminate]. destruct (o_noaction o); [discriminate|]. inversion H. apply G.
  - destruct (o_stack o) as [s|].
    + destruct (o_noaction o); [discriminate|]. inversion H. apply G.
    + destruct (first_mutagged m _ n t (o_flavor o)) as [[s' v']|].
      * destruct (o_noaction o); [discriminate|]. inversion H. apply G.
      * destruct (find_tagged _ _ n current (o_flavor o)); discriminate.
Qed.

Lemma run_uop_ok tick u fl w m o plan crash w' m' oc :
  clock_strict tick -> u <> upsdb -> INV w -> mem_ok w (Some u) fl m ->
  (forall x, plan = Ok (Some x) -> uact_ok (w_db w) x /\ uact_flavor x = o_flavor o) ->
  run_uop tick false u u fl w m o plan crash = (w', m', oc) ->
  INV w' /\ (oc <> OCrashed -> mem_ok w' (Some u) fl m') /\ wpath w' = wpath w.
Proof.
  intros CS Hu I M HP E. unfold run_uop in E.
  destruct (str_eqb_spec (o_flavor o) fl) as [Efl|N]; cbn [negb] in E.
  2:{ inversion E. subst. auto. }
  destruct plan as [[x|]|e].
  - destruct (HP x eq_refl) as [H1 H2]. eapply run_uact_ok; try eassumption. congruence.
  - inversion E. subst. auto.
  - inversion E. subst. auto.
Qed.

Lemma delete_cache_mem_ok w uo fl m l s f : mem_ok w uo fl m -> mem_ok (delete_cache w l s f) uo fl m.
Proof.
  intros M s' ps H. destruct (M s' ps H) as [[A [U B]] [C D]]. split; [split; [|split]|split]; auto.
  intros l' f' mm p H1 H2. unfold pk_get, delete_cache in H2. cbn [w_pickles] in H2.
  rewrite (glookup_gremove pkey_eqb pkey_eqb_eq) in H2.
  destruct (pkey_eqb (l', s', f') (l, s, f)); [discriminate|]. exact (B l' f' mm p H1 H2).
Qed.

Lemma run_pops_ok tick u fl xs : forall w m crash w' m' ocs,
  clock_strict tick -> u <> upsdb -> INV w -> mem_ok w (Some u) fl m ->
  run_pops tick repaired u u fl w m xs crash = (w', m', ocs) ->
  INV w' /\ wpath w' = wpath w.
Proof.
  induction xs as [|x rest IH]; intros w m crash w' m' ocs CS Hu I M E; cbn [run_pops] in E.
  - inversion E. subst. auto.
  - destruct (run_pop tick repaired u u fl w m x
                (match crash with Some (0, g, b) => Some (g, b) | _ => None end)) as [[w1 m1] oc] eqn:Ep.
    assert (S1 : INV w1 /\ (oc <> OCrashed -> mem_ok w1 (Some u) fl m1) /\ wpath w1 = wpath w).
    { destruct x as [o|l s f|o t n v|o t n vo|o t n v]; cbn [run_pop v_uloc repaired] in Ep.
      - eapply run_op_ok; eassumption.
      - inversion Ep. subst. split; [apply delete_cache_inv; exact I|]. split; [|reflexivity].
        intros _. apply delete_cache_mem_ok. exact M.
      - eapply run_uop_ok; try eassumption. intros x Hx. eapply uassign_plan_ok. exact Hx.
      - eapply run_uop_ok; try eassumption. intros x Hx. eapply uunassign_plan_ok. exact Hx.
      - eapply run_uop_ok; try eassumption. intros x Hx. eapply uassign_plan_ok. exact Hx. }
    destruct S1 as [I1 [M1 P1]].
    destruct oc; try (
      destruct (run_pops tick repaired u u fl w1 m1 rest
                  (match crash with Some (S i, g, b) => Some (i, g, b) | _ => None end)) as [[w2 m2] ocs2] eqn:Er;
      inversion E; subst;
      destruct (IH w1 m1 _ w' m' ocs2 CS Hu I1 (M1 ltac:(discriminate)) Er) as [A B];
      split; [exact A|congruence]).
    inversion E. subst. auto.
Qed.

(* ---------------------------------------------------------------- a whole process, reachable worlds *)

(* the tag directory handed to fromCache belongs to the owner of the cache directory *)
Lemma tag_dir_owner loc u : u <> upsdb -> loc = u \/ loc = upsdb -> tag_dir false loc u = owner loc.
Proof.
  intros Hu [->| ->]; unfold tag_dir, owner.
  - destruct (str_eqb_spec u upsdb); [contradiction|reflexivity].
  - rewrite str_eqb_refl. reflexivity.
Qed.

Lemma load_ok tick w loc u fl w1 m :
  clock_strict tick -> INV w -> NoDup (wpath w) -> u <> upsdb -> loc = u \/ loc = upsdb ->
  load tick repaired w loc u fl = (w1, m) ->
  INV w1 /\ w_db w1 = w_db w /\ w_uc w1 = w_uc w /\ map fst m = wpath w /\
  (forall s ps, alookup s m = Some ps ->
     ps_ok w1 (owner loc) s ps /\ (forall f, In f (fallbacks fl) -> alookup f (ps_lookup ps) <> None)).
Proof.
  intros CS I ND Hu Hl E. unfold load in E. cbn [v_init v_ustale v_shared repaired needed] in E.
  rewrite (tag_dir_owner loc u Hu Hl) in E.
  destruct (load_stacks_ok tick loc (owner loc) (fallbacks fl) (wpath w) w w1 m CS I eq_refl ND E)
    as [A [B [U [C [_ D]]]]]. auto.
Qed.

Lemma p_loc_cases p : p_loc p = p_user p \/ p_loc p = upsdb.
Proof. unfold p_loc. destruct (p_admin p); auto. Qed.

Lemma run_proc_ok tick w p : clock_strict tick -> INV w -> NoDup (wpath w) ->
  p_user p <> upsdb -> (p_admin p = true -> p_ops p = []) ->
  INV (run_proc tick repaired w p) /\ wpath (run_proc tick repaired w p) = wpath w.
Proof.
  intros CS I ND Hu Ha. unfold run_proc, run_proc_full.
  destruct (load tick repaired w (p_loc p) (p_user p) (p_flavor p)) as [w1 m] eqn:El.
  destruct (load_ok tick w _ _ _ w1 m CS I ND Hu (p_loc_cases p) El) as [I1 [D1 [U1 [K1 L1]]]].
  destruct (run_pops tick repaired (p_loc p) (p_user p) (p_flavor p) w1 m (p_ops p) (p_crash p)) as [[w2 m2] ocs] eqn:Er.
  cbn [fst].
  assert (Pw : wpath w1 = wpath w) by (unfold wpath; rewrite D1; reflexivity).
  destruct (p_admin p) eqn:Ead.
  - (* an administrator's instance only loads *)
    rewrite (Ha eq_refl) in Er. cbn [run_pops] in Er. inversion Er. subst. auto.
  - assert (El' : p_loc p = p_user p) by (unfold p_loc; rewrite Ead; reflexivity).
    rewrite El' in *. rewrite (owner_user _ Hu) in L1.
    assert (M1 : mem_ok w1 (Some (p_user p)) (p_flavor p) m).
    { intros s ps H. destruct (L1 s ps H) as [X Y]. split; [exact X|]. split.
      - rewrite <- has_stack_path. apply mem_str_In. rewrite D1. fold (wpath w). rewrite <- K1.
        change (In s (akeys m)). apply alookup_not_None_In. congruence.
      - apply Y. left. reflexivity. }
    destruct (run_pops_ok tick _ _ _ w1 m _ w2 m2 ocs CS Hu I1 M1 Er) as [I2 P2].
    split; [exact I2|]. congruence.
Qed.

Lemma init_path path : wpath (init_world path) = path.
Proof. unfold wpath, init_world, empty_db. cbn [w_db]. rewrite map_map. cbn. apply map_id. Qed.

Lemma reachable_inv tick w : clock_strict tick -> reachable tick repaired w -> INV w /\ NoDup (wpath w).
Proof.
  intros CS R. induction R as [path ND|w p Hu Ha R [I ND]|w loc s fl R [I ND]].
  - split; [apply init_INV|]. rewrite init_path. exact ND.
  - destruct (run_proc_ok tick w p CS I ND Hu Ha) as [A B]. split; [exact A|]. rewrite B. exact ND.
  - split; [apply delete_cache_inv; exact I|exact ND].
Qed.

(* ---------------------------------------------------------------- the answers *)

Lemma q_eval_ext dl dl' tl tl' path q :
  (forall s n v, dl s n v (q_flavor q) = dl' s n v (q_flavor q)) ->
  (forall s n t, tl s n t (q_flavor q) = tl' s n t (q_flavor q)) ->
  q_eval dl tl path q = q_eval dl' tl' path q.
Proof.
  intros HD HT.
  assert (VT : forall s n t, vis_tag dl tl s n t (q_flavor q) = vis_tag dl' tl' s n t (q_flavor q)).
  { intros. unfold vis_tag. rewrite HT. destruct (tl' s n t (q_flavor q)); [|reflexivity]. rewrite HD. reflexivity. }
  destruct q as [s n v f|s n v f|s n v t f|s n t f|n v f|n t f]; cbn [q_flavor] in *; cbn [q_eval].
  - rewrite HD. reflexivity.
  - rewrite HD. reflexivity.
  - rewrite HD, HT. reflexivity.
  - rewrite VT. reflexivity.
  - f_equal. induction path as [|s r IH]; cbn [first_decl]; [reflexivity|]. rewrite HD, IH. reflexivity.
  - f_equal. induction path as [|s r IH]; cbn [first_tagged]; [reflexivity|]. rewrite VT, IH. reflexivity.
Qed.

(* what a freshly loaded instance holds for a stack of the path and a consulted flavor *)
Lemma loaded_facts tick w loc u fl w1 m f :
  clock_strict tick -> INV w -> NoDup (wpath w) -> u <> upsdb -> loc = u \/ loc = upsdb ->
  load tick repaired w loc u fl = (w1, m) -> In f (fallbacks fl) ->
  map fst m = wpath w /\
  (forall s, In s (wpath w) -> exists ps fd, alookup s m = Some ps /\
             alookup f (ps_lookup ps) = Some fd /\ agree fd (w_db w) s f /\
             uagree fd (w_db w) (w_uc w) (owner loc) s f) /\
  (forall s, ~ In s (wpath w) -> alookup s m = None /\ has_stack (w_db w) s = false).
Proof.
  intros CS I ND Hu Hl El Hq.
  destruct (load_ok tick w loc u fl w1 m CS I ND Hu Hl El) as [I1 [D1 [U1 [K1 L1]]]].
  split; [exact K1|]. split.
  - intros s Hs. rewrite <- K1 in Hs. apply In_akeys_alookup in Hs.
    destruct (alookup s m) as [ps|] eqn:Es; [|congruence]. destruct (L1 s ps Es) as [[A [U _]] Y].
    specialize (Y _ Hq). destruct (alookup f (ps_lookup ps)) as [fd|] eqn:Ef; [|congruence].
    exists ps, fd. split; [reflexivity|]. split; [exact Ef|]. rewrite <- D1, <- U1. split; [exact (A _ _ Ef)|].
    intro n. apply (ugood_uagree_n fd (w_db w1) (w_uc w1) (owner loc) s f n (A _ _ Ef n)). apply (U _ _ Ef).
  - intros s Hs. split.
    + destruct (alookup s m) eqn:Es; [|reflexivity]. exfalso. apply Hs. rewrite <- K1.
      change (In s (akeys m)). apply alookup_not_None_In. congruence.
    + rewrite <- has_stack_path. apply mem_str_not_In. exact Hs.
Qed.

Lemma coherent_load tick w loc u fl q :
  clock_strict tick -> reachable tick repaired w -> u <> upsdb -> loc = u \/ loc = upsdb ->
  In (q_flavor q) (fallbacks fl) ->
  q_cache (snd (load tick repaired w loc u fl)) q = q_db w q.
Proof.
  intros CS R Hu Hl Hq. destruct (reachable_inv tick w CS R) as [I ND].
  destruct (load tick repaired w loc u fl) as [w1 m] eqn:El. cbn [snd].
  destruct (loaded_facts tick w loc u fl w1 m (q_flavor q) CS I ND Hu Hl El Hq) as [K1 [InP OutP]].
  unfold q_cache, q_db. rewrite K1. fold (wpath w).
  apply q_eval_ext.
  - intros s n v. unfold mem_decl. destruct (in_dec str_eq_dec s (wpath w)) as [Hs|Hs].
    + destruct (InP s Hs) as [ps [fd [E1 [E2 [A _]]]]]. rewrite E1, E2. apply (A n).
    + destruct (OutP s Hs) as [E1 E2]. rewrite E1. symmetry. apply db_decl_no_stack. exact E2.
  - intros s n t. unfold mem_tag. destruct (in_dec str_eq_dec s (wpath w)) as [Hs|Hs].
    + destruct (InP s Hs) as [ps [fd [E1 [E2 [A _]]]]]. rewrite E1, E2. apply (A n).
    + destruct (OutP s Hs) as [E1 E2]. rewrite E1. symmetry. apply db_tag_no_stack. exact E2.
Qed.

(* the same for the user tags of the asking user (not an administrator: his instance holds none) *)
Lemma ucoherent_load tick w u fl q :
  clock_strict tick -> reachable tick repaired w -> u <> upsdb ->
  In (uq_flavor q) (fallbacks fl) ->
  uq_cache (snd (load tick repaired w u u fl)) q = uq_db w u q.
Proof.
  intros CS R Hu Hq. destruct (reachable_inv tick w CS R) as [I ND].
  destruct (load tick repaired w u u fl) as [w1 m] eqn:El. cbn [snd].
  destruct (loaded_facts tick w u u fl w1 m (uq_flavor q) CS I ND Hu (or_introl eq_refl) El Hq) as [K1 [InP OutP]].
  rewrite (owner_user u Hu) in InP.
  unfold uq_cache, uq_db. rewrite K1. fold (wpath w).
  set (f := uq_flavor q) in *.
  assert (HD : forall s n v, mem_decl m s n v f = db_decl (w_db w) s n v f).
  { intros s n v. unfold mem_decl. destruct (in_dec str_eq_dec s (wpath w)) as [Hs|Hs].
    - destruct (InP s Hs) as [ps [fd [E1 [E2 [A _]]]]]. rewrite E1, E2. apply (A n).
    - destruct (OutP s Hs) as [E1 E2]. rewrite E1. symmetry. apply db_decl_no_stack. exact E2. }
  assert (HU : forall s n t, mem_utag m s n t f = vis_u (w_db w) (w_uc w) (Some u) s n t f).
  { intros s n t. unfold mem_utag. destruct (in_dec str_eq_dec s (wpath w)) as [Hs|Hs].
    - destruct (InP s Hs) as [ps [fd [E1 [E2 [_ U]]]]]. rewrite E1, E2. apply (U n).
    - destruct (OutP s Hs) as [E1 E2]. rewrite E1. symmetry. apply no_decl_no_vis.
      intro v. apply db_decl_no_stack. exact E2. }
  assert (VT : forall s n t, vis_tag (mem_decl m) (mem_utag m) s n t f =
                             vis_tag (db_decl (w_db w)) (fun s n t f => uc_tag (w_uc w) u s n t f) s n t f).
  { intros s n t. unfold vis_tag. rewrite HU. unfold vis_u.
    destruct (uc_tag (w_uc w) u s n t f) as [v|]; [|reflexivity].
    destruct (db_decl (w_db w) s n v f) eqn:Ed; cbn [is_some]; [|reflexivity]. rewrite HD, Ed. reflexivity. }
  destruct q as [s n v t f0|s n t f0|n t f0]; cbn [uq_flavor] in f; subst f; cbn [uq_eval].
  - rewrite HD, HU. unfold vis_u. f_equal.
    destruct (db_decl (w_db w) s n v f0) eqn:Ed; cbn [is_some andb]; [|reflexivity].
    destruct (uc_tag (w_uc w) u s n t f0) as [v'|]; cbn [opt_str_eqb]; [|reflexivity].
    destruct (str_eqb_spec v' v) as [->|N].
    + rewrite Ed. cbn [is_some opt_str_eqb]. apply str_eqb_refl.
    + destruct (is_some (db_decl (w_db w) s n v' f0)); cbn [opt_str_eqb]; [|reflexivity].
      destruct (str_eqb_spec v' v); [contradiction|reflexivity].
  - rewrite VT. reflexivity.
  - f_equal. clear ND K1 InP OutP. induction (wpath w) as [|s r IH]; cbn [first_tagged]; [reflexivity|]. rewrite VT, IH. reflexivity.
Qed.

(* ---------------------------------------------------------------- the repaired answers: every flavor *)

(* what a freshly loaded instance holds: every stack of the path, and every flavor it holds agrees *)
Lemma loaded_all tick w loc u fl w1 m :
  clock_strict tick -> INV w -> NoDup (wpath w) -> u <> upsdb -> loc = u \/ loc = upsdb ->
  load tick repaired w loc u fl = (w1, m) ->
  map fst m = wpath w /\ w_db w1 = w_db w /\ w_uc w1 = w_uc w /\
  (forall s, In s (wpath w) -> exists ps, alookup s m = Some ps /\
     (forall f, In f (fallbacks fl) -> alookup f (ps_lookup ps) <> None) /\
     (forall f fd, alookup f (ps_lookup ps) = Some fd ->
        agree fd (w_db w) s f /\ uagree fd (w_db w) (w_uc w) (owner loc) s f)) /\
  (forall s, ~ In s (wpath w) -> alookup s m = None /\ has_stack (w_db w) s = false).
Proof.
  intros CS I ND Hu Hl El.
  destruct (load_ok tick w loc u fl w1 m CS I ND Hu Hl El) as [I1 [D1 [U1 [K1 L1]]]].
  split; [exact K1|]. split; [exact D1|]. split; [exact U1|]. split.
  - intros s Hs. rewrite <- K1 in Hs. apply In_akeys_alookup in Hs.
    destruct (alookup s m) as [ps|] eqn:Es; [|congruence]. destruct (L1 s ps Es) as [[A [U _]] Y].
    exists ps. split; [reflexivity|]. split; [exact Y|]. intros f fd Ef. rewrite <- D1, <- U1.
    split; [exact (A _ _ Ef)|]. intro n.
    apply (ugood_uagree_n fd (w_db w1) (w_uc w1) (owner loc) s f n (A _ _ Ef n)). apply (U _ _ Ef).
  - intros s Hs. split.
    + destruct (alookup s m) eqn:Es; [|reflexivity]. exfalso. apply Hs. rewrite <- K1.
      change (In s (akeys m)). apply alookup_not_None_In. congruence.
    + rewrite <- has_stack_path. apply mem_str_not_In. exact Hs.
Qed.

(* whatever flavor is asked about: the stack answers for the flavors it holds, the files for the others *)
Lemma coherent_load_served tick w loc u fl q :
  clock_strict tick -> reachable tick repaired w -> u <> upsdb -> loc = u \/ loc = upsdb ->
  q_served (fst (load tick repaired w loc u fl)) (snd (load tick repaired w loc u fl)) q = q_db w q.
Proof.
  intros CS R Hu Hl. destruct (reachable_inv tick w CS R) as [I ND].
  destruct (load tick repaired w loc u fl) as [w1 m] eqn:El. cbn [fst snd].
  destruct (loaded_all tick w loc u fl w1 m CS I ND Hu Hl El) as [K1 [D1 [U1 [InP OutP]]]].
  unfold q_served, q_db. rewrite K1. fold (wpath w).
  apply q_eval_ext.
  - intros s n v. unfold srv_decl. destruct (in_dec str_eq_dec s (wpath w)) as [Hs|Hs].
    + destruct (InP s Hs) as [ps [E1 [_ A]]]. rewrite E1.
      destruct (alookup (q_flavor q) (ps_lookup ps)) as [fd|] eqn:E2; [apply (proj1 (A _ _ E2) n)|rewrite D1; reflexivity].
    + destruct (OutP s Hs) as [E1 E2]. rewrite E1. symmetry. apply db_decl_no_stack. exact E2.
  - intros s n t. unfold srv_tag. destruct (in_dec str_eq_dec s (wpath w)) as [Hs|Hs].
    + destruct (InP s Hs) as [ps [E1 [_ A]]]. rewrite E1.
      destruct (alookup (q_flavor q) (ps_lookup ps)) as [fd|] eqn:E2; [apply (proj1 (A _ _ E2) n)|rewrite D1; reflexivity].
    + destruct (OutP s Hs) as [E1 E2]. rewrite E1. symmetry. apply db_tag_no_stack. exact E2.
Qed.

Definition uq_tag (q : uquery) : str :=
  match q with UQHasTag _ _ _ t _ | UQTagged _ _ t _ | UQFindTagged _ t _ => t end.

(* the user tags of the asking user, for a flavor he consults or for a tag name that no chain file of a
   stack bears (Database.getChainFile looks there first) *)
Lemma ucoherent_load_served tick w u fl q :
  clock_strict tick -> reachable tick repaired w -> u <> upsdb ->
  In (uq_flavor q) (fallbacks fl) \/ (forall s n, db_cfile (w_db w) s (n, uq_tag q) = None) ->
  uq_served (fst (load tick repaired w u u fl)) (snd (load tick repaired w u u fl)) u q = uq_db w u q.
Proof.
  intros CS R Hu Hq. destruct (reachable_inv tick w CS R) as [I ND].
  destruct (load tick repaired w u u fl) as [w1 m] eqn:El. cbn [fst snd].
  destruct (loaded_all tick w u u fl w1 m CS I ND Hu (or_introl eq_refl) El) as [K1 [D1 [U1 [InP OutP]]]].
  rewrite (owner_user u Hu) in InP.
  unfold uq_served, uq_db. rewrite K1. fold (wpath w).
  set (f := uq_flavor q) in *. set (t := uq_tag q) in *.
  assert (HD : forall s n v, srv_decl w1 m s n v f = db_decl (w_db w) s n v f).
  { intros s n v. unfold srv_decl. destruct (in_dec str_eq_dec s (wpath w)) as [Hs|Hs].
    - destruct (InP s Hs) as [ps [E1 [_ A]]]. rewrite E1.
      destruct (alookup f (ps_lookup ps)) as [fd|] eqn:E2; [apply (proj1 (A _ _ E2) n)|rewrite D1; reflexivity].
    - destruct (OutP s Hs) as [E1 E2]. rewrite E1. symmetry. apply db_decl_no_stack. exact E2. }
  (* what is served for (s, n): the visible tag of the tag directory when the flavor is held, else the fall-back *)
  assert (HU : forall fb s n,
            (In s (wpath w) -> fb s n t f = uc_tag (w_uc w) u s n t f) ->
            srv_utag fb m s n t f = vis_u (w_db w) (w_uc w) (Some u) s n t f \/
            srv_utag fb m s n t f = uc_tag (w_uc w) u s n t f).
  { intros fb s n Hfb. unfold srv_utag. destruct (in_dec str_eq_dec s (wpath w)) as [Hs|Hs].
    - destruct (InP s Hs) as [ps [E1 [_ A]]]. rewrite E1.
      destruct (alookup f (ps_lookup ps)) as [fd|] eqn:E2; [left; apply (proj2 (A _ _ E2) n)|right; apply Hfb; exact Hs].
    - destruct (OutP s Hs) as [E1 E2]. rewrite E1. left. symmetry. apply no_decl_no_vis.
      intro v. apply db_decl_no_stack. exact E2. }
  assert (VT : forall fb s n, (In s (wpath w) -> fb s n t f = uc_tag (w_uc w) u s n t f) ->
            vis_tag (srv_decl w1 m) (srv_utag fb m) s n t f =
            vis_tag (db_decl (w_db w)) (fun s n t f => uc_tag (w_uc w) u s n t f) s n t f).
  { intros fb s n Hfb. unfold vis_tag. destruct (HU fb s n Hfb) as [E|E]; rewrite E.
    - unfold vis_u. destruct (uc_tag (w_uc w) u s n t f) as [v|]; [|reflexivity].
      destruct (db_decl (w_db w) s n v f) eqn:Ed; cbn [is_some]; [|reflexivity]. rewrite HD, Ed. reflexivity.
    - destruct (uc_tag (w_uc w) u s n t f) as [v|]; [|reflexivity]. rewrite HD. reflexivity. }
  (* where the fall-back of findTaggedProduct is consulted -- a stack of the path that does not hold the flavor --
     it is the tag directory, by the hypothesis *)
  assert (FB : forall s n, srv_utag (ufile_tag w1 u) m s n t f =
                           srv_utag (fun s n t f => uc_tag (w_uc w) u s n t f) m s n t f).
  { intros s n. unfold srv_utag. destruct (alookup s m) as [ps|] eqn:E1; [|reflexivity].
    destruct (alookup f (ps_lookup ps)) as [fd|] eqn:E2; [reflexivity|].
    assert (Hs : In s (wpath w)).
    { rewrite <- K1. change (In s (akeys m)). apply alookup_not_None_In. congruence. }
    destruct Hq as [Hf|Hc].
    - exfalso. destruct (InP s Hs) as [ps' [E1' [L _]]]. rewrite E1 in E1'. inversion E1'. subst ps'.
      apply (L f Hf). exact E2.
    - unfold ufile_tag. rewrite D1, (Hc s n), U1. reflexivity. }
  assert (VT2 : forall s n, vis_tag (srv_decl w1 m) (srv_utag (ufile_tag w1 u) m) s n t f =
            vis_tag (db_decl (w_db w)) (fun s n t f => uc_tag (w_uc w) u s n t f) s n t f).
  { intros s n. unfold vis_tag at 1. rewrite FB.
    apply (VT (fun s n t f => uc_tag (w_uc w) u s n t f) s n). reflexivity. }
  destruct q as [s n v t0 f0|s n t0 f0|n t0 f0]; cbn [uq_flavor uq_tag] in f, t; subst f t; cbn [uq_eval].
  - (* product.tags: the fall-back is the tag directory itself *)
    rewrite HD. f_equal.
    destruct (HU (fun s n t f => uc_tag (w_uc w1) u s n t f) s n) as [E|E];
      [intros; rewrite U1; reflexivity| |]; rewrite E; [|reflexivity].
    unfold vis_u. destruct (db_decl (w_db w) s n v f0) eqn:Ed; cbn [is_some andb]; [|reflexivity].
    destruct (uc_tag (w_uc w) u s n t0 f0) as [v'|]; cbn [opt_str_eqb]; [|reflexivity].
    destruct (str_eqb_spec v' v) as [->|N].
    + rewrite Ed. cbn [is_some opt_str_eqb]. apply str_eqb_refl.
    + destruct (is_some (db_decl (w_db w) s n v' f0)); cbn [opt_str_eqb]; [|reflexivity].
      destruct (str_eqb_spec v' v); [contradiction|reflexivity].
  - rewrite VT2. reflexivity.
  - f_equal. clear ND K1 InP OutP HU VT FB. induction (wpath w) as [|s r IH]; cbn [first_tagged]; [reflexivity|].
    rewrite VT2, IH. reflexivity.
Qed.
