(* refreshFromDatabase yields data that agrees with the files, for every flavor. *)
From Eupsv Require Import Base.Base Base.BaseLemmas Model.Db Model.Cache.
From Eupsv Require Import Proofs.DbLib Proofs.Db Proofs.DbSim Proofs.DbInv Proofs.DbCor Proofs.CacheLib Proofs.CacheWt.

Lemma alookup_flat_map_guard {A V} (h : A -> list (str * V)) (p : A -> bool) (g : str -> option V)
  (key : A -> str) (l : list A) k :
  (forall a, h a = if p a then match g (key a) with Some v => [(key a, v)] | None => [] end else []) ->
  alookup k (flat_map h l) = if existsb (fun a => p a && str_eqb k (key a)) l then g k else None.
Proof.
  intro Hh. induction l as [|a l IH]; cbn [flat_map existsb]; [reflexivity|].
  rewrite Hh. destruct (p a); cbn [andb app]; [|exact IH].
  destruct (str_eqb_spec k (key a)) as [->|N]; cbn [orb].
  - destruct (g (key a)) as [v|] eqn:G; cbn [app alookup].
    + rewrite str_eqb_refl. reflexivity.
    + rewrite IH. destruct (existsb _ l); reflexivity.
  - destruct (g (key a)) as [v|]; cbn [app alookup]; [|exact IH].
    destruct (str_eqb_spec k (key a)); [contradiction|exact IH].
Qed.

Lemma stack_of_lookup d s st : alookup s d = Some st -> stack_of d s = st.
Proof. intro H. unfold stack_of. rewrite H. reflexivity. Qed.

Lemma db_decl_In d s n v f r : db_decl d s n v f = Some r ->
  exists c, In ((n, v), c) (vfiles (stack_of d s)) /\ alookup f c = Some r.
Proof.
  unfold db_decl, db_vfile. destruct (alookup s d) as [st|] eqn:Es; [|discriminate].
  destruct (glookup key_eqb (n, v) (vfiles st)) as [c|] eqn:Ec; [|discriminate].
  intro H. exists c. rewrite (stack_of_lookup _ _ _ Es). split; [|exact H].
  exact (glookup_In key_eqb key_eqb_eq _ _ _ Ec).
Qed.

Lemma db_tag_In d s n t f v : db_tag d s n t f = Some v ->
  exists c, In ((n, t), c) (cfiles (stack_of d s)) /\ alookup f c = Some v.
Proof.
  unfold db_tag, db_cfile. destruct (alookup s d) as [st|] eqn:Es; [|discriminate].
  destruct (glookup key_eqb (n, t) (cfiles st)) as [c|] eqn:Ec; [|discriminate].
  intro H. exists c. rewrite (stack_of_lookup _ _ _ Es). split; [|exact H].
  exact (glookup_In key_eqb key_eqb_eq _ _ _ Ec).
Qed.

Lemma db_names_In d s n : In n (db_names d s) <-> exists v c, In ((n, v), c) (vfiles (stack_of d s)).
Proof.
  unfold db_names. rewrite uniq_In, in_map_iff. split.
  - intros [[[n' v] c] [H1 H2]]. cbn in H1. subst n'. exists v, c. exact H2.
  - intros [v [c H]]. exists ((n, v), c). split; [reflexivity|exact H].
Qed.

Lemma db_decl_named d s n v f r : db_decl d s n v f = Some r -> In n (db_names d s).
Proof. intro H. destruct (db_decl_In _ _ _ _ _ _ H) as [c [H1 _]]. apply db_names_In. eauto. Qed.

Lemma db_decl_flavor d s n v f r : db_decl d s n v f = Some r -> In f (db_flavors d s).
Proof.
  intro H. destruct (db_decl_In _ _ _ _ _ _ H) as [c [H1 H2]].
  unfold db_flavors. rewrite uniq_In, in_flat_map. exists ((n, v), c). split; [exact H1|].
  cbn [snd]. apply alookup_not_None_In. congruence.
Qed.

Lemma not_named_no_decl d s n : ~ In n (db_names d s) -> forall v f, db_decl d s n v f = None.
Proof.
  intros H v f. destruct (db_decl d s n v f) eqn:E; [|reflexivity].
  exfalso. apply H. eapply db_decl_named. exact E.
Qed.

Lemma rebuild_versions d uc utd s f n v :
  alookup v (f_versions (rebuild_family d uc utd s f n)) = db_decl d s n v f.
Proof.
  cbn [rebuild_family f_versions].
  rewrite (alookup_flat_map_guard _ (fun kv : key * vcontent => str_eqb (vname kv) n)
             (fun v => db_decl d s n v f) (fun kv : key * vcontent => snd (fst kv)))
    by (intros [[n' v'] c]; reflexivity).
  destruct (db_decl d s n v f) as [r|] eqn:E; [|destruct (existsb _ _); reflexivity].
  destruct (db_decl_In _ _ _ _ _ _ E) as [c [H1 _]].
  assert (X : existsb (fun a : key * vcontent => str_eqb (vname a) n && str_eqb v (snd (fst a)))
                (vfiles (stack_of d s)) = true).
  { apply existsb_exists. exists ((n, v), c). split; [exact H1|]. cbn. rewrite !str_eqb_refl. reflexivity. }
  rewrite X. reflexivity.
Qed.

Lemma rebuild_tags d uc utd s f n t : no_dangling (view d) ->
  alookup t (f_tags (rebuild_family d uc utd s f n)) = db_tag d s n t f.
Proof.
  intro ND. cbn [rebuild_family f_tags].
  rewrite (alookup_flat_map_guard _ (fun kv : key * ccontent => str_eqb (cname kv) n)
             (fun t => match db_tag d s n t f with
                       | Some v => if is_some (db_decl d s n v f) then Some v else None
                       | None => None end) (fun kv : key * ccontent => snd (fst kv))).
  2:{ intros [[n' t'] c]. cbn [fst snd cname]. destruct (str_eqb n' n); [|reflexivity].
      destruct (db_tag d s n t' f) as [v|]; [|reflexivity]. destruct (is_some (db_decl d s n v f)); reflexivity. }
  destruct (db_tag d s n t f) as [v|] eqn:E; [|destruct (existsb _ _); reflexivity].
  pose proof (proj1 (no_dangling_db d) ND s n t f v E) as Hd.
  destruct (db_decl d s n v f) as [r|]; [|congruence]. cbn [is_some].
  destruct (db_tag_In _ _ _ _ _ _ E) as [c [H1 _]].
  assert (X : existsb (fun a : key * ccontent => str_eqb (cname a) n && str_eqb t (snd (fst a)))
                (cfiles (stack_of d s)) = true).
  { apply existsb_exists. exists ((n, t), c). split; [exact H1|]. cbn. rewrite !str_eqb_refl. reflexivity. }
  rewrite X. reflexivity.
Qed.

Lemma rebuild_fdata_lookup d uc utd s f n :
  alookup n (rebuild_fdata d uc utd s f) =
  if mem_str n (db_names d s) && negb (is_nil (f_versions (rebuild_family d uc utd s f n)))
  then Some (rebuild_family d uc utd s f n) else None.
Proof.
  unfold rebuild_fdata.
  rewrite (alookup_flat_map_guard _ (fun _ => true)
             (fun n => if is_nil (f_versions (rebuild_family d uc utd s f n)) then None else Some (rebuild_family d uc utd s f n))
             (fun n => n)).
  2:{ intro a. cbv beta zeta. destruct (is_nil (f_versions (rebuild_family d uc utd s f a))); reflexivity. }
  assert (E : existsb (fun a => true && str_eqb n a) (db_names d s) = mem_str n (db_names d s)).
  { induction (db_names d s) as [|y l IH]; cbn [existsb mem_str]; [reflexivity|]. rewrite IH. cbn [andb]. destruct (str_eqb n y); reflexivity. }
  rewrite E. destruct (mem_str n (db_names d s)); cbn [andb]; [|reflexivity].
  destruct (is_nil (f_versions (rebuild_family d uc utd s f n))); reflexivity.
Qed.

Lemma rebuild_agree d uc utd s f : no_dangling (view d) -> agree (rebuild_fdata d uc utd s f) d s f.
Proof.
  intros ND n.
  assert (NoFam : alookup n (rebuild_fdata d uc utd s f) = None -> forall v, db_decl d s n v f = None).
  { rewrite rebuild_fdata_lookup. intros H v. destruct (db_decl d s n v f) as [r|] eqn:E; [|reflexivity]. exfalso.
    assert (H1 : mem_str n (db_names d s) = true) by (apply mem_str_In; eapply db_decl_named; exact E).
    rewrite H1 in H. cbn [andb] in H.
    destruct (is_nil (f_versions (rebuild_family d uc utd s f n))) eqn:En; [|discriminate].
    apply is_nil_true in En. pose proof (rebuild_versions d uc utd s f n v) as R. rewrite En, E in R. discriminate. }
  split; intro k.
  - unfold fd_decl. destruct (alookup n (rebuild_fdata d uc utd s f)) as [fm|] eqn:E.
    + rewrite rebuild_fdata_lookup in E. destruct (_ && _); inversion E. apply rebuild_versions.
    + symmetry. apply NoFam. reflexivity.
  - unfold fd_tag. destruct (alookup n (rebuild_fdata d uc utd s f)) as [fm|] eqn:E.
    + rewrite rebuild_fdata_lookup in E. destruct (_ && _); inversion E. apply rebuild_tags. exact ND.
    + destruct (db_tag d s n k f) as [v|] eqn:Et; [|reflexivity]. exfalso.
      apply (proj1 (no_dangling_db d) ND s n k f v Et). apply NoFam. reflexivity.
Qed.

Lemma rebuild_lookup_lookup d uc utd s f :
  alookup f (rebuild_lookup d uc utd s) = if mem_str f (db_flavors d s) then Some (rebuild_fdata d uc utd s f) else None.
Proof.
  unfold rebuild_lookup. induction (db_flavors d s) as [|y l IH]; cbn; [reflexivity|].
  destruct (str_eqb_spec f y) as [->|N]; [reflexivity|exact IH].
Qed.

(* a flavor without declarations in the stack: the empty data agrees *)
Lemma empty_agree d s f : no_dangling (view d) -> ~ In f (db_flavors d s) -> agree [] d s f.
Proof.
  intros ND H n.
  assert (D : forall v, db_decl d s n v f = None).
  { intro v. destruct (db_decl d s n v f) eqn:E; [|reflexivity]. exfalso. apply H. eapply db_decl_flavor. exact E. }
  split; intro k; cbn.
  - symmetry. apply D.
  - destruct (db_tag d s n k f) as [v|] eqn:Et; [|reflexivity]. exfalso.
    apply (proj1 (no_dangling_db d) ND s n k f v Et). apply D.
Qed.
