(* User tags in the cache: what it means for loaded data to agree with the tag directory of a user,
   and the content lemmas: a rebuild agrees, ProductStack._loadUserTags on top of data without user
   tags agrees, the write-through of every record-level action and of the two user-tag calls keeps
   the agreement. *)
From Eupsv Require Import Base.Base Base.BaseLemmas Model.Db Model.Cache.
From Eupsv Require Import Proofs.DbLib Proofs.Db Proofs.DbSim Proofs.DbInv Proofs.DbCor.
From Eupsv Require Import Proofs.CacheLib Proofs.CacheWt Proofs.CacheRebuild.
From Coq Require Import Lia.

(* the version that user tag t designates for a reader who reads the tag directory of uo (nobody's:
   no user tag): what the chain file says, when that version is declared *)
Definition vis_u (d : db) (uc : list (ukey * ccontent)) (uo : option str) (s n t f : str) : option str :=
  match uo with
  | None => None
  | Some u => match uc_tag uc u s n t f with
              | Some v => if is_some (db_decl d s n v f) then Some v else None
              | None => None
              end
  end.

Definition uagree_n (fd : fdata) (d : db) (uc : list (ukey * ccontent)) (uo : option str) (s f n : str) : Prop :=
  forall t, fd_utag fd n t = vis_u d uc uo s n t f.

Definition uagree (fd : fdata) (d : db) (uc : list (ukey * ccontent)) (uo : option str) (s f : str) : Prop :=
  forall n, uagree_n fd d uc uo s f n.

Definition ulookup_agree (ps : pstack) (d : db) (uc : list (ukey * ccontent)) (uo : option str) (s : str) : Prop :=
  forall f fd, alookup f (ps_lookup ps) = Some fd -> uagree fd d uc uo s f.

(* whose tag directory a cache directory is *)
Definition owner (loc : str) : option str := if str_eqb loc upsdb then None else Some loc.

Lemma fd_utag_fam fd n t : fd_utag fd n t = alookup t (f_utags (fam_of fd n)).
Proof. unfold fd_utag, fam_of. destruct (alookup n fd); reflexivity. Qed.

Lemma fd_utag_aset n fm fd n' t :
  fd_utag (aset n fm fd) n' t = if str_eqb n' n then alookup t (f_utags fm) else fd_utag fd n' t.
Proof. unfold fd_utag. rewrite alookup_aset. destruct (str_eqb n' n); reflexivity. Qed.

Lemma fd_utag_aremove n fd n' t :
  fd_utag (aremove n fd) n' t = if str_eqb n' n then None else fd_utag fd n' t.
Proof. unfold fd_utag. rewrite alookup_aremove. destruct (str_eqb n' n); reflexivity. Qed.

(* ---------------------------------------------------------------- the chain files of a tag directory *)

Lemma uc_tags_In uc u s n t : In t (uc_tags uc u s n) <-> glookup ukey_eqb (u, s, n, t) uc <> None.
Proof.
  unfold uc_tags. induction uc as [|[[[[u' s'] n'] t'] c] uc IH]; cbn [flat_map glookup fst snd].
  - split; [intros []|intro H; congruence].
  - rewrite in_app_iff, IH. destruct (ukey_eqb (u, s, n, t) (u', s', n', t')) eqn:E.
    + apply ukey_eqb_eq in E. inversion E. subst. rewrite !str_eqb_refl. cbn [andb].
      split; [intros _; discriminate|intros _; left; left; reflexivity].
    + split; [intros [H|H]; [|exact H]|intro H; right; exact H].
      exfalso. destruct (str_eqb u' u && str_eqb s' s && str_eqb n' n) eqn:B; [|destruct H].
      destruct H as [H|[]]. subst t'. rewrite !andb_true_iff, !str_eqb_eq in B. destruct B as [[-> ->] ->].
      assert (T : ukey_eqb (u, s, n, t) (u, s, n, t) = true) by (apply ukey_eqb_eq; reflexivity). congruence.
Qed.

Lemma uc_tag_absent uc u s n t f : ~ In t (uc_tags uc u s n) -> uc_tag uc u s n t f = None.
Proof.
  intro H. unfold uc_tag, uc_file. destruct (glookup ukey_eqb (u, s, n, t) uc) eqn:E; [|reflexivity].
  exfalso. apply H. apply uc_tags_In. congruence.
Qed.

(* ---------------------------------------------------------------- refreshFromDatabase(tag directory) *)

Lemma rebuild_utags_lookup d uc uo s f n t :
  alookup t (rebuild_utags d uc uo s f n) = vis_u d uc uo s n t f.
Proof.
  unfold rebuild_utags, vis_u. destruct uo as [u|]; [|reflexivity].
  rewrite (alookup_flat_map_guard _ (fun _ => true)
             (fun t => match uc_tag uc u s n t f with
                       | Some v => if is_some (db_decl d s n v f) then Some v else None
                       | None => None end) (fun t => t)).
  2:{ intro a. cbv beta. destruct (uc_tag uc u s n a f) as [v|]; [|reflexivity].
      destruct (is_some (db_decl d s n v f)); reflexivity. }
  destruct (existsb (fun a => true && str_eqb t a) (uc_tags uc u s n)) eqn:E; [reflexivity|].
  rewrite uc_tag_absent; [reflexivity|]. intro I.
  assert (X : existsb (fun a => true && str_eqb t a) (uc_tags uc u s n) = true).
  { apply existsb_exists. exists t. split; [exact I|]. cbn. apply str_eqb_refl. }
  congruence.
Qed.

Lemma vis_u_declared d uc uo s n t f v : vis_u d uc uo s n t f = Some v -> db_decl d s n v f <> None.
Proof.
  unfold vis_u. destruct uo as [u|]; [|discriminate]. destruct (uc_tag uc u s n t f) as [v'|]; [|discriminate].
  destruct (db_decl d s n v' f) eqn:E; cbn; [|discriminate]. intro H. inversion H. subst. congruence.
Qed.

Lemma rebuild_uagree d uc uo s f : uagree (rebuild_fdata d uc uo s f) d uc uo s f.
Proof.
  intros n t. unfold fd_utag. rewrite rebuild_fdata_lookup.
  destruct (mem_str n (db_names d s) && negb (is_nil (f_versions (rebuild_family d uc uo s f n)))) eqn:E.
  - cbn [rebuild_family f_utags]. apply rebuild_utags_lookup.
  - destruct (vis_u d uc uo s n t f) as [v|] eqn:V; [|reflexivity]. exfalso.
    apply vis_u_declared in V. rewrite <- (rebuild_versions d uc uo s f n v) in V.
    apply andb_false_iff in E. destruct E as [E|E].
    + apply V. rewrite rebuild_versions. apply not_named_no_decl. intro I. apply mem_str_In in I. congruence.
    + apply negb_false_iff, is_nil_true in E. rewrite E in V. apply V. reflexivity.
Qed.

(* ---------------------------------------------------------------- the same, said about the data alone *)

(* under [agree] a version is declared exactly when the data has it: the agreement of the user tags is
   a property of the data and the tag directory *)
Definition vis_fd (fd : fdata) (uc : list (ukey * ccontent)) (u s n t f : str) : option str :=
  match uc_tag uc u s n t f with
  | Some v => if is_some (fd_decl fd n v) then Some v else None
  | None => None
  end.

Definition ugood_n (fd : fdata) (uc : list (ukey * ccontent)) (uo : option str) (s f n : str) : Prop :=
  forall t, fd_utag fd n t = match uo with None => None | Some u => vis_fd fd uc u s n t f end.

Definition ugood (fd : fdata) (uc : list (ukey * ccontent)) (uo : option str) (s f : str) : Prop :=
  forall n, ugood_n fd uc uo s f n.

Lemma ugood_uagree_n fd d uc uo s f n : agree_n fd d s f n -> (ugood_n fd uc uo s f n <-> uagree_n fd d uc uo s f n).
Proof.
  intros [A _]. unfold ugood_n, uagree_n, vis_u, vis_fd.
  split; intros H t; rewrite H; destruct uo as [u|]; try reflexivity;
    destruct (uc_tag uc u s n t f) as [v|]; try reflexivity; rewrite A; reflexivity.
Qed.

Definition ps_ugood (ps : pstack) (uc : list (ukey * ccontent)) (uo : option str) (s : str) : Prop :=
  forall f fd, alookup f (ps_lookup ps) = Some fd -> ugood fd uc uo s f.

Lemma ps_ugood_uagree ps d uc uo s : lookup_agree ps d s -> (ps_ugood ps uc uo s <-> ulookup_agree ps d uc uo s).
Proof.
  intro A. split; intros H f fd E n; apply (ugood_uagree_n fd d uc uo s f n (A f fd E n)); apply (H f fd E).
Qed.

(* ---------------------------------------------------------------- writes in a tag directory *)

Lemma uc_tag_gset uc u s n t c u' s' n' t' f' :
  uc_tag (gset ukey_eqb (u, s, n, t) c uc) u' s' n' t' f' =
  if ukey_eqb (u', s', n', t') (u, s, n, t) then alookup f' c else uc_tag uc u' s' n' t' f'.
Proof.
  unfold uc_tag, uc_file. rewrite (glookup_gset ukey_eqb ukey_eqb_eq).
  destruct (ukey_eqb (u', s', n', t') (u, s, n, t)); reflexivity.
Qed.

Lemma uc_tag_gremove uc u s n t u' s' n' t' f' :
  uc_tag (gremove ukey_eqb (u, s, n, t) uc) u' s' n' t' f' =
  if ukey_eqb (u', s', n', t') (u, s, n, t) then None else uc_tag uc u' s' n' t' f'.
Proof.
  unfold uc_tag, uc_file. rewrite (glookup_gremove ukey_eqb ukey_eqb_eq).
  destruct (ukey_eqb (u', s', n', t') (u, s, n, t)); reflexivity.
Qed.

Lemma do_uset_uc_tag tick w u s n t f v u' s' n' t' f' :
  uc_tag (w_uc (do_uset tick w u s n t f v)) u' s' n' t' f' =
  if ukey_eqb (u', s', n', t') (u, s, n, t) && str_eqb f' f then Some v else uc_tag (w_uc w) u' s' n' t' f'.
Proof.
  unfold do_uset. cbn [w_uc]. rewrite uc_tag_gset.
  destruct (ukey_eqb (u', s', n', t') (u, s, n, t)) eqn:E; cbn [andb]; [|reflexivity].
  apply ukey_eqb_eq in E. inversion E. subst. rewrite alookup_aset. destruct (str_eqb f' f); reflexivity.
Qed.

Lemma do_udel_uc_tag tick w u s n t f u' s' n' t' f' :
  uc_tag (w_uc (do_udel tick w u s n t f)) u' s' n' t' f' =
  if ukey_eqb (u', s', n', t') (u, s, n, t) && str_eqb f' f then None else uc_tag (w_uc w) u' s' n' t' f'.
Proof.
  unfold do_udel.
  destruct (ukey_eqb (u', s', n', t') (u, s, n, t)) eqn:E; cbn [andb].
  - apply ukey_eqb_eq in E. inversion E. subst u' s' n' t'.
    destruct (amem f (uc_file (w_uc w) u s n t)) eqn:M.
    + destruct (is_nil (aremove f (uc_file (w_uc w) u s n t))) eqn:Nil; cbn [w_uc].
      * rewrite uc_tag_gremove. replace (ukey_eqb (u, s, n, t) (u, s, n, t)) with true
          by (symmetry; apply ukey_eqb_eq; reflexivity).
        destruct (str_eqb_spec f' f) as [->|N]; [reflexivity|].
        apply is_nil_true in Nil. unfold uc_tag. symmetry. apply (aremove_nil_lookup _ _ Nil). exact N.
      * rewrite uc_tag_gset. replace (ukey_eqb (u, s, n, t) (u, s, n, t)) with true
          by (symmetry; apply ukey_eqb_eq; reflexivity).
        rewrite alookup_aremove. destruct (str_eqb f' f); reflexivity.
    + destruct (str_eqb_spec f' f) as [->|N]; [|reflexivity].
      unfold uc_tag. destruct (alookup f (uc_file (w_uc w) u s n t)) eqn:L; [|reflexivity].
      exfalso. assert (X : amem f (uc_file (w_uc w) u s n t) = true) by (apply amem_true; congruence). congruence.
  - destruct (amem f (uc_file (w_uc w) u s n t)); [|reflexivity].
    destruct (is_nil (aremove f (uc_file (w_uc w) u s n t))); cbn [w_uc].
    + rewrite uc_tag_gremove, E. reflexivity.
    + rewrite uc_tag_gset, E. reflexivity.
Qed.

Lemma do_udel_db tick w u s n t f : w_db (do_udel tick w u s n t f) = w_db w.
Proof.
  unfold do_udel. destruct (amem f _); [|reflexivity]. destruct (is_nil _); reflexivity.
Qed.

Lemma do_udel_pickles tick w u s n t f : w_pickles (do_udel tick w u s n t f) = w_pickles w.
Proof.
  unfold do_udel. destruct (amem f _); [|reflexivity]. destruct (is_nil _); reflexivity.
Qed.

(* Database.undeclare in the tag directory: the tags of the acting user leave the undeclared version *)
Lemma fold_udel_uc_tag tick u s n f l : forall w u' s' n' t' f',
  uc_tag (w_uc (fold_left (fun w t => do_udel tick w u s n t f) l w)) u' s' n' t' f' =
  if str_eqb u' u && str_eqb s' s && str_eqb n' n && str_eqb f' f && mem_str t' l then None
  else uc_tag (w_uc w) u' s' n' t' f'.
Proof.
  induction l as [|t l IH]; intros w u' s' n' t' f'; cbn [fold_left mem_str].
  - rewrite andb_false_r. reflexivity.
  - rewrite IH, do_udel_uc_tag. unfold ukey_eqb. rewrite (str_eqb_sym t' t).
    destruct (str_eqb u' u), (str_eqb s' s), (str_eqb n' n), (str_eqb f' f), (str_eqb t t'), (mem_str t' l);
      reflexivity.
Qed.

Lemma fold_udel_db tick u s n f l : forall w, w_db (fold_left (fun w t => do_udel tick w u s n t f) l w) = w_db w.
Proof. induction l as [|t l IH]; intro w; cbn [fold_left]; [reflexivity|]. rewrite IH. apply do_udel_db. Qed.

Lemma fold_udel_pickles tick u s n f l : forall w,
  w_pickles (fold_left (fun w t => do_udel tick w u s n t f) l w) = w_pickles w.
Proof. induction l as [|t l IH]; intro w; cbn [fold_left]; [reflexivity|]. rewrite IH. apply do_udel_pickles. Qed.

Lemma mem_utags_on uc u s n v f t : mem_str t (utags_on uc u s n v f) = opt_str_eqb (uc_tag uc u s n t f) v.
Proof.
  unfold utags_on. rewrite mem_filter.
  destruct (opt_str_eqb (uc_tag uc u s n t f) v) eqn:E; [|apply andb_false_r]. rewrite andb_true_r.
  apply mem_str_In. destruct (in_dec str_eq_dec t (uc_tags uc u s n)) as [I|NI]; [exact I|].
  rewrite (uc_tag_absent _ _ _ _ _ _ NI) in E. discriminate.
Qed.

Lemma do_uact_db tick w u x : w_db (do_uact tick w u x) = w_db w.
Proof. destruct x; cbn [do_uact]; try reflexivity. destruct (is_some _); [apply fold_udel_db|reflexivity]. Qed.

Lemma do_uact_pickles tick w u x : w_pickles (do_uact tick w u x) = w_pickles w.
Proof. destruct x; cbn [do_uact]; try reflexivity. destruct (is_some _); [apply fold_udel_pickles|reflexivity]. Qed.

(* the chain files after the tag-directory part of one record-level action *)
Lemma do_uact_uc_tag tick w u x u' s' n' t' f' :
  uc_tag (w_uc (do_uact tick w u x)) u' s' n' t' f' =
  match x with
  | ADelDecl s n v f =>
      if is_some (db_decl (w_db w) s n v f) && str_eqb u' u && str_eqb s' s && str_eqb n' n && str_eqb f' f
         && opt_str_eqb (uc_tag (w_uc w) u s n t' f) v
      then None else uc_tag (w_uc w) u' s' n' t' f'
  | _ => uc_tag (w_uc w) u' s' n' t' f'
  end.
Proof.
  destruct x as [s n v f r|s n v f|s n t f v|s n t f]; cbn [do_uact]; try reflexivity.
  destruct (is_some (db_decl (w_db w) s n v f)); cbn [andb]; [|reflexivity].
  rewrite fold_udel_uc_tag, mem_utags_on. reflexivity.
Qed.

(* ---------------------------------------------------------------- the write-through of a record-level action *)

Lemma do_effects_uc tick es : forall w, w_uc (do_effects tick w es) = w_uc w.
Proof. induction es as [|e es IH]; intro w; [reflexivity|]. cbn [do_effects fold_left]. fold (do_effects tick (do_effect tick w e) es). rewrite IH. reflexivity. Qed.

Lemma do_act_uc tick w x : w_uc (do_act tick w x) = w_uc w.
Proof. unfold do_act. apply do_effects_uc. Qed.

Lemma alookup_fold_aset v l : forall (m : amap str) t,
  alookup t (fold_left (fun m t => aset t v m) l m) = if mem_str t l then Some v else alookup t m.
Proof.
  induction l as [|t0 l IH]; intros m t; cbn [fold_left mem_str]; [reflexivity|].
  rewrite IH, alookup_aset. destruct (str_eqb t t0); [|reflexivity]. destruct (mem_str t l); reflexivity.
Qed.

(* the tag directory changed at most for product n and flavor f (of user u, stack s) *)
Definition uc_same_but (uc uc' : list (ukey * ccontent)) (u s n f : str) : Prop :=
  forall n' t' f', (n', f') <> (n, f) -> uc_tag uc' u s n' t' f' = uc_tag uc u s n' t' f'.

Lemma vis_fd_ext fd fd' uc uc' u s n t f :
  uc_tag uc' u s n t f = uc_tag uc u s n t f -> (forall v, fd_decl fd' n v = fd_decl fd n v) ->
  vis_fd fd' uc' u s n t f = vis_fd fd uc u s n t f.
Proof. intros E D. unfold vis_fd. rewrite E. destruct (uc_tag uc u s n t f); [rewrite D|]; reflexivity. Qed.

Lemma ps_ugood_update ps uc uc' u s f n fd fd' mt :
  ps_ugood ps uc (Some u) s ->
  alookup f (ps_lookup ps) = Some fd ->
  (forall n', n' <> n -> alookup n' fd' = alookup n' fd) ->
  uc_same_but uc uc' u s n f ->
  ugood_n fd' uc' (Some u) s f n ->
  ps_ugood (mkPS (aset f fd' (ps_lookup ps)) mt) uc' (Some u) s.
Proof.
  intros G Ef Hn Huc Gn f0 fd0 E0 n0 t. cbn [ps_lookup] in E0. rewrite alookup_aset in E0.
  destruct (str_eqb_spec f0 f) as [->|Nf].
  - inversion E0. subst fd0. destruct (str_eq_dec n0 n) as [->|Nn]; [apply Gn|].
    unfold fd_utag at 1. rewrite (Hn n0 Nn). fold (fd_utag fd n0 t). rewrite (G f fd Ef n0 t).
    symmetry. apply vis_fd_ext.
    + apply Huc. intro E. inversion E. contradiction.
    + intro v. unfold fd_decl. rewrite (Hn n0 Nn). reflexivity.
  - rewrite (G f0 fd0 E0 n0 t). symmetry. apply vis_fd_ext; [|reflexivity].
    apply Huc. intro E. inversion E. contradiction.
Qed.

(* the data did not change, the tag directory did for (n, f) only *)
Lemma ps_ugood_frame ps uc uc' u s f n :
  ps_ugood ps uc (Some u) s ->
  uc_same_but uc uc' u s n f ->
  (forall fd, alookup f (ps_lookup ps) = Some fd -> ugood_n fd uc' (Some u) s f n) ->
  ps_ugood ps uc' (Some u) s.
Proof.
  intros G Huc Gn f0 fd0 E0 n0 t.
  destruct (classic_nf (n0, f0) (n, f)) as [E|N].
  - inversion E. subst. apply (Gn fd0 E0).
  - rewrite (G f0 fd0 E0 n0 t). symmetry. apply vis_fd_ext; [|reflexivity]. apply Huc. exact N.
Qed.

Lemma uc_same_but_refl uc u s n f : uc_same_but uc uc u s n f.
Proof. intros n' t' f' _. reflexivity. Qed.

Lemma wt_act_ugood tick w u uts ps s x ps' ch :
  (forall s n v f, uts s n v f = utags_on (w_uc (do_uact tick w u x)) u s n v f) ->
  ps_ugood ps (w_uc w) (Some u) s ->
  lookup_agree ps (w_db w) s ->
  act_root x = s ->
  alookup (act_flavor x) (ps_lookup ps) <> None ->
  wt_act false uts x ps = Ok (ps', ch) ->
  ps_ugood ps' (w_uc (do_act tick (do_uact tick w u x) x)) (Some u) s.
Proof.
  intros Huts G A Hs Hfl. rewrite do_act_uc.
  destruct (alookup (act_flavor x) (ps_lookup ps)) as [fd|] eqn:Efd; [clear Hfl|congruence].
  pose proof (G _ _ Efd) as Gfd.
  destruct x as [s' n v f r|s' n v f|s' n t f v|s' n t f]; cbn [act_root] in Hs; subst s';
    cbn [act_flavor act_nf snd] in Efd, Gfd; cbn [wt_act do_uact]; rewrite (ps_family_fam _ _ _ _ Efd).
  - (* ASetDecl: the chain files that name the version apply from now on *)
    intro H. inversion H. subst ps' ch. clear H. rewrite (ps_set_family_eq _ _ _ _ _ Efd).
    apply (ps_ugood_update ps (w_uc w) (w_uc w) u s f n fd); auto.
    + intros n' N. rewrite alookup_aset. destruct (str_eqb_spec n' n); [contradiction|reflexivity].
    + apply uc_same_but_refl.
    + intro t. rewrite fd_utag_aset, str_eqb_refl. cbn [fam_read_back f_utags fam_add_version].
      rewrite alookup_fold_aset, Huts. cbn [do_uact]. rewrite mem_utags_on. unfold vis_fd.
      replace (match alookup n fd with Some fm => fm | None => fam_empty end) with (fam_of fd n) by reflexivity.
      rewrite <- fd_utag_fam, (Gfd n t). unfold vis_fd.
      destruct (uc_tag (w_uc w) u s n t f) as [v'|]; cbn [opt_str_eqb]; [|reflexivity].
      rewrite fd_decl_aset, str_eqb_refl. cbn [fam_read_back fam_add_version f_versions]. rewrite alookup_aset.
      destruct (str_eqb_spec v' v) as [->|Nv]; [reflexivity|]. rewrite <- fd_decl_fam. reflexivity.
  - (* ADelDecl *)
    assert (Dv : db_decl (w_db w) s n v f = fd_decl fd n v) by (symmetry; apply (A _ _ Efd n)).
    assert (Huc : uc_same_but (w_uc w) (w_uc (do_uact tick w u (ADelDecl s n v f))) u s n f).
    { intros n' t' f' N. rewrite do_uact_uc_tag.
      destruct (str_eqb_spec n' n) as [->|]; destruct (str_eqb_spec f' f) as [->|]; try (exfalso; apply N; reflexivity);
        rewrite ?andb_false_r; cbn [andb]; rewrite ?andb_false_r; reflexivity. }
    assert (Tag : forall t', uc_tag (w_uc (do_uact tick w u (ADelDecl s n v f))) u s n t' f =
                             if is_some (fd_decl fd n v) && opt_str_eqb (uc_tag (w_uc w) u s n t' f) v then None
                             else uc_tag (w_uc w) u s n t' f).
    { intro t'. rewrite do_uact_uc_tag, Dv, !str_eqb_refl, !andb_true_r. reflexivity. }
    cbn [do_uact] in Huc, Tag |- *.
    destruct (alookup n fd) as [fm|] eqn:Efm.
    + unfold fam_remove_version, fam_has_version, amem.
      destruct (alookup v (f_versions fm)) as [r0|] eqn:Ev.
      * assert (Dn : fd_decl fd n v = Some r0) by (unfold fd_decl; rewrite Efm; exact Ev).
        rewrite Dn in Tag. cbn [is_some andb] in Tag.
        assert (Gn : forall fd', (forall k, fd_decl fd' n k = if str_eqb k v then None else fd_decl fd n k) ->
                     (forall t', fd_utag fd' n t' = if opt_str_eqb (fd_utag fd n t') v then None else fd_utag fd n t') ->
                     ugood_n fd' (w_uc (do_uact tick w u (ADelDecl s n v f))) (Some u) s f n).
        { intros fd' Hd Hu t'. cbn [do_uact]. rewrite Hu, (Gfd n t'). unfold vis_fd. rewrite Tag.
          destruct (uc_tag (w_uc w) u s n t' f) as [v'|]; cbn [opt_str_eqb]; [|reflexivity].
          destruct (str_eqb_spec v' v) as [->|Nv].
          - rewrite Dn. cbn [is_some opt_str_eqb]. rewrite str_eqb_refl. reflexivity.
          - rewrite Hd. destruct (str_eqb_spec v' v); [contradiction|].
            destruct (fd_decl fd n v'); cbn [is_some opt_str_eqb]; [|reflexivity].
            destruct (str_eqb_spec v' v); [contradiction|reflexivity]. }
        cbn [f_versions]. destruct (is_nil (aremove v (f_versions fm))) eqn:Enil; intro H; inversion H; subst ps' ch; clear H.
        -- rewrite (ps_del_family_eq _ _ _ _ Efd).
           apply (ps_ugood_update ps (w_uc w) _ u s f n fd); auto.
           ++ intros n' N. rewrite alookup_aremove. destruct (str_eqb_spec n' n); [contradiction|reflexivity].
           ++ apply Gn.
              ** intro k. rewrite fd_decl_aremove, str_eqb_refl. apply is_nil_true in Enil.
                 destruct (str_eqb_spec k v) as [->|Nk]; [reflexivity|].
                 unfold fd_decl. rewrite Efm. symmetry. apply (aremove_nil_lookup _ _ Enil). exact Nk.
              ** intro t'. rewrite fd_utag_aremove, str_eqb_refl.
                 destruct (fd_utag fd n t') as [v'|] eqn:Eu; cbn [opt_str_eqb]; [|reflexivity].
                 destruct (str_eqb_spec v' v) as [->|Nv]; [reflexivity|]. exfalso.
                 rewrite (Gfd n t') in Eu. unfold vis_fd in Eu.
                 destruct (uc_tag (w_uc w) u s n t' f) as [v''|]; [|discriminate].
                 destruct (fd_decl fd n v'') eqn:Ed; cbn in Eu; [|discriminate]. inversion Eu. subst v''.
                 apply is_nil_true in Enil. unfold fd_decl in Ed. rewrite Efm in Ed.
                 rewrite (aremove_nil_lookup _ _ Enil v' Nv) in Ed. discriminate.
        -- rewrite (ps_set_family_eq _ _ _ _ _ Efd).
           apply (ps_ugood_update ps (w_uc w) _ u s f n fd); auto.
           ++ intros n' N. rewrite alookup_aset. destruct (str_eqb_spec n' n); [contradiction|reflexivity].
           ++ apply Gn.
              ** intro k. rewrite fd_decl_aset, str_eqb_refl. cbn [f_versions]. rewrite alookup_aremove.
                 unfold fd_decl. rewrite Efm. reflexivity.
              ** intro t'. rewrite fd_utag_aset, str_eqb_refl. cbn [f_utags].
                 rewrite alookup_remove_keys, mem_tags_of_version. unfold fd_utag. rewrite Efm. reflexivity.
      * (* the family does not have the version: nothing is declared, nothing happens *)
        intro H. inversion H. subst ps' ch. clear H.
        assert (Dn : fd_decl fd n v = None) by (unfold fd_decl; rewrite Efm; exact Ev).
        apply (ps_ugood_frame ps (w_uc w) _ u s f n); auto.
        intros fd0 E0. rewrite Efd in E0. inversion E0. subst fd0. intro t'. rewrite (Gfd n t'). unfold vis_fd.
        cbn [do_uact]. rewrite Tag, Dn. cbn [is_some andb]. reflexivity.
    + intro H. inversion H. subst ps' ch. clear H.
      assert (Dn : fd_decl fd n v = None) by (unfold fd_decl; rewrite Efm; reflexivity).
      apply (ps_ugood_frame ps (w_uc w) _ u s f n); auto.
      intros fd0 E0. rewrite Efd in E0. inversion E0. subst fd0. intro t'. rewrite (Gfd n t'). unfold vis_fd.
      cbn [do_uact]. rewrite Tag, Dn. cbn [is_some andb]. reflexivity.
  - (* ASetTag: versions and user tags of the family stay *)
    destruct (alookup n fd) as [fm|] eqn:Efm; [|discriminate].
    unfold fam_assign_tag. destruct (fam_has_version v fm); [|discriminate].
    intro H. inversion H. subst ps' ch. clear H. rewrite (ps_set_family_eq _ _ _ _ _ Efd).
    apply (ps_ugood_update ps (w_uc w) (w_uc w) u s f n fd); auto.
    + intros n' N. rewrite alookup_aset. destruct (str_eqb_spec n' n); [contradiction|reflexivity].
    + apply uc_same_but_refl.
    + intro t'. rewrite fd_utag_aset, str_eqb_refl. cbn [f_utags].
      transitivity (fd_utag fd n t'); [unfold fd_utag; rewrite Efm; reflexivity|]. rewrite (Gfd n t').
      symmetry. apply vis_fd_ext; [reflexivity|]. intro k. rewrite fd_decl_aset, str_eqb_refl. cbn [f_versions].
      unfold fd_decl. rewrite Efm. reflexivity.
  - (* ADelTag *)
    destruct (alookup n fd) as [fm|] eqn:Efm.
    + unfold fam_unassign_tag. destruct (amem t (f_tags fm)); intro H; inversion H; subst ps' ch; clear H; [|exact G].
      rewrite (ps_set_family_eq _ _ _ _ _ Efd).
      apply (ps_ugood_update ps (w_uc w) (w_uc w) u s f n fd); auto.
      * intros n' N. rewrite alookup_aset. destruct (str_eqb_spec n' n); [contradiction|reflexivity].
      * apply uc_same_but_refl.
      * intro t'. rewrite fd_utag_aset, str_eqb_refl. cbn [f_utags].
        transitivity (fd_utag fd n t'); [unfold fd_utag; rewrite Efm; reflexivity|]. rewrite (Gfd n t').
        symmetry. apply vis_fd_ext; [reflexivity|]. intro k. rewrite fd_decl_aset, str_eqb_refl. cbn [f_versions].
        unfold fd_decl. rewrite Efm. reflexivity.
    + intro H. inversion H. subst ps' ch. exact G.
Qed.

(* ---------------------------------------------------------------- the two user-tag calls *)

Lemma wt_uact_ugood tick w u ps x ps' ch :
  ps_ugood ps (w_uc w) (Some u) (uact_stack x) ->
  wt_uact x ps = Ok (ps', ch) ->
  ps_ugood ps' (w_uc (do_udb tick false w u x)) (Some u) (uact_stack x).
Proof.
  intros G. destruct x as [s n t f v|s n t f]; cbn [uact_stack wt_uact do_udb] in *.
  - (* USet *)
    assert (Huc : uc_same_but (w_uc w) (w_uc (do_uset tick w u s n t f v)) u s n f).
    { intros n' t' f' N. rewrite do_uset_uc_tag. unfold ukey_eqb. rewrite !str_eqb_refl. cbn [andb].
      destruct (str_eqb_spec n' n) as [->|]; cbn [andb]; [|reflexivity].
      destruct (str_eqb_spec f' f) as [->|]; [exfalso; apply N; reflexivity|]. rewrite andb_false_r. reflexivity. }
    unfold ps_family. destruct (alookup f (ps_lookup ps)) as [fd|] eqn:Efd; [|discriminate].
    destruct (alookup n fd) as [fm|] eqn:Efm; [|discriminate].
    unfold fam_assign_utag, fam_has_version, amem. destruct (alookup v (f_versions fm)) as [r0|] eqn:Ev; [|discriminate].
    intro H. inversion H. subst ps' ch. clear H. rewrite (ps_set_family_eq _ _ _ _ _ Efd).
    apply (ps_ugood_update ps (w_uc w) _ u s f n fd); auto.
    + intros n' N. rewrite alookup_aset. destruct (str_eqb_spec n' n); [contradiction|reflexivity].
    + intro t'. rewrite fd_utag_aset, str_eqb_refl. cbn [f_utags]. rewrite alookup_aset. unfold vis_fd.
      rewrite do_uset_uc_tag. unfold ukey_eqb. rewrite !str_eqb_refl. cbn [andb]. rewrite andb_true_r.
      destruct (str_eqb_spec t' t) as [->|Nt].
      * rewrite fd_decl_aset, str_eqb_refl. cbn [f_versions]. rewrite Ev. reflexivity.
      * transitivity (fd_utag fd n t'); [unfold fd_utag; rewrite Efm; reflexivity|]. rewrite (G _ _ Efd n t').
        unfold vis_fd. destruct (uc_tag (w_uc w) u s n t' f) as [v'|]; [|reflexivity].
        rewrite fd_decl_aset, str_eqb_refl. cbn [f_versions]. unfold fd_decl. rewrite Efm. reflexivity.
  - (* UDel *)
    assert (Huc : uc_same_but (w_uc w) (w_uc (do_udel tick w u s n t f)) u s n f).
    { intros n' t' f' N. rewrite do_udel_uc_tag. unfold ukey_eqb. rewrite !str_eqb_refl. cbn [andb].
      destruct (str_eqb_spec n' n) as [->|]; cbn [andb]; [|reflexivity].
      destruct (str_eqb_spec f' f) as [->|]; [exfalso; apply N; reflexivity|]. rewrite andb_false_r. reflexivity. }
    assert (Tag : forall t', uc_tag (w_uc (do_udel tick w u s n t f)) u s n t' f =
                             if str_eqb t' t then None else uc_tag (w_uc w) u s n t' f).
    { intro t'. rewrite do_udel_uc_tag. unfold ukey_eqb. rewrite !str_eqb_refl. cbn [andb]. rewrite andb_true_r. reflexivity. }
    assert (Unch : (forall fd, alookup f (ps_lookup ps) = Some fd -> fd_utag fd n t = None) ->
                   ps_ugood ps (w_uc (do_udel tick w u s n t f)) (Some u) s).
    { intro Hn. apply (ps_ugood_frame ps (w_uc w) _ u s f n); auto.
      intros fd E t'. unfold vis_fd. rewrite Tag. destruct (str_eqb_spec t' t) as [->|Nt]; [apply (Hn fd E)|].
      apply (G _ _ E n t'). }
    unfold ps_family. destruct (alookup f (ps_lookup ps)) as [fd|] eqn:Efd.
    2:{ intro H. inversion H. subst. apply Unch. intros fd E. discriminate. }
    destruct (alookup n fd) as [fm|] eqn:Efm.
    2:{ intro H. inversion H. subst. apply Unch. intros fd0 E. inversion E. subst fd0. unfold fd_utag. rewrite Efm. reflexivity. }
    unfold fam_unassign_utag, amem. destruct (alookup t (f_utags fm)) as [v0|] eqn:Et; intro H; inversion H; subst ps' ch; clear H.
    + rewrite (ps_set_family_eq _ _ _ _ _ Efd).
      apply (ps_ugood_update ps (w_uc w) _ u s f n fd); auto.
      * intros n' N. rewrite alookup_aset. destruct (str_eqb_spec n' n); [contradiction|reflexivity].
      * intro t'. rewrite fd_utag_aset, str_eqb_refl. cbn [f_utags]. rewrite alookup_aremove. unfold vis_fd. rewrite Tag.
        destruct (str_eqb t' t); [reflexivity|].
        transitivity (fd_utag fd n t'); [unfold fd_utag; rewrite Efm; reflexivity|]. rewrite (G _ _ Efd n t').
        unfold vis_fd. destruct (uc_tag (w_uc w) u s n t' f) as [v'|]; [|reflexivity].
        rewrite fd_decl_aset, str_eqb_refl. cbn [f_versions]. unfold fd_decl. rewrite Efm. reflexivity.
    + apply Unch. intros fd0 E. inversion E. subst fd0. unfold fd_utag. rewrite Efm. exact Et.
Qed.

(* a change of the tag directory for another stack (or of another user) is not seen *)
Lemma ps_ugood_ext ps uc uc' uo s :
  (forall u n t f, uo = Some u -> uc_tag uc' u s n t f = uc_tag uc u s n t f) ->
  ps_ugood ps uc uo s -> ps_ugood ps uc' uo s.
Proof.
  intros H G f fd E n t. rewrite (G f fd E n t). destruct uo as [u|]; [|reflexivity].
  symmetry. apply vis_fd_ext; [|reflexivity]. apply H. reflexivity.
Qed.

(* ---------------------------------------------------------------- ProductStack._loadUserTags *)

Definition lk_decl (lk : amap fdata) (f n v : str) : option vrec :=
  match alookup f lk with Some fd => fd_decl fd n v | None => None end.
Definition lk_tag (lk : amap fdata) (f n t : str) : option str :=
  match alookup f lk with Some fd => fd_tag fd n t | None => None end.
Definition lk_utag (lk : amap fdata) (f n t : str) : option str :=
  match alookup f lk with Some fd => fd_utag fd n t | None => None end.

Lemma set_utag_spec lk f n t v f' n' :
  (forall k, lk_decl (set_utag lk f n t v) f' n' k = lk_decl lk f' n' k) /\
  (forall k, lk_tag (set_utag lk f n t v) f' n' k = lk_tag lk f' n' k) /\
  (forall t', lk_utag (set_utag lk f n t v) f' n' t' =
              if str_eqb f' f && str_eqb n' n && str_eqb t' t && is_some (lk_decl lk f n v) then Some v
              else lk_utag lk f' n' t') /\
  (alookup f' (set_utag lk f n t v) = None <-> alookup f' lk = None).
Proof.
  assert (Triv : lk_decl lk f n v = None -> forall lk', lk' = lk ->
    (forall k, lk_decl lk' f' n' k = lk_decl lk f' n' k) /\
    (forall k, lk_tag lk' f' n' k = lk_tag lk f' n' k) /\
    (forall t', lk_utag lk' f' n' t' =
                if str_eqb f' f && str_eqb n' n && str_eqb t' t && is_some (lk_decl lk f n v) then Some v
                else lk_utag lk f' n' t') /\
    (alookup f' lk' = None <-> alookup f' lk = None)).
  { intros D lk' ->. rewrite D. cbn [is_some]. repeat split; intros; rewrite ?andb_false_r; auto. }
  unfold set_utag.
  destruct (alookup f lk) as [fd|] eqn:Efd.
  2:{ apply Triv; [unfold lk_decl; rewrite Efd|]; reflexivity. }
  destruct (alookup n fd) as [fm|] eqn:Efm.
  2:{ apply Triv; [unfold lk_decl, fd_decl; rewrite Efd, Efm|]; reflexivity. }
  unfold fam_assign_utag, fam_has_version, amem. destruct (alookup v (f_versions fm)) as [r0|] eqn:Ev.
  2:{ apply Triv; [unfold lk_decl, fd_decl; rewrite Efd, Efm; exact Ev|reflexivity]. }
  assert (D : lk_decl lk f n v = Some r0) by (unfold lk_decl, fd_decl; rewrite Efd, Efm; exact Ev).
  clear Triv. rewrite D. cbn [is_some]. unfold lk_decl, lk_tag, lk_utag. rewrite !alookup_aset.
  destruct (str_eqb_spec f' f) as [Ef|Nf]; [subst f'|]; cbn [andb].
  - rewrite Efd. repeat split; try (intro H; discriminate).
    + intro k. rewrite fd_decl_aset. destruct (str_eqb_spec n' n) as [->|]; [|reflexivity].
      cbn [f_versions]. unfold fd_decl. rewrite Efm. reflexivity.
    + intro k. rewrite fd_tag_aset. destruct (str_eqb_spec n' n) as [->|]; [|reflexivity].
      cbn [f_tags]. unfold fd_tag. rewrite Efm. reflexivity.
    + intro t'. rewrite fd_utag_aset. destruct (str_eqb_spec n' n) as [->|]; cbn [andb]; [|reflexivity].
      cbn [f_utags]. rewrite alookup_aset, andb_true_r. destruct (str_eqb t' t); [reflexivity|].
      unfold fd_utag. rewrite Efm. reflexivity.
  - repeat split; auto.
Qed.

Definition utag_step (uc : list (ukey * ccontent)) (u s n : str) (lk : amap fdata) (tf : str * str) : amap fdata :=
  match uc_tag uc u s n (fst tf) (snd tf) with
  | Some v => set_utag lk (snd tf) n (fst tf) v
  | None => lk
  end.

Definition pair_mem (t f : str) (l : list (str * str)) : bool :=
  existsb (fun tf : str * str => str_eqb t (fst tf) && str_eqb f (snd tf)) l.

(* what the assignments of a list of (tag, flavor) of product n add *)
Definition utag_new (uc : list (ukey * ccontent)) (u s n : str) (lk : amap fdata) (f' t' : str) : option str :=
  match uc_tag uc u s n t' f' with
  | Some v => if is_some (lk_decl lk f' n v) then Some v else None
  | None => None
  end.

Lemma fold_utag_step uc u s n l : forall lk f' n',
  (forall k, lk_decl (fold_left (utag_step uc u s n) l lk) f' n' k = lk_decl lk f' n' k) /\
  (forall k, lk_tag (fold_left (utag_step uc u s n) l lk) f' n' k = lk_tag lk f' n' k) /\
  (forall t', lk_utag (fold_left (utag_step uc u s n) l lk) f' n' t' =
              if str_eqb n' n && pair_mem t' f' l && is_some (utag_new uc u s n lk f' t')
              then utag_new uc u s n lk f' t' else lk_utag lk f' n' t') /\
  (alookup f' (fold_left (utag_step uc u s n) l lk) = None <-> alookup f' lk = None).
Proof.
  induction l as [|[t f] l IH]; intros lk f' n'; cbn [fold_left pair_mem existsb fst snd].
  - rewrite andb_false_r. repeat split; auto.
  - destruct (IH (utag_step uc u s n lk (t, f)) f' n') as [I1 [I2 [I3 I4]]].
    assert (S : (forall k, lk_decl (utag_step uc u s n lk (t, f)) f' n' k = lk_decl lk f' n' k) /\
                (forall k, lk_tag (utag_step uc u s n lk (t, f)) f' n' k = lk_tag lk f' n' k) /\
                (forall t', lk_utag (utag_step uc u s n lk (t, f)) f' n' t' =
                   if str_eqb f' f && str_eqb n' n && str_eqb t' t && is_some (utag_new uc u s n lk f t)
                   then utag_new uc u s n lk f t else lk_utag lk f' n' t') /\
                (alookup f' (utag_step uc u s n lk (t, f)) = None <-> alookup f' lk = None)).
    { unfold utag_step, utag_new. cbn [fst snd]. destruct (uc_tag uc u s n t f) as [v|].
      - destruct (set_utag_spec lk f n t v f' n') as [A1 [A2 [A3 A4]]]. repeat split; auto; try apply A4.
        intro t'. rewrite A3. destruct (is_some (lk_decl lk f n v)); [reflexivity|].
        rewrite !andb_false_r. reflexivity.
      - cbn [is_some]. repeat split; intros; rewrite ?andb_false_r; auto. }
    destruct S as [S1 [S2 [S3 S4]]].
    assert (New : forall f0 t0, utag_new uc u s n (utag_step uc u s n lk (t, f)) f0 t0 = utag_new uc u s n lk f0 t0).
    { intros f0 t0. unfold utag_new. destruct (uc_tag uc u s n t0 f0) as [v0|]; [|reflexivity].
      destruct (IH lk f0 n) as [_ _]. 
      assert (E : lk_decl (utag_step uc u s n lk (t, f)) f0 n v0 = lk_decl lk f0 n v0).
      { unfold utag_step. cbn [fst snd]. destruct (uc_tag uc u s n t f) as [v|]; [|reflexivity].
        apply (set_utag_spec lk f n t v f0 n). }
      rewrite E. reflexivity. }
    split; [|split; [|split]].
    + intro k. rewrite I1. apply S1.
    + intro k. rewrite I2. apply S2.
    + intro t'. rewrite I3, New, S3. clear IH I1 I2 I3 I4 S1 S2 S3 S4 New. unfold pair_mem.
      destruct (str_eqb_spec n' n) as [En|Nn]; [subst n'|]; destruct (str_eqb_spec t' t) as [Et|Nt]; [subst t'| |subst t'|];
        destruct (str_eqb_spec f' f) as [Ef|Nf]; try subst f'; cbn [andb orb];
        repeat (match goal with |- context [existsb ?p l] => destruct (existsb p l) end); cbn [andb];
        repeat (match goal with |- context [is_some ?x] => destruct (is_some x) end; cbn [andb]); reflexivity.
    + rewrite I4. apply S4.
Qed.

Lemma utag_entries_mem uc u s n t f v : uc_tag uc u s n t f = Some v -> pair_mem t f (utag_entries uc u s n) = true.
Proof.
  intro H. unfold pair_mem. apply existsb_exists. exists (t, f). cbn [fst snd]. rewrite !str_eqb_refl. split; [|reflexivity].
  unfold utag_entries. apply in_flat_map. exists t. split.
  - destruct (in_dec str_eq_dec t (uc_tags uc u s n)) as [I|NI]; [exact I|].
    rewrite (uc_tag_absent _ _ _ _ _ _ NI) in H. discriminate.
  - apply in_map. apply alookup_not_None_In. unfold uc_tag in H. congruence.
Qed.

Lemma load_utags_n_spec uc u s n lk f' n' :
  (forall k, lk_decl (load_utags_n uc u s n lk) f' n' k = lk_decl lk f' n' k) /\
  (forall k, lk_tag (load_utags_n uc u s n lk) f' n' k = lk_tag lk f' n' k) /\
  (forall t', lk_utag (load_utags_n uc u s n lk) f' n' t' =
              if str_eqb n' n && is_some (utag_new uc u s n lk f' t') then utag_new uc u s n lk f' t'
              else lk_utag lk f' n' t') /\
  (alookup f' (load_utags_n uc u s n lk) = None <-> alookup f' lk = None).
Proof.
  unfold load_utags_n. fold (utag_step uc u s n).
  destruct (fold_utag_step uc u s n (utag_entries uc u s n) lk f' n') as [A1 [A2 [A3 A4]]].
  split; [exact A1|]. split; [exact A2|]. split; [|exact A4].
  intro t'. rewrite A3. destruct (utag_new uc u s n lk f' t') as [v|] eqn:E; cbn [is_some]; [|rewrite !andb_false_r; reflexivity].
  rewrite !andb_true_r. replace (pair_mem t' f' (utag_entries uc u s n)) with true; [rewrite andb_true_r; reflexivity|].
  symmetry. unfold utag_new in E. destruct (uc_tag uc u s n t' f') as [v'|] eqn:T; [|discriminate].
  eapply utag_entries_mem. exact T.
Qed.

Lemma load_names_spec uc u s names : forall lk f' n',
  (forall k, lk_decl (fold_left (fun lk n => load_utags_n uc u s n lk) names lk) f' n' k = lk_decl lk f' n' k) /\
  (forall k, lk_tag (fold_left (fun lk n => load_utags_n uc u s n lk) names lk) f' n' k = lk_tag lk f' n' k) /\
  (forall t', lk_utag (fold_left (fun lk n => load_utags_n uc u s n lk) names lk) f' n' t' =
              if mem_str n' names && is_some (utag_new uc u s n' lk f' t') then utag_new uc u s n' lk f' t'
              else lk_utag lk f' n' t') /\
  (alookup f' (fold_left (fun lk n => load_utags_n uc u s n lk) names lk) = None <-> alookup f' lk = None).
Proof.
  induction names as [|n names IH]; intros lk f' n'; cbn [fold_left mem_str].
  - repeat split; auto.
  - destruct (IH (load_utags_n uc u s n lk) f' n') as [I1 [I2 [I3 I4]]].
    destruct (load_utags_n_spec uc u s n lk f' n') as [S1 [S2 [S3 S4]]].
    assert (New : forall t0, utag_new uc u s n' (load_utags_n uc u s n lk) f' t0 = utag_new uc u s n' lk f' t0).
    { intro t0. unfold utag_new. destruct (uc_tag uc u s n' t0 f') as [v0|]; [|reflexivity].
      rewrite (proj1 (load_utags_n_spec uc u s n lk f' n')). reflexivity. }
    split; [|split; [|split]].
    + intro k. rewrite I1. apply S1.
    + intro k. rewrite I2. apply S2.
    + intro t'. rewrite I3, New, S3. clear.
      destruct (str_eqb_spec n' n) as [->|Nn]; cbn [andb].
      * destruct (mem_str n names); cbn [andb]; destruct (is_some (utag_new uc u s n lk f' t')); reflexivity.
      * reflexivity.
    + rewrite I4. apply S4.
Qed.

Lemma fd_lk lk f fd : alookup f lk = Some fd ->
  (forall n k, lk_decl lk f n k = fd_decl fd n k) /\ (forall n k, lk_tag lk f n k = fd_tag fd n k) /\
  (forall n k, lk_utag lk f n k = fd_utag fd n k).
Proof. intro H. unfold lk_decl, lk_tag, lk_utag. rewrite H. auto. Qed.

(* loaded from the cache files of ups_db (nobody's user tags), then _loadUserTags: the data agrees with the
   tag directory of the loading user *)
Lemma load_user_tags_ok d uc uo s ps :
  lookup_agree ps d s -> ps_ugood ps uc None s ->
  lookup_agree (load_user_tags d uc uo s ps) d s /\
  ps_ugood (load_user_tags d uc uo s ps) uc uo s /\
  ps_modtimes (load_user_tags d uc uo s ps) = ps_modtimes ps /\
  (forall f, alookup f (ps_lookup (load_user_tags d uc uo s ps)) = None <-> alookup f (ps_lookup ps) = None).
Proof.
  intros A G. destruct uo as [u|]; cbn [load_user_tags];
    [|split; [exact A|split; [exact G|split; [reflexivity|intro f; split; auto]]]].
  split; [|split; [|split; [reflexivity|]]].
  - intros f fd' E n. cbn [ps_lookup] in E.
    destruct (load_names_spec uc u s (db_names d s) (ps_lookup ps) f n) as [S1 [S2 [_ S4]]].
    destruct (alookup f (ps_lookup ps)) as [fd|] eqn:Ef; [|exfalso; rewrite (proj2 S4 eq_refl) in E; discriminate].
    destruct (fd_lk _ _ _ E) as [D1 [D2 _]]. destruct (fd_lk _ _ _ Ef) as [D3 [D4 _]].
    destruct (A f fd Ef n) as [B1 B2]. split; intro k.
    + rewrite <- D1, S1, D3. apply B1.
    + rewrite <- D2, S2, D4. apply B2.
  - intros f fd' E n t. cbn [ps_lookup] in E.
    destruct (load_names_spec uc u s (db_names d s) (ps_lookup ps) f n) as [S1 [_ [S3 S4]]].
    destruct (alookup f (ps_lookup ps)) as [fd|] eqn:Ef; [|exfalso; rewrite (proj2 S4 eq_refl) in E; discriminate].
    destruct (fd_lk _ _ _ E) as [D1 [_ D5]]. destruct (fd_lk _ _ _ Ef) as [D3 [_ D6]].
    rewrite <- D5, S3, D6, (G f fd Ef n t). unfold vis_fd, utag_new.
    destruct (uc_tag uc u s n t f) as [v|]; cbn [is_some]; [|rewrite andb_false_r; reflexivity].
    rewrite <- D1, S1.
    destruct (lk_decl (ps_lookup ps) f n v) as [r|] eqn:Ed; cbn [is_some]; [|rewrite andb_false_r; reflexivity].
    rewrite andb_true_r.
    replace (mem_str n (db_names d s)) with true; [reflexivity|]. symmetry. apply mem_str_In.
    apply (db_decl_named d s n v f r). rewrite <- (proj1 (A f fd Ef n) v), <- D3. exact Ed.
  - intro f. cbn [ps_lookup]. apply (load_names_spec uc u s (db_names d s) (ps_lookup ps) f f).
Qed.

(* the two user-tag calls leave versions and global tags alone *)
Lemma wt_uact_agree x ps d s ps' ch : lookup_agree ps d s -> wt_uact x ps = Ok (ps', ch) ->
  lookup_agree ps' d s /\ ps_modtimes ps' = ps_modtimes ps /\
  (forall f, alookup f (ps_lookup ps) <> None -> alookup f (ps_lookup ps') <> None).
Proof.
  intro A.
  assert (Upd : forall f n fd fm fm', alookup f (ps_lookup ps) = Some fd -> alookup n fd = Some fm ->
            f_versions fm' = f_versions fm -> f_tags fm' = f_tags fm ->
            lookup_agree (ps_set_family ps f n fm') d s /\
            ps_modtimes (ps_set_family ps f n fm') = ps_modtimes ps /\
            (forall f0, alookup f0 (ps_lookup ps) <> None -> alookup f0 (ps_lookup (ps_set_family ps f n fm')) <> None)).
  { intros f n fd fm fm' Ef Efm Ev Et. rewrite (ps_set_family_eq _ _ _ _ _ Ef). split; [|split; [reflexivity|]].
    - intros f0 fd0 H n0. cbn [ps_lookup] in H. rewrite alookup_aset in H. destruct (str_eqb_spec f0 f) as [->|N].
      + inversion H. subst fd0. destruct (A f fd Ef n0) as [B1 B2]. split; intro k.
        * rewrite fd_decl_aset. destruct (str_eqb_spec n0 n) as [->|]; [|apply B1].
          rewrite Ev, <- B1. unfold fd_decl. rewrite Efm. reflexivity.
        * rewrite fd_tag_aset. destruct (str_eqb_spec n0 n) as [->|]; [|apply B2].
          rewrite Et, <- B2. unfold fd_tag. rewrite Efm. reflexivity.
      + exact (A f0 fd0 H n0).
    - intros f0 H. cbn [ps_lookup]. apply keys_kept_aset. exact H. }
  destruct x as [s0 n t f v|s0 n t f]; cbn [wt_uact]; unfold ps_family.
  - destruct (alookup f (ps_lookup ps)) as [fd|] eqn:Ef; [|discriminate].
    destruct (alookup n fd) as [fm|] eqn:Efm; [|discriminate].
    unfold fam_assign_utag. destruct (fam_has_version v fm); [|discriminate].
    intro H. inversion H. subst ps' ch. apply (Upd f n fd fm _ Ef Efm); reflexivity.
  - destruct (alookup f (ps_lookup ps)) as [fd|] eqn:Ef; [|intro H; inversion H; subst; auto].
    destruct (alookup n fd) as [fm|] eqn:Efm; [|intro H; inversion H; subst; auto].
    unfold fam_unassign_utag. destruct (amem t (f_utags fm)); intro H; inversion H; subst ps' ch; [|auto].
    apply (Upd f n fd fm _ Ef Efm); reflexivity.
Qed.

(* the tag-directory part of the actions of a group touches the group's stack only *)
Lemma do_uacts_uc_other tick u s2 g : forall w, Forall (fun x => act_root x <> s2) g ->
  forall u' n t f, uc_tag (w_uc (do_uacts tick w u g)) u' s2 n t f = uc_tag (w_uc w) u' s2 n t f.
Proof.
  unfold do_uacts. induction g as [|x g IH]; intros w F u' n t f; [reflexivity|]. inversion F as [|? ? N F']. subst.
  cbn [fold_left]. rewrite (IH _ F'), do_uact_uc_tag.
  destruct x as [s0 n0 v0 f0 r0|s0 n0 v0 f0|s0 n0 t0 f0 v0|s0 n0 t0 f0]; try reflexivity.
  cbn [act_root] in N. destruct (str_eqb_spec s2 s0) as [->|]; [contradiction|].
  rewrite !andb_false_r. cbn [andb]. rewrite ?andb_false_r. reflexivity.
Qed.

Lemma do_acts_uc tick g : forall w, w_uc (do_acts tick w g) = w_uc w.
Proof.
  induction g as [|x g IH]; intro w; [reflexivity|]. cbn [do_acts fold_left].
  change (fold_left (do_act tick) g (do_act tick w x)) with (do_acts tick (do_act tick w x) g).
  rewrite IH. apply do_act_uc.
Qed.
