(* The in-memory write-through of the ProductStack follows the database: if the loaded data of
   a stack agrees with the files before a record-level action, the updated data agrees with
   the files after it (repaired removeVersion).  Also: refreshFromDatabase agrees. *)
From Eupsv Require Import Base.Base Base.BaseLemmas Model.Db Model.Cache.
From Eupsv Require Import Proofs.DbLib Proofs.Db Proofs.DbSim Proofs.DbInv Proofs.DbCor Proofs.CacheLib.
From Coq Require Import Lia.

Definition agree_n (fd : fdata) (d : db) (s f n : str) : Prop :=
  (forall v, fd_decl fd n v = db_decl d s n v f) /\ (forall t, fd_tag fd n t = db_tag d s n t f).

Definition agree (fd : fdata) (d : db) (s f : str) : Prop := forall n, agree_n fd d s f n.

Definition lookup_agree (ps : pstack) (d : db) (s : str) : Prop :=
  forall f fd, alookup f (ps_lookup ps) = Some fd -> agree fd d s f.

Definition act_flavor (x : aact) : str := snd (act_nf x).
Definition act_name (x : aact) : str := fst (act_nf x).

Lemma act_root_stack x : act_root x = act_stack x.
Proof. destruct x; reflexivity. Qed.

(* ---------------------------------------------------------------- lookups in updated data *)

Lemma fd_decl_aset n fm fd n' v :
  fd_decl (aset n fm fd) n' v = if str_eqb n' n then alookup v (f_versions fm) else fd_decl fd n' v.
Proof. unfold fd_decl. rewrite alookup_aset. destruct (str_eqb n' n); reflexivity. Qed.

Lemma fd_tag_aset n fm fd n' t :
  fd_tag (aset n fm fd) n' t = if str_eqb n' n then alookup t (f_tags fm) else fd_tag fd n' t.
Proof. unfold fd_tag. rewrite alookup_aset. destruct (str_eqb n' n); reflexivity. Qed.

Lemma fd_decl_aremove n fd n' v :
  fd_decl (aremove n fd) n' v = if str_eqb n' n then None else fd_decl fd n' v.
Proof. unfold fd_decl. rewrite alookup_aremove. destruct (str_eqb n' n); reflexivity. Qed.

Lemma fd_tag_aremove n fd n' t :
  fd_tag (aremove n fd) n' t = if str_eqb n' n then None else fd_tag fd n' t.
Proof. unfold fd_tag. rewrite alookup_aremove. destruct (str_eqb n' n); reflexivity. Qed.

(* the family of n, or the empty family: the lookups of the data are the lookups of this family *)
Definition fam_of (fd : fdata) (n : str) : family :=
  match alookup n fd with Some fm => fm | None => fam_empty end.

Lemma fd_decl_fam fd n v : fd_decl fd n v = alookup v (f_versions (fam_of fd n)).
Proof. unfold fd_decl, fam_of. destruct (alookup n fd); reflexivity. Qed.

Lemma fd_tag_fam fd n t : fd_tag fd n t = alookup t (f_tags (fam_of fd n)).
Proof. unfold fd_tag, fam_of. destruct (alookup n fd); reflexivity. Qed.

(* ---------------------------------------------------------------- frame of one action on the files *)

Lemma compile_frame d x s n k f :
  (n, f) <> act_nf x \/ s <> act_stack x ->
  db_decl (apply (compile d x) d) s n k f = db_decl d s n k f /\
  db_tag (apply (compile d x) d) s n k f = db_tag d s n k f.
Proof.
  intro H. rewrite db_decl_compile, db_tag_compile, <- a_decl_view, <- a_tag_view.
  apply aapply_frame. exact H.
Qed.

Lemma dkey_same s n f k k' : dkey_eqb (s, n, k', f) (s, n, k, f) = str_eqb k' k.
Proof. unfold dkey_eqb. rewrite !str_eqb_refl. cbn. rewrite andb_true_r. reflexivity. Qed.

(* replacing the data of flavor f by data that differs only at product n, while the files
   changed only at (n, f) of this stack *)
Lemma lookup_agree_update ps d d' s f n fd fd' :
  lookup_agree ps d s ->
  alookup f (ps_lookup ps) = Some fd ->
  (forall n', n' <> n -> alookup n' fd' = alookup n' fd) ->
  agree_n fd' d' s f n ->
  (forall n' k f', (n', f') <> (n, f) ->
     db_decl d' s n' k f' = db_decl d s n' k f' /\ db_tag d' s n' k f' = db_tag d s n' k f') ->
  lookup_agree (mkPS (aset f fd' (ps_lookup ps)) (ps_modtimes ps)) d' s.
Proof.
  intros HA Hf Hother Hn Hframe f0 fd0 H0 n0. cbn [ps_lookup] in H0. rewrite alookup_aset in H0.
  destruct (str_eqb_spec f0 f) as [->|Nf].
  - inversion H0. subst fd0. destruct (str_eq_dec n0 n) as [->|Nn]; [exact Hn|].
    destruct (HA f fd Hf n0) as [A1 A2]. split; intro k.
    + destruct (Hframe n0 k f) as [E _]; [congruence|]. rewrite E, <- A1. unfold fd_decl. rewrite (Hother n0 Nn). reflexivity.
    + destruct (Hframe n0 k f) as [_ E]; [congruence|]. rewrite E, <- A2. unfold fd_tag. rewrite (Hother n0 Nn). reflexivity.
  - destruct (HA f0 fd0 H0 n0) as [A1 A2]. split; intro k.
    + destruct (Hframe n0 k f0) as [E _]; [congruence|]. rewrite E. apply A1.
    + destruct (Hframe n0 k f0) as [_ E]; [congruence|]. rewrite E. apply A2.
Qed.

Lemma ps_set_family_eq ps f n fm fd :
  alookup f (ps_lookup ps) = Some fd ->
  ps_set_family ps f n fm = mkPS (aset f (aset n fm fd) (ps_lookup ps)) (ps_modtimes ps).
Proof. intro H. unfold ps_set_family. rewrite H. reflexivity. Qed.

Lemma ps_del_family_eq ps f n fd :
  alookup f (ps_lookup ps) = Some fd ->
  ps_del_family ps f n = mkPS (aset f (aremove n fd) (ps_lookup ps)) (ps_modtimes ps).
Proof. intro H. unfold ps_del_family. rewrite H. reflexivity. Qed.

Lemma ps_family_fam ps f n fd : alookup f (ps_lookup ps) = Some fd -> ps_family ps f n = alookup n fd.
Proof. intro H. unfold ps_family. rewrite H. reflexivity. Qed.

Lemma keys_kept_aset {V} f (x : V) (m : amap V) f' : alookup f' m <> None -> alookup f' (aset f x m) <> None.
Proof. intro H. rewrite alookup_aset. destruct (str_eqb f' f); [discriminate|exact H]. Qed.

(* ---------------------------------------------------------------- one action *)

Lemma wt_act_agree uts ps d s x :
  lookup_agree ps d s ->
  no_dangling (view d) ->
  act_ok (view d) x ->
  act_root x = s ->
  has_stack d s = true ->
  alookup (act_flavor x) (ps_lookup ps) <> None ->
  exists ps' ch, wt_act false uts x ps = Ok (ps', ch) /\
    lookup_agree ps' (apply (compile d x) d) s /\
    ps_modtimes ps' = ps_modtimes ps /\
    (forall f, alookup f (ps_lookup ps) <> None -> alookup f (ps_lookup ps') <> None).
Proof.
  intros HA ND OK Hs Hst Hfl.
  assert (FR : forall n' k f', (n', f') <> act_nf x ->
     db_decl (apply (compile d x) d) s n' k f' = db_decl d s n' k f' /\
     db_tag (apply (compile d x) d) s n' k f' = db_tag d s n' k f').
  { intros. apply compile_frame. left. assumption. }
  pose proof (db_decl_compile d x s) as DD. pose proof (db_tag_compile d x s) as DT.
  destruct (alookup (act_flavor x) (ps_lookup ps)) as [fd|] eqn:Efd; [clear Hfl|congruence].
  assert (AG : agree fd d s (act_flavor x)) by (apply (HA _ _ Efd)).
  destruct x as [s' n v f r|s' n v f|s' n t f v|s' n t f]; cbn [act_root] in Hs; subst s';
    cbn [act_flavor act_nf snd] in *; cbn [wt_act]; rewrite (ps_family_fam _ _ _ _ Efd);
    destruct (AG n) as [A1 A2].
  - (* ASetDecl *)
    eexists. eexists. split; [reflexivity|]. split; [|split].
    + rewrite (ps_set_family_eq _ _ _ _ _ Efd).
      apply (lookup_agree_update ps d _ s f n fd); auto.
      * intros n' N. rewrite alookup_aset. destruct (str_eqb_spec n' n); [contradiction|reflexivity].
      * split; intro k.
        -- rewrite fd_decl_aset, str_eqb_refl, DD, a_decl_aapply, apath_view, has_stack_path, Hst, a_decl_view.
           cbn [andb fam_read_back fam_add_version f_versions]. rewrite dkey_same, alookup_aset.
           destruct (str_eqb k v); [reflexivity|].
           replace (match alookup n fd with Some fm => fm | None => fam_empty end) with (fam_of fd n) by reflexivity.
           rewrite <- fd_decl_fam. apply A1.
        -- rewrite fd_tag_aset, str_eqb_refl, DT, a_tag_aapply, a_tag_view. cbn [fam_read_back fam_add_version f_tags].
           replace (match alookup n fd with Some fm => fm | None => fam_empty end) with (fam_of fd n) by reflexivity.
           rewrite <- fd_tag_fam. apply A2.
    + rewrite (ps_set_family_eq _ _ _ _ _ Efd). reflexivity.
    + intros f0 H. rewrite (ps_set_family_eq _ _ _ _ _ Efd). cbn [ps_lookup]. apply keys_kept_aset. exact H.
  - (* ADelDecl *)
    destruct (db_decl d s n v f) as [r0|] eqn:Edv.
    + (* the version is declared: the family holds it *)
      pose proof (A1 v) as Hv. rewrite Edv in Hv. unfold fd_decl in Hv.
      destruct (alookup n fd) as [fm|] eqn:Efm; [|cbn in Hv; discriminate].
      unfold fam_remove_version, fam_has_version, amem. rewrite Hv.
      set (vs' := aremove v (f_versions fm)).
      set (ts' := remove_keys (tags_of_version v (f_tags fm)) (f_tags fm)).
      assert (Dk : forall k, db_decl (apply (compile d (ADelDecl s n v f)) d) s n k f = alookup k vs').
      { intro k. rewrite DD, a_decl_aapply, !a_decl_view, Edv. cbn [is_some andb]. rewrite dkey_same.
        unfold vs'. rewrite alookup_aremove. destruct (str_eqb k v); [reflexivity|].
        rewrite <- A1. unfold fd_decl. rewrite Efm. reflexivity. }
      assert (Tk : forall k, db_tag (apply (compile d (ADelDecl s n v f)) d) s n k f = alookup k ts').
      { intro k. rewrite DT, a_tag_aapply, !a_decl_view, Edv. cbn [is_some andb]. unfold tag_points.
        rewrite !str_eqb_refl, !a_tag_view. cbn [andb].
        unfold ts'. rewrite alookup_remove_keys, mem_tags_of_version.
        assert (E : alookup k (f_tags fm) = db_tag d s n k f).
        { rewrite <- A2. unfold fd_tag. rewrite Efm. reflexivity. }
        rewrite E. destruct (opt_str_eqb (db_tag d s n k f) v); reflexivity. }
      cbn [f_versions]. fold vs'. destruct (is_nil vs') eqn:Enil.
      * (* the last version: the family is dropped *)
        eexists. eexists. split; [reflexivity|]. split; [|split].
        -- rewrite (ps_del_family_eq _ _ _ _ Efd).
           apply (lookup_agree_update ps d _ s f n fd); auto.
           ++ intros n' N. rewrite alookup_aremove. destruct (str_eqb_spec n' n); [contradiction|reflexivity].
           ++ apply is_nil_true in Enil. split; intro k.
              ** rewrite fd_decl_aremove, str_eqb_refl, Dk, Enil. reflexivity.
              ** rewrite fd_tag_aremove, str_eqb_refl.
                 destruct (db_tag (apply (compile d (ADelDecl s n v f)) d) s n k f) as [v1|] eqn:Et; [|reflexivity].
                 exfalso.
                 assert (ND' : no_dangling (view (apply (compile d (ADelDecl s n v f)) d))).
                 { eapply no_dangling_aeq; [apply aeq_sym, compile_refines|].
                   apply aapply_no_dangling; assumption. }
                 pose proof (proj1 (no_dangling_db _) ND') as ND2. apply (ND2 s n k f v1 Et). rewrite Dk, Enil. reflexivity.
        -- rewrite (ps_del_family_eq _ _ _ _ Efd). reflexivity.
        -- intros f0 H. rewrite (ps_del_family_eq _ _ _ _ Efd). cbn [ps_lookup]. apply keys_kept_aset. exact H.
      * eexists. eexists. split; [reflexivity|]. split; [|split].
        -- rewrite (ps_set_family_eq _ _ _ _ _ Efd).
           apply (lookup_agree_update ps d _ s f n fd); auto.
           ++ intros n' N. rewrite alookup_aset. destruct (str_eqb_spec n' n); [contradiction|reflexivity].
           ++ split; intro k.
              ** rewrite fd_decl_aset, str_eqb_refl, Dk. reflexivity.
              ** rewrite fd_tag_aset, str_eqb_refl, Tk. reflexivity.
        -- rewrite (ps_set_family_eq _ _ _ _ _ Efd). reflexivity.
        -- intros f0 H. rewrite (ps_set_family_eq _ _ _ _ _ Efd). cbn [ps_lookup]. apply keys_kept_aset. exact H.
    + (* not declared: the files and the stack stay *)
      assert (Same : forall s0 n0 k f0,
                 db_decl (apply (compile d (ADelDecl s n v f)) d) s0 n0 k f0 = db_decl d s0 n0 k f0 /\
                 db_tag (apply (compile d (ADelDecl s n v f)) d) s0 n0 k f0 = db_tag d s0 n0 k f0).
      { intros. rewrite db_decl_compile, db_tag_compile, a_decl_aapply, a_tag_aapply, !a_decl_view, !a_tag_view, Edv.
        cbn [is_some andb]. split; reflexivity. }
      assert (HA' : lookup_agree ps (apply (compile d (ADelDecl s n v f)) d) s).
      { intros f0 fd0 H0 n0. destruct (HA f0 fd0 H0 n0) as [B1 B2].
        split; intro k; destruct (Same s n0 k f0) as [E1 E2]; rewrite ?E1, ?E2; auto. }
      pose proof (A1 v) as Hv. rewrite Edv in Hv. unfold fd_decl in Hv.
      destruct (alookup n fd) as [fm|] eqn:Efm.
      * unfold fam_remove_version, fam_has_version, amem. rewrite Hv.
        eexists. eexists. split; [reflexivity|]. split; [exact HA'|]. split; [reflexivity|auto].
      * eexists. eexists. split; [reflexivity|]. split; [exact HA'|]. split; [reflexivity|auto].
  - (* ASetTag: the version is declared, hence registered in the family *)
    cbn [act_ok] in OK. rewrite a_decl_view in OK.
    pose proof (A1 v) as Hv. unfold fd_decl in Hv.
    destruct (alookup n fd) as [fm|] eqn:Efm; [|cbn in Hv; congruence].
    unfold fam_assign_tag, fam_has_version, amem.
    destruct (alookup v (f_versions fm)) as [r0|] eqn:Ev; [|congruence].
    eexists. eexists. split; [reflexivity|]. split; [|split].
    + rewrite (ps_set_family_eq _ _ _ _ _ Efd).
      apply (lookup_agree_update ps d _ s f n fd); auto.
      * intros n' N. rewrite alookup_aset. destruct (str_eqb_spec n' n); [contradiction|reflexivity].
      * split; intro k.
        -- rewrite fd_decl_aset, str_eqb_refl, DD, a_decl_aapply, a_decl_view. cbn [f_versions].
           rewrite <- A1. unfold fd_decl. rewrite Efm. reflexivity.
        -- rewrite fd_tag_aset, str_eqb_refl, DT, a_tag_aapply, apath_view, has_stack_path, Hst, a_tag_view.
           cbn [andb f_tags]. rewrite dkey_same, alookup_aset. destruct (str_eqb k t); [reflexivity|].
           rewrite <- A2. unfold fd_tag. rewrite Efm. reflexivity.
    + rewrite (ps_set_family_eq _ _ _ _ _ Efd). reflexivity.
    + intros f0 H. rewrite (ps_set_family_eq _ _ _ _ _ Efd). cbn [ps_lookup]. apply keys_kept_aset. exact H.
  - (* ADelTag *)
    assert (Dk : forall k, db_decl (apply (compile d (ADelTag s n t f)) d) s n k f = db_decl d s n k f).
    { intro k. rewrite DD, a_decl_aapply, a_decl_view. reflexivity. }
    assert (Tk : forall k, db_tag (apply (compile d (ADelTag s n t f)) d) s n k f =
                           if str_eqb k t then None else db_tag d s n k f).
    { intro k. rewrite DT, a_tag_aapply, a_tag_view, dkey_same. reflexivity. }
    assert (Unch : fd_tag fd n t = None -> lookup_agree ps (apply (compile d (ADelTag s n t f)) d) s).
    { intros Hn f0 fd0 H0 n0. destruct (HA f0 fd0 H0 n0) as [B1 B2].
      destruct (classic_nf (n0, f0) (n, f)) as [E|N].
      - inversion E. subst n0 f0. rewrite Efd in H0. inversion H0. subst fd0. split; intro k.
        + rewrite Dk. apply B1.
        + rewrite Tk. destruct (str_eqb_spec k t) as [->|Nk]; [exact Hn|apply B2].
      - destruct (FR n0 t f0 N) as [_ E2]. split; intro k.
        + destruct (FR n0 k f0 N) as [E1 _]. rewrite E1. apply B1.
        + destruct (FR n0 k f0 N) as [_ E3]. rewrite E3. apply B2. }
    destruct (alookup n fd) as [fm|] eqn:Efm.
    + unfold fam_unassign_tag, amem. destruct (alookup t (f_tags fm)) as [v0|] eqn:Et.
      * eexists. eexists. split; [reflexivity|]. split; [|split].
        -- rewrite (ps_set_family_eq _ _ _ _ _ Efd).
           apply (lookup_agree_update ps d _ s f n fd); auto.
           ++ intros n' N. rewrite alookup_aset. destruct (str_eqb_spec n' n); [contradiction|reflexivity].
           ++ split; intro k.
              ** rewrite fd_decl_aset, str_eqb_refl, Dk. cbn [f_versions]. rewrite <- A1.
                 unfold fd_decl. rewrite Efm. reflexivity.
              ** rewrite fd_tag_aset, str_eqb_refl, Tk. cbn [f_tags]. rewrite alookup_aremove.
                 destruct (str_eqb k t); [reflexivity|]. rewrite <- A2. unfold fd_tag. rewrite Efm. reflexivity.
        -- rewrite (ps_set_family_eq _ _ _ _ _ Efd). reflexivity.
        -- intros f0 H. rewrite (ps_set_family_eq _ _ _ _ _ Efd). cbn [ps_lookup]. apply keys_kept_aset. exact H.
      * eexists. eexists. split; [reflexivity|]. split; [|split; [reflexivity|auto]].
        apply Unch. unfold fd_tag. rewrite Efm. exact Et.
    + eexists. eexists. split; [reflexivity|]. split; [|split; [reflexivity|auto]].
      apply Unch. unfold fd_tag. rewrite Efm. reflexivity.
Qed.
