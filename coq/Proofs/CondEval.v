(* C11 - the repaired evaluator computes the truth-table denotation of the tokens of a
   printed condition (token level; the tokeniser is tied to the text in Proofs/CondTok.v). *)
From Coq Require Import Lia.
From Eupsv Require Import Base.Base Base.BaseLemmas Model.Rx Model.Cond Model.Args Model.Legacy Model.Blocks Model.TableSpec.

(* ---------------------------------------------------------------- characters and words *)

Lemma alpha_facts c : is_alpha c = true ->
  ascii_eqb c "+"%char = false /\ ascii_eqb c "-"%char = false /\ is_digit c = false /\
  ascii_eqb c "_"%char = false /\ ascii_eqb c c_dollar = false /\ ascii_eqb c c_lp = false /\
  ascii_eqb c "!"%char = false /\ ascii_eqb c c_rp = false.
Proof.
  destruct c as [[] [] [] [] [] [] [] []]; vm_compute; intros H; try discriminate H;
    repeat split; reflexivity.
Qed.

Lemma lower_alpha c : is_lower (lower_ascii c) = true -> is_alpha c = true.
Proof. destruct c as [[] [] [] [] [] [] [] []]; vm_compute; intros H; try discriminate H; reflexivity. Qed.

Lemma first_alpha_py_int s : first_alpha s = true -> py_int s = None.
Proof.
  destruct s as [|c r]; [discriminate|]. cbn [first_alpha]. intros H.
  destruct (alpha_facts c H) as (H1 & H2 & H3 & H4 & _).
  unfold py_int. rewrite H1, H2. cbn [digits_go]. rewrite H3, H4. reflexivity.
Qed.

Lemma first_alpha_no_dollar s : first_alpha s = true -> starts_with [c_dollar; c_lb] s = false.
Proof.
  destruct s as [|c r]; [discriminate|]. cbn [first_alpha]. intros H.
  destruct (alpha_facts c H) as (_ & _ & _ & _ & H5 & _).
  cbn [starts_with]. rewrite ascii_eqb_sym, H5. reflexivity.
Qed.

(* a word that starts with a letter differs from any string that does not *)
Lemma first_alpha_neq s t : first_alpha s = true -> first_alpha t = false -> str_eqb s t = false.
Proof.
  intros Hs Ht. apply str_eqb_neq. intros ->. rewrite Hs in Ht. discriminate.
Qed.

Lemma lower_first_alpha s t :
  lower_str s = t -> first_alpha t = true -> forallb is_lower t = true -> first_alpha s = true.
Proof.
  destruct s as [|c r]; intros <-; [discriminate|]. cbn. intros _ H.
  apply andb_true_iff in H. destruct H as [H _]. now apply lower_alpha.
Qed.

Lemma mem_str_cons_false x y l : mem_str x (y :: l) = false -> str_eqb x y = false /\ mem_str x l = false.
Proof. cbn. destruct (str_eqb x y); [discriminate|auto]. Qed.

(* ---------------------------------------------------------------- ordinary tokens *)

(* a token that _peek returns unchanged and _next pops *)
Definition plain (e : cenv) (s : str) : Prop :=
  lookup e (VStr s) = Ok (VStr s) /\ coerce (VStr s) = VStr s /\ is_eof (VStr s) = false.

Lemma plain_peek e s t : plain e s -> peek e (VStr s :: t) = Ok (VStr s).
Proof. intros (H1 & H2 & _). unfold peek. rewrite H1. cbn [bind]. now rewrite H2. Qed.

Lemma plain_next e s t : plain e s -> next e (VStr s :: t) = Ok (VStr s, t).
Proof. intros H. unfold next. rewrite (plain_peek e s t H). cbn [bind]. destruct H as (_ & _ & ->). reflexivity. Qed.

Lemma plain_closed e s :
  starts_with [c_dollar; c_lb] s = false ->
  str_eqb (lower_str s) (lit "flavor") = false -> str_eqb (lower_str s) (lit "type") = false ->
  py_int s = None -> str_eqb s (lit "True") = false -> str_eqb s (lit "False") = false ->
  str_eqb s s_eof = false -> plain e s.
Proof.
  intros H1 H2 H3 H4 H5 H6 H7. unfold plain, lookup, coerce, is_eof, veq_s.
  rewrite H1, H2, H3, H4, H5, H6, H7. auto.
Qed.

Lemma plain_op e (o : str) :
  In o [lit "=="; lit "!="; lit "||"; lit "&&"; s_lp; s_rp] -> plain e o.
Proof.
  cbn [In]. intros [<-|[<-|[<-|[<-|[<-|[<-|[]]]]]]]; apply plain_closed; reflexivity.
Qed.

Lemma wf_lit_plain e x : wf_lit x = true -> plain e x.
Proof.
  unfold wf_lit. rewrite !andb_true_iff, !negb_true_iff. intros [[[Ha _] Hr] Hl].
  unfold reserved_words in Hr.
  apply mem_str_cons_false in Hr. destruct Hr as [R1 Hr].
  apply mem_str_cons_false in Hr. destruct Hr as [R2 Hr].
  apply mem_str_cons_false in Hr. destruct Hr as [R3 _].
  apply mem_str_cons_false in Hl. destruct Hl as [L1 Hl].
  apply mem_str_cons_false in Hl. destruct Hl as [L2 _].
  apply plain_closed; auto using first_alpha_no_dollar, first_alpha_py_int.
Qed.

Lemma wf_lit_not_not x : wf_lit x = true -> str_eqb x (lit "not") = false.
Proof.
  unfold wf_lit. rewrite !andb_true_iff, !negb_true_iff. intros [[_ Hr] _].
  unfold reserved_words in Hr.
  apply mem_str_cons_false in Hr. destruct Hr as [_ Hr].
  apply mem_str_cons_false in Hr. destruct Hr as [_ Hr].
  apply mem_str_cons_false in Hr. destruct Hr as [_ Hr].
  apply mem_str_cons_false in Hr. tauto.
Qed.

Lemma wf_lit_first_alpha x : wf_lit x = true -> first_alpha x = true.
Proof. unfold wf_lit. rewrite !andb_true_iff. tauto. Qed.

Lemma wf_lit_not_var x v : wf_lit x = true -> lower_str x <> var_name v.
Proof.
  unfold wf_lit. rewrite !andb_true_iff, !negb_true_iff. intros [_ Hl].
  apply mem_str_cons_false in Hl. destruct Hl as [L1 Hl].
  apply mem_str_cons_false in Hl. destruct Hl as [L2 _].
  apply str_eqb_neq in L1. apply str_eqb_neq in L2. destruct v; assumption.
Qed.

(* the flavor as a resolved value *)
Lemma wf_env_coerce e : wf_env e = true ->
  coerce (VStr (ce_flavor e)) = VStr (ce_flavor e) /\ is_eof (VStr (ce_flavor e)) = false /\
  first_alpha (ce_flavor e) = true /\ str_eqb (ce_flavor e) (lit "not") = false.
Proof.
  unfold wf_env. rewrite andb_true_iff, negb_true_iff. intros [Ha Hr].
  unfold reserved_words in Hr.
  apply mem_str_cons_false in Hr. destruct Hr as [R1 Hr].
  apply mem_str_cons_false in Hr. destruct Hr as [R2 Hr].
  apply mem_str_cons_false in Hr. destruct Hr as [R3 Hr].
  apply mem_str_cons_false in Hr. destruct Hr as [R4 _].
  unfold coerce, is_eof, veq_s, s_eof. rewrite (first_alpha_py_int _ Ha), R1, R2, R3. auto.
Qed.

(* the variable as written *)
Lemma spelling_facts v l : wf_alay v l = true ->
  first_alpha (al_sp l) = true /\ starts_with [c_dollar; c_lb] (al_sp l) = false /\
  lower_str (al_sp l) = var_name v.
Proof.
  unfold wf_alay. intros H. apply str_eqb_eq in H.
  assert (Hf : first_alpha (al_sp l) = true).
  { apply (lower_first_alpha _ _ H); destruct v; reflexivity. }
  auto using first_alpha_no_dollar.
Qed.

(* what _peek answers for the variable of an atom: the flavor, the list of types, or (no
   type defined) the spelling itself; in each case a value that is none of the
   punctuation tokens, and whose comparison with the literal is the denotation *)
Definition var_value (e : cenv) (v : cvar) (sp : str) : value :=
  match v with
  | CFlavor => VStr (ce_flavor e)
  | CType => match ce_types e with [] => VStr sp | _ => VList (ce_types e) end
  end.

Lemma var_peek e v l t : wf_env e = true -> wf_alay v l = true ->
  peek e (VStr (al_sp l) :: t) = Ok (var_value e v (al_sp l)) /\
  is_eof (var_value e v (al_sp l)) = false /\
  veq_s (var_value e v (al_sp l)) (lit "(") = false /\
  veq_s (var_value e v (al_sp l)) (lit "!") = false /\
  veq_s (var_value e v (al_sp l)) (lit "not") = false.
Proof.
  intros He Hl. destruct (spelling_facts v l Hl) as (Hf & Hd & Hlow).
  destruct (wf_env_coerce e He) as (Hc & Heof & Hfa & Hnot).
  unfold peek, lookup. rewrite Hd, Hlow.
  destruct v; cbn [var_name var_value].
  - replace (str_eqb (lit "flavor") (lit "flavor")) with true by reflexivity.
    cbn [bind]. rewrite Hc. repeat split; auto; unfold veq_s.
    + apply first_alpha_neq; auto.
    + apply first_alpha_neq; auto.
  - replace (str_eqb (lit "type") (lit "flavor")) with false by reflexivity.
    replace (str_eqb (lit "type") (lit "type")) with true by reflexivity.
    destruct (ce_types e) as [|t0 ts].
    + cbn [bind]. unfold coerce. rewrite (first_alpha_py_int _ Hf).
      assert (N : forall w, lower_str w <> lit "type" -> str_eqb (al_sp l) w = false).
      { intros w Hw. apply str_eqb_neq. intros E. apply Hw. rewrite <- E. exact Hlow. }
      rewrite (N (lit "True")), (N (lit "False")) by (vm_compute; discriminate).
      repeat split; unfold is_eof, veq_s; try (apply first_alpha_neq; auto; fail).
      * apply N. vm_compute. discriminate.
      * apply N. vm_compute. discriminate.
    + cbn [bind coerce]. repeat split.
Qed.

Lemma var_next e v l t : wf_env e = true -> wf_alay v l = true ->
  next e (VStr (al_sp l) :: t) = Ok (var_value e v (al_sp l), t).
Proof.
  intros He Hl. destruct (var_peek e v l t He Hl) as (Hp & Heof & _).
  unfold next. rewrite Hp. cbn [bind]. rewrite Heof. reflexivity.
Qed.

Lemma var_cmp e v l o x : wf_env e = true -> wf_alay v l = true -> wf_lit x = true ->
  (match var_value e v (al_sp l) with
   | VList ls => VBool (match o with OEq => py_in (VStr x) ls | ONe => negb (py_in (VStr x) ls) end)
   | lhs => VBool (match o with OEq => py_eq lhs (VStr x) | ONe => negb (py_eq lhs (VStr x)) end)
   end) = VBool (denote_atom e v o x).
Proof.
  intros He Hl Hx. destruct (spelling_facts v l Hl) as (_ & _ & Hlow).
  unfold denote_atom. destruct v; cbn [var_value].
  - cbn [py_eq]. reflexivity.
  - destruct (ce_types e) as [|t0 ts] eqn:Et.
    + cbn [py_eq mem_str].
      assert (N : str_eqb (al_sp l) x = false).
      { apply str_eqb_neq. intros E. apply (wf_lit_not_var x CType Hx). rewrite <- E. exact Hlow. }
      rewrite N. reflexivity.
    + cbn [py_in]. reflexivity.
Qed.

(* ---------------------------------------------------------------- unfolding *)

Lemma ev_expr_S fx f e toks :
  ev_expr fx (S f) e toks = bind (ev_term fx f e toks) (fun '(lhs, t1) => ev_loop fx f e lhs t1).
Proof. reflexivity. Qed.

Lemma ev_loop_S f e lhs toks :
  ev_loop true (S f) e lhs toks =
  bind (next e toks) (fun '(op, t1) =>
    if is_or op then
      bind (ev_term true f e t1) (fun '(rhs, t2) => ev_loop true f e (py_or lhs rhs) t2)
    else if is_and op then
      bind (ev_term true f e t1) (fun '(rhs, t2) => ev_loop true f e (py_and lhs rhs) t2)
    else Ok (lhs, push op t1)).
Proof. reflexivity. Qed.

Lemma ev_term_S fx f e toks :
  ev_term fx (S f) e toks =
  bind (ev_prim fx f e toks) (fun '(lhs, t1) =>
    bind (next e t1) (fun '(op, t2) =>
      if is_eof op then Ok (lhs, t2)
      else if veq_s op (lit "==") then
        bind (ev_prim fx f e t2) (fun '(rhs, t3) =>
          match lhs with
          | VList l => Ok (VBool (py_in rhs l), t3)
          | _ => Ok (VBool (py_eq lhs rhs), t3)
          end)
      else if veq_s op (lit "!=") then
        bind (ev_prim fx f e t2) (fun '(rhs, t3) =>
          match lhs with
          | VList l => Ok (VBool (negb (py_in rhs l)), t3)
          | _ => Ok (VBool (negb (py_eq lhs rhs)), t3)
          end)
      else if is_unmodelled_cmp op then Err Undefined
      else Ok (lhs, push op t2))).
Proof. reflexivity. Qed.

Lemma ev_prim_S fx f e toks :
  ev_prim fx (S f) e toks =
  bind (peek e toks) (fun nx =>
    if veq_s nx (lit "(") then
      bind (next e toks) (fun '(_, t1) =>
        bind (ev_expr fx f e t1) (fun '(v, t2) =>
          bind (next e t2) (fun '(cl, t3) =>
            if veq_s cl (lit ")") then Ok (v, t3) else Err Refused)))
    else if veq_s nx (lit "!") || veq_s nx (lit "not") then
      bind (next e toks) (fun '(_, t1) =>
        bind (ev_expr fx f e t1) (fun '(v, t2) => Ok (VBool (negb (truthy v)), t2)))
    else next e toks).
Proof. reflexivity. Qed.

Global Opaque ev_expr ev_loop ev_term ev_prim.

(* ---------------------------------------------------------------- what may follow a term *)

Definition follow_ok (rest : list value) : Prop :=
  rest = [] \/ exists o t, rest = VStr o :: t /\ In o [pr_bin BOr; pr_bin BAnd; s_rp].

(* after a complete term the look-ahead is put back *)
Lemma follow_next e rest : follow_ok rest ->
  exists op, next e rest = Ok (op, match rest with [] => [] | _ :: t => t end) /\
    (is_eof op = true /\ rest = [] \/
     is_eof op = false /\ veq_s op (lit "==") = false /\ veq_s op (lit "!=") = false /\
     is_unmodelled_cmp op = false /\ push op (match rest with [] => [] | _ :: t => t end) = rest).
Proof.
  intros [->|(o & t & -> & Ho)].
  - exists (VStr s_eof). split; [reflexivity|]. left. split; reflexivity.
  - exists (VStr o). split.
    + apply plain_next. apply plain_op. cbn [In] in *. cbn [pr_bin] in Ho. intuition.
    + right. cbn [In pr_bin] in Ho.
      destruct Ho as [<-|[<-|[<-|[]]]]; repeat split; reflexivity.
Qed.

(* ---------------------------------------------------------------- fuel *)

Definition term_toks (c : cond) : list str :=
  if is_bin c then s_lp :: cond_toks c ++ [s_rp] else cond_toks c.

Fixpoint need_e (c : cond) : nat :=
  match c with
  | Atom _ _ _ _ => 3
  | Paren _ _ c' => 4 + need_e c'
  | Bin _ _ _ a b => 1 + (if is_bin b then 3 + need_e b else need_e b) + need_e a
  end.
Definition need_t (c : cond) : nat := if is_bin c then 3 + need_e c else need_e c - 1.

Lemma need_e_pos c : 3 <= need_e c.
Proof. induction c; cbn [need_e]; try lia. Qed.

Lemma need_e_len c : need_e c <= 4 * length (cond_toks c).
Proof.
  induction c; cbn [need_e cond_toks].
  - cbn. lia.
  - destruct (is_bin c2); repeat (rewrite ?app_length; cbn [length]); lia.
  - repeat (rewrite ?app_length; cbn [length]). lia.
Qed.

Definition vs (l : list str) : list value := map VStr l.
Lemma vs_app a b : vs (a ++ b) = vs a ++ vs b.
Proof. apply map_app. Qed.

(* ---------------------------------------------------------------- the main induction *)

Section Sound.
Variable e : cenv.
Hypothesis He : wf_env e = true.

(* the continuation form: evaluating an expression in front of [rest] is running the
   operator loop on [rest] with the denotation as left-hand side *)
Definition L (c : cond) : Prop :=
  forall rest res f, follow_ok rest ->
    (forall g, f <= g -> ev_loop true g e (VBool (denote e c)) rest = Ok res) ->
    forall g, f + need_e c <= g -> ev_expr true g e (vs (cond_toks c) ++ rest) = Ok res.

Definition T (c : cond) : Prop :=
  forall rest, follow_ok rest ->
    forall g, need_t c <= g ->
      ev_term true g e (vs (term_toks c) ++ rest) = Ok (VBool (denote e c), rest).

(* a term, then whatever follows it *)
Lemma term_finish (lhs : value) (rest : list value) f :
  follow_ok rest ->
  (bind (next e rest) (fun '(op, t2) =>
      if is_eof op then Ok (lhs, t2)
      else if veq_s op (lit "==") then
        bind (ev_prim true f e t2) (fun '(rhs, t3) =>
          match lhs with
          | VList l => Ok (VBool (py_in rhs l), t3)
          | _ => Ok (VBool (py_eq lhs rhs), t3)
          end)
      else if veq_s op (lit "!=") then
        bind (ev_prim true f e t2) (fun '(rhs, t3) =>
          match lhs with
          | VList l => Ok (VBool (negb (py_in rhs l)), t3)
          | _ => Ok (VBool (negb (py_eq lhs rhs)), t3)
          end)
      else if is_unmodelled_cmp op then Err Undefined
      else Ok (lhs, push op t2))) = Ok (lhs, rest).
Proof.
  intros Hf. destruct (follow_next e rest Hf) as (op & Hn & [[He1 ->]|(E1 & E2 & E3 & E4 & E5)]).
  - rewrite Hn. cbn [bind]. rewrite He1. reflexivity.
  - rewrite Hn. cbn [bind]. rewrite E1, E2, E3, E4, E5. reflexivity.
Qed.

Lemma T_atom l v o x : wf_alay v l = true -> wf_lit x = true -> T (Atom l v o x).
Proof.
  intros Hl Hx rest Hf g Hg. unfold need_t in Hg. cbn [is_bin need_e] in Hg.
  destruct g as [|[|g]]; try lia.
  unfold term_toks. cbn [is_bin cond_toks vs map app].
  rewrite ev_term_S, ev_prim_S.
  destruct (var_peek e v l (VStr (pr_cmp o) :: VStr x :: rest) He Hl) as (Hp & _ & N1 & N2 & N3).
  rewrite Hp. cbn [bind]. rewrite N1, N2, N3. cbn [orb].
  rewrite (var_next e v l _ He Hl). cbn [bind].
  assert (Po : plain e (pr_cmp o)) by (apply plain_op; destruct o; cbn; auto 10).
  rewrite (plain_next e _ _ Po). cbn [bind].
  pose proof (wf_lit_plain e x Hx) as Px.
  pose proof (wf_lit_first_alpha x Hx) as Hfa.
  assert (Hprim : ev_prim true (S g) e (VStr x :: rest) = Ok (VStr x, rest)).
  { rewrite ev_prim_S, (plain_peek e x rest Px). cbn [bind]. unfold veq_s.
    rewrite (first_alpha_neq x (lit "(")), (first_alpha_neq x (lit "!")) by (auto; reflexivity).
    rewrite (wf_lit_not_not x Hx). cbn [orb]. apply plain_next. exact Px. }
  pose proof (var_cmp e v l o x He Hl Hx) as Hc.
  destruct o; cbn [pr_cmp].
  - replace (is_eof (VStr (lit "=="))) with false by reflexivity.
    replace (veq_s (VStr (lit "==")) (lit "==")) with true by reflexivity.
    rewrite Hprim. cbn [bind].
    destruct (var_value e v (al_sp l)); cbn [denote]; cbv beta iota zeta in Hc; rewrite <- Hc; reflexivity.
  - replace (is_eof (VStr (lit "!="))) with false by reflexivity.
    replace (veq_s (VStr (lit "!=")) (lit "==")) with false by reflexivity.
    replace (veq_s (VStr (lit "!=")) (lit "!=")) with true by reflexivity.
    rewrite Hprim. cbn [bind].
    destruct (var_value e v (al_sp l)); cbn [denote]; cbv beta iota zeta in Hc; rewrite <- Hc; reflexivity.
Qed.

(* a parenthesised expression used as a term *)
Lemma T_paren c : L c ->
  forall rest, follow_ok rest ->
    forall g, 3 + need_e c <= g ->
      ev_term true g e (vs (s_lp :: cond_toks c ++ [s_rp]) ++ rest) = Ok (VBool (denote e c), rest).
Proof.
  intros HL rest Hf g Hg. destruct g as [|[|g]]; try lia.
  cbn [vs map app]. rewrite ev_term_S, ev_prim_S.
  assert (Plp : plain e s_lp) by (apply plain_op; cbn; auto 10).
  assert (Prp : plain e s_rp) by (apply plain_op; cbn; auto 10).
  rewrite (plain_peek e _ _ Plp). cbn [bind].
  replace (veq_s (VStr s_lp) (lit "(")) with true by reflexivity.
  rewrite (plain_next e _ _ Plp). cbn [bind].
  fold (vs (cond_toks c ++ [s_rp])). rewrite vs_app, <- app_assoc. cbn [vs map app].
  rewrite (HL (VStr s_rp :: rest) (VBool (denote e c), VStr s_rp :: rest) 1).
  - cbn [bind]. rewrite (plain_next e _ _ Prp). cbn [bind].
    replace (veq_s (VStr s_rp) (lit ")")) with true by reflexivity.
    cbn [bind]. exact (term_finish (VBool (denote e c)) rest (S g) Hf).
  - right. exists s_rp, rest. cbn. auto.
  - intros g' Hg'. destruct g' as [|g']; try lia. rewrite ev_loop_S.
    rewrite (plain_next e _ _ Prp). cbn [bind]. reflexivity.
  - lia.
Qed.

Lemma L_of_T c : ~ is_bin c = true -> T c -> L c.
Proof.
  intros Hb HT rest res f Hf Hloop g Hg.
  unfold T, need_t, term_toks in HT. destruct (is_bin c); [congruence|].
  pose proof (need_e_pos c) as Hpos.
  destruct g as [|g]; [lia|].
  rewrite ev_expr_S, (HT rest Hf g) by lia. cbn [bind]. apply Hloop. lia.
Qed.

Lemma sound c : wf_cond c = true -> L c /\ T c.
Proof.
  induction c as [l v o x | s1 s2 o a IHa b IHb | s1 s2 c IHc]; cbn [wf_cond]; intros Hwf.
  - apply andb_true_iff in Hwf. destruct Hwf as [Hl Hx].
    pose proof (T_atom l v o x Hl Hx) as HT. split; [|exact HT].
    apply L_of_T; [cbn; discriminate|exact HT].
  - apply andb_true_iff in Hwf. destruct Hwf as [Ha Hb].
    destruct (IHa Ha) as [La _]. destruct (IHb Hb) as [Lb Tb].
    assert (LB : L (Bin s1 s2 o a b)).
    { intros rest res f Hf Hloop g Hg. cbn [cond_toks].
      rewrite vs_app, <- app_assoc. cbn [vs map app].
      change (map VStr (if is_bin b then s_lp :: cond_toks b ++ [s_rp] else cond_toks b))
        with (vs (term_toks b)).
      cbn [need_e] in Hg.
      set (nb := if is_bin b then 3 + need_e b else need_e b) in *.
      assert (Tb' : forall rest, follow_ok rest -> forall g, nb <= g ->
                ev_term true g e (vs (term_toks b) ++ rest) = Ok (VBool (denote e b), rest)).
      { intros r Hr g' Hg'. unfold term_toks, nb in *. destruct (is_bin b) eqn:Eb.
        - apply (T_paren b Lb r Hr g' Hg').
        - unfold T, need_t, term_toks in Tb. rewrite Eb in Tb. apply Tb; auto. lia. }
      apply (La (VStr (pr_bin o) :: vs (term_toks b) ++ rest) res (1 + f + nb)).
      - right. exists (pr_bin o), (vs (term_toks b) ++ rest). split; [reflexivity|].
        destruct o; cbn; auto.
      - intros g' Hg'. destruct g' as [|g']; try lia. rewrite ev_loop_S.
        assert (Po : plain e (pr_bin o)) by (apply plain_op; destruct o; cbn; auto 10).
        rewrite (plain_next e _ _ Po). cbn [bind].
        destruct o; cbn [pr_bin denote].
        + replace (is_or (VStr (lit "||"))) with true by reflexivity.
          rewrite (Tb' rest Hf g') by lia. cbn [bind].
          replace (py_or (VBool (denote e a)) (VBool (denote e b)))
            with (VBool (denote e a || denote e b)) by (unfold py_or; cbn; destruct (denote e a); reflexivity).
          apply Hloop. lia.
        + replace (is_or (VStr (lit "&&"))) with false by reflexivity.
          replace (is_and (VStr (lit "&&"))) with true by reflexivity.
          rewrite (Tb' rest Hf g') by lia. cbn [bind].
          replace (py_and (VBool (denote e a)) (VBool (denote e b)))
            with (VBool (denote e a && denote e b)) by (unfold py_and; cbn; destruct (denote e a); reflexivity).
          apply Hloop. lia.
      - lia. }
    split; [exact LB|].
    intros rest Hf g Hg. unfold need_t in Hg. unfold term_toks. cbn [is_bin] in *.
    apply (T_paren _ LB rest Hf g Hg).
  - destruct (IHc Hwf) as [Lc _].
    assert (HT : T (Paren s1 s2 c)).
    { intros rest Hf g Hg. unfold need_t in Hg. unfold term_toks. cbn [is_bin need_e cond_toks] in *.
      apply (T_paren c Lc rest Hf g). lia. }
    split; [|exact HT]. apply L_of_T; [cbn; discriminate|exact HT].
Qed.

Lemma eval_tokens_sound c : wf_cond c = true ->
  eval_tokens true e (cond_toks c) = Ok (VBool (denote e c)).
Proof.
  intros Hwf. destruct (sound c Hwf) as [HL _].
  unfold eval_tokens. fold (vs (cond_toks c)).
  pose proof (HL [] (VBool (denote e c), []) 1) as H.
  rewrite app_nil_r in H. rewrite H.
  - cbn [bind]. reflexivity.
  - left. reflexivity.
  - intros g Hg. destruct g as [|g]; try lia. rewrite ev_loop_S. reflexivity.
  - unfold eval_fuel, vs. rewrite map_length. pose proof (need_e_len c). lia.
Qed.

End Sound.
