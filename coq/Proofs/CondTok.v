(* C11 - level A for conditions: the tokeniser of VersionParser.__init__ applied to the
   text of a printed condition gives back its tokens, whatever the spacing, the letter case
   of FLAVOR / TYPE and the quoting of the literals. *)
From Coq Require Import Lia.
From Eupsv Require Import Base.Base Base.BaseLemmas Model.Rx Model.Cond Model.Args Model.Legacy
  Model.Blocks Model.TableSpec Proofs.RxLib Proofs.CondEval.

(* ---------------------------------------------------------------- character facts *)

Lemma wordc_facts c : is_wordc c = true ->
  is_quote c = false /\ ascii_eqb c c_dollar = false /\ ascii_eqb c c_hash = false.
Proof.
  destruct c as [[] [] [] [] [] [] [] []]; vm_compute; intros H; try discriminate H; repeat split.
Qed.

Lemma alpha_wordc c : is_alpha c = true -> is_wordc c = true.
Proof. destruct c as [[] [] [] [] [] [] [] []]; vm_compute; intros H; try discriminate H; reflexivity. Qed.

Lemma lower_is_lower_alpha s : forallb is_lower (lower_str s) = true -> forallb is_alpha s = true.
Proof.
  induction s as [|c r IH]; [reflexivity|]. cbn [lower_str map forallb]. rewrite !andb_true_iff.
  intros [H1 H2]. split; [now apply lower_alpha|now apply IH].
Qed.

(* ---------------------------------------------------------------- the flat form *)

Inductive ftok := FT (n : nat) (q : quote) (t : str).
Definition ft_tok (f : ftok) : str := match f with FT _ _ t => t end.
Definition ft_strip (f : ftok) : ftok := match f with FT n _ t => FT n QNone t end.
Definition pr_ftok (f : ftok) : str :=
  match f with FT n q t => sp n ++ pr_quote q ++ t ++ pr_quote q end.
Definition pr_flat (l : list ftok) : str := flat_map pr_ftok l.

Fixpoint flat_of (n : nat) (c : cond) : list ftok :=
  match c with
  | Atom l v o x => [FT n QNone (al_sp l); FT (al_s1 l) QNone (pr_cmp o); FT (al_s2 l) (al_q l) x]
  | Bin s1 s2 o a b =>
      flat_of n a ++ FT s1 QNone (pr_bin o) ::
      (if is_bin b then FT s2 QNone s_lp :: flat_of 0 b ++ [FT 0 QNone s_rp] else flat_of s2 b)
  | Paren s1 s2 c' => FT n QNone s_lp :: flat_of s1 c' ++ [FT s2 QNone s_rp]
  end.

Lemma pr_flat_app a b : pr_flat (a ++ b) = pr_flat a ++ pr_flat b.
Proof. apply flat_map_app. Qed.

Lemma pr_flat_of n c : pr_flat (flat_of n c) = sp n ++ print_cond c.
Proof.
  revert n. induction c as [l v o x | s1 s2 o a IHa b IHb | s1 s2 c IHc]; intros n.
  - cbn [flat_of pr_flat flat_map pr_ftok pr_quote print_cond app]. rewrite !app_nil_r, <- !app_assoc.
    reflexivity.
  - cbn [flat_of print_cond]. rewrite pr_flat_app, IHa. cbn [pr_flat flat_map pr_ftok pr_quote app].
    rewrite app_nil_r, <- !app_assoc. do 4 f_equal.
    destruct (is_bin b).
    + cbn [flat_map pr_ftok pr_quote app]. fold (pr_flat (flat_of 0 b ++ [FT 0 QNone s_rp])).
      rewrite pr_flat_app, IHb. cbn [pr_flat flat_map pr_ftok pr_quote sp repeat app].
      rewrite !app_nil_r, <- !app_assoc. reflexivity.
    + fold (pr_flat (flat_of s2 b)). now rewrite IHb.
  - cbn [flat_of print_cond pr_flat flat_map pr_ftok pr_quote app]. fold (pr_flat (flat_of s1 c ++ [FT s2 QNone s_rp])).
    rewrite pr_flat_app, IHc. cbn [pr_flat flat_map pr_ftok pr_quote app].
    rewrite !app_nil_r, <- !app_assoc. reflexivity.
Qed.

Lemma toks_flat_of n c : map ft_tok (flat_of n c) = cond_toks c.
Proof.
  revert n. induction c as [l v o x | s1 s2 o a IHa b IHb | s1 s2 c IHc]; intros n; cbn [flat_of cond_toks].
  - reflexivity.
  - rewrite map_app, IHa. cbn [map ft_tok]. destruct (is_bin b).
    + cbn [map ft_tok]. rewrite map_app, IHb. reflexivity.
    + now rewrite IHb.
  - cbn [map ft_tok]. rewrite map_app, IHc. reflexivity.
Qed.

(* ---------------------------------------------------------------- unquote *)

Definition noq (s : str) : bool := forallb (fun c => negb (is_quote c)) s.
Definition ft_ok (f : ftok) : bool :=
  match f with FT _ q t => noq t && (match q with QNone => true | _ => nonempty t end) end.

Lemma unq_nomatch c r : is_quote c = false -> unq_match (c :: r) = None.
Proof. intros H. cbn [unq_match]. now rewrite H. Qed.

Lemma noq_Forall s : noq s = true -> Forall (fun c => forall r, unq_match (c :: r) = None) s.
Proof.
  unfold noq. rewrite forallb_Forall. apply Forall_impl. intros c H r.
  apply unq_nomatch. now apply negb_true_iff.
Qed.

Lemma sp_noq n : noq (sp n) = true.
Proof. induction n; [reflexivity|]. cbn. exact IHn. Qed.

Lemma unquote_quoted q t rest :
  is_quote q = true -> noq t = true -> nonempty t = true ->
  scan unq_match 0 (q :: t ++ q :: rest) = t ++ scan unq_match 0 rest.
Proof.
  intros Hq Ht Hne.
  replace (q :: t ++ q :: rest) with (q :: (t ++ [q]) ++ rest) by (now rewrite <- app_assoc).
  apply scan_match. rewrite <- app_assoc. cbn [app unq_match]. rewrite Hq.
  rewrite (span_app _ t q rest Ht) by (now rewrite Hq).
  destruct t; [discriminate|]. rewrite app_length. cbn [length]. f_equal. f_equal. lia.
Qed.

Lemma unquote_flat l rest :
  forallb ft_ok l = true ->
  scan unq_match 0 (pr_flat l ++ rest) = pr_flat (map ft_strip l) ++ scan unq_match 0 rest.
Proof.
  induction l as [|[n q t] l IH]; intros Hok; [reflexivity|].
  cbn [forallb ft_ok] in Hok. rewrite !andb_true_iff in Hok. destruct Hok as [[Ht Hq] Hl].
  cbn [pr_flat flat_map map ft_strip pr_ftok pr_quote]. fold (pr_flat l). fold (pr_flat (map ft_strip l)).
  rewrite <- !app_assoc. rewrite (scan_copy _ (sp n)) by (apply noq_Forall, sp_noq). f_equal.
  destruct q; cbn [pr_quote app].
  - rewrite (scan_copy _ t) by (apply noq_Forall, Ht). now rewrite IH.
  - rewrite unquote_quoted by auto. now rewrite IH.
  - rewrite unquote_quoted by auto. now rewrite IH.
Qed.

(* ---------------------------------------------------------------- the token scanner *)

Lemma dollar_none c r : ascii_eqb c c_dollar = false -> dollar_match (c :: r) = None.
Proof. intros H. cbn [dollar_match]. now rewrite H. Qed.

Definition not_pword (p : pend) : Prop := match p with PWord _ => False | _ => True end.
Definition not_ptext (p : pend) : Prop := match p with PText _ => False | _ => True end.

Lemma tok_word_more a w rest :
  forallb is_wordc w = true -> tok_go (PWord a) 0 (w ++ rest) = tok_go (PWord (a ++ w)) 0 rest.
Proof.
  revert a. induction w as [|c w IH]; intros a Hw; [now rewrite app_nil_r|].
  cbn [forallb] in Hw. apply andb_true_iff in Hw. destruct Hw as [Hc Hw].
  destruct (wordc_facts c Hc) as (_ & Hd & _).
  cbn [app tok_go]. rewrite (dollar_none c _ Hd), Hc. rewrite (IH _ Hw). now rewrite <- app_assoc.
Qed.

Lemma tok_word_start p w rest :
  not_pword p -> nonempty w = true -> forallb is_wordc w = true ->
  tok_go p 0 (w ++ rest) = flush p ++ tok_go (PWord w) 0 rest.
Proof.
  intros Hp Hne Hw. destruct w as [|c w]; [discriminate|].
  cbn [forallb] in Hw. apply andb_true_iff in Hw. destruct Hw as [Hc Hw].
  destruct (wordc_facts c Hc) as (_ & Hd & _).
  cbn [app tok_go]. rewrite (dollar_none c _ Hd), Hc.
  destruct p as [|a|a]; [|destruct Hp|]; rewrite (tok_word_more [c] w rest Hw); reflexivity.
Qed.

Lemma tok_space p n rest :
  tok_go p 0 (sp (S n) ++ rest) = flush p ++ tok_go PNone 0 rest.
Proof.
  revert p. induction n as [|n IH]; intros p.
  - cbn [sp repeat app tok_go]. reflexivity.
  - change (sp (S (S n)) ++ rest) with (c_sp :: sp (S n) ++ rest). cbn [tok_go].
    change (dollar_match (c_sp :: sp (S n) ++ rest)) with (@None (str * nat)).
    cbv beta iota. change (is_wordc c_sp) with false. change (is_pyspace c_sp) with true. cbv beta iota.
    rewrite IH. reflexivity.
Qed.

Definition is_texttok (t : str) : bool := str_eqb t (lit "||") || str_eqb t (lit "&&").
Definition is_cmptok (t : str) : bool := str_eqb t (lit "==") || str_eqb t (lit "!=").
Definition is_partok (t : str) : bool := str_eqb t s_lp || str_eqb t s_rp.
Definition is_wordtok (t : str) : bool := nonempty t && forallb is_wordc t.

Lemma tok_text p t rest :
  not_ptext p -> is_texttok t = true -> tok_go p 0 (t ++ rest) = flush p ++ tok_go (PText t) 0 rest.
Proof.
  intros Hp Ht. unfold is_texttok in Ht. apply orb_true_iff in Ht.
  destruct Ht as [Ht|Ht]; apply str_eqb_eq in Ht; subst t;
    (destruct p as [|a|a]; [| |destruct Hp]; reflexivity).
Qed.

Lemma tok_cmp p t rest :
  is_cmptok t = true -> tok_go p 0 (t ++ rest) = flush p ++ t :: tok_go PNone 0 rest.
Proof.
  intros Ht. unfold is_cmptok in Ht. apply orb_true_iff in Ht.
  destruct Ht as [Ht|Ht]; apply str_eqb_eq in Ht; subst t; reflexivity.
Qed.

Lemma tok_par p t rest :
  is_partok t = true -> tok_go p 0 (t ++ rest) = flush p ++ t :: tok_go PNone 0 rest.
Proof.
  intros Ht. unfold is_partok in Ht. apply orb_true_iff in Ht.
  destruct Ht as [Ht|Ht]; apply str_eqb_eq in Ht; subst t; reflexivity.
Qed.

(* the class of a token and what the scanner holds after it *)
Definition tok_class_ok (t : str) : bool := is_wordtok t || is_texttok t || is_cmptok t || is_partok t.
Definition after_tok (t : str) : pend :=
  if is_wordtok t then PWord t else if is_texttok t then PText t else PNone.

(* a token may directly follow the pending state: no two words, no two operator texts *)
Definition compat (p : pend) (f : ftok) : Prop :=
  match f with
  | FT n _ t =>
      n <> 0 \/ ((is_wordtok t = true -> not_pword p) /\ (is_texttok t = true -> not_ptext p))
  end.

Fixpoint adjacent_ok (l : list ftok) : Prop :=
  match l with
  | f :: ((g :: _) as r) => compat (after_tok (ft_tok f)) g /\ adjacent_ok r
  | _ => True
  end.

Lemma word_not_others t : is_wordtok t = true -> is_texttok t = false /\ is_cmptok t = false /\ is_partok t = false.
Proof.
  unfold is_wordtok, is_texttok, is_cmptok, is_partok. rewrite andb_true_iff. intros [_ H].
  repeat split; apply orb_false_iff; split; apply str_eqb_neq; intros ->; discriminate H.
Qed.

Lemma text_not_others t : is_texttok t = true -> is_cmptok t = false /\ is_partok t = false.
Proof.
  unfold is_texttok. intros H. apply orb_true_iff in H.
  destruct H as [H|H]; apply str_eqb_eq in H; subst t; split; reflexivity.
Qed.

Lemma tok_one p n t rest :
  tok_class_ok t = true -> compat p (FT n QNone t) ->
  tok_go p 0 (sp n ++ t ++ rest) = flush p ++ (match after_tok t with PNone => [t] | _ => [] end)
                                 ++ tok_go (after_tok t) 0 rest.
Proof.
  intros Hc Hcomp.
  assert (G : forall p', compat p' (FT 0 QNone t) ->
              tok_go p' 0 (t ++ rest) = flush p' ++ (match after_tok t with PNone => [t] | _ => [] end)
                                 ++ tok_go (after_tok t) 0 rest).
  { intros p' [Hn|[Hw Ht]]; [congruence|].
    unfold tok_class_ok in Hc. unfold after_tok.
    destruct (is_wordtok t) eqn:Ew.
    - cbn [app]. unfold is_wordtok in Ew. apply andb_true_iff in Ew. destruct Ew as [E1 E2].
      apply tok_word_start; auto.
    - destruct (is_texttok t) eqn:Et.
      + cbn [app]. apply tok_text; auto.
      + cbn [orb] in Hc. apply orb_true_iff in Hc. destruct Hc as [Hc|Hc].
        * now apply tok_cmp.
        * now apply tok_par. }
  destruct n as [|n].
  - cbn [sp repeat app]. apply G. destruct Hcomp as [Hc0|Hc0]; [congruence|right; exact Hc0].
  - rewrite tok_space. rewrite (G PNone); [reflexivity|].
    right. split; intros _; exact I.
Qed.

(* the statement with the pending state made explicit *)
Lemma tok_flat l p :
  forallb (fun f => tok_class_ok (ft_tok f)) l = true ->
  (match l with f :: _ => compat p f | [] => True end) -> adjacent_ok l ->
  tok_go p 0 (pr_flat (map ft_strip l)) = flush p ++ map ft_tok l.
Proof.
  revert p. induction l as [|[n q t] l IH]; intros p Hc Hp Hadj.
  - cbn. now rewrite app_nil_r.
  - cbn [forallb ft_tok] in Hc. apply andb_true_iff in Hc. destruct Hc as [Ht Hl].
    cbn [map ft_strip pr_flat flat_map pr_ftok pr_quote app]. fold (pr_flat (map ft_strip l)).
    rewrite app_nil_r, <- app_assoc.
    rewrite (tok_one p n t _ Ht) by (destruct Hp as [Hp|Hp]; [left|right]; auto).
    rewrite IH; auto.
    + cbn [map ft_tok]. f_equal. unfold after_tok.
      destruct (is_wordtok t); [reflexivity|]. destruct (is_texttok t); reflexivity.
    + destruct l as [|g l']; [exact I|]. cbn [adjacent_ok ft_tok] in Hadj. tauto.
    + destruct l as [|g l']; [exact I|]. cbn [adjacent_ok] in Hadj. tauto.
Qed.

(* ---------------------------------------------------------------- printed conditions are such lists *)

Definition first_class (c : cond) : str := match flat_of 0 c with f :: _ => ft_tok f | [] => [] end.

Lemma flat_of_nonempty n c : flat_of n c <> [].
Proof. destruct c; cbn; try discriminate. destruct (flat_of n c1); discriminate. Qed.

(* the first token of a condition is a word or the left parenthesis; the last one a word
   or the right parenthesis *)
Definition starts_ok (l : list ftok) : Prop :=
  match l with FT _ _ t :: _ => is_wordtok t = true \/ t = s_lp | [] => False end.
Definition ends_ok (l : list ftok) : Prop :=
  match last_opt l with Some (FT _ _ t) => is_wordtok t = true \/ t = s_rp | None => False end.

Lemma last_opt_app {A} (a : list A) x : last_opt (a ++ [x]) = Some x.
Proof. induction a as [|y a IH]; [reflexivity|]. cbn [app last_opt]. destruct (a ++ [x]) eqn:E; [destruct a; discriminate|exact IH]. Qed.

Lemma last_opt_app2 {A} (a b : list A) : b <> [] -> last_opt (a ++ b) = last_opt b.
Proof.
  intros Hb. induction a as [|y a IH]; [reflexivity|]. cbn [app last_opt].
  destruct (a ++ b) eqn:E; [destruct a; [contradiction|discriminate]|exact IH].
Qed.

Lemma adjacent_app a b :
  adjacent_ok a -> adjacent_ok b ->
  (match last_opt a, b with Some f, g :: _ => compat (after_tok (ft_tok f)) g | _, _ => True end) ->
  adjacent_ok (a ++ b).
Proof.
  induction a as [|f a IH]; intros Ha Hb Hab; [exact Hb|].
  destruct a as [|f' a'].
  - cbn [app]. destruct b as [|g b']; [exact I|]. cbn [adjacent_ok]. cbn [last_opt] in Hab. tauto.
  - cbn [app adjacent_ok] in *. destruct Ha as [H1 H2]. split; [exact H1|].
    apply IH; auto.
Qed.

Lemma wf_lit_wordtok x : wf_lit x = true -> is_wordtok x = true /\ noq x = true.
Proof.
  unfold wf_lit. rewrite !andb_true_iff. intros [[[Ha Hw] _] _]. split.
  - unfold is_wordtok. rewrite Hw. destruct x; [discriminate|reflexivity].
  - unfold noq. eapply forallb_impl; [|exact Hw]. intros c Hc.
    destruct (wordc_facts c Hc) as (H & _). now rewrite H.
Qed.

Lemma spelling_wordtok v l : wf_alay v l = true -> is_wordtok (al_sp l) = true /\ noq (al_sp l) = true.
Proof.
  unfold wf_alay. intros H. apply str_eqb_eq in H.
  assert (Ha : forallb is_alpha (al_sp l) = true).
  { apply lower_is_lower_alpha. rewrite H. destruct v; reflexivity. }
  assert (Hw : forallb is_wordc (al_sp l) = true).
  { eapply forallb_impl; [|exact Ha]. apply alpha_wordc. }
  split.
  - unfold is_wordtok. rewrite Hw. destruct (al_sp l); [destruct v; discriminate H|reflexivity].
  - unfold noq. eapply forallb_impl; [|exact Hw]. intros c Hc.
    destruct (wordc_facts c Hc) as (Hq & _). now rewrite Hq.
Qed.

Ltac split5 := split; [|split; [|split; [|split]]].

Lemma flat_facts c : wf_cond c = true -> forall n,
  forallb ft_ok (flat_of n c) = true /\
  forallb (fun f => tok_class_ok (ft_tok f)) (flat_of n c) = true /\
  adjacent_ok (flat_of n c) /\ starts_ok (flat_of n c) /\ ends_ok (flat_of n c).
Proof.
  induction c as [l v o x | s1 s2 o a IHa b IHb | s1 s2 c IHc]; cbn [wf_cond]; intros Hwf n.
  - apply andb_true_iff in Hwf. destruct Hwf as [Hl Hx].
    destruct (wf_lit_wordtok x Hx) as [Xw Xq]. destruct (spelling_wordtok v l Hl) as [Sw Sq].
    cbn [flat_of]. split5.
    + cbn [forallb ft_ok]. rewrite Sq, Xq. cbn [andb].
      unfold is_wordtok in Xw. apply andb_true_iff in Xw. destruct Xw as [Xn _]. rewrite Xn.
      destruct o, (al_q l); reflexivity.
    + cbn [forallb ft_tok]. unfold tok_class_ok. rewrite Sw, Xw. cbn [orb andb].
      destruct o; reflexivity.
    + cbn [adjacent_ok ft_tok].
      assert (C1 : is_wordtok (pr_cmp o) = false) by (destruct o; reflexivity).
      assert (C2 : is_texttok (pr_cmp o) = false) by (destruct o; reflexivity).
      split; [|split; [|exact I]].
      * right. rewrite C1, C2. split; discriminate.
      * unfold after_tok. rewrite C1, C2. right. split; intros _; exact I.
    + left. exact Sw.
    + left. exact Xw.
  - apply andb_true_iff in Hwf. destruct Hwf as [Ha Hb].
    destruct (IHa Ha n) as (A1 & A2 & A3 & A4 & A5).
    assert (Ho : is_wordtok (pr_bin o) = false /\ is_texttok (pr_bin o) = true) by (destruct o; split; reflexivity).
    destruct Ho as [O1 O2].
    cbn [flat_of].
    (* the right operand as a list *)
    set (rb := if is_bin b then FT s2 QNone s_lp :: flat_of 0 b ++ [FT 0 QNone s_rp] else flat_of s2 b).
    assert (RB : forallb ft_ok rb = true /\ forallb (fun f => tok_class_ok (ft_tok f)) rb = true /\
                 adjacent_ok rb /\ starts_ok rb /\ ends_ok rb).
    { unfold rb. destruct (is_bin b).
      - destruct (IHb Hb 0) as (B1 & B2 & B3 & B4 & B5). split5.
        + cbn [forallb ft_ok]. rewrite forallb_app, B1. reflexivity.
        + cbn [forallb ft_tok]. rewrite forallb_app, B2. reflexivity.
        + change (FT s2 QNone s_lp :: flat_of 0 b ++ [FT 0 QNone s_rp])
            with ([FT s2 QNone s_lp] ++ flat_of 0 b ++ [FT 0 QNone s_rp]).
          apply adjacent_app; [exact I| |].
          * apply adjacent_app; [exact B3|exact I|].
            unfold ends_ok in B5. destruct (last_opt (flat_of 0 b)) as [[n' q' t']|]; [|exact I].
            cbn [ft_tok]. right. split; intros H; try discriminate H.
          * cbn [last_opt]. destruct (flat_of 0 b) as [|[n' q' t'] r] eqn:E; [now destruct (flat_of_nonempty 0 b)|].
            cbn [app ft_tok]. right. unfold after_tok. cbn. split; intros _; exact I.
        + right. reflexivity.
        + unfold ends_ok. rewrite app_comm_cons, last_opt_app. right. reflexivity.
      - apply (IHb Hb s2). }
    destruct RB as (R1 & R2 & R3 & R4 & R5).
    split5.
    + rewrite forallb_app, A1. cbn [forallb ft_ok]. rewrite R1. destruct o; reflexivity.
    + rewrite forallb_app, A2. cbn [forallb ft_tok]. rewrite R2. unfold tok_class_ok. rewrite O2.
      cbn. rewrite orb_true_r. reflexivity.
    + apply adjacent_app; [exact A3| |].
      * destruct rb as [|[n' q' t'] r] eqn:E; [exact I|]. cbn [adjacent_ok ft_tok]. split; [|exact R3].
        unfold after_tok. rewrite O1, O2. right. split; [intros _; exact I|].
        intros Ht. exfalso. unfold starts_ok in R4. destruct R4 as [R4|R4].
        -- destruct (word_not_others _ R4) as (W & _). congruence.
        -- subst t'. discriminate Ht.
      * unfold ends_ok in A5. destruct (last_opt (flat_of n a)) as [[n' q' t']|]; [|exact I].
        cbn [ft_tok]. right. rewrite O1. split; [discriminate|]. intros _.
        unfold after_tok. destruct A5 as [A5|A5].
        -- rewrite A5. exact I.
        -- subst t'. exact I.
    + unfold starts_ok in *. destruct (flat_of n a) as [|[n' q' t'] r]; [destruct A4|exact A4].
    + unfold ends_ok. rewrite last_opt_app2.
      * cbn [last_opt]. destruct rb as [|g r] eqn:E; [destruct R4|].
        unfold ends_ok in R5. exact R5.
      * discriminate.
  - destruct (IHc Hwf s1) as (C1 & C2 & C3 & C4 & C5). cbn [flat_of]. split5.
    + cbn [forallb ft_ok]. rewrite forallb_app, C1. reflexivity.
    + cbn [forallb ft_tok]. rewrite forallb_app, C2. reflexivity.
    + change (FT n QNone s_lp :: flat_of s1 c ++ [FT s2 QNone s_rp])
        with ([FT n QNone s_lp] ++ flat_of s1 c ++ [FT s2 QNone s_rp]).
      apply adjacent_app; [exact I| |].
      * apply adjacent_app; [exact C3|exact I|].
        unfold ends_ok in C5. destruct (last_opt (flat_of s1 c)) as [[n' q' t']|]; [|exact I].
        cbn [ft_tok]. right. split; intros H; discriminate H.
      * cbn [last_opt]. destruct (flat_of s1 c) as [|[n' q' t'] r] eqn:E; [now destruct (flat_of_nonempty s1 c)|].
        cbn [app ft_tok]. right. unfold after_tok. cbn. split; intros _; exact I.
    + right. reflexivity.
    + unfold ends_ok. rewrite app_comm_cons, last_opt_app. right. reflexivity.
Qed.

Theorem tokenize_print_cond c : wf_cond c = true -> tokenize (print_cond c) = cond_toks c.
Proof.
  intros Hwf. destruct (flat_facts c Hwf 0) as (F1 & F2 & F3 & F4 & _).
  unfold tokenize, unquote, resub.
  pose proof (pr_flat_of 0 c) as Hp. cbn [sp repeat app] in Hp. rewrite <- Hp.
  rewrite <- (app_nil_r (pr_flat (flat_of 0 c))), (unquote_flat _ [] F1). cbn [scan]. rewrite app_nil_r.
  rewrite tok_flat; auto.
  - cbn [flush app]. apply toks_flat_of.
  - destruct (flat_of 0 c) as [|[n q t] r]; [exact I|]. right. split; intros _; exact I.
Qed.
