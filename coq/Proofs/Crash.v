(* Proofs about Model/Crash.v (C08) *)
From Eupsv Require Import Base.Base Base.BaseLemmas Model.Crash.
From Coq Require Import Lia.

Definition clean (f : fs) : Prop := forall k, is_tmp k = true -> alookup k f = None.
Definition wf_effect (e : effect) : Prop := is_tmp (effect_target e) = false.

(* ---------------------------------------------------------------- association-list facts *)

Lemma aremove_absent {V} k (m : amap V) : alookup k m = None -> aremove k m = m.
Proof.
  induction m as [|[k' v] m IH]; simpl; intro H; [reflexivity|].
  destruct (str_eqb k k'); [discriminate|]. now rewrite IH.
Qed.

Lemma aremove_aset_absent {V} k (v : V) m : alookup k m = None -> aremove k (aset k v m) = m.
Proof.
  induction m as [|[k' v'] m IH]; simpl; intro H.
  - now rewrite str_eqb_refl.
  - destruct (str_eqb k k') eqn:E; [discriminate|]. simpl. rewrite E. now rewrite IH.
Qed.

Lemma aset_aset {V} k (v w : V) m : aset k v (aset k w m) = aset k v m.
Proof.
  induction m as [|[k' v'] m IH]; simpl.
  - now rewrite str_eqb_refl.
  - destruct (str_eqb k k') eqn:E; simpl; rewrite ?str_eqb_refl, ?E; [reflexivity|now rewrite IH].
Qed.

Lemma is_tmp_tmp_of p : is_tmp (tmp_of p) = true.
Proof.
  unfold is_tmp, tmp_of, ends_with. rewrite rev_app_distr. apply starts_with_refl.
Qed.

Lemma tmp_of_neq p q : is_tmp q = false -> q <> tmp_of p.
Proof. intros H ->. rewrite is_tmp_tmp_of in H. discriminate. Qed.

(* ---------------------------------------------------------------- one atomic write *)

Lemma run_all_cons f s l : run_all f (s :: l) = run_all (run_sys f s) l.
Proof. reflexivity. Qed.

Lemma run_appends t c : forall c0 f,
  run_all (aset t (File c0) f) (map (SAppend t) c) = aset t (File (c0 ++ c)) f.
Proof.
  induction c as [|l c IH]; intros c0 f.
  - cbn [map]. unfold run_all. cbn [fold_left]. now rewrite app_nil_r.
  - cbn [map]. rewrite run_all_cons. cbn [run_sys]. rewrite alookup_aset_same, aset_aset, IH.
    now rewrite <- app_assoc.
Qed.

Lemma run_all_app f a b : run_all f (a ++ b) = run_all (run_all f a) b.
Proof. unfold run_all. apply fold_left_app. Qed.

Lemma atomic_write_complete f p c :
  clean f -> run_all f (lower_atomic (EWrite p c)) = apply_effect f (EWrite p c).
Proof.
  intro Hc. cbn [lower_atomic apply_effect].
  change (SOpenTrunc (tmp_of p) :: map (SAppend (tmp_of p)) c ++ [SClose (tmp_of p); SRename (tmp_of p) p])
    with ([SOpenTrunc (tmp_of p)] ++ map (SAppend (tmp_of p)) c ++ [SClose (tmp_of p); SRename (tmp_of p) p]).
  rewrite !run_all_app. cbn [run_all fold_left run_sys].
  change (fold_left run_sys (map (SAppend (tmp_of p)) c) (aset (tmp_of p) (File []) f))
    with (run_all (aset (tmp_of p) (File []) f) (map (SAppend (tmp_of p)) c)).
  rewrite run_appends. cbn [app]. rewrite alookup_aset_same.
  rewrite aremove_aset_absent; [reflexivity|]. apply Hc, is_tmp_tmp_of.
Qed.

Lemma atomic_complete f e : clean f -> run_all f (lower_atomic e) = apply_effect f e.
Proof.
  intro Hc. destruct e as [p c|p|p|p]; [now apply atomic_write_complete| | |]; reflexivity.
Qed.

(* a strict prefix of the system calls of one effect leaves every main (non temporary) path alone *)
Lemma firstn_map_SAppend t c k : exists c', firstn k (map (SAppend t) c) = map (SAppend t) c'.
Proof. exists (firstn k c). apply firstn_map. Qed.

Lemma atomic_write_partial f p c k q :
  clean f -> k < length (lower_atomic (EWrite p c)) -> is_tmp q = false ->
  alookup q (run_all f (firstn k (lower_atomic (EWrite p c)))) = alookup q f.
Proof.
  intros Hc Hk Hq. cbn [lower_atomic] in *.
  destruct k as [|k]; [reflexivity|]. cbn [firstn].
  set (t := tmp_of p) in *.
  assert (Hqt : q <> t) by (now apply tmp_of_neq).
  (* the remaining k calls are taken from  appends ++ [close; rename] *)
  cbn [length] in Hk. rewrite app_length, map_length in Hk. cbn [length] in Hk.
  destruct (Nat.le_gt_cases k (length c)) as [Hle|Hgt].
  - (* inside the appends *)
    rewrite firstn_app. rewrite map_length.
    replace (k - length c) with 0 by lia. cbn [firstn]. rewrite app_nil_r.
    rewrite firstn_map.
    change (run_all f (SOpenTrunc t :: map (SAppend t) (firstn k c)))
      with (run_all (aset t (File []) f) (map (SAppend t) (firstn k c))).
    rewrite run_appends. now apply alookup_aset_other.
  - (* all appends and the close, but not the rename *)
    assert (k = S (length c)) by lia. subst k.
    rewrite firstn_app. rewrite map_length.
    rewrite firstn_all2 by (rewrite map_length; lia).
    replace (S (length c) - length c) with 1 by lia. cbn [firstn].
    change (run_all f (SOpenTrunc t :: map (SAppend t) c ++ [SClose t]))
      with (run_all (aset t (File []) f) (map (SAppend t) c ++ [SClose t])).
    rewrite run_all_app, run_appends. cbn [run_all fold_left run_sys]. now apply alookup_aset_other.
Qed.

Lemma atomic_partial f e k q :
  clean f -> k < length (lower_atomic e) -> is_tmp q = false ->
  alookup q (run_all f (firstn k (lower_atomic e))) = alookup q f.
Proof.
  intros Hc Hk Hq. destruct e as [p c|p|p|p]; [now apply atomic_write_partial| | |];
    cbn [lower_atomic length] in Hk; assert (k = 0) by lia; subst; reflexivity.
Qed.

(* ---------------------------------------------------------------- effects keep the store clean *)

Lemma clean_apply f e : clean f -> wf_effect e -> clean (apply_effect f e).
Proof.
  intros Hc Hw k Hk. unfold wf_effect in Hw.
  assert (N : k <> effect_target e) by (intros ->; congruence).
  destruct e as [p c|p|p|p]; cbn [apply_effect effect_target] in *.
  - rewrite alookup_aset_other by assumption. now apply Hc.
  - rewrite alookup_aremove_other by assumption. now apply Hc.
  - destruct (amem p f); [now apply Hc|]. rewrite alookup_aset_other by assumption. now apply Hc.
  - destruct (dir_empty p f); [|now apply Hc]. rewrite alookup_aremove_other by assumption. now apply Hc.
Qed.

(* ---------------------------------------------------------------- the main theorem *)

Theorem crash_is_effect_prefix_gen l : forall f k,
  clean f -> Forall wf_effect l ->
  exists j, j <= length l /\
    forall q, is_tmp q = false ->
      alookup q (crash_state lower_atomic f l k) = alookup q (apply_effects f (firstn j l)).
Proof.
  induction l as [|e l IH]; intros f k Hc Hw.
  - exists 0. split; [lia|]. intros q _. unfold crash_state, lower_all. cbn [flat_map].
    now rewrite firstn_nil.
  - inversion Hw as [|? ? He Hl]; subst.
    unfold crash_state, lower_all. cbn [flat_map]. rewrite firstn_app.
    destruct (Nat.lt_ge_cases k (length (lower_atomic e))) as [Hlt|Hge].
    + (* the crash falls inside the first effect *)
      exists 0. split; [lia|]. intros q Hq.
      replace (k - length (lower_atomic e)) with 0 by lia. cbn [firstn]. rewrite app_nil_r.
      cbn [apply_effects fold_left]. now apply atomic_partial.
    + (* the first effect is complete *)
      rewrite firstn_all2 by lia. rewrite run_all_app, atomic_complete by assumption.
      destruct (IH (apply_effect f e) (k - length (lower_atomic e)) (clean_apply f e Hc He) Hl)
        as [j [Hj Hq]].
      exists (S j). split; [cbn [length]; lia|]. intros q Hqt.
      cbn [firstn]. unfold apply_effects. cbn [fold_left]. now apply Hq.
Qed.

(* ---------------------------------------------------------------- old or new, frame *)

Lemma apply_effect_file f e q c :
  alookup q (apply_effect f e) = Some (File c) -> alookup q f = Some (File c) \/ e = EWrite q c.
Proof.
  destruct e as [p c0|p|p|p]; cbn [apply_effect].
  - destruct (str_eq_dec q p) as [->|N].
    + rewrite alookup_aset_same. intro H. injection H as ->. now right.
    + rewrite alookup_aset_other by assumption. now left.
  - destruct (str_eq_dec q p) as [->|N].
    + rewrite alookup_aremove_same. discriminate.
    + rewrite alookup_aremove_other by assumption. now left.
  - destruct (amem p f); [now left|]. destruct (str_eq_dec q p) as [->|N].
    + rewrite alookup_aset_same. discriminate.
    + rewrite alookup_aset_other by assumption. now left.
  - destruct (dir_empty p f); [|now left]. destruct (str_eq_dec q p) as [->|N].
    + rewrite alookup_aremove_same. discriminate.
    + rewrite alookup_aremove_other by assumption. now left.
Qed.

Lemma apply_effects_file l : forall f q c,
  alookup q (apply_effects f l) = Some (File c) -> alookup q f = Some (File c) \/ In (EWrite q c) l.
Proof.
  induction l as [|e l IH]; intros f q c H; [now left|].
  unfold apply_effects in *. cbn [fold_left] in H. destruct (IH _ _ _ H) as [H1|H1].
  - destruct (apply_effect_file _ _ _ _ H1) as [H2|H2]; [now left|right; now left].
  - right. now right.
Qed.

Lemma apply_effect_other f e q : q <> effect_target e -> alookup q (apply_effect f e) = alookup q f.
Proof.
  intro N. destruct e as [p c|p|p|p]; cbn [apply_effect effect_target] in *.
  - now apply alookup_aset_other.
  - now apply alookup_aremove_other.
  - destruct (amem p f); [reflexivity|now apply alookup_aset_other].
  - destruct (dir_empty p f); [now apply alookup_aremove_other|reflexivity].
Qed.

Lemma apply_effects_other l : forall f q,
  (forall e, In e l -> q <> effect_target e) -> alookup q (apply_effects f l) = alookup q f.
Proof.
  induction l as [|e l IH]; intros f q H; [reflexivity|].
  unfold apply_effects in *. cbn [fold_left]. rewrite IH.
  - apply apply_effect_other. apply H. now left.
  - intros e' He'. apply H. now right.
Qed.

Lemma In_firstn {A} (x : A) j l : In x (firstn j l) -> In x l.
Proof.
  revert j. induction l as [|a l IH]; intros j H.
  - rewrite firstn_nil in H. exact H.
  - destruct j as [|j]; cbn [firstn] in H; [contradiction|].
    destruct H as [->|H]; [now left|right; eauto].
Qed.

Lemma clean_nil : clean [].
Proof. intros k _. reflexivity. Qed.

Lemma clean_cons p n f : is_tmp p = false -> clean f -> clean ((p, n) :: f).
Proof.
  intros Hp Hf k Hk. cbn [alookup]. destruct (str_eqb_spec k p) as [->|N]; [congruence|now apply Hf].
Qed.
