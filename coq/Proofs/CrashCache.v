(* C08 - proofs about Model/CrashCache.v *)
From Eupsv Require Import Base.Base Base.BaseLemmas Model.Crash Model.CrashXdev Model.CrashCache Proofs.Crash.
From Coq Require Import Lia.

(* ---------------------------------------------------------------- 1. death by exception *)

Definition on_tmp (t : path) (s : syscall) : Prop :=
  match s with
  | SOpenTrunc p | SAppend p _ | SClose p => p = t
  | _ => False
  end.

Lemma run_sys_on_tmp t s f q : on_tmp t s -> q <> t -> alookup q (run_sys f s) = alookup q f.
Proof.
  destruct s as [p|p l|p|a b|p|p|p]; cbn [on_tmp run_sys]; intros H N; try contradiction; subst.
  - now apply alookup_aset_other.
  - destruct (alookup t f) as [[c|]|]; [|reflexivity|reflexivity]. now apply alookup_aset_other.
  - reflexivity.
Qed.

Lemma run_all_on_tmp t l : forall f q, (forall s, In s l -> on_tmp t s) -> q <> t ->
  alookup q (run_all f l) = alookup q f.
Proof.
  induction l as [|s l IH]; intros f q H N; [reflexivity|].
  rewrite run_all_cons, (IH _ _); [|intros s' Hs; apply H; now right|exact N].
  apply (run_sys_on_tmp t); [apply H; now left|exact N].
Qed.

Lemma in_firstn {A} k : forall (l : list A) x, In x (firstn k l) -> In x l.
Proof.
  induction k as [|k IH]; intros l x H; [contradiction|].
  destruct l as [|y l]; [contradiction|]. cbn [firstn] in H. destruct H as [H|H]; [now left|right; now apply IH].
Qed.

Lemma body_on_tmp p c s : In s (helper_body p c) -> on_tmp (tmp_of p) s.
Proof.
  unfold helper_body. intros [<-|H]; [reflexivity|]. apply in_map_iff in H. destruct H as [l [<- _]]. reflexivity.
Qed.

Lemma length_body p c : length (helper_body p c) = S (length c).
Proof. unfold helper_body. cbn [length]. now rewrite map_length. Qed.

(* as the code is: whatever call the exception replaces before the helper has completed, no name but the
   temporary one changes *)
Lemma interrupted_skip_untouched f p c k q : is_tmp q = false -> k < length c + 3 ->
  alookup q (interrupted SkipOnRaise f p c k) = alookup q f.
Proof.
  intros Hq Hk. pose proof (tmp_of_neq p q Hq) as N. unfold interrupted. cbv zeta. rewrite length_body.
  destruct (Nat.ltb k (S (length c))) eqn:E1.
  - destruct k as [|k]; [reflexivity|]. apply (run_all_on_tmp (tmp_of p)); [|exact N].
    intros s Hs. apply in_app_or in Hs. destruct Hs as [Hs|Hs].
    + apply in_firstn in Hs. now apply body_on_tmp in Hs.
    + cbn [helper_unwind] in Hs. destruct Hs as [<-|[]]. reflexivity.
  - destruct (Nat.eqb k (S (length c))) eqn:E2.
    + apply (run_all_on_tmp (tmp_of p)); [|exact N]. intros s Hs. now apply body_on_tmp in Hs.
    + destruct (Nat.eqb k (S (S (length c)))) eqn:E3.
      * apply (run_all_on_tmp (tmp_of p)); [|exact N]. intros s Hs. apply in_app_or in Hs. destruct Hs as [Hs|[<-|[]]];
          [now apply body_on_tmp in Hs|reflexivity].
      * apply Nat.ltb_ge in E1. apply Nat.eqb_neq in E2. apply Nat.eqb_neq in E3. lia.
Qed.

Lemma interrupted_complete st f p c k : clean f -> length c + 3 <= k ->
  interrupted st f p c k = apply_effect f (EWrite p c).
Proof.
  intros Hc Hk. unfold interrupted. cbv zeta. rewrite length_body.
  destruct (Nat.ltb k (S (length c))) eqn:E1; [apply Nat.ltb_lt in E1; lia|].
  destruct (Nat.eqb k (S (length c))) eqn:E2; [apply Nat.eqb_eq in E2; lia|].
  destruct (Nat.eqb k (S (S (length c)))) eqn:E3; [apply Nat.eqb_eq in E3; lia|].
  rewrite <- (atomic_write_complete f p c Hc). reflexivity.
Qed.

Lemma interrupted_skip_old_or_new f p c k : clean f -> is_tmp p = false ->
  alookup p (interrupted SkipOnRaise f p c k) = alookup p f \/
  alookup p (interrupted SkipOnRaise f p c k) = Some (File c).
Proof.
  intros Hc Hp. destruct (Nat.lt_ge_cases k (length c + 3)) as [H|H].
  - left. now apply interrupted_skip_untouched.
  - right. rewrite interrupted_complete by assumption. cbn [apply_effect]. apply alookup_aset_same.
Qed.

Lemma interrupted_skip_frame f p c k q : clean f -> is_tmp q = false -> q <> p ->
  alookup q (interrupted SkipOnRaise f p c k) = alookup q f.
Proof.
  intros Hc Hq N. destruct (Nat.lt_ge_cases k (length c + 3)) as [H|H].
  - now apply interrupted_skip_untouched.
  - rewrite interrupted_complete by assumption. cbn [apply_effect]. now apply alookup_aset_other.
Qed.

(* ---------------------------------------------------------------- 2. the rebuild at start-up *)

(* every file that passes for newer than the database holds exactly the rows of its flavor *)
Definition sound (db : list prow) (cs : caches) : Prop :=
  forall fl rows, alookup fl cs = Some (true, rows) -> rows = rows_of fl db.

Lemma sound_aset db cs fl : sound db cs -> sound db (aset fl (true, rows_of fl db) cs).
Proof.
  intros H g rows E. destruct (str_eqb_spec g fl) as [->|N].
  - rewrite alookup_aset_same in E. now inversion E.
  - rewrite alookup_aset_other in E by exact N. now apply H.
Qed.

Lemma sound_final_saves db l : forall cs, sound db cs ->
  sound db (fold_left (fun m (x : str * cfile) => aset (fst x) (snd x) m) (map (fun fl => (fl, (true, rows_of fl db))) l) cs).
Proof.
  induction l as [|fl l IH]; intros cs H; [exact H|]. cbn [map fold_left fst snd]. apply IH. now apply sound_aset.
Qed.

Lemma firstn_map {A B} (g : A -> B) k : forall l, firstn k (map g l) = map g (firstn k l).
Proof. induction k as [|k IH]; intros [|x l]; try reflexivity. cbn [map firstn]. now rewrite IH. Qed.

Lemma sound_crash_caches fls db cs k : sound db cs -> sound db (crash_caches false fls db cs k).
Proof.
  intro H. unfold crash_caches, persists, final_saves. rewrite firstn_map. now apply sound_final_saves.
Qed.

Lemma sound_reader fls db cs fl : sound db cs -> reader_answer fls db cs fl = rows_of fl db.
Proof.
  intro H. unfold reader_answer.
  destruct (_ && _); [|reflexivity].
  unfold cache_rows. destruct (alookup fl cs) as [[[|] rows]|] eqn:E; try reflexivity. now apply H.
Qed.
