(* C08, second layer, store side: a store [represents] a database; applying a file effect of
   Db to the database corresponds to applying its image to the store; the reader reads a
   represented database back; composed with the generic crash theorem. *)
From Eupsv Require Import Base.Base Base.BaseLemmas Model.Db Model.Crash Model.CrashDb
  Proofs.DbLib Proofs.Db Proofs.Crash Proofs.CrashDbLib.
From Coq Require Import Lia.

Definition vnode (o : option vcontent) : option node :=
  match o with Some c => Some (File (print_v c)) | None => None end.
Definition cnode (o : option ccontent) : option node :=
  match o with Some c => Some (File (print_c c)) | None => None end.

(* the store holds exactly the records of the database, printed, at their paths; no temporary
   file; every name in the database can be a path component *)
Record represents (f : fs) (d : db) : Prop := mkRep {
  rep_clean : clean f;
  rep_v : forall s k, has_stack d s = true -> segs_ok s k = true -> alookup (vpath s k) f = vnode (db_vfile d s k);
  rep_c : forall s k, has_stack d s = true -> segs_ok s k = true -> alookup (cpath s k) f = cnode (db_cfile d s k);
  rep_vok : forall s k, db_vfile d s k <> None -> key_ok s k = true;
  rep_cok : forall s k, db_cfile d s k <> None -> key_ok s k = true;
  rep_stacks : forall s, has_stack d s = true -> seg_ok s = true
}.

(* ---------------------------------------------------------------- images are well-formed effects *)

Lemma eff_ok_wf e : eff_ok e = true -> wf_effect (image e).
Proof.
  unfold wf_effect. destruct e as [s n|s n|s k c|s k|s k c|s k]; cbn [image effect_target eff_ok]; intro H.
  - rewrite is_tmp_dpath. apply andb_true_iff in H. destruct H as [_ H]. destruct (is_tmp n); [discriminate|reflexivity].
  - rewrite is_tmp_dpath. apply andb_true_iff in H. destruct H as [_ H]. destruct (is_tmp n); [discriminate|reflexivity].
  - apply is_tmp_vpath.
  - apply is_tmp_vpath.
  - apply is_tmp_cpath.
  - apply is_tmp_cpath.
Qed.

Lemma effs_ok_wf es : forallb eff_ok es = true -> Forall wf_effect (images es).
Proof.
  intro H. apply Forall_forall. intros x Hx. apply in_map_iff in Hx. destruct Hx as [e [<- He]].
  apply eff_ok_wf. rewrite forallb_forall in H. apply H. exact He.
Qed.

Lemma eff_ok_dir s n : seg_ok s && seg_ok n && negb (is_tmp n) = true -> seg_ok s = true /\ seg_ok n = true.
Proof. intro H. apply andb_true_iff in H. destruct H as [H _]. apply andb_true_iff in H. exact H. Qed.

(* ---------------------------------------------------------------- one effect *)

Lemma key_eqb_false_neq k k' : key_eqb k k' = false -> k <> k'.
Proof. intros H E. subst. rewrite key_eqb_refl in H. discriminate. Qed.

Lemma sk_neq s k s' k' : str_eqb s s' && key_eqb k k' = false -> ~ (s = s' /\ k = k').
Proof. intros H [-> ->]. rewrite str_eqb_refl, key_eqb_refl in H. discriminate. Qed.

Lemma sk_eq s k s' k' : str_eqb s s' && key_eqb k k' = true -> s = s' /\ k = k'.
Proof.
  intro H. apply andb_true_iff in H. destruct H as [H1 H2]. apply str_eqb_eq in H1. apply key_eqb_eq in H2. auto.
Qed.

Lemma represents_apply1 f d e : represents f d -> eff_ok e = true -> represents (apply_effect f (image e)) (apply1 e d).
Proof.
  intros R Hok. constructor.
  - apply clean_apply; [apply (rep_clean _ _ R)|apply eff_ok_wf; exact Hok].
  - (* version files *)
    intros s k Hs Hk. rewrite has_stack_apply1 in Hs. rewrite db_vfile_apply1.
    destruct e as [s' n'|s' n'|s' k' c|s' k'|s' k' c|s' k']; cbn [image eff_ok] in *.
    + destruct (eff_ok_dir _ _ Hok). rewrite apply_effect_other; [apply (rep_v _ _ R); assumption|].
      cbn [effect_target]. apply vpath_dpath; assumption.
    + destruct (eff_ok_dir _ _ Hok). rewrite apply_effect_other; [apply (rep_v _ _ R); assumption|].
      cbn [effect_target]. apply vpath_dpath; assumption.
    + destruct (key_ok_parts _ _ Hok) as [Hok' _].
      destruct (str_eqb s s' && key_eqb k k') eqn:E.
      * apply sk_eq in E. destruct E as [-> ->]. cbn [apply_effect]. rewrite alookup_aset_same, Hs. reflexivity.
      * rewrite apply_effect_other; [apply (rep_v _ _ R); assumption|]. cbn [effect_target].
        intro P. apply (sk_neq _ _ _ _ E). apply vpath_inj; assumption.
    + destruct (key_ok_parts _ _ Hok) as [Hok' _].
      destruct (str_eqb s s' && key_eqb k k') eqn:E.
      * apply sk_eq in E. destruct E as [-> ->]. cbn [apply_effect]. rewrite alookup_aremove_same. reflexivity.
      * rewrite apply_effect_other; [apply (rep_v _ _ R); assumption|]. cbn [effect_target].
        intro P. apply (sk_neq _ _ _ _ E). apply vpath_inj; assumption.
    + destruct (key_ok_parts _ _ Hok) as [Hok' _].
      rewrite apply_effect_other; [apply (rep_v _ _ R); assumption|]. cbn [effect_target]. apply vpath_cpath; assumption.
    + destruct (key_ok_parts _ _ Hok) as [Hok' _].
      rewrite apply_effect_other; [apply (rep_v _ _ R); assumption|]. cbn [effect_target]. apply vpath_cpath; assumption.
  - (* chain files *)
    intros s k Hs Hk. rewrite has_stack_apply1 in Hs. rewrite db_cfile_apply1.
    destruct e as [s' n'|s' n'|s' k' c|s' k'|s' k' c|s' k']; cbn [image eff_ok] in *.
    + destruct (eff_ok_dir _ _ Hok). rewrite apply_effect_other; [apply (rep_c _ _ R); assumption|].
      cbn [effect_target]. apply cpath_dpath; assumption.
    + destruct (eff_ok_dir _ _ Hok). rewrite apply_effect_other; [apply (rep_c _ _ R); assumption|].
      cbn [effect_target]. apply cpath_dpath; assumption.
    + destruct (key_ok_parts _ _ Hok) as [Hok' _].
      rewrite apply_effect_other; [apply (rep_c _ _ R); assumption|]. cbn [effect_target].
      intro P. symmetry in P. revert P. apply vpath_cpath; assumption.
    + destruct (key_ok_parts _ _ Hok) as [Hok' _].
      rewrite apply_effect_other; [apply (rep_c _ _ R); assumption|]. cbn [effect_target].
      intro P. symmetry in P. revert P. apply vpath_cpath; assumption.
    + destruct (key_ok_parts _ _ Hok) as [Hok' _].
      destruct (str_eqb s s' && key_eqb k k') eqn:E.
      * apply sk_eq in E. destruct E as [-> ->]. cbn [apply_effect]. rewrite alookup_aset_same, Hs. reflexivity.
      * rewrite apply_effect_other; [apply (rep_c _ _ R); assumption|]. cbn [effect_target].
        intro P. apply (sk_neq _ _ _ _ E). apply cpath_inj; assumption.
    + destruct (key_ok_parts _ _ Hok) as [Hok' _].
      destruct (str_eqb s s' && key_eqb k k') eqn:E.
      * apply sk_eq in E. destruct E as [-> ->]. cbn [apply_effect]. rewrite alookup_aremove_same. reflexivity.
      * rewrite apply_effect_other; [apply (rep_c _ _ R); assumption|]. cbn [effect_target].
        intro P. apply (sk_neq _ _ _ _ E). apply cpath_inj; assumption.
  - intros s k. rewrite db_vfile_apply1.
    destruct e as [s' n'|s' n'|s' k' c|s' k'|s' k' c|s' k']; cbn [eff_ok] in *; try apply (rep_vok _ _ R);
      destruct (str_eqb s s' && key_eqb k k') eqn:E; try apply (rep_vok _ _ R).
    + apply sk_eq in E. destruct E as [-> ->]. intros _. exact Hok.
    + intro H. congruence.
  - intros s k. rewrite db_cfile_apply1.
    destruct e as [s' n'|s' n'|s' k' c|s' k'|s' k' c|s' k']; cbn [eff_ok] in *; try apply (rep_cok _ _ R);
      destruct (str_eqb s s' && key_eqb k k') eqn:E; try apply (rep_cok _ _ R).
    + apply sk_eq in E. destruct E as [-> ->]. intros _. exact Hok.
    + intro H. congruence.
  - intros s. rewrite has_stack_apply1. apply (rep_stacks _ _ R).
Qed.

Lemma represents_apply es : forall f d, represents f d -> forallb eff_ok es = true ->
  represents (apply_effects f (images es)) (apply es d).
Proof.
  induction es as [|e es IH]; intros f d R H; [exact R|].
  cbn [forallb] in H. apply andb_true_iff in H. destruct H as [H1 H2].
  unfold apply_effects, images. cbn [map fold_left]. rewrite apply_cons.
  apply IH; [|exact H2]. apply represents_apply1; assumption.
Qed.

Lemma forallb_firstn {A} (p : A -> bool) j l : forallb p l = true -> forallb p (firstn j l) = true.
Proof.
  intro H. apply forallb_forall. intros x Hx. rewrite forallb_forall in H. apply H. apply (In_firstn _ j). exact Hx.
Qed.

(* the empty store represents the empty database *)
Lemma has_stack_empty path s : has_stack (empty_db path) s = mem_str s path.
Proof.
  unfold has_stack, empty_db. induction path as [|x path IH]; cbn; [reflexivity|].
  destruct (str_eqb s x); [reflexivity|exact IH].
Qed.

Lemma db_vfile_empty path s k : db_vfile (empty_db path) s k = None.
Proof.
  unfold db_vfile, empty_db. induction path as [|x path IH]; cbn; [reflexivity|].
  destruct (str_eqb s x); [reflexivity|exact IH].
Qed.

Lemma db_cfile_empty path s k : db_cfile (empty_db path) s k = None.
Proof.
  unfold db_cfile, empty_db. induction path as [|x path IH]; cbn; [reflexivity|].
  destruct (str_eqb s x); [reflexivity|exact IH].
Qed.

Lemma represents_empty path : forallb seg_ok path = true -> represents [] (empty_db path).
Proof.
  intro H. constructor.
  - apply clean_nil.
  - intros. rewrite db_vfile_empty. reflexivity.
  - intros. rewrite db_cfile_empty. reflexivity.
  - intros s k N. rewrite db_vfile_empty in N. congruence.
  - intros s k N. rewrite db_cfile_empty in N. congruence.
  - intros s Hs. rewrite has_stack_empty in Hs. rewrite forallb_forall in H. apply H. apply mem_str_In. exact Hs.
Qed.

(* every database built from the empty one by path-safe effects has a store that represents it *)
Lemma represents_built path es : forallb seg_ok path = true -> forallb eff_ok es = true ->
  represents (apply_effects [] (images es)) (apply es (empty_db path)).
Proof. intros H1 H2. apply represents_apply; [apply represents_empty; exact H1|exact H2]. Qed.

(* ---------------------------------------------------------------- the reader *)

Definition db_eq (d1 d2 : db) : Prop :=
  map fst d1 = map fst d2 /\
  (forall s k, db_vfile d1 s k = db_vfile d2 s k) /\
  (forall s k, db_cfile d1 s k = db_cfile d2 s k).

Lemma db_eq_view d1 d2 : db_eq d1 d2 -> aeq (view d1) (view d2).
Proof.
  intros [H1 [H2 H3]]. repeat split; intros.
  - rewrite !apath_view. exact H1.
  - rewrite !a_decl_view. unfold db_decl. rewrite H2. reflexivity.
  - rewrite !a_tag_view. unfold db_tag. rewrite H3. reflexivity.
Qed.

Lemma alookup_read_raw path f s :
  alookup s (read_raw path f) = if mem_str s path then Some (read_stack f s) else None.
Proof.
  unfold read_raw. induction path as [|x path IH]; cbn; [reflexivity|].
  destruct (str_eqb_spec s x) as [->|N]; [reflexivity|exact IH].
Qed.

Lemma path_read_raw path f : map fst (read_raw path f) = path.
Proof. unfold read_raw. rewrite map_map. cbn. apply map_id. Qed.

Lemma alookup_key {V} q (m : amap V) : alookup q m <> None -> In q (akeys m).
Proof.
  intro H. destruct (alookup q m) as [v|] eqn:E; [|congruence].
  apply alookup_In in E. unfold akeys. apply in_map_iff. exists (q, v). auto.
Qed.

Lemma db_vfile_read_raw path f s k :
  db_vfile (read_raw path f) s k = if mem_str s path && segs_ok s k then fs_vfile f s k else None.
Proof.
  unfold db_vfile. rewrite alookup_read_raw. destruct (mem_str s path); [|reflexivity]. cbn [andb read_stack vfiles].
  rewrite (glookup_functional key_eqb key_eqb_eq (fun k => fs_vfile f s k)).
  2:{ intros k' c' H. apply in_flat_map in H. destruct H as [q [_ H]].
      destruct (classify q) as [[s1 n1|s1 k1|s1 k1]|]; try contradiction.
      destruct (str_eqb s1 s); [|contradiction]. destruct (fs_vfile f s k1) as [c1|] eqn:E1; [|contradiction].
      destruct H as [H|[]]. inversion H. subst. exact E1. }
  destruct (segs_ok s k) eqn:Ok.
  - destruct (fs_vfile f s k) as [c|] eqn:Ev; [|destruct (existsb _ _); reflexivity].
    assert (Hin : In (vpath s k) (akeys f)).
    { apply alookup_key. unfold fs_vfile in Ev. destruct (alookup (vpath s k) f); [discriminate|discriminate Ev]. }
    match goal with |- (if ?b then _ else _) = _ => assert (Hb : b = true) end.
    { apply existsb_exists. exists (k, c). split; [|apply key_eqb_refl].
      apply in_flat_map. exists (vpath s k). split; [exact Hin|].
      rewrite classify_vpath_ok by exact Ok. rewrite str_eqb_refl, Ev. left. reflexivity. }
    rewrite Hb. reflexivity.
  - match goal with |- (if ?b then _ else _) = _ => assert (Hb : b = false) end.
    { apply existsb_false_forall. intros [k' c'] H. cbn [fst].
      apply in_flat_map in H. destruct H as [q [_ H]].
      destruct (classify q) as [[s1 n1|s1 k1|s1 k1]|] eqn:Ec; try contradiction.
      destruct (str_eqb_spec s1 s) as [->|]; [|contradiction].
      destruct (fs_vfile f s k1) as [c1|]; [|contradiction]. destruct H as [H|[]]. inversion H. subst k1 c1.
      apply classify_inv in Ec. destruct Ec as [_ [E1 [E2 E3]]].
      destruct (key_eqb k k') eqn:Ek; [|reflexivity]. apply key_eqb_eq in Ek. subst k'.
      unfold segs_ok in Ok. rewrite E1, E2, E3 in Ok. discriminate. }
    rewrite Hb. reflexivity.
Qed.

Lemma db_cfile_read_raw path f s k :
  db_cfile (read_raw path f) s k = if mem_str s path && segs_ok s k then fs_cfile f s k else None.
Proof.
  unfold db_cfile. rewrite alookup_read_raw. destruct (mem_str s path); [|reflexivity]. cbn [andb read_stack cfiles].
  rewrite (glookup_functional key_eqb key_eqb_eq (fun k => fs_cfile f s k)).
  2:{ intros k' c' H. apply in_flat_map in H. destruct H as [q [_ H]].
      destruct (classify q) as [[s1 n1|s1 k1|s1 k1]|]; try contradiction.
      destruct (str_eqb s1 s); [|contradiction]. destruct (fs_cfile f s k1) as [c1|] eqn:E1; [|contradiction].
      destruct H as [H|[]]. inversion H. subst. exact E1. }
  destruct (segs_ok s k) eqn:Ok.
  - destruct (fs_cfile f s k) as [c|] eqn:Ev; [|destruct (existsb _ _); reflexivity].
    assert (Hin : In (cpath s k) (akeys f)).
    { apply alookup_key. unfold fs_cfile in Ev. destruct (alookup (cpath s k) f); [discriminate|discriminate Ev]. }
    match goal with |- (if ?b then _ else _) = _ => assert (Hb : b = true) end.
    { apply existsb_exists. exists (k, c). split; [|apply key_eqb_refl].
      apply in_flat_map. exists (cpath s k). split; [exact Hin|].
      rewrite classify_cpath_ok by exact Ok. rewrite str_eqb_refl, Ev. left. reflexivity. }
    rewrite Hb. reflexivity.
  - match goal with |- (if ?b then _ else _) = _ => assert (Hb : b = false) end.
    { apply existsb_false_forall. intros [k' c'] H. cbn [fst].
      apply in_flat_map in H. destruct H as [q [_ H]].
      destruct (classify q) as [[s1 n1|s1 k1|s1 k1]|] eqn:Ec; try contradiction.
      destruct (str_eqb_spec s1 s) as [->|]; [|contradiction].
      destruct (fs_cfile f s k1) as [c1|]; [|contradiction]. destruct H as [H|[]]. inversion H. subst k1 c1.
      apply classify_inv in Ec. destruct Ec as [_ [E1 [E2 E3]]].
      destruct (key_eqb k k') eqn:Ek; [|reflexivity]. apply key_eqb_eq in Ek. subst k'.
      unfold segs_ok in Ok. rewrite E1, E2, E3 in Ok. discriminate. }
    rewrite Hb. reflexivity.
Qed.

(* a store that agrees, on every name that is not a temporary one, with a store representing d
   is read without error, and what is read is d *)
Lemma read_back g d f' :
  represents g d -> (forall q, is_tmp q = false -> alookup q f' = alookup q g) ->
  read_db (map fst d) f' = Ok (read_raw (map fst d) f') /\ db_eq (read_raw (map fst d) f') d.
Proof.
  intros R Hag. split.
  - unfold read_db.
    match goal with |- (if ?b then _ else _) = _ => assert (Hb : b = true) end; [|rewrite Hb; reflexivity].
    apply forallb_forall. intros q _. unfold record_ok.
    destruct (classify q) as [[s n|s k|s k]|] eqn:Ec; try reflexivity.
    + rewrite has_stack_path. destruct (has_stack d s) eqn:Hs; [|reflexivity].
      pose proof (classify_not_tmp _ _ Ec) as Ht. cbn beta iota in Ht.
      apply classify_inv in Ec. destruct Ec as [-> [E1 [E2 E3]]].
      rewrite (Hag _ Ht), (rep_v _ _ R) by (try assumption; unfold segs_ok; rewrite E1, E2, E3; reflexivity).
      destruct (db_vfile d s k); cbn [vnode]; [rewrite parse_print_v|]; reflexivity.
    + rewrite has_stack_path. destruct (has_stack d s) eqn:Hs; [|reflexivity].
      pose proof (classify_not_tmp _ _ Ec) as Ht. cbn beta iota in Ht.
      apply classify_inv in Ec. destruct Ec as [-> [E1 [E2 E3]]].
      rewrite (Hag _ Ht), (rep_c _ _ R) by (try assumption; unfold segs_ok; rewrite E1, E2, E3; reflexivity).
      destruct (db_cfile d s k); cbn [cnode]; [rewrite parse_print_c|]; reflexivity.
  - split; [apply path_read_raw|]. split; intros s k.
    + rewrite db_vfile_read_raw, has_stack_path.
      destruct (has_stack d s) eqn:Hs; cbn [andb].
      * destruct (segs_ok s k) eqn:Ok.
        -- unfold fs_vfile. rewrite (Hag _ (is_tmp_vpath s k)), (rep_v _ _ R) by assumption.
           destruct (db_vfile d s k); cbn [vnode]; [apply parse_print_v|reflexivity].
        -- destruct (db_vfile d s k) eqn:E; [|reflexivity]. exfalso.
           assert (K : key_ok s k = true) by (apply (rep_vok _ _ R); congruence).
           apply key_ok_parts in K. destruct K. congruence.
      * unfold db_vfile, has_stack in *. destruct (alookup s d); [discriminate|reflexivity].
    + rewrite db_cfile_read_raw, has_stack_path.
      destruct (has_stack d s) eqn:Hs; cbn [andb].
      * destruct (segs_ok s k) eqn:Ok.
        -- unfold fs_cfile. rewrite (Hag _ (is_tmp_cpath s k)), (rep_c _ _ R) by assumption.
           destruct (db_cfile d s k); cbn [cnode]; [apply parse_print_c|reflexivity].
        -- destruct (db_cfile d s k) eqn:E; [|reflexivity]. exfalso.
           assert (K : key_ok s k = true) by (apply (rep_cok _ _ R); congruence).
           apply key_ok_parts in K. destruct K. congruence.
      * unfold db_cfile, has_stack in *. destruct (alookup s d); [discriminate|reflexivity].
Qed.

(* ---------------------------------------------------------------- composition with the generic crash theorem *)

Lemma crash_reads_effect_prefix f d es k :
  represents f d -> forallb eff_ok es = true ->
  exists j, j <= length es /\
    read_db (map fst d) (crash_fs f es k) = Ok (read_raw (map fst d) (crash_fs f es k)) /\
    db_eq (read_raw (map fst d) (crash_fs f es k)) (apply (firstn j es) d).
Proof.
  intros R Hok.
  destruct (crash_is_effect_prefix_gen (images es) f k (rep_clean _ _ R) (effs_ok_wf es Hok)) as [j [Hj Hq]].
  unfold images in Hj. rewrite map_length in Hj. exists j. split; [exact Hj|].
  unfold images in Hq. rewrite firstn_map in Hq. fold (images (firstn j es)) in Hq.
  pose proof (represents_apply (firstn j es) f d R (forallb_firstn _ j es Hok)) as Rj.
  rewrite <- (path_apply (firstn j es) d). apply (read_back _ _ _ Rj). exact Hq.
Qed.
