(* C08, second layer, database side: a prefix of the FILE effects of a command reads as a prefix
   of record-level ACTIONS.

   Db.compile turns one action into several file effects only for ADelDecl (one rewrite per
   chain file that points at the version, then the version file).  [refine] spells that out as
   actions: ADelDecl s n v f = ADelTag s n t1 f; ...; ADelTag s n tk f; ADelDecl s n v f.  The
   refined list compiles to the very same effect list, and each of its actions changes at most
   one record.  Hence the view after any number of file effects is the view after a whole number
   of refined actions ([effect_prefix_is_action_prefix]), and the results of C06 about action
   lists (no_dangling, frame) hold at every file-effect prefix. *)
From Eupsv Require Import Base.Base Base.BaseLemmas Model.Db Proofs.DbLib Proofs.Db Proofs.DbSim Proofs.DbInv Proofs.DbCor.
From Coq Require Import Lia.

(* ---------------------------------------------------------------- effects that change no record *)

Definition is_rec (e : fseffect) : bool := is_v_effect e || is_c_effect e.
Definition norec (es : list fseffect) : Prop := forallb (fun e => negb (is_rec e)) es = true.
Definition nrec (es : list fseffect) : nat := length (filter is_rec es).

Lemma forallb_impl {A} (p q : A -> bool) l :
  (forall x, p x = true -> q x = true) -> forallb p l = true -> forallb q l = true.
Proof.
  intro H. induction l as [|x l IH]; cbn; [reflexivity|]. intro K. apply andb_true_iff in K.
  destruct K as [K1 K2]. rewrite (H _ K1), (IH K2). reflexivity.
Qed.

Lemma norec_view es d : norec es -> aeq (view (apply es d)) (view d).
Proof.
  intro H. repeat split; intros.
  - rewrite !apath_view. apply path_apply.
  - rewrite !a_decl_view. apply db_decl_apply_other. revert H. apply forallb_impl.
    intros e. unfold is_rec. destruct (is_v_effect e); [discriminate|reflexivity].
  - rewrite !a_tag_view. apply db_tag_apply_other. revert H. apply forallb_impl.
    intros e. unfold is_rec. destruct (is_c_effect e); [rewrite orb_true_r; discriminate|reflexivity].
Qed.

Lemma nrec_app a b : nrec (a ++ b) = nrec a + nrec b.
Proof. unfold nrec. rewrite filter_app, app_length. reflexivity. Qed.

Lemma nrec_zero es : nrec es = 0 -> norec es.
Proof.
  unfold nrec, norec. induction es as [|e es IH]; cbn; [reflexivity|].
  destruct (is_rec e); cbn; [discriminate|]. exact IH.
Qed.

(* an effect list that changes at most one record: after any prefix the view is the old or the new one *)
Lemma one_rec_prefix es d m : nrec es <= 1 ->
  aeq (view (apply (firstn m es) d)) (view d) \/ aeq (view (apply (firstn m es) d)) (view (apply es d)).
Proof.
  intro H. rewrite <- (firstn_skipn m es) in H. rewrite nrec_app in H.
  destruct (nrec (firstn m es)) eqn:E.
  - left. apply norec_view. apply nrec_zero. exact E.
  - right. assert (E2 : nrec (skipn m es) = 0) by lia.
    rewrite <- (firstn_skipn m es) at 2. rewrite apply_app. apply aeq_sym. apply norec_view.
    apply nrec_zero. exact E2.
Qed.

(* ---------------------------------------------------------------- compile_all over concatenation *)

Lemma compile_all_app xs : forall d ys,
  compile_all d (xs ++ ys) = compile_all d xs ++ compile_all (apply (compile_all d xs) d) ys.
Proof.
  induction xs as [|x xs IH]; intros d ys; [reflexivity|].
  cbn [app compile_all]. rewrite IH, apply_app, app_assoc. reflexivity.
Qed.

Lemma compile_all_one d x : compile_all d [x] = compile d x.
Proof. cbn [compile_all]. apply app_nil_r. Qed.

(* ---------------------------------------------------------------- the refinement of ADelDecl *)

Definition deltags (s n f : str) (ts : list str) : list aact := map (fun t => ADelTag s n t f) ts.

Definition refine1 (d : db) (x : aact) : list aact :=
  match x with
  | ADelDecl s n v f =>
      if is_some (db_decl d s n v f) then deltags s n f (tags_on d s n v f) ++ [x] else [x]
  | _ => [x]
  end.

Fixpoint refine (d : db) (xs : list aact) : list aact :=
  match xs with
  | [] => []
  | x :: r => refine1 d x ++ refine (apply (compile d x) d) r
  end.

Lemma untag_effects_ext d0 d s n t f :
  db_cfile d0 s (n, t) = db_cfile d s (n, t) -> untag_effects d0 s n t f = untag_effects d s n t f.
Proof. intro H. unfold untag_effects. rewrite H. reflexivity. Qed.

Lemma deltags_compile d s n f ts : NoDup ts -> forall d0,
  (forall t, In t ts -> db_cfile d0 s (n, t) = db_cfile d s (n, t)) ->
  compile_all d0 (deltags s n f ts) = flat_map (fun t => untag_effects d s n t f) ts.
Proof.
  induction 1 as [|t1 ts Hnin Hnd IH]; intros d0 Hc; [reflexivity|].
  cbn [deltags map compile_all flat_map compile].
  rewrite (untag_effects_ext d0 d) by (apply Hc; left; reflexivity). f_equal.
  apply IH. intros t Ht. rewrite untag_effects_keeps_other.
  - apply Hc. right. exact Ht.
  - intro E. inversion E. subst. contradiction.
Qed.

Lemma db_vfile_apply_other es : forall d s k,
  forallb (fun e => negb (is_v_effect e)) es = true -> db_vfile (apply es d) s k = db_vfile d s k.
Proof.
  induction es as [|e es IH]; intros d s k H; [reflexivity|].
  cbn in H. apply andb_true_iff in H. destruct H as [H1 H2].
  rewrite apply_cons, IH by exact H2. rewrite db_vfile_apply1.
  destruct e; cbn in H1; try discriminate; reflexivity.
Qed.

Lemma untags_c d s n f ts :
  forallb (fun e => negb (is_v_effect e)) (flat_map (fun t => untag_effects d s n t f) ts) = true.
Proof. apply forallb_flat_map. intro. apply untag_effects_c. Qed.

Lemma no_member_nil (l : list str) : (forall t, mem_str t l = false) -> l = [].
Proof.
  destruct l as [|x l]; [reflexivity|]. intro H. specialize (H x). cbn in H.
  rewrite str_eqb_refl in H. discriminate.
Qed.

(* the version-file part of Database.undeclare *)
Definition vpart (s n v f : str) (c : vcontent) : list fseffect :=
  let c' := aremove f c in
  if is_nil c' then [RemoveV s (n, v); Rmdir s n] else [WriteV s (n, v) c'].

Lemma compile_deldecl d s n v f c : db_vfile d s (n, v) = Some c -> amem f c = true ->
  compile d (ADelDecl s n v f) =
  flat_map (fun t => untag_effects d s n t f) (tags_on d s n v f) ++ vpart s n v f c.
Proof. intros H1 H2. cbn [compile]. rewrite H1, H2. reflexivity. Qed.

Lemma declared_vfile d s n v f : is_some (db_decl d s n v f) = true ->
  exists c, db_vfile d s (n, v) = Some c /\ amem f c = true.
Proof.
  unfold db_decl, amem. destruct (db_vfile d s (n, v)) as [c|]; [|discriminate].
  intro H. exists c. split; [reflexivity|]. destruct (alookup f c); [reflexivity|discriminate].
Qed.

Lemma undeclared_compile d s n v f : is_some (db_decl d s n v f) = false -> compile d (ADelDecl s n v f) = [].
Proof.
  unfold db_decl, amem. cbn [compile]. destruct (db_vfile d s (n, v)) as [c|]; [|reflexivity].
  unfold amem. destruct (alookup f c); [discriminate|reflexivity].
Qed.

(* once the tags are gone the action compiles to the version-file part alone *)
Lemma compile_deldecl_untagged d s n v f c : db_vfile d s (n, v) = Some c -> amem f c = true ->
  let dk := apply (flat_map (fun t => untag_effects d s n t f) (tags_on d s n v f)) d in
  compile dk (ADelDecl s n v f) = vpart s n v f c.
Proof.
  intros H1 H2 dk.
  assert (Hv : db_vfile dk s (n, v) = Some c).
  { unfold dk. rewrite db_vfile_apply_other by apply untags_c. exact H1. }
  rewrite (compile_deldecl dk s n v f c Hv H2).
  assert (Ht : tags_on dk s n v f = []).
  { apply no_member_nil. intro t. rewrite tags_on_mem. unfold dk.
    rewrite (db_tag_untag_list d s n f _ (tags_on_NoDup d s n v f) d) by reflexivity.
    rewrite !str_eqb_refl. cbn [andb]. rewrite tags_on_mem.
    destruct (opt_str_eqb (db_tag d s n t f) v) eqn:E; [reflexivity|exact E]. }
  rewrite Ht. reflexivity.
Qed.

Lemma refine1_compile d x : compile_all d (refine1 d x) = compile d x.
Proof.
  destruct x as [s n v f r|s n v f|s n t f v|s n t f]; try apply compile_all_one.
  cbn [refine1]. destruct (is_some (db_decl d s n v f)) eqn:E; [|apply compile_all_one].
  destruct (declared_vfile _ _ _ _ _ E) as [c [H1 H2]].
  rewrite compile_all_app, compile_all_one.
  rewrite (deltags_compile d s n f _ (tags_on_NoDup d s n v f) d) by reflexivity.
  rewrite (compile_deldecl_untagged d s n v f c H1 H2). symmetry. apply compile_deldecl; assumption.
Qed.

Lemma refine_compile xs : forall d, compile_all d (refine d xs) = compile_all d xs.
Proof.
  induction xs as [|x xs IH]; intro d; [reflexivity|].
  cbn [refine compile_all]. rewrite compile_all_app, refine1_compile, IH. reflexivity.
Qed.

(* ---------------------------------------------------------------- refined actions change one record each *)

Fixpoint all_small (d : db) (ys : list aact) : Prop :=
  match ys with
  | [] => True
  | y :: r => nrec (compile d y) <= 1 /\ all_small (apply (compile d y) d) r
  end.

Lemma all_small_app xs : forall d ys,
  all_small d (xs ++ ys) <-> all_small d xs /\ all_small (apply (compile_all d xs) d) ys.
Proof.
  induction xs as [|x xs IH]; intros d ys; cbn [app all_small compile_all].
  - cbn. tauto.
  - rewrite IH, apply_app. tauto.
Qed.

Lemma nrec_untag d s n t f : nrec (untag_effects d s n t f) <= 1.
Proof.
  unfold untag_effects. destruct (db_cfile d s (n, t)) as [c|]; [|cbn; lia].
  destruct (amem f c); [|cbn; lia]. unfold write_or_remove_c. destruct (is_nil _); cbn; lia.
Qed.

Lemma nrec_vpart s n v f c : nrec (vpart s n v f c) <= 1.
Proof. unfold vpart. destruct (is_nil _); cbn; lia. Qed.

Lemma nrec_simple d x : (match x with ADelDecl _ _ _ _ => False | _ => True end) -> nrec (compile d x) <= 1.
Proof.
  destruct x as [s n v f r|s n v f|s n t f v|s n t f]; intro H; [|contradiction| |].
  - cbn [compile]. destruct (db_has_dir d s n); cbn; lia.
  - cbn; lia.
  - apply nrec_untag.
Qed.

Lemma deltags_small s n f ts : forall d, all_small d (deltags s n f ts).
Proof.
  induction ts as [|t ts IH]; intro d; cbn [deltags map all_small]; [exact I|].
  split; [apply nrec_untag|apply IH].
Qed.

Lemma refine1_small d x : all_small d (refine1 d x).
Proof.
  destruct x as [s n v f r|s n v f|s n t f v|s n t f];
    try (cbn [refine1 all_small]; split; [apply nrec_simple; exact I|exact I]).
  cbn [refine1]. destruct (is_some (db_decl d s n v f)) eqn:E.
  - destruct (declared_vfile _ _ _ _ _ E) as [c [H1 H2]].
    apply all_small_app. split; [apply deltags_small|].
    rewrite (deltags_compile d s n f _ (tags_on_NoDup d s n v f) d) by reflexivity.
    cbn [all_small]. split; [|exact I].
    rewrite (compile_deldecl_untagged d s n v f c H1 H2). apply nrec_vpart.
  - cbn [all_small]. rewrite undeclared_compile by exact E. cbn. split; [lia|exact I].
Qed.

Lemma refine_small xs : forall d, all_small d (refine d xs).
Proof.
  induction xs as [|x xs IH]; intro d; [exact I|].
  cbn [refine]. apply all_small_app. split; [apply refine1_small|].
  rewrite refine1_compile. apply IH.
Qed.

(* ---------------------------------------------------------------- file-effect prefix = action prefix *)

Lemma small_prefix ys : forall d m, all_small d ys ->
  exists i, i <= length ys /\
    aeq (view (apply (firstn m (compile_all d ys)) d)) (aapply_all (firstn i ys) (view d)).
Proof.
  induction ys as [|y r IH]; intros d m Hs.
  - exists 0. split; [cbn; lia|]. cbn [compile_all]. rewrite firstn_nil. apply aeq_refl.
  - destruct Hs as [H1 H2]. cbn [compile_all]. rewrite firstn_app.
    destruct (Nat.lt_ge_cases m (length (compile d y))) as [Hlt|Hge].
    + replace (m - length (compile d y)) with 0 by lia. cbn [firstn]. rewrite app_nil_r.
      destruct (one_rec_prefix (compile d y) d m H1) as [K|K].
      * exists 0. split; [cbn; lia|]. exact K.
      * exists 1. split; [cbn; lia|]. cbn [firstn]. rewrite aapply_all_cons.
        eapply aeq_trans; [exact K|]. apply compile_refines.
    + rewrite firstn_all2 by lia. rewrite apply_app.
      destruct (IH (apply (compile d y) d) (m - length (compile d y)) H2) as [i [Hi K]].
      exists (S i). split; [cbn; lia|]. cbn [firstn]. rewrite aapply_all_cons.
      eapply aeq_trans; [exact K|]. apply aapply_all_aeq. apply compile_refines.
Qed.

(* the view after j file effects of an action list is the view after i refined actions *)
Lemma effect_prefix_is_action_prefix d acts j :
  exists i, i <= length (refine d acts) /\
    aeq (view (apply (firstn j (compile_all d acts)) d)) (aapply_all (firstn i (refine d acts)) (view d)).
Proof.
  rewrite <- (refine_compile acts d). apply small_prefix. apply refine_small.
Qed.

(* ---------------------------------------------------------------- no dangling tag at every file-effect prefix *)

Lemma act_ok_aeq a b x : aeq a b -> act_ok a x -> act_ok b x.
Proof. intros [_ [H _]]. destruct x; cbn; auto. rewrite <- H. auto. Qed.

Lemma acts_ok_aeq xs : forall a b, aeq a b -> acts_ok a xs -> acts_ok b xs.
Proof.
  induction xs as [|x xs IH]; intros a b H K; [exact I|]. destruct K as [K1 K2]. split.
  - apply (act_ok_aeq a b x H K1).
  - apply (IH (aapply x a)); [apply aapply_aeq; exact H|exact K2].
Qed.

Lemma deltags_not_settag s n f ts : Forall not_settag (deltags s n f ts).
Proof. apply Forall_forall. intros y Hy. apply in_map_iff in Hy. destruct Hy as [t [<- _]]. exact I. Qed.

Lemma refine1_ok d x a : act_ok a x -> acts_ok a (refine1 d x).
Proof.
  intro H. destruct x as [s n v f r|s n v f|s n t f v|s n t f]; try (cbn; split; [exact H|exact I]).
  cbn [refine1]. destruct (is_some (db_decl d s n v f)); [|cbn; auto].
  apply acts_ok_trivial. apply Forall_app. split; [apply deltags_not_settag|]. repeat constructor.
Qed.

Lemma refine1_view d x : aeq (aapply_all (refine1 d x) (view d)) (aapply x (view d)).
Proof.
  eapply aeq_trans; [apply aeq_sym; apply compile_all_refines|].
  rewrite refine1_compile. apply compile_refines.
Qed.

Lemma refine_ok xs : forall d, acts_ok (view d) xs -> acts_ok (view d) (refine d xs).
Proof.
  induction xs as [|x xs IH]; intros d H; [exact I|]. destruct H as [H1 H2].
  cbn [refine]. apply acts_ok_app. split; [apply refine1_ok; exact H1|].
  apply (acts_ok_aeq _ (view (apply (compile d x) d))).
  - eapply aeq_trans; [apply compile_refines|]. apply aeq_sym. apply refine1_view.
  - apply IH. apply (acts_ok_aeq _ (aapply x (view d))); [|exact H2]. apply aeq_sym. apply compile_refines.
Qed.

Lemma acts_ok_firstn i xs a : acts_ok a xs -> acts_ok a (firstn i xs).
Proof.
  intro H. rewrite <- (firstn_skipn i xs) in H. apply acts_ok_app in H. tauto.
Qed.

Lemma no_dangling_effect_prefix d acts j :
  no_dangling (view d) -> acts_ok (view d) acts ->
  no_dangling (view (apply (firstn j (compile_all d acts)) d)).
Proof.
  intros Hn Hok. destruct (effect_prefix_is_action_prefix d acts j) as [i [_ K]].
  apply (no_dangling_aeq _ _ (aeq_sym _ _ K)).
  apply aapply_all_no_dangling; [exact Hn|]. apply acts_ok_firstn. apply refine_ok. exact Hok.
Qed.

(* ---------------------------------------------------------------- each key: value before or after the action *)

Lemma a_tag_deltags s n f ts : forall a s' n' t' f',
  a_tag (aapply_all (deltags s n f ts) a) s' n' t' f' =
  if str_eqb s' s && str_eqb n' n && str_eqb f' f && mem_str t' ts then None else a_tag a s' n' t' f'.
Proof.
  induction ts as [|t ts IH]; intros a s' n' t' f'.
  - cbn. rewrite andb_false_r. reflexivity.
  - cbn [deltags map]. rewrite aapply_all_cons. fold (deltags s n f ts). rewrite IH, a_tag_aapply.
    cbn [mem_str]. rewrite dkey_eqb_parts.
    destruct (str_eqb s' s); cbn [andb]; [|reflexivity].
    destruct (str_eqb n' n); cbn [andb]; [|reflexivity].
    destruct (str_eqb f' f); cbn [andb]; [|rewrite !andb_false_r; reflexivity].
    destruct (str_eqb t' t); cbn [andb orb]; [destruct (mem_str t' ts); reflexivity|reflexivity].
Qed.

Lemma mem_str_firstn t i ts : mem_str t (firstn i ts) = true -> mem_str t ts = true.
Proof.
  intro H. apply mem_str_In in H. apply mem_str_In. revert i H.
  induction ts as [|x ts IH]; intros i H; [rewrite firstn_nil in H; exact H|].
  destruct i; cbn [firstn] in H; [contradiction|]. destruct H as [->|H]; [left; reflexivity|right; eauto].
Qed.

Definition same_or (a a0 a1 : adb) : Prop :=
  (forall s n v f, a_decl a s n v f = a_decl a0 s n v f \/ a_decl a s n v f = a_decl a1 s n v f) /\
  (forall s n t f, a_tag a s n t f = a_tag a0 s n t f \/ a_tag a s n t f = a_tag a1 s n t f).

Lemma same_or_left a a0 a1 : aeq a a0 -> same_or a a0 a1.
Proof. intros [_ [H1 H2]]. split; intros; left; auto. Qed.

Lemma same_or_right a a0 a1 : aeq a a1 -> same_or a a0 a1.
Proof. intros [_ [H1 H2]]. split; intros; right; auto. Qed.

(* one action: after any prefix of its file effects every key has its old or its new value *)
Lemma action_prefix_old_or_new d x m :
  same_or (view (apply (firstn m (compile d x)) d)) (view d) (aapply x (view d)).
Proof.
  assert (Simple : nrec (compile d x) <= 1 ->
            same_or (view (apply (firstn m (compile d x)) d)) (view d) (aapply x (view d))).
  { intro H. destruct (one_rec_prefix (compile d x) d m H) as [K|K].
    - apply same_or_left. exact K.
    - apply same_or_right. eapply aeq_trans; [exact K|]. apply compile_refines. }
  destruct x as [s n v f r|s n v f|s n t f v|s n t f]; try (apply Simple; apply nrec_simple; exact I).
  destruct (is_some (db_decl d s n v f)) eqn:E.
  2:{ apply Simple. rewrite undeclared_compile by exact E. cbn. lia. }
  (* a declared version: the refined list is deltags ++ [ADelDecl] *)
  pose proof (small_prefix (refine1 d (ADelDecl s n v f)) d m (refine1_small d _)) as [i [Hi K]].
  rewrite refine1_compile in K. cbn [refine1] in Hi, K. rewrite E in Hi, K.
  set (ts := tags_on d s n v f) in *. rewrite app_length in Hi. cbn [length] in Hi.
  unfold deltags in Hi. rewrite map_length in Hi. fold (deltags s n f ts) in K.
  destruct (Nat.le_gt_cases i (length ts)) as [Hle|Hgt].
  - (* some tags removed, version block still there *)
    rewrite firstn_app in K. unfold deltags in K at 2. rewrite map_length in K.
    replace (i - length ts) with 0 in K by lia. cbn [firstn] in K. rewrite app_nil_r in K.
    unfold deltags in K. rewrite firstn_map in K. fold (deltags s n f (firstn i ts)) in K.
    destruct K as [_ [Kd Kt]]. split; intros s' n' k' f'.
    + left. rewrite Kd. apply tag_acts_keep_decls.
      apply Forall_forall. intros y Hy. apply in_map_iff in Hy. destruct Hy as [t [<- _]]. exact I.
    + rewrite Kt, a_tag_deltags.
      destruct (str_eqb s' s && str_eqb n' n && str_eqb f' f && mem_str k' (firstn i ts)) eqn:Em; [|left; reflexivity].
      right. rewrite a_tag_aapply, a_decl_view, E. cbn [andb].
      apply andb_true_iff in Em. destruct Em as [Em M]. apply andb_true_iff in Em. destruct Em as [Em E3].
      apply andb_true_iff in Em. destruct Em as [E1 E2]. apply str_eqb_eq in E1, E2, E3. subst s' n' f'.
      apply mem_str_firstn in M. unfold ts in M. rewrite tags_on_mem in M.
      unfold tag_points. rewrite !str_eqb_refl, a_tag_view, M. reflexivity.
  - (* everything done *)
    assert (i = S (length ts)) by lia. subst i.
    rewrite (firstn_all2 (n := S (length ts)) (deltags s n f ts ++ [ADelDecl s n v f])) in K
      by (rewrite app_length; unfold deltags; rewrite map_length; cbn; lia).
    apply same_or_right. eapply aeq_trans; [exact K|].
    pose proof (refine1_view d (ADelDecl s n v f)) as R. cbn [refine1] in R. rewrite E in R. exact R.
Qed.

Lemma same_or_aeq a a0 a1 b0 b1 : aeq a0 b0 -> aeq a1 b1 -> same_or a a0 a1 -> same_or a b0 b1.
Proof.
  intros [_ [H1 H2]] [_ [K1 K2]] [S1 S2]. split; intros.
  - rewrite <- H1, <- K1. apply S1.
  - rewrite <- H2, <- K2. apply S2.
Qed.

(* an action list: after j file effects every key has the value it has after i or after i+1 actions *)
Lemma effect_prefix_between acts : forall d j,
  exists i, i <= length acts /\
    same_or (view (apply (firstn j (compile_all d acts)) d))
            (aapply_all (firstn i acts) (view d)) (aapply_all (firstn (S i) acts) (view d)).
Proof.
  induction acts as [|x r IH]; intros d j.
  - exists 0. split; [cbn; lia|]. cbn [compile_all]. rewrite firstn_nil. apply same_or_left. apply aeq_refl.
  - cbn [compile_all]. rewrite firstn_app.
    destruct (Nat.lt_ge_cases j (length (compile d x))) as [Hlt|Hge].
    + replace (j - length (compile d x)) with 0 by lia. cbn [firstn]. rewrite app_nil_r.
      exists 0. split; [cbn; lia|]. cbn [firstn]. apply action_prefix_old_or_new.
    + rewrite firstn_all2 by lia. rewrite apply_app.
      destruct (IH (apply (compile d x) d) (j - length (compile d x))) as [i [Hi K]].
      exists (S i). split; [cbn; lia|].
      change (firstn (S (S i)) (x :: r)) with (x :: firstn (S i) r).
      change (firstn (S i) (x :: r)) with (x :: firstn i r).
      rewrite !aapply_all_cons.
      eapply same_or_aeq; [| |exact K]; apply aapply_all_aeq; apply compile_refines.
Qed.
