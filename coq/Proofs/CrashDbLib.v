(* Paths of database records (Model/CrashDb.v): the three kinds of names are recognised by
   [classify] and by nothing else, hence distinct keys have distinct paths, no record path is
   a temporary name, and printing a record is inverted by parsing it. *)
From Eupsv Require Import Base.Base Base.BaseLemmas Model.Db Model.Crash Model.CrashDb Proofs.DbLib.
From Coq Require Import Lia.

(* ---------------------------------------------------------------- prefixes and suffixes *)

Lemma starts_with_app_inv p : forall x, starts_with p x = true -> exists r, x = p ++ r.
Proof.
  induction p as [|c p IH]; intros x H; [exists x; reflexivity|].
  destruct x as [|d x]; [discriminate|]. cbn in H.
  destruct (ascii_eqb_spec c d) as [->|N]; [|discriminate].
  destruct (IH x H) as [r ->]. exists r. reflexivity.
Qed.

(* a separator that does not occur in the pattern cuts the comparison *)
Lemma starts_with_sep a c : mem_ascii c a = false -> forall b r,
  starts_with a (b ++ c :: r) = starts_with a b.
Proof.
  induction a as [|x a IH]; intros Hc b r; [reflexivity|].
  cbn in Hc. destruct (ascii_eqb c x) eqn:E; [discriminate|].
  destruct b as [|y b]; cbn.
  - rewrite ascii_eqb_sym, E. reflexivity.
  - destruct (ascii_eqb x y); [apply IH; exact Hc|reflexivity].
Qed.

Lemma ends_with_sep suf c x y : mem_ascii c suf = false -> ends_with suf (x ++ c :: y) = ends_with suf y.
Proof.
  intro H. unfold ends_with. rewrite rev_app_distr. cbn [rev]. rewrite <- app_assoc. cbn [app].
  apply starts_with_sep. rewrite <- (rev_involutive suf) in H.
  destruct (mem_ascii c (rev suf)) eqn:E; [|reflexivity].
  apply mem_ascii_In in E. apply in_rev in E. apply mem_ascii_In in E.
  rewrite rev_involutive in H. congruence.
Qed.

Lemma is_tmp_sep x y : is_tmp (x ++ c_slash :: y) = is_tmp y.
Proof. unfold is_tmp. apply ends_with_sep. reflexivity. Qed.

Lemma strip_suffix_spec suf x v : strip_suffix suf x = Some v -> x = v ++ suf.
Proof.
  unfold strip_suffix. destruct (ends_with suf x) eqn:E; [|discriminate].
  intro H. inversion H. clear H. unfold ends_with in E.
  destruct (starts_with_app_inv _ _ E) as [r Hr].
  assert (Hx : x = rev r ++ suf).
  { rewrite <- (rev_involutive x), Hr, rev_app_distr, rev_involutive. reflexivity. }
  clear E Hr. subst x. rewrite app_length.
  replace (length (rev r) + length suf - length suf) with (length (rev r)) by lia.
  rewrite firstn_app, firstn_all, Nat.sub_diag. cbn [firstn]. rewrite app_nil_r. reflexivity.
Qed.

Lemma strip_suffix_app suf v : strip_suffix suf (v ++ suf) = Some v.
Proof.
  unfold strip_suffix, ends_with. rewrite rev_app_distr, starts_with_refl.
  rewrite app_length. replace (length v + length suf - length suf) with (length v) by lia.
  rewrite firstn_app, firstn_all, Nat.sub_diag. cbn [firstn]. rewrite app_nil_r. reflexivity.
Qed.

Lemma chain_not_version t : strip_suffix version_suffix (t ++ chain_suffix) = None.
Proof. unfold strip_suffix, ends_with. rewrite rev_app_distr. reflexivity. Qed.

Lemma is_tmp_version v : is_tmp (v ++ version_suffix) = false.
Proof. unfold is_tmp, ends_with. rewrite rev_app_distr. reflexivity. Qed.

Lemma is_tmp_chain t : is_tmp (t ++ chain_suffix) = false.
Proof. unfold is_tmp, ends_with. rewrite rev_app_distr. reflexivity. Qed.

Lemma seg_ok_app_version v : seg_ok (v ++ version_suffix) = seg_ok v.
Proof. unfold seg_ok. rewrite mem_ascii_app. cbn. rewrite orb_false_r. reflexivity. Qed.

Lemma seg_ok_app_chain t : seg_ok (t ++ chain_suffix) = seg_ok t.
Proof. unfold seg_ok. rewrite mem_ascii_app. cbn. rewrite orb_false_r. reflexivity. Qed.

Lemma seg_ok_false x : seg_ok x = true -> mem_ascii c_slash x = false.
Proof. unfold seg_ok. destruct (mem_ascii c_slash x); [discriminate|reflexivity]. Qed.

Lemma seg_ok_ups_db : seg_ok ups_db = true.
Proof. reflexivity. Qed.

(* ---------------------------------------------------------------- no record path is a temporary name *)

Lemma is_tmp_dpath s n : is_tmp (dpath s n) = is_tmp n.
Proof. unfold dpath. rewrite !join_cons. rewrite !is_tmp_sep. reflexivity. Qed.

Lemma is_tmp_vpath s k : is_tmp (vpath s k) = false.
Proof. unfold vpath. rewrite !join_cons. rewrite !is_tmp_sep. cbn [join]. apply is_tmp_version. Qed.

Lemma is_tmp_cpath s k : is_tmp (cpath s k) = false.
Proof. unfold cpath. rewrite !join_cons. rewrite !is_tmp_sep. cbn [join]. apply is_tmp_chain. Qed.

(* ---------------------------------------------------------------- classify recognises exactly the three kinds *)

Lemma split_segments l : l <> [] -> forallb seg_ok l = true -> split_on c_slash (join c_slash l) = l.
Proof.
  intros Hne H. apply split_on_join; [exact Hne|].
  apply Forall_forall. intros x Hx. rewrite forallb_forall in H. apply seg_ok_false. apply H. exact Hx.
Qed.

Lemma classify_dpath s n : seg_ok s = true -> seg_ok n = true -> classify (dpath s n) = Some (EntDir s n).
Proof.
  intros Hs Hn. unfold classify, dpath. rewrite split_segments; [|discriminate|].
  - reflexivity.
  - cbn [forallb]. rewrite Hs, Hn. reflexivity.
Qed.

Lemma classify_vpath s n v : seg_ok s = true -> seg_ok n = true -> seg_ok v = true ->
  classify (vpath s (n, v)) = Some (EntV s (n, v)).
Proof.
  intros Hs Hn Hv. unfold classify, vpath. cbn [fst snd]. rewrite split_segments; [|discriminate|].
  - rewrite str_eqb_refl, strip_suffix_app. reflexivity.
  - cbn [forallb]. rewrite Hs, Hn, seg_ok_app_version, Hv. reflexivity.
Qed.

Lemma classify_cpath s n t : seg_ok s = true -> seg_ok n = true -> seg_ok t = true ->
  classify (cpath s (n, t)) = Some (EntC s (n, t)).
Proof.
  intros Hs Hn Ht. unfold classify, cpath. cbn [fst snd]. rewrite split_segments; [|discriminate|].
  - rewrite str_eqb_refl, chain_not_version, strip_suffix_app. reflexivity.
  - cbn [forallb]. rewrite Hs, Hn, seg_ok_app_chain, Ht. reflexivity.
Qed.

Lemma split_seg_ok q : Forall (fun x => seg_ok x = true) (split_on c_slash q).
Proof.
  eapply Forall_impl; [|apply split_on_parts_nodelim]. intros x H. unfold seg_ok. cbn beta in H. rewrite H. reflexivity.
Qed.

Lemma classify_inv q e : classify q = Some e ->
  match e with
  | EntDir s n => q = dpath s n /\ seg_ok s = true /\ seg_ok n = true
  | EntV s k => q = vpath s k /\ seg_ok s = true /\ seg_ok (fst k) = true /\ seg_ok (snd k) = true
  | EntC s k => q = cpath s k /\ seg_ok s = true /\ seg_ok (fst k) = true /\ seg_ok (snd k) = true
  end.
Proof.
  unfold classify. pose proof (join_split_on c_slash q) as J.
  assert (F : forall x, In x (split_on c_slash q) -> seg_ok x = true).
  { apply Forall_forall. apply split_seg_ok. }
  destruct (split_on c_slash q) as [|s [|u [|n [|file [|x l]]]]]; try discriminate.
  - (* three segments *)
    destruct (str_eqb_spec u ups_db) as [->|]; [|discriminate].
    intro Hcl. inversion Hcl. subst e.
    split; [symmetry; exact J|]. split; apply F; cbn; tauto.
  - (* four segments *)
    destruct (str_eqb_spec u ups_db) as [->|]; [|discriminate].
    assert (Fs : seg_ok s = true) by (apply F; cbn; tauto).
    assert (Fn : seg_ok n = true) by (apply F; cbn; tauto).
    assert (Ff : seg_ok file = true) by (apply F; cbn; tauto).
    destruct (strip_suffix version_suffix file) as [v|] eqn:Ev.
    + intro Hcl. inversion Hcl. subst e. apply strip_suffix_spec in Ev. subst file. cbn [fst snd].
      split; [symmetry; exact J|]. split; [assumption|]. split; [assumption|].
      rewrite <- seg_ok_app_version. assumption.
    + destruct (strip_suffix chain_suffix file) as [t|] eqn:Et; [|discriminate].
      intro Hcl. inversion Hcl. subst e. apply strip_suffix_spec in Et. subst file. cbn [fst snd].
      split; [symmetry; exact J|]. split; [assumption|]. split; [assumption|].
      rewrite <- seg_ok_app_chain. assumption.
Qed.

Lemma segs_ok_parts s k : segs_ok s k = true -> seg_ok s = true /\ seg_ok (fst k) = true /\ seg_ok (snd k) = true.
Proof.
  unfold segs_ok. intro H. apply andb_true_iff in H. destruct H as [H H3].
  apply andb_true_iff in H. destruct H as [H1 H2]. auto.
Qed.

Lemma key_ok_parts s k : key_ok s k = true -> segs_ok s k = true /\ is_tmp (fst k) = false.
Proof.
  unfold key_ok. intro H. apply andb_true_iff in H. destruct H as [H H4].
  split; [assumption|]. destruct (is_tmp (fst k)); [discriminate|reflexivity].
Qed.

Lemma classify_vpath_ok s k : segs_ok s k = true -> classify (vpath s k) = Some (EntV s k).
Proof. intro H. destruct (segs_ok_parts s k H) as [H1 [H2 H3]]. destruct k. apply classify_vpath; assumption. Qed.

Lemma classify_cpath_ok s k : segs_ok s k = true -> classify (cpath s k) = Some (EntC s k).
Proof. intro H. destruct (segs_ok_parts s k H) as [H1 [H2 H3]]. destruct k. apply classify_cpath; assumption. Qed.

Lemma classify_not_tmp q e : classify q = Some e ->
  match e with EntDir _ _ => True | _ => is_tmp q = false end.
Proof.
  intro H. apply classify_inv in H. destruct e as [s n|s k|s k]; [exact I| |].
  - destruct H as [-> _]. apply is_tmp_vpath.
  - destruct H as [-> _]. apply is_tmp_cpath.
Qed.

(* distinct keys, distinct paths *)
Lemma vpath_inj s k s' k' : segs_ok s k = true -> segs_ok s' k' = true -> vpath s k = vpath s' k' -> s = s' /\ k = k'.
Proof.
  intros H H' E. apply classify_vpath_ok in H, H'. rewrite E, H' in H. inversion H. auto.
Qed.

Lemma cpath_inj s k s' k' : segs_ok s k = true -> segs_ok s' k' = true -> cpath s k = cpath s' k' -> s = s' /\ k = k'.
Proof.
  intros H H' E. apply classify_cpath_ok in H, H'. rewrite E, H' in H. inversion H. auto.
Qed.

Lemma vpath_cpath s k s' k' : segs_ok s k = true -> segs_ok s' k' = true -> vpath s k <> cpath s' k'.
Proof.
  intros H H' E. apply classify_vpath_ok in H. apply classify_cpath_ok in H'. rewrite E, H' in H. discriminate.
Qed.

Lemma vpath_dpath s k s' n' : segs_ok s k = true -> seg_ok s' = true -> seg_ok n' = true -> vpath s k <> dpath s' n'.
Proof.
  intros H Hs Hn E. apply classify_vpath_ok in H. rewrite E, classify_dpath in H by assumption. discriminate.
Qed.

Lemma cpath_dpath s k s' n' : segs_ok s k = true -> seg_ok s' = true -> seg_ok n' = true -> cpath s k <> dpath s' n'.
Proof.
  intros H Hs Hn E. apply classify_cpath_ok in H. rewrite E, classify_dpath in H by assumption. discriminate.
Qed.

(* ---------------------------------------------------------------- print / parse *)

Lemma parse_print_v c : parse_v (print_v c) = Some c.
Proof. induction c as [|[f [dir table]] c IH]; [reflexivity|]. cbn [print_v parse_v]. rewrite IH. reflexivity. Qed.

Lemma parse_print_c c : parse_c (print_c c) = Some c.
Proof. induction c as [|[f v] c IH]; [reflexivity|]. cbn [print_c parse_c]. rewrite IH. reflexivity. Qed.
