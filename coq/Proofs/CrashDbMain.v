(* C08, second layer: what a reader sees after a crash inside a command.  Store side
   (Proofs/CrashDb.v) and database side (Proofs/CrashDbAct.v) put together. *)
From Eupsv Require Import Base.Base Base.BaseLemmas Model.Db Model.Crash Model.CrashDb
  Proofs.DbLib Proofs.Db Proofs.DbSim Proofs.DbInv Proofs.DbCor Proofs.Crash
  Proofs.CrashDbLib Proofs.CrashDb Proofs.CrashDbAct Proofs.CrashDbOp.
From Coq Require Import Lia.

(* the hypotheses shared by every theorem: a store holding database d, a command with path-safe
   names that the model does not refuse, its file effects, the store after k system calls *)
Record crash_point (f : fs) (d : db) (o : op) (es : list fseffect) (k : nat) (d' : db) : Prop := mkCP {
  cp_rep : represents f d;
  cp_ok : op_ok o = true;
  cp_eff : effects d o = Ok es;
  cp_read : read_db (map fst d) (crash_fs f es k) = Ok d'
}.

Lemma read_db_ok path f d' : read_db path f = Ok d' -> d' = read_raw path f.
Proof. unfold read_db. destruct (forallb _ _); [|discriminate]. intro H. inversion H. reflexivity. Qed.

Lemma crash_point_reads f d o es k :
  represents f d -> op_ok o = true -> effects d o = Ok es ->
  exists j d', j <= length es /\ read_db (map fst d) (crash_fs f es k) = Ok d' /\
               db_eq d' (apply (firstn j es) d).
Proof.
  intros R Hok He.
  pose proof (effects_ok false d o es (represents_names_ok _ _ R) Hok He) as Hes.
  destruct (crash_reads_effect_prefix f d es k R Hes) as [j [Hj [H1 H2]]].
  exists j, (read_raw (map fst d) (crash_fs f es k)). auto.
Qed.

(* the acts behind the effects, and the effect prefix the reader sees *)
Lemma crash_point_view f d o es k d' : crash_point f d o es k d' ->
  exists acts j, decide false (view d) o = Ok acts /\ es = compile_all d acts /\ j <= length es /\
    aeq (view d') (view (apply (firstn j (compile_all d acts)) d)).
Proof.
  intros [R Hok He Hr].
  destruct (crash_point_reads f d o es k R Hok He) as [j [d2 [Hj [H1 H2]]]].
  rewrite Hr in H1. inversion H1. subst d2.
  unfold effects, effects_gen in He. destruct (decide false (view d) o) as [acts|e] eqn:E; [|discriminate].
  inversion He. subst es. exists acts, j. split; [reflexivity|]. split; [reflexivity|]. split; [exact Hj|].
  apply db_eq_view. exact H2.
Qed.

Lemma same_or_aeq_l a b x y : aeq a b -> same_or b x y -> same_or a x y.
Proof. intros [_ [H1 H2]] [S1 S2]. split; intros; [rewrite H1; apply S1|rewrite H2; apply S2]. Qed.

(* ---------------------------------------------------------------- between two action prefixes *)

Lemma crash_between f d o es k d' : crash_point f d o es k d' ->
  exists acts i, decide false (view d) o = Ok acts /\ i <= length acts /\
    same_or (view d') (aapply_all (firstn i acts) (view d)) (aapply_all (firstn (S i) acts) (view d)).
Proof.
  intro C. destruct (crash_point_view _ _ _ _ _ _ C) as [acts [j [Hd [_ [_ Hv]]]]].
  destruct (effect_prefix_between acts d j) as [i [Hi Sm]].
  exists acts, i. split; [exact Hd|]. split; [exact Hi|]. apply (same_or_aeq_l _ _ _ _ Hv Sm).
Qed.

Lemma completed_view d acts : aeq (view (apply (compile_all d acts) d)) (aapply_all acts (view d)).
Proof. apply compile_all_refines. Qed.

(* a command that comes down to at most one record-level action: old or new *)
Lemma crash_single f d o es k d' acts : crash_point f d o es k d' ->
  decide false (view d) o = Ok acts -> length acts <= 1 ->
  same_or (view d') (view d) (view (apply es d)).
Proof.
  intros C Hd Hl. destruct (crash_between _ _ _ _ _ _ C) as [acts' [i [Hd' [Hi Sm]]]].
  rewrite Hd in Hd'. inversion Hd'. subst acts'.
  assert (Hes : es = compile_all d acts).
  { destruct C as [_ _ He _]. unfold effects, effects_gen in He. rewrite Hd in He. inversion He. reflexivity. }
  subst es.
  assert (A1 : aeq (aapply_all (firstn (S i) acts) (view d)) (view (apply (compile_all d acts) d))).
  { rewrite firstn_all2 by lia. apply aeq_sym. apply completed_view. }
  destruct i as [|i].
  - eapply same_or_aeq; [apply aeq_refl|exact A1|exact Sm].
  - assert (A0 : aeq (aapply_all (firstn (S i) acts) (view d)) (view (apply (compile_all d acts) d))).
    { rewrite firstn_all2 by lia. apply aeq_sym. apply completed_view. }
    destruct Sm as [S1 S2]. split; intros.
    + right. destruct A0 as [_ [A0 _]]. destruct A1 as [_ [A1 _]]. rewrite <- A0.
      destruct (S1 s n v f0) as [E|E]; [exact E|]. rewrite E, A1, <- A0. reflexivity.
    + right. destruct A0 as [_ [_ A0]]. destruct A1 as [_ [_ A1]]. rewrite <- A0.
      destruct (S2 s n t f0) as [E|E]; [exact E|]. rewrite E, A1, <- A0. reflexivity.
Qed.

(* ---------------------------------------------------------------- the invariant *)

Lemma crash_no_dangling f d o es k d' : crash_point f d o es k d' ->
  no_dangling (view d) -> no_dangling (view d').
Proof.
  intros C Hn. destruct (crash_point_view _ _ _ _ _ _ C) as [acts [j [Hd [_ [_ Hv]]]]].
  apply (no_dangling_aeq _ _ (aeq_sym _ _ Hv)). apply no_dangling_effect_prefix; [exact Hn|].
  apply (decide_acts_ok _ _ _ _ Hd).
Qed.

(* ---------------------------------------------------------------- frame *)

Lemma Forall_firstn {A} (P : A -> Prop) i l : Forall P l -> Forall P (firstn i l).
Proof. intro H. apply Forall_forall. intros x Hx. rewrite Forall_forall in H. apply H. apply (In_firstn _ i). exact Hx. Qed.

Lemma crash_frame_nf f d o es k d' : crash_point f d o es k d' ->
  forall s n x fl, (n, fl) <> op_nf o ->
  a_decl (view d') s n x fl = a_decl (view d) s n x fl /\ a_tag (view d') s n x fl = a_tag (view d) s n x fl.
Proof.
  intros C s n x fl N. destruct (crash_between _ _ _ _ _ _ C) as [acts [i [Hd [_ [S1 S2]]]]].
  pose proof (decide_scope _ _ _ _ Hd) as Sc.
  destruct (aapply_all_frame_nf (firstn i acts) (op_nf o) (Forall_firstn _ i _ Sc) (view d) s n x fl N) as [E1 E2].
  destruct (aapply_all_frame_nf (firstn (S i) acts) (op_nf o) (Forall_firstn _ (S i) _ Sc) (view d) s n x fl N) as [E3 E4].
  split.
  - destruct (S1 s n x fl) as [E|E]; rewrite E; assumption.
  - destruct (S2 s n x fl) as [E|E]; rewrite E; assumption.
Qed.

Lemma crash_frame_stack f d o es k d' : crash_point f d o es k d' -> is_declare o = false ->
  exists s0, forall s n x fl, s <> s0 ->
  a_decl (view d') s n x fl = a_decl (view d) s n x fl /\ a_tag (view d') s n x fl = a_tag (view d) s n x fl.
Proof.
  intros C Hnd. destruct (crash_between _ _ _ _ _ _ C) as [acts [i [Hd [_ [S1 S2]]]]].
  destruct (decide_one_stack _ _ _ _ Hnd Hd) as [s0 Sc]. exists s0. intros s n x fl N.
  destruct (aapply_all_frame_stack (firstn i acts) s0 (Forall_firstn _ i _ Sc) (view d) s n x fl N) as [E1 E2].
  destruct (aapply_all_frame_stack (firstn (S i) acts) s0 (Forall_firstn _ (S i) _ Sc) (view d) s n x fl N) as [E3 E4].
  split.
  - destruct (S1 s n x fl) as [E|E]; rewrite E; assumption.
  - destruct (S2 s n x fl) as [E|E]; rewrite E; assumption.
Qed.

(* ---------------------------------------------------------------- declarations: old or new, whatever the command *)

Definition is_decl_act (x : aact) : bool :=
  match x with ASetDecl _ _ _ _ _ | ADelDecl _ _ _ _ => true | _ => false end.
Definition ndecl (xs : list aact) : nat := length (filter is_decl_act xs).

Lemma ndecl_app a b : ndecl (a ++ b) = ndecl a + ndecl b.
Proof. unfold ndecl. rewrite filter_app, app_length. reflexivity. Qed.

Lemma ndecl_zero xs : ndecl xs = 0 -> Forall is_tag_act xs.
Proof.
  unfold ndecl. induction xs as [|x xs IH]; cbn; [constructor|].
  destruct x; cbn; try discriminate; intro H; constructor; try exact I; apply IH; exact H.
Qed.

Lemma ndecl_deltags_stacks rs n x f : ndecl (map (fun r => ADelTag r n x f) rs) = 0.
Proof. unfold ndecl. induction rs as [|r rs IH]; cbn; [reflexivity|exact IH]. Qed.

Lemma decide_ndecl p a o acts : decide p a o = Ok acts -> ndecl acts <= 1.
Proof.
  destruct o as [o n v dir table t|o t n v|o t n vo|o n vo|o n vo t both|o n v]; cbn [decide].
  - unfold declare_acts. destruct (declare_plan a o n v dir table t) as [pl|e]; [|discriminate].
    destruct (o_noaction o); [intro H; inversion H; cbn; lia|].
    rewrite declare_finish_unfold.
    assert (H1 : ndecl (declare_acts1 (o_flavor o) n v pl) <= 1).
    { unfold declare_acts1. destruct (dp_write pl); [|cbn; lia]. destruct (dp_tag pl); cbn; lia. }
    destruct (dp_tag pl) as [x|]; [|intro H; inversion H; subst; exact H1].
    cbv zeta. destruct (find_exact _ _ n v _) as [[s' r]|]; [|discriminate].
    intro H. inversion H. rewrite !ndecl_app, ndecl_deltags_stacks. cbn. lia.
  - unfold assign_acts. destruct (find_exact a _ n v _) as [[s' r]|]; [|discriminate].
    intro H. inversion H. cbn. lia.
  - intro H. destruct (unassign_acts_shape _ _ _ _ _ _ H) as [->|[s ->]]; cbn; lia.
  - unfold undeclare_acts. destruct (undeclare_target a o n vo) as [[s' v]|]; [|discriminate].
    destruct (o_noaction o); intro H; inversion H; cbn; lia.
  - unfold undeclare_tag_acts. destruct both; cbn [negb].
    + destruct (undeclare_target a o n _) as [[s' v]|]; [|discriminate].
      destruct (o_noaction o); [intro H; inversion H; cbn; lia|].
      intro H. inversion H. destruct (opt_str_eqb _ _); cbn; lia.
    + intro H. destruct (unassign_acts_shape _ _ _ _ _ _ H) as [->|[s ->]]; cbn; lia.
  - unfold remove_acts, undeclare_acts. destruct (find_exact a (apath a) n v _); [|discriminate].
    destruct (undeclare_target a _ n _) as [[s' v']|]; [|discriminate].
    cbn [o_noaction o_flavor]. destruct (o_noaction o); intro H; inversion H; cbn; lia.
Qed.

Lemma decl_prefix_old_or_new acts a i s n v f : ndecl acts <= 1 ->
  a_decl (aapply_all (firstn i acts) a) s n v f = a_decl a s n v f \/
  a_decl (aapply_all (firstn i acts) a) s n v f = a_decl (aapply_all acts a) s n v f.
Proof.
  intro H. rewrite <- (firstn_skipn i acts) in H. rewrite ndecl_app in H.
  destruct (ndecl (firstn i acts)) eqn:E.
  - left. apply tag_acts_keep_decls. apply ndecl_zero. exact E.
  - right. assert (E2 : ndecl (skipn i acts) = 0) by lia.
    rewrite <- (firstn_skipn i acts) at 2. rewrite aapply_all_app. symmetry.
    apply tag_acts_keep_decls. apply ndecl_zero. exact E2.
Qed.

Lemma crash_decl_old_or_new_gen f d o es k d' : crash_point f d o es k d' ->
  forall s n v fl, a_decl (view d') s n v fl = a_decl (view d) s n v fl \/
                   a_decl (view d') s n v fl = a_decl (view (apply es d)) s n v fl.
Proof.
  intros C s n v fl. destruct (crash_between _ _ _ _ _ _ C) as [acts [i [Hd [_ [S1 _]]]]].
  assert (Hes : es = compile_all d acts).
  { destruct C as [_ _ He _]. unfold effects, effects_gen in He. rewrite Hd in He. inversion He. reflexivity. }
  subst es. destruct (completed_view d acts) as [_ [Hc _]]. rewrite Hc.
  pose proof (decide_ndecl _ _ _ _ Hd) as Hn.
  destruct (S1 s n v fl) as [E|E]; rewrite E; apply decl_prefix_old_or_new; exact Hn.
Qed.

(* ---------------------------------------------------------------- every command but declare: old or new *)

Lemma decide_shape_not_declare p a o acts : is_declare o = false -> decide p a o = Ok acts ->
  length acts <= 1 \/ exists s n t f v, acts = [ADelTag s n t f; ADelDecl s n v f].
Proof.
  destruct o as [o n v dir table t|o t n v|o t n vo|o n vo|o n vo t both|o n v]; cbn [decide is_declare];
    intro Hn; try discriminate.
  - unfold assign_acts. destruct (find_exact a _ n v _) as [[s' r]|]; [|discriminate].
    intro H. inversion H. left. cbn. lia.
  - intro H. destruct (unassign_acts_shape _ _ _ _ _ _ H) as [->|[s ->]]; left; cbn; lia.
  - unfold undeclare_acts. destruct (undeclare_target a o n vo) as [[s' v]|]; [|discriminate].
    destruct (o_noaction o); intro H; inversion H; left; cbn; lia.
  - unfold undeclare_tag_acts. destruct both; cbn [negb].
    + destruct (undeclare_target a o n _) as [[s' v]|]; [|discriminate].
      destruct (o_noaction o); [intro H; inversion H; left; cbn; lia|].
      intro H. inversion H. destruct (opt_str_eqb _ _); [right; exists s', n, t, (o_flavor o), v; reflexivity|left; cbn; lia].
    + intro H. destruct (unassign_acts_shape _ _ _ _ _ _ H) as [->|[s ->]]; left; cbn; lia.
  - unfold remove_acts, undeclare_acts. destruct (find_exact a (apath a) n v _); [|discriminate].
    destruct (undeclare_target a _ n _) as [[s' v']|]; [|discriminate].
    cbn [o_noaction o_flavor]. destruct (o_noaction o); intro H; inversion H; left; cbn; lia.
Qed.

(* the tag removed first stays removed: every prefix value is the old or the final one *)
Lemma untag_undeclare_prefix a s n t f v i s' n' t' f' :
  let acts := [ADelTag s n t f; ADelDecl s n v f] in
  a_tag (aapply_all (firstn i acts) a) s' n' t' f' = a_tag a s' n' t' f' \/
  a_tag (aapply_all (firstn i acts) a) s' n' t' f' = a_tag (aapply_all acts a) s' n' t' f'.
Proof.
  cbv zeta. destruct i as [|[|i]]; [left; reflexivity| |right; cbn [firstn]; destruct i; reflexivity].
  cbn [firstn]. rewrite !aapply_all_cons. cbn [aapply_all fold_left].
  rewrite (a_tag_aapply (ADelDecl s n v f)). rewrite (a_tag_aapply (ADelTag s n t f)).
  destruct (dkey_eqb (s', n', t', f') (s, n, t, f)) eqn:E.
  - right. destruct (_ && _); reflexivity.
  - left. reflexivity.
Qed.

Lemma crash_not_declare f d o es k d' : crash_point f d o es k d' -> is_declare o = false ->
  same_or (view d') (view d) (view (apply es d)).
Proof.
  intros C Hnd. destruct (crash_between _ _ _ _ _ _ C) as [acts [i [Hd [Hi [S1 S2]]]]].
  destruct (decide_shape_not_declare _ _ _ _ Hnd Hd) as [Hl|[s [n [t [f0 [v E]]]]]].
  - apply (crash_single _ _ _ _ _ _ acts C Hd Hl).
  - split; [apply (crash_decl_old_or_new_gen _ _ _ _ _ _ C)|].
    assert (Hes : es = compile_all d acts).
    { destruct C as [_ _ He _]. unfold effects, effects_gen in He. rewrite Hd in He. inversion He. reflexivity. }
    subst es. destruct (completed_view d acts) as [_ [_ Hc]]. intros s' n' t' f'. rewrite Hc. subst acts.
    destruct (S2 s' n' t' f') as [E|E]; rewrite E; apply untag_undeclare_prefix.
Qed.

(* ---------------------------------------------------------------- declare: old, new, or unassigned *)

(* an action is tame for a tag key when, if it assigns that key at all, it assigns the final value *)
Definition tame (fin : option str) (s n t f : str) (x : aact) : Prop :=
  match x with
  | ASetTag s' n' t' f' v' => (s', n', t', f') = (s, n, t, f) -> Some v' = fin
  | _ => True
  end.

Lemma tame_step fin s n t f x b : tame fin s n t f x ->
  a_tag (aapply x b) s n t f = a_tag b s n t f \/ a_tag (aapply x b) s n t f = None \/
  a_tag (aapply x b) s n t f = fin.
Proof.
  intro H. rewrite a_tag_aapply. destruct x as [s' n' v' f' r|s' n' v' f'|s' n' t' f' v'|s' n' t' f'].
  - left. reflexivity.
  - destruct (_ && _); auto.
  - destruct (mem_str s' (apath b)); cbn [andb]; [|left; reflexivity].
    destruct (dkey_eqb (s, n, t, f) (s', n', t', f')) eqn:E; [|left; reflexivity].
    apply dkey_eqb_eq in E. right. right. apply H. symmetry. exact E.
  - destruct (dkey_eqb _ _); auto.
Qed.

Lemma tame_prefix fin s n t f acts : Forall (tame fin s n t f) acts -> forall a i,
  a_tag (aapply_all (firstn i acts) a) s n t f = a_tag a s n t f \/
  a_tag (aapply_all (firstn i acts) a) s n t f = None \/
  a_tag (aapply_all (firstn i acts) a) s n t f = fin.
Proof.
  induction 1 as [|x acts Hx _ IH]; intros a i.
  - rewrite firstn_nil. left. reflexivity.
  - destruct i as [|i]; [left; reflexivity|]. cbn [firstn]. rewrite aapply_all_cons.
    destruct (IH (aapply x a) i) as [E|[E|E]]; rewrite E; auto.
    apply tame_step. exact Hx.
Qed.

Lemma declare_shape p a o n v dir table t acts : decide p a (Declare o n v dir table t) = Ok acts ->
  Forall not_settag acts \/
  exists tg x P, acts = P ++ [ASetTag tg n x (o_flavor o) v] /\ mem_str tg (apath a) = true /\
    Forall (fun y => not_settag y \/ y = ASetTag tg n x (o_flavor o) v) P.
Proof.
  cbn [decide]. unfold declare_acts. destruct (declare_plan a o n v dir table t) as [pl|e] eqn:Ep; [|discriminate].
  destruct (o_noaction o); [intro H; inversion H; left; constructor|].
  destruct (declare_plan_target _ _ _ _ _ _ _ _ Ep) as [Hm _].
  rewrite declare_finish_unfold. destruct (dp_tag pl) as [x|] eqn:Ex.
  - cbv zeta. destruct (find_exact _ _ n v _) as [[s' r]|] eqn:Ef; [|discriminate].
    intro H. inversion H. subst acts. right.
    apply find_exact_some in Ef. destruct Ef as [Hin _].
    assert (s' = dp_target pl) by (destruct Hin as [<-|[<-|[]]]; reflexivity). subst s'.
    exists (dp_target pl), x, (declare_acts1 (o_flavor o) n v pl ++
                               map (fun r0 => ADelTag r0 n x (o_flavor o))
                                 (occurrences p (aapply_all (declare_acts1 (o_flavor o) n v pl) a) n x (o_flavor o))).
    split; [rewrite <- app_assoc; reflexivity|]. split; [exact Hm|].
    apply Forall_app. split.
    + unfold declare_acts1. destruct (dp_write pl); [|constructor]. rewrite Ex.
      constructor; [left; exact I|]. constructor; [right; reflexivity|constructor].
    + apply Forall_forall. intros y Hy. apply in_map_iff in Hy. destruct Hy as [r0 [<- _]]. left. exact I.
  - intro H. inversion H. left. unfold declare_acts1. destruct (dp_write pl); [|constructor]. rewrite Ex.
    repeat constructor.
Qed.

Lemma not_settag_tame fin s n t f x : not_settag x -> tame fin s n t f x.
Proof. destruct x; cbn; auto. contradiction. Qed.

(* every tag assignment, at every crash point of every command: its old value, its new value, or unassigned *)
Lemma crash_tag_three f d o es k d' : crash_point f d o es k d' ->
  forall s n t fl, a_tag (view d') s n t fl = a_tag (view d) s n t fl \/
                   a_tag (view d') s n t fl = a_tag (view (apply es d)) s n t fl \/
                   a_tag (view d') s n t fl = None.
Proof.
  intros C s n t fl. destruct (is_declare o) eqn:Hd.
  2:{ destruct (crash_not_declare _ _ _ _ _ _ C Hd) as [_ S2]. destruct (S2 s n t fl); auto. }
  destruct (crash_between _ _ _ _ _ _ C) as [acts [i [Hdec [_ [_ S2]]]]].
  assert (Hes : es = compile_all d acts).
  { destruct C as [_ _ He _]. unfold effects, effects_gen in He. rewrite Hdec in He. inversion He. reflexivity. }
  subst es. destruct (completed_view d acts) as [_ [_ Hc]]. rewrite Hc.
  set (fin := a_tag (aapply_all acts (view d)) s n t fl).
  assert (T : Forall (tame fin s n t fl) acts).
  { destruct o as [o n0 v dir table t0| | | | | ]; try discriminate.
    destruct (declare_shape _ _ _ _ _ _ _ _ _ Hdec) as [Hns|[tg [x [P [E [Hm HP]]]]]].
    - eapply Forall_impl; [|exact Hns]. intros y. apply not_settag_tame.
    - assert (Hfin : forall y, y = ASetTag tg n0 x (o_flavor o) v -> tame fin s n t fl y).
      { intros y ->. cbn. intro K. unfold fin. rewrite E, aapply_all_app.
        cbn [aapply_all fold_left]. rewrite a_tag_aapply, apath_aapply_all, Hm. cbn [andb].
        rewrite <- K, dkey_eqb_refl. reflexivity. }
      rewrite E. apply Forall_app. split.
      + eapply Forall_impl; [|exact HP]. intros y [Hy|Hy]; [apply not_settag_tame; exact Hy|apply Hfin; exact Hy].
      + constructor; [apply Hfin; reflexivity|constructor]. }
  destruct (S2 s n t fl) as [E|E]; rewrite E.
  - destruct (tame_prefix fin s n t fl acts T (view d) i) as [K|[K|K]]; auto.
  - destruct (tame_prefix fin s n t fl acts T (view d) (S i)) as [K|[K|K]]; auto.
Qed.
