(* C08, second layer: what a reader sees after a crash inside a command.  Store side
   (Proofs/CrashDb.v) and database side (Proofs/CrashDbAct.v) put together. *)
From Eupsv Require Import Base.Base Base.BaseLemmas Model.Db Model.Crash Model.CrashDb
  Proofs.DbLib Proofs.Db Proofs.DbSim Proofs.DbInv Proofs.DbCor Proofs.Crash
  Proofs.CrashDbLib Proofs.CrashDb Proofs.CrashDbAct Proofs.CrashDbOp.
From Coq Require Import Lia.

(* the hypotheses shared by every theorem: a store holding database d, a command with path-safe
   names that the model does not refuse, its file effects, the store after k system calls *)
Record crash_point (f : fs) (d : db) (o : op) (es : list fseffect) (k : nat) (d' : db) : Prop := mkCP {
  cp_rep : represents f d;
  cp_ok : op_ok o = true;
  cp_eff : effects d o = Ok es;
  cp_read : read_db (map fst d) (crash_fs f es k) = Ok d'
}.

Lemma read_db_ok path f d' : read_db path f = Ok d' -> d' = read_raw path f.
Proof. unfold read_db. destruct (forallb _ _); [|discriminate]. intro H. inversion H. reflexivity. Qed.

Lemma crash_point_reads f d o es k :
  represents f d -> op_ok o = true -> effects d o = Ok es ->
  exists j d', j <= length es /\ read_db (map fst d) (crash_fs f es k) = Ok d' /\
               db_eq d' (apply (firstn j es) d).
Proof.
  intros R Hok He.
  pose proof (effects_ok false d o es (represents_names_ok _ _ R) Hok He) as Hes.
  destruct (crash_reads_effect_prefix f d es k R Hes) as [j [Hj [H1 H2]]].
  exists j, (read_raw (map fst d) (crash_fs f es k)). auto.
Qed.

(* the acts behind the effects, and the effect prefix the reader sees *)
Lemma crash_point_view f d o es k d' : crash_point f d o es k d' ->
  exists acts j, decide false (view d) o = Ok acts /\ es = compile_all d acts /\ j <= length es /\
    aeq (view d') (view (apply (firstn j (compile_all d acts)) d)).
Proof.
  intros [R Hok He Hr].
  destruct (crash_point_reads f d o es k R Hok He) as [j [d2 [Hj [H1 H2]]]].
  rewrite Hr in H1. inversion H1. subst d2.
  unfold effects, effects_gen in He. destruct (decide false (view d) o) as [acts|e] eqn:E; [|discriminate].
  inversion He. subst es. exists acts, j. split; [reflexivity|]. split; [reflexivity|]. split; [exact Hj|].
  apply db_eq_view. exact H2.
Qed.

Lemma same_or_aeq_l a b x y : aeq a b -> same_or b x y -> same_or a x y.
Proof. intros [_ [H1 H2]] [S1 S2]. split; intros; [rewrite H1; apply S1|rewrite H2; apply S2]. Qed.

(* ---------------------------------------------------------------- between two action prefixes *)

Lemma crash_between f d o es k d' : crash_point f d o es k d' ->
  exists acts i, decide false (view d) o = Ok acts /\ i <= length acts /\
    same_or (view d') (aapply_all (firstn i acts) (view d)) (aapply_all (firstn (S i) acts) (view d)).
Proof.
  intro C. destruct (crash_point_view _ _ _ _ _ _ C) as [acts [j [Hd [_ [_ Hv]]]]].
  destruct (effect_prefix_between acts d j) as [i [Hi Sm]].
  exists acts, i. split; [exact Hd|]. split; [exact Hi|]. apply (same_or_aeq_l _ _ _ _ Hv Sm).
Qed.

Lemma completed_view d acts : aeq (view (apply (compile_all d acts) d)) (aapply_all acts (view d)).
Proof. apply compile_all_refines. Qed.

(* a command that comes down to at most one record-level action: old or new *)
Lemma crash_single f d o es k d' acts : crash_point f d o es k d' ->
  decide false (view d) o = Ok acts -> length acts <= 1 ->
  same_or (view d') (view d) (view (apply es d)).
Proof.
  intros C Hd Hl. destruct (crash_between _ _ _ _ _ _ C) as [acts' [i [Hd' [Hi Sm]]]].
  rewrite Hd in Hd'. inversion Hd'. subst acts'.
  assert (Hes : es = compile_all d acts).
  { destruct C as [_ _ He _]. unfold effects, effects_gen in He. rewrite Hd in He. inversion He. reflexivity. }
  subst es.
  assert (A1 : aeq (aapply_all (firstn (S i) acts) (view d)) (view (apply (compile_all d acts) d))).
  { rewrite firstn_all2 by lia. apply aeq_sym. apply completed_view. }
  destruct i as [|i].
  - eapply same_or_aeq; [apply aeq_refl|exact A1|exact Sm].
  - assert (A0 : aeq (aapply_all (firstn (S i) acts) (view d)) (view (apply (compile_all d acts) d))).
    { rewrite firstn_all2 by lia. apply aeq_sym. apply completed_view. }
    destruct Sm as [S1 S2]. split; intros.
    + right. destruct A0 as [_ [A0 _]]. destruct A1 as [_ [A1 _]]. rewrite <- A0.
      destruct (S1 s n v f0) as [E|E]; [exact E|]. rewrite E, A1, <- A0. reflexivity.
    + right. destruct A0 as [_ [_ A0]]. destruct A1 as [_ [_ A1]]. rewrite <- A0.
      destruct (S2 s n t f0) as [E|E]; [exact E|]. rewrite E, A1, <- A0. reflexivity.
Qed.

(* ---------------------------------------------------------------- the invariant *)

Lemma crash_no_dangling f d o es k d' : crash_point f d o es k d' ->
  no_dangling (view d) -> no_dangling (view d').
Proof.
  intros C Hn. destruct (crash_point_view _ _ _ _ _ _ C) as [acts [j [Hd [_ [_ Hv]]]]].
  apply (no_dangling_aeq _ _ (aeq_sym _ _ Hv)). apply no_dangling_effect_prefix; [exact Hn|].
  apply (decide_acts_ok _ _ _ _ Hd).
Qed.

(* ---------------------------------------------------------------- frame *)

Lemma Forall_firstn {A} (P : A -> Prop) i l : Forall P l -> Forall P (firstn i l).
Proof. intro H. apply Forall_forall. intros x Hx. rewrite Forall_forall in H. apply H. apply (In_firstn _ i). exact Hx. Qed.

Lemma crash_frame_nf f d o es k d' : crash_point f d o es k d' ->
  forall s n x fl, (n, fl) <> op_nf o ->
  a_decl (view d') s n x fl = a_decl (view d) s n x fl /\ a_tag (view d') s n x fl = a_tag (view d) s n x fl.
Proof.
  intros C s n x fl N. destruct (crash_between _ _ _ _ _ _ C) as [acts [i [Hd [_ [S1 S2]]]]].
  pose proof (decide_scope _ _ _ _ Hd) as Sc.
  destruct (aapply_all_frame_nf (firstn i acts) (op_nf o) (Forall_firstn _ i _ Sc) (view d) s n x fl N) as [E1 E2].
  destruct (aapply_all_frame_nf (firstn (S i) acts) (op_nf o) (Forall_firstn _ (S i) _ Sc) (view d) s n x fl N) as [E3 E4].
  split.
  - destruct (S1 s n x fl) as [E|E]; rewrite E; assumption.
  - destruct (S2 s n x fl) as [E|E]; rewrite E; assumption.
Qed.

Lemma crash_frame_stack f d o es k d' : crash_point f d o es k d' -> is_declare o = false ->
  exists s0, forall s n x fl, s <> s0 ->
  a_decl (view d') s n x fl = a_decl (view d) s n x fl /\ a_tag (view d') s n x fl = a_tag (view d) s n x fl.
Proof.
  intros C Hnd. destruct (crash_between _ _ _ _ _ _ C) as [acts [i [Hd [_ [S1 S2]]]]].
  destruct (decide_one_stack _ _ _ _ Hnd Hd) as [s0 Sc]. exists s0. intros s n x fl N.
  destruct (aapply_all_frame_stack (firstn i acts) s0 (Forall_firstn _ i _ Sc) (view d) s n x fl N) as [E1 E2].
  destruct (aapply_all_frame_stack (firstn (S i) acts) s0 (Forall_firstn _ (S i) _ Sc) (view d) s n x fl N) as [E3 E4].
  split.
  - destruct (S1 s n x fl) as [E|E]; rewrite E; assumption.
  - destruct (S2 s n x fl) as [E|E]; rewrite E; assumption.
Qed.

(* ---------------------------------------------------------------- declarations: old or new, whatever the command *)

Definition is_decl_act (x : aact) : bool :=
  match x with ASetDecl _ _ _ _ _ | ADelDecl _ _ _ _ => true | _ => false end.
Definition ndecl (xs : list aact) : nat := length (filter is_decl_act xs).

Lemma ndecl_app a b : ndecl (a ++ b) = ndecl a + ndecl b.
Proof. unfold ndecl. rewrite filter_app, app_length. reflexivity. Qed.

Lemma ndecl_zero xs : ndecl xs = 0 -> Forall is_tag_act xs.
Proof.
  unfold ndecl. induction xs as [|x xs IH]; cbn; [constructor|].
  destruct x; cbn; try discriminate; intro H; constructor; try exact I; apply IH; exact H.
Qed.

Lemma ndecl_deltags_stacks rs n x f : ndecl (map (fun r => ADelTag r n x f) rs) = 0.
Proof. unfold ndecl. induction rs as [|r rs IH]; cbn; [reflexivity|exact IH]. Qed.

Lemma decide_ndecl p a o acts : decide p a o = Ok acts -> ndecl acts <= 1.
Proof.
  destruct o as [o n v dir table t|o t n v|o t n vo|o n vo|o n vo t both|o n v]; cbn [decide].
  - unfold declare_acts. destruct (declare_plan a o n v dir table t) as [pl|e]; [|discriminate].
    destruct (o_noaction o); [intro H; inversion H; cbn; lia|].
    assert (H1 : ndecl (declare_acts1 (o_flavor o) n v pl) <= 1).
    { unfold declare_acts1. destruct (dp_write pl); [|cbn; lia]. destruct (dp_tag pl); cbn; lia. }
    intro H. apply declare_finish_shape in H.
    destruct (dp_tag pl) as [x|]; [|subst acts; exact H1].
    destruct H as [rs [rs' [-> _]]].
    change (ASetTag (dp_target pl) n x (o_flavor o) v :: map (fun r => ADelTag r n x (o_flavor o)) rs')
      with ([ASetTag (dp_target pl) n x (o_flavor o) v] ++ map (fun r => ADelTag r n x (o_flavor o)) rs').
    rewrite !ndecl_app, !ndecl_deltags_stacks. cbn. lia.
  - unfold assign_acts. destruct (find_exact a _ n v _) as [[s' r]|]; [|discriminate].
    intro H. inversion H. cbn. lia.
  - intro H. destruct (unassign_acts_shape _ _ _ _ _ _ H) as [->|[s ->]]; cbn; lia.
  - unfold undeclare_acts. destruct (undeclare_target a o n vo) as [[s' v]|]; [|discriminate].
    destruct (o_noaction o); intro H; inversion H; cbn; lia.
  - unfold undeclare_tag_acts. destruct both; cbn [negb].
    + destruct (undeclare_target a o n _) as [[s' v]|]; [|discriminate].
      destruct (o_noaction o); [intro H; inversion H; cbn; lia|].
      intro H. inversion H. destruct (opt_str_eqb _ _); cbn; lia.
    + intro H. destruct (unassign_acts_shape _ _ _ _ _ _ H) as [->|[s ->]]; cbn; lia.
  - unfold remove_acts, undeclare_acts. destruct (find_exact a (apath a) n v _); [|discriminate].
    destruct (undeclare_target a _ n _) as [[s' v']|]; [|discriminate].
    cbn [o_noaction o_flavor]. destruct (o_noaction o); intro H; inversion H; cbn; lia.
Qed.

Lemma decl_prefix_old_or_new acts a i s n v f : ndecl acts <= 1 ->
  a_decl (aapply_all (firstn i acts) a) s n v f = a_decl a s n v f \/
  a_decl (aapply_all (firstn i acts) a) s n v f = a_decl (aapply_all acts a) s n v f.
Proof.
  intro H. rewrite <- (firstn_skipn i acts) in H. rewrite ndecl_app in H.
  destruct (ndecl (firstn i acts)) eqn:E.
  - left. apply tag_acts_keep_decls. apply ndecl_zero. exact E.
  - right. assert (E2 : ndecl (skipn i acts) = 0) by lia.
    rewrite <- (firstn_skipn i acts) at 2. rewrite aapply_all_app. symmetry.
    apply tag_acts_keep_decls. apply ndecl_zero. exact E2.
Qed.

Lemma crash_decl_old_or_new_gen f d o es k d' : crash_point f d o es k d' ->
  forall s n v fl, a_decl (view d') s n v fl = a_decl (view d) s n v fl \/
                   a_decl (view d') s n v fl = a_decl (view (apply es d)) s n v fl.
Proof.
  intros C s n v fl. destruct (crash_between _ _ _ _ _ _ C) as [acts [i [Hd [_ [S1 _]]]]].
  assert (Hes : es = compile_all d acts).
  { destruct C as [_ _ He _]. unfold effects, effects_gen in He. rewrite Hd in He. inversion He. reflexivity. }
  subst es. destruct (completed_view d acts) as [_ [Hc _]]. rewrite Hc.
  pose proof (decide_ndecl _ _ _ _ Hd) as Hn.
  destruct (S1 s n v fl) as [E|E]; rewrite E; apply decl_prefix_old_or_new; exact Hn.
Qed.

(* ---------------------------------------------------------------- every command but declare: old or new *)

Lemma decide_shape_not_declare p a o acts : is_declare o = false -> decide p a o = Ok acts ->
  length acts <= 1 \/ exists s n t f v, acts = [ADelTag s n t f; ADelDecl s n v f].
Proof.
  destruct o as [o n v dir table t|o t n v|o t n vo|o n vo|o n vo t both|o n v]; cbn [decide is_declare];
    intro Hn; try discriminate.
  - unfold assign_acts. destruct (find_exact a _ n v _) as [[s' r]|]; [|discriminate].
    intro H. inversion H. left. cbn. lia.
  - intro H. destruct (unassign_acts_shape _ _ _ _ _ _ H) as [->|[s ->]]; left; cbn; lia.
  - unfold undeclare_acts. destruct (undeclare_target a o n vo) as [[s' v]|]; [|discriminate].
    destruct (o_noaction o); intro H; inversion H; left; cbn; lia.
  - unfold undeclare_tag_acts. destruct both; cbn [negb].
    + destruct (undeclare_target a o n _) as [[s' v]|]; [|discriminate].
      destruct (o_noaction o); [intro H; inversion H; left; cbn; lia|].
      intro H. inversion H. destruct (opt_str_eqb _ _); [right; exists s', n, t, (o_flavor o), v; reflexivity|left; cbn; lia].
    + intro H. destruct (unassign_acts_shape _ _ _ _ _ _ H) as [->|[s ->]]; left; cbn; lia.
  - unfold remove_acts, undeclare_acts. destruct (find_exact a (apath a) n v _); [|discriminate].
    destruct (undeclare_target a _ n _) as [[s' v']|]; [|discriminate].
    cbn [o_noaction o_flavor]. destruct (o_noaction o); intro H; inversion H; left; cbn; lia.
Qed.

(* the tag removed first stays removed: every prefix value is the old or the final one *)
Lemma untag_undeclare_prefix a s n t f v i s' n' t' f' :
  let acts := [ADelTag s n t f; ADelDecl s n v f] in
  a_tag (aapply_all (firstn i acts) a) s' n' t' f' = a_tag a s' n' t' f' \/
  a_tag (aapply_all (firstn i acts) a) s' n' t' f' = a_tag (aapply_all acts a) s' n' t' f'.
Proof.
  cbv zeta. destruct i as [|[|i]]; [left; reflexivity| |right; cbn [firstn]; destruct i; reflexivity].
  cbn [firstn]. rewrite !aapply_all_cons. cbn [aapply_all fold_left].
  rewrite (a_tag_aapply (ADelDecl s n v f)). rewrite (a_tag_aapply (ADelTag s n t f)).
  destruct (dkey_eqb (s', n', t', f') (s, n, t, f)) eqn:E.
  - right. destruct (_ && _); reflexivity.
  - left. reflexivity.
Qed.

Lemma crash_not_declare f d o es k d' : crash_point f d o es k d' -> is_declare o = false ->
  same_or (view d') (view d) (view (apply es d)).
Proof.
  intros C Hnd. destruct (crash_between _ _ _ _ _ _ C) as [acts [i [Hd [Hi [S1 S2]]]]].
  destruct (decide_shape_not_declare _ _ _ _ Hnd Hd) as [Hl|[s [n [t [f0 [v E]]]]]].
  - apply (crash_single _ _ _ _ _ _ acts C Hd Hl).
  - split; [apply (crash_decl_old_or_new_gen _ _ _ _ _ _ C)|].
    assert (Hes : es = compile_all d acts).
    { destruct C as [_ _ He _]. unfold effects, effects_gen in He. rewrite Hd in He. inversion He. reflexivity. }
    subst es. destruct (completed_view d acts) as [_ [_ Hc]]. intros s' n' t' f'. rewrite Hc. subst acts.
    destruct (S2 s' n' t' f') as [E|E]; rewrite E; apply untag_undeclare_prefix.
Qed.

(* ---------------------------------------------------------------- declare: old or new *)

(* an action is tame for a tag key when, if it writes that key at all, it gives it the final value *)
Definition tame (fin : option str) (s n t f : str) (x : aact) : Prop :=
  match x with
  | ASetTag s' n' t' f' v' => (s', n', t', f') = (s, n, t, f) -> Some v' = fin
  | ADelTag s' n' t' f' => (s', n', t', f') = (s, n, t, f) -> fin = None
  | ADelDecl _ _ _ _ => False
  | ASetDecl _ _ _ _ _ => True
  end.

Lemma tame_step fin s n t f x b : tame fin s n t f x ->
  a_tag (aapply x b) s n t f = a_tag b s n t f \/ a_tag (aapply x b) s n t f = fin.
Proof.
  intro H. rewrite a_tag_aapply. destruct x as [s' n' v' f' r|s' n' v' f'|s' n' t' f' v'|s' n' t' f'].
  - left. reflexivity.
  - contradiction.
  - destruct (mem_str s' (apath b)); cbn [andb]; [|left; reflexivity].
    destruct (dkey_eqb (s, n, t, f) (s', n', t', f')) eqn:E; [|left; reflexivity].
    apply dkey_eqb_eq in E. right. apply H. symmetry. exact E.
  - destruct (dkey_eqb (s, n, t, f) (s', n', t', f')) eqn:E; [|left; reflexivity].
    apply dkey_eqb_eq in E. right. symmetry. apply H. symmetry. exact E.
Qed.

Lemma tame_prefix fin s n t f acts : Forall (tame fin s n t f) acts -> forall a i,
  a_tag (aapply_all (firstn i acts) a) s n t f = a_tag a s n t f \/
  a_tag (aapply_all (firstn i acts) a) s n t f = fin.
Proof.
  induction 1 as [|x acts Hx _ IH]; intros a i.
  - rewrite firstn_nil. left. reflexivity.
  - destruct i as [|i]; [left; reflexivity|]. cbn [firstn]. rewrite aapply_all_cons.
    destruct (IH (aapply x a) i) as [E|E]; rewrite E; auto.
    apply tame_step. exact Hx.
Qed.

(* the repaired tag move: the one assignment gives the target stack's key its final value, and each
   removal (in another stack) is final too *)
Lemma declare_tame a o n v dir table t acts : decide false a (Declare o n v dir table t) = Ok acts ->
  forall s n' t' f', Forall (tame (a_tag (aapply_all acts a) s n' t' f') s n' t' f') acts.
Proof.
  cbn [decide]. unfold declare_acts. destruct (declare_plan a o n v dir table t) as [pl|e] eqn:Ep; [|discriminate].
  destruct (o_noaction o); [intro H; inversion H; constructor|].
  destruct (declare_plan_target _ _ _ _ _ _ _ _ Ep) as [Hm _].
  set (f := o_flavor o). rewrite declare_finish_new_unfold. destruct (dp_tag pl) as [x|] eqn:Ex.
  2:{ intro H. inversion H. intros. unfold declare_acts1. rewrite Ex.
      destruct (dp_write pl); repeat constructor. }
  cbv zeta. set (acts1 := declare_acts1 f n v pl). set (a1 := aapply_all acts1 a).
  destruct (find_exact a1 _ n v f) as [[s' r]|] eqn:Ef; [|discriminate].
  apply find_exact_some in Ef. destruct Ef as [Hin _].
  assert (s' = dp_target pl) by (destruct Hin as [<-|[<-|[]]]; reflexivity). subst s'. clear Hin.
  set (tg := dp_target pl) in *. set (a2 := aapply (ASetTag tg n x f v) a1).
  set (rs := other_occurrences a2 tg n x f).
  intro H. inversion H. subst acts. clear H. intros s n' t' f'.
  assert (Hp1 : apath a1 = apath a) by (unfold a1; apply apath_aapply_all).
  (* the final value of every key *)
  assert (Fin : forall s0 n0 t0 f0,
            a_tag (aapply_all (acts1 ++ ASetTag tg n x f v :: map (fun r0 => ADelTag r0 n x f) rs) a) s0 n0 t0 f0 =
            if mem_str s0 rs && str_eqb n0 n && str_eqb t0 x && str_eqb f0 f then None
            else if dkey_eqb (s0, n0, t0, f0) (tg, n, x, f) then Some v else a_tag a1 s0 n0 t0 f0).
  { intros. rewrite aapply_all_app. fold a1. rewrite aapply_all_cons. fold a2. rewrite deltags_spec.
    unfold a2. rewrite a_tag_aapply, Hp1, Hm. reflexivity. }
  assert (Hrs : mem_str tg rs = false).
  { unfold rs, other_occurrences. rewrite mem_filter_str, str_eqb_refl. cbn [negb andb].
    apply andb_false_r. }
  assert (Hset : tame (a_tag (aapply_all (acts1 ++ ASetTag tg n x f v :: map (fun r0 => ADelTag r0 n x f) rs) a)
                         s n' t' f') s n' t' f' (ASetTag tg n x f v)).
  { cbn [tame]. intro K. inversion K. subst s n' t' f'. rewrite Fin, Hrs, dkey_eqb_refl. reflexivity. }
  assert (Hdel : Forall (tame (a_tag (aapply_all (acts1 ++ ASetTag tg n x f v :: map (fun r0 => ADelTag r0 n x f) rs) a)
                                 s n' t' f') s n' t' f') (map (fun r0 => ADelTag r0 n x f) rs)).
  { apply Forall_forall. intros y Hy. apply in_map_iff in Hy. destruct Hy as [r0 [<- Hr0]].
    cbn [tame]. intro K. inversion K. subst s n' t' f'. rewrite Fin.
    apply mem_str_In in Hr0. rewrite Hr0, !str_eqb_refl. reflexivity. }
  clear Fin. revert Hset Hdel.
  generalize (a_tag (aapply_all (acts1 ++ ASetTag tg n x f v :: map (fun r0 => ADelTag r0 n x f) rs) a) s n' t' f').
  intros fin Hset Hdel.
  apply Forall_app. split.
  - unfold acts1, declare_acts1. destruct (dp_write pl); [|constructor]. rewrite Ex.
    constructor; [exact I|]. constructor; [exact Hset|constructor].
  - constructor; [exact Hset|exact Hdel].
Qed.

(* every declaration and every tag assignment, at every crash point of every command: its value before the
   command or its value after the completed command *)
Lemma crash_old_or_new f d o es k d' : crash_point f d o es k d' ->
  same_or (view d') (view d) (view (apply es d)).
Proof.
  intros C. destruct (is_declare o) eqn:Hd; [|apply (crash_not_declare _ _ _ _ _ _ C Hd)].
  split; [apply (crash_decl_old_or_new_gen _ _ _ _ _ _ C)|]. intros s n t fl.
  destruct (crash_between _ _ _ _ _ _ C) as [acts [i [Hdec [_ [_ S2]]]]].
  assert (Hes : es = compile_all d acts).
  { destruct C as [_ _ He _]. unfold effects, effects_gen in He. rewrite Hdec in He. inversion He. reflexivity. }
  subst es. destruct (completed_view d acts) as [_ [_ Hc]]. rewrite Hc.
  destruct o as [o n0 v dir table t0| | | | | ]; try discriminate.
  pose proof (declare_tame _ _ _ _ _ _ _ _ Hdec s n t fl) as T.
  destruct (S2 s n t fl) as [E|E]; rewrite E; apply (tame_prefix _ _ _ _ _ _ T).
Qed.
