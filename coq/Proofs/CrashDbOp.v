(* C08, second layer: the names a command writes.  Every file effect of a command names either a
   record that exists (whose names are path-safe because the database is) or a record the command
   creates from the names given on its command line.  Hence: database names safe, command-line
   names safe  ==>  every effect is path-safe ([effects_ok]). *)
From Eupsv Require Import Base.Base Base.BaseLemmas Model.Db Model.Crash Model.CrashDb
  Proofs.DbLib Proofs.Db Proofs.DbSim Proofs.DbInv Proofs.DbCor Proofs.Crash Proofs.CrashDbLib Proofs.CrashDb.

Definition names_ok (d : db) : Prop :=
  (forall s k, db_vfile d s k <> None -> key_ok s k = true) /\
  (forall s k, db_cfile d s k <> None -> key_ok s k = true) /\
  (forall s, has_stack d s = true -> seg_ok s = true).

Lemma represents_names_ok f d : represents f d -> names_ok d.
Proof. intro R. split; [apply (rep_vok _ _ R)|]. split; [apply (rep_cok _ _ R)|apply (rep_stacks _ _ R)]. Qed.

Lemma names_ok_apply1 d e : names_ok d -> eff_ok e = true -> names_ok (apply1 e d).
Proof.
  intros [N1 [N2 N3]] Hok. split; [|split].
  - intros s k. rewrite db_vfile_apply1.
    destruct e as [s' n'|s' n'|s' k' c|s' k'|s' k' c|s' k']; cbn [eff_ok] in *; try apply N1;
      destruct (str_eqb s s' && key_eqb k k') eqn:E; try apply N1.
    + apply sk_eq in E. destruct E as [-> ->]. intros _. exact Hok.
    + intro H. congruence.
  - intros s k. rewrite db_cfile_apply1.
    destruct e as [s' n'|s' n'|s' k' c|s' k'|s' k' c|s' k']; cbn [eff_ok] in *; try apply N2;
      destruct (str_eqb s s' && key_eqb k k') eqn:E; try apply N2.
    + apply sk_eq in E. destruct E as [-> ->]. intros _. exact Hok.
    + intro H. congruence.
  - intros s. rewrite has_stack_apply1. apply N3.
Qed.

Lemma names_ok_apply es : forall d, names_ok d -> forallb eff_ok es = true -> names_ok (apply es d).
Proof.
  induction es as [|e es IH]; intros d N H; [exact N|].
  cbn [forallb] in H. apply andb_true_iff in H. destruct H as [H1 H2].
  rewrite apply_cons. apply IH; [apply names_ok_apply1; assumption|exact H2].
Qed.

(* ---------------------------------------------------------------- actions *)

Definition act_safe (x : aact) : Prop :=
  match x with
  | ASetDecl s n v _ _ => key_ok s (n, v) = true
  | ASetTag s n t _ _ => key_ok s (n, t) = true
  | _ => True
  end.

Ltac bsplit H :=
  repeat match type of H with
         | _ && _ = true => let H1 := fresh H in apply andb_true_iff in H; destruct H as [H H1]
         end.

Lemma key_ok_dir s n v : key_ok s (n, v) = true -> seg_ok s && seg_ok n && negb (is_tmp n) = true.
Proof.
  unfold key_ok, segs_ok. cbn [fst snd]. intro H. bsplit H. rewrite H, H2, H0. reflexivity.
Qed.

Lemma untag_effects_ok d s n t f : names_ok d -> forallb eff_ok (untag_effects d s n t f) = true.
Proof.
  intros [_ [N2 _]]. unfold untag_effects. destruct (db_cfile d s (n, t)) as [c|] eqn:E; [|reflexivity].
  destruct (amem f c); [|reflexivity].
  assert (K : key_ok s (n, t) = true) by (apply N2; congruence).
  unfold write_or_remove_c. destruct (is_nil _); cbn [forallb eff_ok]; rewrite K; reflexivity.
Qed.

Lemma compile_ok d x : names_ok d -> act_safe x -> forallb eff_ok (compile d x) = true.
Proof.
  intros N Hs. destruct x as [s n v f r|s n v f|s n t f v|s n t f]; cbn [compile act_safe] in *.
  - rewrite forallb_app. cbn [forallb eff_ok]. rewrite Hs.
    destruct (db_has_dir d s n); cbn [forallb eff_ok]; [reflexivity|]. rewrite (key_ok_dir _ _ _ Hs). reflexivity.
  - destruct (db_vfile d s (n, v)) as [c|] eqn:E; [|reflexivity].
    destruct (amem f c); [|reflexivity].
    assert (K : key_ok s (n, v) = true) by (destruct N as [N1 _]; apply N1; congruence).
    rewrite forallb_app. apply andb_true_iff. split.
    + apply forallb_flat_map. intro t. apply untag_effects_ok. exact N.
    + destruct (is_nil _); cbn [forallb eff_ok]; rewrite ?K, ?(key_ok_dir _ _ _ K); reflexivity.
  - cbn [forallb eff_ok]. rewrite Hs. reflexivity.
  - apply untag_effects_ok. exact N.
Qed.

Lemma compile_all_ok xs : forall d, names_ok d -> Forall act_safe xs -> forallb eff_ok (compile_all d xs) = true.
Proof.
  induction xs as [|x xs IH]; intros d N H; [reflexivity|]. inversion H as [|? ? Hx Hr]. subst.
  cbn [compile_all]. rewrite forallb_app. apply andb_true_iff. split.
  - apply compile_ok; assumption.
  - apply IH; [|exact Hr]. apply names_ok_apply; [exact N|]. apply compile_ok; assumption.
Qed.

(* ---------------------------------------------------------------- commands *)

Lemma declare_plan_tag_cases a o n v dir table t pl :
  declare_plan a o n v dir table t = Ok pl -> dp_tag pl = t \/ dp_tag pl = Some current.
Proof.
  unfold declare_plan. cbv zeta.
  set (t1 := match t with
             | Some x => Some x
             | None => if findable a n (fallbacks (o_flavor o)) then None else Some current
             end).
  assert (Ht1 : t1 = t \/ t1 = Some current).
  { unfold t1. destruct t; auto. destruct (findable a n (fallbacks (o_flavor o))); auto. }
  clearbody t1.
  repeat match goal with
         | |- context [match ?x with _ => _ end] => destruct x eqn:?; try discriminate
         end; intro H; inversion H; cbn [dp_tag]; auto.
Qed.

Lemma mk_key_ok s n k : seg_ok s = true -> seg_ok n = true -> is_tmp n = false -> seg_ok k = true ->
  key_ok s (n, k) = true.
Proof. intros H1 H2 H3 H4. unfold key_ok, segs_ok. cbn [fst snd]. rewrite H1, H2, H3, H4. reflexivity. Qed.

Lemma seg_ok_current : seg_ok current = true.
Proof. reflexivity. Qed.

Lemma decide_safe p a o acts :
  (forall s, mem_str s (apath a) = true -> seg_ok s = true) ->
  (forall s n v f, a_decl a s n v f <> None -> seg_ok s = true) ->
  op_ok o = true -> decide p a o = Ok acts -> Forall act_safe acts.
Proof.
  intros Hp Hd Hok.
  destruct o as [o n v dir table t|o t n v|o t n vo|o n vo|o n vo t both|o n v];
    unfold op_ok in Hok; cbn [op_name op_version op_tag opt_ok decide] in *.
  - (* Declare *)
    bsplit Hok. assert (Hnt : is_tmp n = false) by (destruct (is_tmp n); [discriminate|reflexivity]).
    unfold declare_acts. destruct (declare_plan a o n v dir table t) as [pl|e] eqn:Ep; [|discriminate].
    destruct (o_noaction o); [intro H; inversion H; constructor|].
    destruct (declare_plan_target _ _ _ _ _ _ _ _ Ep) as [Hm _]. apply Hp in Hm.
    assert (Htag : forall x, dp_tag pl = Some x -> seg_ok x = true).
    { intros x Hx. destruct (declare_plan_tag_cases _ _ _ _ _ _ _ _ Ep) as [E|E]; rewrite E in Hx.
      - subst t. exact Hok0.
      - inversion Hx. apply seg_ok_current. }
    assert (H1 : Forall act_safe (declare_acts1 (o_flavor o) n v pl)).
    { unfold declare_acts1. destruct (dp_write pl); [|constructor]. constructor.
      - cbn. apply mk_key_ok; assumption.
      - destruct (dp_tag pl) as [x|] eqn:Ex; [|constructor]. constructor; [|constructor].
        cbn. apply mk_key_ok; try assumption. apply Htag. reflexivity. }
    intro H. apply declare_finish_shape in H.
    destruct (dp_tag pl) as [x|] eqn:Ex; [|subst acts; exact H1].
    destruct H as [rs [rs' [-> _]]].
    assert (Hdel : forall l, Forall act_safe (map (fun r0 => ADelTag r0 n x (o_flavor o)) l)).
    { intro l. apply Forall_forall. intros y Hy. apply in_map_iff in Hy. destruct Hy as [r0 [<- _]]. exact I. }
    apply Forall_app. split; [exact H1|]. apply Forall_app. split; [apply Hdel|].
    constructor; [|apply Hdel]. cbn.
    apply mk_key_ok; try assumption. apply Htag. reflexivity.
  - (* AssignTag *)
    bsplit Hok. assert (Hnt : is_tmp n = false) by (destruct (is_tmp n); [discriminate|reflexivity]).
    unfold assign_acts. destruct (find_exact a _ n v _) as [[s' r]|] eqn:Ef; [|discriminate].
    intro H. inversion H. constructor; [|constructor]. cbn.
    apply find_exact_some in Ef. destruct Ef as [_ Ef].
    apply mk_key_ok; try assumption. apply (Hd s' n v (o_flavor o)). congruence.
  - intro H. destruct (unassign_acts_shape _ _ _ _ _ _ H) as [->|[s ->]]; repeat constructor.
  - unfold undeclare_acts. destruct (undeclare_target a o n vo) as [[s' v]|]; [|discriminate].
    destruct (o_noaction o); intro H; inversion H; repeat constructor.
  - unfold undeclare_tag_acts. destruct both; cbn [negb].
    + destruct (undeclare_target a o n _) as [[s' v]|]; [|discriminate].
      destruct (o_noaction o); [intro H; inversion H; constructor|].
      intro H. inversion H. destruct (opt_str_eqb _ _); repeat constructor.
    + intro H. destruct (unassign_acts_shape _ _ _ _ _ _ H) as [->|[s ->]]; repeat constructor.
  - unfold remove_acts, undeclare_acts. destruct (find_exact a (apath a) n v _); [|discriminate].
    destruct (undeclare_target a _ n _) as [[s' v']|]; [|discriminate].
    cbn [o_noaction o_flavor]. destruct (o_noaction o); intro H; inversion H; repeat constructor.
Qed.

Lemma effects_ok p d o es : names_ok d -> op_ok o = true -> effects_gen p d o = Ok es -> forallb eff_ok es = true.
Proof.
  intros N Hok. unfold effects_gen. destruct (decide p (view d) o) as [acts|e] eqn:E; [|discriminate].
  intro H. inversion H. subst es. apply compile_all_ok; [exact N|].
  destruct N as [N1 [N2 N3]]. apply (decide_safe p (view d) o acts); try assumption.
  - intros s Hs. apply N3. rewrite apath_view, has_stack_path in Hs. exact Hs.
  - intros s n v f Hn. rewrite a_decl_view in Hn. apply N3.
    destruct (db_decl d s n v f) eqn:E2; [|congruence]. apply (db_decl_has_stack _ _ _ _ _ _ E2).
Qed.
