(* C08, second layer: which declarations and tag assignments are the target of a command.
   Whatever reads the same before and after the completed command reads the same at every crash
   point; for an undeclare the completed command changes the declaration it names and the tags that
   point at that version for that flavor, nothing else - in particular not the entries of other
   flavors in the same chain files, whatever versions they point at. *)
From Eupsv Require Import Base.Base Base.BaseLemmas Model.Db Model.Crash Model.CrashDb
  Proofs.DbLib Proofs.Db Proofs.DbSim Proofs.DbInv Proofs.DbCor Proofs.Crash
  Proofs.CrashDbLib Proofs.CrashDb Proofs.CrashDbAct Proofs.CrashDbOp Proofs.CrashDbMain Proofs.CrashDbWitness.

Lemma crash_unchanged_decl f d o es k d' : crash_point f d o es k d' -> forall s n v fl,
  a_decl (view (apply es d)) s n v fl = a_decl (view d) s n v fl ->
  a_decl (view d') s n v fl = a_decl (view d) s n v fl.
Proof.
  intros C s n v fl E. destruct (crash_old_or_new _ _ _ _ _ _ C) as [S1 _].
  destruct (S1 s n v fl) as [H|H]; rewrite H; [reflexivity|exact E].
Qed.

Lemma crash_unchanged_tag f d o es k d' : crash_point f d o es k d' -> forall s n t fl,
  a_tag (view (apply es d)) s n t fl = a_tag (view d) s n t fl ->
  a_tag (view d') s n t fl = a_tag (view d) s n t fl.
Proof.
  intros C s n t fl E. destruct (crash_old_or_new _ _ _ _ _ _ C) as [_ S2].
  destruct (S2 s n t fl) as [H|H]; rewrite H; [reflexivity|exact E].
Qed.

(* the completed undeclare, as one action on the view *)
Lemma undeclare_completed d o n vo es s0 v0 :
  effects d (Undeclare o n vo) = Ok es -> undeclare_target (view d) o n vo = Ok (s0, v0) ->
  aeq (view (apply es d)) (if o_noaction o then view d else aapply (ADelDecl s0 n v0 (o_flavor o)) (view d)).
Proof.
  unfold effects, effects_gen. cbn [decide]. unfold undeclare_acts. intros He Ht. rewrite Ht in He.
  destruct (o_noaction o); inversion He; subst es.
  - apply (completed_view d []).
  - apply (completed_view d [ADelDecl s0 n v0 (o_flavor o)]).
Qed.

Lemma crash_undeclare_frame_gen f d o n vo es k d' s0 v0 :
  crash_point f d (Undeclare o n vo) es k d' -> undeclare_target (view d) o n vo = Ok (s0, v0) ->
  (forall s n' x fl, (s, n', x, fl) <> (s0, n, v0, o_flavor o) ->
     a_decl (view d') s n' x fl = a_decl (view d) s n' x fl) /\
  (forall s n' t fl, (s, n', fl) <> (s0, n, o_flavor o) \/ a_tag (view d) s n' t fl <> Some v0 ->
     a_tag (view d') s n' t fl = a_tag (view d) s n' t fl).
Proof.
  intros C Ht. pose proof (undeclare_completed d o n vo es s0 v0 (cp_eff _ _ _ _ _ _ C) Ht) as [_ [A1 A2]].
  split.
  - intros s n' x fl N. apply (crash_unchanged_decl _ _ _ _ _ _ C). rewrite A1.
    destruct (o_noaction o); [reflexivity|]. rewrite a_decl_aapply.
    destruct (dkey_eqb (s, n', x, fl) (s0, n, v0, o_flavor o)) eqn:E; [|rewrite andb_false_r; reflexivity].
    apply dkey_eqb_true_inv in E. destruct E as [? [? [? ?]]]. subst. congruence.
  - intros s n' t fl N. apply (crash_unchanged_tag _ _ _ _ _ _ C). rewrite A2.
    destruct (o_noaction o); [reflexivity|]. rewrite a_tag_aapply.
    destruct (tag_points (view d) s0 n (o_flavor o) v0 (s, n', t, fl)) eqn:E; [|rewrite andb_false_r; reflexivity].
    apply tag_points_true_inv in E. destruct E as [? [? [? E]]]. subst. destruct N as [N|N]; congruence.
Qed.

(* ---------------------------------------------------------------- witness: one chain file, two flavors, two versions *)

(* declare a 1 -t current (Linux64); declare a 1 -t stable ; declare a 2 -t current (Darwin) ; a 2 -t stable (Darwin) *)
Definition x_hist : list op :=
  [Declare (w_o w_L) (lit "a") (lit "1") (Some (lit "/p/a/1")) None (Some (lit "current"));
   Declare (w_o w_L) (lit "a") (lit "1") None None (Some (lit "stable"));
   Declare (w_o w_D) (lit "a") (lit "2") (Some (lit "/q/a/2")) None (Some (lit "current"));
   Declare (w_o w_D) (lit "a") (lit "2") None None (Some (lit "stable"))].
Definition x_d : db := run false (empty_db w_path) x_hist.
Definition x_f : fs := store_of w_path x_hist.
Definition x_undeclare : op := Undeclare (w_o w_L) (lit "a") (Some (lit "1")).

Lemma x_represents : represents x_f x_d.
Proof. apply reachable_is_represented; reflexivity. Qed.
