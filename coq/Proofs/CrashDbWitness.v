(* C08, second layer: reachable databases are represented (non-vacuity of the hypotheses), and
   the concrete states used by the witnesses in Props/C08.v. *)
From Eupsv Require Import Base.Base Base.BaseLemmas Model.Db Model.Crash Model.CrashDb
  Proofs.DbLib Proofs.Db Proofs.DbSim Proofs.DbInv Proofs.DbCor Proofs.Crash
  Proofs.CrashDbLib Proofs.CrashDb Proofs.CrashDbAct Proofs.CrashDbOp Proofs.CrashDbMain.

Lemma apply_effects_app f a b : apply_effects f (a ++ b) = apply_effects (apply_effects f a) b.
Proof. unfold apply_effects. apply fold_left_app. Qed.

Lemma represents_run ops : forall f d, represents f d -> forallb op_ok ops = true ->
  represents (apply_effects f (images (run_effects d ops))) (run false d ops).
Proof.
  induction ops as [|o r IH]; intros f d R H; [exact R|].
  cbn [forallb] in H. apply andb_true_iff in H. destruct H as [H1 H2].
  cbn [run_effects]. unfold images. rewrite map_app. fold (images (op_effects d o)).
  fold (images (run_effects (step_total false d o) r)). rewrite apply_effects_app.
  change (run false d (o :: r)) with (run false (step_total false d o) r).
  apply IH; [|exact H2].
  unfold op_effects, step_total, step_gen. fold (effects d o).
  destruct (effects d o) as [es|e] eqn:E; [|exact R].
  apply represents_apply; [exact R|]. apply (effects_ok false d o es (represents_names_ok _ _ R) H1 E).
Qed.

(* every database reached from the empty one by commands with path-safe names is held by the
   store that the images of their file effects build *)
Lemma reachable_is_represented path ops : forallb seg_ok path = true -> forallb op_ok ops = true ->
  represents (store_of path ops) (run false (empty_db path) ops).
Proof. intros H1 H2. apply represents_run; [apply represents_empty; exact H1|exact H2]. Qed.

(* ---------------------------------------------------------------- the witness state *)

Definition w_L : str := lit "Linux64".
Definition w_D : str := lit "Darwin".
Definition w_path : list str := [lit "stack"].
Definition w_o (fl : str) : opts := mkOpts fl None false false.

(* declare a 1 -t current ; declare a 2   (flavor Linux64) *)
Definition w_hist : list op :=
  [Declare (w_o w_L) (lit "a") (lit "1") (Some (lit "/p/a/1")) None (Some (lit "current"));
   Declare (w_o w_L) (lit "a") (lit "2") (Some (lit "/p/a/2")) None None].

Definition w_d : db := run false (empty_db w_path) w_hist.
Definition w_f : fs := store_of w_path w_hist.

Lemma w_represents : represents w_f w_d.
Proof. apply reachable_is_represented; reflexivity. Qed.

Lemma w_no_dangling : no_dangling (view w_d).
Proof. apply run_no_dangling. apply no_dangling_empty. Qed.

(* the tag move: declare a 2 -t current *)
Definition w_move : op := Declare (w_o w_L) (lit "a") (lit "2") None None (Some (lit "current")).
(* a second flavor joins the version file of a 1 *)
Definition w_join : op := Declare (w_o w_D) (lit "a") (lit "1") (Some (lit "/q/a/1")) None None.
(* undeclare the tagged version a 1 *)
Definition w_undeclare : op := Undeclare (w_o w_L) (lit "a") (Some (lit "1")).
