(* C08 - the atomic-write helper across a file-system boundary (Model/CrashXdev.v). *)
From Eupsv Require Import Base.Base Base.BaseLemmas Model.Crash Model.CrashXdev Proofs.Crash.
From Coq Require Import Lia.

(* beside the target the helper is the write-temporary-then-rename protocol of the record writers *)
Lemma lower_same_fs e : lower_atomic_at SameFs e = lower_atomic e.
Proof.
  destruct e as [p c|p|p|p]; reflexivity.
Qed.

Lemma lower_all_same_fs l : lower_all (lower_atomic_at SameFs) l = lower_all lower_atomic l.
Proof. unfold lower_all. induction l as [|e l IH]; [reflexivity|]. cbn [flat_map]. now rewrite lower_same_fs, IH. Qed.

Lemma crash_state_same_fs f l k : crash_state (lower_atomic_at SameFs) f l k = crash_state lower_atomic f l k.
Proof. unfold crash_state. now rewrite lower_all_same_fs. Qed.

(* one whole-content write through the helper, temporary beside the target: old or new at every crash point *)
Lemma same_fs_old_or_new f p c k : clean f -> is_tmp p = false ->
  alookup p (crash_state (lower_atomic_at SameFs) f [EWrite p c] k) = alookup p f \/
  alookup p (crash_state (lower_atomic_at SameFs) f [EWrite p c] k) = Some (File c).
Proof.
  intros Hc Hp. rewrite crash_state_same_fs.
  assert (Hw : Forall wf_effect [EWrite p c]) by (constructor; [exact Hp|constructor]).
  destruct (crash_is_effect_prefix_gen [EWrite p c] f k Hc Hw) as [j [Hj H]].
  rewrite (H p Hp). cbn [length] in Hj.
  destruct j as [|[|j]]; [left; reflexivity| |lia].
  right. cbn [firstn]. unfold apply_effects. cbn [fold_left apply_effect]. apply alookup_aset_same.
Qed.

Lemma same_fs_others_untouched f p c k q : clean f -> is_tmp p = false -> is_tmp q = false -> q <> p ->
  alookup q (crash_state (lower_atomic_at SameFs) f [EWrite p c] k) = alookup q f.
Proof.
  intros Hc Hp Hq N. rewrite crash_state_same_fs.
  assert (Hw : Forall wf_effect [EWrite p c]) by (constructor; [exact Hp|constructor]).
  destruct (crash_is_effect_prefix_gen [EWrite p c] f k Hc Hw) as [j [Hj H]].
  rewrite (H q Hq). destruct j as [|[|j]]; [reflexivity| |cbn [length] in Hj; lia].
  cbn [firstn]. unfold apply_effects. cbn [fold_left apply_effect]. now apply alookup_aset_other.
Qed.

(* across the boundary: after the temporary is complete and the target has been opened for the copy the
   target is empty, whatever it held *)
Lemma firstn_snoc_exact {A} (a : list A) x b : firstn (S (length a)) (a ++ x :: b) = a ++ [x].
Proof. induction a as [|y a IH]; [reflexivity|]. cbn [length app]. rewrite firstn_cons. now rewrite IH. Qed.

Lemma other_fs_truncates f p c :
  alookup p (crash_state (lower_atomic_at OtherFs) f [EWrite p c] (length c + 3)) = Some (File []).
Proof.
  unfold crash_state, lower_all. cbn [flat_map]. rewrite app_nil_r. cbn [lower_atomic_at install].
  set (t := tmp_of p). set (post := map (SAppend p) c ++ [SClose p; SUnlink t]).
  set (pre := SOpenTrunc t :: map (SAppend t) c ++ [SClose t]).
  assert (E : SOpenTrunc t :: map (SAppend t) c ++ SClose t :: SOpenTrunc p :: post = pre ++ SOpenTrunc p :: post).
  { unfold pre. cbn [app]. f_equal. rewrite <- app_assoc. reflexivity. }
  rewrite E.
  assert (L : length c + 3 = S (length pre)).
  { unfold pre. cbn [length]. rewrite app_length, map_length. cbn [length]. lia. }
  rewrite L, firstn_snoc_exact, run_all_app. cbn [run_all fold_left run_sys]. apply alookup_aset_same.
Qed.

(* and a loader of that state raises; completed, the copy gives the new content *)
Lemma other_fs_loader_raises f p c :
  load_cache (alookup p (crash_state (lower_atomic_at OtherFs) f [EWrite p c] (length c + 3))) = Err Crash.
Proof. rewrite other_fs_truncates. reflexivity. Qed.

(* what a trace shows on the target name: beside the target exactly one rename; across the boundary a
   truncating open, the copy and a close *)
Lemma filter_tmp_appends t c : is_tmp t = true ->
  filter (fun x : path * sys_kind => negb (is_tmp (fst x))) (map sys_target (map (SAppend t) c)) = [].
Proof. intro H. induction c as [|l c IH]; [reflexivity|]. cbn [map sys_target filter fst]. rewrite H. exact IH. Qed.

Lemma filter_target_appends p c : is_tmp p = false ->
  map snd (filter (fun x : path * sys_kind => negb (is_tmp (fst x))) (map sys_target (map (SAppend p) c)))
  = map (fun _ => KWrite) c.
Proof. intro H. induction c as [|l c IH]; [reflexivity|]. cbn [map sys_target filter fst]. rewrite H. cbn [negb map snd]. now rewrite IH. Qed.

Lemma target_kinds_same_fs p c : is_tmp p = false -> target_kinds SameFs (EWrite p c) = [KRename].
Proof.
  intro Hp. unfold target_kinds. cbn [lower_atomic_at install]. pose proof (is_tmp_tmp_of p) as Ht.
  cbn [map sys_target filter fst]. rewrite Ht. cbn [negb]. rewrite map_app, filter_app, filter_tmp_appends by exact Ht.
  cbn [map sys_target filter fst app]. rewrite Ht, Hp. reflexivity.
Qed.

Lemma target_kinds_other_fs p c : is_tmp p = false ->
  target_kinds OtherFs (EWrite p c) = KOpen :: map (fun _ => KWrite) c ++ [KClose].
Proof.
  intro Hp. unfold target_kinds. cbn [lower_atomic_at install]. pose proof (is_tmp_tmp_of p) as Ht.
  cbn [map sys_target filter fst]. rewrite Ht. cbn [negb]. rewrite map_app, filter_app, filter_tmp_appends by exact Ht.
  cbn [map sys_target filter fst app]. rewrite Ht, Hp. cbn [negb map snd]. f_equal.
  rewrite map_app, filter_app, map_app, filter_target_appends by exact Hp.
  cbn [map sys_target filter fst]. rewrite Hp, Ht. reflexivity.
Qed.
