(* Lemmas about Model/Db.v: what the primitive effects do to record lookups, the view
   agrees with the records, every record-level action refines its one-line abstract
   transition, hence every command and every history does. *)
From Eupsv Require Import Base.Base Base.BaseLemmas Model.Db Proofs.DbLib.

Local Notation klookup := (glookup key_eqb).
Local Notation dlookup := (glookup dkey_eqb).

Definition has_stack (d : db) (s : str) : bool := is_some (alookup s d).

(* ---------------------------------------------------------------- apply1 on lookups *)

Lemma alookup_apply1 e d s :
  alookup s (apply1 e d) =
  match alookup s d with
  | Some st => Some (if str_eqb s (eff_stack e) then apply_stack e st else st)
  | None => None
  end.
Proof.
  unfold apply1. induction d as [|[s' st] d IH]; cbn; [reflexivity|].
  destruct (str_eqb s' (eff_stack e)) eqn:E1; cbn.
  - destruct (str_eqb s s') eqn:E2; [|exact IH].
    apply str_eqb_eq in E2. subst s'. rewrite E1. reflexivity.
  - destruct (str_eqb s s') eqn:E2; [|exact IH].
    apply str_eqb_eq in E2. subst s'. rewrite E1. reflexivity.
Qed.

Lemma path_apply1 e d : map fst (apply1 e d) = map fst d.
Proof.
  unfold apply1. induction d as [|[s st] d IH]; cbn; [reflexivity|].
  destruct (str_eqb s (eff_stack e)); cbn; rewrite IH; reflexivity.
Qed.

Lemma path_apply es d : map fst (apply es d) = map fst d.
Proof.
  unfold apply. revert d. induction es as [|e es IH]; intro d; cbn; [reflexivity|].
  rewrite IH. apply path_apply1.
Qed.

Lemma has_stack_apply1 e d s : has_stack (apply1 e d) s = has_stack d s.
Proof. unfold has_stack. rewrite alookup_apply1. destruct (alookup s d); reflexivity. Qed.

Lemma has_stack_path d s : mem_str s (map fst d) = has_stack d s.
Proof.
  unfold has_stack. induction d as [|[s' st] d IH]; cbn; [reflexivity|].
  destruct (str_eqb s s'); [reflexivity|exact IH].
Qed.

Lemma apply_app es1 es2 d : apply (es1 ++ es2) d = apply es2 (apply es1 d).
Proof. unfold apply. apply fold_left_app. Qed.

Lemma apply_cons e es d : apply (e :: es) d = apply es (apply1 e d).
Proof. reflexivity. Qed.

Lemma db_vfile_apply1 e d s k :
  db_vfile (apply1 e d) s k =
  match e with
  | WriteV s' k' c => if str_eqb s s' && key_eqb k k' then (if has_stack d s then Some c else None) else db_vfile d s k
  | RemoveV s' k' => if str_eqb s s' && key_eqb k k' then None else db_vfile d s k
  | _ => db_vfile d s k
  end.
Proof.
  unfold db_vfile, has_stack. rewrite alookup_apply1.
  destruct (alookup s d) as [st|] eqn:Es.
  - destruct e as [s' n'|s' n'|s' k' c|s' k'|s' k' c|s' k']; cbn [eff_stack apply_stack is_some];
      destruct (str_eqb s s') eqn:E; cbn [andb]; try reflexivity.
    + destruct (mem_str n' (dirs st)); reflexivity.
    + destruct (has_files n' st); reflexivity.
    + cbn [vfiles]. rewrite (glookup_gset key_eqb key_eqb_eq). destruct (key_eqb k k'); reflexivity.
    + cbn [vfiles]. rewrite (glookup_gremove key_eqb key_eqb_eq). destruct (key_eqb k k'); reflexivity.
  - destruct e as [s' n'|s' n'|s' k' c|s' k'|s' k' c|s' k']; cbn [is_some]; try reflexivity;
      destruct (str_eqb s s' && key_eqb k k'); reflexivity.
Qed.

Lemma db_cfile_apply1 e d s k :
  db_cfile (apply1 e d) s k =
  match e with
  | WriteC s' k' c => if str_eqb s s' && key_eqb k k' then (if has_stack d s then Some c else None) else db_cfile d s k
  | RemoveC s' k' => if str_eqb s s' && key_eqb k k' then None else db_cfile d s k
  | _ => db_cfile d s k
  end.
Proof.
  unfold db_cfile, has_stack. rewrite alookup_apply1.
  destruct (alookup s d) as [st|] eqn:Es.
  - destruct e as [s' n'|s' n'|s' k' c|s' k'|s' k' c|s' k']; cbn [eff_stack apply_stack is_some];
      destruct (str_eqb s s') eqn:E; cbn [andb]; try reflexivity.
    + destruct (mem_str n' (dirs st)); reflexivity.
    + destruct (has_files n' st); reflexivity.
    + cbn [cfiles]. rewrite (glookup_gset key_eqb key_eqb_eq). destruct (key_eqb k k'); reflexivity.
    + cbn [cfiles]. rewrite (glookup_gremove key_eqb key_eqb_eq). destruct (key_eqb k k'); reflexivity.
  - destruct e as [s' n'|s' n'|s' k' c|s' k'|s' k' c|s' k']; cbn [is_some]; try reflexivity;
      destruct (str_eqb s s' && key_eqb k k'); reflexivity.
Qed.

(* effects that do not write version files leave declarations alone, and vice versa *)
Definition is_v_effect (e : fseffect) : bool :=
  match e with WriteV _ _ _ | RemoveV _ _ => true | _ => false end.
Definition is_c_effect (e : fseffect) : bool :=
  match e with WriteC _ _ _ | RemoveC _ _ => true | _ => false end.

Lemma db_decl_apply1_other e d s n v f : is_v_effect e = false -> db_decl (apply1 e d) s n v f = db_decl d s n v f.
Proof. intro H. unfold db_decl. rewrite db_vfile_apply1. destruct e; cbn in H; try discriminate; reflexivity. Qed.

Lemma db_tag_apply1_other e d s n t f : is_c_effect e = false -> db_tag (apply1 e d) s n t f = db_tag d s n t f.
Proof. intro H. unfold db_tag. rewrite db_cfile_apply1. destruct e; cbn in H; try discriminate; reflexivity. Qed.

Lemma db_decl_apply_other es d s n v f :
  forallb (fun e => negb (is_v_effect e)) es = true -> db_decl (apply es d) s n v f = db_decl d s n v f.
Proof.
  revert d. induction es as [|e es IH]; intros d H; [reflexivity|].
  cbn in H. apply andb_true_iff in H. destruct H as [H1 H2].
  rewrite apply_cons, IH by exact H2. apply db_decl_apply1_other. destruct (is_v_effect e); [discriminate|reflexivity].
Qed.

Lemma db_tag_apply_other es d s n t f :
  forallb (fun e => negb (is_c_effect e)) es = true -> db_tag (apply es d) s n t f = db_tag d s n t f.
Proof.
  revert d. induction es as [|e es IH]; intros d H; [reflexivity|].
  cbn in H. apply andb_true_iff in H. destruct H as [H1 H2].
  rewrite apply_cons, IH by exact H2. apply db_tag_apply1_other. destruct (is_c_effect e); [discriminate|reflexivity].
Qed.

(* writing a file with the given content, or removing it when the content is empty: the same for every lookup *)
Lemma db_tag_write_or_remove d s' k' c s n t f :
  db_tag (apply1 (write_or_remove_c s' k' c) d) s n t f =
  if str_eqb s s' && key_eqb (n, t) k' then (if has_stack d s then alookup f c else None) else db_tag d s n t f.
Proof.
  unfold db_tag, write_or_remove_c. destruct (is_nil c) eqn:En.
  - apply is_nil_true in En. subst c. rewrite db_cfile_apply1.
    destruct (str_eqb s s' && key_eqb (n, t) k'); [|reflexivity]. destruct (has_stack d s); reflexivity.
  - rewrite db_cfile_apply1. destruct (str_eqb s s' && key_eqb (n, t) k'); [|reflexivity].
    destruct (has_stack d s); reflexivity.
Qed.

Lemma db_decl_write_or_remove d s' k' c s n v f :
  db_decl (apply1 (write_or_remove_v s' k' c) d) s n v f =
  if str_eqb s s' && key_eqb (n, v) k' then (if has_stack d s then alookup f c else None) else db_decl d s n v f.
Proof.
  unfold db_decl, write_or_remove_v. destruct (is_nil c) eqn:En.
  - apply is_nil_true in En. subst c. rewrite db_vfile_apply1.
    destruct (str_eqb s s' && key_eqb (n, v) k'); [|reflexivity]. destruct (has_stack d s); reflexivity.
  - rewrite db_vfile_apply1. destruct (str_eqb s s' && key_eqb (n, v) k'); [|reflexivity].
    destruct (has_stack d s); reflexivity.
Qed.

Lemma db_decl_has_stack d s n v f r : db_decl d s n v f = Some r -> has_stack d s = true.
Proof. unfold db_decl, db_vfile, has_stack. destruct (alookup s d); [reflexivity|discriminate]. Qed.

Lemma db_tag_has_stack d s n t f v : db_tag d s n t f = Some v -> has_stack d s = true.
Proof. unfold db_tag, db_cfile, has_stack. destruct (alookup s d); [reflexivity|discriminate]. Qed.

Lemma db_decl_no_stack d s n v f : has_stack d s = false -> db_decl d s n v f = None.
Proof. unfold db_decl, db_vfile, has_stack. destruct (alookup s d); [discriminate|reflexivity]. Qed.

Lemma db_tag_no_stack d s n t f : has_stack d s = false -> db_tag d s n t f = None.
Proof. unfold db_tag, db_cfile, has_stack. destruct (alookup s d); [discriminate|reflexivity]. Qed.

(* ---------------------------------------------------------------- the view agrees with the records *)

Lemma view_decls_sound d k r : In (k, r) (view_decls d) ->
  let '(s, n, v, f) := k in db_decl d s n v f = Some r.
Proof.
  unfold view_decls. intro H.
  apply in_flat_map in H. destruct H as [[s st] [_ H]].
  apply in_flat_map in H. destruct H as [[[n v] c] [_ H]].
  apply in_flat_map in H. destruct H as [[f r0] [_ H]]. cbn [fst snd] in H.
  destruct (db_decl d s n v f) eqn:E; [|contradiction].
  destruct H as [H|[]]. inversion H. subst. exact E.
Qed.

Lemma view_decls_complete d s n v f r : db_decl d s n v f = Some r -> In ((s, n, v, f), r) (view_decls d).
Proof.
  intro H. pose proof H as H0. unfold db_decl, db_vfile in H.
  destruct (alookup s d) as [st|] eqn:Es; [|discriminate].
  destruct (klookup (n, v) (vfiles st)) as [c|] eqn:Ek; [|discriminate].
  apply alookup_In in Es. apply (glookup_In key_eqb key_eqb_eq) in Ek. apply alookup_In in H.
  unfold view_decls. apply in_flat_map. exists (s, st). split; [exact Es|].
  apply in_flat_map. exists ((n, v), c). split; [exact Ek|].
  apply in_flat_map. exists (f, r). split; [exact H|]. cbn [fst snd]. rewrite H0. left. reflexivity.
Qed.

Lemma a_decl_view d s n v f : a_decl (view d) s n v f = db_decl d s n v f.
Proof.
  unfold a_decl. cbn [view adecls].
  rewrite (glookup_functional dkey_eqb dkey_eqb_eq
             (fun k : dkey => let '(s, n, v, f) := k in db_decl d s n v f)).
  - destruct (existsb _ (view_decls d)) eqn:E; [reflexivity|].
    destruct (db_decl d s n v f) as [r|] eqn:Ed; [|reflexivity].
    apply view_decls_complete in Ed.
    rewrite existsb_false_forall in E. specialize (E _ Ed). cbn [fst] in E.
    rewrite dkey_eqb_refl in E. discriminate.
  - intros k' r H. apply view_decls_sound in H. destruct k' as [[[s' n'] v'] f']. exact H.
Qed.

Lemma view_tags_sound d k v : In (k, v) (view_tags d) ->
  let '(s, n, t, f) := k in db_tag d s n t f = Some v.
Proof.
  unfold view_tags. intro H.
  apply in_flat_map in H. destruct H as [[s st] [_ H]].
  apply in_flat_map in H. destruct H as [[[n t] c] [_ H]].
  apply in_flat_map in H. destruct H as [[f v0] [_ H]]. cbn [fst snd] in H.
  destruct (db_tag d s n t f) eqn:E; [|contradiction].
  destruct H as [H|[]]. inversion H. subst. exact E.
Qed.

Lemma view_tags_complete d s n t f v : db_tag d s n t f = Some v -> In ((s, n, t, f), v) (view_tags d).
Proof.
  intro H. pose proof H as H0. unfold db_tag, db_cfile in H.
  destruct (alookup s d) as [st|] eqn:Es; [|discriminate].
  destruct (klookup (n, t) (cfiles st)) as [c|] eqn:Ek; [|discriminate].
  apply alookup_In in Es. apply (glookup_In key_eqb key_eqb_eq) in Ek. apply alookup_In in H.
  unfold view_tags. apply in_flat_map. exists (s, st). split; [exact Es|].
  apply in_flat_map. exists ((n, t), c). split; [exact Ek|].
  apply in_flat_map. exists (f, v). split; [exact H|]. cbn [fst snd]. rewrite H0. left. reflexivity.
Qed.

Lemma a_tag_view d s n t f : a_tag (view d) s n t f = db_tag d s n t f.
Proof.
  unfold a_tag. cbn [view atags].
  rewrite (glookup_functional dkey_eqb dkey_eqb_eq
             (fun k : dkey => let '(s, n, t, f) := k in db_tag d s n t f)).
  - destruct (existsb _ (view_tags d)) eqn:E; [reflexivity|].
    destruct (db_tag d s n t f) as [v|] eqn:Ed; [|reflexivity].
    apply view_tags_complete in Ed.
    rewrite existsb_false_forall in E. specialize (E _ Ed). cbn [fst] in E.
    rewrite dkey_eqb_refl in E. discriminate.
  - intros k' v H. apply view_tags_sound in H. destruct k' as [[[s' n'] t'] f']. exact H.
Qed.

Lemma apath_view d : apath (view d) = map fst d.
Proof. reflexivity. Qed.

(* ---------------------------------------------------------------- equivalence of views *)

Definition aeq (a b : adb) : Prop :=
  apath a = apath b /\
  (forall s n v f, a_decl a s n v f = a_decl b s n v f) /\
  (forall s n t f, a_tag a s n t f = a_tag b s n t f).

Lemma aeq_refl a : aeq a a.
Proof. repeat split. Qed.

Lemma aeq_sym a b : aeq a b -> aeq b a.
Proof. intros [H1 [H2 H3]]. repeat split; intros; symmetry; auto. Qed.

Lemma aeq_trans a b c : aeq a b -> aeq b c -> aeq a c.
Proof.
  intros [H1 [H2 H3]] [K1 [K2 K3]]. repeat split; intros.
  - congruence.
  - rewrite H2. apply K2.
  - rewrite H3. apply K3.
Qed.

(* ---------------------------------------------------------------- the abstract transitions on lookups *)

Lemma apath_aapply x a : apath (aapply x a) = apath a.
Proof.
  destruct x; cbn.
  - destruct (mem_str s (apath a)); reflexivity.
  - destruct (is_some (a_decl a s n v f)); reflexivity.
  - destruct (mem_str s (apath a)); reflexivity.
  - reflexivity.
Qed.

Lemma apath_aapply_all xs a : apath (aapply_all xs a) = apath a.
Proof.
  unfold aapply_all. revert a. induction xs as [|x xs IH]; intro a; cbn; [reflexivity|].
  rewrite IH. apply apath_aapply.
Qed.

Lemma a_decl_aapply x a s n v f :
  a_decl (aapply x a) s n v f =
  match x with
  | ASetDecl s' n' v' f' r =>
      if mem_str s' (apath a) && dkey_eqb (s, n, v, f) (s', n', v', f') then Some r else a_decl a s n v f
  | ADelDecl s' n' v' f' =>
      if is_some (a_decl a s' n' v' f') && dkey_eqb (s, n, v, f) (s', n', v', f') then None else a_decl a s n v f
  | _ => a_decl a s n v f
  end.
Proof.
  destruct x as [s' n' v' f' r|s' n' v' f'|s' n' t' f' v'|s' n' t' f']; cbn [aapply]; try reflexivity.
  - destruct (mem_str s' (apath a)); cbn [andb]; [|reflexivity].
    unfold a_decl. cbn [adecls]. apply (glookup_gset dkey_eqb dkey_eqb_eq).
  - destruct (is_some (a_decl a s' n' v' f')); cbn [andb]; [|reflexivity].
    unfold a_decl. cbn [adecls]. apply (glookup_gremove dkey_eqb dkey_eqb_eq).
  - destruct (mem_str s' (apath a)); reflexivity.
Qed.

Lemma a_tag_aapply x a s n t f :
  a_tag (aapply x a) s n t f =
  match x with
  | ASetTag s' n' t' f' v' =>
      if mem_str s' (apath a) && dkey_eqb (s, n, t, f) (s', n', t', f') then Some v' else a_tag a s n t f
  | ADelTag s' n' t' f' => if dkey_eqb (s, n, t, f) (s', n', t', f') then None else a_tag a s n t f
  | ADelDecl s' n' v' f' =>
      if is_some (a_decl a s' n' v' f') && tag_points a s' n' f' v' (s, n, t, f) then None else a_tag a s n t f
  | ASetDecl _ _ _ _ _ => a_tag a s n t f
  end.
Proof.
  destruct x as [s' n' v' f' r|s' n' v' f'|s' n' t' f' v'|s' n' t' f']; cbn [aapply].
  - destruct (mem_str s' (apath a)); reflexivity.
  - destruct (is_some (a_decl a s' n' v' f')); cbn [andb]; [|reflexivity].
    unfold a_tag at 1. cbn [atags]. rewrite (glookup_gfilterk dkey_eqb dkey_eqb_eq).
    destruct (tag_points a s' n' f' v' (s, n, t, f)); reflexivity.
  - destruct (mem_str s' (apath a)); cbn [andb]; [|reflexivity].
    unfold a_tag. cbn [atags]. apply (glookup_gset dkey_eqb dkey_eqb_eq).
  - unfold a_tag. cbn [atags]. apply (glookup_gremove dkey_eqb dkey_eqb_eq).
Qed.

Lemma tag_points_aeq a b s n f v k : aeq a b -> tag_points a s n f v k = tag_points b s n f v k.
Proof.
  intros [_ [_ H3]]. destruct k as [[[s' n'] t'] f']. unfold tag_points. rewrite H3. reflexivity.
Qed.

Lemma aapply_aeq x a b : aeq a b -> aeq (aapply x a) (aapply x b).
Proof.
  intro H. pose proof H as [H1 [H2 H3]]. repeat split; intros.
  - rewrite !apath_aapply. exact H1.
  - rewrite !a_decl_aapply. destruct x; rewrite ?H1, ?H2; reflexivity.
  - rewrite !a_tag_aapply. destruct x; rewrite ?H1, ?H2, ?H3; try reflexivity.
    rewrite (tag_points_aeq a b _ _ _ _ _ H). reflexivity.
Qed.

Lemma aapply_all_aeq xs a b : aeq a b -> aeq (aapply_all xs a) (aapply_all xs b).
Proof.
  unfold aapply_all. revert a b. induction xs as [|x xs IH]; intros a b H; cbn; [exact H|].
  apply IH. apply aapply_aeq. exact H.
Qed.

Lemma aapply_all_app xs ys a : aapply_all (xs ++ ys) a = aapply_all ys (aapply_all xs a).
Proof. unfold aapply_all. apply fold_left_app. Qed.

Lemma aapply_all_cons x xs a : aapply_all (x :: xs) a = aapply_all xs (aapply x a).
Proof. reflexivity. Qed.

(* ---------------------------------------------------------------- one action: files vs abstract transition *)

Lemma db_tag_untag_effects d0 d s' n' t' f' s n t f :
  db_cfile d0 s' (n', t') = db_cfile d s' (n', t') -> has_stack d0 s' = has_stack d s' ->
  db_tag (apply (untag_effects d s' n' t' f') d0) s n t f =
  if dkey_eqb (s, n, t, f) (s', n', t', f') then None else db_tag d0 s n t f.
Proof.
  intros Hc Hs. unfold untag_effects.
  destruct (db_cfile d s' (n', t')) as [c|] eqn:Ec.
  - destruct (amem f' c) eqn:Em.
    + cbn [apply fold_left]. rewrite db_tag_write_or_remove. unfold dkey_eqb, key_eqb. cbn [fst snd].
      destruct (str_eqb s s') eqn:E1; cbn [andb]; [|reflexivity].
      destruct (str_eqb n n') eqn:E2; cbn [andb]; [|reflexivity].
      destruct (str_eqb t t') eqn:E3; cbn [andb]; [|reflexivity].
      apply str_eqb_eq in E1, E2, E3. subst s' n' t'.
      assert (Hst : has_stack d0 s = true).
      { unfold db_cfile, has_stack in *. destruct (alookup s d0); [reflexivity|discriminate]. }
      rewrite Hst, alookup_aremove. destruct (str_eqb f f') eqn:E4; [reflexivity|].
      unfold db_tag. rewrite Hc. reflexivity.
    + cbn [apply fold_left]. destruct (dkey_eqb (s, n, t, f) (s', n', t', f')) eqn:E; [|reflexivity].
      apply dkey_eqb_eq in E. inversion E. subst.
      unfold db_tag. rewrite Hc. unfold amem in Em. destruct (alookup f' c); [discriminate|reflexivity].
  - cbn [apply fold_left]. destruct (dkey_eqb (s, n, t, f) (s', n', t', f')) eqn:E; [|reflexivity].
    apply dkey_eqb_eq in E. inversion E. subst. unfold db_tag. rewrite Hc. reflexivity.
Qed.

Lemma untag_effects_c d s n t f : forallb (fun e => negb (is_v_effect e)) (untag_effects d s n t f) = true.
Proof.
  unfold untag_effects. destruct (db_cfile d s (n, t)); [|reflexivity].
  destruct (amem f c); [|reflexivity]. unfold write_or_remove_c. destruct (is_nil _); reflexivity.
Qed.

Lemma untag_effects_keeps_other d0 d s' n' t' f' k :
  k <> (n', t') -> db_cfile (apply (untag_effects d s' n' t' f') d0) s' k = db_cfile d0 s' k.
Proof.
  intro N. unfold untag_effects. destruct (db_cfile d s' (n', t')); [|reflexivity].
  destruct (amem f' c); [|reflexivity]. cbn [apply fold_left].
  unfold write_or_remove_c. destruct (is_nil _); rewrite db_cfile_apply1;
    rewrite (geqb_neq key_eqb key_eqb_eq k (n', t') N), andb_false_r; reflexivity.
Qed.

Lemma has_stack_apply es d s : has_stack (apply es d) s = has_stack d s.
Proof.
  revert d. induction es as [|e es IH]; intro d; [reflexivity|].
  rewrite apply_cons, IH. apply has_stack_apply1.
Qed.

(* removing the entry of flavor f from every listed chain file of product n, each
   effect computed on the snapshot d *)
Lemma db_tag_untag_list d s' n' f' ts : NoDup ts -> forall d0,
  (forall t, In t ts -> db_cfile d0 s' (n', t) = db_cfile d s' (n', t)) ->
  has_stack d0 s' = has_stack d s' ->
  forall s n t f,
  db_tag (apply (flat_map (fun t => untag_effects d s' n' t f') ts) d0) s n t f =
  if str_eqb s s' && str_eqb n n' && str_eqb f f' && mem_str t ts then None else db_tag d0 s n t f.
Proof.
  induction 1 as [|t1 ts Hnin Hnd IH]; intros d0 Hc Hs s n t f.
  - cbn. rewrite andb_false_r. reflexivity.
  - cbn [flat_map]. rewrite apply_app. rewrite IH.
    + cbn [mem_str].
      rewrite db_tag_untag_effects by (auto using in_eq).
      destruct (dkey_eqb (s, n, t, f) (s', n', t1, f')) eqn:E2.
      * apply dkey_eqb_eq in E2. inversion E2. subst. rewrite !str_eqb_refl. cbn [andb].
        destruct (mem_str t1 ts); reflexivity.
      * destruct (str_eqb s s' && str_eqb n n' && str_eqb f f') eqn:E; cbn [andb]; [|reflexivity].
        destruct (str_eqb t t1) eqn:E1; [|reflexivity].
        apply andb_true_iff in E. destruct E as [E Ef]. apply andb_true_iff in E. destruct E as [Es En].
        apply str_eqb_eq in E1, Ef, Es, En. subst. rewrite dkey_eqb_refl in E2. discriminate.
    + intros t0 Ht0. rewrite untag_effects_keeps_other.
      * apply Hc. right. exact Ht0.
      * intro H. inversion H. subst. contradiction.
    + rewrite has_stack_apply. exact Hs.
Qed.

Ltac deq :=
  repeat match goal with
         | |- context [str_eqb ?a ?b] => destruct (str_eqb_spec a b); subst; cbn [andb]
         end.

Lemma forallb_flat_map {A B} (p : B -> bool) (g : A -> list B) l :
  (forall x, forallb p (g x) = true) -> forallb p (flat_map g l) = true.
Proof.
  intro H. induction l as [|x l IH]; cbn; [reflexivity|]. rewrite forallb_app, H, IH. reflexivity.
Qed.

Lemma tags_on_NoDup d s n v f : NoDup (tags_on d s n v f).
Proof. unfold tags_on. destruct (alookup s d); [apply uniq_NoDup|constructor]. Qed.

Lemma tags_on_mem d s n v f t : mem_str t (tags_on d s n v f) = opt_str_eqb (db_tag d s n t f) v.
Proof.
  destruct (opt_str_eqb (db_tag d s n t f) v) eqn:E.
  - apply mem_str_In. unfold tags_on.
    pose proof E as E0. apply opt_str_eqb_true in E.
    pose proof E as E1. unfold db_tag, db_cfile in E1.
    destruct (alookup s d) as [st|] eqn:Es; [|discriminate].
    destruct (glookup key_eqb (n, t) (cfiles st)) as [c|] eqn:Ek; [|discriminate].
    apply (glookup_In key_eqb key_eqb_eq) in Ek.
    apply (proj2 (uniq_In _ _)). apply in_flat_map. exists ((n, t), c). split; [exact Ek|].
    cbn [fst snd]. rewrite str_eqb_refl, E0. left. reflexivity.
  - apply mem_str_not_In. intro H. unfold tags_on in H.
    destruct (alookup s d) as [st|] eqn:Es; [|contradiction].
    apply (proj1 (uniq_In _ _)) in H. apply in_flat_map in H. destruct H as [[[n1 t1] c] [_ H]]. cbn [fst snd] in H.
    destruct (str_eqb n1 n && opt_str_eqb (db_tag d s n t1 f) v) eqn:E2; [|contradiction].
    destruct H as [H|[]]. subst t1. apply andb_true_iff in E2. destruct E2 as [_ E2]. congruence.
Qed.

Lemma path_compile d x : map fst (apply (compile d x) d) = map fst d.
Proof. apply path_apply. Qed.

Lemma db_decl_compile d x s n v f :
  db_decl (apply (compile d x) d) s n v f = a_decl (aapply x (view d)) s n v f.
Proof.
  rewrite a_decl_aapply.
  destruct x as [s' n' v' f' r|s' n' v' f'|s' n' t' f' v'|s' n' t' f']; cbn [compile];
    rewrite ?a_decl_view, ?apath_view, ?has_stack_path.
  - (* ASetDecl *)
    assert (Hold : forall c0, alookup f (aset f' r match db_vfile d s' (n', v') with Some c => c | None => c0 end)
                   = if str_eqb f f' then Some r else
                       alookup f match db_vfile d s' (n', v') with Some c => c | None => c0 end).
    { intro c0. apply alookup_aset. }
    rewrite apply_app.
    set (d1 := apply (if db_has_dir d s' n' then [] else [Mkdir s' n']) d).
    assert (H1 : forall k, db_vfile d1 s k = db_vfile d s k).
    { intro k. unfold d1. destruct (db_has_dir d s' n'); [reflexivity|].
      cbn [apply fold_left]. rewrite db_vfile_apply1. reflexivity. }
    assert (H2 : has_stack d1 s = has_stack d s).
    { unfold d1. apply has_stack_apply. }
    cbn [apply fold_left]. unfold db_decl at 1. rewrite db_vfile_apply1, H1, H2.
    unfold dkey_eqb, key_eqb. cbn [fst snd].
    destruct (str_eqb_spec s s') as [->|Ns]; cbn [andb].
    + destruct (str_eqb_spec n n') as [->|Nn]; cbn [andb];
        [|rewrite andb_false_r; reflexivity].
      destruct (str_eqb_spec v v') as [->|Nv]; cbn [andb];
        [|rewrite andb_false_r; reflexivity].
      destruct (has_stack d s') eqn:Hs; cbn [andb].
      * rewrite Hold. destruct (str_eqb f f'); [reflexivity|].
        unfold db_decl. destruct (db_vfile d s' (n', v')); reflexivity.
      * symmetry. apply db_decl_no_stack. exact Hs.
    + rewrite andb_false_r. reflexivity.
  - (* ADelDecl *)
    destruct (db_vfile d s' (n', v')) as [c|] eqn:Ev.
    2:{ unfold db_decl at 2. rewrite Ev. reflexivity. }
    assert (Hd : db_decl d s' n' v' f' = alookup f' c) by (unfold db_decl; rewrite Ev; reflexivity).
    rewrite Hd. unfold amem. destruct (alookup f' c) as [r0|] eqn:Ef; cbn [is_some andb]; [|reflexivity].
    rewrite apply_app.
    set (d1 := apply (flat_map (fun t => untag_effects d s' n' t f') (tags_on d s' n' v' f')) d).
    assert (H1 : forall s0 n0 v0 f0, db_decl d1 s0 n0 v0 f0 = db_decl d s0 n0 v0 f0).
    { intros. unfold d1. apply db_decl_apply_other. apply forallb_flat_map. intro. apply untag_effects_c. }
    assert (H2 : has_stack d1 s = has_stack d s) by (unfold d1; apply has_stack_apply).
    assert (Hst : has_stack d s' = true).
    { unfold db_vfile, has_stack in *. destruct (alookup s' d); [reflexivity|discriminate]. }
    destruct (dkey_eqb (s, n, v, f) (s', n', v', f')) eqn:Ek.
    + apply dkey_eqb_eq in Ek. inversion Ek. subst s n v f.
      destruct (is_nil (aremove f' c)) eqn:En.
      * rewrite apply_cons, apply_cons. cbn [apply fold_left].
        rewrite db_decl_apply1_other by reflexivity.
        unfold db_decl. rewrite db_vfile_apply1. rewrite str_eqb_refl, key_eqb_refl. reflexivity.
      * cbn [apply fold_left]. unfold db_decl. rewrite db_vfile_apply1.
        rewrite str_eqb_refl, key_eqb_refl. cbn [andb]. rewrite H2, Hst.
        apply alookup_aremove_same.
    + destruct (is_nil (aremove f' c)) eqn:En.
      * rewrite apply_cons, apply_cons. cbn [apply fold_left].
        rewrite db_decl_apply1_other by reflexivity.
        unfold db_decl at 1. rewrite db_vfile_apply1.
        destruct (str_eqb s s' && key_eqb (n, v) (n', v')) eqn:E2.
        -- apply andb_true_iff in E2. destruct E2 as [E2 E3]. apply str_eqb_eq in E2. apply key_eqb_eq in E3.
           inversion E3. subst s n v.
           apply is_nil_true in En.
           assert (Nf : f <> f').
           { intro H. subst f. rewrite dkey_eqb_refl in Ek. discriminate. }
           unfold db_decl. rewrite Ev. symmetry. apply (aremove_nil_lookup f' c En f Nf).
        -- fold (db_decl d1 s n v f). apply H1.
      * cbn [apply fold_left]. unfold db_decl at 1. rewrite db_vfile_apply1.
        destruct (str_eqb s s' && key_eqb (n, v) (n', v')) eqn:E2.
        -- apply andb_true_iff in E2. destruct E2 as [E2 E3]. apply str_eqb_eq in E2. apply key_eqb_eq in E3.
           inversion E3. subst s n v. rewrite H2, Hst.
           assert (Nf : f <> f').
           { intro H. subst f. rewrite dkey_eqb_refl in Ek. discriminate. }
           rewrite alookup_aremove_other by exact Nf. unfold db_decl. rewrite Ev. reflexivity.
        -- fold (db_decl d1 s n v f). apply H1.
  - (* ASetTag *)
    cbn [apply fold_left]. apply db_decl_apply1_other. reflexivity.
  - (* ADelTag *)
    apply db_decl_apply_other. apply untag_effects_c.
Qed.

Lemma db_tag_compile d x s n t f :
  db_tag (apply (compile d x) d) s n t f = a_tag (aapply x (view d)) s n t f.
Proof.
  rewrite a_tag_aapply.
  destruct x as [s' n' v' f' r|s' n' v' f'|s' n' t' f' v'|s' n' t' f']; cbn [compile];
    rewrite ?a_tag_view, ?a_decl_view, ?apath_view, ?has_stack_path.
  - (* ASetDecl *)
    apply db_tag_apply_other. destruct (db_has_dir d s' n'); reflexivity.
  - (* ADelDecl *)
    destruct (db_vfile d s' (n', v')) as [c|] eqn:Ev.
    2:{ unfold db_decl. rewrite Ev. reflexivity. }
    assert (Hd : db_decl d s' n' v' f' = alookup f' c) by (unfold db_decl; rewrite Ev; reflexivity).
    rewrite Hd. unfold amem. destruct (alookup f' c) as [r0|] eqn:Ef; cbn [is_some andb]; [|reflexivity].
    rewrite apply_app.
    rewrite db_tag_apply_other by (destruct (is_nil (aremove f' c)); reflexivity).
    rewrite (db_tag_untag_list d s' n' f' _ (tags_on_NoDup d s' n' v' f') d) by reflexivity.
    rewrite tags_on_mem. unfold tag_points. rewrite a_tag_view.
    destruct (str_eqb_spec s s') as [->|Ns]; cbn [andb]; [|reflexivity].
    destruct (str_eqb_spec n n') as [->|Nn]; cbn [andb]; [|reflexivity].
    destruct (str_eqb_spec f f') as [->|Nf]; cbn [andb]; reflexivity.
  - (* ASetTag *)
    cbn [apply fold_left]. unfold db_tag at 1. rewrite db_cfile_apply1.
    unfold dkey_eqb, key_eqb. cbn [fst snd].
    destruct (str_eqb_spec s s') as [->|Ns]; cbn [andb].
    + destruct (str_eqb_spec n n') as [->|Nn]; cbn [andb];
        [|rewrite andb_false_r; reflexivity].
      destruct (str_eqb_spec t t') as [->|Nt]; cbn [andb];
        [|rewrite andb_false_r; reflexivity].
      destruct (has_stack d s') eqn:Hs; cbn [andb].
      * rewrite alookup_aset. destruct (str_eqb f f'); [reflexivity|].
        unfold db_tag. destruct (db_cfile d s' (n', t')); reflexivity.
      * symmetry. apply db_tag_no_stack. exact Hs.
    + rewrite andb_false_r. reflexivity.
  - (* ADelTag *)
    apply db_tag_untag_effects; reflexivity.
Qed.

Lemma compile_refines d x : aeq (view (apply (compile d x) d)) (aapply x (view d)).
Proof.
  repeat split; intros.
  - rewrite apath_aapply, !apath_view. apply path_compile.
  - rewrite a_decl_view. apply db_decl_compile.
  - rewrite a_tag_view. apply db_tag_compile.
Qed.

Lemma compile_all_refines xs : forall d, aeq (view (apply (compile_all d xs) d)) (aapply_all xs (view d)).
Proof.
  induction xs as [|x xs IH]; intro d.
  - apply aeq_refl.
  - cbn [compile_all]. rewrite apply_app, aapply_all_cons.
    eapply aeq_trans; [apply IH|]. apply aapply_all_aeq. apply compile_refines.
Qed.

(* ---------------------------------------------------------------- one command *)

Lemma step_refines p d o d' :
  step_gen p d o = Ok d' -> exists a', astep_gen p (view d) o = Ok a' /\ aeq (view d') a'.
Proof.
  unfold step_gen, effects_gen, astep_gen. destruct (decide p (view d) o) as [acts|e]; [|discriminate].
  intro H. inversion H. subst d'. eexists. split; [reflexivity|]. apply compile_all_refines.
Qed.

Lemma step_err_iff p d o e : step_gen p d o = Err e <-> astep_gen p (view d) o = Err e.
Proof.
  unfold step_gen, effects_gen, astep_gen. destruct (decide p (view d) o); split; congruence.
Qed.

Lemma step_total_refines p d o : aeq (view (step_total p d o)) (astep_total p (view d) o).
Proof.
  unfold step_total, astep_total.
  destruct (step_gen p d o) as [d'|e] eqn:E.
  - destruct (step_refines p d o d' E) as [a' [H1 H2]]. rewrite H1. exact H2.
  - apply step_err_iff in E. rewrite E. apply aeq_refl.
Qed.
