(* Frame properties and the named consequences of the refinement (C06). *)
From Eupsv Require Import Base.Base Base.BaseLemmas Model.Db Proofs.DbLib Proofs.Db Proofs.DbSim Proofs.DbInv.

Definition act_nf (x : aact) : str * str :=
  match x with
  | ASetDecl _ n _ f _ | ADelDecl _ n _ f | ASetTag _ n _ f _ | ADelTag _ n _ f => (n, f)
  end.

Definition act_stack (x : aact) : str :=
  match x with
  | ASetDecl s _ _ _ _ | ADelDecl s _ _ _ | ASetTag s _ _ _ _ | ADelTag s _ _ _ => s
  end.

Lemma dkey_eqb_true_inv s n v f s' n' v' f' :
  dkey_eqb (s, n, v, f) (s', n', v', f') = true -> s = s' /\ n = n' /\ v = v' /\ f = f'.
Proof. intro H. apply dkey_eqb_eq in H. inversion H. auto. Qed.

Lemma tag_points_true_inv a s' n' f' v' s n t f :
  tag_points a s' n' f' v' (s, n, t, f) = true -> s = s' /\ n = n' /\ f = f' /\ a_tag a s n t f = Some v'.
Proof.
  unfold tag_points. intro H.
  apply andb_true_iff in H. destruct H as [H H4]. apply andb_true_iff in H. destruct H as [H H3].
  apply andb_true_iff in H. destruct H as [H1 H2]. apply str_eqb_eq in H1, H2, H3.
  apply opt_str_eqb_true in H4. subst. auto.
Qed.

(* one action leaves alone every key it does not name *)
Lemma aapply_frame x a s n k f :
  (n, f) <> act_nf x \/ s <> act_stack x ->
  a_decl (aapply x a) s n k f = a_decl a s n k f /\ a_tag (aapply x a) s n k f = a_tag a s n k f.
Proof.
  intro H. rewrite a_decl_aapply, a_tag_aapply.
  destruct x as [s' n' v' f' r|s' n' v' f'|s' n' t' f' v'|s' n' t' f']; cbn [act_nf act_stack] in H; split;
    try reflexivity.
  - destruct (dkey_eqb (s, n, k, f) (s', n', v', f')) eqn:E; [|rewrite andb_false_r; reflexivity].
    apply dkey_eqb_true_inv in E. destruct E as [? [? [? ?]]]. subst. destruct H as [H|H]; congruence.
  - destruct (dkey_eqb (s, n, k, f) (s', n', v', f')) eqn:E; [|rewrite andb_false_r; reflexivity].
    apply dkey_eqb_true_inv in E. destruct E as [? [? [? ?]]]. subst. destruct H as [H|H]; congruence.
  - destruct (tag_points a s' n' f' v' (s, n, k, f)) eqn:E; [|rewrite andb_false_r; reflexivity].
    apply tag_points_true_inv in E. destruct E as [? [? [? ?]]]. subst. destruct H as [H|H]; congruence.
  - destruct (dkey_eqb (s, n, k, f) (s', n', t', f')) eqn:E; [|rewrite andb_false_r; reflexivity].
    apply dkey_eqb_true_inv in E. destruct E as [? [? [? ?]]]. subst. destruct H as [H|H]; congruence.
  - destruct (dkey_eqb (s, n, k, f) (s', n', t', f')) eqn:E; [|reflexivity].
    apply dkey_eqb_true_inv in E. destruct E as [? [? [? ?]]]. subst. destruct H as [H|H]; congruence.
Qed.

Lemma aapply_all_frame_nf xs nf : Forall (fun x => act_nf x = nf) xs ->
  forall a s n k f, (n, f) <> nf ->
  a_decl (aapply_all xs a) s n k f = a_decl a s n k f /\ a_tag (aapply_all xs a) s n k f = a_tag a s n k f.
Proof.
  induction 1 as [|x xs Hx _ IH]; intros a s n k f N; [split; reflexivity|].
  rewrite aapply_all_cons. destruct (IH (aapply x a) s n k f N) as [-> ->].
  apply aapply_frame. left. congruence.
Qed.

Lemma aapply_all_frame_stack xs s0 : Forall (fun x => act_stack x = s0) xs ->
  forall a s n k f, s <> s0 ->
  a_decl (aapply_all xs a) s n k f = a_decl a s n k f /\ a_tag (aapply_all xs a) s n k f = a_tag a s n k f.
Proof.
  induction 1 as [|x xs Hx _ IH]; intros a s n k f N; [split; reflexivity|].
  rewrite aapply_all_cons. destruct (IH (aapply x a) s n k f N) as [-> ->].
  apply aapply_frame. right. congruence.
Qed.

Definition op_nf (o : op) : str * str := (op_name o, o_flavor (op_opts o)).

Lemma declare_finish_scope p a f n v pl acts :
  declare_finish p a f n v pl = Ok acts -> Forall (fun x => act_nf x = (n, f)) acts.
Proof.
  unfold declare_finish.
  set (acts1 := if dp_write pl then _ else _).
  assert (H1 : Forall (fun x => act_nf x = (n, f)) acts1).
  { unfold acts1. destruct (dp_write pl); [|constructor]. constructor; [reflexivity|].
    destruct (dp_tag pl); repeat constructor. }
  destruct (dp_tag pl) as [x|]; [|intro H; inversion H; subst; exact H1].
  destruct (find_exact _ _ n v f) as [[s' r]|]; [|discriminate].
  intro H. inversion H. subst acts. apply Forall_app. split; [exact H1|]. apply Forall_app. split.
  - apply Forall_forall. intros y Hy. apply in_map_iff in Hy. destruct Hy as [r0 [<- _]]. reflexivity.
  - repeat constructor.
Qed.

Lemma decide_scope p a o acts : decide p a o = Ok acts -> Forall (fun x => act_nf x = op_nf o) acts.
Proof.
  unfold op_nf.
  destruct o as [o n v dir table t|o t n v|o t n vo|o n vo|o n vo t both|o n v]; cbn [decide op_name op_opts].
  - unfold declare_acts. destruct (declare_plan a o n v dir table t) as [pl|e]; [|discriminate].
    destruct (o_noaction o); [intro H; inversion H; constructor|]. apply declare_finish_scope.
  - unfold assign_acts. destruct (find_exact a _ n v _) as [[s' r]|]; [|discriminate].
    intro H. inversion H. repeat constructor.
  - intro H. destruct (unassign_acts_shape _ _ _ _ _ _ H) as [->|[s ->]]; repeat constructor.
  - unfold undeclare_acts. destruct (undeclare_target a o n vo) as [[s' v]|]; [|discriminate].
    destruct (o_noaction o); intro H; inversion H; repeat constructor.
  - unfold undeclare_tag_acts. destruct both; cbn [negb].
    + destruct (undeclare_target a o n _) as [[s' v]|]; [|discriminate].
      destruct (o_noaction o); [intro H; inversion H; constructor|].
      intro H. inversion H. destruct (opt_str_eqb _ _); repeat constructor.
    + intro H. destruct (unassign_acts_shape _ _ _ _ _ _ H) as [->|[s ->]]; repeat constructor.
  - unfold remove_acts, undeclare_acts. destruct (find_exact a (apath a) n v _); [|discriminate].
    destruct (undeclare_target a _ n _) as [[s' v']|]; [|discriminate].
    cbn [o_noaction o_flavor]. destruct (o_noaction o); intro H; inversion H; repeat constructor.
Qed.

(* every command except declare works in one stack *)
Definition is_declare (o : op) : bool := match o with Declare _ _ _ _ _ _ => true | _ => false end.

Lemma decide_one_stack p a o acts : is_declare o = false -> decide p a o = Ok acts ->
  exists s0, Forall (fun x => act_stack x = s0) acts.
Proof.
  destruct o as [o n v dir table t|o t n v|o t n vo|o n vo|o n vo t both|o n v]; cbn [decide is_declare];
    intro Hd; try discriminate.
  - unfold assign_acts. destruct (find_exact a _ n v _) as [[s' r]|]; [|discriminate].
    intro H. inversion H. exists s'. repeat constructor.
  - intro H. destruct (unassign_acts_shape _ _ _ _ _ _ H) as [->|[s ->]];
      [exists generic; constructor|exists s; repeat constructor].
  - unfold undeclare_acts. destruct (undeclare_target a o n vo) as [[s' v]|]; [|discriminate].
    destruct (o_noaction o); intro H; inversion H; exists s'; repeat constructor.
  - unfold undeclare_tag_acts. destruct both; cbn [negb].
    + destruct (undeclare_target a o n _) as [[s' v]|]; [|discriminate].
      destruct (o_noaction o); [intro H; inversion H; exists s'; constructor|].
      intro H. inversion H. exists s'. destruct (opt_str_eqb _ _); repeat constructor.
    + intro H. destruct (unassign_acts_shape _ _ _ _ _ _ H) as [->|[s ->]];
        [exists generic; constructor|exists s; repeat constructor].
  - unfold remove_acts, undeclare_acts. destruct (find_exact a (apath a) n v _); [|discriminate].
    destruct (undeclare_target a _ n _) as [[s' v']|]; [|discriminate].
    cbn [o_noaction o_flavor]. destruct (o_noaction o); intro H; inversion H; exists s'; repeat constructor.
Qed.

(* transfer from the abstract run of one command to the files *)
Lemma step_acts p d o d' : step_gen p d o = Ok d' ->
  exists acts, decide p (view d) o = Ok acts /\
    (forall s n k f, db_decl d' s n k f = a_decl (aapply_all acts (view d)) s n k f) /\
    (forall s n k f, db_tag d' s n k f = a_tag (aapply_all acts (view d)) s n k f).
Proof.
  intro H. destruct (step_refines p d o d' H) as [a' [H1 [_ [H3 H4]]]].
  unfold astep_gen in H1. destruct (decide p (view d) o) as [acts|e]; [|discriminate].
  inversion H1. subst a'. exists acts. split; [reflexivity|]. split; intros.
  - rewrite <- H3. symmetry. apply a_decl_view.
  - rewrite <- H4. symmetry. apply a_tag_view.
Qed.

Lemma frame_nf p d o d' : step_gen p d o = Ok d' ->
  forall s n k f, (n, f) <> op_nf o ->
  db_decl d' s n k f = db_decl d s n k f /\ db_tag d' s n k f = db_tag d s n k f.
Proof.
  intros H s n k f N. destruct (step_acts p d o d' H) as [acts [Hd [H1 H2]]].
  rewrite H1, H2, <- a_decl_view, <- a_tag_view.
  apply (aapply_all_frame_nf acts (op_nf o) (decide_scope _ _ _ _ Hd)). exact N.
Qed.

Lemma frame_stack p d o d' : is_declare o = false -> step_gen p d o = Ok d' ->
  exists s0, forall s n k f, s <> s0 ->
  db_decl d' s n k f = db_decl d s n k f /\ db_tag d' s n k f = db_tag d s n k f.
Proof.
  intros Hn H. destruct (step_acts p d o d' H) as [acts [Hd [H1 H2]]].
  destruct (decide_one_stack _ _ _ _ Hn Hd) as [s0 Hs]. exists s0. intros s n k f N.
  rewrite H1, H2, <- a_decl_view, <- a_tag_view. apply (aapply_all_frame_stack acts s0 Hs). exact N.
Qed.

(* ---------------------------------------------------------------- errors and dry runs *)

Lemma step_total_err p d o e : effects_gen p d o = Err e -> step_total p d o = d.
Proof. intro H. unfold step_total, step_gen. rewrite H. reflexivity. Qed.

Definition is_assign (o : op) : bool := match o with AssignTag _ _ _ _ => true | _ => false end.

Lemma decide_noaction p a o acts : o_noaction (op_opts o) = true -> is_assign o = false ->
  decide p a o = Ok acts -> acts = [].
Proof.
  destruct o as [o n v dir table t|o t n v|o t n vo|o n vo|o n vo t both|o n v];
    cbn [decide op_opts is_assign]; intros Hn Ha; try discriminate.
  - unfold declare_acts. destruct (declare_plan a o n v dir table t); [|discriminate].
    rewrite Hn. intro H. inversion H. reflexivity.
  - unfold unassign_acts. rewrite Hn.
    repeat match goal with
           | |- context [match ?x with _ => _ end] => destruct x eqn:?; try discriminate
           end; intro H; inversion H; reflexivity.
  - unfold undeclare_acts. destruct (undeclare_target a o n vo) as [[s' v]|]; [|discriminate].
    rewrite Hn. intro H. inversion H. reflexivity.
  - unfold undeclare_tag_acts, unassign_acts. rewrite Hn.
    repeat match goal with
           | |- context [match ?x with _ => _ end] => destruct x eqn:?; try discriminate
           end; intro H; inversion H; reflexivity.
  - unfold remove_acts, undeclare_acts. destruct (find_exact a (apath a) n v _); [|discriminate].
    destruct (undeclare_target a _ n _) as [[s' v']|]; [|discriminate].
    cbn [o_noaction]. rewrite Hn. intro H. inversion H. reflexivity.
Qed.

Lemma noaction_step p d o d' : o_noaction (op_opts o) = true -> is_assign o = false ->
  step_gen p d o = Ok d' -> effects_gen p d o = Ok [] /\ d' = d.
Proof.
  intros Hn Ha. unfold step_gen, effects_gen. destruct (decide p (view d) o) as [acts|e] eqn:E; [|discriminate].
  rewrite (decide_noaction _ _ _ _ Hn Ha E). cbn. intro H. inversion H. auto.
Qed.
