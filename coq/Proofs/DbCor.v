(* Frame properties and the named consequences of the refinement (C06). *)
From Eupsv Require Import Base.Base Base.BaseLemmas Model.Db Proofs.DbLib Proofs.Db Proofs.DbSim Proofs.DbInv.

Definition act_nf (x : aact) : str * str :=
  match x with
  | ASetDecl _ n _ f _ | ADelDecl _ n _ f | ASetTag _ n _ f _ | ADelTag _ n _ f => (n, f)
  end.

Definition act_stack (x : aact) : str :=
  match x with
  | ASetDecl s _ _ _ _ | ADelDecl s _ _ _ | ASetTag s _ _ _ _ | ADelTag s _ _ _ => s
  end.

Lemma dkey_eqb_true_inv s n v f s' n' v' f' :
  dkey_eqb (s, n, v, f) (s', n', v', f') = true -> s = s' /\ n = n' /\ v = v' /\ f = f'.
Proof. intro H. apply dkey_eqb_eq in H. inversion H. auto. Qed.

Lemma tag_points_true_inv a s' n' f' v' s n t f :
  tag_points a s' n' f' v' (s, n, t, f) = true -> s = s' /\ n = n' /\ f = f' /\ a_tag a s n t f = Some v'.
Proof.
  unfold tag_points. intro H.
  apply andb_true_iff in H. destruct H as [H H4]. apply andb_true_iff in H. destruct H as [H H3].
  apply andb_true_iff in H. destruct H as [H1 H2]. apply str_eqb_eq in H1, H2, H3.
  apply opt_str_eqb_true in H4. subst. auto.
Qed.

(* one action leaves alone every key it does not name *)
Lemma aapply_frame x a s n k f :
  (n, f) <> act_nf x \/ s <> act_stack x ->
  a_decl (aapply x a) s n k f = a_decl a s n k f /\ a_tag (aapply x a) s n k f = a_tag a s n k f.
Proof.
  intro H. rewrite a_decl_aapply, a_tag_aapply.
  destruct x as [s' n' v' f' r|s' n' v' f'|s' n' t' f' v'|s' n' t' f']; cbn [act_nf act_stack] in H; split;
    try reflexivity.
  - destruct (dkey_eqb (s, n, k, f) (s', n', v', f')) eqn:E; [|rewrite andb_false_r; reflexivity].
    apply dkey_eqb_true_inv in E. destruct E as [? [? [? ?]]]. subst. destruct H as [H|H]; congruence.
  - destruct (dkey_eqb (s, n, k, f) (s', n', v', f')) eqn:E; [|rewrite andb_false_r; reflexivity].
    apply dkey_eqb_true_inv in E. destruct E as [? [? [? ?]]]. subst. destruct H as [H|H]; congruence.
  - destruct (tag_points a s' n' f' v' (s, n, k, f)) eqn:E; [|rewrite andb_false_r; reflexivity].
    apply tag_points_true_inv in E. destruct E as [? [? [? ?]]]. subst. destruct H as [H|H]; congruence.
  - destruct (dkey_eqb (s, n, k, f) (s', n', t', f')) eqn:E; [|rewrite andb_false_r; reflexivity].
    apply dkey_eqb_true_inv in E. destruct E as [? [? [? ?]]]. subst. destruct H as [H|H]; congruence.
  - destruct (dkey_eqb (s, n, k, f) (s', n', t', f')) eqn:E; [|reflexivity].
    apply dkey_eqb_true_inv in E. destruct E as [? [? [? ?]]]. subst. destruct H as [H|H]; congruence.
Qed.

Lemma aapply_all_frame_nf xs nf : Forall (fun x => act_nf x = nf) xs ->
  forall a s n k f, (n, f) <> nf ->
  a_decl (aapply_all xs a) s n k f = a_decl a s n k f /\ a_tag (aapply_all xs a) s n k f = a_tag a s n k f.
Proof.
  induction 1 as [|x xs Hx _ IH]; intros a s n k f N; [split; reflexivity|].
  rewrite aapply_all_cons. destruct (IH (aapply x a) s n k f N) as [-> ->].
  apply aapply_frame. left. congruence.
Qed.

Lemma aapply_all_frame_stack xs s0 : Forall (fun x => act_stack x = s0) xs ->
  forall a s n k f, s <> s0 ->
  a_decl (aapply_all xs a) s n k f = a_decl a s n k f /\ a_tag (aapply_all xs a) s n k f = a_tag a s n k f.
Proof.
  induction 1 as [|x xs Hx _ IH]; intros a s n k f N; [split; reflexivity|].
  rewrite aapply_all_cons. destruct (IH (aapply x a) s n k f N) as [-> ->].
  apply aapply_frame. right. congruence.
Qed.

Definition op_nf (o : op) : str * str := (op_name o, o_flavor (op_opts o)).

Lemma declare_acts1_scope f n v pl : Forall (fun x => act_nf x = (n, f)) (declare_acts1 f n v pl).
Proof.
  unfold declare_acts1. destruct (dp_write pl); [|constructor]. constructor; [reflexivity|].
  destruct (dp_tag pl); repeat constructor.
Qed.

Lemma deltags_scope rs n x f : Forall (fun y => act_nf y = (n, f)) (map (fun r => ADelTag r n x f) rs).
Proof. apply Forall_forall. intros y Hy. apply in_map_iff in Hy. destruct Hy as [r0 [<- _]]. reflexivity. Qed.

Lemma declare_finish_scope p a f n v pl acts :
  declare_finish p a f n v pl = Ok acts -> Forall (fun x => act_nf x = (n, f)) acts.
Proof.
  intro H. apply declare_finish_shape in H.
  destruct (dp_tag pl) as [x|]; [|subst acts; apply declare_acts1_scope].
  destruct H as [rs [rs' [-> _]]].
  apply Forall_app. split; [apply declare_acts1_scope|]. apply Forall_app. split; [apply deltags_scope|].
  constructor; [reflexivity|apply deltags_scope].
Qed.

Lemma decide_scope p a o acts : decide p a o = Ok acts -> Forall (fun x => act_nf x = op_nf o) acts.
Proof.
  unfold op_nf.
  destruct o as [o n v dir table t|o t n v|o t n vo|o n vo|o n vo t both|o n v]; cbn [decide op_name op_opts].
  - unfold declare_acts. destruct (declare_plan a o n v dir table t) as [pl|e]; [|discriminate].
    destruct (o_noaction o); [intro H; inversion H; constructor|]. apply declare_finish_scope.
  - unfold assign_acts. destruct (find_exact a _ n v _) as [[s' r]|]; [|discriminate].
    intro H. inversion H. repeat constructor.
  - intro H. destruct (unassign_acts_shape _ _ _ _ _ _ H) as [->|[s ->]]; repeat constructor.
  - unfold undeclare_acts. destruct (undeclare_target a o n vo) as [[s' v]|]; [|discriminate].
    destruct (o_noaction o); intro H; inversion H; repeat constructor.
  - unfold undeclare_tag_acts. destruct both; cbn [negb].
    + destruct (undeclare_target a o n _) as [[s' v]|]; [|discriminate].
      destruct (o_noaction o); [intro H; inversion H; constructor|].
      intro H. inversion H. destruct (opt_str_eqb _ _); repeat constructor.
    + intro H. destruct (unassign_acts_shape _ _ _ _ _ _ H) as [->|[s ->]]; repeat constructor.
  - unfold remove_acts, undeclare_acts. destruct (find_exact a (apath a) n v _); [|discriminate].
    destruct (undeclare_target a _ n _) as [[s' v']|]; [|discriminate].
    cbn [o_noaction o_flavor]. destruct (o_noaction o); intro H; inversion H; repeat constructor.
Qed.

(* every command except declare works in one stack *)
Definition is_declare (o : op) : bool := match o with Declare _ _ _ _ _ _ => true | _ => false end.

Lemma decide_one_stack p a o acts : is_declare o = false -> decide p a o = Ok acts ->
  exists s0, Forall (fun x => act_stack x = s0) acts.
Proof.
  destruct o as [o n v dir table t|o t n v|o t n vo|o n vo|o n vo t both|o n v]; cbn [decide is_declare];
    intro Hd; try discriminate.
  - unfold assign_acts. destruct (find_exact a _ n v _) as [[s' r]|]; [|discriminate].
    intro H. inversion H. exists s'. repeat constructor.
  - intro H. destruct (unassign_acts_shape _ _ _ _ _ _ H) as [->|[s ->]];
      [exists generic; constructor|exists s; repeat constructor].
  - unfold undeclare_acts. destruct (undeclare_target a o n vo) as [[s' v]|]; [|discriminate].
    destruct (o_noaction o); intro H; inversion H; exists s'; repeat constructor.
  - unfold undeclare_tag_acts. destruct both; cbn [negb].
    + destruct (undeclare_target a o n _) as [[s' v]|]; [|discriminate].
      destruct (o_noaction o); [intro H; inversion H; exists s'; constructor|].
      intro H. inversion H. exists s'. destruct (opt_str_eqb _ _); repeat constructor.
    + intro H. destruct (unassign_acts_shape _ _ _ _ _ _ H) as [->|[s ->]];
        [exists generic; constructor|exists s; repeat constructor].
  - unfold remove_acts, undeclare_acts. destruct (find_exact a (apath a) n v _); [|discriminate].
    destruct (undeclare_target a _ n _) as [[s' v']|]; [|discriminate].
    cbn [o_noaction o_flavor]. destruct (o_noaction o); intro H; inversion H; exists s'; repeat constructor.
Qed.

(* transfer from the abstract run of one command to the files *)
Lemma step_acts p d o d' : step_gen p d o = Ok d' ->
  exists acts, decide p (view d) o = Ok acts /\
    (forall s n k f, db_decl d' s n k f = a_decl (aapply_all acts (view d)) s n k f) /\
    (forall s n k f, db_tag d' s n k f = a_tag (aapply_all acts (view d)) s n k f).
Proof.
  intro H. destruct (step_refines p d o d' H) as [a' [H1 [_ [H3 H4]]]].
  unfold astep_gen in H1. destruct (decide p (view d) o) as [acts|e]; [|discriminate].
  inversion H1. subst a'. exists acts. split; [reflexivity|]. split; intros.
  - rewrite <- H3. symmetry. apply a_decl_view.
  - rewrite <- H4. symmetry. apply a_tag_view.
Qed.

Lemma frame_nf p d o d' : step_gen p d o = Ok d' ->
  forall s n k f, (n, f) <> op_nf o ->
  db_decl d' s n k f = db_decl d s n k f /\ db_tag d' s n k f = db_tag d s n k f.
Proof.
  intros H s n k f N. destruct (step_acts p d o d' H) as [acts [Hd [H1 H2]]].
  rewrite H1, H2, <- a_decl_view, <- a_tag_view.
  apply (aapply_all_frame_nf acts (op_nf o) (decide_scope _ _ _ _ Hd)). exact N.
Qed.

Lemma frame_stack p d o d' : is_declare o = false -> step_gen p d o = Ok d' ->
  exists s0, forall s n k f, s <> s0 ->
  db_decl d' s n k f = db_decl d s n k f /\ db_tag d' s n k f = db_tag d s n k f.
Proof.
  intros Hn H. destruct (step_acts p d o d' H) as [acts [Hd [H1 H2]]].
  destruct (decide_one_stack _ _ _ _ Hn Hd) as [s0 Hs]. exists s0. intros s n k f N.
  rewrite H1, H2, <- a_decl_view, <- a_tag_view. apply (aapply_all_frame_stack acts s0 Hs). exact N.
Qed.

(* ---------------------------------------------------------------- errors and dry runs *)

Lemma step_total_err p d o e : effects_gen p d o = Err e -> step_total p d o = d.
Proof. intro H. unfold step_total, step_gen. rewrite H. reflexivity. Qed.

Definition is_assign (o : op) : bool := match o with AssignTag _ _ _ _ => true | _ => false end.

Lemma decide_noaction p a o acts : o_noaction (op_opts o) = true -> is_assign o = false ->
  decide p a o = Ok acts -> acts = [].
Proof.
  destruct o as [o n v dir table t|o t n v|o t n vo|o n vo|o n vo t both|o n v];
    cbn [decide op_opts is_assign]; intros Hn Ha; try discriminate.
  - unfold declare_acts. destruct (declare_plan a o n v dir table t); [|discriminate].
    rewrite Hn. intro H. inversion H. reflexivity.
  - unfold unassign_acts. rewrite Hn.
    repeat match goal with
           | |- context [match ?x with _ => _ end] => destruct x eqn:?; try discriminate
           end; intro H; inversion H; reflexivity.
  - unfold undeclare_acts. destruct (undeclare_target a o n vo) as [[s' v]|]; [|discriminate].
    rewrite Hn. intro H. inversion H. reflexivity.
  - unfold undeclare_tag_acts, unassign_acts. rewrite Hn.
    repeat match goal with
           | |- context [match ?x with _ => _ end] => destruct x eqn:?; try discriminate
           end; intro H; inversion H; reflexivity.
  - unfold remove_acts, undeclare_acts. destruct (find_exact a (apath a) n v _); [|discriminate].
    destruct (undeclare_target a _ n _) as [[s' v']|]; [|discriminate].
    cbn [o_noaction]. rewrite Hn. intro H. inversion H. reflexivity.
Qed.

Lemma noaction_step p d o d' : o_noaction (op_opts o) = true -> is_assign o = false ->
  step_gen p d o = Ok d' -> effects_gen p d o = Ok [] /\ d' = d.
Proof.
  intros Hn Ha. unfold step_gen, effects_gen. destruct (decide p (view d) o) as [acts|e] eqn:E; [|discriminate].
  rewrite (decide_noaction _ _ _ _ Hn Ha E). cbn. intro H. inversion H. auto.
Qed.

(* ---------------------------------------------------------------- declare *)

Lemma deltags_spec rs n x f : forall a,
  (forall s n' t' f', a_tag (aapply_all (map (fun r => ADelTag r n x f) rs) a) s n' t' f' =
     if mem_str s rs && str_eqb n' n && str_eqb t' x && str_eqb f' f then None else a_tag a s n' t' f').
Proof.
  induction rs as [|r rs IH]; intros a s n' t' f'; [reflexivity|].
  cbn [map]. rewrite aapply_all_cons, IH, a_tag_aapply. cbn [mem_str].
  rewrite dkey_eqb_parts.
  destruct (str_eqb_spec s r) as [->|N]; cbn [andb].
  - destruct (mem_str r rs); cbn [andb]; destruct (str_eqb n' n && str_eqb t' x && str_eqb f' f); reflexivity.
  - reflexivity.
Qed.

Lemma declare_acts1_decl f n v pl a s n' v' f' : mem_str (dp_target pl) (apath a) = true ->
  a_decl (aapply_all (declare_acts1 f n v pl) a) s n' v' f' =
  if dp_write pl && dkey_eqb (s, n', v', f') (dp_target pl, n, v, f) then Some (dp_dir pl, dp_table pl)
  else a_decl a s n' v' f'.
Proof.
  intro Hm. unfold declare_acts1. destruct (dp_write pl); cbn [andb]; [|reflexivity].
  rewrite aapply_all_cons.
  assert (Ht : Forall is_tag_act match dp_tag pl with Some x => [ASetTag (dp_target pl) n x f v] | None => [] end)
    by (destruct (dp_tag pl); repeat constructor).
  rewrite (tag_acts_keep_decls _ Ht).
  rewrite a_decl_aapply, Hm. reflexivity.
Qed.

Lemma declare_acts1_tag f n v pl a s n' t' f' : mem_str (dp_target pl) (apath a) = true ->
  a_tag (aapply_all (declare_acts1 f n v pl) a) s n' t' f' =
  match dp_tag pl with
  | Some x => if dp_write pl && dkey_eqb (s, n', t', f') (dp_target pl, n, x, f) then Some v else a_tag a s n' t' f'
  | None => a_tag a s n' t' f'
  end.
Proof.
  intro Hm. unfold declare_acts1. destruct (dp_write pl); cbn [andb].
  - rewrite aapply_all_cons. destruct (dp_tag pl) as [x|].
    + rewrite aapply_all_cons. cbn [aapply_all fold_left]. rewrite a_tag_aapply, apath_aapply, Hm. cbn [andb].
      rewrite a_tag_aapply. reflexivity.
    + cbn [aapply_all fold_left]. rewrite a_tag_aapply. reflexivity.
  - destruct (dp_tag pl); reflexivity.
Qed.

Lemma declare_finish_decl p a f n v pl acts : mem_str (dp_target pl) (apath a) = true ->
  declare_finish p a f n v pl = Ok acts ->
  forall s n' v' f',
  a_decl (aapply_all acts a) s n' v' f' =
  if dp_write pl && dkey_eqb (s, n', v', f') (dp_target pl, n, v, f) then Some (dp_dir pl, dp_table pl)
  else a_decl a s n' v' f'.
Proof.
  intros Hm H. apply declare_finish_shape in H. destruct (dp_tag pl) as [x|] eqn:Et.
  - destruct H as [rs [rs' [-> _]]]. intros.
    rewrite aapply_all_app. rewrite tag_acts_keep_decls.
    + apply declare_acts1_decl. exact Hm.
    + apply Forall_app. split; [apply deltags_tag_acts|]. constructor; [exact I|apply deltags_tag_acts].
  - subst acts. intros. apply declare_acts1_decl. exact Hm.
Qed.

Lemma find_tagged_single a r n x f : no_dangling a ->
  is_some (find_tagged a [r] n x f) = is_some (a_tag a r n x f).
Proof.
  intro H. cbn [find_tagged]. destruct (a_tag a r n x f) as [v0|] eqn:E; [|reflexivity].
  specialize (H _ _ _ _ _ E). destruct (a_decl a r n v0 f); [reflexivity|congruence].
Qed.

Lemma mem_filter_str (p : str -> bool) s l : mem_str s (filter p l) = mem_str s l && p s.
Proof.
  induction l as [|y l IH]; cbn; [reflexivity|].
  destruct (p y) eqn:Ep; cbn [mem_str].
  - destruct (str_eqb_spec s y) as [->|N]; [rewrite Ep; reflexivity|exact IH].
  - rewrite IH. destruct (str_eqb_spec s y) as [->|N]; [|reflexivity].
    rewrite Ep, andb_false_r. reflexivity.
Qed.

Lemma declare_finish_new_unfold a f n v pl :
  declare_finish false a f n v pl =
  match dp_tag pl with
  | None => Ok (declare_acts1 f n v pl)
  | Some x =>
      let a1 := aapply_all (declare_acts1 f n v pl) a in
      match find_exact a1 [dp_target pl; dp_target pl] n v f with
      | Some (s', _) =>
          Ok (declare_acts1 f n v pl ++ ASetTag s' n x f v ::
              map (fun r => ADelTag r n x f) (other_occurrences (aapply (ASetTag s' n x f v) a1) s' n x f))
      | None => Err NotFound
      end
  end.
Proof. reflexivity. Qed.

(* the tag after a declaration that assigns one (assigned first, then removed from the other stacks) *)
Lemma declare_finish_tag a f n v pl acts x : no_dangling a ->
  mem_str (dp_target pl) (apath a) = true -> dp_tag pl = Some x ->
  declare_finish false a f n v pl = Ok acts ->
  forall s n' t' f',
  a_tag (aapply_all acts a) s n' t' f' =
  if str_eqb n' n && str_eqb t' x && str_eqb f' f
  then (if str_eqb s (dp_target pl) then Some v else if mem_str s (apath a) then None else a_tag a s n' t' f')
  else a_tag a s n' t' f'.
Proof.
  intros Hnd Hm Et. rewrite declare_finish_new_unfold, Et. cbv zeta.
  set (acts1 := declare_acts1 f n v pl). set (a1 := aapply_all acts1 a).
  destruct (find_exact a1 [dp_target pl; dp_target pl] n v f) as [[s' r]|] eqn:Ef; [|discriminate].
  apply find_exact_some in Ef. destruct Ef as [Hin Hd1].
  assert (Hs' : s' = dp_target pl) by (destruct Hin as [<-|[<-|[]]]; reflexivity).
  subst s'. clear Hin.
  set (a2 := aapply (ASetTag (dp_target pl) n x f v) a1).
  intro H. inversion H. subst acts. clear H. intros s n' t' f'.
  assert (Hnd1 : no_dangling a1).
  { unfold a1. apply aapply_all_no_dangling; [exact Hnd|]. apply declare_acts1_ok. exact Hm. }
  assert (Hnd2 : no_dangling a2).
  { unfold a2. apply aapply_no_dangling; [exact Hnd1|]. cbn [act_ok]. rewrite Hd1. discriminate. }
  assert (Hp1 : apath a1 = apath a) by (unfold a1; apply apath_aapply_all).
  assert (Hp2 : apath a2 = apath a) by (unfold a2; rewrite apath_aapply; exact Hp1).
  rewrite aapply_all_app. fold a1. rewrite aapply_all_cons. fold a2.
  rewrite deltags_spec. unfold other_occurrences.
  rewrite mem_filter_str, (find_tagged_single a2 _ _ _ _ Hnd2), Hp2.
  unfold a2. rewrite !a_tag_aapply, Hp1, Hm. cbn [andb]. rewrite !dkey_eqb_parts.
  unfold a1, acts1. rewrite !(declare_acts1_tag f n v pl a _ _ _ _ Hm), Et. rewrite !dkey_eqb_parts.
  destruct (str_eqb_spec n' n) as [->|Nn]; cbn [andb];
    [|rewrite !andb_false_r; cbn [andb]; rewrite ?andb_false_r; reflexivity].
  destruct (str_eqb_spec t' x) as [->|Nt]; cbn [andb];
    [|rewrite !andb_false_r; cbn [andb]; rewrite ?andb_false_r; reflexivity].
  destruct (str_eqb_spec f' f) as [->|Nf]; cbn [andb];
    [|rewrite !andb_false_r; cbn [andb]; rewrite ?andb_false_r; reflexivity].
  rewrite !str_eqb_refl. cbn [andb].
  destruct (str_eqb_spec s (dp_target pl)) as [->|Ns]; cbn [andb negb].
  - rewrite !andb_false_r. cbn [andb]. reflexivity.
  - rewrite !andb_false_r. rewrite !andb_true_r.
    destruct (mem_str s (apath a)) eqn:Ep; cbn [andb]; [|reflexivity].
    destruct (a_tag a s n x f); reflexivity.
Qed.

(* without a tag to assign, a declaration touches no tag *)
Lemma declare_finish_notag p a f n v pl acts : dp_tag pl = None ->
  declare_finish p a f n v pl = Ok acts ->
  forall s n' t' f', a_tag (aapply_all acts a) s n' t' f' = a_tag a s n' t' f'.
Proof.
  intros Et H. apply declare_finish_shape in H. rewrite Et in H. subst acts. intros.
  unfold declare_acts1. rewrite Et. destruct (dp_write pl); [|reflexivity].
  cbn [aapply_all fold_left]. rewrite a_tag_aapply. reflexivity.
Qed.

(* ---------------------------------------------------------------- declare, on the files *)

Lemma view_target_has_stack d tg : mem_str tg (apath (view d)) = true <-> has_stack d tg = true.
Proof. rewrite apath_view, has_stack_path. tauto. Qed.

Lemma declare_step p d o n v dir table t d' :
  o_noaction o = false -> step_gen p d (Declare o n v dir table t) = Ok d' ->
  exists pl acts,
    declare_plan (view d) o n v dir table t = Ok pl /\
    declare_finish p (view d) (o_flavor o) n v pl = Ok acts /\
    mem_str (dp_target pl) (apath (view d)) = true /\
    (forall s n k f, db_decl d' s n k f = a_decl (aapply_all acts (view d)) s n k f) /\
    (forall s n k f, db_tag d' s n k f = a_tag (aapply_all acts (view d)) s n k f).
Proof.
  intros Hn H. destruct (step_acts p d _ d' H) as [acts [Hd [H1 H2]]].
  cbn [decide] in Hd. unfold declare_acts in Hd.
  destruct (declare_plan (view d) o n v dir table t) as [pl|e] eqn:Ep; [|discriminate].
  rewrite Hn in Hd. exists pl, acts. repeat split; auto.
  apply (declare_plan_target _ _ _ _ _ _ _ _ Ep).
Qed.

Lemma declare_decls p d o n v dir table t d' :
  o_noaction o = false -> step_gen p d (Declare o n v dir table t) = Ok d' ->
  exists pl, declare_plan (view d) o n v dir table t = Ok pl /\
  forall s n' v' f',
    db_decl d' s n' v' f' =
    if dp_write pl && dkey_eqb (s, n', v', f') (dp_target pl, n, v, o_flavor o)
    then Some (dp_dir pl, dp_table pl) else db_decl d s n' v' f'.
Proof.
  intros Hn H. destruct (declare_step p d o n v dir table t d' Hn H) as [pl [acts [Hp [Hf [Hm [H1 _]]]]]].
  exists pl. split; [exact Hp|]. intros. rewrite H1, (declare_finish_decl p _ _ _ _ _ _ Hm Hf), a_decl_view.
  reflexivity.
Qed.

Lemma declare_tags d o n v dir table t d' :
  no_dangling (view d) ->
  o_noaction o = false -> step_gen false d (Declare o n v dir table t) = Ok d' ->
  exists pl, declare_plan (view d) o n v dir table t = Ok pl /\
  forall s n' t' f',
    db_tag d' s n' t' f' =
    match dp_tag pl with
    | None => db_tag d s n' t' f'
    | Some x =>
        if str_eqb n' n && str_eqb t' x && str_eqb f' (o_flavor o)
        then (if str_eqb s (dp_target pl) then Some v else None)
        else db_tag d s n' t' f'
    end.
Proof.
  intros Hnd Hn H. destruct (declare_step false d o n v dir table t d' Hn H) as [pl [acts [Hp [Hf [Hm [_ H2]]]]]].
  exists pl. split; [exact Hp|]. intros. rewrite H2. destruct (dp_tag pl) as [x|] eqn:Et.
  - rewrite (declare_finish_tag _ _ _ _ _ _ x Hnd Hm Et Hf), a_tag_view.
    destruct (str_eqb n' n && str_eqb t' x && str_eqb f' (o_flavor o)); [|reflexivity].
    destruct (str_eqb s (dp_target pl)); [reflexivity|].
    rewrite apath_view, has_stack_path. destruct (has_stack d s) eqn:Es; [reflexivity|].
    apply db_tag_no_stack. exact Es.
  - rewrite (declare_finish_notag _ _ _ _ _ _ _ Et Hf), a_tag_view. reflexivity.
Qed.

(* what the plan is in the cases the property names *)
Lemma decl_findable a tg n v f r : mem_str tg (apath a) = true -> a_decl a tg n v f = Some r ->
  findable a n (fallbacks f) = true.
Proof.
  intros Hm Hd. unfold findable.
  destruct (decl_versions a (apath a) (fallbacks f) n) as [|x l] eqn:E; [|reflexivity].
  exfalso. assert (Hin : In (v, f) (decl_versions a (apath a) (fallbacks f) n)).
  { apply decl_versions_In. exists tg. repeat split; [exact Hm| |congruence].
    cbn. rewrite str_eqb_refl. reflexivity. }
  rewrite E in Hin. exact Hin.
Qed.

Definition declare_target (a : adb) (o : opts) : option str :=
  match o_stack o with Some s => Some s | None => hd_error (apath a) end.

Lemma plan_explicit a o n v dir tb t tg : declare_target a o = Some tg -> mem_str tg (apath a) = true ->
  declare_plan a o n v (Some dir) (Some tb) t =
  let t1 := match t with Some x => Some x | None => if findable a n (fallbacks (o_flavor o)) then None else Some current end in
  match a_decl a tg n v (o_flavor o) with
  | Some r' =>
      if o_force o then Ok (mkPlan dir tb tg t1 true)
      else if vrec_eqb (dir, tb) r' then Ok (mkPlan dir tb tg t1 false)
      else match t1 with Some _ => Ok (mkPlan dir tb tg t1 false) | None => Err Refused end
  | None => Ok (mkPlan dir tb tg t1 true)
  end.
Proof.
  unfold declare_target, declare_plan. intros Ht Hm.
  assert (Hi : match t with Some _ => @None (str * vrec) | None => None end = None) by (destruct t; reflexivity).
  destruct t as [x|]; cbv zeta; rewrite Ht, Hm; reflexivity.
Qed.

(* ---------------------------------------------------------------- undeclare, tags *)

Lemma undeclare_target_found a o n vo s' v : undeclare_target a o n vo = Ok (s', v) ->
  exists r, a_decl a s' n v (o_flavor o) = Some r /\ In s' (roots_of a (o_stack o)).
Proof.
  unfold undeclare_target.
  destruct (match vo with Some v0 => Ok v0 | None => _ end) as [v0|e]; [|discriminate].
  destruct (find_exact a _ n v0 _) as [[s0 r]|] eqn:E; [|discriminate].
  intro H. inversion H. subst. apply find_exact_some in E. destruct E. eauto.
Qed.

Lemma undeclare_step p d o n vo d' :
  o_noaction o = false -> step_gen p d (Undeclare o n vo) = Ok d' ->
  exists s' v r,
    undeclare_target (view d) o n vo = Ok (s', v) /\
    db_decl d s' n v (o_flavor o) = Some r /\
    (forall s n' v' f', db_decl d' s n' v' f' =
       if dkey_eqb (s, n', v', f') (s', n, v, o_flavor o) then None else db_decl d s n' v' f') /\
    (forall s n' t f', db_tag d' s n' t f' =
       if str_eqb s s' && str_eqb n' n && str_eqb f' (o_flavor o) && opt_str_eqb (db_tag d s n' t f') v
       then None else db_tag d s n' t f').
Proof.
  intros Hn H. destruct (step_acts p d _ d' H) as [acts [Hd [H1 H2]]].
  cbn [decide] in Hd. unfold undeclare_acts in Hd.
  destruct (undeclare_target (view d) o n vo) as [[s' v]|e] eqn:Et; [|discriminate].
  rewrite Hn in Hd. inversion Hd. subst acts.
  destruct (undeclare_target_found _ _ _ _ _ _ Et) as [r [Hr _]].
  exists s', v, r. split; [reflexivity|]. rewrite <- a_decl_view. split; [exact Hr|]. split; intros.
  - rewrite H1. cbn [aapply_all fold_left]. rewrite a_decl_aapply, Hr, a_decl_view. reflexivity.
  - rewrite H2. cbn [aapply_all fold_left]. rewrite a_tag_aapply, Hr. cbn [is_some andb].
    unfold tag_points. rewrite !a_tag_view. reflexivity.
Qed.

Lemma remove_is_undeclare a o n v :
  remove_acts a o n v = undeclare_acts a (mkOpts (o_flavor o) None (o_force o) (o_noaction o)) n (Some v).
Proof.
  unfold remove_acts. destruct (find_exact a (apath a) n v (o_flavor o)) eqn:E; [reflexivity|].
  unfold undeclare_acts, undeclare_target. cbn [o_flavor o_stack roots_of]. rewrite E. reflexivity.
Qed.

Lemma assign_step p d o t n v d' : step_gen p d (AssignTag o t n v) = Ok d' ->
  exists s' r,
    find_exact (view d) (roots_of (view d) (o_stack o)) n v (o_flavor o) = Some (s', r) /\
    (forall s n' v' f', db_decl d' s n' v' f' = db_decl d s n' v' f') /\
    (forall s n' t' f', db_tag d' s n' t' f' =
       if dkey_eqb (s, n', t', f') (s', n, t, o_flavor o) then Some v else db_tag d s n' t' f').
Proof.
  intro H. destruct (step_acts p d _ d' H) as [acts [Hd [H1 H2]]].
  cbn [decide] in Hd. unfold assign_acts in Hd.
  destruct (find_exact (view d) _ n v _) as [[s' r]|] eqn:E; [|discriminate].
  inversion Hd. subst acts. exists s', r. split; [reflexivity|].
  apply find_exact_some in E. destruct E as [_ E].
  assert (Hm : mem_str s' (apath (view d)) = true).
  { apply view_target_has_stack. rewrite a_decl_view in E. apply (db_decl_has_stack _ _ _ _ _ _ E). }
  split; intros.
  - rewrite H1. cbn [aapply_all fold_left]. rewrite a_decl_aapply. apply a_decl_view.
  - rewrite H2. cbn [aapply_all fold_left]. rewrite a_tag_aapply, Hm, a_tag_view. reflexivity.
Qed.

Lemma unassign_step p d o t n vo d' : step_gen p d (UnassignTag o t n vo) = Ok d' ->
  (forall s n' v' f', db_decl d' s n' v' f' = db_decl d s n' v' f') /\
  exists so : option str,
    forall s n' t' f', db_tag d' s n' t' f' =
      if match so with Some s0 => dkey_eqb (s, n', t', f') (s0, n, t, o_flavor o) | None => false end
      then None else db_tag d s n' t' f'.
Proof.
  intro H. destruct (step_acts p d _ d' H) as [acts [Hd [H1 H2]]].
  cbn [decide] in Hd. destruct (unassign_acts_shape _ _ _ _ _ _ Hd) as [->|[s0 ->]].
  - split; [intros; rewrite H1; apply a_decl_view|]. exists None. intros. rewrite H2. apply a_tag_view.
  - split; [intros; rewrite H1; cbn [aapply_all fold_left]; rewrite a_decl_aapply; apply a_decl_view|].
    exists (Some s0). intros. rewrite H2. cbn [aapply_all fold_left]. rewrite a_tag_aapply, a_tag_view. reflexivity.
Qed.

Lemma find_tagged_unique a roots n x f tg v :
  In tg roots -> a_decl a tg n v f <> None ->
  (forall s, In s roots -> a_tag a s n x f = if str_eqb s tg then Some v else None) ->
  find_tagged a roots n x f = Some (tg, v).
Proof.
  induction roots as [|s0 rs IH]; intros Hin Hd Ht; [contradiction|].
  cbn [find_tagged]. rewrite (Ht s0 (or_introl eq_refl)).
  destruct (str_eqb_spec s0 tg) as [->|N].
  - destruct (a_decl a tg n v f); [reflexivity|congruence].
  - apply IH; [destruct Hin; [contradiction|assumption]|exact Hd|]. intros s Hs. apply Ht. right. exact Hs.
Qed.

Lemma declare_plan_tag a o n v dir table x pl :
  declare_plan a o n v dir table (Some x) = Ok pl -> dp_tag pl = Some x.
Proof.
  unfold declare_plan.
  repeat match goal with
         | |- context [match ?x with _ => _ end] => destruct x eqn:?; try discriminate
         end; intro H; inversion H; reflexivity.
Qed.

Lemma plan_default_table a o n v dir tg : declare_target a o = Some tg -> mem_str tg (apath a) = true ->
  declare_plan a o n v (Some dir) None None =
  let tb := default_table dir n in
  let t1 := if findable a n (fallbacks (o_flavor o)) then None else Some current in
  match a_decl a tg n v (o_flavor o) with
  | Some r' =>
      if o_force o then Ok (mkPlan dir tb tg t1 true)
      else if vrec_eqb (dir, tb) r' then Ok (mkPlan dir tb tg t1 false)
      else match t1 with Some _ => Ok (mkPlan dir tb tg t1 false) | None => Err Refused end
  | None => Ok (mkPlan dir tb tg t1 true)
  end.
Proof.
  unfold declare_target, declare_plan. intros Ht Hm. cbv zeta. rewrite Ht, Hm. reflexivity.
Qed.

Lemma path_step p d o d' : step_gen p d o = Ok d' -> map fst d' = map fst d.
Proof.
  unfold step_gen. destruct (effects_gen p d o); [|discriminate]. intro H. inversion H. apply path_apply.
Qed.

Lemma step_no_dangling p d o d' : no_dangling (view d) -> step_gen p d o = Ok d' -> no_dangling (view d').
Proof.
  intros H E. pose proof (step_total_no_dangling p d o H) as H1. unfold step_total in H1. rewrite E in H1. exact H1.
Qed.

Lemma no_dangling_db d : no_dangling (view d) <->
  forall s n t f v, db_tag d s n t f = Some v -> db_decl d s n v f <> None.
Proof.
  unfold no_dangling. split; intros H s n t f v Hv.
  - rewrite <- a_decl_view. apply (H s n t f v). rewrite a_tag_view. exact Hv.
  - rewrite a_decl_view. apply (H s n t f v). rewrite <- a_tag_view. exact Hv.
Qed.

(* ---------------------------------------------------------------- declare raises before it writes *)

Lemma declare_plan_nowrite a o n v dir table t pl :
  declare_plan a o n v dir table t = Ok pl -> dp_write pl = false ->
  a_decl a (dp_target pl) n v (o_flavor o) <> None.
Proof.
  unfold declare_plan.
  repeat match goal with
         | |- context [match ?x with _ => _ end] => destruct x eqn:?; try discriminate
         end; intro H; inversion H; subst; cbn [dp_write dp_target]; intro Hw; try discriminate; congruence.
Qed.

Lemma declare_finish_total p a f n v pl :
  mem_str (dp_target pl) (apath a) = true ->
  (dp_write pl = false -> a_decl a (dp_target pl) n v f <> None) ->
  exists acts, declare_finish p a f n v pl = Ok acts.
Proof.
  intros Hm Hw. unfold declare_finish. destruct p.
  - unfold declare_finish_old. destruct (dp_tag pl) as [x|]; [|eauto]. cbv zeta.
    cbn [find_exact]. rewrite (tag_acts_keep_decls _ (deltags_tag_acts _ _ _ _)).
    rewrite (declare_acts1_decl f n v pl a _ _ _ _ Hm), dkey_eqb_refl, andb_true_r.
    destruct (dp_write pl); [eauto|].
    destruct (a_decl a (dp_target pl) n v f) eqn:E; [eauto|]. exfalso. apply Hw; reflexivity.
  - unfold declare_finish_new. destruct (dp_tag pl) as [x|]; [|eauto]. cbv zeta.
    cbn [find_exact].
    rewrite (declare_acts1_decl f n v pl a _ _ _ _ Hm), dkey_eqb_refl, andb_true_r.
    destruct (dp_write pl); [eauto|].
    destruct (a_decl a (dp_target pl) n v f) eqn:E; [eauto|]. exfalso. apply Hw; reflexivity.
Qed.

Lemma declare_error_is_planning_error p a o n v dir table t e :
  decide p a (Declare o n v dir table t) = Err e -> declare_plan a o n v dir table t = Err e.
Proof.
  cbn [decide]. unfold declare_acts. destruct (declare_plan a o n v dir table t) as [pl|e'] eqn:Ep.
  - destruct (o_noaction o); [discriminate|].
    destruct (declare_finish_total p a (o_flavor o) n v pl) as [acts Ha].
    + apply (declare_plan_target _ _ _ _ _ _ _ _ Ep).
    + apply (declare_plan_nowrite _ _ _ _ _ _ _ _ Ep).
    + rewrite Ha. discriminate.
  - intro H. inversion H. reflexivity.
Qed.
