(* Lemmas about Model/DbExt.v: the extended declaration decides on the view and the copies, the
   record-level actions are those of Db.v (so refinement, invariant and frame carry over), and the
   plan is characterised for the requests the property names. *)
From Eupsv Require Import Base.Base Base.BaseLemmas Model.Db Model.DbExt
  Proofs.DbLib Proofs.Db Proofs.DbSim Proofs.DbInv Proofs.DbCor.

(* ---------------------------------------------------------------- refinement *)

Definition xview (x : xdb) : xadb := mkXA (view (xd x)) (xfiles x).

Lemma xstep_refines e x o x' :
  xstep e x o = Ok x' ->
  exists y', xastep e (xview x) o = Ok y' /\ aeq (view (xd x')) (xa y') /\ xfiles x' = xafiles y'.
Proof.
  unfold xstep, xastep, xview. cbn [xa xafiles].
  destruct (xdecide e (view (xd x)) (xfiles x) o) as [[acts cs]|k]; [|discriminate].
  intro H. inversion H. subst x'. eexists. split; [reflexivity|]. cbn [xd xfiles xa xafiles].
  split; [apply compile_all_refines|reflexivity].
Qed.

Lemma xstep_err_iff e x o k : xstep e x o = Err k <-> xastep e (xview x) o = Err k.
Proof.
  unfold xstep, xastep, xview. cbn [xa xafiles].
  destruct (xdecide e (view (xd x)) (xfiles x) o) as [[acts cs]|k']; split; congruence.
Qed.

(* what one command does, read on the files *)
Lemma xstep_acts e x o x' : xstep e x o = Ok x' ->
  exists acts cs, xdecide e (view (xd x)) (xfiles x) o = Ok (acts, cs) /\
    xfiles x' = write_files cs (xfiles x) /\
    (forall s n k f, db_decl (xd x') s n k f = a_decl (aapply_all acts (view (xd x))) s n k f) /\
    (forall s n k f, db_tag (xd x') s n k f = a_tag (aapply_all acts (view (xd x))) s n k f) /\
    map fst (xd x') = map fst (xd x).
Proof.
  unfold xstep. destruct (xdecide e (view (xd x)) (xfiles x) o) as [[acts cs]|k] eqn:E; [|discriminate].
  intro H. inversion H. subst x'. exists acts, cs. cbn [xd xfiles]. split; [reflexivity|]. split; [reflexivity|].
  destruct (compile_all_refines acts (xd x)) as [_ [H3 H4]]. split; [|split].
  - intros. rewrite <- H3. symmetry. apply a_decl_view.
  - intros. rewrite <- H4. symmetry. apply a_tag_view.
  - apply path_apply.
Qed.

(* ---------------------------------------------------------------- the target stack is on the path *)

Lemma first_writable_In ro path w : first_writable ro path = Some w -> In w path /\ mem_str w ro = false.
Proof.
  induction path as [|s r IH]; cbn [first_writable]; [discriminate|].
  destruct (mem_str s ro) eqn:E.
  - intro H. destruct (IH H). split; [right; assumption|assumption].
  - intro H. inversion H. subst. split; [left; reflexivity|assumption].
Qed.

Lemma home_stack_In path dir h : home_stack path dir = Some h -> In h path /\ is_subpath dir (stack_dir h) = true.
Proof.
  induction path as [|s r IH]; cbn [home_stack]; [discriminate|].
  destruct (is_subpath dir (stack_dir s)) eqn:E.
  - intro H. inversion H. subst. split; [left; reflexivity|assumption].
  - intro H. destruct (IH H). split; [right; assumption|assumption].
Qed.

Lemma xtarget_sound e path o dir rd tg : xtarget e path o dir = Ok (rd, tg) ->
  mem_str tg path = true /\ mem_str tg (e_ro e) = false /\ mem_str rd path = true.
Proof.
  unfold xtarget. destruct (o_stack o) as [s|].
  - destruct (mem_str s (e_ro e)) eqn:Er; [discriminate|]. destruct (mem_str s path) eqn:Ep; [|discriminate].
    intro H. inversion H. subst. repeat split; assumption.
  - destruct (home_stack path dir) as [h|] eqn:Eh.
    + apply home_stack_In in Eh. destruct Eh as [Hh _]. apply mem_str_In in Hh.
      destruct (mem_str h (e_ro e)) eqn:Er.
      * destruct (first_writable (e_ro e) path) as [w|] eqn:Ew; [|discriminate].
        apply first_writable_In in Ew. destruct Ew as [Hw Hr]. apply mem_str_In in Hw.
        intro H. inversion H. subst. repeat split; assumption.
      * intro H. inversion H. subst. repeat split; assumption.
    + destruct (first_writable (e_ro e) path) as [w|] eqn:Ew; [|discriminate].
      apply first_writable_In in Ew. destruct Ew as [Hw Hr]. apply mem_str_In in Hw.
      intro H. inversion H. subst. repeat split; assumption.
Qed.

(* the shape of a successful plan *)
Lemma xdeclare_plan_inv e a xf o n v dir tb t ext p :
  xdeclare_plan e a xf o n v dir tb t ext = Ok p ->
  exists d tb1 rd tg tname full tcopies ecopies,
    xtarget e (apath a) o d = Ok (rd, tg) /\
    resolve_table e xf tg (o_flavor o) n v d tb1 = Ok (tname, full, tcopies) /\
    resolve_ext e xf ext = Ok ecopies /\
    (forall d0, dir = Some d0 -> d = d0) /\
    (tspec_given tb = true \/ t = None -> tb1 = tb) /\
    dp_dir (xp_plan p) = d /\ dp_table (xp_plan p) = tname /\ dp_target (xp_plan p) = tg /\
    dp_tag (xp_plan p) = match t with
                         | Some y => Some y
                         | None => if findable a n (fallbacks (o_flavor o)) then None else Some current
                         end /\
    xp_copies p = map (fun c : str * str => (extra_dir tg (o_flavor o) n v ++ slash ++ fst c, snd c)) (ecopies ++ tcopies) /\
    (a_decl a rd n v (o_flavor o) <> None -> rd = tg) /\
    (dp_write (xp_plan p) = false -> a_decl a tg n v (o_flavor o) <> None) /\
    ((o_force o = true \/ a_decl a rd n v (o_flavor o) = None -> dp_write (xp_plan p) = true) /\
     (o_force o = false -> a_decl a rd n v (o_flavor o) <> None -> dp_write (xp_plan p) = false)).
Proof.
  unfold xdeclare_plan. cbv zeta.
  set (info := match t with None => None | Some _ => _ end).
  set (dir1 := match dir with Some d => Some d | None => _ end).
  destruct dir1 as [d|] eqn:Ed; [|discriminate].
  set (tb1 := match tb with TDefault => _ | _ => tb end).
  destruct (xtarget e (apath a) o d) as [[rd tg]|k] eqn:Et; [|discriminate].
  destruct (resolve_table e xf tg (o_flavor o) n v d tb1) as [[[tname full] tcopies]|k] eqn:Er; [|discriminate].
  destruct (resolve_ext e xf ext) as [ecopies|k] eqn:Ee; [|discriminate].
  intro H. exists d, tb1, rd, tg, tname, full, tcopies, ecopies.
  split; [first [assumption|reflexivity]|]. split; [first [assumption|reflexivity]|]. split; [first [assumption|reflexivity]|].
  split. { intros d0 ->. subst dir1. inversion Ed. reflexivity. }
  split. { intros [Hg|Hn]; subst tb1.
           - destruct tb; try reflexivity. discriminate.
           - destruct tb; try reflexivity. subst info. rewrite Hn. reflexivity. }
  destruct (a_decl a rd n v (o_flavor o)) as [r'|] eqn:Ea.
  - destruct (negb (str_eqb rd tg)) eqn:En; [discriminate|].
    apply negb_false_iff, str_eqb_eq in En.
    destruct (o_force o) eqn:Ef.
    + inversion H. cbn. repeat split; auto; discriminate.
    + subst tg. destruct (negb (str_eqb d (fst r')) || _ || _).
      * destruct (match t with Some x => Some x | None => _ end) eqn:E1; [|discriminate].
        inversion H. cbn. repeat split; auto; try (intros [?|?]; discriminate); intros _; rewrite Ea; discriminate.
      * inversion H. cbn. repeat split; auto; try (intros [?|?]; discriminate); intros _; rewrite Ea; discriminate.
  - inversion H. cbn. repeat split; auto; try discriminate.
    + intro N. exfalso. apply N. reflexivity.
    + intros _ N. exfalso. apply N. reflexivity.
Qed.

Lemma xdeclare_plan_target e a xf o n v dir tb t ext p :
  xdeclare_plan e a xf o n v dir tb t ext = Ok p -> mem_str (dp_target (xp_plan p)) (apath a) = true.
Proof.
  intro H. destruct (xdeclare_plan_inv _ _ _ _ _ _ _ _ _ _ _ H)
    as [d [tb1 [rd [tg [tname [full [tc [ec [Ht [Hrt [Hre [Hdir [Htb [Hpd [Hpt [Hg [Hpg [Hc [Hrd [Hnw Hw]]]]]]]]]]]]]]]]]]]].
  rewrite Hg. apply (xtarget_sound _ _ _ _ _ _ Ht).
Qed.

(* ---------------------------------------------------------------- invariant and frame *)

Lemma xdecide_acts_ok e a xf o acts cs : xdecide e a xf o = Ok (acts, cs) -> acts_ok a acts.
Proof.
  destruct o as [o n v dir tb t ext|y]; cbn [xdecide].
  - destruct (xdeclare_plan e a xf o n v dir tb t ext) as [p|k] eqn:Ep; [|discriminate].
    destruct (o_noaction o); [intro H; inversion H; exact I|].
    destruct (declare_finish false a (o_flavor o) n v (xp_plan p)) as [acts'|k] eqn:Ef; [|discriminate].
    intro H. inversion H. subst. apply (declare_finish_ok _ _ _ _ _ _ _ (xdeclare_plan_target _ _ _ _ _ _ _ _ _ _ _ Ep) Ef).
  - destruct (ro_refuses e y); [discriminate|].
    destruct (decide false a y) as [acts'|k] eqn:Ed; [|discriminate].
    intro H. inversion H. subst. apply (decide_acts_ok _ _ _ _ Ed).
Qed.

Lemma xstep_no_dangling e x o x' : no_dangling (view (xd x)) -> xstep e x o = Ok x' -> no_dangling (view (xd x')).
Proof.
  intros Hnd H. destruct (xstep_refines _ _ _ _ H) as [y' [Hy [Ha _]]].
  apply (no_dangling_aeq (xa y')); [apply aeq_sym; exact Ha|].
  unfold xastep, xview in Hy. cbn [xa xafiles] in Hy.
  destruct (xdecide e (view (xd x)) (xfiles x) o) as [[acts cs]|k] eqn:E; [|discriminate].
  inversion Hy. cbn [xa]. apply aapply_all_no_dangling; [exact Hnd|]. apply (xdecide_acts_ok _ _ _ _ _ _ E).
Qed.

Lemma xstep_total_no_dangling e x o : no_dangling (view (xd x)) -> no_dangling (view (xd (xstep_total e x o))).
Proof.
  intro H. unfold xstep_total. destruct (xstep e x o) as [x'|k] eqn:E; [|exact H].
  apply (xstep_no_dangling _ _ _ _ H E).
Qed.

Lemma xrun_no_dangling e os : forall x, no_dangling (view (xd x)) -> no_dangling (view (xd (xrun e x os))).
Proof.
  induction os as [|o r IH]; intros x H; [exact H|]. cbn [xrun fold_left].
  apply IH. apply xstep_total_no_dangling. exact H.
Qed.

Definition xop_nf (o : xop) : str * str :=
  match o with
  | XDeclare o n _ _ _ _ _ => (n, o_flavor o)
  | XOld y => op_nf y
  end.

Lemma xdecide_scope e a xf o acts cs : xdecide e a xf o = Ok (acts, cs) ->
  Forall (fun y => act_nf y = xop_nf o) acts.
Proof.
  destruct o as [o n v dir tb t ext|y]; cbn [xdecide xop_nf].
  - destruct (xdeclare_plan e a xf o n v dir tb t ext) as [p|k]; [|discriminate].
    destruct (o_noaction o); [intro H; inversion H; constructor|].
    destruct (declare_finish false a (o_flavor o) n v (xp_plan p)) as [acts'|k] eqn:Ef; [|discriminate].
    intro H. inversion H. subst. apply (declare_finish_scope _ _ _ _ _ _ _ Ef).
  - destruct (ro_refuses e y); [discriminate|].
    destruct (decide false a y) as [acts'|k] eqn:Ed; [|discriminate].
    intro H. inversion H. subst. apply (decide_scope _ _ _ _ Ed).
Qed.

Lemma xframe_nf e x o x' : xstep e x o = Ok x' ->
  forall s n k f, (n, f) <> xop_nf o ->
  db_decl (xd x') s n k f = db_decl (xd x) s n k f /\ db_tag (xd x') s n k f = db_tag (xd x) s n k f.
Proof.
  intros H s n k f N. destruct (xstep_acts _ _ _ _ H) as [acts [cs [Hd [_ [H1 [H2 _]]]]]].
  rewrite H1, H2, <- a_decl_view, <- a_tag_view.
  apply (aapply_all_frame_nf acts (xop_nf o) (xdecide_scope _ _ _ _ _ _ Hd)). exact N.
Qed.

(* ---------------------------------------------------------------- the copies *)

Lemma write_files_app cs1 cs2 xf : write_files (cs1 ++ cs2) xf = write_files cs2 (write_files cs1 xf).
Proof. unfold write_files. apply fold_left_app. Qed.

Lemma write_files_other cs : forall xf p, (forall c, In c cs -> fst c <> p) ->
  alookup p (write_files cs xf) = alookup p xf.
Proof.
  induction cs as [|c r IH]; intros xf p H; [reflexivity|]. cbn [write_files fold_left].
  change (alookup p (write_files r (aset (fst c) (snd c) xf)) = alookup p xf).
  rewrite IH by (intros c' Hc; apply H; right; exact Hc).
  rewrite alookup_aset. destruct (str_eqb_spec p (fst c)) as [->|]; [|reflexivity].
  exfalso. apply (H c); [left; reflexivity|reflexivity].
Qed.

Lemma write_files_last cs k t xf : alookup k (write_files (cs ++ [(k, t)]) xf) = Some t.
Proof.
  rewrite write_files_app. cbn [write_files fold_left fst snd]. rewrite alookup_aset, str_eqb_refl. reflexivity.
Qed.

(* every command but a declaration leaves the copies alone: Eups.undeclare does not remove them *)
Lemma xold_keeps_files e x y x' : xstep e x (XOld y) = Ok x' -> xfiles x' = xfiles x.
Proof.
  intro H. destruct (xstep_acts _ _ _ _ H) as [acts [cs [Hd [Hf _]]]]. cbn [xdecide] in Hd.
  destruct (ro_refuses e y); [discriminate|]. destruct (decide false (view (xd x)) y); [|discriminate].
  inversion Hd. subst. exact Hf.
Qed.

Lemma starts_with_app_false p q x : starts_with p x = false -> starts_with (p ++ q) x = false.
Proof.
  revert x. induction p as [|c p IH]; intros x; cbn; [discriminate|].
  destruct x as [|c' x]; [reflexivity|]. destruct (ascii_eqb c c'); [apply IH|reflexivity].
Qed.

(* a declaration writes below its own extra directory only *)
Lemma xdeclare_frame_files e x o n v dir tb t ext x' :
  xstep e x (XDeclare o n v dir tb t ext) = Ok x' ->
  o_noaction o = true /\ xfiles x' = xfiles x \/
  exists p, xdeclare_plan e (view (xd x)) (xfiles x) o n v dir tb t ext = Ok p /\
    forall q, starts_with (extra_dir (dp_target (xp_plan p)) (o_flavor o) n v ++ slash) q = false ->
              alookup q (xfiles x') = alookup q (xfiles x).
Proof.
  intro H. destruct (xstep_acts _ _ _ _ H) as [acts [cs [Hd [Hf _]]]]. cbn [xdecide] in Hd.
  destruct (xdeclare_plan e (view (xd x)) (xfiles x) o n v dir tb t ext) as [p|k] eqn:Ep; [|discriminate].
  destruct (o_noaction o) eqn:En.
  - left. inversion Hd. subst. auto.
  - right. exists p. split; [reflexivity|].
    destruct (declare_finish false _ (o_flavor o) n v (xp_plan p)); [|discriminate]. inversion Hd. subst cs.
    destruct (xdeclare_plan_inv _ _ _ _ _ _ _ _ _ _ _ Ep)
      as [d [tb1 [rd [tg [tname [full [tc [ec [Ht [Hrt [Hre [Hdir [Htb [Hpd [Hpt [Hg [Hpg [Hc [Hrd [Hnw Hw]]]]]]]]]]]]]]]]]]]].
    rewrite Hg. intros q Hq. rewrite Hf. apply write_files_other. intros c Hin. rewrite Hc in Hin.
    apply in_map_iff in Hin. destruct Hin as [c0 [<- _]]. cbn [fst]. intro E. subst q.
    rewrite app_assoc, starts_with_refl in Hq. discriminate.
Qed.

(* ---------------------------------------------------------------- what a declaration leaves *)

Lemma xdeclare_step e x o n v dir tb t ext x' :
  o_noaction o = false -> xstep e x (XDeclare o n v dir tb t ext) = Ok x' ->
  exists p,
    xdeclare_plan e (view (xd x)) (xfiles x) o n v dir tb t ext = Ok p /\
    xfiles x' = write_files (xp_copies p) (xfiles x) /\
    (forall s n' v' f',
      db_decl (xd x') s n' v' f' =
      if dp_write (xp_plan p) && dkey_eqb (s, n', v', f') (dp_target (xp_plan p), n, v, o_flavor o)
      then Some (dp_dir (xp_plan p), dp_table (xp_plan p)) else db_decl (xd x) s n' v' f').
Proof.
  intros Hn H. destruct (xstep_acts _ _ _ _ H) as [acts [cs [Hd [Hf [H1 _]]]]]. cbn [xdecide] in Hd.
  destruct (xdeclare_plan e (view (xd x)) (xfiles x) o n v dir tb t ext) as [p|k] eqn:Ep; [|discriminate].
  rewrite Hn in Hd.
  destruct (declare_finish false (view (xd x)) (o_flavor o) n v (xp_plan p)) as [acts'|k] eqn:Ef; [|discriminate].
  inversion Hd. subst acts' cs. exists p. split; [reflexivity|]. split; [exact Hf|].
  intros. rewrite H1.
  rewrite (declare_finish_decl false _ _ _ _ _ _ (xdeclare_plan_target _ _ _ _ _ _ _ _ _ _ _ Ep) Ef), a_decl_view.
  reflexivity.
Qed.

(* the tag side: as in Db.v, for the plan of the extended declaration *)
Lemma xdeclare_tags e x o n v dir tb t ext x' :
  no_dangling (view (xd x)) ->
  o_noaction o = false -> xstep e x (XDeclare o n v dir tb t ext) = Ok x' ->
  exists p, xdeclare_plan e (view (xd x)) (xfiles x) o n v dir tb t ext = Ok p /\
  forall s n' t' f',
    db_tag (xd x') s n' t' f' =
    match dp_tag (xp_plan p) with
    | None => db_tag (xd x) s n' t' f'
    | Some y =>
        if str_eqb n' n && str_eqb t' y && str_eqb f' (o_flavor o)
        then (if str_eqb s (dp_target (xp_plan p)) then Some v else None)
        else db_tag (xd x) s n' t' f'
    end.
Proof.
  intros Hnd Hn H. destruct (xstep_acts _ _ _ _ H) as [acts [cs [Hd [_ [_ [H2 _]]]]]]. cbn [xdecide] in Hd.
  destruct (xdeclare_plan e (view (xd x)) (xfiles x) o n v dir tb t ext) as [p|k] eqn:Ep; [|discriminate].
  rewrite Hn in Hd.
  destruct (declare_finish false (view (xd x)) (o_flavor o) n v (xp_plan p)) as [acts'|k] eqn:Ef; [|discriminate].
  inversion Hd. subst acts' cs. exists p. split; [reflexivity|].
  pose proof (xdeclare_plan_target _ _ _ _ _ _ _ _ _ _ _ Ep) as Hm.
  intros. rewrite H2. destruct (dp_tag (xp_plan p)) as [y|] eqn:Et.
  - rewrite (declare_finish_tag _ _ _ _ _ _ y Hnd Hm Et Ef), a_tag_view.
    destruct (str_eqb n' n && str_eqb t' y && str_eqb f' (o_flavor o)); [|reflexivity].
    destruct (str_eqb s (dp_target (xp_plan p))); [reflexivity|].
    rewrite apath_view, has_stack_path. destruct (has_stack (xd x) s) eqn:Es; [reflexivity|].
    apply db_tag_no_stack. exact Es.
  - rewrite (declare_finish_notag _ _ _ _ _ _ _ Et Ef), a_tag_view. reflexivity.
Qed.

(* a refused command changes nothing *)
Lemma xstep_total_err e x o k : xstep e x o = Err k -> xstep_total e x o = x.
Proof. unfold xstep_total. intros ->. reflexivity. Qed.

(* a declaration raises while it is settling its arguments or not at all *)
Lemma xdeclare_error_is_planning_error e a xf o n v dir tb t ext k :
  xdecide e a xf (XDeclare o n v dir tb t ext) = Err k -> xdeclare_plan e a xf o n v dir tb t ext = Err k.
Proof.
  cbn [xdecide]. destruct (xdeclare_plan e a xf o n v dir tb t ext) as [p|k'] eqn:Ep; [|congruence].
  destruct (o_noaction o); [discriminate|].
  destruct (declare_finish_total false a (o_flavor o) n v (xp_plan p) (xdeclare_plan_target _ _ _ _ _ _ _ _ _ _ _ Ep))
    as [acts Ha].
  { destruct (xdeclare_plan_inv _ _ _ _ _ _ _ _ _ _ _ Ep)
      as [d [tb1 [rd [tg [tname [full [tc [ec [Ht [Hrt [Hre [Hdir [Htb [Hpd [Hpt [Hg [Hpg [Hc [Hrd [Hnw Hw]]]]]]]]]]]]]]]]]]]].
    rewrite Hg. exact Hnw. }
  rewrite Ha. discriminate.
Qed.

(* ---------------------------------------------------------------- tags that are not recognised *)

Lemma kstep_unknown known e x o : unknown_tag known o = true ->
  kstep known e x o = Err (unknown_tag_error (view (xd x)) o) /\ kstep_total known e x o = x.
Proof. intro H. unfold kstep_total, kstep. rewrite H. split; reflexivity. Qed.

Lemma kstep_known known e x o : unknown_tag known o = false ->
  kstep known e x o = xstep e x o /\ kstep_total known e x o = xstep_total e x o.
Proof. intro H. unfold kstep_total, kstep, xstep_total. rewrite H. split; reflexivity. Qed.

Lemma kstep_total_err known e x o k : kstep known e x o = Err k -> kstep_total known e x o = x.
Proof. unfold kstep_total. intros ->. reflexivity. Qed.

(* a history is worth the history without the commands whose tag is not recognised *)
Lemma krun_recognised known e os : forall x, krun known e x os = xrun e x (recognised known os).
Proof.
  induction os as [|o os IH]; intro x; [reflexivity|].
  cbn [krun fold_left recognised filter]. fold (krun known e (kstep_total known e x o) os).
  fold (recognised known os). destruct (unknown_tag known o) eqn:E; cbn [negb].
  - rewrite (proj2 (kstep_unknown known e x o E)). apply IH.
  - cbn [xrun fold_left]. fold (xrun e (xstep_total e x o) (recognised known os)).
    rewrite (proj2 (kstep_known known e x o E)). apply IH.
Qed.

(* a sibling of a stack: the path of the stack followed by a character other than the slash is not below it *)
Lemma str_eqb_app_cons (p : str) c r : str_eqb (p ++ c :: r) p = false.
Proof.
  induction p as [|a p IH]; cbn; [reflexivity|]. destruct (ascii_eqb a a); [exact IH|reflexivity].
Qed.

Lemma starts_with_sibling (p : str) c r : ascii_eqb "/"%char c = false -> starts_with (p ++ slash) (p ++ c :: r) = false.
Proof.
  intro H. induction p as [|a p IH].
  - change (starts_with ["/"%char] (c :: r) = false). cbn [starts_with]. rewrite H. reflexivity.
  - cbn [app starts_with]. destruct (ascii_eqb a a); [exact IH|reflexivity].
Qed.

Lemma is_subpath_sibling (root : str) c r : ascii_eqb "/"%char c = false -> is_subpath (root ++ c :: r) root = false.
Proof.
  intro H. unfold is_subpath. rewrite str_eqb_app_cons, (starts_with_sibling root c r H). reflexivity.
Qed.
