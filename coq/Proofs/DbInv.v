(* Invariant (no tag points at an undeclared version), frame, and the named consequences
   of the refinement, proved on the abstract transitions and carried to the files. *)
From Eupsv Require Import Base.Base Base.BaseLemmas Model.Db Proofs.DbLib Proofs.Db Proofs.DbSim.

Definition no_dangling (a : adb) : Prop :=
  forall s n t f v, a_tag a s n t f = Some v -> a_decl a s n v f <> None.

Lemma no_dangling_aeq a b : aeq a b -> no_dangling a -> no_dangling b.
Proof.
  intros [_ [Hd Ht]] H s n t f v Hv. rewrite <- Hd. apply (H s n t f v). rewrite Ht. exact Hv.
Qed.

(* a tag assignment is justified when the version it names is declared at that moment *)
Definition act_ok (a : adb) (x : aact) : Prop :=
  match x with
  | ASetTag s n t f v => a_decl a s n v f <> None
  | _ => True
  end.

Fixpoint acts_ok (a : adb) (xs : list aact) : Prop :=
  match xs with
  | [] => True
  | x :: r => act_ok a x /\ acts_ok (aapply x a) r
  end.

Lemma acts_ok_app a xs ys : acts_ok a (xs ++ ys) <-> acts_ok a xs /\ acts_ok (aapply_all xs a) ys.
Proof.
  revert a. induction xs as [|x xs IH]; intro a; cbn [app acts_ok].
  - cbn. tauto.
  - rewrite IH, aapply_all_cons. tauto.
Qed.

Definition not_settag (x : aact) : Prop := match x with ASetTag _ _ _ _ _ => False | _ => True end.

Lemma acts_ok_trivial xs : Forall not_settag xs -> forall a, acts_ok a xs.
Proof.
  induction 1 as [|x xs Hx _ IH]; intro a; cbn; [exact I|]. split; [|apply IH].
  destruct x; cbn in *; auto.
Qed.

Lemma dkey_eqb_parts s n v f s' n' v' f' :
  dkey_eqb (s, n, v, f) (s', n', v', f') = str_eqb s s' && str_eqb n n' && str_eqb v v' && str_eqb f f'.
Proof. reflexivity. Qed.

Lemma aapply_no_dangling x a : no_dangling a -> act_ok a x -> no_dangling (aapply x a).
Proof.
  intros H Hok s n t f v Htag. rewrite a_tag_aapply in Htag. rewrite a_decl_aapply.
  destruct x as [s' n' v' f' r|s' n' v' f'|s' n' t' f' v'|s' n' t' f'].
  - destruct (mem_str s' (apath a) && dkey_eqb (s, n, v, f) (s', n', v', f')); [discriminate|].
    apply (H s n t f v Htag).
  - destruct (is_some (a_decl a s' n' v' f')) eqn:Ed; cbn [andb] in *; [|apply (H s n t f v Htag)].
    destruct (tag_points a s' n' f' v' (s, n, t, f)) eqn:Ep; [discriminate|].
    destruct (dkey_eqb (s, n, v, f) (s', n', v', f')) eqn:Ek; [|apply (H s n t f v Htag)].
    apply dkey_eqb_eq in Ek. inversion Ek. subst. exfalso.
    unfold tag_points in Ep. rewrite !str_eqb_refl, Htag in Ep. cbn in Ep. rewrite str_eqb_refl in Ep. discriminate.
  - cbn in Hok.
    destruct (mem_str s' (apath a) && dkey_eqb (s, n, t, f) (s', n', t', f')) eqn:E.
    + apply andb_true_iff in E. destruct E as [_ E]. apply dkey_eqb_eq in E. inversion E. subst.
      inversion Htag. subst. exact Hok.
    + apply (H s n t f v Htag).
  - destruct (dkey_eqb (s, n, t, f) (s', n', t', f')); [discriminate|]. apply (H s n t f v Htag).
Qed.

Lemma aapply_all_no_dangling xs : forall a, no_dangling a -> acts_ok a xs -> no_dangling (aapply_all xs a).
Proof.
  induction xs as [|x xs IH]; intros a H Hok; [exact H|].
  rewrite aapply_all_cons. destruct Hok as [H1 H2]. apply IH; [|exact H2]. apply aapply_no_dangling; assumption.
Qed.

(* ---------------------------------------------------------------- what decide produces *)

Lemma find_exact_some a roots n v f s r :
  find_exact a roots n v f = Some (s, r) -> In s roots /\ a_decl a s n v f = Some r.
Proof.
  induction roots as [|s0 rs IH]; cbn; [discriminate|].
  destruct (a_decl a s0 n v f) as [x|] eqn:E.
  - intro H. inversion H. subst. auto.
  - intro H. destruct (IH H). auto.
Qed.

Lemma find_exact_none a roots n v f s :
  find_exact a roots n v f = None -> In s roots -> a_decl a s n v f = None.
Proof.
  induction roots as [|s0 rs IH]; cbn; [tauto|].
  destruct (a_decl a s0 n v f) as [x|] eqn:E; [discriminate|].
  intros H [->|Hin]; auto.
Qed.

Lemma declare_plan_target a o n v dir table t pl :
  declare_plan a o n v dir table t = Ok pl ->
  mem_str (dp_target pl) (apath a) = true /\
  dp_target pl = match o_stack o with Some s => s | None => hd generic (apath a) end.
Proof.
  unfold declare_plan.
  set (target := match o_stack o with Some s => Some s | None => hd_error (apath a) end).
  assert (Ht : forall tg, target = Some tg -> tg = match o_stack o with Some s => s | None => hd generic (apath a) end).
  { unfold target. intros tg E. destruct (o_stack o); [inversion E; reflexivity|].
    destruct (apath a); cbn in E; inversion E; reflexivity. }
  clearbody target.
  repeat match goal with
         | |- context [match ?x with _ => _ end] => destruct x eqn:?; try discriminate
         end;
    intro H; inversion H; subst; cbn [dp_target];
    (split; [|apply Ht; reflexivity]);
    match goal with
    | E : negb (mem_str _ _) = false |- _ => apply negb_false_iff in E; exact E
    end.
Qed.

Lemma a_decl_setdecl_same a s n v f r : mem_str s (apath a) = true -> a_decl (aapply (ASetDecl s n v f r) a) s n v f = Some r.
Proof. intro H. rewrite a_decl_aapply, H, dkey_eqb_refl. reflexivity. Qed.

(* actions on tags leave the declarations alone *)
Definition is_tag_act (x : aact) : Prop :=
  match x with ASetTag _ _ _ _ _ | ADelTag _ _ _ _ => True | _ => False end.

Lemma tag_acts_keep_decls xs : Forall is_tag_act xs ->
  forall a s n v f, a_decl (aapply_all xs a) s n v f = a_decl a s n v f.
Proof.
  induction 1 as [|x xs Hx _ IH]; intros a s n v f; [reflexivity|].
  rewrite aapply_all_cons, IH, a_decl_aapply. destruct x; cbn in Hx; try contradiction; reflexivity.
Qed.

Lemma deltags_tag_acts rs n x f : Forall is_tag_act (map (fun r => ADelTag r n x f) rs).
Proof. apply Forall_forall. intros y Hy. apply in_map_iff in Hy. destruct Hy as [r [<- _]]. exact I. Qed.

(* both orders of the tag move at once: the record (and the tag it carries), removals of the tag,
   ONE assignment in the target stack to the declared version, removals of the tag.  The pinned order
   has no removal after the assignment, the repaired order none before it *)
Lemma declare_finish_shape p a f n v pl acts :
  declare_finish p a f n v pl = Ok acts ->
  match dp_tag pl with
  | None => acts = declare_acts1 f n v pl
  | Some x => exists rs rs',
      acts = declare_acts1 f n v pl ++ map (fun r => ADelTag r n x f) rs ++
             (ASetTag (dp_target pl) n x f v :: map (fun r => ADelTag r n x f) rs') /\
      a_decl (aapply_all (declare_acts1 f n v pl) a) (dp_target pl) n v f <> None
  end.
Proof.
  unfold declare_finish. destruct p.
  - unfold declare_finish_old. destruct (dp_tag pl) as [x|]; [|intro H; inversion H; reflexivity].
    cbv zeta. destruct (find_exact _ _ n v f) as [[s' r]|] eqn:Ef; [|discriminate].
    intro H. inversion H. subst acts. apply find_exact_some in Ef. destruct Ef as [Hin Hd].
    assert (s' = dp_target pl) by (destruct Hin as [<-|[<-|[]]]; reflexivity). subst s'.
    rewrite (tag_acts_keep_decls _ (deltags_tag_acts _ _ _ _)) in Hd.
    eexists. exists []. split; [reflexivity|]. rewrite Hd. discriminate.
  - unfold declare_finish_new. destruct (dp_tag pl) as [x|]; [|intro H; inversion H; reflexivity].
    cbv zeta. destruct (find_exact _ _ n v f) as [[s' r]|] eqn:Ef; [|discriminate].
    intro H. inversion H. subst acts. apply find_exact_some in Ef. destruct Ef as [Hin Hd].
    assert (s' = dp_target pl) by (destruct Hin as [<-|[<-|[]]]; reflexivity). subst s'.
    exists []. eexists. split; [reflexivity|]. rewrite Hd. discriminate.
Qed.

Lemma declare_acts1_ok a f n v pl : mem_str (dp_target pl) (apath a) = true -> acts_ok a (declare_acts1 f n v pl).
Proof.
  intro Hm. unfold declare_acts1. destruct (dp_write pl); [|exact I]. cbn [acts_ok act_ok]. split; [exact I|].
  destruct (dp_tag pl); cbn [acts_ok act_ok]; [|exact I]. split; [|exact I].
  rewrite a_decl_setdecl_same by exact Hm. discriminate.
Qed.

Lemma deltags_not_settag rs n x f : Forall not_settag (map (fun r => ADelTag r n x f) rs).
Proof. apply Forall_forall. intros y Hy. apply in_map_iff in Hy. destruct Hy as [r0 [<- _]]. exact I. Qed.

Lemma declare_finish_ok p a f n v pl acts :
  mem_str (dp_target pl) (apath a) = true ->
  declare_finish p a f n v pl = Ok acts -> acts_ok a acts.
Proof.
  intros Hm H. apply declare_finish_shape in H.
  pose proof (declare_acts1_ok a f n v pl Hm) as H1.
  destruct (dp_tag pl) as [x|]; [|subst acts; exact H1].
  destruct H as [rs [rs' [-> Hd]]].
  apply acts_ok_app. split; [exact H1|]. apply acts_ok_app. split.
  - apply acts_ok_trivial. apply deltags_not_settag.
  - cbn [acts_ok act_ok]. split.
    + rewrite (tag_acts_keep_decls _ (deltags_tag_acts _ _ _ _)). exact Hd.
    + apply acts_ok_trivial. apply deltags_not_settag.
Qed.

Lemma unassign_acts_shape a o t n vo acts :
  unassign_acts a o t n vo = Ok acts -> acts = [] \/ exists s, acts = [ADelTag s n t (o_flavor o)].
Proof.
  unfold unassign_acts.
  repeat match goal with
         | |- context [match ?x with _ => _ end] => destruct x eqn:?; try discriminate
         end; intro H; inversion H; eauto.
Qed.

Lemma decide_acts_ok p a o acts : decide p a o = Ok acts -> acts_ok a acts.
Proof.
  destruct o as [o n v dir table t|o t n v|o t n vo|o n vo|o n vo t both|o n v]; cbn [decide].
  - unfold declare_acts. destruct (declare_plan a o n v dir table t) as [pl|e] eqn:Ep; [|discriminate].
    destruct (o_noaction o); [intro H; inversion H; exact I|].
    apply declare_finish_ok. apply (declare_plan_target _ _ _ _ _ _ _ _ Ep).
  - unfold assign_acts. destruct (find_exact a _ n v _) as [[s' r]|] eqn:E; [|discriminate].
    intro H. inversion H. subst. cbn. split; [|exact I]. apply find_exact_some in E. destruct E as [_ E].
    rewrite E. discriminate.
  - intro H. destruct (unassign_acts_shape _ _ _ _ _ _ H) as [->|[s ->]]; cbn; auto.
  - unfold undeclare_acts. destruct (undeclare_target a o n vo) as [[s' v]|]; [|discriminate].
    destruct (o_noaction o); intro H; inversion H; cbn; auto.
  - unfold undeclare_tag_acts. destruct both; cbn [negb].
    + destruct (undeclare_target a o n _) as [[s' v]|]; [|discriminate].
      destruct (o_noaction o); [intro H; inversion H; exact I|].
      intro H. inversion H. destruct (opt_str_eqb _ _); cbn; auto.
    + intro H. destruct (unassign_acts_shape _ _ _ _ _ _ H) as [->|[s ->]]; cbn; auto.
  - unfold remove_acts, undeclare_acts. destruct (find_exact a (apath a) n v _); [|discriminate].
    destruct (undeclare_target a _ n _) as [[s' v']|]; [|discriminate].
    cbn [o_noaction]. destruct (o_noaction o); intro H; inversion H; cbn; auto.
Qed.

Lemma astep_total_no_dangling p a o : no_dangling a -> no_dangling (astep_total p a o).
Proof.
  intro H. unfold astep_total, astep_gen. destruct (decide p a o) as [acts|e] eqn:E; [|exact H].
  apply aapply_all_no_dangling; [exact H|]. apply (decide_acts_ok _ _ _ _ E).
Qed.

Lemma step_total_no_dangling p d o : no_dangling (view d) -> no_dangling (view (step_total p d o)).
Proof.
  intro H. apply (no_dangling_aeq _ _ (aeq_sym _ _ (step_total_refines p d o))).
  apply astep_total_no_dangling. exact H.
Qed.

Lemma db_tag_empty path s n t f : db_tag (empty_db path) s n t f = None.
Proof.
  unfold db_tag, db_cfile, empty_db.
  destruct (alookup s (map (fun s0 => (s0, empty_stack)) path)) as [st|] eqn:E; [|reflexivity].
  apply alookup_In in E. apply in_map_iff in E. destruct E as [s0 [E _]]. inversion E. reflexivity.
Qed.

Lemma db_decl_empty path s n v f : db_decl (empty_db path) s n v f = None.
Proof.
  unfold db_decl, db_vfile, empty_db.
  destruct (alookup s (map (fun s0 => (s0, empty_stack)) path)) as [st|] eqn:E; [|reflexivity].
  apply alookup_In in E. apply in_map_iff in E. destruct E as [s0 [E _]]. inversion E. reflexivity.
Qed.

Lemma no_dangling_empty path : no_dangling (view (empty_db path)).
Proof. intros s n t f v H. rewrite a_tag_view, db_tag_empty in H. discriminate. Qed.

Lemma run_no_dangling p ops : forall d, no_dangling (view d) -> no_dangling (view (run p d ops)).
Proof.
  unfold run. induction ops as [|o ops IH]; intros d H; cbn [fold_left]; [exact H|].
  apply IH. apply step_total_no_dangling. exact H.
Qed.
