(* Library lemmas for Model/Db.v: generic association lists, key equalities. *)
From Eupsv Require Import Base.Base Base.BaseLemmas Model.Db.

Section GMap.
  Context {K V : Type} (eqb : K -> K -> bool).
  Hypothesis eqb_eq : forall a b, eqb a b = true <-> a = b.

  Lemma geqb_refl (a : K) : eqb a a = true.
  Proof using eqb_eq. apply eqb_eq. reflexivity. Qed.

  Lemma geqb_neq (a b : K) : a <> b -> eqb a b = false.
  Proof using eqb_eq.
    intro H. destruct (eqb a b) eqn:E; [|reflexivity]. apply eqb_eq in E. contradiction.
  Qed.

  Lemma geqb_dec (a b : K) : {a = b} + {a <> b}.
  Proof using eqb_eq.
    destruct (eqb a b) eqn:E.
    - left. apply eqb_eq. exact E.
    - right. intro H. apply eqb_eq in H. congruence.
  Qed.

  Lemma glookup_gset_same k (v : V) m : glookup eqb k (gset eqb k v m) = Some v.
  Proof using eqb_eq.
    induction m as [|[k' v'] m IH]; cbn.
    - rewrite geqb_refl. reflexivity.
    - destruct (eqb k k') eqn:E; cbn; [rewrite geqb_refl|rewrite E]; auto.
  Qed.

  Lemma glookup_gset_other k k' (v : V) m : k' <> k -> glookup eqb k' (gset eqb k v m) = glookup eqb k' m.
  Proof using eqb_eq.
    intro N. induction m as [|[k2 v2] m IH]; cbn.
    - rewrite (geqb_neq k' k N). reflexivity.
    - destruct (eqb k k2) eqn:E; cbn.
      + apply eqb_eq in E. subst k2. rewrite (geqb_neq k' k N). reflexivity.
      + destruct (eqb k' k2); auto.
  Qed.

  Lemma glookup_gset k k' (v : V) m :
    glookup eqb k' (gset eqb k v m) = if eqb k' k then Some v else glookup eqb k' m.
  Proof using eqb_eq.
    destruct (eqb k' k) eqn:E.
    - apply eqb_eq in E. subst. apply glookup_gset_same.
    - apply glookup_gset_other. intro H. subst. rewrite geqb_refl in E. discriminate.
  Qed.

  Lemma glookup_gremove k k' (m : list (K * V)) :
    glookup eqb k' (gremove eqb k m) = if eqb k' k then None else glookup eqb k' m.
  Proof using eqb_eq.
    induction m as [|[k2 v2] m IH]; cbn.
    - destruct (eqb k' k); reflexivity.
    - destruct (eqb k k2) eqn:E.
      + apply eqb_eq in E. subst k2. rewrite IH. destruct (eqb k' k); reflexivity.
      + cbn. destruct (eqb k' k2) eqn:E2.
        * apply eqb_eq in E2. subst k2.
          destruct (eqb k' k) eqn:E3; [|reflexivity].
          apply eqb_eq in E3. subst. rewrite geqb_refl in E. discriminate.
        * exact IH.
  Qed.

  Lemma glookup_gfilterk (p : K -> bool) k (m : list (K * V)) :
    glookup eqb k (gfilterk p m) = if p k then glookup eqb k m else None.
  Proof using eqb_eq.
    unfold gfilterk. induction m as [|[k2 v2] m IH]; cbn.
    - destruct (p k); reflexivity.
    - destruct (p k2) eqn:P2; cbn.
      + destruct (eqb k k2) eqn:E.
        * apply eqb_eq in E. subst. rewrite P2. reflexivity.
        * exact IH.
      + destruct (eqb k k2) eqn:E.
        * apply eqb_eq in E. subst. rewrite P2 in *. rewrite IH. reflexivity.
        * exact IH.
  Qed.

  Lemma glookup_In k (v : V) m : glookup eqb k m = Some v -> In (k, v) m.
  Proof using eqb_eq.
    induction m as [|[k2 v2] m IH]; cbn; [discriminate|].
    destruct (eqb k k2) eqn:E.
    - apply eqb_eq in E. subst. intro H. inversion H. auto.
    - auto.
  Qed.

  Lemma glookup_None_notin k (m : list (K * V)) : glookup eqb k m = None -> forall v, ~ In (k, v) m.
  Proof using eqb_eq.
    induction m as [|[k2 v2] m IH]; cbn; [tauto|].
    destruct (eqb k k2) eqn:E; [discriminate|].
    intros H v [H1|H1].
    - inversion H1. subst. rewrite geqb_refl in E. discriminate.
    - exact (IH H v H1).
  Qed.

  Lemma In_glookup_some k (v : V) m : In (k, v) m -> exists v', glookup eqb k m = Some v'.
  Proof using eqb_eq.
    intro H. destruct (glookup eqb k m) eqn:E; [eauto|].
    exfalso. exact (glookup_None_notin k m E v H).
  Qed.

  (* a list all of whose entries for key k carry the value f k *)
  Lemma glookup_functional (f : K -> option V) (m : list (K * V)) k :
    (forall k' v, In (k', v) m -> f k' = Some v) ->
    glookup eqb k m = if existsb (fun kv => eqb k (fst kv)) m then f k else None.
  Proof using eqb_eq.
    induction m as [|[k2 v2] m IH]; cbn; intro H; [reflexivity|].
    destruct (eqb k k2) eqn:E; cbn.
    - apply eqb_eq in E. subst. symmetry. apply H. auto.
    - apply IH. intros. apply H. auto.
  Qed.
End GMap.

(* ---------------------------------------------------------------- key equalities *)

Lemma key_eqb_eq (a b : key) : key_eqb a b = true <-> a = b.
Proof.
  destruct a as [a1 a2], b as [b1 b2]. unfold key_eqb. cbn.
  rewrite andb_true_iff, !str_eqb_eq. split; [intros [-> ->]; reflexivity|intro H; inversion H; auto].
Qed.

Lemma dkey_eqb_eq (a b : dkey) : dkey_eqb a b = true <-> a = b.
Proof.
  destruct a as [[[a1 a2] a3] a4], b as [[[b1 b2] b3] b4]. unfold dkey_eqb.
  rewrite !andb_true_iff, !str_eqb_eq. split.
  - intros [[[-> ->] ->] ->]. reflexivity.
  - intro H. inversion H. auto.
Qed.

Lemma vf_eqb_eq (a b : str * str) : vf_eqb a b = true <-> a = b.
Proof. exact (key_eqb_eq a b). Qed.

Lemma vrec_eqb_eq (a b : vrec) : vrec_eqb a b = true <-> a = b.
Proof. exact (key_eqb_eq a b). Qed.

Lemma key_eqb_refl k : key_eqb k k = true.
Proof. apply key_eqb_eq. reflexivity. Qed.

Lemma dkey_eqb_refl k : dkey_eqb k k = true.
Proof. apply dkey_eqb_eq. reflexivity. Qed.

Lemma opt_str_eqb_true o v : opt_str_eqb o v = true <-> o = Some v.
Proof.
  destruct o as [x|]; cbn.
  - rewrite str_eqb_eq. split; [intros ->; reflexivity|intro H; inversion H; reflexivity].
  - split; discriminate.
Qed.

Lemma is_some_true {A} (o : option A) : is_some o = true <-> o <> None.
Proof. destruct o; cbn; split; congruence. Qed.

Lemma is_some_false {A} (o : option A) : is_some o = false <-> o = None.
Proof. destruct o; cbn; split; congruence. Qed.

(* Base.amap is glookup with str_eqb *)
Lemma alookup_glookup {V} k (m : amap V) : alookup k m = glookup str_eqb k m.
Proof. induction m as [|[k' v] m IH]; cbn; [reflexivity|]. destruct (str_eqb k k'); auto. Qed.

Lemma alookup_aset {V} k k' (v : V) m : alookup k' (aset k v m) = if str_eqb k' k then Some v else alookup k' m.
Proof.
  destruct (str_eqb k' k) eqn:E.
  - apply str_eqb_eq in E. subst. apply alookup_aset_same.
  - apply alookup_aset_other. apply str_eqb_neq. exact E.
Qed.

Lemma alookup_aremove {V} k k' (m : amap V) : alookup k' (aremove k m) = if str_eqb k' k then None else alookup k' m.
Proof.
  destruct (str_eqb k' k) eqn:E.
  - apply str_eqb_eq in E. subst. apply alookup_aremove_same.
  - apply alookup_aremove_other. apply str_eqb_neq. exact E.
Qed.

Lemma alookup_In {V} k (v : V) m : alookup k m = Some v -> In (k, v) m.
Proof. rewrite alookup_glookup. apply glookup_In. exact str_eqb_eq. Qed.

Lemma In_alookup_some {V} k (v : V) m : In (k, v) m -> exists v', alookup k m = Some v'.
Proof. rewrite alookup_glookup. apply In_glookup_some. exact str_eqb_eq. Qed.

Lemma amem_true {V} k (m : amap V) : amem k m = true <-> alookup k m <> None.
Proof. unfold amem. destruct (alookup k m); split; congruence. Qed.

Lemma is_nil_true {A} (l : list A) : is_nil l = true <-> l = [].
Proof. destruct l; cbn; split; congruence. Qed.

Lemma aremove_nil_lookup {V} k (m : amap V) : aremove k m = [] -> forall k', k' <> k -> alookup k' m = None.
Proof.
  intros H k' N. rewrite <- (alookup_aremove_other k k' m N). rewrite H. reflexivity.
Qed.

Lemma existsb_false_forall {A} (p : A -> bool) l : existsb p l = false <-> forall x, In x l -> p x = false.
Proof.
  split.
  - intros H x Hx. destruct (p x) eqn:E; [|reflexivity].
    assert (existsb p l = true) by (apply existsb_exists; eauto). congruence.
  - intro H. destruct (existsb p l) eqn:E; [|reflexivity].
    apply existsb_exists in E. destruct E as [x [Hx Px]]. rewrite (H x Hx) in Px. discriminate.
Qed.
