(* The decisions of the commands depend on the view only through lookups, so equivalent
   views take the same decisions; hence the refinement extends from one command to every
   history. *)
From Eupsv Require Import Base.Base Base.BaseLemmas Model.Db Proofs.DbLib Proofs.Db.

Section Ext.
  Variables a b : adb.
  Hypothesis H : aeq a b.

  Let Hp : apath a = apath b := proj1 H.
  Let Hd : forall s n v f, a_decl a s n v f = a_decl b s n v f := proj1 (proj2 H).
  Let Ht : forall s n t f, a_tag a s n t f = a_tag b s n t f := proj2 (proj2 H).

  Lemma roots_of_ext so : roots_of a so = roots_of b so.
  Proof using H Hp. destruct so; cbn; congruence. Qed.

  Lemma find_exact_ext roots n v f : find_exact a roots n v f = find_exact b roots n v f.
  Proof using H Hd. induction roots as [|s r IH]; cbn; [reflexivity|]. rewrite Hd, IH. reflexivity. Qed.

  Lemma find_tagged_ext roots n t f : find_tagged a roots n t f = find_tagged b roots n t f.
  Proof using H Hd Ht.
    induction roots as [|s r IH]; cbn; [reflexivity|]. rewrite Ht, IH.
    destruct (a_tag b s n t f); [rewrite Hd|]; reflexivity.
  Qed.

  Lemma tagged_here_ext r n t fl : tagged_here a r n t fl = tagged_here b r n t fl.
  Proof using H Hd Ht. unfold tagged_here. rewrite Ht. destruct (a_tag b r n t fl); [rewrite Hd|]; reflexivity. Qed.
End Ext.

(* membership in the candidate lists, by lookups only *)
Lemma decl_versions_In a roots fls n v f :
  In (v, f) (decl_versions a roots fls n) <->
  exists s, mem_str s roots = true /\ mem_str f fls = true /\ a_decl a s n v f <> None.
Proof.
  unfold decl_versions. rewrite in_flat_map. split.
  - intros [[[[[s n'] v'] f'] r] [Hin Hx]]. cbn [fst] in Hx.
    destruct (str_eqb n' n && mem_str s roots && mem_str f' fls && is_some (a_decl a s n' v' f')) eqn:E;
      [|contradiction].
    destruct Hx as [Hx|[]]. inversion Hx. subst v' f'.
    apply andb_true_iff in E. destruct E as [E E4]. apply andb_true_iff in E. destruct E as [E E3].
    apply andb_true_iff in E. destruct E as [E1 E2]. apply str_eqb_eq in E1. subst n'.
    exists s. repeat split; auto. apply is_some_true. exact E4.
  - intros [s [H1 [H2 H3]]]. destruct (a_decl a s n v f) as [r|] eqn:E; [|congruence].
    pose proof (glookup_In dkey_eqb dkey_eqb_eq _ _ _ E) as Hin.
    exists ((s, n, v, f), r). split; [exact Hin|]. cbn [fst].
    rewrite str_eqb_refl, H1, H2, E. cbn. left. reflexivity.
Qed.

Lemma has_family_true a r n fl : has_family a r n fl = true <-> exists v, a_decl a r n v fl <> None.
Proof.
  unfold has_family. rewrite existsb_exists. split.
  - intros [[[[[s n'] v'] f'] x] [Hin E]]. cbn [fst] in E.
    apply andb_true_iff in E. destruct E as [E E4]. apply andb_true_iff in E. destruct E as [E E3].
    apply andb_true_iff in E. destruct E as [E1 E2]. apply str_eqb_eq in E1, E2, E3. subst.
    exists v'. apply is_some_true. exact E4.
  - intros [v Hv]. destruct (a_decl a r n v fl) as [x|] eqn:E; [|congruence].
    pose proof (glookup_In dkey_eqb dkey_eqb_eq _ _ _ E) as Hin.
    exists ((r, n, v, fl), x). split; [exact Hin|]. cbn [fst]. rewrite !str_eqb_refl, E. reflexivity.
Qed.

Lemma bool_ext (x y : bool) : (x = true <-> y = true) -> x = y.
Proof. destruct x, y; intros [H1 H2]; try reflexivity; [symmetry; apply H1; reflexivity | apply H2; reflexivity]. Qed.

Lemma has_family_ext a b r n fl : aeq a b -> has_family a r n fl = has_family b r n fl.
Proof.
  intros [_ [Hd _]]. apply bool_ext. rewrite !has_family_true.
  split; intros [v Hv]; exists v; [rewrite <- Hd|rewrite Hd]; exact Hv.
Qed.

Lemma classify_ext l l' : (forall x, In x l <-> In x l') -> classify l = classify l'.
Proof.
  intro H. destruct l as [|x r], l' as [|y r']; cbn [classify].
  - reflexivity.
  - exfalso. apply (proj2 (H y)). left. reflexivity.
  - exfalso. apply (proj1 (H x)). left. reflexivity.
  - destruct (forallb (vf_eqb x) r) eqn:E1.
    + assert (A1 : forall z, In z (x :: r) -> z = x).
      { intros z [Hz|Hz]; [auto|]. rewrite forallb_forall in E1. specialize (E1 z Hz).
        apply vf_eqb_eq in E1. auto. }
      assert (Hy : y = x) by (apply A1, H; left; reflexivity). subst y.
      assert (E2 : forallb (vf_eqb x) r' = true).
      { apply forallb_forall. intros z Hz. apply vf_eqb_eq. symmetry. apply A1, H. right. exact Hz. }
      rewrite E2. reflexivity.
    + destruct (forallb (vf_eqb y) r') eqn:E2; [|reflexivity].
      exfalso.
      assert (A2 : forall z, In z (y :: r') -> z = y).
      { intros z [Hz|Hz]; [auto|]. rewrite forallb_forall in E2. specialize (E2 z Hz).
        apply vf_eqb_eq in E2. auto. }
      assert (Hx : x = y) by (apply A2, H; left; reflexivity). subst y.
      assert (forallb (vf_eqb x) r = true); [|congruence].
      apply forallb_forall. intros z Hz. apply vf_eqb_eq. symmetry. apply A2, H. right. exact Hz.
Qed.

Lemma decl_versions_ext a b roots fls n : aeq a b ->
  forall x, In x (decl_versions a roots fls n) <-> In x (decl_versions b roots fls n).
Proof.
  intros [_ [Hd _]] [v f]. rewrite !decl_versions_In.
  split; intros [s [H1 [H2 H3]]]; exists s; repeat split; auto; [rewrite <- Hd|rewrite Hd]; exact H3.
Qed.

Lemma is_nil_ext {A} (l l' : list A) : (forall x, In x l <-> In x l') -> is_nil l = is_nil l'.
Proof.
  intro H. destruct l as [|x r], l' as [|y r']; cbn; auto.
  - exfalso. apply (proj2 (H y)). left. reflexivity.
  - exfalso. apply (proj1 (H x)). left. reflexivity.
Qed.

Lemma findable_ext a b n fls : aeq a b -> findable a n fls = findable b n fls.
Proof.
  intro H. unfold findable. f_equal. rewrite (proj1 H).
  apply is_nil_ext. apply decl_versions_ext. exact H.
Qed.

Lemma find_tagged_raw_ext a b roots n t f : aeq a b -> find_tagged_raw a roots n t f = find_tagged_raw b roots n t f.
Proof.
  intro H. unfold find_tagged_raw. induction roots as [|r rs IH]; cbn [flat_map]; [reflexivity|].
  rewrite IH. f_equal. cbn [fallbacks flat_map].
  rewrite !(has_family_ext a b _ _ _ H), !(tagged_here_ext a b H), (proj1 H), (find_tagged_ext a b H).
  reflexivity.
Qed.

Lemma occurrences_ext p a b n t f : aeq a b -> occurrences p a n t f = occurrences p b n t f.
Proof.
  intro H. unfold occurrences, find_tagged_all. rewrite (find_tagged_raw_ext a b _ _ _ _ H), (proj1 H).
  destruct p; [reflexivity|]. apply filter_ext. intro r. rewrite (find_tagged_ext a b H). reflexivity.
Qed.

Lemma declare_plan_ext a b o n v dir table t : aeq a b ->
  declare_plan a o n v dir table t = declare_plan b o n v dir table t.
Proof.
  intro H. unfold declare_plan. cbn [fallbacks map first_some].
  rewrite !(roots_of_ext a b H), !(find_exact_ext a b H), (proj1 H), (findable_ext a b _ _ H).
  destruct dir as [d|], table as [tb|], t as [t|]; cbn [first_some];
    repeat (rewrite ?(proj1 (proj2 H));
            match goal with
            | |- ?l = ?r => first [ constr_eq l r; reflexivity | fail 1 ]
            | |- context [match ?x with _ => _ end] =>
                match x with
                | context [a] => fail 1
                | _ => destruct x eqn:?
                end
            end); reflexivity.
Qed.

Lemma other_occurrences_ext a b s0 n t f : aeq a b -> other_occurrences a s0 n t f = other_occurrences b s0 n t f.
Proof.
  intro H. unfold other_occurrences. rewrite (proj1 H). apply filter_ext. intro r.
  rewrite (find_tagged_ext a b H). reflexivity.
Qed.

Lemma declare_finish_old_ext p a b f n v pl : aeq a b ->
  declare_finish_old p a f n v pl = declare_finish_old p b f n v pl.
Proof.
  intro H. unfold declare_finish_old.
  destruct (dp_tag pl) as [x|]; [|reflexivity].
  set (acts1 := declare_acts1 f n v pl).
  assert (H1 : aeq (aapply_all acts1 a) (aapply_all acts1 b)) by (apply aapply_all_aeq; exact H).
  rewrite (occurrences_ext p _ _ n x f H1).
  set (acts2 := map _ _).
  assert (H2 : aeq (aapply_all acts2 (aapply_all acts1 a)) (aapply_all acts2 (aapply_all acts1 b)))
    by (apply aapply_all_aeq; exact H1).
  rewrite (find_exact_ext _ _ H2). reflexivity.
Qed.

Lemma declare_finish_new_ext a b f n v pl : aeq a b ->
  declare_finish_new a f n v pl = declare_finish_new b f n v pl.
Proof.
  intro H. unfold declare_finish_new.
  destruct (dp_tag pl) as [x|]; [|reflexivity].
  set (acts1 := declare_acts1 f n v pl).
  assert (H1 : aeq (aapply_all acts1 a) (aapply_all acts1 b)) by (apply aapply_all_aeq; exact H).
  rewrite (find_exact_ext _ _ H1).
  destruct (find_exact (aapply_all acts1 b) _ n v f) as [[s' r]|]; [|reflexivity].
  rewrite (other_occurrences_ext _ _ s' n x f (aapply_aeq (ASetTag s' n x f v) _ _ H1)). reflexivity.
Qed.

Lemma declare_finish_ext p a b f n v pl : aeq a b -> declare_finish p a f n v pl = declare_finish p b f n v pl.
Proof.
  intro H. unfold declare_finish. destruct p; [apply declare_finish_old_ext|apply declare_finish_new_ext]; exact H.
Qed.

Lemma unassign_acts_ext a b o t n vo : aeq a b -> unassign_acts a o t n vo = unassign_acts b o t n vo.
Proof.
  intro H. unfold unassign_acts. destruct vo as [v|].
  - rewrite (roots_of_ext a b H), (find_exact_ext a b H).
    destruct (find_exact b _ n v _) as [[s' r]|]; [|reflexivity].
    rewrite (proj2 (proj2 H)). reflexivity.
  - rewrite (proj1 H), !(find_tagged_ext a b H). reflexivity.
Qed.

Lemma undeclare_target_ext a b o n vo : aeq a b -> undeclare_target a o n vo = undeclare_target b o n vo.
Proof.
  intro H. unfold undeclare_target.
  rewrite !(roots_of_ext a b H).
  destruct vo as [v|].
  - rewrite (find_exact_ext a b H). reflexivity.
  - rewrite (classify_ext _ _ (decl_versions_ext a b _ _ n H)).
    destruct (classify _); try reflexivity. rewrite (find_exact_ext a b H). reflexivity.
Qed.

Lemma decide_ext p a b o : aeq a b -> decide p a o = decide p b o.
Proof.
  intro H. destruct o as [o n v dir table t|o t n v|o t n vo|o n vo|o n vo t both|o n v]; cbn [decide].
  - unfold declare_acts. rewrite (declare_plan_ext a b _ _ _ _ _ _ H).
    destruct (declare_plan b o n v dir table t) as [pl|e]; [|reflexivity].
    destruct (o_noaction o); [reflexivity|]. apply declare_finish_ext. exact H.
  - unfold assign_acts. rewrite (roots_of_ext a b H), (find_exact_ext a b H). reflexivity.
  - apply unassign_acts_ext. exact H.
  - unfold undeclare_acts. rewrite (undeclare_target_ext a b _ _ _ H). reflexivity.
  - unfold undeclare_tag_acts. destruct both; cbn [negb]; [|apply unassign_acts_ext; exact H].
    unfold find_tagged_all. rewrite (roots_of_ext a b H), (find_tagged_raw_ext a b _ _ _ _ H).
    rewrite (undeclare_target_ext a b _ _ _ H).
    destruct (undeclare_target b o n _) as [[s' v']|e]; [|reflexivity].
    rewrite (proj2 (proj2 H)). reflexivity.
  - unfold remove_acts, undeclare_acts. rewrite (find_exact_ext a b H), (proj1 H).
    rewrite (undeclare_target_ext a b _ _ _ H). reflexivity.
Qed.

Lemma astep_total_aeq p a b o : aeq a b -> aeq (astep_total p a o) (astep_total p b o).
Proof.
  intro H. unfold astep_total, astep_gen. rewrite (decide_ext p a b o H).
  destruct (decide p b o); [apply aapply_all_aeq|]; exact H.
Qed.

Lemma arun_aeq p ops : forall a b, aeq a b -> aeq (arun p a ops) (arun p b ops).
Proof.
  unfold arun. induction ops as [|o ops IH]; intros a b H; cbn; [exact H|].
  apply IH. apply astep_total_aeq. exact H.
Qed.

(* every history: the view of the files after the commands is the abstract run on the view before *)
Lemma run_refines p ops : forall d, aeq (view (run p d ops)) (arun p (view d) ops).
Proof.
  unfold run, arun. induction ops as [|o ops IH]; intro d; cbn [fold_left]; [apply aeq_refl|].
  eapply aeq_trans; [apply IH|]. apply (arun_aeq p ops). apply step_total_refines.
Qed.
