(* The decisions of the commands depend on the view only through lookups, so equivalent
   views take the same decisions; hence the refinement extends from one command to every
   history. *)
From Eupsv Require Import Base.Base Base.BaseLemmas Model.Db Proofs.DbLib Proofs.Db.

Section Ext.
  Variables a b : adb.
  Hypothesis H : aeq a b.

  Let Hp : apath a = apath b := proj1 H.
  Let Hd : forall s n v f, a_decl a s n v f = a_decl b s n v f := proj1 (proj2 H).
  Let Ht : forall s n t f, a_tag a s n t f = a_tag b s n t f := proj2 (proj2 H).

  Lemma roots_of_ext so : roots_of a so = roots_of b so.
  Proof using H Hp. destruct so; cbn; congruence. Qed.

  Lemma find_exact_ext roots n v f : find_exact a roots n v f = find_exact b roots n v f.
  Proof using H Hd. induction roots as [|s r IH]; cbn; [reflexivity|]. rewrite Hd, IH. reflexivity. Qed.

  Lemma find_tagged_ext roots n t f : find_tagged a roots n t f = find_tagged b roots n t f.
  Proof using H Hd Ht.
    induction roots as [|s r IH]; cbn; [reflexivity|]. rewrite Ht, IH.
    destruct (a_tag b s n t f); [rewrite Hd|]; reflexivity.
  Qed.

  Lemma tagged_here_ext r n t fl : tagged_here a r n t fl = tagged_here b r n t fl.
  Proof using H Hd Ht. unfold tagged_here. rewrite Ht. destruct (a_tag b r n t fl); [rewrite Hd|]; reflexivity. Qed.
End Ext.

(* membership in the candidate lists, by lookups only *)
Lemma decl_versions_In a roots fls n v f :
  In (v, f) (decl_versions a roots fls n) <->
  exists s, mem_str s roots = true /\ mem_str f fls = true /\ a_decl a s n v f <> None.
Proof.
  unfold decl_versions. rewrite in_flat_map. split.
  - intros [[[[[s n'] v'] f'] r] [Hin Hx]]. cbn [fst] in Hx.
    destruct (str_eqb n' n && mem_str s roots && mem_str f' fls && is_some (a_decl a s n' v' f')) eqn:E;
      [|contradiction].
    destruct Hx as [Hx|[]]. inversion Hx. subst v' f'.
    apply andb_true_iff in E. destruct E as [E E4]. apply andb_true_iff in E. destruct E as [E E3].
    apply andb_true_iff in E. destruct E as [E1 E2]. apply str_eqb_eq in E1. subst n'.
    exists s. repeat split; auto. apply is_some_true. exact E4.
  - intros [s [H1 [H2 H3]]]. destruct (a_decl a s n v f) as [r|] eqn:E; [|congruence].
    pose proof (glookup_In dkey_eqb dkey_eqb_eq _ _ _ E) as Hin.
    exists ((s, n, v, f), r). split; [exact Hin|]. cbn [fst].
    rewrite str_eqb_refl, H1, H2, E. cbn. left. reflexivity.
Qed.

Lemma has_family_true a r n fl : has_family a r n fl = true <-> exists v, a_decl a r n v fl <> None.
Proof.
  unfold has_family. rewrite existsb_exists. split.
  - intros [[[[[s n'] v'] f'] x] [Hin E]]. cbn [fst] in E.
    apply andb_true_iff in E. destruct E as [E E4]. apply andb_true_iff in E. destruct E as [E E3].
    apply andb_true_iff in E. destruct E as [E1 E2]. apply str_eqb_eq in E1, E2, E3. subst.
    exists v'. apply is_some_true. exact E4.
  - intros [v Hv]. destruct (a_decl a r n v fl) as [x|] eqn:E; [|congruence].
    pose proof (glookup_In dkey_eqb dkey_eqb_eq _ _ _ E) as Hin.
    exists ((r, n, v, fl), x). split; [exact Hin|]. cbn [fst]. rewrite !str_eqb_refl, E. reflexivity.
Qed.

Lemma bool_ext (x y : bool) : (x = true <-> y = true) -> x = y.
Proof. destruct x, y; intros [H1 H2]; try reflexivity; [symmetry; apply H1; reflexivity | apply H2; reflexivity]. Qed.

Lemma has_family_ext a b r n fl : aeq a b -> has_family a r n fl = has_family b r n fl.
Proof.
  intros [_ [Hd _]]. apply bool_ext. rewrite !has_family_true.
  split; intros [v Hv]; exists v; [rewrite <- Hd|rewrite Hd]; exact Hv.
Qed.

Lemma classify_ext l l' : (forall x, In x l <-> In x l') -> classify l = classify l'.
Proof.
  intro H. destruct l as [|x r], l' as [|y r']; cbn [classify].
  - reflexivity.
  - exfalso. apply (proj2 (H y)). left. reflexivity.
  - exfalso. apply (proj1 (H x)). left. reflexivity.
  - destruct (forallb (vf_eqb x) r) eqn:E1.
    + assert (A1 : forall z, In z (x :: r) -> z = x).
      { intros z [Hz|Hz]; [auto|]. rewrite forallb_forall in E1. specialize (E1 z Hz).
        apply vf_eqb_eq in E1. auto. }
      assert (Hy : y = x) by (apply A1, H; left; reflexivity). subst y.
      assert (E2 : forallb (vf_eqb x) r' = true).
      { apply forallb_forall. intros z Hz. apply vf_eqb_eq. symmetry. apply A1, H. right. exact Hz. }
      rewrite E2. reflexivity.
    + destruct (forallb (vf_eqb y) r') eqn:E2; [|reflexivity].
      exfalso.
      assert (A2 : forall z, In z (y :: r') -> z = y).
      { intros z [Hz|Hz]; [auto|]. rewrite forallb_forall in E2. specialize (E2 z Hz).
        apply vf_eqb_eq in E2. auto. }
      assert (Hx : x = y) by (apply A2, H; left; reflexivity). subst y.
      assert (forallb (vf_eqb x) r = true); [|congruence].
      apply forallb_forall. intros z Hz. apply vf_eqb_eq. symmetry. apply A2, H. right. exact Hz.
Qed.

Lemma decl_versions_ext a b roots fls n : aeq a b ->
  forall x, In x (decl_versions a roots fls n) <-> In x (decl_versions b roots fls n).
Proof.
  intros [_ [Hd _]] [v f]. rewrite !decl_versions_In.
  split; intros [s [H1 [H2 H3]]]; exists s; repeat split; auto; [rewrite <- Hd|rewrite Hd]; exact H3.
Qed.

Lemma is_nil_ext {A} (l l' : list A) : (forall x, In x l <-> In x l') -> is_nil l = is_nil l'.
Proof.
  intro H. destruct l as [|x r], l' as [|y r']; cbn; auto.
  - exfalso. apply (proj2 (H y)). left. reflexivity.
  - exfalso. apply (proj1 (H x)). left. reflexivity.
Qed.

Lemma findable_ext a b n fls : aeq a b -> findable a n fls = findable b n fls.
Proof.
  intro H. unfold findable. f_equal. rewrite (proj1 H).
  apply is_nil_ext. apply decl_versions_ext. exact H.
Qed.

Lemma find_tagged_raw_ext a b roots n t f : aeq a b -> find_tagged_raw a roots n t f = find_tagged_raw b roots n t f.
Proof.
  intro H. unfold find_tagged_raw. induction roots as [|r rs IH]; cbn [flat_map]; [reflexivity|].
  rewrite IH. f_equal. cbn [fallbacks flat_map].
  rewrite !(has_family_ext a b _ _ _ H), !(tagged_here_ext a b H), (proj1 H), (find_tagged_ext a b H).
  reflexivity.
Qed.

Lemma occurrences_ext p a b n t f : aeq a b -> occurrences p a n t f = occurrences p b n t f.
Proof.
  intro H. unfold occurrences, find_tagged_all. rewrite (find_tagged_raw_ext a b _ _ _ _ H), (proj1 H).
  destruct p; [reflexivity|]. apply filter_ext. intro r. rewrite (find_tagged_ext a b H). reflexivity.
Qed.

Lemma declare_plan_ext a b o n v dir table t : aeq a b ->
  declare_plan a o n v dir table t = declare_plan b o n v dir table t.
Proof.
  intro H. unfold declare_plan. cbn [fallbacks map first_some].
  rewrite !(roots_of_ext a b H), !(find_exact_ext a b H), (proj1 H), (findable_ext a b _ _ H).
  destruct dir as [d|], table as [tb|], t as [t|]; cbn [first_some];
    repeat (rewrite ?(proj1 (proj2 H));
            match goal with
            | |- ?l = ?r => first [ constr_eq l r; reflexivity | fail 1 ]
            | |- context [match ?x with _ => _ end] =>
                match x with
                | context [a] => fail 1
                | _ => destruct x eqn:?
                end
            end); reflexivity.
Qed.
