(* Relocation (C16), part A: what Database.declare stores.
   canonicalizePaths, addFlavor and the trimDir loop of write on the declared forms.
   The stack is named root (the name on EUPS_PATH, which every declared path inside the stack
   begins with); rroot is the directory that name resolves to.  Without symbolic links the
   two are the same. *)
From Eupsv Require Import Base.Base Base.BaseLemmas Model.Paths Model.Records
  Proofs.RecordsLib Proofs.PathsLib Proofs.Records Proofs.Paths Proofs.Links.
From Coq Require Import Lia.

(* o is not the stack root nor below it *)
Definition outside (root o : str) : bool :=
  negb (str_eqb o root) && negb (starts_with (root ++ [c_slash]) o).

Definition wf_place (root : str) (dk : dirk) : bool :=
  match dk with DOut o => outside root o | _ => true end.

Lemma if_same {A} (b : bool) (x : A) : (if b then x else x) = x.
Proof. now destruct b. Qed.

Lemma app_cons_assoc {A} (a : list A) c b : a ++ c :: b = (a ++ [c]) ++ b.
Proof. now rewrite <- app_assoc. Qed.

Lemma starts_with_sep (a : str) (c : ascii) (b : str) : starts_with (a ++ [c]) (a ++ c :: b) = true.
Proof. rewrite (app_cons_assoc a c b). apply starts_with_refl. Qed.

Lemma dir_stored_props dk : wf_dirk dk = true ->
  nonempty (dir_stored dk) = true /\ ends_slash (dir_stored dk) = false.
Proof.
  destruct dk as [d|o|]; cbn; intro H.
  - apply wf_rel_parts in H. tauto.
  - pose proof (wf_abs_nonempty _ H). apply wf_abs_parts in H. destruct o; [congruence|]. tauto.
  - split; reflexivity.
Qed.

Lemma dir_given_truthy root dk : wf_abs root = true -> wf_dirk dk = true ->
  truthy (Some (dir_given root dk)) = true.
Proof.
  intros HR Hd. destruct dk as [d|o|]; cbn [dir_given].
  - apply isabs_truthy, isabs_app. apply wf_abs_parts in HR. tauto.
  - apply isabs_truthy. cbn in Hd. apply wf_abs_parts in Hd. tauto.
  - reflexivity.
Qed.

(* ------------------------------------------------------------ canonicalizePaths *)

Lemma canon_dir_dk root dk :
  wf_abs root = true -> wf_dirk dk = true -> wf_place root dk = true ->
  canon_dir root (Some (dir_given root dk)) = Some (dir_stored dk).
Proof.
  intros HR Hd Hp. destruct dk as [d|o|]; cbn [dir_given dir_stored wf_dirk wf_place] in *.
  - unfold canon_dir. rewrite isabs_real by (apply isabs_app; apply wf_abs_parts in HR; tauto).
    rewrite starts_with_sep. cbn [andb]. f_equal. rewrite Nat.add_1_r. apply skipn_S_app_len.
  - unfold canon_dir. unfold outside in Hp. apply andb_true_iff in Hp. destruct Hp as [_ Hp].
    apply negb_true_iff in Hp. now rewrite Hp, andb_false_r.
  - reflexivity.
Qed.

(* the table file and ups dir forms that canonicalizePaths leaves alone *)
Definition canon_keeps (root : str) (t : str) (u : val) : Prop :=
  (isabs t = true /\ u = Some s_ups /\ starts_with (db_of root ++ [c_slash]) t = false)
  \/ (isabs t = false /\ match u with Some s => isabs s = false | None => True end).

Lemma canon_table_keeps root dir t u :
  canon_keeps root t u ->
  canon_table true dir (Some (db_of root)) (Some t) u = (Some t, u).
Proof.
  intros [[H1 [-> H3]] | [H1 H2]]; unfold canon_table.
  - rewrite H1, isabs_real by assumption. cbn [andb]. rewrite H3, andb_false_r.
    unfold strip_rel. change (is_real (Some s_ups)) with true. cbv iota.
    destruct (isabs_cons t H1) as [r ->]. reflexivity.
  - now rewrite H1, andb_false_r.
Qed.

Lemma canon_ups_keeps dir db t u root :
  canon_keeps root t u -> canon_ups dir db u = u.
Proof.
  intros [[_ [-> _]] | [_ H2]]; [reflexivity|]. destruct u as [s|]; [|reflexivity].
  unfold canon_ups. now rewrite H2, andb_false_r.
Qed.

Lemma canon_scenario n v f root dk t u :
  wf_abs root = true -> wf_dirk dk = true -> wf_place root dk = true -> canon_keeps root t u ->
  canon_gen true (prod_of n v f (Some (dir_given root dk)) (Some t) (Some (db_of root)) u)
  = prod_of n v f (Some (dir_stored dk)) (Some t) (Some (db_of root)) u.
Proof.
  intros HR Hd Hp Hk. unfold canon_gen, prod_of. rewrite stack_root_db by assumption.
  rewrite isabs_real by (apply wf_abs_parts in HR; tauto). cbn [negb].
  cbn [p_name p_version p_flavor p_dir p_table p_db p_ups canon_defaults fst snd].
  rewrite canon_table_keeps by assumption. cbn [fst snd].
  rewrite (canon_ups_keeps _ _ t u root) by assumption.
  now rewrite canon_dir_dk.
Qed.

(* ------------------------------------------------------------ addFlavor for a flavor that is new to the file *)

Definition ups_word (u : val) : str := match u with Some s => s | None => s_none end.

(* the ups dir forms that addFlavor stores unchanged: a relative path without trailing slash, or None *)
Definition ups_plain (u : val) : Prop :=
  match u with Some s => nonempty s = true /\ isabs s = false /\ ends_slash s = false | None => True end.

Lemma af_dir_stored dk : wf_dirk dk = true ->
  af_dir (Some (dir_stored dk)) = ([(k_productDir, Some (dir_stored dk))], Some (dir_stored dk)).
Proof.
  intro H. destruct (dir_stored_props dk H) as [H1 H2]. unfold af_dir.
  destruct (dir_stored dk) as [|c x] eqn:E; [discriminate|]. now rewrite rstrip_slash_id.
Qed.

Lemma af_ups_plain inst u : ups_plain u -> af_ups inst u = Some (ups_word u).
Proof.
  destruct u as [s|]; [|reflexivity]. intros [H1 [H2 H3]]. unfold af_ups.
  destruct s as [|c x]; [discriminate|]. rewrite rstrip_slash_id by assumption.
  now rewrite H2, !andb_false_r.
Qed.

(* the table file is not below the install dir (or that is not a real directory name) *)
Definition under_dir (dS t : str) : bool :=
  is_real (Some dS) && isabs t && starts_with (dS ++ [c_slash]) t.

Lemma af_table_keep i1 dS u t : nonempty t = true -> under_dir dS t = false ->
  af_table i1 (Some dS) u (Some t) = (i1 ++ [(k_table_file, Some t)], u).
Proof.
  intros Ht H. unfold af_table. destruct t as [|c x]; [discriminate|].
  unfold under_dir in H. destruct (truthy (Some dS)); cbn [andb]; [rewrite H|]; reflexivity.
Qed.

Definition block_of (who now : str) (dS t U : str) : info :=
  [(k_productDir, Some dS); (k_table_file, Some t); (k_ups_dir, Some U);
   (k_declarer, Some who); (k_declared, Some now)].

Lemma add_flavor_fresh who now f dk t u r :
  wf_dirk dk = true -> alookup f (vf_info r) = None ->
  nonempty t = true -> under_dir (dir_stored dk) t = false -> ups_plain u ->
  add_flavor who now f (Some (dir_stored dk)) (Some t) u r
  = {| vf_name := vf_name r; vf_version := vf_version r;
       vf_info := vf_info r ++ [(f, block_of who now (dir_stored dk) t (ups_word u))] |}.
Proof.
  intros Hd Hf Ht Hu Hp. unfold add_flavor. rewrite Hf. unfold old_value.
  destruct (dir_stored_props dk Hd) as [D1 D2].
  rewrite !if_same. rewrite af_dir_stored by assumption. cbn [fst snd].
  rewrite af_table_keep by assumption. cbn [fst snd].
  rewrite af_ups_plain by assumption.
  rewrite aset_fresh by (apply alookup_None_notin in Hf; exact Hf). reflexivity.
Qed.

(* a table file in the ups directory of an outside product: stripped by addFlavor itself *)
Lemma af_table_ups_out i1 o tn :
  wf_abs o = true -> nonempty tn = true -> mem_ascii c_slash tn = false ->
  af_table i1 (Some o) (Some s_ups) (Some (o ++ c_slash :: s_ups ++ c_slash :: tn))
  = (i1 ++ [(k_table_file, Some tn)], Some s_ups).
Proof.
  intros Ho Ht Hs. apply wf_abs_parts in Ho. destruct Ho as [O1 [O2 O3]].
  assert (Eabs : isabs (o ++ c_slash :: s_ups ++ c_slash :: tn) = true) by now apply isabs_app.
  unfold af_table. destruct (isabs_cons _ Eabs) as [rest Erest]. rewrite Erest. rewrite <- Erest.
  rewrite (isabs_truthy _ O1), (isabs_real _ O1), Eabs. cbn [andb].
  rewrite starts_with_sep. rewrite after_app. change (str_eqb s_ups s_none) with false. cbn [negb].
  rewrite dirname_app by (assumption || discriminate || reflexivity).
  rewrite basename_app by assumption.
  destruct s_ups as [|a l] eqn:E; [discriminate E|]. reflexivity.
Qed.

Lemma add_flavor_fresh_ups_out who now f o tn r :
  wf_abs o = true -> alookup f (vf_info r) = None ->
  nonempty tn = true -> mem_ascii c_slash tn = false ->
  add_flavor who now f (Some o) (Some (o ++ c_slash :: s_ups ++ c_slash :: tn)) (Some s_ups) r
  = {| vf_name := vf_name r; vf_version := vf_version r;
       vf_info := vf_info r ++ [(f, block_of who now o tn s_ups)] |}.
Proof.
  intros Ho Hf Ht Hs. unfold add_flavor. rewrite Hf. unfold old_value. rewrite !if_same.
  pose proof (af_dir_stored (DOut o) Ho) as Ed. cbn [dir_stored] in Ed. rewrite Ed. cbn [fst snd].
  rewrite af_table_ups_out by assumption. cbn [fst snd].
  rewrite (af_ups_plain (Some o) (Some s_ups)) by (repeat split; reflexivity).
  rewrite aset_fresh by (apply alookup_None_notin in Hf; exact Hf). reflexivity.
Qed.

(* ------------------------------------------------------------ the trimDir loop of write *)

Definition rp (pe : penv) (s : str) : str := realpath (pe_links pe) s.

(* a value the loop leaves alone: it is relative, or it does not exist, or its resolved name
   is not below the resolved stack root *)
Definition inert_val (pe : penv) (ex : str -> bool) (rroot s : str) : Prop :=
  isabs s = false \/ ex s = false \/ subpath_abs (rp pe s) rroot = false.

Lemma trim_key_inert pe ex root rroot k (i : info) :
  isabs root = true -> rp pe root = rroot ->
  (forall s, alookup k i = Some (Some s) -> inert_val pe ex rroot s) ->
  trim_key true pe ex (Some root) k i = Ok i.
Proof.
  intros HA HR H. unfold trim_key. destruct (alookup k i) as [[s|]|] eqn:E; try reflexivity.
  cbn [andb]. destruct (isabs s) eqn:A; cbn [negb]; [|reflexivity].
  rewrite (abs_from_abs _ _ A).
  destruct (H s eq_refl) as [H1|[H1|H1]].
  - congruence.
  - now rewrite H1.
  - destruct (ex s); [|reflexivity]. cbn [negb]. destruct root as [|c r]; [reflexivity|].
    rewrite (abs_from_abs _ _ HA). unfold rp in *. rewrite HR, H1. reflexivity.
Qed.

Lemma trim_keys_inert pe ex root rroot keys (i : info) :
  isabs root = true -> rp pe root = rroot ->
  (forall k s, alookup k i = Some (Some s) -> inert_val pe ex rroot s) ->
  trim_keys true pe ex (Some root) keys i = Ok i.
Proof.
  intros HA HR H. induction keys as [|k ks IH]; [reflexivity|]. cbn [trim_keys].
  rewrite (trim_key_inert pe ex root rroot) by (assumption || (intros s E; exact (H k s E))). exact IH.
Qed.

Lemma trim_all_inert pe ex root rroot (m : amap info) :
  isabs root = true -> rp pe root = rroot ->
  (forall g j, In (g, j) m -> forall k s, alookup k j = Some (Some s) -> inert_val pe ex rroot s) ->
  trim_all true pe ex (Some root) m = Ok m.
Proof.
  intros HA HR. induction m as [|[g j] m IH]; intro H; [reflexivity|]. cbn [trim_all].
  unfold trim_info_gen.
  rewrite (trim_keys_inert pe ex root rroot) by (assumption || (intros k s; apply (H g j); now left)).
  cbn [bind]. rewrite IH; [reflexivity|]. intros g' j' Hin. apply (H g' j'). now right.
Qed.

Lemma trim_all_app_last pe ex root (m : amap info) f i i' :
  trim_all true pe ex (Some root) m = Ok m -> trim_info pe ex (Some root) i = Ok i' ->
  trim_all true pe ex (Some root) (m ++ [(f, i)]) = Ok (m ++ [(f, i')]).
Proof.
  induction m as [|[g j] m IH]; intros H T; cbn [app trim_all].
  - unfold trim_info in T. rewrite T. reflexivity.
  - cbn [trim_all] in H. destruct (trim_info_gen true pe ex (Some root) j) as [j'|]; [|discriminate].
    cbn [bind] in *. destruct (trim_all true pe ex (Some root) m) as [m'|] eqn:Em; [|discriminate].
    cbn [bind] in H. injection H as -> ->. rewrite (IH eq_refl T). reflexivity.
Qed.

Lemma subpath_abs_outside rroot p : wf_abs rroot = true -> outside rroot p = true ->
  subpath_abs p rroot = false.
Proof.
  intros HR H. pose proof (wf_abs_nonempty _ HR) as NR.
  apply wf_abs_parts in HR. destruct HR as [R1 [R2 _]].
  unfold outside in H. apply andb_true_iff in H. destruct H as [H1 H2]. apply negb_true_iff in H1, H2.
  unfold subpath_abs. rewrite path_join_nil by assumption. now rewrite H1, H2.
Qed.

(* an outside directory resolves to a place outside the resolved stack root *)
Definition out_dir (pe : penv) (rroot : str) (dk : dirk) : Prop :=
  match dk with DOut o => outside rroot (rp pe o) = true | _ => True end.

Lemma dir_stored_inert pe ex rroot dk :
  wf_abs rroot = true -> wf_dirk dk = true -> out_dir pe rroot dk ->
  inert_val pe ex rroot (dir_stored dk).
Proof.
  intros HR Hd Hp. destruct dk as [d|o|]; cbn [dir_stored wf_dirk out_dir] in *.
  - left. apply wf_rel_parts in Hd. tauto.
  - right. right. now apply subpath_abs_outside.
  - left. reflexivity.
Qed.

Lemma rel_inert pe ex rroot s : isabs s = false -> inert_val pe ex rroot s.
Proof. intro H. now left. Qed.

(* the block of a flavor whose table file needs no trimming *)
Lemma trim_block_inert pe ex root rroot who now dS t U :
  isabs root = true -> rp pe root = rroot ->
  inert_val pe ex rroot dS -> inert_val pe ex rroot t -> inert_val pe ex rroot U ->
  ex who = false -> ex now = false ->
  trim_info pe ex (Some root) (block_of who now dS t U) = Ok (block_of who now dS t U).
Proof.
  intros HA HR H1 H2 H3 H4 H5. unfold trim_info, trim_info_gen.
  apply (trim_keys_inert pe ex root rroot); [assumption|assumption|].
  intros k s. unfold block_of. cbn [alookup].
  repeat match goal with
         | |- (if ?b then _ else _) = _ -> _ => destruct b
         end; intros [= <-]; auto; right; now left.
Qed.

Lemma str_eqb_app_cons_false (a : str) c b : str_eqb a (a ++ c :: b) = false.
Proof.
  apply str_eqb_neq. intro E. assert (L : length a = length (a ++ c :: b)) by now rewrite <- E.
  rewrite app_length in L. cbn in L. lia.
Qed.

Lemma link_view_root lk root rroot : link_view lk root rroot -> realpath lk root = rroot.
Proof. intro H. specialize (H [] eq_refl). now rewrite !app_nil_r in H. Qed.

(* the table file exists below the stack root as it is named: its resolved name is cut after
   the resolved root, and made relative to the product's directory / ups directory if it lies
   in there *)
Lemma trim_key_table pe ex root rroot who now dS rel U :
  wf_abs root = true -> wf_abs rroot = true -> link_view (pe_links pe) root rroot ->
  nonempty dS = true -> ex (root ++ c_slash :: rel) = true ->
  trim_key true pe ex (Some root) k_table_file (block_of who now dS (root ++ c_slash :: rel) U)
  = Ok (block_of who now dS
          (let dn := path_join dS U in
           if subpath rel dn && starts_with (dn ++ [c_slash]) rel then after (length dn) rel else rel) U).
Proof.
  intros HR HRR LV Hd He. pose proof (wf_abs_nonempty _ HR) as NR.
  pose proof (wf_abs_nonempty _ HRR) as NRR.
  apply wf_abs_parts in HR. destruct HR as [R1 [R2 R3]].
  apply wf_abs_parts in HRR. destruct HRR as [Q1 [Q2 Q3]].
  unfold trim_key.
  change (alookup k_table_file (block_of who now dS (root ++ c_slash :: rel) U))
    with (Some (Some (root ++ c_slash :: rel))).
  cbv beta iota.
  assert (A : isabs (root ++ c_slash :: rel) = true) by now apply isabs_app.
  rewrite A. cbn [negb andb]. rewrite (abs_from_abs _ _ A). rewrite He. cbn [negb].
  destruct root as [|c r] eqn:Er; [congruence|]. rewrite <- Er in *.
  rewrite (abs_from_abs _ _ R1). rewrite (link_view_root _ _ _ LV).
  rewrite (LV (c_slash :: rel)) by reflexivity.
  assert (S : subpath_abs (rroot ++ c_slash :: rel) rroot = true).
  { unfold subpath_abs. rewrite path_join_nil by assumption. rewrite starts_with_sep. apply orb_true_r. }
  rewrite S, str_eqb_app_cons_false. cbn [negb andb]. rewrite after_app.
  change (aset k_table_file (Some rel) (block_of who now dS (root ++ c_slash :: rel) U))
    with (block_of who now dS rel U).
  change (str_eqb (lower_str k_table_file) k_table_file) with true. cbv iota.
  change (alookup k_productDir (block_of who now dS rel U)) with (Some (Some dS)).
  change (alookup k_ups_dir (block_of who now dS rel U)) with (Some (Some U)).
  destruct dS as [|dc dr]; [discriminate|]. cbv zeta.
  destruct (subpath rel (path_join (dc :: dr) U) && starts_with (path_join (dc :: dr) U ++ [c_slash]) rel);
    reflexivity.
Qed.

Lemma trim_block_table pe ex root rroot who now dS rel U t' :
  wf_abs root = true -> wf_abs rroot = true -> link_view (pe_links pe) root rroot ->
  nonempty dS = true -> ex (root ++ c_slash :: rel) = true ->
  (let dn := path_join dS U in
   if subpath rel dn && starts_with (dn ++ [c_slash]) rel then after (length dn) rel else rel) = t' ->
  inert_val pe ex rroot dS -> inert_val pe ex rroot U -> ex who = false -> ex now = false ->
  trim_info pe ex (Some root) (block_of who now dS (root ++ c_slash :: rel) U)
  = Ok (block_of who now dS t' U).
Proof.
  intros HR HRR LV Hd He Et H1 H3 H4 H5. unfold trim_info, trim_info_gen.
  assert (HA : isabs root = true) by (apply wf_abs_parts in HR; tauto).
  pose proof (link_view_root _ _ _ LV : rp pe root = rroot) as HRP.
  change (akeys (block_of who now dS (root ++ c_slash :: rel) U))
    with [k_productDir; k_table_file; k_ups_dir; k_declarer; k_declared].
  cbn [trim_keys].
  rewrite (trim_key_inert pe ex root rroot); [|assumption|assumption|].
  2:{ change (alookup k_productDir (block_of who now dS (root ++ c_slash :: rel) U)) with (Some (Some dS)).
      now intros s [= <-]. }
  cbn [bind]. rewrite (trim_key_table pe ex root rroot) by assumption. rewrite Et. cbn [bind].
  rewrite (trim_key_inert pe ex root rroot); [|assumption|assumption|].
  2:{ change (alookup k_ups_dir (block_of who now dS t' U)) with (Some (Some U)). now intros s [= <-]. }
  cbn [bind]. rewrite (trim_key_inert pe ex root rroot); [|assumption|assumption|].
  2:{ change (alookup k_declarer (block_of who now dS t' U)) with (Some (Some who)).
      intros s [= <-]. right. now left. }
  cbn [bind]. rewrite (trim_key_inert pe ex root rroot); [|assumption|assumption|].
  2:{ change (alookup k_declared (block_of who now dS t' U)) with (Some (Some now)).
      intros s [= <-]. right. now left. }
  reflexivity.
Qed.

(* ------------------------------------------------------------ Database.declare on records *)

(* no block already in the file holds an existing absolute path that resolves to the stack
   root or below it *)
Definition blocks_inert (pe : penv) (ex : str -> bool) (rroot : str) (m : amap info) : Prop :=
  forall g j, In (g, j) m -> forall k s, alookup k j = Some (Some s) -> inert_val pe ex rroot s.

Lemma declare_rec_gen pe ex who now n v f root rroot dk t u r B :
  wf_abs root = true -> rp pe root = rroot -> wf_dirk dk = true -> wf_place root dk = true ->
  canon_keeps root t u -> nonempty t = true -> under_dir (dir_stored dk) t = false -> ups_plain u ->
  alookup f (vf_info r) = None -> ex root = true -> blocks_inert pe ex rroot (vf_info r) ->
  trim_info pe ex (Some root) (block_of who now (dir_stored dk) t (ups_word u)) = Ok B ->
  declare_rec true pe ex who now
    (prod_of n v f (Some (dir_given root dk)) (Some t) (Some (db_of root)) u) r
  = Ok {| vf_name := vf_name r; vf_version := vf_version r; vf_info := vf_info r ++ [(f, B)] |}.
Proof.
  intros HR HRP Hd Hp Hk Ht Hu Hups Hf Hex Hin HB. unfold declare_rec, clone.
  assert (HA : isabs root = true) by (apply wf_abs_parts in HR; tauto).
  cbn [prod_of p_name p_version p_flavor p_dir p_table p_db p_ups].
  rewrite mk_product_id by (apply dir_given_truthy || apply nonempty_truthy; assumption).
  rewrite canon_scenario by assumption.
  cbn [prod_of p_name p_version p_flavor p_dir p_table p_db p_ups].
  rewrite (nonempty_truthy t Ht). cbn [negb].
  rewrite add_flavor_fresh by assumption.
  destruct (dir_stored_props dk Hd) as [D1 _]. rewrite (nonempty_truthy _ D1).
  fold (prod_of n v f (Some (dir_stored dk)) (Some t) (Some (db_of root)) u).
  unfold prod_of. rewrite stack_root_db by assumption.
  pose proof (wf_abs_nonempty _ HR) as NR. destruct root as [|c x] eqn:Er; [congruence|].
  rewrite <- Er in *. rewrite Hex. cbn [vf_info vf_name vf_version].
  rewrite (trim_all_app_last pe ex root (vf_info r) f _ B); [reflexivity| |assumption].
  now apply (trim_all_inert pe ex root rroot).
Qed.

Lemma declare_rec_ups_out pe ex who now n v f root rroot o tn r :
  wf_abs root = true -> wf_abs rroot = true -> rp pe root = rroot ->
  wf_abs o = true -> outside root o = true -> outside rroot (rp pe o) = true ->
  nonempty tn = true -> mem_ascii c_slash tn = false -> isabs tn = false ->
  starts_with (db_of root ++ [c_slash]) (o ++ c_slash :: s_ups ++ c_slash :: tn) = false ->
  ex who = false -> ex now = false ->
  alookup f (vf_info r) = None -> ex root = true -> blocks_inert pe ex rroot (vf_info r) ->
  declare_rec true pe ex who now
    (prod_of n v f (Some o) (Some (o ++ c_slash :: s_ups ++ c_slash :: tn)) (Some (db_of root)) (Some s_ups)) r
  = Ok {| vf_name := vf_name r; vf_version := vf_version r;
          vf_info := vf_info r ++ [(f, block_of who now o tn s_ups)] |}.
Proof.
  intros HR HRR HRP Ho Hout Hrout Ht Hs Hrel Hdb Hw Hn Hf Hex Hin. unfold declare_rec, clone.
  assert (HA : isabs root = true) by (apply wf_abs_parts in HR; tauto).
  cbn [prod_of p_name p_version p_flavor p_dir p_table p_db p_ups].
  assert (O1 : isabs o = true) by (apply wf_abs_parts in Ho; tauto).
  assert (Tabs : isabs (o ++ c_slash :: s_ups ++ c_slash :: tn) = true) by now apply isabs_app.
  rewrite mk_product_id by now apply isabs_truthy.
  change (@Some (list ascii)) with (@Some str).
  pose proof (canon_scenario n v f root (DOut o) (o ++ c_slash :: s_ups ++ c_slash :: tn) (Some s_ups)
                HR Ho Hout) as C. cbn [dir_given dir_stored] in C.
  assert (C' := C (or_introl (conj Tabs (conj eq_refl Hdb)))). clear C.
  match goal with |- context [canon_gen true ?P] =>
    replace (canon_gen true P) with
      (prod_of n v f (Some o) (Some (o ++ c_slash :: s_ups ++ c_slash :: tn)) (Some (db_of root)) (Some s_ups))
      by (symmetry; exact C')
  end. clear C'.
  cbn [prod_of p_name p_version p_flavor p_dir p_table p_db p_ups].
  change (@Some (list ascii)) with (@Some str).
  rewrite (isabs_truthy _ Tabs). cbn [negb].
  rewrite add_flavor_fresh_ups_out by assumption.
  rewrite (isabs_truthy _ O1).
  fold (prod_of n v f (Some o) (Some (o ++ c_slash :: s_ups ++ c_slash :: tn)) (Some (db_of root)) (Some s_ups)).
  unfold prod_of. rewrite stack_root_db by assumption.
  pose proof (wf_abs_nonempty _ HR) as NR. destruct root as [|c x] eqn:Er; [congruence|].
  rewrite <- Er in *. rewrite Hex. cbn [vf_info vf_name vf_version].
  rewrite (trim_all_app_last pe ex root (vf_info r) f _ (block_of who now o tn s_ups)); [reflexivity| |].
  - now apply (trim_all_inert pe ex root rroot).
  - apply (trim_block_inert pe ex root rroot); auto.
    + right. right. now apply subpath_abs_outside.
    + now apply rel_inert.
    + now apply rel_inert.
Qed.

(* ------------------------------------------------------------ where the table file is *)

Inductive tabk :=
| TUps (tn : str)             (* dir/ups/tn, the product's own ups directory *)
| TAbsIn (t : str)            (* root/t, elsewhere inside the stack *)
| TAbsOut (T : str)           (* the absolute path T outside the stack *)
| TInterned (e tn : str)      (* held in the database: UPS_DB/e/ups/tn, as Eups.declare passes it *)
| TNone.                      (* no table file *)

(* what Eups.declare hands to Database.declare: (table file, ups dir) *)
Definition table_given (root : str) (dk : dirk) (tk : tabk) : str * val :=
  match tk with
  | TUps tn => (dir_given root dk ++ c_slash :: s_ups ++ c_slash :: tn, Some s_ups)
  | TAbsIn t => (root ++ c_slash :: t, Some s_ups)
  | TAbsOut T => (T, Some s_ups)
  | TInterned e tn => (tn, Some (ups_in_db e))
  | TNone => (s_none, None)
  end.

(* where the table file is for a stack at root *)
Definition table_at (root : str) (dk : dirk) (tk : tabk) : str :=
  match tk with
  | TUps tn => dir_at root dk ++ c_slash :: s_ups ++ c_slash :: tn
  | TAbsIn t => root ++ c_slash :: t
  | TAbsOut T => T
  | TInterned e tn => db_of root ++ c_slash :: e ++ c_slash :: s_ups ++ c_slash :: tn
  | TNone => s_none
  end.

Definition table_stored (tk : tabk) : str * str :=
  match tk with
  | TUps tn => (tn, s_ups)
  | TAbsIn t => (t, s_ups)
  | TAbsOut T => (T, s_ups)
  | TInterned e tn => (tn, ups_in_db e)
  | TNone => (s_none, s_none)
  end.

Definition wf_name_part (tn : str) : bool := wf_rel tn && negb (mem_ascii c_slash tn).

(* outside directories and table files resolve to places outside the resolved stack root *)
Definition out_real (pe : penv) (rroot : str) (dk : dirk) (tk : tabk) : Prop :=
  out_dir pe rroot dk /\
  match tk with TAbsOut T => outside rroot (rp pe T) = true | _ => True end.

(* side conditions on the placement: everything is where its kind says, and nowhere more
   specific (a table inside the stack is not inside the database directory nor inside the
   product's own ups directory; a table outside is not inside an outside product) *)
Definition tab_ok (root : str) (dk : dirk) (tk : tabk) : bool :=
  match tk with
  | TUps tn =>
      wf_name_part tn &&
      match dk with
      | DIn d => negb (starts_with (db_of root ++ [c_slash]) (root ++ c_slash :: d ++ c_slash :: s_ups ++ c_slash :: tn))
      | DOut o => negb (starts_with (db_of root ++ [c_slash]) (o ++ c_slash :: s_ups ++ c_slash :: tn))
      | DNone => false
      end
  | TAbsIn t =>
      wf_rel t && negb (starts_with (db_of root ++ [c_slash]) (root ++ c_slash :: t)) &&
      match dk with
      | DOut o => negb (starts_with (o ++ [c_slash]) (root ++ c_slash :: t))
      | _ => negb (subpath t (path_join (dir_stored dk) s_ups) &&
                   starts_with (path_join (dir_stored dk) s_ups ++ [c_slash]) t)
      end
  | TAbsOut T =>
      wf_abs T && outside root T &&
      match dk with DOut o => negb (starts_with (o ++ [c_slash]) T) | _ => true end
  | TInterned e tn => wf_name_part tn && negb (has_dollar e)
  | TNone => true
  end.

(* the file system when the product is declared, by the names used in the declaration: the
   stack root and a table file inside the stack exist.  Nothing is asked of relative names,
   i.e. of the contents of the current directory. *)
Definition decl_ok (ex : str -> bool) (root : str) (dk : dirk) (tk : tabk) : Prop :=
  ex root = true /\
  match tk with
  | TUps tn => match dk with DIn _ => ex (table_at root dk tk) = true | _ => True end
  | TAbsIn t => ex (root ++ c_slash :: t) = true
  | _ => True
  end.

(* the file system when the product is looked up under root: the table file is where it
   belongs, and no file of the same relative name shadows it *)
Definition find_ok (ex : str -> bool) (root : str) (dk : dirk) (tk : tabk) : Prop :=
  match tk with
  | TUps tn => ex (table_at root dk tk) = true
  | TAbsIn t => ex (ups_at (dir_at root dk) ++ c_slash :: t) = false /\ ex (root ++ c_slash :: t) = true
  | TInterned e tn => ex (table_at root dk tk) = true
  | _ => True
  end.

Lemma starts_with_app_true a b x : starts_with (a ++ b) x = true -> starts_with a x = true.
Proof.
  intro H. destruct (starts_with_true_app _ _ H) as [r ->]. rewrite <- app_assoc. apply starts_with_refl.
Qed.

Lemma wf_name_part_parts tn : wf_name_part tn = true ->
  wf_rel tn = true /\ mem_ascii c_slash tn = false /\ nonempty tn = true /\ isabs tn = false.
Proof.
  unfold wf_name_part. rewrite andb_true_iff, negb_true_iff. intros [H1 H2].
  pose proof (wf_rel_parts _ H1). tauto.
Qed.

Lemma ups_in_db_plain e : ups_plain (Some (ups_in_db e)).
Proof.
  unfold ups_plain. split; [reflexivity|]. split; [reflexivity|].
  unfold ups_in_db. change (s_UPS_DB ++ c_slash :: e ++ c_slash :: s_ups)
    with (s_UPS_DB ++ (c_slash :: e) ++ (c_slash :: s_ups)).
  rewrite app_assoc. now rewrite ends_slash_app.
Qed.

Lemma under_dir_rel_abs d t : nonempty d = true -> isabs d = false -> isabs t = true -> under_dir d t = false.
Proof.
  intros Nd Hd Ht. unfold under_dir. destruct (isabs_cons t Ht) as [x ->].
  destruct d as [|c y]; [discriminate|]. cbn [app starts_with].
  cbn [isabs] in Hd. rewrite Hd. apply andb_false_r.
Qed.

Lemma nonempty_abs t : isabs t = true -> nonempty t = true.
Proof. intro H. destruct (isabs_cons t H) as [x ->]. reflexivity. Qed.

Lemma subpath_own_ups d tn :
  nonempty d = true -> isabs d = false -> ends_slash d = false ->
  (let dn := path_join d s_ups in
   if subpath (d ++ c_slash :: s_ups ++ c_slash :: tn) dn &&
      starts_with (dn ++ [c_slash]) (d ++ c_slash :: s_ups ++ c_slash :: tn)
   then after (length dn) (d ++ c_slash :: s_ups ++ c_slash :: tn)
   else d ++ c_slash :: s_ups ++ c_slash :: tn) = tn.
Proof.
  intros Dn Dabs Dend. assert (Nd : d <> []) by (destruct d; [discriminate|congruence]).
  rewrite path_join_rel by (assumption || reflexivity). cbv zeta.
  assert (E : d ++ c_slash :: s_ups ++ c_slash :: tn = (d ++ c_slash :: s_ups) ++ c_slash :: tn).
  { change (d ++ c_slash :: s_ups ++ c_slash :: tn) with (d ++ (c_slash :: s_ups) ++ c_slash :: tn).
    now rewrite app_assoc. }
  rewrite E.
  assert (S : subpath ((d ++ c_slash :: s_ups) ++ c_slash :: tn) (d ++ c_slash :: s_ups) = true).
  { unfold subpath, subpath_abs.
    assert (A2 : isabs (d ++ c_slash :: s_ups) = false) by (destruct d; [discriminate|exact Dabs]).
    assert (A1 : isabs ((d ++ c_slash :: s_ups) ++ c_slash :: tn) = false)
      by (destruct d; [discriminate|exact Dabs]).
    rewrite A1, A2. cbn [Bool.eqb]. rewrite path_join_nil.
    - rewrite starts_with_sep. apply orb_true_r.
    - destruct d; discriminate.
    - change (d ++ c_slash :: s_ups) with (d ++ (c_slash :: s_ups)). now rewrite ends_slash_app. }
  rewrite S, starts_with_sep. cbn [andb]. now rewrite after_app.
Qed.

(* the record after declaring a new flavor f *)
Theorem declare_stores pe ex who now n v f root rroot dk tk r :
  wf_abs root = true -> wf_abs rroot = true -> link_view (pe_links pe) root rroot ->
  wf_dirk dk = true -> wf_place root dk = true -> tab_ok root dk tk = true -> out_real pe rroot dk tk ->
  decl_ok ex root dk tk -> ex who = false -> ex now = false ->
  alookup f (vf_info r) = None -> blocks_inert pe ex rroot (vf_info r) ->
  declare_rec true pe ex who now
    (prod_of n v f (Some (dir_given root dk)) (Some (fst (table_given root dk tk)))
             (Some (db_of root)) (snd (table_given root dk tk))) r
  = Ok {| vf_name := vf_name r; vf_version := vf_version r;
          vf_info := vf_info r ++ [(f, block_of who now (dir_stored dk) (fst (table_stored tk))
                                                (snd (table_stored tk)))] |}.
Proof.
  intros HR HRR LV Hd Hp Ht [Odir Otab] [Hroot Hdecl] Hw Hn Hf Hin.
  pose proof (link_view_root _ _ _ LV : rp pe root = rroot) as HRP.
  pose proof (dir_stored_inert pe ex rroot dk HRR Hd Odir) as Idir.
  destruct (dir_stored_props dk Hd) as [D1 D2].
  assert (Rabs : isabs root = true) by (apply wf_abs_parts in HR; tauto).
  assert (UPups : ups_plain (Some s_ups)) by (repeat split; reflexivity).
  assert (Iups : inert_val pe ex rroot s_ups) by now apply rel_inert.
  destruct tk as [tn|t|T|e tn|]; cbn [table_given table_stored fst snd tab_ok] in *.
  - (* own ups directory *)
    apply andb_true_iff in Ht. destruct Ht as [Hn1 Ht].
    destruct (wf_name_part_parts tn Hn1) as [N1 [N2 [N3 N4]]].
    destruct dk as [d|o|]; [| |discriminate]; cbn [dir_given dir_stored] in *.
    + apply negb_true_iff in Ht.
      destruct (wf_rel_parts d Hd) as [Dn [Dabs [Dend _]]].
      set (T := (root ++ c_slash :: d) ++ c_slash :: s_ups ++ c_slash :: tn).
      assert (ET : T = root ++ c_slash :: (d ++ c_slash :: s_ups ++ c_slash :: tn))
        by (unfold T; now rewrite <- app_assoc).
      assert (Tabs : isabs T = true) by (unfold T; now apply isabs_app, isabs_app).
      assert (K : canon_keeps root T (Some s_ups)).
      { left. repeat split; auto. rewrite ET. exact Ht. }
      assert (TB : trim_info pe ex (Some root) (block_of who now d T s_ups)
                   = Ok (block_of who now d tn s_ups)).
      { rewrite ET. apply (trim_block_table pe ex root rroot); auto.
        - rewrite <- ET. rewrite <- Hdecl. reflexivity.
        - now apply subpath_own_ups. }
      exact (declare_rec_gen pe ex who now n v f root rroot (DIn d) T (Some s_ups) r _ HR HRP Hd Hp K
               (nonempty_abs T Tabs) (under_dir_rel_abs d T Dn Dabs Tabs) UPups Hf Hroot Hin TB).
    + apply negb_true_iff in Ht. apply (declare_rec_ups_out pe ex who now n v f root rroot o tn r); auto.
  - (* elsewhere inside the stack *)
    apply andb_true_iff in Ht. destruct Ht as [Ht Hdk]. apply andb_true_iff in Ht. destruct Ht as [T1 T2].
    apply negb_true_iff in T2.
    destruct (wf_rel_parts t T1) as [Tn [Tabs [Tend [Tdol Treal]]]].
    set (T := root ++ c_slash :: t).
    assert (TA : isabs T = true) by (unfold T; now apply isabs_app).
    assert (K : canon_keeps root T (Some s_ups)) by (left; repeat split; auto).
    assert (UD : under_dir (dir_stored dk) T = false).
    { destruct dk as [d|o|]; cbn [dir_stored] in *.
      - apply wf_rel_parts in Hd. apply under_dir_rel_abs; tauto.
      - unfold under_dir. apply negb_true_iff in Hdk. unfold T. now rewrite Hdk, andb_false_r.
      - reflexivity. }
    assert (TB : trim_info pe ex (Some root) (block_of who now (dir_stored dk) T s_ups)
                 = Ok (block_of who now (dir_stored dk) t s_ups)).
    { unfold T. apply (trim_block_table pe ex root rroot); auto.
      destruct dk as [d|o|]; cbn [dir_stored] in *.
      - apply negb_true_iff in Hdk. cbv zeta. now rewrite Hdk.
      - cbv zeta. assert (S : subpath t (path_join o s_ups) = false).
        { unfold subpath. rewrite Tabs.
          assert (A : isabs (path_join o s_ups) = true).
          { pose proof (wf_abs_nonempty _ Hd). apply wf_abs_parts in Hd. destruct Hd as [O1 [O2 _]].
            rewrite path_join_rel by (assumption || reflexivity). now apply isabs_app. }
          now rewrite A. }
        now rewrite S.
      - apply negb_true_iff in Hdk. cbv zeta. now rewrite Hdk. }
    exact (declare_rec_gen pe ex who now n v f root rroot dk T (Some s_ups) r _ HR HRP Hd Hp K
             (nonempty_abs T TA) UD UPups Hf Hroot Hin TB).
  - (* outside the stack *)
    apply andb_true_iff in Ht. destruct Ht as [Ht Hdk]. apply andb_true_iff in Ht. destruct Ht as [T1 T2].
    destruct (wf_abs_parts T T1) as [Tabs [Tend Tdol]].
    assert (K : canon_keeps root T (Some s_ups)).
    { left. repeat split; auto.
      destruct (starts_with (db_of root ++ [c_slash]) T) eqn:E; [|reflexivity].
      unfold db_of in E. rewrite (app_cons_assoc root c_slash s_ups_db), <- app_assoc in E.
      apply starts_with_app_true in E. unfold outside in T2. apply andb_true_iff in T2.
      destruct T2 as [_ T2]. apply negb_true_iff in T2. congruence. }
    assert (UD : under_dir (dir_stored dk) T = false).
    { destruct dk as [d|o|]; cbn [dir_stored] in *.
      - apply wf_rel_parts in Hd. apply under_dir_rel_abs; tauto.
      - unfold under_dir. apply negb_true_iff in Hdk. now rewrite Hdk, andb_false_r.
      - reflexivity. }
    assert (TB : trim_info pe ex (Some root) (block_of who now (dir_stored dk) T s_ups)
                 = Ok (block_of who now (dir_stored dk) T s_ups)).
    { apply (trim_block_inert pe ex root rroot); auto. right. right. now apply subpath_abs_outside. }
    exact (declare_rec_gen pe ex who now n v f root rroot dk T (Some s_ups) r _ HR HRP Hd Hp K
             (nonempty_abs T Tabs) UD UPups Hf Hroot Hin TB).
  - (* held in the database *)
    apply andb_true_iff in Ht. destruct Ht as [Hn1 He]. apply negb_true_iff in He.
    destruct (wf_name_part_parts tn Hn1) as [N1 [N2 [N3 N4]]].
    assert (K : canon_keeps root tn (Some (ups_in_db e))) by (right; split; [assumption|reflexivity]).
    assert (UD : under_dir (dir_stored dk) tn = false) by (unfold under_dir; now rewrite N4, andb_false_r).
    assert (TB : trim_info pe ex (Some root) (block_of who now (dir_stored dk) tn (ups_in_db e))
                 = Ok (block_of who now (dir_stored dk) tn (ups_in_db e))).
    { apply (trim_block_inert pe ex root rroot); auto; now apply rel_inert. }
    exact (declare_rec_gen pe ex who now n v f root rroot dk tn (Some (ups_in_db e)) r _ HR HRP Hd Hp K
             N3 UD (ups_in_db_plain e) Hf Hroot Hin TB).
  - (* no table file *)
    assert (K : canon_keeps root s_none None) by (right; split; [reflexivity|exact I]).
    assert (TB : trim_info pe ex (Some root) (block_of who now (dir_stored dk) s_none s_none)
                 = Ok (block_of who now (dir_stored dk) s_none s_none)).
    { apply (trim_block_inert pe ex root rroot); auto; now apply rel_inert. }
    assert (UD : under_dir (dir_stored dk) s_none = false) by (unfold under_dir; change (isabs s_none) with false; now rewrite andb_false_r).
    exact (declare_rec_gen pe ex who now n v f root rroot dk s_none None r _ HR HRP Hd Hp K
             eq_refl UD I Hf Hroot Hin TB).
Qed.

(* without links the outside conditions are those of the placement *)
Lemma out_real_nolinks pe root dk tk :
  pe_links pe = [] -> wf_place root dk = true -> tab_ok root dk tk = true -> out_real pe root dk tk.
Proof.
  intros E Hp Ht. unfold out_real, out_dir, rp. rewrite E. split.
  - destruct dk; auto.
  - destruct tk as [tn|t|T|e tn|]; auto. cbn [tab_ok] in Ht.
    apply andb_true_iff in Ht. destruct Ht as [Ht _]. apply andb_true_iff in Ht. tauto.
Qed.

(* ------------------------------------------------------------ Database.findProduct on the stored block *)

Definition block_holds (B : info) (dS ts U : str) : Prop :=
  info_get B k_productDir = Some dS /\ info_get B k_table_file = Some ts /\ info_get B k_ups_dir = Some U.

Lemma block_of_holds who now dS ts U : block_holds (block_of who now dS ts U) dS ts U.
Proof. repeat split. Qed.

Lemma ups_at_abs D : wf_abs D = true -> ups_at D = D ++ c_slash :: s_ups.
Proof.
  intro H. unfold ups_at. destruct (str_eqb_spec D s_none) as [->|]; [discriminate|reflexivity].
Qed.

Lemma wf_dirk_at root dk : wf_abs root = true -> wf_dirk dk = true -> dk <> DNone ->
  wf_abs (dir_at root dk) = true.
Proof.
  intros HR Hd N. destruct dk as [d|o|]; cbn in *; [now apply wf_abs_join|assumption|congruence].
Qed.

(* the part of tab_ok that does not depend on where the stack is *)
Definition tab_wf (dk : dirk) (tk : tabk) : bool :=
  match tk with
  | TUps tn => wf_name_part tn && match dk with DNone => false | _ => true end
  | TAbsIn t => wf_rel t
  | TAbsOut T => wf_abs T
  | TInterned e tn => wf_name_part tn && negb (has_dollar e)
  | TNone => true
  end.

Lemma tab_ok_wf root dk tk : tab_ok root dk tk = true -> tab_wf dk tk = true.
Proof.
  destruct tk as [tn|t|T|e tn|]; cbn [tab_ok tab_wf]; intro H; try assumption.
  - apply andb_true_iff in H. destruct H as [H1 H2]. rewrite H1. destruct dk; [reflexivity|reflexivity|discriminate].
  - apply andb_true_iff in H. destruct H as [H _]. apply andb_true_iff in H. tauto.
  - apply andb_true_iff in H. destruct H as [H _]. apply andb_true_iff in H. tauto.
Qed.

Theorem find_resolves ex n v f root dk tk r B :
  wf_abs root = true -> wf_dirk dk = true -> tab_wf dk tk = true -> find_ok ex root dk tk ->
  vf_name r = Some n -> vf_version r = Some v ->
  alookup f (vf_info r) = Some B ->
  block_holds B (dir_stored dk) (fst (table_stored tk)) (snd (table_stored tk)) ->
  make_product ex r f (Some root) (Some (db_of root))
  = Some (prod_of n v f (Some (dir_at root dk)) (Some (table_at root dk tk)) (Some (db_of root))
                  (Some (match tk with
                         | TInterned e _ => ups_db_at root e
                         | TNone => s_none
                         | _ => ups_at (dir_at root dk)
                         end))).
Proof.
  intros HR Hd Ht Hfind En Ev EB [B1 [B2 B3]].
  rewrite (make_product_block ex r f B root HR EB), En, Ev, B1, B2, B3. cbn [val_str].
  destruct (dir_stored_props dk Hd) as [D1 _].
  destruct tk as [tn|t|T|e tn|]; cbn [table_stored fst snd tab_wf table_at find_ok] in *.
  - apply andb_true_iff in Ht. destruct Ht as [Hn1 Hdk].
    destruct (wf_name_part_parts tn Hn1) as [N1 [N2 [N3 N4]]].
    rewrite mk_product_id by (apply nonempty_truthy; assumption).
    rewrite resolve_S1 by assumption. f_equal.
    assert (NN : dk <> DNone) by (destruct dk; [discriminate|discriminate|discriminate Hdk]).
    rewrite (ups_at_abs _ (wf_dirk_at root dk HR Hd NN)).
    unfold table_choice.
    assert (E : (dir_at root dk ++ c_slash :: s_ups) ++ c_slash :: tn
                = dir_at root dk ++ c_slash :: s_ups ++ c_slash :: tn).
    { now rewrite <- app_assoc. }
    rewrite E, Hfind. reflexivity.
  - rename Ht into T1. destruct (wf_rel_parts t T1) as [Tn _].
    rewrite mk_product_id by (apply nonempty_truthy; assumption).
    rewrite resolve_S1 by assumption. unfold table_choice. destruct Hfind as [F1 F2].
    now rewrite F1, F2.
  - rename Ht into T1.
    rewrite mk_product_id by (try (apply nonempty_truthy; assumption);
                              apply isabs_truthy; apply wf_abs_parts in T1; tauto).
    now rewrite resolve_S2.
  - apply andb_true_iff in Ht. destruct Ht as [Hn1 He]. apply negb_true_iff in He.
    destruct (wf_name_part_parts tn Hn1) as [N1 [N2 [N3 N4]]].
    rewrite mk_product_id by (apply nonempty_truthy; assumption).
    rewrite resolve_S3 by assumption. unfold table_choice, ups_db_at.
    assert (E : (db_of root ++ c_slash :: e ++ c_slash :: s_ups) ++ c_slash :: tn
                = db_of root ++ c_slash :: e ++ c_slash :: s_ups ++ c_slash :: tn).
    { rewrite <- app_assoc. cbn [app]. now rewrite <- app_assoc. }
    rewrite E, Hfind. reflexivity.
  - rewrite mk_product_id by (try (apply nonempty_truthy; assumption); reflexivity).
    now rewrite resolve_S4.
Qed.

(* ------------------------------------------------------------ through the text of the version file *)

(* printing and reading a block keeps its three path fields when they are not empty *)
Lemma block_holds_norm B dS ts U :
  nonempty dS = true -> nonempty ts = true -> nonempty U = true ->
  block_holds B dS ts U -> block_holds (norm_info B) dS ts U.
Proof.
  intros N1 N2 N3 [B1 [B2 B3]]. unfold block_holds, info_get in *.
  assert (P : forall k s, nonempty s = true ->
                match alookup k B with Some v => v | None => None end = Some s ->
                printed_val B k = Some (Some s)).
  { intros k s Ns H. unfold printed_val. destruct (alookup k B) as [w|]; [|discriminate].
    subst w. destruct s; [discriminate|reflexivity]. }
  rewrite !alookup_norm_info.
  change (str_eqb k_productDir k_productDir) with true.
  change (str_eqb k_table_file k_productDir) with false.
  change (str_eqb k_table_file k_table_file) with true.
  change (str_eqb k_ups_dir k_productDir) with false.
  change (str_eqb k_ups_dir k_table_file) with false.
  change (str_eqb k_ups_dir k_ups_dir) with true. cbv iota.
  rewrite (P _ _ N1 B1), (P _ _ N2 B2), (P _ _ N3 B3). auto.
Qed.

Lemma table_stored_nonempty root dk tk : tab_ok root dk tk = true ->
  nonempty (fst (table_stored tk)) = true /\ nonempty (snd (table_stored tk)) = true.
Proof.
  destruct tk as [tn|t|T|e tn|]; cbn [table_stored fst snd tab_ok]; intro H.
  - apply andb_true_iff in H. destruct H as [H _]. apply wf_name_part_parts in H. split; [tauto|reflexivity].
  - apply andb_true_iff in H. destruct H as [H _]. apply andb_true_iff in H. destruct H as [H _].
    apply wf_rel_parts in H. split; [tauto|reflexivity].
  - apply andb_true_iff in H. destruct H as [H _]. apply andb_true_iff in H. destruct H as [H _].
    apply wf_abs_parts in H. split; [apply nonempty_abs; tauto|reflexivity].
  - apply andb_true_iff in H. destruct H as [H _]. apply wf_name_part_parts in H. split; [tauto|reflexivity].
  - split; reflexivity.
Qed.

Lemma db_declare_fresh pe ex who now p r' :
  nonempty (p_name p) = true -> nonempty (p_version p) = true -> nonempty (p_flavor p) = true ->
  declare_rec true pe ex who now p
    {| vf_name := Some (p_name p); vf_version := Some (p_version p); vf_info := [] |} = Ok r' ->
  db_declare pe ex who now p None = vf_lines r'.
Proof.
  intros H1 H2 H3 E. unfold db_declare, db_declare_gen. rewrite H1, H2, H3. cbn [andb negb].
  cbn [bind]. rewrite E. cbn [bind].
  unfold declare_rec in E.
  destruct (truthy (p_table (canon_gen true (clone ex p)))); [reflexivity|discriminate].
Qed.

(* ------------------------------------------------------------ the repaired loop does not look at the current directory *)

Lemma trim_key_cwd pe pe' ex ex' td k (i : info) :
  isabs td = true -> pe_links pe = pe_links pe' -> (forall s, isabs s = true -> ex s = ex' s) ->
  trim_key true pe ex (Some td) k i = trim_key true pe' ex' (Some td) k i.
Proof.
  intros HA HL HE. unfold trim_key. destruct (alookup k i) as [[s|]|]; try reflexivity.
  cbn [andb]. destruct (isabs s) eqn:A; cbn [negb]; [|reflexivity].
  rewrite !(abs_from_abs _ _ A), (HE s A). destruct td as [|c r]; [reflexivity|].
  rewrite !(abs_from_abs _ _ HA), HL. reflexivity.
Qed.

Lemma trim_keys_cwd pe pe' ex ex' td keys (i : info) :
  isabs td = true -> pe_links pe = pe_links pe' -> (forall s, isabs s = true -> ex s = ex' s) ->
  trim_keys true pe ex (Some td) keys i = trim_keys true pe' ex' (Some td) keys i.
Proof.
  intros HA HL HE. revert i. induction keys as [|k ks IH]; intro i; [reflexivity|]. cbn [trim_keys].
  rewrite (trim_key_cwd pe pe' ex ex') by assumption.
  destruct (trim_key true pe' ex' (Some td) k i) as [j|]; [|reflexivity]. cbn [bind]. apply IH.
Qed.

Lemma trim_all_cwd pe pe' ex ex' td (m : amap info) :
  isabs td = true -> pe_links pe = pe_links pe' -> (forall s, isabs s = true -> ex s = ex' s) ->
  trim_all true pe ex (Some td) m = trim_all true pe' ex' (Some td) m.
Proof.
  intros HA HL HE. induction m as [|[g j] m IH]; [reflexivity|]. cbn [trim_all]. unfold trim_info_gen.
  rewrite (trim_keys_cwd pe pe' ex ex') by assumption. now rewrite IH.
Qed.
