(* Decidable forms of the hypotheses of the theorems about Model/DepWalk.v, for concrete worlds
   (the examples of Props/C13.v): sound checkers only. *)
From Coq Require Import Lia.
From Eupsv Require Import Base.Base Base.BaseLemmas Model.Resolve Model.ResolveSpec Model.Graph Model.DepWalk
     Proofs.ResolveLib Proofs.Resolve Proofs.DepWalkConst Proofs.DepWalkSim Proofs.DepWalkComplete Proofs.DepWalkEdges.

(* ---------------------------------------------------------------- dworld_ok *)

Lemma mem_str_In x l : mem_str x l = true <-> In x l.
Proof.
  induction l as [|y l IH]; simpl; [split; [discriminate | tauto]|].
  destruct (str_eqb x y) eqn:E.
  - apply str_eqb_eq in E. subst. tauto.
  - rewrite IH. split; [tauto|]. intros [H | H]; [|exact H]. subst. rewrite str_eqb_refl in E. discriminate.
Qed.

Lemma dtable_of_In T n v ls : dtable_of T n v = Some ls -> In ((n, v), ls) T.
Proof.
  induction T as [|[[n' v'] ls'] r IH]; simpl; [discriminate|].
  destruct (str_eqb n n' && str_eqb v v') eqn:E.
  - apply andb_true_iff in E as [E1 E2]. apply str_eqb_eq in E1, E2. subst. intros H. inversion H. auto.
  - auto.
Qed.

Lemma dworld_ok_b_sound db flavors T : dworld_ok_b db flavors T = true -> dworld_ok db flavors T.
Proof.
  unfold dworld_ok_b. intros H. apply andb_true_iff in H as [H H3]. apply andb_true_iff in H as [H1 H2].
  rewrite forallb_forall in H2, H3. constructor.
  - exact H1.
  - intros s n v f Hs Hf D. specialize (H2 s Hs). rewrite forallb_forall in H2.
    unfold Resolve.declared in D. apply existsb_exists in D as [[[n' v'] f'] [Hin Hd]].
    unfold decl_is in Hd. apply andb_true_iff in Hd as [Hd Hd3]. apply andb_true_iff in Hd as [Hd1 Hd2].
    apply str_eqb_eq in Hd1, Hd2, Hd3. subst n' v' f'. specialize (H2 _ Hin). cbv beta iota in H2.
    apply mem_str_In in Hf. rewrite Hf in H2. destruct (dtable_of T n v); [discriminate | discriminate].
  - intros n v ls Tn. apply dtable_of_In in Tn. specialize (H3 _ Tn). cbv beta iota in H3.
    apply andb_true_iff in H3 as [Hv He]. split; [intros Q; subst; discriminate|].
    apply existsb_exists in He as [s [Hs He]]. apply existsb_exists in He as [f [Hf D]]. exists s, f. auto.
Qed.

(* ---------------------------------------------------------------- vcmp_ok *)

Lemma names_of_name db n v : In v (names_of db n) -> In n (db_names db).
Proof.
  unfold names_of, db_names. intros H. apply in_flat_map in H as [s [Hs H]]. apply in_flat_map in H as [[[n' v'] f] [Hd H]].
  destruct (str_eqb n n') eqn:E; [|destruct H]. apply str_eqb_eq in E. subst n'.
  apply in_flat_map. exists s. split; [exact Hs|]. apply in_map_iff. exists (n, v', f). auto.
Qed.

Lemma vcmp_ok_b_sound vcmp db : vcmp_ok_b vcmp db = true -> vcmp_ok vcmp db.
Proof.
  unfold vcmp_ok_b, vcmp_ok. intros H n. rewrite forallb_forall in H.
  destruct (names_of db n) as [|v r] eqn:E.
  - repeat split; intros; match goal with H : In _ [] |- _ => destruct H end.
  - rewrite <- E. apply total_orderb_sound, H. apply (names_of_name db n v). rewrite E. left. reflexivity.
Qed.

(* ---------------------------------------------------------------- no -j line, no line that changes the VRO *)

Lemma no_just_b_sound T : no_just_b T = true -> no_just T.
Proof.
  unfold no_just_b, no_just. intros H n v ls l Tn Il. apply dtable_of_In in Tn. rewrite forallb_forall in H.
  specialize (H _ Tn). simpl in H. rewrite forallb_forall in H. specialize (H l Il). apply negb_true_iff, H.
Qed.

Lemma plain_tables_b_sound c vro T : plain_tables_b c vro T = true -> plain_tables (line_vro c) vro T.
Proof.
  unfold plain_tables_b, plain_tables. intros H n v ls l Tn Il. apply andb_true_iff in H as [Hk H].
  apply dtable_of_In in Tn. rewrite forallb_forall in H. specialize (H _ Tn). simpl in H.
  rewrite forallb_forall in H. specialize (H l Il). unfold plain_line_b in H. apply andb_true_iff in H as [H1 H2].
  unfold line_vro. apply negb_true_iff in H1, Hk. rewrite H1, Hk. simpl.
  destruct (filter (recognized c) (dl_tags l)); [reflexivity | discriminate].
Qed.
