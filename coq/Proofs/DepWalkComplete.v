(* The walk with the resolver inside (Model/DepWalk.v), -j lines included: it answers on every world
   (cycles or not) with fuel above the number of tables, and what it lists is exactly what can be reached
   through the lines as the look-ups resolve them, a -j line being followed to its product and no further. *)
From Coq Require Import Lia.
From Eupsv Require Import Base.Base Base.BaseLemmas Model.Resolve Model.Graph Model.DepWalk
     Proofs.GraphLib Proofs.GraphWalk Proofs.DepWalkConst Proofs.DepWalkSim.

Section Walk.
  Variable lk : dline -> option found.
  Variable lkp : dline -> option str -> option found.
  Variable T : dtables.
  Variable pins : list (str * option str).

  Definition dtg (l : dline) : node := cresolve lk lkp pins l.

  (* l is a line of the table of p *)
  Definition dline_in (p : node) (l : dline) : Prop := exists ls, dnode_table T p = Some ls /\ In l ls.

  (* q is reached from p: through lines without -j, then one line of any kind *)
  Inductive dreach : node -> node -> Prop :=
  | dr_one p l : dline_in p l -> dreach p (dtg l)
  | dr_more p l r : dline_in p l -> dl_just l = false -> dreach (dtg l) r -> dreach p r.

  (* q is reached from p through lines without -j only: its table is walked *)
  Inductive dwalked : node -> node -> Prop :=
  | dk_one p l : dline_in p l -> dl_just l = false -> dwalked p (dtg l)
  | dk_more p l r : dline_in p l -> dl_just l = false -> dwalked (dtg l) r -> dwalked p r.

  Lemma dwalked_step p q l : dwalked p q -> dline_in q l -> dreach p (dtg l).
  Proof.
    induction 1 as [p l0 I J | p l0 r I J _ IH]; intros Il.
    - eapply dr_more; [exact I | exact J | apply dr_one, Il].
    - eapply dr_more; [exact I | exact J | apply IH, Il].
  Qed.

  Lemma dwalked_more p q l : dwalked p q -> dline_in q l -> dl_just l = false -> dwalked p (dtg l).
  Proof.
    induction 1 as [p l0 I J | p l0 r I J _ IH]; intros Il Jl.
    - eapply dk_more; [exact I | exact J | apply dk_one; assumption].
    - eapply dk_more; [exact I | exact J | apply IH; assumption].
  Qed.

  Lemma dline_in_real p l : dline_in p l -> nreal p = true.
  Proof. intros [ls [H _]]. unfold dnode_table in H. destruct (nreal p); [reflexivity | discriminate]. Qed.

  Lemma dreach_first_real p q : dreach p q -> nreal p = true.
  Proof. intros H. destruct H; eapply dline_in_real; eauto. Qed.

  Definition dnodes : list node := map (fun it => (fst (fst it), Some (snd (fst it)), true)) T.

  Lemma dtable_of_In n v ls : dtable_of T n v = Some ls -> In ((n, v), ls) T.
  Proof.
    induction T as [|[[n' v'] ls'] r IH]; simpl; [discriminate|].
    destruct (str_eqb n n' && str_eqb v v') eqn:E.
    - apply andb_true_iff in E as [E1 E2]. apply str_eqb_eq in E1, E2. subst. intros H. inversion H. auto.
    - auto.
  Qed.

  Lemma dnode_table_dnodes p ls : dnode_table T p = Some ls -> In p dnodes.
  Proof.
    intros H. destruct (dnode_table_inv _ _ _ H) as [n [v [-> H']]]. apply dtable_of_In in H'.
    unfold dnodes. apply in_map_iff. exists ((n, v), ls). auto.
  Qed.

  Definition unvis (st : wstate) : nat :=
    length (filter (fun k => negb (mem_node k (vis st))) dnodes).

  Lemma unvis_mono st st' : incl (vis st) (vis st') -> unvis st' <= unvis st.
  Proof.
    intros H. apply filter_length_le. intros x. rewrite !negb_true_iff, !mem_node_not_In. auto.
  Qed.

  Lemma unvis_mark t st : In t dnodes -> ~ In t (vis st) -> unvis (mark t st) < unvis st.
  Proof.
    intros I N. unfold unvis. apply filter_length_lt with (x := t); auto.
    - intros y. rewrite !negb_true_iff, !mem_node_not_In. simpl. tauto.
    - rewrite negb_false_iff, mem_node_In. simpl. auto.
    - rewrite negb_true_iff, mem_node_not_In. exact N.
  Qed.

  Lemma unvis_le st : unvis st <= length T.
  Proof.
    unfold unvis. etransitivity; [apply filter_length_le_all|]. unfold dnodes. rewrite map_length. lia.
  Qed.

  (* what a line contributes: its product is listed, and walked unless the line says -j or it is a stub *)
  Definition line_done (out : list entry) (st' : wstate) (l : dline) : Prop :=
    In (dtg l) (map enode out) /\ (dl_just l = false -> nreal (dtg l) = true -> In (dtg l) (vis st')).

  Record dwalk_ok (st : wstate) (ls : list dline) (out : list entry) (st' : wstate) : Prop := {
    dwo_mono : incl (vis st) (vis st');
    dwo_new : forall x, In x (vis st') -> ~ In x (vis st) -> forall l, dline_in x l -> line_done out st' l;
    dwo_lines : forall l, In l ls -> line_done out st' l;
    dwo_sound : forall P Q : node -> Prop,
        (forall l, In l ls -> P (dtg l) /\ (dl_just l = false -> Q (dtg l))) ->
        (forall x l, Q x -> dline_in x l -> P (dtg l) /\ (dl_just l = false -> Q (dtg l))) ->
        forall t, In t (map enode out) -> P t
  }.

  Definition drec_ok (rec : node -> nat -> list dline -> wstate -> res (list entry * wstate)) (n : nat) : Prop :=
    forall t d ls st, unvis st < n -> exists out st', rec t d ls st = Ok (out, st') /\ dwalk_ok st ls out st'.

  Record dsub_ok (st : wstate) (l : dline) (l1 : list entry) (st2 : wstate) : Prop := {
    dso_mono : incl (vis st) (vis st2);
    dso_vis : dl_just l = false -> nreal (dtg l) = true -> In (dtg l) (vis st2);
    dso_new : forall x, In x (vis st2) -> ~ In x (vis st) -> forall l', dline_in x l' -> line_done l1 st2 l';
    dso_sound : forall P Q : node -> Prop, (dl_just l = false -> Q (dtg l)) ->
        (forall x l', Q x -> dline_in x l' -> P (dtg l') /\ (dl_just l' = false -> Q (dtg l'))) ->
        forall q, In q (map enode l1) -> P q
  }.

  Lemma line_done_mono out out' st' st'' l :
    incl (map enode out) (map enode out') -> incl (vis st') (vis st'') ->
    line_done out st' l -> line_done out' st'' l.
  Proof. intros H1 H2 [A B]. split; [apply H1, A | intros J Rl; apply H2, B; assumption]. Qed.

  Lemma dsub_call_ok rec n : drec_ok rec n -> forall l depth st, unvis st <= n ->
    exists l1 st2,
      (if nreal (dtg l) && negb (dl_just l) && negb (mem_node (dtg l) (vis st))
       then match dnode_table T (dtg l) with
            | Some ls' => rec (dtg l) (S depth) ls' (pd_ensure (dtg l) (mark (dtg l) st))
            | None => Ok ([], mark (dtg l) st)
            end
       else Ok ([], st)) = Ok (l1, st2) /\ dsub_ok st l l1 st2.
  Proof.
    intros Hrec l depth st Hn. set (t := dtg l).
    destruct (nreal t) eqn:Hr; simpl.
    2:{ exists [], st. split; [reflexivity|]. constructor; try (intros; simpl in *; tauto); try apply incl_refl.
        intros _ Q. fold t in Q. congruence. }
    destruct (dl_just l) eqn:Hj; simpl.
    { exists [], st. split; [reflexivity|]. constructor; try (intros; simpl in *; tauto); try apply incl_refl.
      intros; congruence. }
    destruct (mem_node t (vis st)) eqn:Hm; simpl.
    { apply mem_node_In in Hm. exists [], st. split; [reflexivity|].
      constructor; try (intros; simpl in *; tauto). apply incl_refl. }
    apply mem_node_not_In in Hm.
    destruct (dnode_table T t) as [ls'|] eqn:Ht.
    - assert (Hlt : unvis (pd_ensure t (mark t st)) < n).
      { pose proof (unvis_mark t st (dnode_table_dnodes _ _ Ht) Hm). unfold unvis in *. simpl in *. lia. }
      destruct (Hrec t (S depth) ls' _ Hlt) as [l1 [st2 [E Hok]]].
      exists l1, st2. split; [exact E|].
      destruct Hok as [M N L S]. simpl in M, N.
      assert (Hnew : forall x, In x (vis st2) -> ~ In x (vis st) -> x = t \/ ~ (t = x \/ In x (vis st))).
      { intros x Hx Hnx. destruct (node_eq_dec x t) as [-> | Ne]; [auto|]. right.
        intros [Q | Q]; [congruence | tauto]. }
      constructor.
      + intros x Hx. apply M. simpl. auto.
      + intros _ _. apply M. simpl. auto.
      + intros x Hx Hnx l' [ls'' [Tx Il']]. destruct (Hnew x Hx Hnx) as [-> | Nn].
        * rewrite Ht in Tx. inversion Tx. subst. apply L, Il'.
        * apply (N x Hx Nn). exists ls''. auto.
      + intros P Q Qt Hc q Hq. apply (S P Q); auto.
        intros l' Il'. apply (Hc t); [exact (Qt Hj) | exists ls'; auto].
    - exists [], (mark t st). split; [reflexivity|]. constructor; simpl; try (intros; tauto).
      + intros x Hx. simpl. auto.
      + intros x [<- | Hx] Hnx l' [ls'' [Tx _]]; [congruence | tauto].
  Qed.

  Lemma dwalk_lines_ok rec n :
    drec_ok rec n ->
    forall ls tp depth st, unvis st <= n ->
      exists out st', cwalk_lines lk lkp T pins rec tp depth ls st = Ok (out, st') /\ dwalk_ok st ls out st'.
  Proof.
    intros Hrec. induction ls as [|l r IH]; intros tp depth st Hn.
    - exists [], st. split; [reflexivity|]. constructor; simpl; try tauto. apply incl_refl.
    - cbn [cwalk_lines]. fold (dtg l). set (t := dtg l).
      destruct (dsub_call_ok rec n Hrec l depth st Hn) as [l1 [st2 [E Hs]]]. fold t in E. rewrite E.
      destruct Hs as [M2 V2 N2 S2]. fold t in V2.
      assert (Hn2 : unvis (pd_add tp t st2) <= n).
      { pose proof (unvis_mono st st2 M2). unfold unvis in *. simpl in *. lia. }
      destruct (IH tp depth (pd_add tp t st2) Hn2) as [l2 [st3 [E3 Hok3]]]. rewrite E3.
      exists ((t, dl_optional l, depth) :: l1 ++ l2), st3. split; [reflexivity|].
      destruct Hok3 as [M3 N3 L3 S3]. simpl in M3, N3.
      assert (I1 : incl (map enode l1) (map enode ((t, dl_optional l, depth) :: l1 ++ l2))).
      { intros q Hq. simpl. right. rewrite map_app, in_app_iff. auto. }
      assert (I2 : incl (map enode l2) (map enode ((t, dl_optional l, depth) :: l1 ++ l2))).
      { intros q Hq. simpl. right. rewrite map_app, in_app_iff. auto. }
      constructor.
      + intros x Hx. apply M3, M2, Hx.
      + intros x Hx Hnx l' Il'.
        destruct (in_dec node_eq_dec x (vis st2)) as [J | J].
        * eapply line_done_mono; [exact I1 | exact M3 | eapply N2; eauto].
        * eapply line_done_mono; [exact I2 | apply incl_refl | eapply N3; eauto].
      + intros l' [<- | Il'].
        * split; [simpl; left; reflexivity|]. intros J Rl. apply M3. apply V2; assumption.
        * eapply line_done_mono; [exact I2 | apply incl_refl | apply L3, Il'].
      + intros P Q Hl Hc q Hq. simpl in Hq. rewrite map_app, in_app_iff in Hq.
        destruct Hq as [<- | [Hq | Hq]].
        * apply (Hl l). simpl. auto.
        * apply (S2 P Q); auto. apply (Hl l). simpl. auto.
        * apply (S3 P Q); auto. intros l' Il'. apply Hl. simpl. auto.
  Qed.

  Lemma dwalk_ok_all fuel : drec_ok (cwalk lk lkp T pins fuel) fuel.
  Proof.
    induction fuel as [|f IH]; intros t d ls st Hlt; [lia|].
    cbn [cwalk]. apply dwalk_lines_ok with (n := f); [exact IH | lia].
  Qed.

  (* the listing of the top product: exactly what is reached from it *)
  Lemma dwalk_top_spec top fuel :
    length T < fuel ->
    exists out st, cwalk_top lk lkp T pins fuel top = Ok (out, st) /\
                   forall q, In q (map enode out) <-> dreach top q.
  Proof.
    intros Hf. unfold cwalk_top. destruct (dnode_table T top) as [ls|] eqn:Tt.
    - set (st0 := mkW [] [(top, [])]).
      assert (H0 : unvis st0 < fuel) by (pose proof (unvis_le st0); lia).
      destruct (dwalk_ok_all fuel top 1 ls st0 H0) as [out [st [E [M N L S]]]].
      exists out, st. split; [exact E|]. intros q. split.
      + intros Hq. apply (S (dreach top) (dwalked top)); [| |exact Hq].
        * intros l Il. assert (D : dline_in top l) by (exists ls; auto).
          split; [apply dr_one, D | intros J; apply dk_one; assumption].
        * intros x l Qx D. split; [eapply dwalked_step; eauto | intros J; eapply dwalked_more; eauto].
      + intros R.
        assert (G : forall x z, dreach x z -> In x (vis st) -> In z (map enode out)).
        { induction 1 as [x l D | x l r D J Rr IH]; intros Hx.
          - apply (N x Hx (fun F => F) l D).
          - apply IH. destruct (N x Hx (fun F => F) l D) as [_ W]. apply W; [exact J|].
            eapply dreach_first_real; eauto. }
        inversion R as [p l D | p l r D J Rr]; subst.
        * destruct D as [ls' [Tt' Il]]. rewrite Tt in Tt'. inversion Tt'. subst ls'. apply (L l Il).
        * destruct D as [ls' [Tt' Il]]. rewrite Tt in Tt'. inversion Tt'. subst ls'.
          apply (G _ _ Rr). destruct (L l Il) as [_ W]. apply W; [exact J|]. eapply dreach_first_real; eauto.
    - exists [], (mkW [] []). split; [reflexivity|]. intros q. simpl. split; [tauto|].
      intros R. exfalso. inversion R as [p l [ls [Tt' _]] | p l r [ls [Tt' _]] _ _]; subst; congruence.
  Qed.
End Walk.
