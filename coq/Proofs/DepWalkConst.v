(* The walk of Model/DepWalk.v when every line hands down the VRO it received (no line carries a recognised
   -t tag or -k): the look-ups no longer depend on the way a table was reached, the walk is the function
   [cwalk] below - a walk over fixed look-ups - and the general walk coincides with it ([dwalk_plain]). *)
From Eupsv Require Import Base.Base Base.BaseLemmas Model.Resolve Model.Graph Model.DepWalk.

Section CWalk.
  Variable lk : dline -> option found.                       (* a line under its own VRO *)
  Variable lkp : dline -> option str -> option found.        (* a line whose name is pinned *)
  Variable T : dtables.
  Variable pins : list (str * option str).

  Definition cresolve (l : dline) : node :=
    match pin_of pins (dl_name l) with
    | None => tgt_of l (lk l)
    | Some pv => tgt_of l (lkp l pv)
    end.

  Section Lines.
    Variable rec : node -> nat -> list dline -> wstate -> res (list entry * wstate).

    Fixpoint cwalk_lines (tp : node) (depth : nat) (ls : list dline) (st : wstate)
      : res (list entry * wstate) :=
      match ls with
      | [] => Ok ([], st)
      | l :: r =>
          let t := cresolve l in
          let sub :=
            if nreal t && negb (dl_just l) && negb (mem_node t (vis st)) then
              match dnode_table T t with
              | Some ls' => rec t (S depth) ls' (pd_ensure t (mark t st))
              | None => Ok ([], mark t st)
              end
            else Ok ([], st) in
          match sub with
          | Err x => Err x
          | Ok (l1, st2) =>
              match cwalk_lines tp depth r (pd_add tp t st2) with
              | Err x => Err x
              | Ok (l2, st3) => Ok ((t, dl_optional l, depth) :: l1 ++ l2, st3)
              end
          end
      end.
  End Lines.

  Fixpoint cwalk (fuel : nat) (tp : node) (depth : nat) (ls : list dline) (st : wstate)
    : res (list entry * wstate) :=
    match fuel with
    | 0 => Err OutOfFuel
    | S f => cwalk_lines (cwalk f) tp depth ls st
    end.

  (* prodtbl.dependencies(recursive=True, recursionDepth=1, requiredVersions=pins) *)
  Definition cwalk_top (fuel : nat) (top : node) : res (list entry * wstate) :=
    match dnode_table T top with
    | None => Ok ([], mkW [] [])
    | Some ls => cwalk fuel top 1 ls (mkW [] [(top, [])])
    end.
End CWalk.


Section CProducts.
  Variable lk : dline -> option found.
  Variable lkp : dline -> option str -> option found.
  Variable pref_ok : bool.              (* vro_pref_ok of the VRO in force *)

  (* the second, inexact walk: the listed names tied to the versions listed for them (D16 repaired) *)
  Definition cdep_second (fuel : nat) (TB : dtables) (top : node) (dp : list entry) : res wstate :=
    let pins := pins_fixed top dp in
    if existsb expr_pin pins then Err Undefined
    else if existsb none_pin pins && negb pref_ok then Err Undefined
    else match cwalk_top lk lkp TB pins fuel top with
         | Err x => Err x
         | Ok (_, st) => Ok st
         end.

  (* [TA]: the tables as the first walk reads them (followExact as given); [TB]: without the exact type *)
  Definition cdep_products2 (fuel : nat) (TA TB : dtables) (top : node) (topological check : bool)
    : res (list entry) :=
    match cwalk_top lk lkp TA [] fuel top with
    | Err x => Err x
    | Ok (l, _) =>
        let dp := drop_top top l in
        if negb (topological || check) then Ok dp
        else
          match cdep_second fuel TB top dp with
          | Err x => Err x
          | Ok st =>
              match topo_layers_with node_cmp check (pd st) with
              | Err x => Err x
              | Ok L => Ok (topo_finish true L dp)
              end
          end
    end.

  (* the graph handed to topologicalSort *)
  Definition cdep_topo_graph (fuel : nat) (TA TB : dtables) (top : node) : res graph :=
    match cwalk_top lk lkp TA [] fuel top with
    | Err x => Err x
    | Ok (l, _) =>
        match cdep_second fuel TB top (drop_top top l) with
        | Err x => Err x
        | Ok st => Ok (prepare (pd st))
        end
    end.
End CProducts.


(* ---------------------------------------------------------------- the general walk on plain tables *)

Lemma dnode_table_inv T p ls : dnode_table T p = Some ls ->
  exists n v, p = (n, Some v, true) /\ dtable_of T n v = Some ls.
Proof.
  destruct p as [[n ov] r]. unfold dnode_table, nreal, nver, nname. simpl.
  destruct r; [|discriminate]. destruct ov as [v|]; [|discriminate]. intros H. exists n, v. auto.
Qed.

(* every line of every table hands down the VRO it received *)
Definition plain_tables (lvro : list ventry -> dline -> list ventry) (vro : list ventry) (T : dtables) : Prop :=
  forall n v ls l, dtable_of T n v = Some ls -> In l ls -> lvro vro l = vro.

Section Plain.
  Variable lvro : list ventry -> dline -> list ventry.
  Variable lk : list ventry -> dline -> option found.
  Variable lkp : list ventry -> dline -> option str -> option found.
  Variable T : dtables.
  Variable pins : list (str * option str).
  Variable vro : list ventry.
  Hypothesis PL : plain_tables lvro vro T.

  (* the look-ups of the walk when [vro] is in force *)
  Definition lk_under : dline -> option found := fun l => lk (lvro vro l) l.
  Definition lkp_under : dline -> option str -> option found := fun l pv => lkp (lvro vro l) l pv.

  Lemma dwalk_lines_plain rec1 rec2 :
    (forall t d ls st, dnode_table T t = Some ls -> rec1 vro t d ls st = rec2 t d ls st) ->
    forall ls tp depth st, (forall l, In l ls -> lvro vro l = vro) ->
      dwalk_lines lvro lk lkp T pins rec1 vro tp depth ls st =
      cwalk_lines lk_under lkp_under T pins rec2 tp depth ls st.
  Proof.
    intros Hrec. induction ls as [|l r IH]; intros tp depth st Hl; [reflexivity|].
    cbn [dwalk_lines cwalk_lines].
    change (dresolve lk lkp pins (lvro vro l) l) with (cresolve lk_under lkp_under pins l).
    set (t := cresolve lk_under lkp_under pins l).
    rewrite (Hl l (or_introl eq_refl)).
    assert (Hsub :
      (if nreal t && negb (dl_just l) && negb (mem_node t (vis st))
       then match dnode_table T t with
            | Some ls' => rec1 vro t (S depth) ls' (pd_ensure t (mark t st))
            | None => Ok ([], mark t st)
            end
       else Ok ([], st)) =
      (if nreal t && negb (dl_just l) && negb (mem_node t (vis st))
       then match dnode_table T t with
            | Some ls' => rec2 t (S depth) ls' (pd_ensure t (mark t st))
            | None => Ok ([], mark t st)
            end
       else Ok ([], st))).
    { destruct (nreal t && negb (dl_just l) && negb (mem_node t (vis st))); [|reflexivity].
      destruct (dnode_table T t) as [ls'|] eqn:E; [|reflexivity]. apply Hrec, E. }
    rewrite Hsub. clear Hsub.
    match goal with |- match ?X with _ => _ end = match ?X with _ => _ end => destruct X as [[l1 st2]|x] end; [|reflexivity].
    rewrite (IH tp depth (pd_add tp t st2)); [reflexivity|]. intros l' Hl'. apply Hl. right. exact Hl'.
  Qed.

  Lemma dwalk_plain fuel : forall tp depth ls st, (forall l, In l ls -> lvro vro l = vro) ->
    dwalk lvro lk lkp T pins fuel vro tp depth ls st = cwalk lk_under lkp_under T pins fuel tp depth ls st.
  Proof.
    induction fuel as [|f IH]; intros tp depth ls st Hl; [reflexivity|].
    cbn [dwalk cwalk]. apply dwalk_lines_plain; [|exact Hl].
    intros t d ls' st' Tt. apply IH. intros l Il. destruct (dnode_table_inv _ _ _ Tt) as [n [v [_ Tnv]]].
    eapply PL; eauto.
  Qed.

  Lemma dwalk_top_plain fuel top :
    dwalk_top lvro lk lkp T pins fuel vro top = cwalk_top lk_under lkp_under T pins fuel top.
  Proof.
    unfold dwalk_top, cwalk_top. destruct (dnode_table T top) as [ls|] eqn:Tt; [|reflexivity].
    apply dwalk_plain. intros l Il. destruct (dnode_table_inv _ _ _ Tt) as [n [v [_ Tnv]]]. eapply PL; eauto.
  Qed.
End Plain.

(* getDependentProducts on plain tables *)
Lemma dep_products2_plain lvro lk lkp pref_ok vro fuel TA TB top topological check :
  plain_tables lvro vro TA -> plain_tables lvro vro TB ->
  dep_products2 lvro lk lkp pref_ok vro fuel TA TB top topological check =
  cdep_products2 (lk_under lvro lk vro) (lkp_under lvro lkp vro) pref_ok fuel TA TB top topological check.
Proof.
  intros PA PB. unfold dep_products2, cdep_products2, dep_second, cdep_second.
  rewrite (dwalk_top_plain lvro lk lkp TA [] vro PA).
  destruct (cwalk_top _ _ TA [] fuel top) as [[l st]|]; [|reflexivity].
  destruct (negb (topological || check)); [reflexivity|].
  destruct (existsb expr_pin _); [reflexivity|]. destruct (existsb none_pin _ && negb pref_ok); [reflexivity|].
  rewrite (dwalk_top_plain lvro lk lkp TB _ vro PB). reflexivity.
Qed.

Lemma dep_topo_graph_plain lvro lk lkp pref_ok vro fuel TA TB top :
  plain_tables lvro vro TA -> plain_tables lvro vro TB ->
  dep_topo_graph lvro lk lkp pref_ok vro fuel TA TB top =
  cdep_topo_graph (lk_under lvro lk vro) (lkp_under lvro lkp vro) pref_ok fuel TA TB top.
Proof.
  intros PA PB. unfold dep_topo_graph, cdep_topo_graph, dep_second, cdep_second.
  rewrite (dwalk_top_plain lvro lk lkp TA [] vro PA).
  destruct (cwalk_top _ _ TA [] fuel top) as [[l st]|]; [|reflexivity].
  destruct (existsb expr_pin _); [reflexivity|]. destruct (existsb none_pin _ && negb pref_ok); [reflexivity|].
  rewrite (dwalk_top_plain lvro lk lkp TB _ vro PB). reflexivity.
Qed.
