(* The edges the dependency walk follows are the products the Version Resolution Order designates (C03),
   and the world of those edges satisfies wf_world of C13: what a line resolved to is declared, an explicit
   version that did not resolve is not. *)
From Coq Require Import Lia.
From Eupsv Require Import Base.Base Base.BaseLemmas Model.Resolve Model.ResolveSpec Model.Graph Model.DepWalk
     Proofs.ResolveLib Proofs.Resolve Proofs.GraphLib Proofs.GraphWalk Proofs.GraphListing Proofs.GraphOrder
     Proofs.DepWalkSim.

(* ---------------------------------------------------------------- a dependency is never subject to the top-level rule *)

Lemma designates_top_dependency vcmp vmatch c db n vr f d vro :
  designates_top vcmp vmatch c db n vr f (S d) vro = designates_in vcmp vmatch c db n vr f vro.
Proof.
  induction vro as [|e l IH]; simpl; [reflexivity|].
  destruct (clause vcmp vmatch c db n vr f e l) as [p| |]; [|reflexivity|exact IH].
  unfold acceptable. destruct vr; reflexivity.
Qed.

Lemma first_some_ext {A B} (g h : A -> option B) l :
  (forall a, In a l -> g a = h a) -> first_some g l = first_some h l.
Proof.
  induction l as [|a l IH]; intros H; simpl; [reflexivity|].
  rewrite (H a) by (left; reflexivity). destruct (h a); [reflexivity|]. apply IH. intros b Hb. apply H. right. exact Hb.
Qed.

(* the comparator is a total order on the version names of every product *)
Definition vcmp_ok (vcmp : str -> str -> comparison) (db : dbv) : Prop :=
  forall n, total_order_on vcmp (names_of db n).

Section Designation.
  Variable vcmp : str -> str -> comparison.
  Variable vmatch : str -> str -> bool.
  Variable c : config.
  Variable db : dbv.
  Hypothesis WF : wf_db db = true.
  Hypothesis HT : vcmp_ok vcmp db.

  (* the loop over the flavors around findProductFromVRO = the designation of C03 for a dependency *)
  Lemma vro_lookup_designates fl lv rq d :
    vro_lookup vcmp vmatch c db fl lv rq = designates vcmp vmatch c db fl (S d) lv rq.
  Proof.
    unfold vro_lookup, designates. apply first_some_ext. intros f _.
    rewrite (walk_designates vcmp vmatch c db rq f 0 WF (HT (rq_name rq)) lv).
    symmetry. apply designates_top_dependency.
  Qed.

  (* ---------------------------------------------------------------- what is designated is declared *)

  Lemma versions_of_declared l n f v : In v (versions_of l n f) -> existsb (decl_is n v f) l = true.
  Proof.
    intros H. apply versions_of_In in H. apply existsb_exists. exists (n, v, f). split; [exact H|].
    unfold decl_is. rewrite !str_eqb_refl. reflexivity.
  Qed.

  Lemma candidates_declared n f q :
    In q (candidates db n f) -> exists s, In s db /\ Resolve.declared s n (fd_version q) f = true /\ fd_name q = n /\ fd_flavor q = f.
  Proof.
    unfold candidates. intros H. apply in_flat_map in H as [s [Hs H]]. apply in_map_iff in H as [v [<- Hv]].
    exists s. split; [exact Hs|]. simpl. split; [|auto]. apply versions_of_declared. exact Hv.
  Qed.

  Definition declared_found (n f : str) (p : found) : Prop :=
    exists s, In s db /\ Resolve.declared s n (fd_version p) f = true /\ fd_name p = n /\ fd_flavor p = f.

  Lemma clause_declared n vr f e later p :
    clause vcmp vmatch c db n vr f e later = Yield p -> declared_found n f p.
  Proof.
    assert (HC : forall l, highest vcmp (filter l (candidates db n f)) = Some p -> declared_found n f p).
    { intros l H. apply highest_in in H. apply filter_In in H. destruct H as [H _]. apply candidates_declared, H. }
    assert (HC0 : highest vcmp (candidates db n f) = Some p -> declared_found n f p).
    { intro H. apply highest_in in H. apply candidates_declared, H. }
    assert (HV : forall v l, or_fail (version_designates db n v f) l = Yield p -> declared_found n f p).
    { intros v l H. unfold or_fail in H. destruct (version_designates db n v f) as [q|] eqn:E.
      - injection H as ->. unfold version_designates in E. apply first_some_in in E. destruct E as [s [Hs E]].
        destruct (Resolve.declared s n v f) eqn:D; [|discriminate]. injection E as <-. exists s. simpl. auto.
      - destruct (existsb is_version_like l); discriminate. }
    assert (HTg : forall t, tag_designates db n t f = Some p -> declared_found n f p).
    { intros t E. unfold tag_designates in E. apply first_some_in in E. destruct E as [s [Hs E]].
      destruct (chain_version s n f t) as [v|]; [|discriminate].
      destruct (Resolve.declared s n v f) eqn:D; [|discriminate]. injection E as <-. exists s. simpl. auto. }
    assert (HO : forall o, of_option o = Yield p -> o = Some p).
    { intros [q|] H; simpl in H; [now injection H as ->|discriminate]. }
    destruct e; cbn [clause]; try discriminate.
    - destruct vr as [|v ox|x]; try discriminate.
      + apply HV.
      + destruct (mem_entry EVersionExpr later); discriminate.
    - destruct vr as [|v ox|x]; try discriminate.
      + apply HV.
      + destruct (mem_entry EVersionExpr later); discriminate.
    - destruct vr as [|v ox|x]; try discriminate.
      + destruct ox as [x|].
        * unfold expr_designates. destruct (highest vcmp (filter _ (candidates db n f))) as [q|] eqn:E.
          -- intro H. injection H as ->. eapply HC; eauto.
          -- apply HV.
        * apply HV.
      + unfold or_fail, expr_designates. destruct (highest vcmp (filter _ (candidates db n f))) as [q|] eqn:E.
        * intro H. injection H as ->. eapply HC; eauto.
        * destruct (existsb is_version_like later); discriminate.
    - destruct (recognized c t); [|discriminate].
      destruct (str_eqb t (lit "latest")); [intro H; apply HO in H; auto|].
      destruct (str_eqb t (lit "setup")); [discriminate|]. intro H. apply HO in H. eauto.
  Qed.

  Lemma designates_in_declared n vr f vro p :
    designates_in vcmp vmatch c db n vr f vro = Some p -> declared_found n f p.
  Proof.
    induction vro as [|e l IH]; simpl; [discriminate|].
    destruct (clause vcmp vmatch c db n vr f e l) as [q| |] eqn:E; [|discriminate|exact IH].
    intro H. injection H as ->. eapply clause_declared; eauto.
  Qed.

  Lemma vro_lookup_declared fl lv rq p :
    vro_lookup vcmp vmatch c db fl lv rq = Some p ->
    exists f, In f fl /\ declared_found (rq_name rq) f p.
  Proof.
    unfold vro_lookup. intros H. apply first_some_in in H as [f [Hf H]]. exists f. split; [exact Hf|].
    rewrite (walk_designates vcmp vmatch c db rq f 0 WF (HT (rq_name rq)) lv) in H.
    eapply designates_in_declared; eauto.
  Qed.

  (* ---------------------------------------------------------------- a named version that is not found is not declared *)

  Lemma named_unresolved n v ox f vro :
    existsb is_version_like vro = true ->
    designates_in vcmp vmatch c db n (Named v ox) f vro = None ->
    version_designates db n v f = None.
  Proof.
    induction vro as [|e l IH]; simpl; [discriminate|]. intros HV.
    destruct e; cbn [clause is_version_like orb] in *.
    - apply IH, HV.
    - apply IH, HV.
    - unfold or_fail. destruct (version_designates db n v f) as [q|] eqn:E; [discriminate|].
      intros _. reflexivity.
    - unfold or_fail. destruct (version_designates db n v f) as [q|] eqn:E; [discriminate|].
      intros _. reflexivity.
    - destruct (match ox with Some x => expr_designates vcmp vmatch db n x f | None => None end); [discriminate|].
      unfold or_fail. destruct (version_designates db n v f) as [q|] eqn:E; [discriminate|].
      intros _. reflexivity.
    - apply IH, HV.
    - apply IH, HV.
    - apply IH, HV.
    - destruct (recognized c t); [|apply IH, HV].
      destruct (str_eqb t (lit "latest")).
      + destruct (highest vcmp (candidates db n f)); simpl; [discriminate | apply IH, HV].
      + destruct (str_eqb t (lit "setup")); [apply IH, HV|].
        destruct (tag_designates db n t f); simpl; [discriminate | apply IH, HV].
  Qed.
End Designation.

(* ---------------------------------------------------------------- the world: database and tables fit together *)

(* every product the resolver can return (declared in some stack for a flavor of the list) has a table, and
   every table belongs to such a product; version names are not empty *)
Record dworld_ok (db : dbv) (flavors : list str) (T : dtables) : Prop := {
  dok_wf : wf_db db = true;
  dok_tables : forall s n v f, In s db -> In f flavors -> Resolve.declared s n v f = true -> dtable_of T n v <> None;
  dok_declared : forall n v ls, dtable_of T n v = Some ls ->
                 v <> [] /\ exists s f, In s db /\ In f flavors /\ Resolve.declared s n v f = true
}.

Lemma first_some_none_inv {A B} (g : A -> option B) l : first_some g l = None -> forall a, In a l -> g a = None.
Proof.
  induction l as [|x l IH]; simpl; [tauto|]. destruct (g x) eqn:E; [discriminate|].
  intros H a [<- | Ha]; [exact E | apply IH; assumption].
Qed.

Lemma declared_not_expr db s n v f : wf_db db = true -> In s db -> Resolve.declared s n v f = true -> is_expr v = false.
Proof.
  intros Hwf Hs D. unfold wf_db in Hwf. rewrite forallb_forall in Hwf. specialize (Hwf s Hs).
  unfold wf_stack in Hwf. apply andb_true_iff in Hwf as [Hwf _]. rewrite forallb_forall in Hwf.
  unfold Resolve.declared in D. apply existsb_exists in D as [[[n' v'] f'] [Hin Hd]].
  unfold decl_is in Hd. apply andb_true_iff in Hd as [Hd _]. apply andb_true_iff in Hd as [_ Hd].
  apply str_eqb_eq in Hd. subst v'. specialize (Hwf _ Hin). simpl in Hwf. apply negb_true_iff in Hwf. exact Hwf.
Qed.

Lemma graph_declared_edges lk T n v :
  Graph.declared (edges_world lk T) n v = match dtable_of T n v with Some _ => true | None => false end.
Proof. unfold Graph.declared. rewrite table_of_edges. destruct (dtable_of T n v); reflexivity. Qed.

Lemma line_vro_version_like c vro l :
  existsb is_version_like vro = true -> existsb is_version_like (line_vro c vro l) = true.
Proof.
  intros H. unfold line_vro. set (tags := map parse_entry (filter (recognized c) (dl_tags l))).
  assert (H2 : existsb is_version_like (tags ++ vro) = true) by (rewrite existsb_app, H; apply orb_true_r).
  destruct (dl_keep l || mem_entry EKeep vro); [simpl; exact H2 | exact H2].
Qed.

Lemma classify_named n v x : v <> [] -> is_expr v = false -> exists ox, classify (mkRequest n (Some v) x) = Named v ox.
Proof.
  intros Hv He. unfold classify. simpl. destruct v as [|a r]; [congruence|]. rewrite He. eauto.
Qed.

Section World.
  Variable vcmp : str -> str -> comparison.
  Variable vmatch : str -> str -> bool.
  Variable c : config.
  Variable db : dbv.
  Variable flavors : list str.
  Variable vro : list ventry.
  Variable T : dtables.
  Hypothesis OK : dworld_ok db flavors T.
  Hypothesis HT : vcmp_ok vcmp db.
  Hypothesis HV : existsb is_version_like vro = true.

  Let lk := lookup_line vcmp vmatch c db flavors vro.
  Let w := edges_world lk T.

  (* a line that resolved names a product that has a table *)
  Lemma lookup_line_table l fd : lk l = Some fd -> dtable_of T (dl_name l) (fd_version fd) <> None.
  Proof.
    intros H. unfold lk, lookup_line, lookup_at in H.
    destruct (vro_lookup_declared vcmp vmatch c db (dok_wf _ _ _ OK) HT _ _ _ _ H) as [f [Hf [s [Hs [D _]]]]].
    simpl in D. eapply (dok_tables _ _ _ OK); eauto.
  Qed.

  (* a line with an explicit version that did not resolve: that version has no table *)
  Lemma lookup_line_unresolved l v : lk l = None -> dl_version l = Some v -> dtable_of T (dl_name l) v = None.
  Proof.
    intros H Ev. destruct (dtable_of T (dl_name l) v) as [ls|] eqn:Tv; [|reflexivity]. exfalso.
    destruct (dok_declared _ _ _ OK _ _ _ Tv) as [Hne [s [f [Hs [Hf D]]]]].
    pose proof (declared_not_expr db s _ _ _ (dok_wf _ _ _ OK) Hs D) as Hx.
    unfold lk, lookup_line, lookup_at, vro_lookup in H.
    pose proof (first_some_none_inv _ _ H f Hf) as H1. cbv beta in H1.
    rewrite (walk_designates vcmp vmatch c db (dreq l) f 0 (dok_wf _ _ _ OK) (HT _) (line_vro c vro l)) in H1.
    destruct (classify_named (dl_name l) v (dl_expr l) Hne Hx) as [ox Ec].
    assert (Ec2 : classify (dreq l) = Named v ox) by (unfold dreq; rewrite Ev; exact Ec).
    rewrite Ec2 in H1. change (rq_name (dreq l)) with (dl_name l) in H1.
    apply named_unresolved in H1; [|apply line_vro_version_like, HV].
    unfold version_designates in H1. pose proof (first_some_none_inv _ _ H1 s Hs) as H2. cbv beta in H2.
    rewrite D in H2. discriminate.
  Qed.

  Theorem edges_world_wf : wf_world w.
  Proof.
    intros n v es e Tn Ie. unfold w in Tn. rewrite table_of_edges in Tn.
    destruct (dtable_of T n v) as [ls|] eqn:Tl; [|discriminate]. simpl in Tn. inversion Tn. subst es. clear Tn.
    apply in_map_iff in Ie as [l [<- Il]]. split.
    - intros r Er. simpl in Er. destruct (lk l) as [fd|] eqn:E; [|discriminate]. simpl in Er. inversion Er. subst r.
      unfold w. rewrite graph_declared_edges. simpl.
      pose proof (lookup_line_table l fd E) as Hn. destruct (dtable_of T (dl_name l) (fd_version fd)); [reflexivity | congruence].
    - intros v' Er Ev. simpl in Er, Ev. destruct (lk l) as [fd|] eqn:E; [discriminate|].
      unfold w. rewrite graph_declared_edges. simpl. rewrite (lookup_line_unresolved l v' E Ev). reflexivity.
  Qed.
End World.
