(* The VRO of a table line stays in force for the table walked below it (Model/DepWalk.v, dwalk):
   Table.dependencies pushes the VRO of a line - its own -t tags in front of the VRO in force, or the words of
   its --vro - resolves the line, walks the table of the product found, and only then pops it.  Stated on the
   walk for every processArgs function [lvro], every look-up function, every table set and every state. *)
From Eupsv Require Import Base.Base Base.BaseLemmas Model.Resolve Model.Graph Model.DepWalk.

Section Inherit.
  Variable lvro : list ventry -> dline -> list ventry.
  Variable lk : list ventry -> dline -> option found.
  Variable lkp : list ventry -> dline -> option str -> option found.
  Variable T : dtables.
  Variable pins : list (str * option str).

  (* the first entry a table contributes is the product its first line denotes under the VRO of that line *)
  Lemma dwalk_head fuel vro tp depth l r st es st' :
    dwalk lvro lk lkp T pins (S fuel) vro tp depth (l :: r) st = Ok (es, st') ->
    exists rest, es = (dresolve lk lkp pins (lvro vro l) l, dl_optional l, depth) :: rest.
  Proof.
    cbn [dwalk dwalk_lines]. intros H.
    destruct (if nreal (dresolve lk lkp pins (lvro vro l) l) && negb (dl_just l) &&
                 negb (mem_node (dresolve lk lkp pins (lvro vro l) l) (vis st))
              then match dnode_table T (dresolve lk lkp pins (lvro vro l) l) with
                   | Some ls' => dwalk lvro lk lkp T pins fuel (lvro vro l) (dresolve lk lkp pins (lvro vro l) l) (S depth) ls'
                                       (pd_ensure (dresolve lk lkp pins (lvro vro l) l) (mark (dresolve lk lkp pins (lvro vro l) l) st))
                   | None => Ok ([], mark (dresolve lk lkp pins (lvro vro l) l) st)
                   end
              else Ok ([], st)) as [[l1 st2]|x]; [|discriminate].
    destruct (dwalk_lines lvro lk lkp T pins (dwalk lvro lk lkp T pins fuel) vro tp depth r
                          (pd_add tp (dresolve lk lkp pins (lvro vro l) l) st2)) as [[l2 st3]|x]; [|discriminate].
    inversion H. eexists. reflexivity.
  Qed.

  (* the table of the product a line denotes is walked under the VRO of THAT LINE, one level deeper, and what
     it lists follows the line's own entry *)
  Lemma dwalk_line_below fuel vro tp depth l r st es st' ls' :
    dwalk lvro lk lkp T pins (S fuel) vro tp depth (l :: r) st = Ok (es, st') ->
    nreal (dresolve lk lkp pins (lvro vro l) l) = true -> dl_just l = false ->
    mem_node (dresolve lk lkp pins (lvro vro l) l) (vis st) = false ->
    dnode_table T (dresolve lk lkp pins (lvro vro l) l) = Some ls' ->
    exists l1 st2 l2,
      dwalk lvro lk lkp T pins fuel (lvro vro l) (dresolve lk lkp pins (lvro vro l) l) (S depth) ls'
            (pd_ensure (dresolve lk lkp pins (lvro vro l) l) (mark (dresolve lk lkp pins (lvro vro l) l) st)) = Ok (l1, st2) /\
      es = (dresolve lk lkp pins (lvro vro l) l, dl_optional l, depth) :: l1 ++ l2.
  Proof.
    cbn [dwalk dwalk_lines]. intros H R J V Tb. rewrite R, J, V, Tb in H. cbn [andb negb] in H.
    destruct (dwalk lvro lk lkp T pins fuel (lvro vro l) (dresolve lk lkp pins (lvro vro l) l) (S depth) ls'
                    (pd_ensure (dresolve lk lkp pins (lvro vro l) l) (mark (dresolve lk lkp pins (lvro vro l) l) st)))
      as [[l1 st2]|x]; [|discriminate].
    destruct (dwalk_lines lvro lk lkp T pins (dwalk lvro lk lkp T pins fuel) vro tp depth r
                          (pd_add tp (dresolve lk lkp pins (lvro vro l) l) st2)) as [[l2 st3]|x]; [|discriminate].
    inversion H. exists l1, st2, l2. split; reflexivity.
  Qed.
End Inherit.

Section Levels.
  Variable lvro : list ventry -> dline -> list ventry.
  Variable lk : list ventry -> dline -> option found.
  Variable lkp : list ventry -> dline -> option str -> option found.
  Variable T : dtables.

  Lemma dresolve_nopins lv l : dresolve lk lkp [] lv l = tgt_of l (lk lv l).
  Proof. reflexivity. Qed.

  (* two levels: the first line of the table below a line is resolved under the VRO of the line above with its
     own in front *)
  Lemma inherit_two_levels fuel vro top l r l2 r2 es st :
    dnode_table T top = Some (l :: r) ->
    nreal (tgt_of l (lk (lvro vro l) l)) = true -> dl_just l = false ->
    dnode_table T (tgt_of l (lk (lvro vro l) l)) = Some (l2 :: r2) ->
    dwalk_top lvro lk lkp T [] (S (S fuel)) vro top = Ok (es, st) ->
    exists rest, es = (tgt_of l (lk (lvro vro l) l), dl_optional l, 1)
                      :: (tgt_of l2 (lk (lvro (lvro vro l) l2) l2), dl_optional l2, 2) :: rest.
  Proof.
    intros Tt R J T1 H. unfold dwalk_top in H. rewrite Tt in H.
    destruct (dwalk_line_below lvro lk lkp T [] (S fuel) vro top 1 l r _ es st (l2 :: r2) H R J eq_refl T1)
      as [l1 [st2 [l2' [H1 ->]]]].
    destruct (dwalk_head lvro lk lkp T [] fuel _ _ _ l2 r2 _ l1 st2 H1) as [rest ->].
    rewrite !dresolve_nopins. eexists. cbn [app]. reflexivity.
  Qed.

  (* three levels *)
  Lemma inherit_three_levels fuel vro top l r l2 r2 l3 r3 es st :
    let lv1 := lvro vro l in let t1 := tgt_of l (lk lv1 l) in
    let lv2 := lvro lv1 l2 in let t2 := tgt_of l2 (lk lv2 l2) in
    dnode_table T top = Some (l :: r) ->
    nreal t1 = true -> dl_just l = false -> dnode_table T t1 = Some (l2 :: r2) ->
    nreal t2 = true -> dl_just l2 = false -> node_eqb t2 t1 = false -> dnode_table T t2 = Some (l3 :: r3) ->
    dwalk_top lvro lk lkp T [] (S (S (S fuel))) vro top = Ok (es, st) ->
    exists rest, es = (t1, dl_optional l, 1) :: (t2, dl_optional l2, 2)
                      :: (tgt_of l3 (lk (lvro lv2 l3) l3), dl_optional l3, 3) :: rest.
  Proof.
    intros lv1 t1 lv2 t2 Tt R1 J1 T1 R2 J2 N T2 H. unfold dwalk_top in H. rewrite Tt in H.
    destruct (dwalk_line_below lvro lk lkp T [] (S (S fuel)) vro top 1 l r _ es st (l2 :: r2) H R1 J1 eq_refl T1)
      as [l1 [st2 [l2' [H1 ->]]]].
    assert (V : mem_node (dresolve lk lkp [] (lvro (lvro vro l) l2) l2)
                         (vis (pd_ensure (dresolve lk lkp [] (lvro vro l) l)
                                         (mark (dresolve lk lkp [] (lvro vro l) l) (mkW [] [(top, [])])))) = false).
    { cbn [vis pd_ensure mark mem_node]. rewrite !dresolve_nopins. fold lv1 t1 lv2 t2. rewrite N. reflexivity. }
    destruct (dwalk_line_below lvro lk lkp T [] (S fuel) _ _ _ l2 r2 _ l1 st2 (l3 :: r3) H1 R2 J2 V T2)
      as [l1' [st2' [l2'' [H2 ->]]]].
    destruct (dwalk_head lvro lk lkp T [] fuel _ _ _ l3 r3 _ l1' st2' H2) as [rest ->].
    rewrite !dresolve_nopins. eexists. cbn [app]. reflexivity.
  Qed.
End Levels.
