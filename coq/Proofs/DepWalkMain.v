(* The statements of Props/C13.v about the dependency walk with the resolver inside (Model/DepWalk.v). *)
From Coq Require Import Lia.
From Eupsv Require Import Base.Base Base.BaseLemmas Model.Resolve Model.ResolveSpec Model.Graph Model.DepWalk
     Proofs.ResolveLib Proofs.Resolve Proofs.GraphLib Proofs.GraphWalk Proofs.GraphListing Proofs.GraphOrder
     Proofs.GraphLayers Proofs.GraphTarjan Proofs.GraphPartition Proofs.GraphTarjanLib Proofs.GraphTarjanFull
     Proofs.GraphTotal Proofs.GraphBuild
     Proofs.DepWalkConst Proofs.DepWalkSim Proofs.DepWalkComplete Proofs.DepWalkEdges Proofs.DepWalkPins.

(* ---------------------------------------------------------------- the listing is the reachable set *)

Section Listing.
  Variable lvro : list ventry -> dline -> list ventry.
  Variable lk : list ventry -> dline -> option found.
  Variable lkp : list ventry -> dline -> option str -> option found.
  Variable pref_ok : bool.
  Variable vro : list ventry.

  (* reached from top through the lines as the look-ups resolve them under [vro] *)
  Definition reached (T : dtables) : node -> node -> Prop :=
    dreach (lk_under lvro lk vro) (lkp_under lvro lkp vro) T [].

  Lemma listing_plain_general fuel TA TB top :
    plain_tables lvro vro TA -> length TA < fuel ->
    exists l, dep_products2 lvro lk lkp pref_ok vro fuel TA TB top false false = Ok l /\
              forall q, In q (map enode l) <-> q <> top /\ reached TA top q.
  Proof.
    intros PA Hf. unfold dep_products2. rewrite (dwalk_top_plain lvro lk lkp TA [] vro PA).
    destruct (dwalk_top_spec (lk_under lvro lk vro) (lkp_under lvro lkp vro) TA [] top fuel Hf) as [out [st [E H]]].
    rewrite E. cbn [orb negb]. eexists. split; [reflexivity|]. intros q. rewrite drop_top_nodes, H. reflexivity.
  Qed.

  Lemma listing_general fuel TA TB top topological check l :
    plain_tables lvro vro TA -> length TA < fuel ->
    dep_products2 lvro lk lkp pref_ok vro fuel TA TB top topological check = Ok l ->
    (forall q, In q (map enode l) <-> q <> top /\ reached TA top q) /\
    (topological || check = true -> NoDup (map enode l)).
  Proof.
    intros PA Hf H. unfold dep_products2 in H. rewrite (dwalk_top_plain lvro lk lkp TA [] vro PA) in H.
    destruct (dwalk_top_spec (lk_under lvro lk vro) (lkp_under lvro lkp vro) TA [] top fuel Hf) as [out [st [E Ho]]].
    rewrite E in H.
    assert (Hdp : forall q, In q (map enode (drop_top top out)) <-> q <> top /\ reached TA top q).
    { intros q. rewrite drop_top_nodes, Ho. reflexivity. }
    destruct (topological || check) eqn:B; cbn [negb] in H.
    - destruct (dep_second lvro lk lkp pref_ok vro fuel TB top (drop_top top out)) as [st2|]; [|discriminate].
      destruct (topo_layers_with node_cmp check (pd st2)) as [L|]; [|discriminate].
      inversion H. subst l. split.
      + intros q. rewrite topo_finish_nodes. apply Hdp.
      + intros _. apply topo_finish_NoDup.
    - inversion H. subst l. split; [exact Hdp | discriminate].
  Qed.
End Listing.

(* ---------------------------------------------------------------- steps of the world of resolved edges *)

Lemma step_edges_iff lk T p q :
  step (edges_world lk T) p q <-> exists l, dline_in T p l /\ q = tgt_of l (lk l).
Proof.
  unfold step, dline_in. split.
  - intros [es [e [Tp [Ie ->]]]]. rewrite node_table_edges in Tp.
    destruct (dnode_table T p) as [ls|]; [|discriminate]. simpl in Tp. inversion Tp. subst es.
    apply in_map_iff in Ie as [l [<- Il]]. exists l. split; [exists ls; auto|].
    unfold own_target, tgt_of. simpl. destruct (lk l); reflexivity.
  - intros [l [[ls [Tp Il]] ->]]. exists (map (edge_of lk) ls), (edge_of lk l). split.
    + rewrite node_table_edges, Tp. reflexivity.
    + split; [apply in_map, Il|]. unfold own_target, tgt_of. simpl. destruct (lk l); reflexivity.
Qed.

(* without -j lines, being reached is being reachable in the world of resolved edges *)
Lemma reached_is_reach_plus lk lkp T p q : no_just T ->
  (dreach lk lkp T [] p q <-> reach_plus (edges_world lk T) p q).
Proof.
  intros NJ. unfold reach_plus. split.
  - induction 1 as [p l D | p l r D J _ IH].
    + apply rp_one, step_is_stepP, step_edges_iff. exists l. split; [exact D | reflexivity].
    + eapply rp_more; [|exact IH]. apply step_is_stepP, step_edges_iff. exists l. split; [exact D | reflexivity].
  - induction 1 as [p q S | p q r S _ IH].
    + apply step_is_stepP, step_edges_iff in S as [l [D ->]]. apply (dr_one lk lkp T [] p l D).
    + apply step_is_stepP, step_edges_iff in S as [l [D ->]].
      apply (dr_more lk lkp T [] p l r D); [|exact IH].
      destruct D as [ls [Tp Il]]. destruct (dnode_table_inv _ _ _ Tp) as [n [v [_ Tn]]]. eapply NJ; eauto.
Qed.

(* ---------------------------------------------------------------- the composed model against Model/Graph.v *)

Section Composed.
  Variable vcmp : str -> str -> comparison.
  Variable vmatch : str -> str -> bool.
  Variable c : config.
  Variable db : dbv.
  Variable flavors : list str.
  Variable pf : list str.
  Variable vro : list ventry.
  Variable T : dtables.
  Hypothesis OK : dworld_ok db flavors T.
  Hypothesis HT : vcmp_ok vcmp db.
  Hypothesis HV : existsb is_version_like vro = true.
  Hypothesis PF1 : incl flavors pf.
  Hypothesis PF2 : incl pf flavors.
  Hypothesis NJ : no_just T.
  Hypothesis PL : plain_tables (line_vro c) vro T.

  (* the world of the edges the resolver computes under the VRO of the command *)
  Definition resolved_world : world := edges_world (lookup_line vcmp vmatch c db flavors vro) T.

  Lemma composed_is_graph pref_ok fuel top topological l :
    length T < fuel ->
    dep_products2 (line_vro c) (lookup_at vcmp vmatch c db flavors) (lookup_pinned_at vcmp vmatch c db pf)
                  pref_ok vro fuel T T top topological false = Ok l ->
    dependent_products fuel resolved_world top topological = Ok l.
  Proof.
    intros Hf H. rewrite (dep_products2_plain _ _ _ _ _ _ _ _ _ _ _ PL PL) in H.
    exact (dep_products_is_graph vcmp vmatch c db flavors pf vro T OK HT HV PF1 PF2 NJ pref_ok fuel top topological l Hf H).
  Qed.

  Lemma composed_graph_is_graph pref_ok fuel top g :
    length T < fuel ->
    dep_topo_graph (line_vro c) (lookup_at vcmp vmatch c db flavors) (lookup_pinned_at vcmp vmatch c db pf)
                   pref_ok vro fuel T T top = Ok g ->
    topo_graph fuel resolved_world top = Ok g.
  Proof.
    intros Hf H. rewrite (dep_topo_graph_plain _ _ _ _ _ _ _ _ _ PL PL) in H.
    exact (dep_graph_is_graph vcmp vmatch c db flavors pf vro T OK HT HV PF1 PF2 NJ pref_ok fuel top g Hf H).
  Qed.

  (* the index of Eups.uses *)
  Lemma composed_index_is_graph_index fuel idx :
    length T < fuel ->
    dep_uses_index vcmp vmatch c flavors pf (mkDworld db T T) vro fuel = Ok idx ->
    uses_index fuel resolved_world = Ok idx.
  Proof.
    intros Hf. unfold dep_uses_index, uses_index. cbn [dw_exact].
    assert (E : map fst resolved_world = map fst T).
    { unfold resolved_world, edges_world. rewrite map_map. reflexivity. }
    rewrite E. generalize (map fst T). intros ps. revert idx.
    induction ps as [|[n v] r IH]; intros idx H; simpl in *; [exact H|].
    destruct (dep_products vcmp vmatch c flavors pf (mkDworld db T T) vro true fuel (n, Some v, true) true false) as [l|] eqn:El; [|discriminate].
    unfold dep_products in El. cbn [dw_db dw_exact dw_inexact] in El.
    pose proof (composed_is_graph _ fuel (n, Some v, true) true l Hf El) as G. unfold dependent_products in G. rewrite G.
    destruct (dep_listings _ r) as [ls|]; [|discriminate]. rewrite (IH ls eq_refl). exact H.
  Qed.

  Lemma resolved_world_wf : wf_world resolved_world.
  Proof. exact (edges_world_wf vcmp vmatch c db flavors vro T OK HT HV). Qed.

  Lemma resolved_world_length : length resolved_world = length T.
  Proof. unfold resolved_world, edges_world. apply map_length. Qed.
End Composed.
