(* getDependentProducts with the resolver inside against getDependentProducts over resolved edges
   (Model/Graph.v): on the world of the edges the resolver computes, without -j lines and outside exact mode,
   the two are the same function.  The step that needs work is the second, pinned walk: the versions the
   repaired code ties the listed names to are the versions the lines of the closure denote anyway, for the
   look-ups of Model/DepWalk.v as for Model/Graph.v. *)
From Coq Require Import Lia.
From Eupsv Require Import Base.Base Base.BaseLemmas Model.Resolve Model.ResolveSpec Model.Graph Model.DepWalk
     Proofs.ResolveLib Proofs.Resolve Proofs.GraphLib Proofs.GraphWalk Proofs.GraphListing Proofs.GraphOrder
     Proofs.DepWalkConst Proofs.DepWalkSim Proofs.DepWalkEdges.

Section Pins.
  Variable vcmp : str -> str -> comparison.
  Variable vmatch : str -> str -> bool.
  Variable c : config.
  Variable db : dbv.
  Variable flavors : list str.
  Variable pf : list str.
  Variable vro : list ventry.
  Variable T : dtables.
  Hypothesis OK : dworld_ok db flavors T.
  Hypothesis HT : vcmp_ok vcmp db.
  Hypothesis HV : existsb is_version_like vro = true.
  (* the pinned look-up tries the flavors the walk tries (the repaired code) *)
  Hypothesis PF1 : incl flavors pf.
  Hypothesis PF2 : incl pf flavors.

  Let lk := lookup_line vcmp vmatch c db flavors vro.
  Let lkp := lookup_pinned vcmp vmatch c db vro pf.
  Let w := edges_world lk T.

  Lemma own_target_edge l : own_target (edge_of lk l) = tgt_of l (lk l).
  Proof. unfold own_target, tgt_of. simpl. destruct (lk l); reflexivity. Qed.

  (* findProduct(name, version) for the version a line of that name resolved to *)
  Lemma pinned_found l fd : lk l = Some fd ->
    exists fd', lkp l (Some (fd_version fd)) = Some fd' /\ fd_version fd' = fd_version fd.
  Proof.
    intros H. unfold lk, lookup_line, lookup_at in H.
    destruct (vro_lookup_declared vcmp vmatch c db (dok_wf _ _ _ OK) HT _ _ _ _ H) as [f [Hf [s [Hs [D _]]]]].
    simpl in D. unfold lkp, lookup_pinned, lookup_pinned_at.
    destruct (first_some (fun f0 => find_version db (dl_name l) (fd_version fd) f0) pf) as [fd'|] eqn:E.
    - exists fd'. split; [reflexivity|]. apply first_some_in in E as [f' [_ E]].
      rewrite find_version_spec in E. eapply version_designates_version; eauto.
    - exfalso. pose proof (first_some_none_inv _ _ E f (PF1 _ Hf)) as E1. cbv beta in E1.
      rewrite find_version_spec in E1. unfold version_designates in E1.
      pose proof (first_some_none_inv _ _ E1 s Hs) as E2. cbv beta in E2. rewrite D in E2. discriminate.
  Qed.

  (* ... for the version text of a line that did not resolve *)
  Lemma pinned_unresolved_version l v : lk l = None -> dl_version l = Some v -> lkp l (Some v) = None.
  Proof.
    intros H Ev. pose proof (lookup_line_unresolved vcmp vmatch c db flavors vro T OK HT HV l v H Ev) as Tn.
    unfold lkp, lookup_pinned, lookup_pinned_at. apply first_some_none. intros f Hf.
    rewrite find_version_spec. apply version_designates_none. intros s Hs.
    destruct (Resolve.declared s (dl_name l) v f) eqn:D; [|reflexivity]. exfalso.
    apply (dok_tables _ _ _ OK s _ _ f Hs (PF2 _ Hf) D). exact Tn.
  Qed.

  (* ... and findPreferredProduct for a bare line that did not resolve *)
  Lemma pinned_unresolved_bare l : lk l = None -> dl_version l = None -> lkp l None = None.
  Proof.
    intros H Ev. unfold lkp, lookup_pinned, lookup_pinned_at, vro_lookup. apply first_some_none. intros f Hf.
    unfold lk, lookup_line, lookup_at, vro_lookup in H.
    pose proof (first_some_none_inv _ _ H f (PF2 _ Hf)) as H1. cbv beta in H1.
    rewrite (walk_designates vcmp vmatch c db _ f 0 (dok_wf _ _ _ OK) (HT _)) in H1.
    rewrite (walk_designates vcmp vmatch c db _ f 0 (dok_wf _ _ _ OK) (HT _)).
    assert (E : classify (dreq l) = classify (mkRequest (dl_name l) None None)).
    { unfold classify, dreq. simpl. rewrite Ev. reflexivity. }
    rewrite E in H1. exact H1.
  Qed.

  Variable top : node.
  Variable dp : list entry.
  Hypothesis Hdp : forall q, In q (map enode dp) <-> q <> top /\ reach_plus w top q.

  Let pins := pins_fixed top dp.

  Lemma step_edge p ls l : dnode_table T p = Some ls -> In l ls -> step w p (tgt_of l (lk l)).
  Proof.
    intros Tp Il. exists (map (edge_of lk) ls), (edge_of lk l). split.
    - unfold w. rewrite node_table_edges, Tp. reflexivity.
    - split; [apply in_map, Il | symmetry; apply own_target_edge].
  Qed.

  (* the pins change nothing on the lines of the closure *)
  Lemma dpins_agree p ls l :
    closure w top p -> dnode_table T p = Some ls -> In l ls ->
    cresolve lk lkp pins l = tgt_of l (lk l).
  Proof.
    intros Cp Tp Il. set (t := tgt_of l (lk l)).
    assert (St : step w p t) by (eapply step_edge; eauto).
    assert (Ct : closure w top t) by (eapply closure_step; eauto).
    unfold cresolve. destruct (pin_of pins (dl_name l)) as [pv|] eqn:Epin; [|reflexivity].
    apply pin_of_Some in Epin. unfold pins in Epin. apply pins_fixed_In in Epin as [Nn [x [Ix [Nx [Vx Hsole]]]]].
    assert (Name : nname t = dl_name l) by (unfold t, tgt_of; destruct (lk l); reflexivity).
    assert (Nt : t <> top) by (intros Q; apply Nn; rewrite <- Q; symmetry; exact Name).
    assert (Rt : reach_plus w top t) by (destruct Ct; [contradiction | assumption]).
    assert (Idp : In t (map enode dp)) by (apply Hdp; auto).
    apply in_map_iff in Idp as [y [Ey Iy]].
    assert (Ext : enode x = t) by (rewrite <- (Hsole y Iy); [exact Ey | rewrite Ey; exact Name]).
    rewrite <- Vx, Ext. unfold t. destruct (lk l) as [fd|] eqn:E.
    - change (nver (tgt_of l (Some fd))) with (Some (fd_version fd)).
      destruct (pinned_found l fd E) as [fd' [E1 E2]]. rewrite E1. unfold tgt_of. rewrite E2. reflexivity.
    - change (nver (tgt_of l None)) with (dl_version l).
      destruct (dl_version l) as [v|] eqn:Ev.
      + rewrite (pinned_unresolved_version l v E Ev). reflexivity.
      + rewrite (pinned_unresolved_bare l E Ev). reflexivity.
  Qed.

  Hypothesis NJ : no_just T.

  Lemma closure_lines_ok t ls :
    closure w top t -> dnode_table T t = Some ls -> forall l, In l ls -> line_ok lk lkp T pins (closure w top) l.
  Proof.
    intros Ct Tt l Il. destruct (dnode_table_inv _ _ _ Tt) as [n [v [_ Tnv]]].
    pose proof (dpins_agree t ls l Ct Tt Il) as Ag.
    split; [eapply NJ; eauto|]. split.
    - unfold agrees. rewrite Ag. fold w. symmetry. rewrite <- own_target_edge.
      apply (pins_agree w top dp (edges_world_wf vcmp vmatch c db flavors vro T OK HT HV) Hdp t (map (edge_of lk) ls)); auto.
      + unfold w. rewrite node_table_edges, Tt. reflexivity.
      + apply in_map, Il.
    - rewrite Ag. eapply closure_step; [exact Ct | eapply step_edge; eauto].
  Qed.

  (* the second walk *)
  Lemma second_walk_is_graph_walk fuel :
    cwalk_top lk lkp T pins fuel top = walk_top fuel w pins top.
  Proof.
    apply (sim_walk_top lk lkp T pins (closure w top)).
    - intros t ls Ct Tt l Il. eapply closure_lines_ok; eauto.
    - left. reflexivity.
  Qed.
End Pins.

(* ---------------------------------------------------------------- getDependentProducts *)

Section Products.
  Variable vcmp : str -> str -> comparison.
  Variable vmatch : str -> str -> bool.
  Variable c : config.
  Variable db : dbv.
  Variable flavors : list str.
  Variable pf : list str.
  Variable vro : list ventry.
  Variable T : dtables.
  Hypothesis OK : dworld_ok db flavors T.
  Hypothesis HT : vcmp_ok vcmp db.
  Hypothesis HV : existsb is_version_like vro = true.
  Hypothesis PF1 : incl flavors pf.
  Hypothesis PF2 : incl pf flavors.
  Hypothesis NJ : no_just T.

  Let lk := lookup_line vcmp vmatch c db flavors vro.
  Let lkp := lookup_pinned vcmp vmatch c db vro pf.
  Let w := edges_world lk T.

  Lemma length_edges : length w = length T.
  Proof. unfold w, edges_world. apply map_length. Qed.

  (* whenever the model with the resolver inside answers (it refuses pinned relational expressions, and a VRO
     with warn entries), its answer is the answer of Model/Graph.v on the world of the resolved edges *)
  Theorem dep_products_is_graph pref_ok fuel top topological l :
    length T < fuel ->
    cdep_products2 lk lkp pref_ok fuel T T top topological false = Ok l ->
    dependent_products fuel w top topological = Ok l.
  Proof.
    intros Hf H. assert (Hf' : length w < fuel) by (rewrite length_edges; exact Hf).
    unfold cdep_products2 in H. unfold dependent_products, dependent_products_with.
    rewrite (first_walk_is_graph_walk lk lkp T fuel top NJ) in H. fold w in H.
    destruct (walk_top_spec w [] top fuel Hf') as [out1 [st1 [E1 Hout1]]]. rewrite E1 in *.
    destruct topological; cbn [orb negb] in H |- *; [|exact H].
    unfold cdep_second in H.
    destruct (existsb expr_pin (pins_fixed top (drop_top top out1))); [discriminate|].
    destruct (existsb none_pin (pins_fixed top (drop_top top out1)) && negb pref_ok); [discriminate|].
    assert (Hdp : forall q, In q (map enode (drop_top top out1)) <-> q <> top /\ reach_plus w top q).
    { intros q. rewrite drop_top_nodes, Hout1. reflexivity. }
    pose proof (second_walk_is_graph_walk vcmp vmatch c db flavors pf vro T OK HT HV PF1 PF2 top _ Hdp NJ fuel) as E2.
    fold lk in E2. fold lkp in E2. fold w in E2. rewrite E2 in H. clear E2. unfold pins_for.
    destruct (walk_top fuel w (pins_fixed top (drop_top top out1)) top) as [[out2 st2]|]; [|discriminate].
    exact H.
  Qed.

  Theorem dep_graph_is_graph pref_ok fuel top g :
    length T < fuel ->
    cdep_topo_graph lk lkp pref_ok fuel T T top = Ok g ->
    topo_graph fuel w top = Ok g.
  Proof.
    intros Hf H. assert (Hf' : length w < fuel) by (rewrite length_edges; exact Hf).
    unfold cdep_topo_graph in H. unfold topo_graph, topo_graph_with.
    rewrite (first_walk_is_graph_walk lk lkp T fuel top NJ) in H. fold w in H.
    destruct (walk_top_spec w [] top fuel Hf') as [out1 [st1 [E1 Hout1]]]. rewrite E1 in *.
    unfold cdep_second in H.
    destruct (existsb expr_pin (pins_fixed top (drop_top top out1))); [discriminate|].
    destruct (existsb none_pin (pins_fixed top (drop_top top out1)) && negb pref_ok); [discriminate|].
    assert (Hdp : forall q, In q (map enode (drop_top top out1)) <-> q <> top /\ reach_plus w top q).
    { intros q. rewrite drop_top_nodes, Hout1. reflexivity. }
    pose proof (second_walk_is_graph_walk vcmp vmatch c db flavors pf vro T OK HT HV PF1 PF2 top _ Hdp NJ fuel) as E2.
    fold lk in E2. fold lkp in E2. fold w in E2. rewrite E2 in H. clear E2. unfold pins_for.
    destruct (walk_top fuel w (pins_fixed top (drop_top top out1)) top) as [[out2 st2]|]; [|discriminate].
    exact H.
  Qed.
End Products.
