(* The walk that calls the resolver (Model/DepWalk.v) against the walk over resolved edges (Model/Graph.v):
   on the world of the edges the resolver computes they are the same function, as long as no line met
   carries -j and the pinned look-ups agree with what Model/Graph.v says of a pinned name. *)
From Eupsv Require Import Base.Base Base.BaseLemmas Model.Resolve Model.Graph Model.DepWalk Proofs.GraphLib Proofs.DepWalkConst.

Section Sim.
  Variable lk : dline -> option found.
  Variable lkp : dline -> option str -> option found.
  Variable T : dtables.
  Variable pins : list (str * option str).

  Let w := edges_world lk T.

  Lemma table_of_edges n v : table_of w n v = option_map (map (edge_of lk)) (dtable_of T n v).
  Proof.
    unfold w, edges_world. induction T as [|[[n' v'] ls] r IH]; simpl; [reflexivity|].
    destruct (str_eqb n n' && str_eqb v v'); [reflexivity | exact IH].
  Qed.

  Lemma node_table_edges t : node_table w t = option_map (map (edge_of lk)) (dnode_table T t).
  Proof.
    unfold node_table, dnode_table. destruct (nreal t); [|reflexivity].
    destruct (nver t); [apply table_of_edges | reflexivity].
  Qed.

  (* the line denotes, for the walk with the resolver inside, what its edge denotes in Model/Graph.v *)
  Definition agrees (l : dline) : Prop := cresolve lk lkp pins l = resolve w pins (edge_of lk l).

  Lemma agrees_unpinned l : pin_of pins (dl_name l) = None -> agrees l.
  Proof.
    intros H. unfold agrees, cresolve, resolve. simpl. rewrite H. unfold own_target, tgt_of. simpl.
    destruct (lk l); reflexivity.
  Qed.

  (* [R]: the products whose tables the walk may read *)
  Variable R : node -> Prop.
  Definition line_ok (l : dline) : Prop := dl_just l = false /\ agrees l /\ R (cresolve lk lkp pins l).
  Hypothesis HR : forall t ls, R t -> dnode_table T t = Some ls -> forall l, In l ls -> line_ok l.

  Lemma sim_lines rec1 rec2 :
    (forall t d ls st, R t -> dnode_table T t = Some ls -> rec1 t d ls st = rec2 t d (map (edge_of lk) ls) st) ->
    forall ls tp depth st, (forall l, In l ls -> line_ok l) ->
      cwalk_lines lk lkp T pins rec1 tp depth ls st = walk_lines w pins rec2 tp depth (map (edge_of lk) ls) st.
  Proof.
    intros Hrec. induction ls as [|l r IH]; intros tp depth st Hok; [reflexivity|].
    cbn [cwalk_lines walk_lines map].
    destruct (Hok l (or_introl eq_refl)) as [Hj [Ha Hr]]. unfold agrees in Ha. rewrite <- Ha.
    set (t := cresolve lk lkp pins l) in *. rewrite Hj. cbn [negb]. rewrite andb_true_r.
    rewrite node_table_edges.
    assert (Hsub :
      (if nreal t && negb (mem_node t (vis st))
       then match dnode_table T t with
            | Some ls' => rec1 t (S depth) ls' (pd_ensure t (mark t st))
            | None => Ok ([], mark t st)
            end
       else Ok ([], st)) =
      (if nreal t && negb (mem_node t (vis st))
       then match option_map (map (edge_of lk)) (dnode_table T t) with
            | Some es' => rec2 t (S depth) es' (pd_ensure t (mark t st))
            | None => Ok ([], mark t st)
            end
       else Ok ([], st))).
    { destruct (nreal t && negb (mem_node t (vis st))); [|reflexivity].
      destruct (dnode_table T t) as [ls'|] eqn:E; [|reflexivity]. simpl. apply Hrec; auto. }
    rewrite Hsub. clear Hsub.
    match goal with |- match ?X with _ => _ end = match ?X with _ => _ end => destruct X as [[l1 st2]|x] end; [|reflexivity].
    assert (Er : eopt (edge_of lk l) = dl_optional l) by reflexivity. rewrite Er.
    rewrite (IH tp depth (pd_add tp t st2)); [reflexivity|].
    intros l' Hl'. apply Hok. right. exact Hl'.
  Qed.

  Lemma sim_walk fuel : forall tp depth ls st, (forall l, In l ls -> line_ok l) ->
    cwalk lk lkp T pins fuel tp depth ls st = walk fuel w pins tp depth (map (edge_of lk) ls) st.
  Proof.
    induction fuel as [|f IH]; intros tp depth ls st Hok; [reflexivity|].
    cbn [cwalk walk]. apply sim_lines; [|exact Hok].
    intros t d ls' st' Rt Tt. apply IH. intros l Hl. eapply HR; eauto.
  Qed.

  Lemma sim_walk_top fuel top : R top ->
    cwalk_top lk lkp T pins fuel top = walk_top fuel w pins top.
  Proof.
    intros Rt. unfold cwalk_top, walk_top. rewrite node_table_edges.
    destruct (dnode_table T top) as [ls|] eqn:E; [|reflexivity]. simpl.
    apply sim_walk. intros l Hl. eapply HR; eauto.
  Qed.
End Sim.

(* tables without -j lines *)
Definition no_just (T : dtables) : Prop := forall n v ls l, dtable_of T n v = Some ls -> In l ls -> dl_just l = false.

(* nothing pinned (the first walk): the two walks coincide on every world without -j lines *)
Lemma first_walk_is_graph_walk lk lkp T fuel top : no_just T ->
  cwalk_top lk lkp T [] fuel top = walk_top fuel (edges_world lk T) [] top.
Proof.
  intros NJ. apply (sim_walk_top lk lkp T [] (fun _ => True)); [|exact I].
  intros t ls _ Tt l Hl. destruct (dnode_table_inv _ _ _ Tt) as [n [v [_ Tnv]]].
  split; [eapply NJ; eauto|]. split; [apply agrees_unpinned; reflexivity | exact I].
Qed.
