(* Proofs about Model/Expand.v (C17), expansion side: what the exact block pins, what the two
   readings of the expanded table contain. *)
From Eupsv Require Import Base.Base Base.BaseLemmas Model.PathAlg Model.Setup Model.Expand.
From Coq Require Import Lia.

(* the environment records version v for product n (findSetupVersion) *)
Definition recorded (e : amap str) (n v : str) : Prop := setup_version e n = Some v.

Lemma find_pv_some w n v p : find_pv w n v = Some p -> p_name p = n /\ p_version p = v.
Proof.
  induction w as [|q w IH]; simpl; [discriminate|].
  destruct (str_eqb (p_name q) n && str_eqb (p_version q) v) eqn:E.
  - intro H; inversion H; subst. apply andb_true_iff in E. destruct E as [E1 E2].
    apply str_eqb_eq in E1. apply str_eqb_eq in E2. auto.
  - apply IH.
Qed.

Lemma find_setup_product_recorded w e n p :
  find_setup_product w e n = Some p -> p_name p = n /\ recorded e n (p_version p).
Proof.
  unfold find_setup_product, recorded, setup_version.
  destruct (alookup (setup_var n) e) as [val|]; [|discriminate].
  destruct (recorded_version val) as [v|]; [|discriminate].
  intro H. apply find_pv_some in H. destruct H as [H1 H2]. rewrite H2. auto.
Qed.

Lemma truthy_some o v : truthy o = Some v -> o = Some v /\ v <> [].
Proof. destruct o as [[|c r]|]; simpl; intro H; inversion H; subst. split; [reflexivity|discriminate]. Qed.

(* ------------------------------------------------------------ the pins come from the environment *)

Definition ok_nv (e plist : amap str) (x : nvo) : Prop :=
  recorded e (fst (fst x)) (snd (fst x)) \/ alookup (fst (fst x)) plist = Some (snd (fst x)).
Definition ok_key (e plist : amap str) (k : key) : Prop :=
  recorded e (fst k) (snd k) \/ alookup (fst k) plist = Some (snd k).

Lemma setup_closure_sound sf w e : forall ds skip l,
  setup_closure sf w e skip ds = Ok l -> Forall (fun x : nvo => recorded e (fst (fst x)) (snd (fst x))) l.
Proof.
  induction ds as [|d ds IH]; intros skip l H; cbn [setup_closure] in H.
  - inversion H. constructor.
  - cbv zeta in H. destruct (find_setup_product w e (d_name d)) as [p|] eqn:F.
    + match type of H with bind ?X _ = _ => destruct X as [r|] eqn:R end; simpl in H; [|discriminate].
      inversion H; subst. constructor.
      * simpl. apply find_setup_product_recorded in F. destruct F as [F1 F2]. now rewrite F1.
      * eapply IH; eauto.
    + destruct (d_optional d); [eapply IH; eauto|].
      match type of H with match ?X with _ => _ end = _ => destruct X end; [eapply IH; eauto|discriminate].
Qed.

Lemma setup_closure_lenient_sound sf w e : forall ds skip,
  Forall (fun x : nvo => recorded e (fst (fst x)) (snd (fst x))) (setup_closure_lenient sf w e skip ds).
Proof.
  induction ds as [|d ds IH]; intro skip; cbn [setup_closure_lenient]; [constructor|].
  cbv zeta. destruct (find_setup_product w e (d_name d)) as [p|] eqn:F.
  - constructor; [|apply IH]. simpl. apply find_setup_product_recorded in F. destruct F as [F1 F2]. now rewrite F1.
  - destruct (d_optional d); apply IH.
Qed.

Lemma line_closure_sound jf sf cf w e top plist force rd name opt just l :
  line_closure jf sf cf w e top plist force rd name opt just = Ok (LAdd l) -> Forall (ok_nv e plist) l.
Proof.
  unfold line_closure. destruct (str_eqb name top); [discriminate|].
  set (ver := match alookup name plist with Some v => Some v | None => truthy (setup_version e name) end).
  assert (Hv : forall v, ver = Some v -> ok_nv e plist (name, v, opt)).
  { intros v E. unfold ver in E. unfold ok_nv; simpl. destruct (alookup name plist) as [pv|] eqn:A.
    - right. congruence.
    - left. apply truthy_some in E. apply E. }
  destruct ver as [v|]; [|destruct (negb opt && negb force); discriminate].
  destruct (jf && just).
  - intro H; inversion H; subst. constructor; [now apply Hv|constructor].
  - match goal with |- match ?X with _ => _ end = _ -> _ => destruct X as [r|x] eqn:B end.
    + intro H; inversion H; subst. constructor; [now apply Hv|].
      destruct (find_pv w name v); [|inversion B; constructor].
      apply setup_closure_sound in B. eapply Forall_impl; [|exact B]. intros a Ha. left. exact Ha.
    + destruct (negb opt && negb force); [discriminate|]. destruct cf; [|discriminate].
      intro H; inversion H; subst. constructor; [now apply Hv|].
      eapply Forall_impl; [|apply setup_closure_lenient_sound]. intros a Ha. left. exact Ha.
Qed.

Lemma add_nvol_sound e plist : forall l des opt,
  Forall (ok_nv e plist) l -> Forall (ok_key e plist) des -> Forall (ok_key e plist) (fst (add_nvol l des opt)).
Proof.
  induction l as [|[[n v] o] l IH]; intros des opt Hl Hd; simpl; [assumption|].
  inversion Hl; subst. destruct (mem_key (n, v) des); [now apply IH|].
  apply IH; [assumption|]. apply Forall_app. split; [assumption|]. constructor; [|constructor]. assumption.
Qed.

Lemma collect_sound jf sf cf w e top plist force rd : forall prods a a',
  collect jf sf cf w e top plist force rd prods a = Ok a' ->
  Forall (ok_key e plist) (a_des a) -> Forall (ok_key e plist) (a_des a').
Proof.
  induction prods as [|r prods IH]; intros a a' H Ha; cbn [collect] in H.
  - inversion H; subst. assumption.
  - destruct (line_closure jf sf cf w e top plist force rd (rl_name r) (rl_optional r) (rl_just r)) as [[| |l]|x] eqn:L;
      [| | |discriminate].
    + eapply IH; eauto.
    + eapply IH; eauto.
    + apply line_closure_sound in L.
      pose proof (add_nvol_sound e plist l (a_des a) (a_opt a) L Ha) as S.
      destruct (add_nvol l (a_des a) (a_opt a)) as [des opt]. eapply IH; eauto.
Qed.

Lemma in_pin_lines a o n v : In (OPin o n v) (pin_lines a) -> In (n, v) (a_des a).
Proof.
  unfold pin_lines. rewrite in_map_iff. intros [[n' v'] [E I]]. simpl in E. inversion E; subst. exact I.
Qed.

Lemma out_bline_not_pin b o n v : out_bline b <> OPin o n v.
Proof. destruct b; discriminate. Qed.

Lemma in_emit_pin pins o n v : forall bs lvl, In (OPin o n v) (emit lvl pins bs) -> In (OPin o n v) pins.
Proof.
  assert (M : forall b, ~ In (OPin o n v) (map out_bline b)).
  { intros b I. apply in_map_iff in I. destruct I as [x [E _]]. now apply out_bline_not_pin in E. }
  induction bs as [|[f b] bs IH]; intro lvl; cbn [emit]; [simpl; tauto|]. destruct f.
  - destruct (existsb fst bs); simpl.
    + intros [E|I]; [discriminate|]. apply in_app_or in I. destruct I as [I|[E|I]]; [now apply M in I|discriminate|eauto].
    + intros [E|I]; [discriminate|]. apply in_app_or in I. destruct I as [I|[E|I]]; [assumption|discriminate|].
      apply in_app_or in I. destruct I as [I|[E|I]]; [now apply M in I|discriminate|eauto].
  - intro I. apply in_app_or in I. destruct I as [I|I]; [now apply M in I|eauto].
Qed.

Lemma in_final_not_pin bl o n v : ~ In (OPin o n v) (final_lines bl).
Proof. unfold final_lines. intro I. apply in_map_iff in I. destruct I as [x [E _]]. discriminate. Qed.

Lemma pins_sound jf sf cf w e top plist force rd ls out o n v :
  expand_gen jf sf cf w e top plist force rd ls = Ok out -> In (OPin o n v) out ->
  recorded e n v \/ alookup n plist = Some v.
Proof.
  unfold expand_gen.
  destruct (collect jf sf cf w e top plist force rd _ _) as [a|x] eqn:C; [|discriminate].
  intro H; inversion H; subst. intro I. apply in_app_or in I. destruct I as [I|I]; [|now apply in_final_not_pin in I].
  apply in_emit_pin in I. apply in_pin_lines in I.
  apply collect_sound in C; [|constructor]. rewrite Forall_forall in C. apply (C (n, v) I).
Qed.

(* ------------------------------------------------------------ the two readings of the output *)

Definition marker (o : oline) : bool :=
  match o with OIfExact | OIfNotExact | OElse | OClose => true | _ => false end.
Definition plain (l : list oline) : Prop := Forall (fun o => marker o = false) l.

Lemma plain_out b : plain (map out_bline b).
Proof. apply Forall_forall. intros x I. apply in_map_iff in I. destruct I as [y [E _]]. subst. now destruct y. Qed.

Lemma plain_pins a : plain (pin_lines a).
Proof. apply Forall_forall. intros x I. apply in_map_iff in I. destruct I as [y [E _]]. now subst. Qed.

Lemma view_out_plain b l r : plain l -> view b VOut (l ++ r) = l ++ view b VOut r.
Proof.
  induction l as [|x l IH]; intro P; [reflexivity|]. inversion P; subst.
  simpl. rewrite IH by assumption. now destruct x.
Qed.

Lemma view_pins_plain b l r : plain l -> view b VPins (l ++ r) = (if b then l else []) ++ view b VPins r.
Proof.
  induction l as [|x l IH]; intro P; [now destruct b|]. inversion P; subst.
  simpl. rewrite IH by assumption. destruct x, b; try reflexivity; discriminate.
Qed.

Lemma view_else_plain b l r : plain l -> view b VElse (l ++ r) = (if b then [] else l) ++ view b VElse r.
Proof.
  induction l as [|x l IH]; intro P; [now destruct b|]. inversion P; subst.
  simpl. rewrite IH by assumption. destruct x, b; try reflexivity; discriminate.
Qed.

Lemma view_not_plain b l r : plain l -> view b VNot (l ++ r) = (if b then [] else l) ++ view b VNot r.
Proof.
  induction l as [|x l IH]; intro P; [now destruct b|]. inversion P; subst.
  simpl. rewrite IH by assumption. destruct x, b; try reflexivity; discriminate.
Qed.

(* what a reader sees of each block *)
Fixpoint view_blocks (exact : bool) (lvl : Z) (pins : list oline) (bs : list (bool * list bline)) : list oline :=
  match bs with
  | [] => []
  | (false, b) :: rest => map out_bline b ++ view_blocks exact (snd (block_levels lvl b)) pins rest
  | (true, b) :: rest =>
      (if exact then (if existsb fst rest then [] else pins) else map out_bline (setup_body lvl b))
      ++ view_blocks exact lvl pins rest
  end.

(* [tl]: what follows the blocks (the lines naming eups) *)
Lemma view_emit exact pins tl : plain pins -> plain tl -> forall bs lvl,
  view exact VOut (emit lvl pins bs ++ tl) = view_blocks exact lvl pins bs ++ tl.
Proof.
  intros Pp Pt. induction bs as [|[f b] bs IH]; intro lvl.
  - cbn [emit view_blocks app]. rewrite <- (app_nil_r tl) at 1. rewrite view_out_plain by assumption.
    cbn [view]. now rewrite app_nil_r.
  - destruct f; cbn [emit view_blocks].
    + destruct (existsb fst bs).
      * cbn [app view]. rewrite <- app_assoc. rewrite view_not_plain by apply plain_out. cbn [app view]. rewrite IH.
        destruct exact; cbn [app]; now rewrite ?app_assoc.
      * cbn [app view]. rewrite <- app_assoc. rewrite view_pins_plain by assumption. cbn [app view].
        rewrite <- app_assoc. rewrite view_else_plain by apply plain_out. cbn [app view]. rewrite IH.
        destruct exact; cbn [app]; now rewrite ?app_nil_r, ?app_assoc.
    + rewrite <- app_assoc. rewrite view_out_plain by apply plain_out. now rewrite IH, app_assoc.
Qed.

Lemma plain_final bl : plain (final_lines bl).
Proof. apply Forall_forall. intros x I. apply in_map_iff in I. destruct I as [y [E _]]. now subst. Qed.

(* the blocks partition the lines *)
Lemma blocks_concat : forall ls f cur, concat (map snd (blocks f cur ls)) = rev cur ++ ls.
Proof.
  induction ls as [|l ls IH]; intros f cur; simpl; [now rewrite !app_nil_r|].
  destruct l; try (rewrite IH; simpl; now rewrite <- app_assoc).
  - destruct f; simpl; rewrite IH; simpl; [now rewrite <- app_assoc|reflexivity].
  - destruct f; simpl; rewrite IH; simpl; [reflexivity|now rewrite <- app_assoc].
  - destruct f; simpl; rewrite IH; simpl; [now rewrite <- app_assoc|reflexivity].
Qed.

Definition is_bsetup (b : bline) : bool := match b with BSetup _ | BEups _ => true | _ => false end.
Definition is_bother (b : bline) : bool := match b with BOther _ => true | _ => false end.

(* a setup block holds no other command, another block holds no setup line *)
Definition block_ok (x : bool * list bline) : Prop :=
  if fst x then Forall (fun b => is_bother b = false) (snd x) else Forall (fun b => is_bsetup b = false) (snd x).

Lemma blocks_ok : forall ls f cur, block_ok (f, rev cur) -> Forall block_ok (blocks f cur ls).
Proof.
  induction ls as [|l ls IH]; intros f cur H; simpl; [constructor; [assumption|constructor]|].
  assert (S : forall x, (if f then is_bother x = false else is_bsetup x = false) -> block_ok (f, rev (x :: cur))).
  { intros x Hx. unfold block_ok in *. simpl in *. destruct f; apply Forall_app; split; try assumption;
      constructor; try assumption; constructor. }
  destruct l.
  - apply IH, S. now destruct f.
  - apply IH, S. now destruct f.
  - destruct f.
    + apply IH, S. reflexivity.
    + constructor; [assumption|]. apply IH. unfold block_ok; simpl. constructor; [reflexivity|constructor].
  - destruct f.
    + constructor; [assumption|]. apply IH. unfold block_ok; simpl. constructor; [reflexivity|constructor].
    + apply IH, S. reflexivity.
  - destruct f.
    + apply IH, S. reflexivity.
    + constructor; [assumption|]. apply IH. unfold block_ok; simpl. constructor; [reflexivity|constructor].
Qed.

(* projections of a list of output lines *)
Fixpoint others_of (ls : list oline) : list str :=
  match ls with [] => [] | OOther t :: r => t :: others_of r | _ :: r => others_of r end.
Fixpoint comments_of (ls : list oline) : list str :=
  match ls with [] => [] | OComment t :: r => t :: comments_of r | _ :: r => comments_of r end.
Fixpoint setups_of (ls : list oline) : list rline :=
  match ls with [] => [] | OSetup s :: r => s :: setups_of r | _ :: r => setups_of r end.

Fixpoint eups_of (ls : list oline) : list str :=
  match ls with [] => [] | OEups t :: r => t :: eups_of r | _ :: r => eups_of r end.
Lemma eups_of_app a b : eups_of (a ++ b) = eups_of a ++ eups_of b.
Proof. induction a as [|x a IH]; [reflexivity|]. destruct x; simpl; now rewrite IH. Qed.

Lemma others_of_app a b : others_of (a ++ b) = others_of a ++ others_of b.
Proof. induction a as [|x a IH]; [reflexivity|]. destruct x; simpl; now rewrite IH. Qed.
Lemma comments_of_app a b : comments_of (a ++ b) = comments_of a ++ comments_of b.
Proof. induction a as [|x a IH]; [reflexivity|]. destruct x; simpl; now rewrite IH. Qed.
Lemma setups_of_app a b : setups_of (a ++ b) = setups_of a ++ setups_of b.
Proof. induction a as [|x a IH]; [reflexivity|]. destruct x; simpl; now rewrite IH. Qed.
Lemma pins_of_app a b : pins_of (a ++ b) = pins_of a ++ pins_of b.
Proof. induction a as [|x a IH]; [reflexivity|]. destruct x; simpl; now rewrite IH. Qed.

Lemma others_drop b : others_of (map out_bline (drop_last_blank b)) = others_of (map out_bline b).
Proof.
  induction b as [|x b IH]; [reflexivity|]. destruct x; cbn [drop_last_blank]; try (simpl; now rewrite IH).
  destruct b; [reflexivity|]. simpl in *. exact IH.
Qed.
Lemma comments_drop b : comments_of (map out_bline (drop_last_blank b)) = comments_of (map out_bline b).
Proof.
  induction b as [|x b IH]; [reflexivity|]. destruct x; cbn [drop_last_blank]; try (simpl; now rewrite IH).
  destruct b; [reflexivity|]. simpl in *. exact IH.
Qed.
Lemma setups_drop b : setups_of (map out_bline (drop_last_blank b)) = setups_of (map out_bline b).
Proof.
  induction b as [|x b IH]; [reflexivity|]. destruct x; cbn [drop_last_blank]; try (simpl; now rewrite IH).
  destruct b; [reflexivity|]. simpl in *. exact IH.
Qed.
Lemma others_bodyl b : others_of (map out_bline (body_lines b)) = others_of (map out_bline b).
Proof. induction b as [|x b IH]; [reflexivity|]. destruct x; simpl; now rewrite IH. Qed.
Lemma comments_bodyl b : comments_of (map out_bline (body_lines b)) = comments_of (map out_bline b).
Proof. induction b as [|x b IH]; [reflexivity|]. destruct x; simpl; now rewrite IH. Qed.
Lemma setups_bodyl b : setups_of (map out_bline (body_lines b)) = setups_of (map out_bline b).
Proof. induction b as [|x b IH]; [reflexivity|]. destruct x; simpl; now rewrite IH. Qed.
Lemma others_body lvl b : others_of (map out_bline (setup_body lvl b)) = others_of (map out_bline b).
Proof. unfold setup_body. destruct (0 <? lvl + 1)%Z; now rewrite ?others_drop, others_bodyl. Qed.
Lemma comments_body lvl b : comments_of (map out_bline (setup_body lvl b)) = comments_of (map out_bline b).
Proof. unfold setup_body. destruct (0 <? lvl + 1)%Z; now rewrite ?comments_drop, comments_bodyl. Qed.
Lemma setups_body lvl b : setups_of (map out_bline (setup_body lvl b)) = setups_of (map out_bline b).
Proof. unfold setup_body. destruct (0 <? lvl + 1)%Z; now rewrite ?setups_drop, setups_bodyl. Qed.

Lemma others_no_other b : Forall (fun x => is_bother x = false) b -> others_of (map out_bline b) = [].
Proof. induction 1 as [|x b H _ IH]; [reflexivity|]. destruct x; simpl; try assumption. discriminate. Qed.
Lemma setups_no_setup b : Forall (fun x => is_bsetup x = false) b -> setups_of (map out_bline b) = [].
Proof. induction 1 as [|x b H _ IH]; [reflexivity|]. destruct x; simpl; try assumption. discriminate. Qed.

Lemma plain_pins_others a : others_of (pin_lines a) = [].
Proof. unfold pin_lines. induction (a_des a); [reflexivity|assumption]. Qed.
Lemma plain_pins_setups a : setups_of (pin_lines a) = [].
Proof. unfold pin_lines. induction (a_des a); [reflexivity|assumption]. Qed.
Lemma pins_of_out b : pins_of (map out_bline b) = [].
Proof. induction b as [|x b IH]; [reflexivity|]. now destruct x. Qed.

(* non-exact reading: every line of every block, a trailing blank of a setup block aside *)
Lemma inexact_others pins : forall bs lvl,
  others_of (view_blocks false lvl pins bs) = others_of (map out_bline (concat (map snd bs))).
Proof.
  induction bs as [|[f b] bs IH]; intro lvl; [reflexivity|].
  destruct f; cbn [view_blocks map snd concat]; rewrite map_app, !others_of_app, IH; [now rewrite others_body|reflexivity].
Qed.
Lemma inexact_comments pins : forall bs lvl,
  comments_of (view_blocks false lvl pins bs) = comments_of (map out_bline (concat (map snd bs))).
Proof.
  induction bs as [|[f b] bs IH]; intro lvl; [reflexivity|].
  destruct f; cbn [view_blocks map snd concat]; rewrite map_app, !comments_of_app, IH; [now rewrite comments_body|reflexivity].
Qed.
Lemma inexact_setups pins : forall bs lvl,
  setups_of (view_blocks false lvl pins bs) = setups_of (map out_bline (concat (map snd bs))).
Proof.
  induction bs as [|[f b] bs IH]; intro lvl; [reflexivity|].
  destruct f; cbn [view_blocks map snd concat]; rewrite map_app, !setups_of_app, IH; [now rewrite setups_body|reflexivity].
Qed.

(* exact reading: the other commands, and the pins in place of the last setup block *)
Lemma exact_others a : forall bs, Forall block_ok bs -> forall lvl,
  others_of (view_blocks true lvl (pin_lines a) bs) = others_of (map out_bline (concat (map snd bs))).
Proof.
  induction 1 as [|[f b] bs H _ IH]; intro lvl; [reflexivity|].
  destruct f; cbn [view_blocks map snd concat]; rewrite map_app, !others_of_app, IH; [|reflexivity].
  unfold block_ok in H; simpl in H. rewrite (others_no_other b H).
  destruct (existsb fst bs); [reflexivity|now rewrite plain_pins_others].
Qed.
Lemma exact_setups a : forall bs, Forall block_ok bs -> forall lvl, setups_of (view_blocks true lvl (pin_lines a) bs) = [].
Proof.
  induction 1 as [|[f b] bs H _ IH]; intro lvl; [reflexivity|].
  destruct f; cbn [view_blocks]; rewrite setups_of_app, IH, app_nil_r.
  - destruct (existsb fst bs); [reflexivity|apply plain_pins_setups].
  - unfold block_ok in H; simpl in H. now apply setups_no_setup.
Qed.

Lemma pins_of_view_blocks pins : forall bs lvl,
  pins_of (view_blocks true lvl pins bs) = if existsb fst bs then pins_of pins else [].
Proof.
  induction bs as [|[f b] bs IH]; intro lvl; [reflexivity|].
  destruct f; cbn [view_blocks existsb fst orb]; rewrite pins_of_app, IH.
  - destruct (existsb fst bs); [reflexivity|now rewrite app_nil_r].
  - now rewrite pins_of_out.
Qed.
Lemma pins_of_emit pins : plain pins -> forall bs lvl,
  pins_of (emit lvl pins bs) = if existsb fst bs then pins_of pins else [].
Proof.
  intros _. induction bs as [|[f b] bs IH]; intro lvl; [reflexivity|]. destruct f; cbn [emit existsb fst orb].
  - destruct (existsb fst bs) eqn:X.
    + cbn [pins_of]. rewrite pins_of_app, pins_of_out. cbn [pins_of app]. now rewrite IH.
    + cbn [pins_of]. rewrite pins_of_app. cbn [pins_of]. rewrite pins_of_app, pins_of_out.
      cbn [pins_of app]. now rewrite IH, app_nil_r.
  - now rewrite pins_of_app, pins_of_out, IH.
Qed.

(* the lines after rewriting, projected *)
Fixpoint others_in (ls : list tline) : list str :=
  match ls with [] => [] | LOther t :: r => t :: others_in r | _ :: r => others_in r end.
Fixpoint comments_in (ls : list tline) : list str :=
  match ls with [] => [] | LComment t :: r => t :: comments_in r | _ :: r => comments_in r end.
Fixpoint setups_in (ls : list tline) : list sline :=
  match ls with [] => [] | LSetup s :: r => s :: setups_in r | _ :: r => setups_in r end.
Fixpoint eups_in (ls : list tline) : list str :=
  match ls with [] => [] | LEups t :: r => t :: eups_in r | _ :: r => eups_in r end.

Lemma others_rewrite w e plist ls :
  others_of (map out_bline (map (rewrite_line w e plist) ls)) = others_in ls.
Proof. induction ls as [|l ls IH]; [reflexivity|]. destruct l; simpl; now rewrite IH. Qed.
Lemma comments_rewrite w e plist ls :
  comments_of (map out_bline (map (rewrite_line w e plist) ls)) = comments_in ls.
Proof. induction ls as [|l ls IH]; [reflexivity|]. destruct l; simpl; now rewrite IH. Qed.
Lemma setups_rewrite w e plist ls :
  setups_of (map out_bline (map (rewrite_line w e plist) ls)) = map (rewrite w e plist) (setups_in ls).
Proof. induction ls as [|l ls IH]; [reflexivity|]. destruct l; simpl; now rewrite IH. Qed.

Lemma eups_rewrite w e plist ls : eups_lines (map (rewrite_line w e plist) ls) = eups_in ls.
Proof. induction ls as [|l ls IH]; [reflexivity|]. destruct l; simpl; now rewrite IH. Qed.
Lemma others_final bl : others_of (final_lines bl) = [].
Proof. unfold final_lines. induction (eups_lines bl); [reflexivity|assumption]. Qed.
Lemma comments_final bl : comments_of (final_lines bl) = [].
Proof. unfold final_lines. induction (eups_lines bl); [reflexivity|assumption]. Qed.
Lemma setups_final bl : setups_of (final_lines bl) = [].
Proof. unfold final_lines. induction (eups_lines bl); [reflexivity|assumption]. Qed.
Lemma pins_final bl : pins_of (final_lines bl) = [].
Proof. unfold final_lines. induction (eups_lines bl); [reflexivity|assumption]. Qed.
Lemma eups_final bl : eups_of (final_lines bl) = eups_lines bl.
Proof. unfold final_lines. induction (eups_lines bl) as [|x l IH]; [reflexivity|]. simpl. now rewrite IH. Qed.

Section Views.
Variables (jf sf cf : bool) (w : world) (e : amap str) (top : str) (plist : amap str) (force : bool) (rd : rawdeps).
Variables (ls : list tline) (out : list oline).
Hypothesis E : expand_gen jf sf cf w e top plist force rd ls = Ok out.

Lemma expand_shape : exists a,
  out = emit 0 (pin_lines a) (blocks false [] (map (rewrite_line w e plist) ls))
        ++ final_lines (map (rewrite_line w e plist) ls).
Proof.
  unfold expand_gen in E. destruct (collect jf sf cf w e top plist force rd _ _) as [a|x]; [|discriminate].
  exists a. now inversion E.
Qed.

Lemma blocks_lines : concat (map snd (blocks false [] (map (rewrite_line w e plist) ls))) = map (rewrite_line w e plist) ls.
Proof. now rewrite blocks_concat. Qed.

Lemma blocks_fine : Forall block_ok (blocks false [] (map (rewrite_line w e plist) ls)).
Proof. apply blocks_ok. unfold block_ok; simpl. constructor. Qed.

Lemma others_pass exact : others_of (view exact VOut out) = others_in ls.
Proof.
  destruct expand_shape as [a ->]. rewrite view_emit by (apply plain_pins || apply plain_final).
  rewrite others_of_app, others_final, app_nil_r. destruct exact.
  - rewrite exact_others by apply blocks_fine. rewrite blocks_lines. apply others_rewrite.
  - rewrite inexact_others, blocks_lines. apply others_rewrite.
Qed.

Lemma comments_pass : comments_of (view false VOut out) = comments_in ls.
Proof.
  destruct expand_shape as [a ->]. rewrite view_emit by (apply plain_pins || apply plain_final).
  rewrite comments_of_app, comments_final, app_nil_r.
  rewrite inexact_comments, blocks_lines. apply comments_rewrite.
Qed.

Lemma inexact_setup_lines : setups_of (view false VOut out) = map (rewrite w e plist) (setups_in ls).
Proof.
  destruct expand_shape as [a ->]. rewrite view_emit by (apply plain_pins || apply plain_final).
  rewrite setups_of_app, setups_final, app_nil_r.
  rewrite inexact_setups, blocks_lines. apply setups_rewrite.
Qed.

Lemma exact_no_setup_line : setups_of (view true VOut out) = [].
Proof.
  destruct expand_shape as [a ->]. rewrite view_emit by (apply plain_pins || apply plain_final).
  rewrite setups_of_app, setups_final, app_nil_r.
  apply exact_setups, blocks_fine.
Qed.

Lemma exact_view_pins : pins_of (view true VOut out) = pins_of out.
Proof.
  destruct expand_shape as [a ->]. rewrite view_emit by (apply plain_pins || apply plain_final).
  rewrite !pins_of_app, pins_final.
  rewrite pins_of_view_blocks, pins_of_emit by apply plain_pins. reflexivity.
Qed.

(* the lines naming eups are written, unchanged and in order, after everything else: both readings see them *)
Lemma eups_of_view_blocks exact pins : eups_of pins = [] -> forall bs lvl,
  Forall block_ok bs -> eups_of (view_blocks exact lvl pins bs) = [].
Proof.
  intros Hp. assert (B : forall b, eups_of (map out_bline (body_lines b)) = []).
  { induction b as [|x b IH]; [reflexivity|]. destruct x; simpl; assumption. }
  assert (D : forall b, eups_of (map out_bline (drop_last_blank (body_lines b))) = []).
  { intro b. generalize (B b). induction (body_lines b) as [|x l IH]; [reflexivity|].
    destruct x; cbn [drop_last_blank]; try (simpl; exact IH); try discriminate.
    destruct l; [reflexivity|]. simpl in *. exact IH. }
  induction bs as [|[f b] bs IH]; intros lvl Hb; [reflexivity|]. inversion Hb as [|? ? H1 H2]; subst.
  destruct f; cbn [view_blocks]; rewrite eups_of_app, IH by assumption; rewrite app_nil_r.
  - destruct exact; [destruct (existsb fst bs); [reflexivity|exact Hp]|].
    unfold setup_body. destruct (0 <? lvl + 1)%Z; [apply D|apply B].
  - unfold block_ok in H1. simpl in H1. clear - H1. induction H1 as [|x b Hx _ IH]; [reflexivity|].
    destruct x; simpl; try assumption. discriminate.
Qed.

Lemma eups_of_emit pins : eups_of pins = [] -> forall bs lvl,
  Forall block_ok bs -> eups_of (emit lvl pins bs) = [].
Proof.
  intros Hp bs lvl Hb.
  pose proof (eups_of_view_blocks false pins Hp bs lvl Hb) as V0.
  pose proof (eups_of_view_blocks true pins Hp bs lvl Hb) as V1.
  revert lvl Hb V0 V1. induction bs as [|[f b] bs IH]; intros lvl Hb V0 V1; [reflexivity|].
  inversion Hb as [|? ? H1 H2]; subst. destruct f; cbn [view_blocks] in V0, V1; rewrite eups_of_app in V0, V1;
  apply app_eq_nil in V0, V1; destruct V0 as [A0 B0], V1 as [A1 B1]; cbn [emit].
  - destruct (existsb fst bs).
    + cbn [eups_of]. rewrite eups_of_app, A0. cbn [app eups_of]. now apply IH.
    + cbn [eups_of]. rewrite eups_of_app, Hp. cbn [app eups_of]. rewrite eups_of_app, A0. cbn [app eups_of]. now apply IH.
  - rewrite eups_of_app, A0. now apply IH.
Qed.

Lemma eups_pass exact : eups_of (view exact VOut out) = eups_in ls /\ eups_of out = eups_in ls.
Proof.
  destruct expand_shape as [a ->]. rewrite view_emit by (apply plain_pins || apply plain_final).
  assert (Hp : eups_of (pin_lines a) = []) by (unfold pin_lines; induction (a_des a); [reflexivity|assumption]).
  split.
  - rewrite eups_of_app, eups_final, eups_of_view_blocks by (assumption || apply blocks_fine). apply eups_rewrite.
  - rewrite eups_of_app, eups_final, eups_of_emit by (assumption || apply blocks_fine). apply eups_rewrite.
Qed.
End Views.

(* ------------------------------------------------------------ what the rewriting keeps *)

(* the constraint a setup line states: a relative version with the words after it, else the bracket *)
Definition constraint_of (s : sline) : option str :=
  match truthy (sl_version s) with
  | Some v => if has_relop v then Some (join_str [c_space] (v :: sl_rest s)) else truthy (sl_logical s)
  | None => truthy (sl_logical s)
  end.
(* its explicit version *)
Definition plain_version (s : sline) : option str :=
  match truthy (sl_version s) with
  | Some v => if has_relop v then None else Some v
  | None => None
  end.

Definition carries (w : world) (e plist : amap str) (s : sline) (r : rline) : Prop :=
  r = RKeep s \/
  exists v lg, r = RNew (sl_optional s) (sl_name s) (sl_flags s) v lg /\
    (forall c, constraint_of s = Some c -> c <> [] -> lg = Some c) /\
    (forall v0, plain_version s = Some v0 -> alookup (sl_name s) plist = None -> v = v0) /\
    (alookup (sl_name s) plist = Some v \/ plain_version s = Some v \/ recorded e (sl_name s) v).

Lemma truthy_idem o : truthy (truthy o) = truthy o.
Proof. now destruct o as [[|c r]|]. Qed.

Lemma join_nonempty_head v l : v <> [] -> join_str [c_space] (v :: l) <> [].
Proof. destruct v; [congruence|]. destruct l; simpl; discriminate. Qed.

Lemma truthy_cons c r : truthy (Some (c :: r)) = Some (c :: r).
Proof. reflexivity. Qed.

Lemma plain_version_nonempty s v : plain_version s = Some v -> v <> [].
Proof.
  unfold plain_version. destruct (truthy (sl_version s)) as [x|] eqn:T; [|discriminate].
  apply truthy_some in T. destruct (has_relop x); [discriminate|]. intro H; inversion H; subst. apply T.
Qed.

Lemma carries_found w e plist s logical1 :
  (forall c, constraint_of s = Some c -> c <> [] -> truthy logical1 = Some c) ->
  (forall v0, plain_version s = Some v0 -> alookup (sl_name s) plist = None -> False) ->
  carries w e plist s
    (match find_setup_product w e (sl_name s) with
     | None => RKeep s
     | Some p =>
         match p_version p with
         | [] => RKeep s
         | v => RNew (sl_optional s) (sl_name s) (sl_flags s) v
                     (match truthy logical1 with
                      | Some l => Some l
                      | None => if starts_with (lit "LOCAL:") v then None else Some (ge_expr v)
                      end)
         end
     end).
Proof.
  intros HL HV. unfold carries.
  destruct (find_setup_product w e (sl_name s)) as [p|] eqn:F; [|now left].
  destruct (p_version p) as [|c0 r0] eqn:PV; [now left|]. right. eexists; eexists. split; [reflexivity|].
  apply find_setup_product_recorded in F. destruct F as [_ F]. rewrite PV in F.
  split; [|split].
  - intros c H Hc. now rewrite (HL c H Hc).
  - intros v0 H N. exfalso. eauto.
  - auto.
Qed.

Opaque join_str.
Lemma rewrite_carries w e plist s : carries w e plist s (rewrite w e plist s).
Proof.
  unfold rewrite.
  set (VL := match truthy (sl_version s) with
             | Some v => if has_relop v then (None, Some (join_str [c_space] (v :: sl_rest s))) else (Some v, sl_logical s)
             | None => (None, sl_logical s)
             end).
  assert (HL : forall c, constraint_of s = Some c -> c <> [] -> truthy (snd VL) = Some c).
  { unfold VL, constraint_of. intros c H Hc. destruct (truthy (sl_version s)) as [v|]; [|exact H].
    destruct (has_relop v); [|exact H]. cbn [snd]. injection H as <-.
    revert Hc. generalize (join_str [c_space] (v :: sl_rest s)). intros [|a b] Hc; [now elim Hc|reflexivity]. }
  assert (HV : fst VL = plain_version s).
  { unfold VL, plain_version. destruct (truthy (sl_version s)) as [v|]; [|reflexivity]. now destruct (has_relop v). }
  destruct VL as [version1 logical1]. simpl in HL, HV.
  destruct (alookup (sl_name s) plist) as [pv|] eqn:A.
  - destruct (truthy (Some pv)) as [pv'|] eqn:T.
    + apply truthy_some in T. destruct T as [T _]. inversion T; subst pv'. right. eexists; eexists. split; [reflexivity|].
      split; [|split].
      * intros c H Hc. exact (HL c H Hc).
      * intros v0 _ N. congruence.
      * auto.
    + apply carries_found; [assumption|]. intros v0 _ N. congruence.
  - destruct (truthy version1) as [v|] eqn:T.
    + apply truthy_some in T. destruct T as [T _]. subst version1. right. eexists; eexists. split; [reflexivity|].
      split; [|split].
      * intros c H Hc. exact (HL c H Hc).
      * intros v0 H _. congruence.
      * right. left. now symmetry.
    + apply carries_found; [assumption|]. intros v0 H _.
      pose proof (plain_version_nonempty s v0 H) as P. rewrite <- HV in H. rewrite H in T.
      destruct v0; [now apply P|discriminate].
Qed.

Transparent join_str.

Lemma Forall2_map_r {A B} (R : A -> B -> Prop) (f : A -> B) l : (forall a, R a (f a)) -> Forall2 R l (map f l).
Proof. intro H. induction l; constructor; auto. Qed.

(* ------------------------------------------------------------ the exact block is complete for what the table names *)

(* no dependency list demands a product that is not set up *)
Definition closed (w : world) (e : amap str) (rd : rawdeps) : Prop :=
  forall n v, exists l, setup_closure true w e None (lookup_raw rd n v) = Ok l.

Lemma setup_closure_complete sf w e : forall ds skip l d p,
  setup_closure sf w e skip ds = Ok l -> In d ds -> find_setup_product w e (d_name d) = Some p ->
  In (p_name p, p_version p, d_optional d) l.
Proof.
  induction ds as [|d0 ds IH]; intros skip l d p H I F; [contradiction|].
  cbn [setup_closure] in H. cbv zeta in H. destruct I as [->|I].
  - rewrite F in H.
    match type of H with bind ?X _ = _ => destruct X as [r|] end; simpl in H; [|discriminate].
    inversion H; subst. now left.
  - destruct (find_setup_product w e (d_name d0)) as [p0|].
    + match type of H with bind ?X _ = _ => destruct X as [r|] eqn:R end; simpl in H; [|discriminate].
      inversion H; subst. right. eapply IH; eauto.
    + destruct (d_optional d0); [eapply IH; eauto|].
      match type of H with match ?X with _ => _ end = _ => destruct X end; [eapply IH; eauto|discriminate].
Qed.

Lemma key_eqb_eq a b : key_eqb a b = true <-> a = b.
Proof.
  destruct a as [a1 a2], b as [b1 b2]. unfold key_eqb. simpl. rewrite andb_true_iff, !str_eqb_eq.
  split; [intros [-> ->]; reflexivity|intro H; inversion H; auto].
Qed.

Lemma mem_key_In k l : mem_key k l = true <-> In k l.
Proof.
  induction l as [|x l IH]; simpl; [split; [discriminate|contradiction]|].
  destruct (key_eqb k x) eqn:E.
  - apply key_eqb_eq in E. subst. split; auto.
  - rewrite IH. split; [auto|]. intros [->|I]; [|assumption].
    assert (key_eqb k k = true) by now apply key_eqb_eq. congruence.
Qed.

Lemma add_nvol_mono : forall l des opt k, In k des -> In k (fst (add_nvol l des opt)).
Proof.
  induction l as [|[[n v] o] l IH]; intros des opt k I; simpl; [assumption|].
  destruct (mem_key (n, v) des); apply IH; [assumption|]. apply in_or_app. now left.
Qed.

Lemma add_nvol_in : forall l des opt n v o, In (n, v, o) l -> In (n, v) (fst (add_nvol l des opt)).
Proof.
  induction l as [|[[n0 v0] o0] l IH]; intros des opt n v o I; [contradiction|]. simpl.
  destruct I as [E|I].
  - inversion E; subst. destruct (mem_key (n, v) des) eqn:M.
    + apply add_nvol_mono. now apply mem_key_In.
    + apply add_nvol_mono. apply in_or_app. right. now left.
  - destruct (mem_key (n0, v0) des); eapply IH; eauto.
Qed.

Lemma collect_mono jf sf cf w e top plist force rd : forall prods a a' k,
  collect jf sf cf w e top plist force rd prods a = Ok a' -> In k (a_des a) -> In k (a_des a').
Proof.
  induction prods as [|r prods IH]; intros a a' k H I; cbn [collect] in H.
  - now inversion H; subst.
  - destruct (line_closure jf sf cf w e top plist force rd (rl_name r) (rl_optional r) (rl_just r)) as [[| |l]|x];
      [| | |discriminate].
    + eapply IH; eauto.
    + eapply IH; eauto.
    + pose proof (add_nvol_mono l (a_des a) (a_opt a) k I) as M.
      destruct (add_nvol l (a_des a) (a_opt a)) as [des opt]. eapply IH; eauto.
Qed.

Lemma collect_complete jf sf cf w e top plist force rd : forall prods a a' r l n v o,
  collect jf sf cf w e top plist force rd prods a = Ok a' -> In r prods ->
  line_closure jf sf cf w e top plist force rd (rl_name r) (rl_optional r) (rl_just r) = Ok (LAdd l) ->
  In (n, v, o) l -> In (n, v) (a_des a').
Proof.
  induction prods as [|r0 prods IH]; intros a a' r l n v o H I L Il; [contradiction|].
  cbn [collect] in H. destruct I as [->|I].
  - rewrite L in H. pose proof (add_nvol_in l (a_des a) (a_opt a) n v o Il) as M.
    destruct (add_nvol l (a_des a) (a_opt a)) as [des opt]. eapply collect_mono; eauto.
  - destruct (line_closure jf sf cf w e top plist force rd (rl_name r0) (rl_optional r0) (rl_just r0)) as [[| |l0]|x];
      [| | |discriminate].
    + eapply IH; eauto.
    + eapply IH; eauto.
    + destruct (add_nvol l0 (a_des a) (a_opt a)) as [des opt]. eapply IH; eauto.
Qed.

Lemma rewrite_keeps w e plist s :
  rl_name (rewrite w e plist s) = sl_name s /\ rl_optional (rewrite w e plist s) = sl_optional s /\
  rl_flags (rewrite w e plist s) = sl_flags s.
Proof.
  destruct (rewrite_carries w e plist s) as [->|[v [lg [-> _]]]]; simpl; auto.
Qed.

Lemma in_setup_rlines w e plist s : forall ls, In (LSetup s) ls ->
  In (rewrite w e plist s) (setup_rlines (map (rewrite_line w e plist) ls)).
Proof.
  induction ls as [|l ls IH]; intro I; [contradiction|]. destruct I as [->|I].
  - now left.
  - destruct l; simpl; auto.
Qed.

Lemma in_map_rewrite_bsetup w e plist s : forall ls, In (LSetup s) ls ->
  In (BSetup (rewrite w e plist s)) (map (rewrite_line w e plist) ls).
Proof. intros ls I. apply in_map_iff. exists (LSetup s). split; [reflexivity|assumption]. Qed.

Lemma blocks_true : forall ls cur, existsb fst (blocks true cur ls) = true.
Proof.
  induction ls as [|l ls IH]; intro cur; [reflexivity|]. destruct l; simpl; auto.
Qed.

Lemma blocks_has_setup r : forall ls f cur, In (BSetup r) ls -> existsb fst (blocks f cur ls) = true.
Proof.
  induction ls as [|l ls IH]; intros f cur I; [contradiction|]. destruct I as [->|I].
  - destruct f; simpl; [apply blocks_true|]. apply blocks_true.
  - destruct l; simpl; auto.
    + destruct f; [auto|]. simpl. apply blocks_true.
    + destruct f; simpl; auto.
    + destruct f; [auto|]. simpl. apply blocks_true.
Qed.

Lemma emit_has_pins pins x : forall bs lvl, existsb fst bs = true -> In x pins -> In x (emit lvl pins bs).
Proof.
  induction bs as [|[f b] bs IH]; intros lvl X I; [discriminate|]. destruct f; cbn [emit].
  - destruct (existsb fst bs) eqn:Y.
    + right. apply in_or_app. right. right. now apply IH.
    + right. apply in_or_app. now left.
  - apply in_or_app. right. apply IH; assumption.
Qed.

Lemma block_complete w e top force rd ls out s n v :
  expand w e top [] force rd ls = Ok out ->
  closed w e rd ->
  In (LSetup s) ls -> sl_name s <> top -> recorded e (sl_name s) v -> v <> [] ->
  (n = sl_name s \/
   (mem_str (lit "-j") (sl_flags s) = false /\ find_pv w (sl_name s) v <> None /\
    exists d p, In d (lookup_raw rd (sl_name s) v) /\ d_name d = n /\ find_setup_product w e n = Some p)) ->
  exists o v', In (OPin o n v') out /\ recorded e n v'.
Proof.
  intros E C I Nt R Vne Hn. unfold expand, expand_gen in E.
  destruct (collect true true true w e top [] force rd _ _) as [a|x] eqn:Col; [|discriminate].
  inversion E; subst out. clear E.
  set (r := rewrite w e [] s).
  destruct (rewrite_keeps w e [] s) as [Kn [Ko Kf]]. fold r in Kn, Ko, Kf.
  assert (Ir : In r (setup_rlines (map (rewrite_line w e []) ls))) by now apply in_setup_rlines.
  (* what the loop does for this line *)
  assert (L : exists l, line_closure true true true w e top [] force rd (rl_name r) (rl_optional r) (rl_just r) = Ok (LAdd l) /\
                        exists o v', In (n, v', o) l /\ recorded e n v').
  { unfold line_closure. rewrite Kn. destruct (str_eqb (sl_name s) top) eqn:T; [apply str_eqb_eq in T; contradiction|].
    cbn [alookup]. unfold recorded in R. rewrite R. destruct v as [|c0 r0]; [congruence|]. cbn [truthy andb].
    unfold rl_just. rewrite Kf.
    destruct (mem_str (lit "-j") (sl_flags s)) eqn:J.
    - eexists. split; [reflexivity|]. destruct Hn as [->|[Hj _]]; [|discriminate].
      exists (rl_optional r), (c0 :: r0). split; [now left|exact R].
    - destruct (C (sl_name s) (c0 :: r0)) as [l Hl].
      destruct (find_pv w (sl_name s) (c0 :: r0)) as [q|] eqn:Fq.
      + rewrite Hl. eexists. split; [reflexivity|]. destruct Hn as [->|[_ [_ [d [p [Id [Dn Fp]]]]]]].
        * exists (rl_optional r), (c0 :: r0). split; [now left|exact R].
        * subst n. exists (d_optional d), (p_version p). split.
          -- right. pose proof (setup_closure_complete true w e _ None l d p Hl Id Fp) as M.
             apply find_setup_product_recorded in Fp. destruct Fp as [Pn _]. now rewrite Pn in M.
          -- apply find_setup_product_recorded in Fp. apply Fp.
      + eexists. split; [reflexivity|]. destruct Hn as [->|[_ [Hd _]]]; [|congruence].
        exists (rl_optional r), (c0 :: r0). split; [now left|exact R]. }
  destruct L as [l [Ll [o [v' [Il Rv]]]]].
  pose proof (collect_complete true true true w e top [] force rd _ _ a r l n v' o Col Ir Ll Il) as D.
  exists (mem_key (n, v') (a_opt a) || mem_str n (a_nf a)), v'. split; [|exact Rv].
  apply in_or_app. left. apply emit_has_pins.
  - eapply blocks_has_setup. apply in_map_rewrite_bsetup. exact I.
  - unfold pin_lines. apply in_map_iff. exists (n, v'). split; [reflexivity|exact D].
Qed.

(* ------------------------------------------------------------ ... whenever the table could be expanded at all *)

Lemma setup_closure_lenient_complete sf w e : forall ds skip d p,
  In d ds -> find_setup_product w e (d_name d) = Some p ->
  In (p_name p, p_version p, d_optional d) (setup_closure_lenient sf w e skip ds).
Proof.
  induction ds as [|d0 ds IH]; intros skip d p I F; [contradiction|].
  cbn [setup_closure_lenient]. cbv zeta. destruct I as [->|I].
  - rewrite F. now left.
  - destruct (find_setup_product w e (d_name d0)) as [p0|].
    + right. now apply IH.
    + destruct (d_optional d0); now apply IH.
Qed.

Lemma collect_ok_line jf sf cf w e top plist force rd : forall prods a a' r,
  collect jf sf cf w e top plist force rd prods a = Ok a' -> In r prods ->
  exists x, line_closure jf sf cf w e top plist force rd (rl_name r) (rl_optional r) (rl_just r) = Ok x.
Proof.
  induction prods as [|r0 prods IH]; intros a a' r H I; [contradiction|].
  cbn [collect] in H. destruct I as [->|I].
  - destruct (line_closure jf sf cf w e top plist force rd (rl_name r) (rl_optional r) (rl_just r)) as [x|x];
      [now exists x|discriminate].
  - destruct (line_closure jf sf cf w e top plist force rd (rl_name r0) (rl_optional r0) (rl_just r0)) as [[| |l0]|x];
      [| | |discriminate].
    + eapply IH; eauto.
    + eapply IH; eauto.
    + destruct (add_nvol l0 (a_des a) (a_opt a)) as [des opt]. eapply IH; eauto.
Qed.

(* block_complete without the hypothesis [closed]: that the expansion succeeded is enough.  Where the closure
   below a line could not be collected, either the expansion failed (required line, no --force) or - cfix - the
   line's product and everything set up in its dependency list were kept *)
Lemma block_complete_open w e top force rd ls out s n v :
  expand w e top [] force rd ls = Ok out ->
  In (LSetup s) ls -> sl_name s <> top -> recorded e (sl_name s) v -> v <> [] ->
  (n = sl_name s \/
   (mem_str (lit "-j") (sl_flags s) = false /\ find_pv w (sl_name s) v <> None /\
    exists d p, In d (lookup_raw rd (sl_name s) v) /\ d_name d = n /\ find_setup_product w e n = Some p)) ->
  exists o v', In (OPin o n v') out /\ recorded e n v'.
Proof.
  intros E I Nt R Vne Hn. unfold expand, expand_gen in E.
  destruct (collect true true true w e top [] force rd _ _) as [a|x] eqn:Col; [|discriminate].
  inversion E; subst out. clear E.
  set (r := rewrite w e [] s).
  destruct (rewrite_keeps w e [] s) as [Kn [Ko Kf]]. fold r in Kn, Ko, Kf.
  assert (Ir : In r (setup_rlines (map (rewrite_line w e []) ls))) by now apply in_setup_rlines.
  destruct (collect_ok_line true true true w e top [] force rd _ _ a r Col Ir) as [res Hok].
  assert (L : exists l, line_closure true true true w e top [] force rd (rl_name r) (rl_optional r) (rl_just r) = Ok (LAdd l) /\
                        exists o v', In (n, v', o) l /\ recorded e n v').
  { revert Hok. unfold line_closure. rewrite Kn.
    destruct (str_eqb (sl_name s) top) eqn:T; [apply str_eqb_eq in T; contradiction|].
    cbn [alookup]. unfold recorded in R. rewrite R. destruct v as [|c0 r0]; [congruence|]. cbn [truthy andb].
    unfold rl_just. rewrite Kf.
    destruct (mem_str (lit "-j") (sl_flags s)) eqn:J.
    - intros _. eexists. split; [reflexivity|]. destruct Hn as [->|[Hj _]]; [|discriminate].
      exists (rl_optional r), (c0 :: r0). split; [now left|exact R].
    - destruct (find_pv w (sl_name s) (c0 :: r0)) as [q|] eqn:Fq.
      + destruct (setup_closure true w e None (lookup_raw rd (sl_name s) (c0 :: r0))) as [l|x] eqn:Hl.
        * intros _. eexists. split; [reflexivity|]. destruct Hn as [->|[_ [_ [d [p [Id [Dn Fp]]]]]]].
          -- exists (rl_optional r), (c0 :: r0). split; [now left|exact R].
          -- subst n. exists (d_optional d), (p_version p). split.
             ++ right. pose proof (setup_closure_complete true w e _ None l d p Hl Id Fp) as M.
                apply find_setup_product_recorded in Fp. destruct Fp as [Pn _]. now rewrite Pn in M.
             ++ apply find_setup_product_recorded in Fp. apply Fp.
        * destruct (negb (rl_optional r) && negb force); [discriminate|]. intros _.
          eexists. split; [reflexivity|]. destruct Hn as [->|[_ [_ [d [p [Id [Dn Fp]]]]]]].
          -- exists (rl_optional r), (c0 :: r0). split; [now left|exact R].
          -- subst n. exists (d_optional d), (p_version p). split.
             ++ right. pose proof (setup_closure_lenient_complete true w e _ None d p Id Fp) as M.
                apply find_setup_product_recorded in Fp. destruct Fp as [Pn _]. now rewrite Pn in M.
             ++ apply find_setup_product_recorded in Fp. apply Fp.
      + intros _. eexists. split; [reflexivity|]. destruct Hn as [->|[_ [Hd _]]]; [|congruence].
        exists (rl_optional r), (c0 :: r0). split; [now left|exact R]. }
  destruct L as [l [Ll [o [v' [Il Rv]]]]].
  pose proof (collect_complete true true true w e top [] force rd _ _ a r l n v' o Col Ir Ll Il) as D.
  exists (mem_key (n, v') (a_opt a) || mem_str n (a_nf a)), v'. split; [|exact Rv].
  apply in_or_app. left. apply emit_has_pins.
  - eapply blocks_has_setup. apply in_map_rewrite_bsetup. exact I.
  - unfold pin_lines. apply in_map_iff. exists (n, v'). split; [reflexivity|exact D].
Qed.
