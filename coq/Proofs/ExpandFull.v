(* C17, the exact-reproduction clause in full: the build is a run of the composed model (Model/SetupFull.v:
   Eups.setup with C03's resolver), its closure theorem (Proofs/SetupFullClosure.v closure_lemma, C01's
   closure_exact) says what is set up afterwards, the expansion (Model/Expand.v) pins all of it
   (Proofs/Expand.v block_complete_open), and the replay through Model/Setup.v with the decisions forced by the
   exact block (Proofs/ExpandSetup.v replay_records) records it again. *)
From Eupsv Require Import Base.Base Base.BaseLemmas Model.PathAlg Model.Setup Model.Resolve Model.ResolveSpec
     Model.SetupFull Model.Expand.
From Eupsv Require Import Proofs.PathAlg Proofs.SetupFrame Proofs.SetupInv Proofs.SetupFull Proofs.SetupFullClosure
     Proofs.Expand Proofs.ExpandSetup.
From Coq Require Import Lia.

(* What ties the dependency lists to the world.  The lists rd are what Table.dependencies(recursive) returns for the
   products the table's own lines name (an input of Model/Expand.v: the walk is not modelled there); the closure
   reach_ok fw D top is defined on the tables of the composed model.  [lists_cover]: every member of the closure
   other than top is named by a setup line of the table, or listed below a line (without -j) that names a member
   of the closure, in the list of that product's assigned version. *)
Definition lists_cover (fw : fworld) (D : str -> option str) (top : str) (rd : rawdeps) (ls : list tline) : Prop :=
  forall k, reach_ok fw D top k -> k <> top ->
    exists s va, In (LSetup s) ls /\ sl_name s <> top /\ reach_ok fw D top (sl_name s) /\ D (sl_name s) = Some va /\
      (k = sl_name s \/
       (mem_str (lit "-j") (sl_flags s) = false /\ exists d, In d (lookup_raw rd (sl_name s) va) /\ d_name d = k)).

(* a member of the closure other than its root is assigned a declared version *)
Lemma reach_ok_assigned fw D m k : reach_ok fw D m k ->
  k = m \/ exists v p, D k = Some v /\ find_pv (fw_products fw) k v = Some p.
Proof.
  induction 1 as [m|m v p o x j k Dm Fm Ia Sx R IH]; [now left|]. right.
  destruct IH as [->|E]; [|exact E]. inversion Sx as [n v' p' Dn Fn _]; subst. now exists v', p'.
Qed.

Lemma pins_of_in n v o : forall l, In (OPin o n v) l -> In (n, v, o) (pins_of l).
Proof.
  induction l as [|x l IH]; intro I; [contradiction|]. destruct I as [->|I]; [now left|].
  destruct x; simpl; auto.
Qed.

Definition pin_is (k v : str) (x : nvo) : bool := str_eqb (fst (fst x)) k && str_eqb (snd (fst x)) v.

Lemma pin_is_true k v x : pin_is k v x = true -> exists o, x = (k, v, o).
Proof.
  destruct x as [[n u] o]. unfold pin_is. simpl. rewrite andb_true_iff, !str_eqb_eq. intros [-> ->]. now exists o.
Qed.

Lemma recorded_fun e n v v' : recorded e n v -> recorded e n v' -> v = v'.
Proof. unfold recorded. intros A B. rewrite A in B. now injection B. Qed.

Section Full.
Variable vcmp : str -> str -> comparison.
Variable vmatch : str -> str -> bool.
Variable fw : fworld.
Variable cfg : Setup.config.
Variable rc : Resolve.config.
Variable flavors : list str.
Variable dl : str -> ascii.
Variable rank : str -> nat.
Variable vro : list entry.
Variable top : str.
Variable version : option str.
Variable D : str -> option str.
Notation w := (fw_products fw).

Hypothesis H : WF2 w dl rank.
Hypothesis Hdepth : c_max_depth cfg = None.
Hypothesis Hwfdb : wf_db (db_of cfg fw) = true.
Hypothesis Hto : forall n, total_order_on vcmp (names_of (db_of cfg fw) n).
Hypothesis Hvro : select_vro rc (request_opts cfg version) = Ok vro.
Hypothesis Hnokeep : mem_entry EKeep vro = false.
Hypothesis Hcf : conflict_free vcmp vmatch fw cfg rc flavors vro top {| li_version := version; li_expr := None |} D.

Variables (fuel : nat) (st0 stb : state) (tr : list decision).
Hypothesis Hnd : nodollar_paths w (s_env st0).
Hypothesis Hempty : forall m, alookup (setup_var m) (s_env st0) = None.      (* a shell in which nothing is set up *)
Hypothesis Hbuild : request_full vcmp vmatch fw cfg rc flavors fuel st0 top version true false = Ok (Some stb, tr).

(* C01's closure clause for this build *)
Lemma build_closure :
  (forall k, reach_ok fw D top k ->
     exists v q, D k = Some v /\ find_pv w k v = Some q /\ find_setup_product w (s_env stb) k = Some q) /\
  (forall k q, reachN fw top k -> find_setup_product w (s_env stb) k = Some q ->
     reach_ok fw D top k /\ D k = Some (p_version q)) /\
  (forall k, known w k -> ~ reachN fw top k -> find_setup_product w (s_env stb) k = None).
Proof.
  unfold request_full in Hbuild. rewrite Hvro in Hbuild.
  destruct (setup_full vcmp vmatch fw cfg rc flavors fuel st0 [] vro top _ true 0 false)
    as [[|] st1 al1 tr1|st1 al1 tr1|tr1|tr1] eqn:X; try discriminate.
  injection Hbuild as <- _.
  destruct Hcf as [C0 CL].
  assert (Hfresh : forall n, reachN fw top n -> find_setup_product w (s_env st0) n = None).
  { intros n _. apply find_none_when_unset. apply Hempty. }
  destruct (closure_lemma vcmp vmatch fw cfg rc flavors dl rank vro top D (fun _ => False) H Hdepth Hwfdb Hto Hnokeep CL
              fuel st0 _ st1 al1 tr1 Hnd Hfresh C0 (fun k v (Zk : False) => match Zk with end) X) as [A [B [C _]]].
  split; [exact A|]. split; [exact B|].
  intros k K NR. rewrite (C k K NR). apply find_none_when_unset. apply Hempty.
Qed.

(* the requested product itself is recorded at the version assigned to it *)
Lemma build_top topv : D top = Some topv ->
  exists q, find_pv w top topv = Some q /\ find_setup_product w (s_env stb) top = Some q.
Proof.
  intro Dt. destruct build_closure as [A _]. destruct (A top (ro_self fw D top)) as [v [q [Dv [Fq Fs]]]].
  assert (v = topv) by congruence. subst v. now exists q.
Qed.

Variables (force : bool) (rd : rawdeps) (ls : list tline) (out : list oline).
Hypothesis Hexp : expand w (s_env stb) top [] force rd ls = Ok out.
Hypothesis Hcover : lists_cover fw D top rd ls.

(* [covered], derived: every product the build left set up, other than top, is pinned at its build-time version.
   (Membership in the list of pins is decidable, so the case distinction on reachability - which is not - can be
   made under a double negation.) *)
Lemma build_is_pinned k q :
  known w k -> k <> top -> find_setup_product w (s_env stb) k = Some q ->
  exists o, In (k, p_version q, o) (pins_of out).
Proof.
  intros K Nk F.
  destruct (existsb (pin_is k (p_version q)) (pins_of out)) eqn:X.
  { apply existsb_exists in X. destruct X as [x [Ix Px]]. apply pin_is_true in Px. destruct Px as [o ->]. now exists o. }
  exfalso.
  assert (NP : forall o, ~ In (k, p_version q, o) (pins_of out)).
  { intros o I. assert (Y : existsb (pin_is k (p_version q)) (pins_of out) = true).
    { apply existsb_exists. exists (k, p_version q, o). split; [exact I|]. unfold pin_is. simpl.
      apply andb_true_iff. split; now apply str_eqb_eq. }
    congruence. }
  destruct build_closure as [A [B C]].
  assert (NNR : ~ ~ reachN fw top k).
  { intro NR. rewrite (C k K NR) in F. discriminate F. }
  apply NNR. intro R.
  destruct (B k q R F) as [RO Dk].
  destruct (Hcover k RO Nk) as [s [va [Is [Nt [ROa [Da Hor]]]]]].
  destruct (A (sl_name s) ROa) as [v [qa [Da' [Fpa Fsa]]]].
  assert (v = va) by congruence. subst v.
  destruct (find_pv_in w (sl_name s) va qa Fpa) as [Iqa [_ Vqa]].
  destruct (find_setup_product_recorded w (s_env stb) (sl_name s) qa Fsa) as [_ Ra]. rewrite Vqa in Ra.
  assert (Vne : va <> []).
  { destruct (wf_words w dl rank H qa Iqa) as [_ [[Wv _] _]]. now rewrite Vqa in Wv. }
  assert (Hn : k = sl_name s \/
               (mem_str (lit "-j") (sl_flags s) = false /\ find_pv w (sl_name s) va <> None /\
                exists d p, In d (lookup_raw rd (sl_name s) va) /\ d_name d = k /\
                            find_setup_product w (s_env stb) k = Some p)).
  { destruct Hor as [->|[J [d [Id Dn]]]]; [now left|]. right. split; [exact J|]. split; [congruence|].
    exists d, q. repeat split; assumption. }
  destruct (block_complete_open w (s_env stb) top force rd ls out s k va Hexp Is Nt Ra Vne Hn) as [o [v' [Ip Rk]]].
  destruct (find_setup_product_recorded w (s_env stb) k q F) as [_ Rq].
  pose proof (recorded_fun _ _ _ _ Rk Rq) as ->.
  apply (NP o). now apply pins_of_in.
Qed.

(* the replay *)
Variables (w' : world) (cfg' : Setup.config) (interp : str -> list action) (ptop : product) (topv : str)
          (absent : list str) (fuel' : nat) (st1 : state).
Hypothesis Hmd' : c_max_depth cfg' = None.
Hypothesis Htop : find_pv w' top topv = Some ptop.
Hypothesis Htable : p_actions ptop = exact_actions interp (exact_view out) ++ map absent_action absent.
Hypothesis Hinterp : forall t, Forall simple_action (interp t).
Hypothesis Hdecl : forall n v o, In (n, v, o) (pins_of out) ->
                     exists p, find_pv w' n v = Some p /\ Forall quiet_action (p_actions p).
Hypothesis Hsane : sane top.
Hypothesis Hsanes : forall x, In x (pins_of out) -> sane (pin_name x).
Hypothesis Hnodup : NoDup (upper_str top :: map (fun x => upper_str (pin_name x)) (pins_of out)).
Hypothesis Hempty1 : forall m, alookup (setup_var m) (s_env st1) = None.
Hypothesis Hfuel : 2 <= fuel'.

Lemma reproduces_full :
  exists st',
    setup w' cfg' fuel' st1 (forced_decisions topv (pins_of out) absent) top true 0 false = RDone true st' [] /\
    alookup (setup_var top) (s_env st') = Some (setup_string cfg' top topv) /\
    (forall k q, known w k -> k <> top -> find_setup_product w (s_env stb) k = Some q ->
       alookup (setup_var k) (s_env st') = Some (setup_string cfg' k (p_version q))) /\
    (forall m, alookup (setup_var m) (s_env st') <> None -> upper_str m <> upper_str top ->
       exists n v, setup_var n = setup_var m /\ recorded (s_env stb) n v /\
                   alookup (setup_var m) (s_env st') = Some (setup_string cfg' n v)).
Proof.
  destruct (replay_records true true true w (s_env stb) top [] force rd ls out w' cfg' interp ptop topv absent fuel' st1
              Hexp Hmd' Htop Htable Hinterp Hdecl Hsane Hsanes Hnodup (Hempty1 top) (fun x _ => Hempty1 (pin_name x)) Hfuel)
    as [st' [R [Rt [Rp Ro]]]].
  exists st'. split; [exact R|]. split; [exact Rt|]. split.
  - intros k q K Nk F. destruct (build_is_pinned k q K Nk F) as [o I]. apply (Rp k (p_version q) o I).
  - intros m Hm Nm.
    destruct (in_dec str_eq_dec (upper_str m) (map (fun x => upper_str (pin_name x)) (pins_of out))) as [I|N].
    + apply in_map_iff in I. destruct I as [[[xn xv] xo] [Ux Ix]]. simpl in Ux.
      destruct (Rp xn xv xo Ix) as [L S]. exists xn, xv. split; [now apply setup_var_upper|].
      split; [destruct S as [S|S]; [exact S|discriminate]|].
      now rewrite <- (setup_var_upper xn m Ux).
    + exfalso. apply Hm. rewrite Ro; [apply Hempty1|exact Nm|].
      intros x Ix Ex. apply N. apply in_map_iff. exists x. split; assumption.
Qed.

End Full.
