(* Lemmas about Model/ExpandOpt.v: the two switches expandVersions / addExactBlock of table.expandTableFile. *)
From Coq Require Import List ZArith Bool Ascii Lia.
Import ListNotations.
From Eupsv Require Import Base.Base Base.BaseLemmas Model.Rx Model.PathAlg Model.Setup Model.Expand Model.ExpandText
                          Model.ExpandRe Model.ExpandOpt.
From Eupsv Require Import Proofs.Expand Proofs.ExpandText.

(* ---------------------------------------------------------------- at their defaults the switches change nothing *)

Lemma strip_logical_true r : strip_logical true r = r.
Proof. destruct r; reflexivity. Qed.

Lemma rewrite_line_opt_true w e plist l : rewrite_line_opt true w e plist l = rewrite_line w e plist l.
Proof. unfold rewrite_line_opt. destruct (rewrite_line w e plist l); try reflexivity. now rewrite strip_logical_true. Qed.

Lemma rewritten_true w e plist ls : rewritten true w e plist ls = map (rewrite_line w e plist) ls.
Proof. unfold rewritten. apply map_ext. intro; apply rewrite_line_opt_true. Qed.

Lemma emit_z_opt_true pins : forall bs lvl, emit_z_opt true lvl pins bs = emit_z lvl pins bs.
Proof.
  induction bs as [|[f b] rest IH]; intro lvl; [reflexivity|]. destruct f; cbn [emit_z_opt emit_z].
  - destruct (existsb fst rest); now rewrite IH.
  - destruct (block_levels lvl b) as [l1 l2]. now rewrite IH.
Qed.

Lemma expand_layout_opt_defaults jf sf cf w e top plist force rd ls :
  expand_layout_opt true true jf sf cf w e top plist force rd ls = expand_layout jf sf cf w e top plist force rd ls.
Proof.
  unfold expand_layout_opt, expand_layout, collected, acc0. rewrite rewritten_true.
  destruct (collect jf sf cf w e top plist force rd _ _); [|reflexivity]. now rewrite emit_z_opt_true.
Qed.

Lemma expand_text_opt_defaults tf jf sf cf w e top plist force rd text :
  expand_text_opt true true tf jf sf cf w e top plist force rd text = expand_text_gen tf jf sf cf w e top plist force rd text.
Proof.
  unfold expand_text_opt, expand_text_gen, expand_text_lines_opt, expand_text_lines_gen.
  destruct (classify_text tf text); try reflexivity. destruct (expr_checks w e plist a); try reflexivity.
  now rewrite expand_layout_opt_defaults.
Qed.

Lemma reexpand_text_opt_defaults tf jf sf cf w e top plist force rd text :
  reexpand_text_opt true true tf jf sf cf w e top plist force rd text = reexpand_text_gen tf jf sf cf w e top plist force rd text.
Proof. unfold reexpand_text_opt, reexpand_text_gen. apply expand_text_opt_defaults. Qed.

(* ---------------------------------------------------------------- the closure that is collected does not depend on
   expandVersions: name, optional and -j are read from the name and the flags of the rewritten line *)

Lemma rl_name_strip ev r : rl_name (strip_logical ev r) = rl_name r.
Proof. destruct r; reflexivity. Qed.
Lemma rl_optional_strip ev r : rl_optional (strip_logical ev r) = rl_optional r.
Proof. destruct r; reflexivity. Qed.
Lemma rl_just_strip ev r : rl_just (strip_logical ev r) = rl_just r.
Proof. destruct r; reflexivity. Qed.

Lemma collect_strip ev jf sf cf w e top plist force rd : forall prods a,
  collect jf sf cf w e top plist force rd (map (strip_logical ev) prods) a = collect jf sf cf w e top plist force rd prods a.
Proof.
  induction prods as [|r prods IH]; intro a; [reflexivity|]. cbn [map collect].
  rewrite rl_name_strip, rl_optional_strip, rl_just_strip.
  destruct (line_closure jf sf cf w e top plist force rd (rl_name r) (rl_optional r) (rl_just r)) as [[| |l]|x]; auto.
  destruct (add_nvol l (a_des a) (a_opt a)). apply IH.
Qed.

Lemma setup_rlines_rewritten ev w e plist ls :
  setup_rlines (rewritten ev w e plist ls) = map (strip_logical ev) (setup_rlines (map (rewrite_line w e plist) ls)).
Proof.
  unfold rewritten. induction ls as [|l ls IH]; [reflexivity|]. cbn [map]. unfold rewrite_line_opt at 1.
  destruct (rewrite_line w e plist l); cbn [setup_rlines map]; now rewrite IH.
Qed.

Lemma collected_any ev jf sf cf w e top plist force rd ls :
  collected ev jf sf cf w e top plist force rd ls =
  collect jf sf cf w e top plist force rd (setup_rlines (map (rewrite_line w e plist) ls)) acc0.
Proof. unfold collected. now rewrite setup_rlines_rewritten, collect_strip. Qed.

(* ---------------------------------------------------------------- without the exact block *)

Lemma out_bline_not_added b : is_added (out_bline b) = false.
Proof. destruct b; reflexivity. Qed.

Definition none_added (l : list (Z * oline)) : Prop := Forall (fun x => is_added (snd x) = false) l.

Lemma at_level_not_added lvl bl : none_added (at_level lvl (map out_bline bl)).
Proof.
  unfold none_added, at_level. apply Forall_forall. intros x I. apply in_map_iff in I. destruct I as [o [E I]]. subst x.
  apply in_map_iff in I. destruct I as [b [E _]]. subst o. apply out_bline_not_added.
Qed.

Lemma emit_z_opt_false_not_added pins : forall bs lvl, none_added (emit_z_opt false lvl pins bs).
Proof.
  induction bs as [|[f b] rest IH]; intro lvl; [constructor|]. destruct f; cbn [emit_z_opt].
  - apply Forall_app. split; [apply at_level_not_added|apply IH].
  - destruct (block_levels lvl b) as [l1 l2]. apply Forall_app. split; [|apply IH].
    destruct b as [|x b]; [constructor|]. cbn [map]. constructor; [apply out_bline_not_added|apply at_level_not_added].
Qed.

Lemma final_not_added bl : none_added (at_level 0 (final_lines bl)).
Proof.
  unfold none_added, at_level, final_lines. apply Forall_forall. intros x I. apply in_map_iff in I. destruct I as [o [E I]]. subst x.
  apply in_map_iff in I. destruct I as [t [E _]]. now subst o.
Qed.

Lemma no_exact_block ev jf sf cf w e top plist force rd ls lay :
  expand_layout_opt ev false jf sf cf w e top plist force rd ls = Ok lay -> none_added lay.
Proof.
  unfold expand_layout_opt. destruct (collected ev jf sf cf w e top plist force rd ls); [|discriminate].
  intro H. inversion H; subst. apply Forall_app. split; [apply emit_z_opt_false_not_added|apply final_not_added].
Qed.

(* the lines that are written are the lines of the table after subSetup: setup lines and other lines, in order *)

Lemma setups_body_plain lvl b : setups_of (map out_bline (setup_body_plain lvl b)) = setups_of (map out_bline b).
Proof. unfold setup_body_plain. destruct (0 <? lvl)%Z; now rewrite ?setups_drop, setups_bodyl. Qed.
Lemma others_body_plain lvl b : others_of (map out_bline (setup_body_plain lvl b)) = others_of (map out_bline b).
Proof. unfold setup_body_plain. destruct (0 <? lvl)%Z; now rewrite ?others_drop, others_bodyl. Qed.

Lemma first_block_lines l1 l2 (l : list oline) :
  map snd (match l with [] => [] | x :: r => (l1, x) :: at_level l2 r end) = l.
Proof. destruct l as [|x r]; [reflexivity|]. cbn [map snd]. now rewrite map_snd_at_level. Qed.

Lemma plain_setups pins : forall bs lvl,
  setups_of (map snd (emit_z_opt false lvl pins bs)) = setups_of (map out_bline (concat (map snd bs))).
Proof.
  induction bs as [|[f b] rest IH]; intro lvl; [reflexivity|]. cbn [map snd concat]. rewrite map_app, setups_of_app.
  destruct f; cbn [emit_z_opt].
  - rewrite map_app, setups_of_app, map_snd_at_level, setups_body_plain. now rewrite IH.
  - destruct (block_levels lvl b) as [l1 l2]. rewrite map_app, setups_of_app, first_block_lines. now rewrite IH.
Qed.

Lemma plain_others pins : forall bs lvl,
  others_of (map snd (emit_z_opt false lvl pins bs)) = others_of (map out_bline (concat (map snd bs))).
Proof.
  induction bs as [|[f b] rest IH]; intro lvl; [reflexivity|]. cbn [map snd concat]. rewrite map_app, others_of_app.
  destruct f; cbn [emit_z_opt].
  - rewrite map_app, others_of_app, map_snd_at_level, others_body_plain. now rewrite IH.
  - destruct (block_levels lvl b) as [l1 l2]. rewrite map_app, others_of_app, first_block_lines. now rewrite IH.
Qed.

Lemma setups_rewritten ev w e plist ls :
  setups_of (map out_bline (rewritten ev w e plist ls)) = map (fun s => strip_logical ev (rewrite w e plist s)) (setups_in ls).
Proof.
  unfold rewritten. induction ls as [|l ls IH]; [reflexivity|]. destruct l; cbn [map setups_in]; try exact IH.
  unfold rewrite_line_opt at 1. cbn [rewrite_line out_bline setups_of]. now rewrite IH.
Qed.

Lemma others_rewritten ev w e plist ls : others_of (map out_bline (rewritten ev w e plist ls)) = others_in ls.
Proof.
  unfold rewritten. induction ls as [|l ls IH]; [reflexivity|]. destruct l; cbn [map others_in]; try exact IH.
  unfold rewrite_line_opt at 1. cbn [rewrite_line out_bline others_of]. now rewrite IH.
Qed.

Lemma plain_layout_setups ev jf sf cf w e top plist force rd ls lay :
  expand_layout_opt ev false jf sf cf w e top plist force rd ls = Ok lay ->
  setups_of (map snd lay) = map (fun s => strip_logical ev (rewrite w e plist s)) (setups_in ls).
Proof.
  unfold expand_layout_opt. destruct (collected ev jf sf cf w e top plist force rd ls); [|discriminate].
  intro H. inversion H; subst. rewrite map_app, setups_of_app, map_snd_at_level, setups_final, app_nil_r.
  rewrite plain_setups, blocks_concat. cbn [rev app]. apply setups_rewritten.
Qed.

Lemma plain_layout_others ev jf sf cf w e top plist force rd ls lay :
  expand_layout_opt ev false jf sf cf w e top plist force rd ls = Ok lay ->
  others_of (map snd lay) = others_in ls.
Proof.
  unfold expand_layout_opt. destruct (collected ev jf sf cf w e top plist force rd ls); [|discriminate].
  intro H. inversion H; subst. rewrite map_app, others_of_app, map_snd_at_level, others_final, app_nil_r.
  rewrite plain_others, blocks_concat. cbn [rev app]. apply others_rewritten.
Qed.

(* ---------------------------------------------------------------- expandVersions off: the text is the text written with
   the switch on, the expression taken off every rewritten setup line - nothing else changes, the exact block included *)


Lemma rewrite_line_opt_sb ev w e plist l : rewrite_line_opt ev w e plist l = sb ev (rewrite_line w e plist l).
Proof. unfold rewrite_line_opt. destruct (rewrite_line w e plist l); reflexivity. Qed.

Lemma rewritten_sb ev w e plist ls : rewritten ev w e plist ls = map (sb ev) (map (rewrite_line w e plist) ls).
Proof. unfold rewritten. rewrite map_map. apply map_ext. intro. apply rewrite_line_opt_sb. Qed.

Lemma blocks_sb ev : forall ls f cur, blocks f (map (sb ev) cur) (map (sb ev) ls) = map (sblk ev) (blocks f cur ls).
Proof.
  induction ls as [|l ls IH]; intros f cur.
  - cbn [map blocks]. unfold sblk; cbn [fst snd]. now rewrite map_rev.
  - assert (R : forall c, sblk ev (c, rev cur) = (c, rev (map (sb ev) cur))).
    { intro c. unfold sblk; cbn [fst snd]. now rewrite map_rev. }
    destruct l; cbn [map sb blocks].
    + exact (IH f (BBlank :: cur)).
    + exact (IH f (BComment t :: cur)).
    + destruct f.
      * exact (IH true (BSetup r :: cur)).
      * cbn [map]. rewrite R. f_equal. exact (IH true [BSetup r]).
    + destruct f.
      * cbn [map]. rewrite R. f_equal. exact (IH false [BOther t]).
      * exact (IH false (BOther t :: cur)).
    + destruct f.
      * exact (IH true (BEups t :: cur)).
      * cbn [map]. rewrite R. f_equal. exact (IH true [BEups t]).
Qed.

Lemma out_sb ev b : out_bline (sb ev b) = so ev (out_bline b).
Proof. destruct b; reflexivity. Qed.
Lemma map_out_sb ev b : map out_bline (map (sb ev) b) = map (so ev) (map out_bline b).
Proof. rewrite !map_map. apply map_ext. intro. apply out_sb. Qed.

Lemma body_lines_sb ev b : body_lines (map (sb ev) b) = map (sb ev) (body_lines b).
Proof. unfold body_lines. induction b as [|x b IH]; [reflexivity|]. destruct x; simpl; now rewrite IH. Qed.

Lemma drop_last_blank_sb ev b : drop_last_blank (map (sb ev) b) = map (sb ev) (drop_last_blank b).
Proof.
  induction b as [|x b IH]; [reflexivity|].
  destruct x; try (cbn [map sb drop_last_blank]; now rewrite IH).
  destruct b as [|y b]; [reflexivity|].
  change (BBlank :: drop_last_blank (map (sb ev) (y :: b)) = BBlank :: map (sb ev) (drop_last_blank (y :: b))).
  now rewrite IH.
Qed.

Lemma setup_body_sb ev lvl b : setup_body lvl (map (sb ev) b) = map (sb ev) (setup_body lvl b).
Proof. unfold setup_body. destruct (0 <? lvl + 1)%Z; now rewrite ?body_lines_sb, ?drop_last_blank_sb. Qed.
Lemma setup_body_plain_sb ev lvl b : setup_body_plain lvl (map (sb ev) b) = map (sb ev) (setup_body_plain lvl b).
Proof. unfold setup_body_plain. destruct (0 <? lvl)%Z; now rewrite ?body_lines_sb, ?drop_last_blank_sb. Qed.

Lemma block_levels_sb ev lvl b : block_levels lvl (map (sb ev) b) = block_levels lvl b.
Proof. destruct b as [|[] b]; reflexivity. Qed.

Lemma existsb_sblk ev rest : existsb fst (map (sblk ev) rest) = existsb fst rest.
Proof. induction rest as [|[f b] r IH]; [reflexivity|]. cbn [map existsb sblk fst]. now rewrite IH. Qed.

Lemma at_level_so ev lvl l : at_level lvl (map (so ev) l) = map (sz ev) (at_level lvl l).
Proof. unfold at_level. rewrite !map_map. reflexivity. Qed.

Lemma emit_z_opt_sb ev ab pins : map (so ev) pins = pins -> forall bs lvl,
  emit_z_opt ab lvl pins (map (sblk ev) bs) = map (sz ev) (emit_z_opt ab lvl pins bs).
Proof.
  intro Hp. induction bs as [|[f b] rest IH]; intro lvl; [reflexivity|]. destruct f; cbn [map]; unfold sblk at 1; cbn [fst snd emit_z_opt].
  - destruct ab.
    + rewrite existsb_sblk, setup_body_sb, map_out_sb, at_level_so, IH. destruct (existsb fst rest).
      * cbn [map]. rewrite map_app. reflexivity.
      * cbn [map]. rewrite map_app. cbn [map]. rewrite map_app. cbn [map]. rewrite <- (at_level_so ev (lvl + 1)%Z pins), Hp. reflexivity.
    + rewrite setup_body_plain_sb, map_out_sb, at_level_so, map_app, IH. reflexivity.
  - rewrite block_levels_sb. destruct (block_levels lvl b) as [l1 l2]. rewrite map_out_sb, map_app, IH. f_equal.
    destruct (map out_bline b) as [|x r]; [reflexivity|]. cbn [map]. rewrite at_level_so. reflexivity.
Qed.

Lemma pin_lines_so ev a : map (so ev) (pin_lines a) = pin_lines a.
Proof. unfold pin_lines. rewrite map_map. reflexivity. Qed.

Lemma eups_lines_sb ev bl : eups_lines (map (sb ev) bl) = eups_lines bl.
Proof. induction bl as [|x bl IH]; [reflexivity|]. destruct x; cbn [map sb eups_lines]; now rewrite IH. Qed.

Lemma final_sz ev bl : at_level 0 (final_lines bl) = map (sz ev) (at_level 0 (final_lines bl)).
Proof. unfold at_level, final_lines. rewrite !map_map. reflexivity. Qed.

Lemma layout_strip ev ab jf sf cf w e top plist force rd ls :
  expand_layout_opt ev ab jf sf cf w e top plist force rd ls =
  match expand_layout_opt true ab jf sf cf w e top plist force rd ls with
  | Ok lay => Ok (map (sz ev) lay)
  | Err x => Err x
  end.
Proof.
  unfold expand_layout_opt. rewrite !collected_any, rewritten_sb, rewritten_true.
  destruct (collect jf sf cf w e top plist force rd _ acc0) as [a|x]; [|reflexivity]. f_equal.
  pose proof (blocks_sb ev (map (rewrite_line w e plist) ls) false []) as B. cbn [map] in B. rewrite B.
  rewrite (emit_z_opt_sb ev ab (pin_lines a) (pin_lines_so ev a)). rewrite map_app. f_equal.
  unfold final_lines at 1. rewrite eups_lines_sb. apply final_sz.
Qed.

(* what the removal leaves alone, and what it removes *)
Lemma pins_of_sz ev lay : pins_of (map snd (map (sz ev) lay)) = pins_of (map snd lay).
Proof. induction lay as [|[z o] lay IH]; [reflexivity|]. destruct o; cbn [map sz so fst snd pins_of]; now rewrite ?IH. Qed.
Lemma others_of_sz ev lay : others_of (map snd (map (sz ev) lay)) = others_of (map snd lay).
Proof. induction lay as [|[z o] lay IH]; [reflexivity|]. destruct o; cbn [map sz so fst snd others_of]; now rewrite ?IH. Qed.
Lemma setups_of_sz ev lay : setups_of (map snd (map (sz ev) lay)) = map (strip_logical ev) (setups_of (map snd lay)).
Proof. induction lay as [|[z o] lay IH]; [reflexivity|]. destruct o; cbn [map sz so fst snd setups_of]; now rewrite ?IH. Qed.

Lemma stripped_carries_none r : carries_expression (strip_logical false r) = false.
Proof. destruct r; reflexivity. Qed.
