(* Lemmas about Model/ExpandRe.v: the lines an earlier expansion added are dropped while the table is read. *)
From Eupsv Require Import Base.Base Base.BaseLemmas Model.Rx Model.PathAlg Model.Setup Model.Expand Model.ExpandText
  Model.ExpandRe Proofs.ExpandTextLib Proofs.ExpandText.

(* ---------- the lines of a text hold no line feed *)

Lemma split_on_no_nl x : Forall no_nl (split_on c_nl x).
Proof.
  induction x as [|c x IH]; cbn [split_on].
  - constructor; [reflexivity|constructor].
  - destruct (ascii_eqb c c_nl) eqn:E.
    + constructor; [reflexivity|assumption].
    + destruct (split_on c_nl x) as [|h t]; [constructor; [|constructor]|].
      * unfold no_nl. cbn [mem_ascii]. rewrite (ascii_eqb_sym c_nl c), E. reflexivity.
      * inversion IH; subst. constructor; [|assumption].
        unfold no_nl in *. cbn [mem_ascii]. rewrite (ascii_eqb_sym c_nl c), E. assumption.
Qed.

Lemma drop_last_empty_forall (P : str -> Prop) l : Forall P l -> Forall P (drop_last_empty l).
Proof.
  induction 1 as [|x l Hx Hl IH]; cbn [drop_last_empty]; [constructor|].
  destruct x as [|c x]; [destruct l; [constructor|constructor; assumption]|constructor; assumption].
Qed.

Lemma lines_of_no_nl text : Forall no_nl (lines_of text).
Proof. unfold lines_of. apply drop_last_empty_forall, split_on_no_nl. Qed.

(* ---------- unexpand keeps lines of the input, in order *)

Lemma unexpand_unfold g l r :
  unexpand g (l :: r) = if fst (unexpand_step g l) then l :: unexpand (snd (unexpand_step g l)) r
                        else unexpand (snd (unexpand_step g l)) r.
Proof. cbn [unexpand]. destruct (unexpand_step g l); reflexivity. Qed.

Lemma unexpand_in g ls l : In l (unexpand g ls) -> In l ls.
Proof.
  revert g. induction ls as [|x ls IH]; intro g; [intros []|].
  rewrite unexpand_unfold. destruct (fst (unexpand_step g x)).
  - intros [H|H]; [left; assumption|right; eapply IH; eassumption].
  - intro H. right. eapply IH; eassumption.
Qed.

Lemma unexpand_forall (P : str -> Prop) g ls : Forall P ls -> Forall P (unexpand g ls).
Proof.
  intro H. apply Forall_forall. intros l I. apply (proj1 (Forall_forall P ls) H). eapply unexpand_in; eassumption.
Qed.

Lemma lines_of_unexpand_text text : lines_of (unexpand_text text) = unexpand GNone (lines_of text).
Proof. unfold unexpand_text. apply lines_of_unlines, unexpand_forall, lines_of_no_nl. Qed.

(* ---------- a table that was never expanded is read as it is *)

Lemma step_plain l : opens_type_block l = false -> unexpand_step GNone l = (true, GNone).
Proof.
  unfold opens_type_block, unexpand_step. destruct (blank_or_comment l); [reflexivity|]. cbn [negb andb].
  intro H. apply orb_false_iff in H. destruct H as [H1 H2]. rewrite H1, H2. reflexivity.
Qed.

Lemma unexpand_plain_app pre rest :
  forallb (fun l => negb (opens_type_block l)) pre = true -> unexpand GNone (pre ++ rest) = pre ++ unexpand GNone rest.
Proof.
  induction pre as [|l pre IH]; [reflexivity|]. cbn [forallb app]. intro H. apply andb_true_iff in H. destruct H as [H1 H2].
  rewrite unexpand_unfold, (step_plain l) by (now apply negb_true_iff). cbn [fst snd]. now rewrite IH.
Qed.

Lemma unexpand_plain ls :
  forallb (fun l => negb (opens_type_block l)) ls = true -> unexpand GNone ls = ls.
Proof.
  intro H. pose proof (unexpand_plain_app ls [] H) as Q. cbn [unexpand] in Q. rewrite !app_nil_r in Q. exact Q.
Qed.

(* ---------- what is dropped of a block an expansion wrote: the if line, the old pins, the else line, the closing
   brace - and nothing else *)

(* a command line among the old pins: neither blank nor comment, not the else line, not a lone right brace *)
Definition pin_like (l : str) : Prop :=
  blank_or_comment l = false /\ seq_full p_else (before_hash l) = false /\ seq_full p_close (before_hash l) = false.

(* a line among the guarded setups: a blank line, a comment, or a command that is not a lone right brace *)
Definition guarded_like (l : str) : Prop :=
  blank_or_comment l = true \/ seq_full p_close (before_hash l) = false.

Definition is_line (p : list str) (l : str) : Prop := blank_or_comment l = false /\ seq_full p (before_hash l) = true.

Lemma unexpand_pins pins rest : Forall pin_like pins -> unexpand GPins (pins ++ rest) = unexpand GPins rest.
Proof.
  induction 1 as [|l pins [B [E C]] _ IH]; [reflexivity|]. cbn [app]. rewrite unexpand_unfold.
  unfold unexpand_step. rewrite B, E, C. cbn [fst snd]. exact IH.
Qed.

Lemma unexpand_guarded body rest :
  Forall guarded_like body -> unexpand GSetups (body ++ rest) = body ++ unexpand GSetups rest.
Proof.
  induction 1 as [|l body G _ IH]; [reflexivity|]. cbn [app]. rewrite unexpand_unfold. unfold unexpand_step.
  destruct (blank_or_comment l) eqn:B; cbn [fst snd]; [now rewrite IH|].
  destruct G as [G|G]; [congruence|]. rewrite G. cbn [fst snd]. now rewrite IH.
Qed.

Lemma step_if_exact l : is_line p_if_exact l -> unexpand_step GNone l = (false, GPins).
Proof. intros [B M]. unfold unexpand_step. rewrite B, M. reflexivity. Qed.

Lemma step_else l : is_line p_else l -> unexpand_step GPins l = (false, GSetups).
Proof. intros [B M]. unfold unexpand_step. rewrite B, M. reflexivity. Qed.

Lemma step_close l : is_line p_close l -> unexpand_step GSetups l = (false, GNone).
Proof. intros [B M]. unfold unexpand_step. rewrite B, M. reflexivity. Qed.

Lemma step_if_not_exact l :
  is_line p_if_not_exact l -> seq_full p_if_exact (before_hash l) = false -> unexpand_step GNone l = (false, GSetups).
Proof. intros [B M] N. unfold unexpand_step. rewrite B, N, M. reflexivity. Qed.

Lemma unexpand_exact_block pre ifl pins elsel body closel post :
  forallb (fun l => negb (opens_type_block l)) pre = true ->
  is_line p_if_exact ifl -> Forall pin_like pins -> is_line p_else elsel ->
  Forall guarded_like body -> is_line p_close closel ->
  unexpand GNone (pre ++ ifl :: pins ++ elsel :: body ++ closel :: post) = pre ++ body ++ unexpand GNone post.
Proof.
  intros Hpre Hif Hpins Helse Hbody Hclose.
  rewrite unexpand_plain_app by assumption. f_equal.
  rewrite unexpand_unfold, (step_if_exact _ Hif). cbn [fst snd].
  rewrite unexpand_pins by assumption.
  rewrite unexpand_unfold, (step_else _ Helse). cbn [fst snd].
  rewrite unexpand_guarded by assumption. f_equal.
  rewrite unexpand_unfold, (step_close _ Hclose). reflexivity.
Qed.

Lemma unexpand_not_exact_block pre ifl body closel post :
  forallb (fun l => negb (opens_type_block l)) pre = true ->
  is_line p_if_not_exact ifl -> seq_full p_if_exact (before_hash ifl) = false ->
  Forall guarded_like body -> is_line p_close closel ->
  unexpand GNone (pre ++ ifl :: body ++ closel :: post) = pre ++ body ++ unexpand GNone post.
Proof.
  intros Hpre Hif Hn Hbody Hclose.
  rewrite unexpand_plain_app by assumption. f_equal.
  rewrite unexpand_unfold, (step_if_not_exact _ Hif Hn). cbn [fst snd].
  rewrite unexpand_guarded by assumption. f_equal.
  rewrite unexpand_unfold, (step_close _ Hclose). reflexivity.
Qed.
