(* Lemmas about Model/Setup.v needed by C17: what Eups.setup does with a table whose setup actions
   all carry -j and whose decisions are the explicit versions (the exact reading of an expanded table). *)
From Eupsv Require Import Base.Base Base.BaseLemmas Model.PathAlg Model.Setup Model.Expand Proofs.PathAlg Proofs.Expand.
From Coq Require Import Lia.

Definition is_setup_var (k : str) : bool := starts_with (lit "SETUP_") k.

Lemma setup_var_is n : is_setup_var (setup_var n) = true.
Proof. unfold is_setup_var, setup_var. apply starts_with_refl. Qed.

(* two environments that agree on every SETUP_ variable *)
Definition sv_eq (e1 e2 : amap str) : Prop := forall k, is_setup_var k = true -> alookup k e1 = alookup k e2.

Lemma sv_eq_refl e : sv_eq e e.
Proof. intros k _. reflexivity. Qed.
Lemma sv_eq_trans a b c : sv_eq a b -> sv_eq b c -> sv_eq a c.
Proof. intros H1 H2 k Hk. now rewrite H1, H2. Qed.

Lemma sv_eq_aset_other k x e : is_setup_var k = false -> sv_eq (aset k x e) e.
Proof. intros Hk k' Hk'. apply alookup_aset_other. intro E. subst. congruence. Qed.
Lemma sv_eq_aremove_other k e : is_setup_var k = false -> sv_eq (aremove k e) e.
Proof. intros Hk k' Hk'. apply alookup_aremove_other. intro E. subst. congruence. Qed.
Lemma sv_eq_aset k x e1 e2 : sv_eq e1 e2 -> sv_eq (aset k x e1) (aset k x e2).
Proof.
  intros H k' Hk'. destruct (str_eq_dec k' k) as [->|N].
  - now rewrite !alookup_aset_same.
  - rewrite !alookup_aset_other by assumption. now apply H.
Qed.

(* a table command that touches no SETUP_ variable, and that cannot fail *)
Definition benign (a : action) : Prop :=
  match a with
  | APath _ var _ _ => is_setup_var var = false
  | ASet var _ => is_setup_var var = false
  | AUnset var => is_setup_var var = false
  | _ => True
  end.
Definition succeeds (a : action) : Prop := forall st, exists st', exec_simple true a st = Ok st'.
(* the actions of a product that is set up with -j: its own setup lines are not followed *)
Definition quiet_action (a : action) : Prop :=
  match a with ASetup _ _ _ => True | _ => benign a /\ succeeds a end.
(* the meaning of a line that is not a setup command *)
Definition simple_action (a : action) : Prop :=
  match a with ASetup _ _ _ => False | _ => benign a /\ succeeds a end.

Lemma env_prepend_frame ap fwd var v d e e' :
  env_prepend ap fwd var v d e = Ok (Some e') -> exists x, e' = aset var x e.
Proof.
  unfold env_prepend. destruct (strip_lead d v) as [pre v1]. destruct (strip_trail d v1) as [app v2].
  match goal with |- bind ?X _ = _ -> _ => destruct X as [[v3|]|] end; simpl; intro H; inversion H.
  eexists; reflexivity.
Qed.

Lemma env_set_frame k v e e' : env_set true k v e = Ok (Some e') -> exists x, e' = aset k x e.
Proof.
  unfold env_set. destruct (expand_var e v) as [[[|c r]|]|]; simpl; intro H; inversion H.
  eexists; reflexivity.
Qed.

Lemma exec_simple_sv a st st' : benign a -> exec_simple true a st = Ok st' -> sv_eq (s_env st') (s_env st).
Proof.
  destruct a; cbn [exec_simple benign]; intros B H.
  - inversion H; subst. apply sv_eq_refl.
  - destruct (env_prepend append true var value d (s_env st)) as [[e'|]|] eqn:P; inversion H; subst; [|apply sv_eq_refl].
    apply env_prepend_frame in P. destruct P as [x ->]. simpl. now apply sv_eq_aset_other.
  - destruct (env_set true var value (s_env st)) as [[e'|]|] eqn:P; inversion H; subst; [|apply sv_eq_refl].
    apply env_set_frame in P. destruct P as [x ->]. simpl. now apply sv_eq_aset_other.
  - inversion H; subst. simpl. now apply sv_eq_aremove_other.
  - inversion H; subst. apply sv_eq_refl.
  - inversion H; subst. apply sv_eq_refl.
Qed.

Lemma with_env_self st : with_env st (s_env st) = st.
Proof. now destruct st. Qed.

Lemma setup_var_inj n m : setup_var n = setup_var m -> upper_str n = upper_str m.
Proof. unfold setup_var. apply app_inv_head. Qed.

(* a product whose directory variable is not itself a SETUP_ variable *)
Definition sane (n : str) : Prop := is_setup_var (dir_var n) = false.

Section Replay.
Variables (w : world) (cfg : config).
Hypothesis Hmd : c_max_depth cfg = None.          (* no --max-depth *)

Lemma setup_S f : setup w cfg (S f) = setup_step w cfg (setup w cfg f).
Proof. reflexivity. Qed.

Lemma cut_off_plain just d : cut_off cfg just d = just.
Proof. unfold cut_off. rewrite Hmd. apply orb_false_r. Qed.

(* a product set up with -j: only its own commands run *)
Lemma run_just rec depth : forall acts st ds, Forall quiet_action acts ->
  exists st', run_actions cfg rec true depth true acts st ds = RDone true st' ds /\ sv_eq (s_env st') (s_env st).
Proof.
  induction acts as [|a acts IH]; intros st ds Q.
  - exists st. split; [reflexivity|apply sv_eq_refl].
  - inversion Q as [|? ? Qa Qr]; subst.
    assert (S : forall a', a' = a -> (benign a /\ succeeds a) ->
                (match exec_simple true a' st with
                 | Ok st' => run_actions cfg rec true depth true acts st' ds
                 | Err _ => RRaise st ds
                 end) = run_actions cfg rec true depth true (a :: acts) st ds ->
                exists st', run_actions cfg rec true depth true (a :: acts) st ds = RDone true st' ds /\
                            sv_eq (s_env st') (s_env st)).
    { intros a' -> [B Sx] Hrun. destruct (Sx st) as [st1 E1]. rewrite E1 in Hrun.
      destruct (IH st1 ds Qr) as [st' [R V]]. exists st'. split; [now rewrite <- Hrun|].
      eapply sv_eq_trans; [exact V|]. eapply exec_simple_sv; eauto. }
    destruct a; try (apply (S _ eq_refl Qa); reflexivity).
    cbn [run_actions]. rewrite cut_off_plain. apply IH. assumption.
Qed.

(* the other lines of the table *)
Lemma run_simple rec depth just : forall l r st ds, Forall simple_action l ->
  exists st', run_actions cfg rec true depth just (l ++ r) st ds = run_actions cfg rec true depth just r st' ds /\
              sv_eq (s_env st') (s_env st).
Proof.
  induction l as [|a l IH]; intros r st ds Q.
  - exists st. split; [reflexivity|apply sv_eq_refl].
  - inversion Q as [|? ? Qa Qr]; subst.
    assert (S : forall a', a' = a -> (benign a /\ succeeds a) ->
                (match exec_simple true a' st with
                 | Ok st' => run_actions cfg rec true depth just (l ++ r) st' ds
                 | Err _ => RRaise st ds
                 end) = run_actions cfg rec true depth just ((a :: l) ++ r) st ds ->
                exists st', run_actions cfg rec true depth just ((a :: l) ++ r) st ds =
                            run_actions cfg rec true depth just r st' ds /\ sv_eq (s_env st') (s_env st)).
    { intros a' -> [B Sx] Hrun. destruct (Sx st) as [st1 E1]. rewrite E1 in Hrun.
      destruct (IH r st1 ds Qr) as [st' [R V]]. exists st'. split; [now rewrite <- Hrun|].
      eapply sv_eq_trans; [exact V|]. eapply exec_simple_sv; eauto. }
    destruct a; try (apply (S _ eq_refl Qa); reflexivity). contradiction.
Qed.

Lemma not_set_up st n : alookup (setup_var n) (s_env st) = None -> find_setup_product w (s_env st) n = None.
Proof. unfold find_setup_product. now intros ->. Qed.

Lemma product_vars_sv st n p :
  sane n -> sv_eq (s_env (set_product_vars cfg st n p))
                  (aset (setup_var n) (setup_string cfg n (p_version p)) (s_env st)).
Proof.
  intro Sn. unfold set_product_vars, set_env. simpl. apply sv_eq_aset. now apply sv_eq_aset_other.
Qed.

(* one line of the exact block *)
Lemma pin_step f n v p st ds :
  find_pv w n v = Some p -> Forall quiet_action (p_actions p) -> sane n ->
  alookup (setup_var n) (s_env st) = None ->
  exists st', setup w cfg (S f) st (Some v :: ds) n true 1 true = RDone true st' ds /\
              sv_eq (s_env st') (aset (setup_var n) (setup_string cfg n v) (s_env st)).
Proof.
  intros F Q Sn Fr. cbn [setup]. unfold setup_step. rewrite F, (not_set_up st n Fr). cbn [same_product andb].
  destruct (run_just (setup w cfg f) 1 (p_actions p) (set_product_vars cfg st n p) ds Q) as [st' [R V]].
  exists st'. split; [exact R|]. eapply sv_eq_trans; [exact V|].
  apply find_pv_some in F. destruct F as [_ <-]. now apply product_vars_sv.
Qed.

Fixpoint set_pins (l : list nvo) (e : amap str) : amap str :=
  match l with
  | [] => e
  | x :: l' => set_pins l' (aset (setup_var (fst (fst x))) (setup_string cfg (fst (fst x)) (snd (fst x))) e)
  end.

Lemma set_pins_sv l : forall e1 e2, sv_eq e1 e2 -> sv_eq (set_pins l e1) (set_pins l e2).
Proof. induction l as [|x l IH]; intros e1 e2 H; [assumption|]. simpl. apply IH. now apply sv_eq_aset. Qed.

Lemma set_pins_out l : forall e k, (forall x, In x l -> setup_var (fst (fst x)) <> k) ->
  alookup k (set_pins l e) = alookup k e.
Proof.
  induction l as [|x l IH]; intros e k H; [reflexivity|]. simpl. rewrite IH by (intros y I; apply H; now right).
  apply alookup_aset_other. intro E. apply (H x); [now left|now symmetry].
Qed.

Definition pin_name (x : nvo) : str := fst (fst x).

Lemma set_pins_in l : forall e n v o, NoDup (map (fun x => upper_str (pin_name x)) l) -> In (n, v, o) l ->
  alookup (setup_var n) (set_pins l e) = Some (setup_string cfg n v).
Proof.
  induction l as [|x l IH]; intros e n v o ND I; [contradiction|]. simpl in ND. inversion ND as [|? ? Nx NDl]; subst.
  destruct I as [->|I].
  - simpl. rewrite set_pins_out; [apply alookup_aset_same|].
    intros y Iy E. apply Nx. apply setup_var_inj in E.
    apply in_map_iff. exists y. split; [exact E|assumption].
  - simpl. eapply IH; eauto.
Qed.

Definition pin_decisions (l : list nvo) : list decision := map (fun p => Some (snd (fst p))) l.

(* the exact reading of an expanded table, run by Eups.setup with the explicit versions as decisions *)
Lemma run_exact f interp : (forall t, Forall simple_action (interp t)) ->
  forall V tail st ds,
    (forall n v o, In (n, v, o) (pins_of V) ->
                   exists p, find_pv w n v = Some p /\ Forall quiet_action (p_actions p)) ->
    (forall x, In x (pins_of V) -> sane (pin_name x)) ->
    NoDup (map (fun x => upper_str (pin_name x)) (pins_of V)) ->
    (forall x, In x (pins_of V) -> alookup (setup_var (pin_name x)) (s_env st) = None) ->
    exists st',
      run_actions cfg (setup w cfg (S f)) true 0 false (exact_actions interp V ++ tail) st
                  (pin_decisions (pins_of V) ++ ds)
      = run_actions cfg (setup w cfg (S f)) true 0 false tail st' ds /\
      sv_eq (s_env st') (set_pins (pins_of V) (s_env st)).
Proof.
  intros Hi. induction V as [|l V IH]; intros tail st ds Hd Hs ND Fr.
  - exists st. split; [reflexivity|apply sv_eq_refl].
  - destruct l; try (now apply IH).
    + (* another line *)
      cbn [exact_actions pins_of] in *. rewrite <- app_assoc.
      destruct (run_simple (setup w cfg (S f)) 0 false (interp t) (exact_actions interp V ++ tail) st
                           (pin_decisions (pins_of V) ++ ds) (Hi t)) as [st1 [R1 V1]].
      destruct (IH tail st1 ds Hd Hs ND) as [st' [R V']].
      { intros x I. rewrite V1 by apply setup_var_is. now apply Fr. }
      exists st'. split; [now rewrite R1|]. eapply sv_eq_trans; [exact V'|]. now apply set_pins_sv.
    + (* a pin *)
      change (exact_actions interp (OPin optional name version :: V) ++ tail)
        with (ASetup optional name true :: (exact_actions interp V ++ tail)).
      change (pin_decisions (pins_of (OPin optional name version :: V)) ++ ds)
        with (Some version :: (pin_decisions (pins_of V) ++ ds)).
      change (pins_of (OPin optional name version :: V)) with ((name, version, optional) :: pins_of V) in *.
      destruct (Hd name version optional (or_introl eq_refl)) as [p [Fp Qp]].
      assert (Sn : sane name) by (apply (Hs (name, version, optional)); now left).
      assert (Fn : alookup (setup_var name) (s_env st) = None) by (apply (Fr (name, version, optional)); now left).
      destruct (pin_step f name version p st (pin_decisions (pins_of V) ++ ds) Fp Qp Sn Fn) as [st1 [R1 V1]].
      inversion ND as [|? ? Nx NDl]; subst.
      destruct (IH tail st1 ds) as [st' [R V']].
      { intros n v o I. apply (Hd n v o). now right. }
      { intros x I. apply Hs. now right. }
      { assumption. }
      { intros x I. rewrite V1 by apply setup_var_is. rewrite alookup_aset_other.
        - apply Fr. now right.
        - intro E. apply Nx. apply setup_var_inj in E.
          apply in_map_iff. exists x. split; [exact E|assumption]. }
      exists st'. split.
      * cbn [run_actions]. rewrite cut_off_plain, R1. exact R.
      * eapply sv_eq_trans; [exact V'|]. simpl. now apply set_pins_sv.
    + (* a line naming eups: as another line *)
      cbn [exact_actions pins_of] in *. rewrite <- app_assoc.
      destruct (run_simple (setup w cfg (S f)) 0 false (interp t) (exact_actions interp V ++ tail) st
                           (pin_decisions (pins_of V) ++ ds) (Hi t)) as [st1 [R1 V1]].
      destruct (IH tail st1 ds Hd Hs ND) as [st' [R V']].
      { intros x I. rewrite V1 by apply setup_var_is. now apply Fr. }
      exists st'. split; [now rewrite R1|]. eapply sv_eq_trans; [exact V'|]. now apply set_pins_sv.
Qed.

(* optional dependencies that no longer resolve (the implicit product at the end of every table) *)
Definition absent_action (n : str) : action := ASetup true n false.

Lemma run_absent f : forall absent st,
  run_actions cfg (setup w cfg (S f)) true 0 false (map absent_action absent) st (map (fun _ => None) absent)
  = RDone true st [].
Proof.
  induction absent as [|n absent IH]; intro st; [reflexivity|].
  cbn [map absent_action run_actions]. rewrite cut_off_plain. cbn [setup]. unfold setup_step at 1.
  cbn [andb negb]. apply IH.
Qed.

(* the whole replay *)
Lemma replay f interp V absent top topv ptop st0 :
  (forall t, Forall simple_action (interp t)) ->
  find_pv w top topv = Some ptop ->
  p_actions ptop = exact_actions interp V ++ map absent_action absent ->
  (forall n v o, In (n, v, o) (pins_of V) -> exists p, find_pv w n v = Some p /\ Forall quiet_action (p_actions p)) ->
  sane top -> (forall x, In x (pins_of V) -> sane (pin_name x)) ->
  NoDup (upper_str top :: map (fun x => upper_str (pin_name x)) (pins_of V)) ->
  alookup (setup_var top) (s_env st0) = None ->
  (forall x, In x (pins_of V) -> alookup (setup_var (pin_name x)) (s_env st0) = None) ->
  exists st',
    setup w cfg (S (S f)) st0 (forced_decisions topv (pins_of V) absent) top true 0 false = RDone true st' [] /\
    sv_eq (s_env st') (set_pins (pins_of V) (aset (setup_var top) (setup_string cfg top topv) (s_env st0))).
Proof.
  intros Hi Ft Ha Hd St Hs ND Fr0 Fr.
  inversion ND as [|? ? Nt NDl]; subst.
  rewrite (setup_S (S f)). unfold setup_step at 1. unfold forced_decisions. rewrite Ft, (not_set_up st0 top Fr0).
  cbn [same_product andb]. rewrite Ha.
  destruct (run_exact f interp Hi V (map absent_action absent) (set_product_vars cfg st0 top ptop)
                      (map (fun _ => None) absent) Hd Hs NDl) as [st' [R V']].
  { intros x I. rewrite (product_vars_sv st0 top ptop St) by apply setup_var_is.
    rewrite alookup_aset_other; [now apply Fr|].
    intro E. apply Nt. apply setup_var_inj in E. apply in_map_iff. exists x. split; [exact E|assumption]. }
  exists st'. split.
  - etransitivity; [exact R|apply run_absent].
  - eapply sv_eq_trans; [exact V'|]. apply set_pins_sv.
    apply find_pv_some in Ft. destruct Ft as [_ <-]. now apply product_vars_sv.
Qed.

End Replay.

(* ------------------------------------------------------------ expansion and replay composed *)

Lemma in_pins_of n v o : forall l, In (n, v, o) (pins_of l) -> In (OPin o n v) l.
Proof.
  induction l as [|x l IH]; intro I; [contradiction|]. destruct x; simpl in I; try (right; now apply IH).
  destruct I as [E|I]; [inversion E; subst; now left|right; now apply IH].
Qed.

Lemma setup_var_upper n m : upper_str n = upper_str m -> setup_var n = setup_var m.
Proof. unfold setup_var. now intros ->. Qed.

Lemma replay_records jf sf cf w e top plist force rd ls out w' cfg interp ptop topv absent fuel st0 :
  expand_gen jf sf cf w e top plist force rd ls = Ok out ->
  c_max_depth cfg = None ->
  find_pv w' top topv = Some ptop ->
  p_actions ptop = exact_actions interp (exact_view out) ++ map absent_action absent ->
  (forall t, Forall simple_action (interp t)) ->
  (forall n v o, In (n, v, o) (pins_of out) ->
     exists p, find_pv w' n v = Some p /\ Forall quiet_action (p_actions p)) ->
  sane top -> (forall x, In x (pins_of out) -> sane (pin_name x)) ->
  NoDup (upper_str top :: map (fun x => upper_str (pin_name x)) (pins_of out)) ->
  alookup (setup_var top) (s_env st0) = None ->
  (forall x, In x (pins_of out) -> alookup (setup_var (pin_name x)) (s_env st0) = None) ->
  2 <= fuel ->
  exists st',
    setup w' cfg fuel st0 (forced_decisions topv (pins_of out) absent) top true 0 false = RDone true st' [] /\
    alookup (setup_var top) (s_env st') = Some (setup_string cfg top topv) /\
    (forall n v o, In (n, v, o) (pins_of out) ->
       alookup (setup_var n) (s_env st') = Some (setup_string cfg n v) /\
       (recorded e n v \/ alookup n plist = Some v)) /\
    (forall m, upper_str m <> upper_str top ->
       (forall x, In x (pins_of out) -> upper_str (pin_name x) <> upper_str m) ->
       alookup (setup_var m) (s_env st') = alookup (setup_var m) (s_env st0)).
Proof.
  intros E Hmd Ft Ha Hi Hd St Hs ND Fr0 Fr Hf.
  destruct fuel as [|[|f]]; try lia.
  pose proof (exact_view_pins jf sf cf w e top plist force rd ls out E) as PV. fold (exact_view out) in PV.
  pose proof (replay w' cfg Hmd f interp (exact_view out) absent top topv ptop st0) as RP.
  rewrite PV in RP. destruct (RP Hi Ft Ha Hd St Hs ND Fr0 Fr) as [st' [R V']]. clear RP.
  inversion ND as [|? ? Nt NDl]; subst.
  assert (Out : forall x, In x (pins_of out) -> setup_var (pin_name x) <> setup_var top).
  { intros x I Ex. apply Nt. apply setup_var_inj in Ex. rewrite <- Ex.
    apply in_map_iff. exists x. split; [reflexivity|assumption]. }
  exists st'. split; [exact R|]. split; [|split].
  - rewrite V' by apply setup_var_is. rewrite set_pins_out by exact Out. apply alookup_aset_same.
  - intros n v o I. split.
    + rewrite V' by apply setup_var_is. eapply set_pins_in; eauto.
    + eapply pins_sound; [exact E|]. eapply in_pins_of. exact I.
  - intros m Nm Np. rewrite V' by apply setup_var_is. rewrite set_pins_out.
    + apply alookup_aset_other. intro Ex. apply Nm. now apply setup_var_inj.
    + intros x I Ex. apply (Np x I). now apply setup_var_inj.
Qed.

Lemma reproduces jf sf cf w e top force rd ls out w' cfg interp ptop topv absent fuel st0 :
  expand_gen jf sf cf w e top [] force rd ls = Ok out ->
  (forall n v, recorded e n v -> upper_str n <> upper_str top ->
     exists x, In x (pins_of out) /\ upper_str (pin_name x) = upper_str n /\ snd (fst x) = v) ->
  c_max_depth cfg = None ->
  find_pv w' top topv = Some ptop ->
  p_actions ptop = exact_actions interp (exact_view out) ++ map absent_action absent ->
  (forall t, Forall simple_action (interp t)) ->
  (forall n v o, In (n, v, o) (pins_of out) ->
     exists p, find_pv w' n v = Some p /\ Forall quiet_action (p_actions p)) ->
  sane top -> (forall x, In x (pins_of out) -> sane (pin_name x)) ->
  NoDup (upper_str top :: map (fun x => upper_str (pin_name x)) (pins_of out)) ->
  (forall m, alookup (setup_var m) (s_env st0) = None) ->
  2 <= fuel ->
  exists st',
    setup w' cfg fuel st0 (forced_decisions topv (pins_of out) absent) top true 0 false = RDone true st' [] /\
    alookup (setup_var top) (s_env st') = Some (setup_string cfg top topv) /\
    (forall n v, recorded e n v -> upper_str n <> upper_str top ->
       exists n', upper_str n' = upper_str n /\
                  alookup (setup_var n) (s_env st') = Some (setup_string cfg n' v)) /\
    (forall m, alookup (setup_var m) (s_env st') <> None -> upper_str m <> upper_str top ->
       exists n v, setup_var n = setup_var m /\ recorded e n v /\
                   alookup (setup_var m) (s_env st') = Some (setup_string cfg n v)).
Proof.
  intros E Cov Hmd Ft Ha Hi Hd St Hs ND Fr Hf.
  destruct (replay_records jf sf cf w e top [] force rd ls out w' cfg interp ptop topv absent fuel st0
              E Hmd Ft Ha Hi Hd St Hs ND (Fr top) (fun x _ => Fr (pin_name x)) Hf) as [st' [R [Rt [Rp Ro]]]].
  exists st'. split; [exact R|]. split; [exact Rt|]. split.
  - intros n v Rn Nn. destruct (Cov n v Rn Nn) as [[[xn xv] xo] [Ix [Ux Vx]]]. simpl in Ux, Vx. subst xv.
    exists xn. split; [exact Ux|]. rewrite <- (setup_var_upper xn n Ux). apply (Rp xn v xo Ix).
  - intros m Hm Nm.
    destruct (in_dec str_eq_dec (upper_str m) (map (fun x => upper_str (pin_name x)) (pins_of out))) as [I|N].
    + apply in_map_iff in I. destruct I as [[[xn xv] xo] [Ux Ix]]. simpl in Ux.
      destruct (Rp xn xv xo Ix) as [L S]. exists xn, xv. split; [now apply setup_var_upper|].
      split; [destruct S as [S|S]; [exact S|discriminate]|].
      now rewrite <- (setup_var_upper xn m Ux).
    + exfalso. apply Hm. rewrite Ro; [apply Fr|exact Nm|].
      intros x Ix Ex. apply N. apply in_map_iff. exists x. split; assumption.
Qed.

(* ------------------------------------------------------------ helpers for concrete instances *)

Lemma aset_literal_ok k v :
  is_setup_var k = false -> mem_ascii c_dollar v = false -> benign (ASet k v) /\ succeeds (ASet k v).
Proof.
  intros Hk Hv. split; [exact Hk|]. intro st. cbn [exec_simple]. unfold env_set. rewrite (expand_nodollar _ v Hv).
  cbn [bind]. destruct v; eexists; reflexivity.
Qed.

Lemma aalias_ok k v : benign (AAlias k v) /\ succeeds (AAlias k v).
Proof. split; [exact I|]. intro st. eexists; reflexivity. Qed.

Lemma alookup_In {V} k (m : amap V) v : alookup k m = Some v -> In (k, v) m.
Proof.
  induction m as [|[k' v'] m IH]; simpl; [discriminate|]. destruct (str_eqb k k') eqn:E.
  - apply str_eqb_eq in E. subst. intro H; inversion H; subst. now left.
  - intro H. right. now apply IH.
Qed.

Lemma recorded_in e n v : recorded e n v -> exists val, In (setup_var n, val) e /\ recorded_version val = Some v.
Proof.
  unfold recorded, setup_version. destruct (alookup (setup_var n) e) as [val|] eqn:A; [|discriminate].
  intro R. exists val. split; [now apply alookup_In|exact R].
Qed.

(* ------------------------------------------------------------ the environment the expansion reads *)

(* a dependency whose setup fails - the product was found, its SETUP_ variable recorded (set_product_vars), and a
   later line of its table could not be executed - leaves no trace when it is optional: the loop over the actions
   goes on from the state it had before the dependency was started, whatever state the failed call returned *)
Lemma failed_optional_rolled_back cfg rec depth just nm jst acts st ds st1 ds1 :
  cut_off cfg just (S depth) = false ->
  rec st ds nm true (S depth) jst = RDone false st1 ds1 \/ rec st ds nm true (S depth) jst = RRaise st1 ds1 ->
  run_actions cfg rec true depth just (ASetup true nm jst :: acts) st ds
  = run_actions cfg rec true depth just acts st ds1.
Proof.
  intros C R. cbn [run_actions]. rewrite C. destruct R as [-> | ->]; reflexivity.
Qed.

(* a required one makes the enclosing table fail with the state that table had reached before the dependency *)
Lemma failed_required_raises cfg rec depth just nm jst acts st ds st1 ds1 :
  cut_off cfg just (S depth) = false ->
  rec st ds nm true (S depth) jst = RDone false st1 ds1 \/ rec st ds nm true (S depth) jst = RRaise st1 ds1 ->
  run_actions cfg rec true depth just (ASetup false nm jst :: acts) st ds = RRaise st ds1.
Proof.
  intros C R. cbn [run_actions]. rewrite C. destruct R as [-> | ->]; reflexivity.
Qed.

(* no pin for a product that has no SETUP_ variable *)
Lemma pins_need_a_record jf sf cf w e top plist force rd ls out o n v :
  expand_gen jf sf cf w e top plist force rd ls = Ok out -> In (OPin o n v) out ->
  alookup (setup_var n) e = None -> alookup n plist = Some v.
Proof.
  intros E I N. destruct (pins_sound jf sf cf w e top plist force rd ls out o n v E I) as [R|P]; [|exact P].
  unfold recorded, setup_version in R. rewrite N in R. discriminate R.
Qed.
