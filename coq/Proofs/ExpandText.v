(* C17, level A - the composition expand_text = print . expand . classify:
   - the written lines are, indentation aside, the renderings of what Model/Expand.v expand_gen returns for the
     classified lines (text_factors);
   - what the classification guarantees about the lines it lets through (classified_ok);
   - reading the written text back (tview, tpins) gives the renderings of the two views of Model/Expand.v;
   - the clauses of the property on TEXT. *)
From Coq Require Import Lia.
From Eupsv Require Import Base.Base Base.BaseLemmas Model.Rx Proofs.RxLib Model.PathAlg Model.Setup Model.Expand Model.ExpandText.
From Eupsv Require Import Proofs.Expand Proofs.ExpandTextLib.

(* ---------------------------------------------------------------- the levels do not change the lines *)

Lemma map_snd_at_level lvl l : map snd (at_level lvl l) = l.
Proof. unfold at_level. rewrite map_map. cbn. apply map_id. Qed.

Lemma emit_levels pins : forall bs lvl, map snd (emit_z lvl pins bs) = emit lvl pins bs.
Proof.
  induction bs as [|[f b] bs IH]; intro lvl; [reflexivity|]. destruct f; cbn [emit_z emit].
  - destruct (existsb fst bs).
    + cbn [map snd]. rewrite map_app, map_snd_at_level. cbn [map snd]. now rewrite IH.
    + cbn [map snd]. rewrite map_app, map_snd_at_level. cbn [map snd]. rewrite map_app, map_snd_at_level.
      cbn [map snd]. now rewrite IH.
  - destruct (block_levels lvl b) as [l1 l2] eqn:L. cbn [snd]. rewrite map_app, IH. f_equal.
    destruct (map out_bline b) as [|x r]; [reflexivity|]. cbn [map snd]. now rewrite map_snd_at_level.
Qed.

Lemma layout_lines jf sf cf w e top plist force rd ls lay :
  expand_layout jf sf cf w e top plist force rd ls = Ok lay ->
  expand_gen jf sf cf w e top plist force rd ls = Ok (map snd lay).
Proof.
  unfold expand_layout, expand_gen.
  destruct (collect jf sf cf w e top plist force rd _ _) as [a|x]; [|discriminate].
  intro H. inversion H; subst. now rewrite map_app, emit_levels, map_snd_at_level.
Qed.

(* ---------------------------------------------------------------- properties that hold of every written line *)

Lemma in_setup_body lvl b x : In x (setup_body lvl b) -> In x b.
Proof.
  assert (D : forall l, In x (drop_last_blank l) -> In x l).
  { induction l as [|y l IH]; [simpl; tauto|]. destruct y; cbn [drop_last_blank]; try (intros [E|I]; [now left|right; auto]).
    destruct l; [simpl; tauto|]. intros [E|I]; [now left|right; auto]. }
  unfold setup_body, body_lines. destruct (0 <? lvl + 1)%Z; intro I; [apply D in I|]; apply filter_In in I; tauto.
Qed.

Lemma emit_forall (P : oline -> Prop) pins :
  P OIfExact -> P OIfNotExact -> P OElse -> P OClose -> Forall P pins ->
  forall bs lvl, (forall f b x, In (f, b) bs -> In x b -> P (out_bline x)) -> Forall P (emit lvl pins bs).
Proof.
  intros P1 P2 P3 P4 Pp. induction bs as [|[f b] bs IH]; intros lvl H; [constructor|].
  assert (Hb : forall l, (forall x, In x l -> In x b) -> Forall P (map out_bline l)).
  { intros l Hl. apply Forall_forall. intros o I. apply in_map_iff in I. destruct I as [x [<- I]].
    apply (H f b); [now left|auto]. }
  assert (Hr : forall lvl', Forall P (emit lvl' pins bs)).
  { intro lvl'. apply IH. intros f' b' x I. apply (H f' b' x). now right. }
  destruct f; cbn [emit].
  - destruct (existsb fst bs).
    + constructor; [assumption|]. apply Forall_app. split; [apply Hb; intros x; apply in_setup_body|].
      constructor; [assumption|apply Hr].
    + constructor; [assumption|]. apply Forall_app. split; [assumption|]. constructor; [assumption|].
      apply Forall_app. split; [apply Hb; intros x; apply in_setup_body|]. constructor; [assumption|apply Hr].
  - apply Forall_app. split; [apply Hb; auto|apply Hr].
Qed.

Lemma in_blocks x f b : forall ls g cur, In (f, b) (blocks g cur ls) -> In x b -> In x (rev cur ++ ls).
Proof.
  intros ls g cur Hb Ix. rewrite <- blocks_concat with (f := g). apply in_concat. exists b. split; [|assumption].
  apply in_map_iff. exists (f, b). split; [reflexivity|assumption].
Qed.

Lemma in_eups_lines t : forall bl, In t (eups_lines bl) -> In (BEups t) bl.
Proof.
  induction bl as [|b bl IH]; [simpl; tauto|]. destruct b; cbn [eups_lines]; try (intro J; right; now apply IH).
  intros [E|J]; [left; now subst|right; auto].
Qed.

(* every line expand_gen returns satisfies P when the markers, the pins and the lines of the input do *)
Lemma expand_forall (P : oline -> Prop) jf sf cf w e top plist force rd ls out :
  P OIfExact -> P OIfNotExact -> P OElse -> P OClose -> (forall o n v, P (OPin o n v)) ->
  (forall l, In l ls -> P (out_bline (rewrite_line w e plist l))) ->
  expand_gen jf sf cf w e top plist force rd ls = Ok out -> Forall P out.
Proof.
  intros P1 P2 P3 P4 Pp Hl E. unfold expand_gen in E.
  destruct (collect jf sf cf w e top plist force rd _ _) as [a|x]; [|discriminate]. inversion E; subst. clear E.
  assert (Hb : forall x, In x (map (rewrite_line w e plist) ls) -> P (out_bline x)).
  { intros x I. apply in_map_iff in I. destruct I as [l [<- I]]. auto. }
  apply Forall_app. split.
  - apply emit_forall; try assumption.
    + apply Forall_forall. intros o I. unfold pin_lines in I. apply in_map_iff in I. destruct I as [k [<- _]]. apply Pp.
    + intros f b x I Ix. apply Hb. apply (in_blocks x f b _ _ _ I Ix).
  - apply Forall_forall. intros o I. unfold final_lines in I. apply in_map_iff in I. destruct I as [t [<- I]].
    apply in_eups_lines in I. apply (Hb _ I).
Qed.

(* ---------------------------------------------------------------- what the classification guarantees *)

Definition ok_tline (tf : bool) (l : tline) : Prop :=
  match l with
  | LBlank => True
  | LComment t => strip t = t /\ (exists r, t = c_hash :: r) /\ exactish t = false
  | LOther t => strip t = t /\ t <> [] /\ exactish t = false /\ mentions_setup tf t = false /\ mem_ascii c_hash t = false
  | LSetup s => strip (sl_orig s) = sl_orig s /\ kw_here tf (sl_orig s) = true /\ mem_ascii c_hash (sl_orig s) = false
  | LEups t => strip t = t /\ kw_here tf t = true /\ mem_ascii c_hash t = false
  end.

Lemma classify_args_orig tf o g orig x : classify_args tf o g orig = Inside x ->
  (exists s, x = LSetup s /\ sl_orig s = orig) \/ x = LEups orig.
Proof.
  unfold classify_args. destruct (split_set (is_argsep tf) g) as [|t0 ts]; [discriminate|].
  destruct (str_eqb t0 (lit "eups")).
  - destruct (str_eqb _ t0); [|discriminate]. intro H. inversion H. now right.
  - destruct (scan_args (t0 :: ts)) as [fl ws| |]; try discriminate. destruct ws as [|name ws]; [discriminate|].
    destruct (negb (str_eqb _ name)); [discriminate|].
    destruct (match ws with [] => _ | v :: ws' => _ end) as [version ws1].
    destruct (take_bracket ws1) as [logical ws2]. intro H. inversion H. left. eexists. split; reflexivity.
Qed.

Lemma classify_line_ok tf l x : classify_line tf l = Inside x -> ok_tline tf x.
Proof.
  unfold classify_line. destruct (negb (forallb ascii_ok l)); [discriminate|].
  destruct (has_sub (lit "--external") l); [discriminate|].
  destruct (drop_ws l) as [|c r] eqn:D; [intro H; inversion H; exact I|].
  assert (Wc : is_pyspace c = false).
  { destruct (drop_ws_shape l) as [E|[c' [r' [E W]]]]; rewrite D in E; [discriminate|]. now inversion E; subst. }
  destruct (ascii_eqb c c_hash) eqn:Hc.
  - destruct (exactish l) eqn:X; [discriminate|]. intro H. inversion H; subst. cbn [ok_tline].
    split; [apply strip_idem|]. split.
    + unfold strip. rewrite D, rstrip_head by assumption. apply ascii_eqb_eq in Hc. subst c. eauto.
    + now rewrite exactish_strip.
  - pose proof (drop_ws_before_hash l c r D Hc) as D1. set (l1 := before_hash l) in *.
    assert (NH : mem_ascii c_hash (strip l1) = false) by (apply mem_ascii_strip, before_hash_no_hash).
    destruct (negb (mentions_setup tf l1)) eqn:M.
    + destruct (exactish l1) eqn:X; [discriminate|]. intro H. injection H as <-. cbn [ok_tline].
      split; [apply strip_idem|]. split.
      * unfold strip. rewrite D1, rstrip_head by assumption. discriminate.
      * split; [now rewrite exactish_strip|]. split; [|assumption].
        apply mentions_strip. now apply negb_true_iff in M.
    + destruct (cmd_at tf (drop_ws l1)) as [[[o g] rest]|] eqn:C; [|discriminate].
      destruct (negb (all_ws rest)); [discriminate|]. destruct (existsb paren g); [discriminate|].
      assert (K : kw_here tf (strip l1) = true).
      { unfold strip. apply kw_here_rstrip. unfold cmd_at in C. unfold kw_here. destruct (kw_at tf (drop_ws l1)); [reflexivity|discriminate]. }
      intro H. destruct (classify_args_orig _ _ _ _ _ H) as [[s [-> Eo]]| ->]; cbn [ok_tline]; rewrite ?Eo;
        (split; [apply strip_idem|split; assumption]).
Qed.

Lemma classify_lines_ok tf : forall ls xs, classify_lines tf ls = Inside xs -> Forall (ok_tline tf) xs.
Proof.
  induction ls as [|l ls IH]; intros xs H; [inversion H; constructor|]. cbn [classify_lines] in H.
  destruct (classify_line tf l) as [a|?|?] eqn:A; destruct (classify_lines tf ls) as [b|?|?] eqn:B; try discriminate.
  inversion H; subst. constructor; [now apply (classify_line_ok tf l)|now apply IH].
Qed.

(* ---------------------------------------------------------------- the written lines, stripped, are the renderings *)

Lemma all_ws_repeat n : all_ws (repeat c_space n) = true.
Proof. induction n; [reflexivity|]. exact IHn. Qed.

Lemma strip_render_at x : strip (render_at x) = strip (render (snd x)).
Proof. unfold render_at, indent. apply strip_ws_prefix, all_ws_repeat. Qed.

(* a rendered command: name, parenthesis, ..., parenthesis *)
Lemma cmd_name_head o : exists r, cmd_name o = "s"%char :: r.
Proof. destruct o; eexists; reflexivity. Qed.

Lemma tight_cmd o body : tight (cmd_name o ++ lit "(" ++ body ++ lit ")").
Proof.
  destruct (cmd_name_head o) as [r ->]. cbn [app]. rewrite !app_assoc. apply tight_ends; reflexivity.
Qed.

Lemma kw_here_cmd tf o body : kw_here tf (cmd_name o ++ lit "(" ++ body) = true.
Proof. rewrite app_assoc. apply kw_here_ext. destruct tf, o; reflexivity. Qed.

Definition fixed (o : oline) : Prop := strip (render o) = render o.

Lemma render_rnew o n fl v lg : exists body, render (OSetup (RNew o n fl v lg)) = cmd_name o ++ lit "(" ++ body ++ lit ")".
Proof. eexists. cbn [render render_rline]. reflexivity. Qed.

Lemma render_pin o n v : render (OPin o n v) = cmd_name o ++ lit "(" ++ (pad15 n ++ lit " -j " ++ v) ++ lit ")".
Proof. cbn [render]. now rewrite <- !app_assoc. Qed.

Lemma fixed_line tf w e plist l : ok_tline tf l -> fixed (out_bline (rewrite_line w e plist l)).
Proof.
  unfold fixed. destruct l as [|t|s|t|t]; cbn [rewrite_line out_bline ok_tline].
  - intros _. reflexivity.
  - intros [S _]. exact S.
  - intros [S _]. cbn [render]. destruct (rewrite w e plist s) as [s'|o n fl v lg] eqn:R.
    + assert (s' = s) as ->.
      { unfold rewrite in R. destruct (match truthy (sl_version s) with Some v => _ | None => _ end) as [v1 l1].
        destruct (truthy _); [discriminate|]. destruct (find_setup_product w e (sl_name s)); [|now inversion R].
        destruct (p_version p); [now inversion R|discriminate]. }
      exact S.
    + destruct (render_rnew o n fl v lg) as [body B]. cbn [render] in B. rewrite B. apply strip_tight, tight_cmd.
  - intros [S _]. exact S.
  - intros [S _]. exact S.
Qed.

Lemma expand_fixed tf jf sf cf w e top plist force rd ls out :
  Forall (ok_tline tf) ls -> expand_gen jf sf cf w e top plist force rd ls = Ok out -> Forall fixed out.
Proof.
  intros Hl. apply expand_forall; try reflexivity.
  - intros o n v. unfold fixed. rewrite render_pin. apply strip_tight, tight_cmd.
  - intros l I. apply (fixed_line tf). rewrite Forall_forall in Hl. auto.
Qed.

(* the bridge: the text goes through the classified lines, and the written lines are the renderings of what
   expand_gen returns, each behind its indentation *)
Theorem text_factors tf jf sf cf w e top plist force rd text ols :
  expand_text_lines_gen tf jf sf cf w e top plist force rd text = Inside ols ->
  exists ls out,
    classify_text tf text = Inside ls /\ Forall (ok_tline tf) ls /\
    expand_gen jf sf cf w e top plist force rd ls = Ok out /\
    map strip ols = map render out /\
    (exists lay, ols = map render_at lay /\ map snd lay = out).
Proof.
  unfold expand_text_lines_gen. destruct (classify_text tf text) as [ls|?|?] eqn:C; try discriminate.
  destruct (expr_checks w e plist ls); try discriminate.
  destruct (expand_layout jf sf cf w e top plist force rd ls) as [lay|?] eqn:L; [|discriminate].
  cbv zeta. destruct (forallb (fun l => negb (mem_ascii c_nl l)) (map render_at lay)); [|discriminate].
  intro H. inversion H; subst. clear H. pose proof (layout_lines _ _ _ _ _ _ _ _ _ _ _ L) as E.
  pose proof (classify_lines_ok tf _ _ C) as Ok1.
  exists ls, (map snd lay). split; [reflexivity|]. split; [assumption|]. split; [assumption|]. split; [|eauto].
  pose proof (expand_fixed tf _ _ _ _ _ _ _ _ _ _ _ Ok1 E) as F. rewrite !map_map.
  clear - F. induction lay as [|x lay IH]; [reflexivity|]. inversion F; subst. cbn [map]. f_equal; [|now apply IH].
  now rewrite strip_render_at.
Qed.

(* no written line holds a line feed: the text splits back into the lines *)
Lemma written_no_nl tf jf sf cf w e top plist force rd text ols :
  expand_text_lines_gen tf jf sf cf w e top plist force rd text = Inside ols -> Forall no_nl ols.
Proof.
  unfold expand_text_lines_gen. destruct (classify_text tf text) as [ls|?|?]; try discriminate.
  destruct (expr_checks w e plist ls); try discriminate.
  destruct (expand_layout jf sf cf w e top plist force rd ls) as [lay|?]; [|discriminate].
  cbv zeta. destruct (forallb (fun l => negb (mem_ascii c_nl l)) (map render_at lay)) eqn:F; [|discriminate]. intro H. inversion H; subst.
  rewrite forallb_forall in F. apply Forall_forall. intros l I. apply F in I. now apply negb_true_iff in I.
Qed.

Lemma text_lines tf jf sf cf w e top plist force rd text otxt :
  expand_text_gen tf jf sf cf w e top plist force rd text = Inside otxt ->
  exists ols, expand_text_lines_gen tf jf sf cf w e top plist force rd text = Inside ols /\
              otxt = unlines ols /\ lines_of otxt = ols /\ stripped_lines otxt = map strip ols.
Proof.
  unfold expand_text_gen. destruct (expand_text_lines_gen tf jf sf cf w e top plist force rd text) as [ols|?|?] eqn:L; try discriminate.
  intro H. inversion H; subst. exists ols. pose proof (lines_of_unlines ols (written_no_nl _ _ _ _ _ _ _ _ _ _ _ _ L)) as Q.
  unfold stripped_lines. rewrite Q. auto.
Qed.

(* ---------------------------------------------------------------- reading the written lines back *)

Definition not_if (x : str) : Prop := str_eqb x t_if_exact = false /\ str_eqb x t_if_not_exact = false.
Definition not_brace (x : str) : Prop := str_eqb x t_else = false /\ str_eqb x t_close = false.

Lemma not_if_nil : not_if [].
Proof. split; reflexivity. Qed.
Lemma not_brace_nil : not_brace [].
Proof. split; reflexivity. Qed.
Lemma not_if_head c r : ascii_eqb c "i"%char = false -> not_if (c :: r).
Proof. intro H. split; cbn; now rewrite H. Qed.
Lemma not_brace_head c r : ascii_eqb c "}"%char = false -> not_brace (c :: r).
Proof. intro H. split; cbn; now rewrite H. Qed.

Lemma tview_out_app b l r : Forall not_if l -> tview b VOut (l ++ r) = l ++ tview b VOut r.
Proof.
  induction 1 as [|x l [H1 H2] _ IH]; [reflexivity|]. cbn [app tview]. now rewrite H1, H2, IH.
Qed.
Lemma tview_pins_app b l r : Forall not_brace l -> tview b VPins (l ++ r) = (if b then l else []) ++ tview b VPins r.
Proof.
  induction 1 as [|x l [H1 H2] _ IH]; [now destruct b|]. cbn [app tview]. rewrite H1, IH. now destruct b.
Qed.
Lemma tview_else_app b l r : Forall not_brace l -> tview b VElse (l ++ r) = (if b then [] else l) ++ tview b VElse r.
Proof.
  induction 1 as [|x l [H1 H2] _ IH]; [now destruct b|]. cbn [app tview]. rewrite H2, IH. now destruct b.
Qed.
Lemma tview_not_app b l r : Forall not_brace l -> tview b VNot (l ++ r) = (if b then [] else l) ++ tview b VNot r.
Proof.
  induction 1 as [|x l [H1 H2] _ IH]; [now destruct b|]. cbn [app tview]. rewrite H2, IH. now destruct b.
Qed.

Lemma tpins_out_app l r : Forall not_if l -> tpins VOut (l ++ r) = tpins VOut r.
Proof. induction 1 as [|x l [H1 H2] _ IH]; [reflexivity|]. cbn [app tpins]. now rewrite H1, H2, IH. Qed.
Lemma tpins_pins_app l r : Forall not_brace l -> tpins VPins (l ++ r) = l ++ tpins VPins r.
Proof. induction 1 as [|x l [H1 H2] _ IH]; [reflexivity|]. cbn [app tpins]. now rewrite H1, IH. Qed.
Lemma tpins_else_app l r : Forall not_brace l -> tpins VElse (l ++ r) = tpins VElse r.
Proof. induction 1 as [|x l [H1 H2] _ IH]; [reflexivity|]. cbn [app tpins]. now rewrite H2, IH. Qed.
Lemma tpins_not_app l r : Forall not_brace l -> tpins VNot (l ++ r) = tpins VNot r.
Proof. induction 1 as [|x l [H1 H2] _ IH]; [reflexivity|]. cbn [app tpins]. now rewrite H2, IH. Qed.

(* what is known of a line of a block: a line of another kind is no if-line of the generated blocks; a line that
   may stand in a setup block is no brace line either *)
Definition okb (x : bline) : Prop :=
  match x with
  | BOther t => not_if t
  | _ => not_if (render (out_bline x)) /\ not_brace (render (out_bline x))
  end.

Lemma okb_not_if x : okb x -> not_if (render (out_bline x)).
Proof. destruct x; cbn [okb out_bline render]; tauto. Qed.
Lemma okb_not_brace x : okb x -> is_bother x = false -> not_brace (render (out_bline x)).
Proof. destruct x; cbn [okb is_bother]; try tauto. discriminate. Qed.

Lemma Forall_map_iff {A B} (P : B -> Prop) (f : A -> B) l : Forall P (map f l) <-> Forall (fun x => P (f x)) l.
Proof. induction l as [|x l IH]; [split; constructor|]. cbn [map]. split; intro H; inversion H; subst; constructor; tauto. Qed.

Section ReadBack.
Variables (exact : bool) (pins : list oline) (tl : list str).
Hypothesis Hpins : Forall (fun o => not_brace (render o)) pins.
Hypothesis Htl : Forall not_if tl.

Lemma body_ok lvl b : Forall okb b -> Forall (fun x => is_bother x = false) b ->
  Forall not_brace (map render (map out_bline (setup_body lvl b))).
Proof.
  intros Hk Hb. rewrite map_map. apply Forall_map_iff. apply Forall_forall. intros x I. apply in_setup_body in I.
  rewrite Forall_forall in Hk, Hb. apply okb_not_brace; auto.
Qed.

Lemma tview_emit : forall bs lvl, Forall block_ok bs -> Forall (fun x => Forall okb (snd x)) bs ->
  tview exact VOut (map render (emit lvl pins bs) ++ tl) = map render (view_blocks exact lvl pins bs) ++ tl.
Proof.
  induction bs as [|[f b] bs IH]; intros lvl Hb Hk.
  - cbn [emit view_blocks map app]. rewrite <- (app_nil_r tl) at 1. rewrite tview_out_app by assumption.
    cbn [tview]. now rewrite app_nil_r.
  - inversion Hb as [|? ? B1 B2]; subst. inversion Hk as [|? ? K1 K2]; subst. cbn [snd] in K1.
    destruct f; cbn [emit view_blocks].
    + unfold block_ok in B1. cbn [fst snd] in B1. pose proof (body_ok lvl b K1 B1) as Bd.
      destruct (existsb fst bs).
      * cbn [map app tview]. rewrite map_app, <- app_assoc. change (str_eqb (render OIfNotExact) t_if_exact) with false.
        change (str_eqb (render OIfNotExact) t_if_not_exact) with true. cbn match.
        rewrite tview_not_app by assumption. cbn [map app tview].
        change (str_eqb (render OClose) t_close) with true. cbn match. rewrite IH by assumption.
        destruct exact; cbn [app]; now rewrite ?map_app, ?app_assoc.
      * cbn [map app tview]. rewrite map_app, <- app_assoc. change (str_eqb (render OIfExact) t_if_exact) with true. cbn match.
        rewrite tview_pins_app by (now apply Forall_map_iff). cbn [map app tview].
        change (str_eqb (render OElse) t_else) with true. cbn match.
        rewrite map_app, <- app_assoc. rewrite tview_else_app by assumption. cbn [map app tview].
        change (str_eqb (render OClose) t_close) with true. cbn match. rewrite IH by assumption.
        destruct exact; cbn [app]; now rewrite ?map_app, ?app_nil_r, ?app_assoc.
    + rewrite map_app, <- app_assoc. rewrite tview_out_app.
      * rewrite IH by assumption. now rewrite map_app, app_assoc.
      * rewrite map_map. apply Forall_map_iff. eapply Forall_impl; [|exact K1]. apply okb_not_if.
Qed.

Lemma tpins_emit : forall bs lvl, Forall block_ok bs -> Forall (fun x => Forall okb (snd x)) bs ->
  tpins VOut (map render (emit lvl pins bs) ++ tl) = (if existsb fst bs then map render pins else []) ++ tpins VOut tl.
Proof.
  induction bs as [|[f b] bs IH]; intros lvl Hb Hk; [reflexivity|].
  inversion Hb as [|? ? B1 B2]; subst. inversion Hk as [|? ? K1 K2]; subst. cbn [snd] in K1.
  destruct f; cbn [emit existsb fst orb].
  - unfold block_ok in B1. cbn [fst snd] in B1. pose proof (body_ok lvl b K1 B1) as Bd.
    destruct (existsb fst bs) eqn:X.
    + cbn [map app tpins]. rewrite map_app, <- app_assoc. change (str_eqb (render OIfNotExact) t_if_exact) with false.
      change (str_eqb (render OIfNotExact) t_if_not_exact) with true. cbn match.
      rewrite tpins_not_app by assumption. cbn [map app tpins].
      change (str_eqb (render OClose) t_close) with true. cbn match. now rewrite IH by assumption.
    + cbn [map app tpins]. rewrite map_app, <- app_assoc. change (str_eqb (render OIfExact) t_if_exact) with true. cbn match.
      rewrite tpins_pins_app by (now apply Forall_map_iff). cbn [map app tpins].
      change (str_eqb (render OElse) t_else) with true. cbn match.
      rewrite map_app, <- app_assoc. rewrite tpins_else_app by assumption. cbn [map app tpins].
      change (str_eqb (render OClose) t_close) with true. cbn match. rewrite IH by assumption.
      reflexivity.
  - rewrite map_app, <- app_assoc. rewrite tpins_out_app; [now apply IH|].
    rewrite map_map. apply Forall_map_iff. eapply Forall_impl; [|exact K1]. apply okb_not_if.
Qed.
End ReadBack.

(* ---------------------------------------------------------------- from the classification to the written lines *)

Lemma rewrite_keep w e plist s s' : rewrite w e plist s = RKeep s' -> s' = s.
Proof.
  unfold rewrite. destruct (match truthy (sl_version s) with Some v => _ | None => _ end) as [v1 l1].
  destruct (truthy _); [discriminate|]. destruct (find_setup_product w e (sl_name s)); [|intro R; now inversion R].
  destruct (p_version p); [intro R; now inversion R|discriminate].
Qed.

Lemma cmd_head_s : cmd_head "s"%char.
Proof. reflexivity. Qed.

Lemma render_setup_head tf w e plist s : ok_tline tf (LSetup s) ->
  exists c r, render (OSetup (rewrite w e plist s)) = c :: r /\ cmd_head c.
Proof.
  intros [_ [K _]]. cbn [render]. destruct (rewrite w e plist s) as [s'|o n fl v lg] eqn:R.
  - apply rewrite_keep in R. subst s'. cbn [render_rline]. now apply (kw_here_head tf).
  - cbn [render_rline]. destruct (cmd_name_head o) as [r ->]. cbn [app]. eexists _, _. split; [reflexivity|exact cmd_head_s].
Qed.

Lemma head_safe c r : cmd_head c -> not_if (c :: r) /\ not_brace (c :: r).
Proof.
  intro H. destruct (cmd_head_facts c H) as [_ [_ [Hi Hb]]]. split; [now apply not_if_head|now apply not_brace_head].
Qed.

Lemma exactish_if_exact : exactish t_if_exact = true.
Proof. reflexivity. Qed.
Lemma exactish_if_not_exact : exactish t_if_not_exact = true.
Proof. reflexivity. Qed.

Lemma okb_line tf w e plist l : ok_tline tf l -> okb (rewrite_line w e plist l).
Proof.
  destruct l as [|t|s|t|t]; cbn [rewrite_line okb out_bline]; intro H.
  - split; [apply not_if_nil|apply not_brace_nil].
  - destruct H as [_ [[r ->] _]]. cbn [render]. split; [now apply not_if_head|now apply not_brace_head].
  - destruct (render_setup_head tf w e plist s H) as [c [r [-> Hc]]]. now apply head_safe.
  - destruct H as [_ [_ [X _]]]. split.
    + destruct (str_eqb t t_if_exact) eqn:E; [|reflexivity]. apply str_eqb_eq in E. subst t. now rewrite exactish_if_exact in X.
    + destruct (str_eqb t t_if_not_exact) eqn:E; [|reflexivity]. apply str_eqb_eq in E. subst t. now rewrite exactish_if_not_exact in X.
  - destruct H as [_ [K _]]. cbn [render]. destruct (kw_here_head tf t K) as [c [r [-> Hc]]]. now apply head_safe.
Qed.

Lemma blocks_forall (Q : bline -> Prop) : forall ls f cur, Forall Q cur -> Forall Q ls ->
  Forall (fun x => Forall Q (snd x)) (blocks f cur ls).
Proof.
  intros ls f cur Hc Hl. apply Forall_forall. intros [g b] I. cbn [snd]. apply Forall_forall. intros x Ix.
  pose proof (in_blocks x g b ls f cur I Ix) as J. apply in_app_or in J. rewrite Forall_forall in Hc, Hl.
  destruct J as [J|J]; [apply Hc; now apply in_rev|now apply Hl].
Qed.

Lemma pin_safe o n v : not_if (render (OPin o n v)) /\ not_brace (render (OPin o n v)).
Proof. rewrite render_pin. destruct (cmd_name_head o) as [r ->]. cbn [app]. apply head_safe, cmd_head_s. Qed.

Section Written.
Variables (tf jf sf cf : bool) (w : world) (e : amap str) (top : str) (plist : amap str) (force : bool) (rd : rawdeps).
Variables (ls : list tline) (out : list oline).
Hypothesis Hok : Forall (ok_tline tf) ls.
Hypothesis E : expand_gen jf sf cf w e top plist force rd ls = Ok out.

Let bl := map (rewrite_line w e plist) ls.

Lemma bl_okb : Forall okb bl.
Proof. unfold bl. apply Forall_map_iff. eapply Forall_impl; [|exact Hok]. intro l. apply okb_line. Qed.

Lemma final_safe : Forall not_if (map render (final_lines bl)).
Proof.
  apply Forall_map_iff. apply Forall_forall. intros o I. unfold final_lines in I. apply in_map_iff in I.
  destruct I as [t [<- I]]. apply in_eups_lines in I. pose proof bl_okb as B. rewrite Forall_forall in B.
  apply (B _) in I. cbn [okb out_bline] in I. tauto.
Qed.

Lemma tview_out_nil b l : Forall not_if l -> tview b VOut l = l.
Proof. intro H. rewrite <- (app_nil_r l) at 1. rewrite tview_out_app by assumption. cbn [tview]. apply app_nil_r. Qed.
Lemma tpins_out_nil l : Forall not_if l -> tpins VOut l = [].
Proof. intro H. rewrite <- (app_nil_r l). now rewrite tpins_out_app. Qed.

(* reading the renderings back gives the renderings of the two views of Model/Expand.v *)
Lemma tview_render exact : tview exact VOut (map render out) = map render (view exact VOut out).
Proof.
  destruct (expand_shape jf sf cf w e top plist force rd ls out E) as [a ->]. fold bl.
  rewrite view_emit by (apply plain_pins || apply plain_final). rewrite !map_app.
  apply tview_emit.
  - apply Forall_forall. intros o I. unfold pin_lines in I. apply in_map_iff in I. destruct I as [k [<- _]]. apply pin_safe.
  - apply final_safe.
  - apply blocks_ok. unfold block_ok; cbn. constructor.
  - apply blocks_forall; [constructor|apply bl_okb].
Qed.

(* the lines between the two markers of the exact block are the renderings of pins of the output *)
Lemma tpins_render p : In p (tpins VOut (map render out)) -> exists o n v, p = render (OPin o n v) /\ In (OPin o n v) out.
Proof.
  destruct (expand_shape jf sf cf w e top plist force rd ls out E) as [a ->]. fold bl. rewrite map_app.
  assert (Hp : Forall (fun o => not_brace (render o)) (pin_lines a)).
  { apply Forall_forall. intros o I. unfold pin_lines in I. apply in_map_iff in I. destruct I as [k [<- _]]. apply pin_safe. }
  assert (Hb : Forall block_ok (blocks false [] bl)) by (apply blocks_ok; unfold block_ok; cbn; constructor).
  assert (Hk : Forall (fun x => Forall okb (snd x)) (blocks false [] bl)) by (apply blocks_forall; [constructor|apply bl_okb]).
  rewrite (tpins_emit (pin_lines a) (map render (final_lines bl)) Hp _ 0%Z Hb Hk).
  rewrite (tpins_out_nil _ final_safe), app_nil_r. destruct (existsb fst (blocks false [] bl)) eqn:X; [|simpl; tauto].
  intro I. apply in_map_iff in I. destruct I as [x [<- I]]. pose proof I as J. unfold pin_lines in J. apply in_map_iff in J.
  destruct J as [k [<- _]]. eexists _, _, _. split; [reflexivity|]. apply in_or_app. left. now apply emit_has_pins.
Qed.

(* ... all of them, in order *)
Definition pin_line (x : nvo) : str := pin_text (snd x) (fst (fst x)) (snd (fst x)).

Lemma tpins_all : tpins VOut (map render out) = map pin_line (pins_of out).
Proof.
  destruct (expand_shape jf sf cf w e top plist force rd ls out E) as [a ->]. fold bl. rewrite map_app.
  assert (Hp : Forall (fun o => not_brace (render o)) (pin_lines a)).
  { apply Forall_forall. intros o I. unfold pin_lines in I. apply in_map_iff in I. destruct I as [k [<- _]]. apply pin_safe. }
  assert (Hb : Forall block_ok (blocks false [] bl)) by (apply blocks_ok; unfold block_ok; cbn; constructor).
  assert (Hk : Forall (fun x => Forall okb (snd x)) (blocks false [] bl)) by (apply blocks_forall; [constructor|apply bl_okb]).
  rewrite (tpins_emit (pin_lines a) (map render (final_lines bl)) Hp _ 0%Z Hb Hk).
  rewrite (tpins_out_nil _ final_safe), app_nil_r. rewrite pins_of_app, pins_final, app_nil_r.
  rewrite pins_of_emit by apply plain_pins. destruct (existsb fst (blocks false [] bl)); [|reflexivity].
  unfold pin_lines. induction (a_des a) as [|k l IH]; [reflexivity|]. cbn [map pins_of]. now rewrite IH.
Qed.
End Written.

(* ---------------------------------------------------------------- the pins clause on text *)

Theorem text_pins_sound tf jf sf cf w e top plist force rd text ols p :
  expand_text_lines_gen tf jf sf cf w e top plist force rd text = Inside ols ->
  In p (tpins VOut (map strip ols)) ->
  exists o n v, p = pin_text o n v /\ (recorded e n v \/ alookup n plist = Some v).
Proof.
  intros H I. destruct (text_factors _ _ _ _ _ _ _ _ _ _ _ _ H) as [ls [out [_ [Ok1 [E [M _]]]]]]. rewrite M in I.
  destruct (tpins_render tf jf sf cf w e top plist force rd ls out Ok1 E p I) as [o [n [v [-> J]]]].
  exists o, n, v. split; [reflexivity|]. eapply pins_sound; eauto.
Qed.

(* ---------------------------------------------------------------- the other two clauses on text (repaired code) *)

Lemma all_ws_drop_ws x : all_ws x = true -> drop_ws x = [].
Proof. apply drop_while_all. Qed.

Lemma drop_ws_nil_all_ws x : drop_ws x = [] -> all_ws x = true.
Proof. intro H. destruct (drop_ws_split x) as [a [E A]]. rewrite H, app_nil_r in E. now subst. Qed.

Lemma all_ws_before_hash x : all_ws x = true -> all_ws (before_hash x) = true.
Proof.
  induction x as [|c x IH]; [reflexivity|]. unfold all_ws. cbn [forallb before_hash]. rewrite andb_true_iff. intros [H1 H2].
  destruct (ascii_eqb c c_hash); [reflexivity|]. cbn [forallb]. rewrite H1. now apply IH.
Qed.

Lemma comment_line_blank l r : drop_ws l = c_hash :: r -> all_ws (before_hash l) = true.
Proof.
  intro D. destruct (drop_ws_split l) as [a [E A]]. rewrite D in E. rewrite E.
  rewrite before_hash_app by (apply all_ws_no; [reflexivity|assumption]). rewrite before_hash_hash, app_nil_r. exact A.
Qed.

Lemma classify_other l x : classify_line true l = Inside x ->
  match x with
  | LOther t => is_other_line l = true /\ strip (before_hash l) = t
  | _ => is_other_line l = false
  end.
Proof.
  unfold classify_line, is_other_line. destruct (negb (forallb ascii_ok l)); [discriminate|].
  destruct (has_sub (lit "--external") l); [discriminate|].
  destruct (drop_ws l) as [|c r] eqn:D.
  - intro H. injection H as <-. apply drop_ws_nil_all_ws in D. now rewrite (all_ws_before_hash l D).
  - destruct (ascii_eqb c c_hash) eqn:Hc.
    + destruct (exactish l); [discriminate|]. intro H. injection H as <-. apply ascii_eqb_eq in Hc. subst c.
      now rewrite (comment_line_blank l r D).
    + pose proof (drop_ws_before_hash l c r D Hc) as D1.
      assert (A : all_ws (before_hash l) = false).
      { destruct (all_ws (before_hash l)) eqn:A; [|reflexivity]. apply all_ws_drop_ws in A. congruence. }
      rewrite A. cbn [negb andb]. destruct (mentions_setup true (before_hash l)) eqn:M; cbn [negb].
      * destruct (cmd_at true (drop_ws (before_hash l))) as [[[o g] rest]|]; [|discriminate].
        destruct (negb (all_ws rest)); [discriminate|]. destruct (existsb paren g); [discriminate|].
        intro H. destruct (classify_args_orig _ _ _ _ _ H) as [[s [-> _]]| ->]; reflexivity.
      * destruct (exactish (before_hash l)); [discriminate|]. intro H. injection H as <-. now split.
Qed.

Lemma classify_others : forall L ls, classify_lines true L = Inside ls -> other_lines L = others_in ls.
Proof.
  induction L as [|l L IH]; intros ls H; [injection H as <-; reflexivity|]. cbn [classify_lines] in H.
  destruct (classify_line true l) as [x|?|?] eqn:A; destruct (classify_lines true L) as [b|?|?] eqn:B; try discriminate.
  injection H as <-. pose proof (classify_other l x A) as C. unfold other_lines in *. cbn [filter].
  destruct x; try (rewrite C; cbn [others_in]; now apply IH).
  destruct C as [C1 C2]. rewrite C1. cbn [map others_in]. rewrite C2. f_equal. now apply IH.
Qed.

(* what is known of a line of one of the two views *)
Definition okv (o : oline) : Prop :=
  match o with
  | OBlank => True
  | OComment t => exists r, t = c_hash :: r
  | OOther t => strip t = t /\ t <> [] /\ mentions_setup true t = false /\ mem_ascii c_hash t = false
  | OSetup _ | OPin _ _ _ | OEups _ => is_setup_text (render o) = true
  | _ => False
  end.

Lemma setup_text_prefix p x : mem_ascii c_hash p = false -> kw_here true p = true -> is_setup_text (p ++ x) = true.
Proof.
  intros N K. unfold is_setup_text. rewrite before_hash_app by assumption. apply mentions_here. now apply kw_here_ext.
Qed.

Lemma setup_text_cmd o body : is_setup_text (cmd_name o ++ lit "(" ++ body) = true.
Proof. rewrite app_assoc. apply setup_text_prefix; destruct o; reflexivity. Qed.

Lemma okv_line w e plist l : ok_tline true l -> okv (out_bline (rewrite_line w e plist l)).
Proof.
  destruct l as [|t|s|t|t]; cbn [rewrite_line out_bline okv ok_tline].
  - tauto.
  - tauto.
  - intros [_ [K N]]. cbn [render]. destruct (rewrite w e plist s) as [s'|o n fl v lg] eqn:R.
    + apply rewrite_keep in R. subst s'. cbn [render_rline]. rewrite <- (app_nil_r (sl_orig s)). now apply setup_text_prefix.
    + cbn [render_rline]. apply setup_text_cmd.
  - tauto.
  - intros [_ [K N]]. cbn [render]. rewrite <- (app_nil_r t). now apply setup_text_prefix.
Qed.

Lemma okv_pin o n v : okv (OPin o n v).
Proof. cbn [okv]. rewrite render_pin. apply setup_text_cmd. Qed.

Lemma view_blocks_forall (P : oline -> Prop) exact pins : Forall P pins ->
  forall bs lvl, (forall f b x, In (f, b) bs -> In x b -> P (out_bline x)) -> Forall P (view_blocks exact lvl pins bs).
Proof.
  intros Pp. induction bs as [|[f b] bs IH]; intros lvl H; [constructor|].
  assert (Hb : forall l, (forall x, In x l -> In x b) -> Forall P (map out_bline l)).
  { intros l Hl. apply Forall_forall. intros o I. apply in_map_iff in I. destruct I as [x [<- I]].
    apply (H f b); [now left|auto]. }
  assert (Hr : forall lvl', Forall P (view_blocks exact lvl' pins bs)).
  { intro lvl'. apply IH. intros f' b' x I. apply (H f' b' x). now right. }
  destruct f; cbn [view_blocks]; apply Forall_app; split; try apply Hr.
  - destruct exact; [destruct (existsb fst bs); [constructor|assumption]|]. apply Hb. intro x. apply in_setup_body.
  - apply Hb. auto.
Qed.

Lemma other_lines_render : forall V, Forall okv V -> other_lines (map render V) = others_of V.
Proof.
  unfold other_lines. induction 1 as [|o V Ho _ IH]; [reflexivity|]. cbn [map filter].
  destruct o; cbn [okv] in Ho; try contradiction; cbn [others_of].
  - exact IH.
  - destruct Ho as [r ->]. exact IH.
  - destruct Ho as [S [N [M H]]]. unfold is_other_line. cbn [render]. rewrite (before_hash_id t H), M.
    replace (all_ws t) with false.
    + cbn [negb andb map]. rewrite (before_hash_id t H), S. now f_equal.
    + destruct (all_ws t) eqn:A; [|reflexivity]. apply all_ws_drop_ws in A. unfold strip in S. rewrite A in S. now symmetry in S.
  - unfold is_other_line. unfold is_setup_text in Ho. rewrite Ho. now rewrite andb_false_r.
  - unfold is_other_line. unfold is_setup_text in Ho. rewrite Ho. now rewrite andb_false_r.
  - unfold is_other_line. unfold is_setup_text in Ho. rewrite Ho. now rewrite andb_false_r.
Qed.

Definition setupish (o : oline) : bool := match o with OSetup _ | OPin _ _ _ | OEups _ => true | _ => false end.

Lemma setup_texts_render : forall V, Forall okv V -> setup_texts (map render V) = map render (filter setupish V).
Proof.
  unfold setup_texts. induction 1 as [|o V Ho _ IH]; [reflexivity|]. cbn [map filter].
  destruct o; cbn [okv] in Ho; try contradiction; cbn [setupish].
  - exact IH.
  - destruct Ho as [r ->]. exact IH.
  - destruct Ho as [S [N [M H]]]. unfold is_setup_text. cbn [render]. now rewrite (before_hash_id t H), M.
  - rewrite Ho. cbn [map]. now f_equal.
  - rewrite Ho. cbn [map]. now f_equal.
  - rewrite Ho. cbn [map]. now f_equal.
Qed.

Lemma setupish_setups : forall L, pins_of L = [] -> eups_of L = [] -> filter setupish L = map OSetup (setups_of L).
Proof.
  induction L as [|o L IH]; [reflexivity|]. destruct o; cbn [pins_of eups_of filter setupish setups_of map]; try exact IH; try discriminate.
  intros P Q. f_equal. now apply IH.
Qed.

Lemma pins_of_view_blocks_false pins : forall bs lvl, pins_of (view_blocks false lvl pins bs) = [].
Proof.
  induction bs as [|[f b] bs IH]; intro lvl; [reflexivity|]. destruct f; cbn [view_blocks]; now rewrite pins_of_app, pins_of_out, IH.
Qed.

Section WrittenFixed.
Variables (jf sf cf : bool) (w : world) (e : amap str) (top : str) (plist : amap str) (force : bool) (rd : rawdeps).
Variables (ls : list tline) (out : list oline).
Hypothesis Hok : Forall (ok_tline true) ls.
Hypothesis E : expand_gen jf sf cf w e top plist force rd ls = Ok out.

Let bl := map (rewrite_line w e plist) ls.

Lemma bl_okv : forall x, In x bl -> okv (out_bline x).
Proof.
  intros x I. unfold bl in I. apply in_map_iff in I. destruct I as [l [<- I]]. apply okv_line.
  rewrite Forall_forall in Hok. auto.
Qed.

Lemma final_okv : Forall okv (final_lines bl).
Proof.
  apply Forall_forall. intros o I. unfold final_lines in I. apply in_map_iff in I. destruct I as [t [<- I]].
  apply in_eups_lines in I. exact (bl_okv _ I).
Qed.

Lemma view_okv exact : Forall okv (view exact VOut out).
Proof.
  destruct (expand_shape jf sf cf w e top plist force rd ls out E) as [a ->]. fold bl.
  rewrite view_emit by (apply plain_pins || apply plain_final). apply Forall_app. split; [|apply final_okv].
  apply view_blocks_forall.
  - apply Forall_forall. intros o I. unfold pin_lines in I. apply in_map_iff in I. destruct I as [k [<- _]]. apply okv_pin.
  - intros f b x I Ix. apply bl_okv. apply (in_blocks x f b _ _ _ I Ix).
Qed.

(* the setup lines of the non-exact reading: the rewritten lines in order, then the lines naming eups *)
Lemma inexact_setupish :
  filter setupish (view false VOut out) = map OSetup (map (rewrite w e plist) (setups_in ls)) ++ map OEups (eups_in ls).
Proof.
  pose proof (inexact_setup_lines jf sf cf w e top plist force rd ls out E) as S.
  destruct (expand_shape jf sf cf w e top plist force rd ls out E) as [a ->]. fold bl in S |- *.
  rewrite view_emit in S |- * by (apply plain_pins || apply plain_final).
  rewrite setups_of_app, setups_final, app_nil_r in S. rewrite filter_app. f_equal.
  - rewrite setupish_setups; [now rewrite S|apply pins_of_view_blocks_false|].
    apply eups_of_view_blocks; [unfold pin_lines; induction (a_des a); [reflexivity|assumption]|].
    apply blocks_ok. unfold block_ok; cbn. constructor.
  - unfold final_lines, bl. rewrite eups_rewrite. induction (eups_in ls) as [|t l IH]; [reflexivity|]. cbn [map filter setupish]. now f_equal.
Qed.
End WrittenFixed.

Theorem text_others_pass jf sf cf w e top plist force rd text ols b :
  expand_text_lines_gen true jf sf cf w e top plist force rd text = Inside ols ->
  other_lines (tview b VOut (map strip ols)) = other_lines (lines_of text).
Proof.
  intro H. destruct (text_factors _ _ _ _ _ _ _ _ _ _ _ _ H) as [ls [out [C [Ok1 [E [M _]]]]]]. rewrite M.
  rewrite (tview_render true jf sf cf w e top plist force rd ls out Ok1 E).
  rewrite other_lines_render by (eapply view_okv; eauto).
  rewrite (others_pass jf sf cf w e top plist force rd ls out E). symmetry. now apply classify_others.
Qed.

Theorem text_keeps_inexact jf sf cf w e top plist force rd text ols :
  expand_text_lines_gen true jf sf cf w e top plist force rd text = Inside ols ->
  exists ls,
    classify_text true text = Inside ls /\
    setup_texts (tview false VOut (map strip ols))
      = map render_rline (map (rewrite w e plist) (setups_in ls)) ++ eups_in ls /\
    Forall2 (carries w e plist) (setups_in ls) (map (rewrite w e plist) (setups_in ls)).
Proof.
  intro H. destruct (text_factors _ _ _ _ _ _ _ _ _ _ _ _ H) as [ls [out [C [Ok1 [E [M _]]]]]]. exists ls.
  split; [assumption|]. split; [|apply Forall2_map_r; apply rewrite_carries]. rewrite M.
  rewrite (tview_render true jf sf cf w e top plist force rd ls out Ok1 E).
  rewrite setup_texts_render by (eapply view_okv; eauto).
  rewrite (inexact_setupish jf sf cf w e top plist force rd ls out E). rewrite map_app, !map_map. f_equal.
  cbn [render]. apply map_id.
Qed.
