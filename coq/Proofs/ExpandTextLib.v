(* C17, level A - lemmas about the small text functions of Model/ExpandText.v: strip, before_hash, has_sub,
   remove_ws, mentions_setup, split_set, lines_of / unlines. *)
From Coq Require Import Lia.
From Eupsv Require Import Base.Base Base.BaseLemmas Model.Rx Proofs.RxLib Model.PathAlg Model.Setup Model.Expand Model.ExpandText.

(* ---------------------------------------------------------------- drop_ws, rstrip, strip *)

Lemma drop_ws_cons_nonws c r : is_pyspace c = false -> drop_ws (c :: r) = c :: r.
Proof. intro H. unfold drop_ws. cbn [drop_while]. now rewrite H. Qed.

Lemma drop_ws_cons_ws c r : is_pyspace c = true -> drop_ws (c :: r) = drop_ws r.
Proof. intro H. unfold drop_ws. cbn [drop_while]. now rewrite H. Qed.

Lemma drop_while_app_gen p a b :
  drop_while p (a ++ b) = if forallb p a then drop_while p b else drop_while p a ++ b.
Proof.
  induction a as [|c a IH]; [reflexivity|]. cbn [app drop_while forallb]. destruct (p c); [exact IH|reflexivity].
Qed.

Lemma forallb_rev {A} (p : A -> bool) l : forallb p (rev l) = forallb p l.
Proof.
  induction l as [|x l IH]; [reflexivity|]. cbn [rev forallb]. rewrite forallb_app, IH. cbn [forallb].
  rewrite andb_true_r. apply andb_comm.
Qed.

(* the characterisation everything else uses *)
Lemma rstrip_cons c r : rstrip (c :: r) = if all_ws (c :: r) then [] else c :: rstrip r.
Proof.
  unfold rstrip, drop_ws, all_ws. cbn [rev forallb]. rewrite drop_while_app_gen, forallb_rev.
  destruct (forallb is_pyspace r) eqn:A.
  - cbn [drop_while]. destruct (is_pyspace c); cbn [andb rev app]; [reflexivity|].
    rewrite (drop_while_all is_pyspace (rev r)) by now rewrite forallb_rev. reflexivity.
  - rewrite andb_false_r. rewrite rev_app_distr. reflexivity.
Qed.

Lemma rstrip_nil : rstrip [] = [].
Proof. reflexivity. Qed.

Lemma rstrip_all_ws s : all_ws s = true -> rstrip s = [].
Proof. destruct s as [|c r]; [reflexivity|]. intro H. now rewrite rstrip_cons, H. Qed.

Lemma all_ws_rstrip s : all_ws (rstrip s) = all_ws s.
Proof.
  induction s as [|c r IH]; [reflexivity|]. rewrite rstrip_cons. destruct (all_ws (c :: r)) eqn:A; [reflexivity|].
  unfold all_ws in *. cbn [forallb] in *. rewrite IH. exact A.
Qed.

Lemma rstrip_idem s : rstrip (rstrip s) = rstrip s.
Proof.
  induction s as [|c r IH]; [reflexivity|]. rewrite rstrip_cons. destruct (all_ws (c :: r)) eqn:A; [reflexivity|].
  rewrite rstrip_cons. replace (all_ws (c :: rstrip r)) with false; [now rewrite IH|].
  unfold all_ws in *. cbn [forallb] in *. fold (all_ws (rstrip r)). rewrite all_ws_rstrip. symmetry. exact A.
Qed.

(* the first character survives *)
Lemma rstrip_head c r : is_pyspace c = false -> rstrip (c :: r) = c :: rstrip r.
Proof. intro H. rewrite rstrip_cons. unfold all_ws. cbn [forallb]. now rewrite H. Qed.

Lemma drop_ws_rstrip_head c r : is_pyspace c = false -> drop_ws (rstrip (c :: r)) = rstrip (c :: r).
Proof. intro H. rewrite rstrip_head by assumption. now apply drop_ws_cons_nonws. Qed.

Lemma drop_ws_shape s : drop_ws s = [] \/ exists c r, drop_ws s = c :: r /\ is_pyspace c = false.
Proof.
  induction s as [|c r IH]; [now left|]. destruct (is_pyspace c) eqn:W.
  - rewrite drop_ws_cons_ws by assumption. exact IH.
  - right. exists c, r. now rewrite drop_ws_cons_nonws.
Qed.

Lemma strip_idem s : strip (strip s) = strip s.
Proof.
  unfold strip. destruct (drop_ws_shape s) as [->|[c [r [-> W]]]]; [reflexivity|].
  rewrite drop_ws_rstrip_head by assumption. apply rstrip_idem.
Qed.

Lemma strip_nil : strip [] = [].
Proof. reflexivity. Qed.

Lemma strip_ws_prefix a x : all_ws a = true -> strip (a ++ x) = strip x.
Proof. intro H. unfold strip. now rewrite drop_ws_app. Qed.

(* a text whose first and last characters are not white space *)
Definition tight (s : str) : Prop :=
  match s with
  | [] => True
  | c :: _ => is_pyspace c = false /\ match rev s with d :: _ => is_pyspace d = false | [] => True end
  end.

Lemma rstrip_last_nonws s d m : rev s = d :: m -> is_pyspace d = false -> rstrip s = s.
Proof.
  intros E W. unfold rstrip. rewrite E, drop_ws_cons_nonws by assumption. rewrite <- E. apply rev_involutive.
Qed.

Lemma strip_tight s : tight s -> strip s = s.
Proof.
  destruct s as [|c r]; [reflexivity|]. intros [W L]. unfold strip. rewrite drop_ws_cons_nonws by assumption.
  destruct (rev (c :: r)) as [|d m] eqn:E; [now apply (f_equal (@length _)) in E; rewrite rev_length in E|].
  now apply (rstrip_last_nonws _ d m).
Qed.

Lemma rstrip_tight_tail s : rstrip s = [] \/ exists d m, rev (rstrip s) = d :: m /\ is_pyspace d = false.
Proof.
  unfold rstrip. rewrite rev_involutive. destruct (drop_ws_shape (rev s)) as [->|[c [r [-> W]]]]; [now left|].
  right. now exists c, r.
Qed.

Lemma strip_is_tight s : tight (strip s).
Proof.
  unfold strip. destruct (drop_ws_shape s) as [->|[c [r [-> W]]]]; [exact I|].
  rewrite rstrip_head by assumption. split; [assumption|].
  rewrite <- rstrip_head by assumption. destruct (rstrip_tight_tail (c :: r)) as [E|[d [m [E Wd]]]].
  - rewrite rstrip_head in E by assumption. discriminate.
  - now rewrite E.
Qed.

Lemma strip_head c r : is_pyspace c = false -> exists r', strip (c :: r) = c :: r'.
Proof. intro W. unfold strip. rewrite drop_ws_cons_nonws, rstrip_head by assumption. eauto. Qed.

(* starting with a given character, ending with a given character *)
Lemma tight_ends c m d : is_pyspace c = false -> is_pyspace d = false -> tight (c :: m ++ [d]).
Proof.
  intros Wc Wd. split; [assumption|]. change (c :: m ++ [d]) with ((c :: m) ++ [d]). rewrite rev_app_distr. exact Wd.
Qed.

(* ---------------------------------------------------------------- remove_ws *)

Lemma remove_ws_app a b : remove_ws (a ++ b) = remove_ws a ++ remove_ws b.
Proof. apply filter_app. Qed.

Lemma remove_ws_all_ws a : all_ws a = true -> remove_ws a = [].
Proof.
  induction a as [|c a IH]; [reflexivity|]. unfold all_ws. cbn [forallb]. rewrite andb_true_iff. intros [H1 H2].
  unfold remove_ws. cbn [filter]. rewrite H1. cbn [negb]. now apply IH.
Qed.

Lemma remove_ws_drop_ws s : remove_ws (drop_ws s) = remove_ws s.
Proof.
  induction s as [|c r IH]; [reflexivity|]. destruct (is_pyspace c) eqn:W.
  - rewrite drop_ws_cons_ws by assumption. unfold remove_ws at 2. cbn [filter]. rewrite W. exact IH.
  - now rewrite drop_ws_cons_nonws.
Qed.

Lemma remove_ws_rstrip s : remove_ws (rstrip s) = remove_ws s.
Proof.
  induction s as [|c r IH]; [reflexivity|]. rewrite rstrip_cons. destruct (all_ws (c :: r)) eqn:A.
  - symmetry. now apply remove_ws_all_ws.
  - unfold remove_ws in *. cbn [filter]. now rewrite IH.
Qed.

Lemma remove_ws_strip s : remove_ws (strip s) = remove_ws s.
Proof. unfold strip. now rewrite remove_ws_rstrip, remove_ws_drop_ws. Qed.

Lemma exactish_strip s : exactish (strip s) = exactish s.
Proof. unfold exactish. now rewrite remove_ws_strip. Qed.

(* ---------------------------------------------------------------- before_hash *)

Definition no_hash (s : str) : bool := negb (mem_ascii c_hash s).

Lemma before_hash_id s : mem_ascii c_hash s = false -> before_hash s = s.
Proof.
  induction s as [|c r IH]; [reflexivity|]. cbn [mem_ascii before_hash]. rewrite (ascii_eqb_sym c_hash c).
  destruct (ascii_eqb c c_hash); [discriminate|]. intro H. now rewrite IH.
Qed.

Lemma before_hash_no_hash s : mem_ascii c_hash (before_hash s) = false.
Proof.
  induction s as [|c r IH]; [reflexivity|]. cbn [before_hash]. destruct (ascii_eqb c c_hash) eqn:E; [reflexivity|].
  cbn [mem_ascii]. now rewrite (ascii_eqb_sym c_hash c), E.
Qed.

Lemma before_hash_idem s : before_hash (before_hash s) = before_hash s.
Proof. apply before_hash_id, before_hash_no_hash. Qed.

Lemma mem_ascii_drop_ws c s : mem_ascii c s = false -> mem_ascii c (drop_ws s) = false.
Proof.
  induction s as [|x r IH]; [reflexivity|]. intro H. destruct (is_pyspace x) eqn:W.
  - rewrite drop_ws_cons_ws by assumption. apply IH. cbn [mem_ascii] in H. now destruct (ascii_eqb c x).
  - now rewrite drop_ws_cons_nonws.
Qed.

Lemma mem_ascii_rev c s : mem_ascii c (rev s) = mem_ascii c s.
Proof.
  induction s as [|x r IH]; [reflexivity|]. cbn [rev mem_ascii]. rewrite mem_ascii_app, IH. cbn [mem_ascii].
  destruct (ascii_eqb c x); [apply orb_true_r|now rewrite orb_false_r].
Qed.

Lemma mem_ascii_strip c s : mem_ascii c s = false -> mem_ascii c (strip s) = false.
Proof.
  intro H. unfold strip, rstrip. rewrite mem_ascii_rev. apply mem_ascii_drop_ws. rewrite mem_ascii_rev.
  now apply mem_ascii_drop_ws.
Qed.

Lemma before_hash_head c r : ascii_eqb c c_hash = false -> before_hash (c :: r) = c :: before_hash r.
Proof. intro H. cbn [before_hash]. now rewrite H. Qed.

Lemma before_hash_hash r : before_hash (c_hash :: r) = [].
Proof. reflexivity. Qed.

(* a prefix free of hashes survives *)
Lemma before_hash_app p s : mem_ascii c_hash p = false -> before_hash (p ++ s) = p ++ before_hash s.
Proof.
  induction p as [|c p IH]; [reflexivity|]. cbn [mem_ascii app before_hash]. rewrite (ascii_eqb_sym c_hash c).
  destruct (ascii_eqb c c_hash); [discriminate|]. intro H. now rewrite IH.
Qed.

(* ---------------------------------------------------------------- has_sub, starts_with *)

Lemma has_sub_here p s : starts_with p s = true -> has_sub p s = true.
Proof. intro H. destruct s; cbn [has_sub]; now rewrite H. Qed.

Lemma has_sub_cons p c s : has_sub p s = true -> has_sub p (c :: s) = true.
Proof. intro H. cbn [has_sub]. rewrite H. apply orb_true_r. Qed.

Lemma has_sub_app_l p a s : has_sub p s = true -> has_sub p (a ++ s) = true.
Proof. intro H. induction a as [|c a IH]; [exact H|]. cbn [app]. now apply has_sub_cons. Qed.

Lemma starts_with_app p s u : starts_with p s = true -> starts_with p (s ++ u) = true.
Proof.
  revert s. induction p as [|c p IH]; intros s; [reflexivity|]. destruct s as [|d s]; [discriminate|].
  cbn [app starts_with]. destruct (ascii_eqb c d); [apply IH|discriminate].
Qed.

Lemma has_sub_app_r p s u : has_sub p s = true -> has_sub p (s ++ u) = true.
Proof.
  induction s as [|c s IH]; intro H.
  - cbn [has_sub] in H. rewrite orb_false_r in H. destruct p; [|discriminate]. destruct u; reflexivity.
  - cbn [has_sub] in H. apply orb_true_iff in H. destruct H as [H|H].
    + apply has_sub_here. now apply (starts_with_app p (c :: s) u).
    + cbn [app]. apply has_sub_cons. now apply IH.
Qed.

(* ---------------------------------------------------------------- the command name *)

Lemma ci_prefix_ext p s u r : ci_prefix p s = Some r -> ci_prefix p (s ++ u) = Some (r ++ u).
Proof.
  revert s. induction p as [|a p IH]; intros s H; [cbn in *; now inversion H|].
  destruct s as [|b s]; [discriminate|]. cbn [app ci_prefix] in *. destruct (ascii_eqb a (lower_ascii b)); [now apply IH|discriminate].
Qed.

Lemma cs_prefix_ext p s u r : cs_prefix p s = Some r -> cs_prefix p (s ++ u) = Some (r ++ u).
Proof.
  revert s. induction p as [|a p IH]; intros s H; [cbn in *; now inversion H|].
  destruct s as [|b s]; [discriminate|]. cbn [app cs_prefix] in *. destruct (ascii_eqb a b); [now apply IH|discriminate].
Qed.

Lemma drop_ws_ext r c r' u : drop_ws r = c :: r' -> drop_ws (r ++ u) = c :: r' ++ u.
Proof.
  induction r as [|x r IH]; [discriminate|]. destruct (is_pyspace x) eqn:W.
  - rewrite drop_ws_cons_ws by assumption. intro H. cbn [app]. rewrite drop_ws_cons_ws by assumption. now apply IH.
  - rewrite drop_ws_cons_nonws by assumption. intro H. inversion H; subst. cbn [app]. now rewrite drop_ws_cons_nonws.
Qed.

Lemma kw_paren_ext tf kw s u r : kw_paren tf kw s = Some r -> kw_paren tf kw (s ++ u) = Some (r ++ u).
Proof.
  unfold kw_paren. destruct tf.
  - destruct (ci_prefix (lower_str kw) s) as [r0|] eqn:E; [|discriminate]. rewrite (ci_prefix_ext _ _ u _ E).
    destruct (drop_ws r0) as [|c r'] eqn:D; [discriminate|]. rewrite (drop_ws_ext _ _ _ u D).
    destruct (ascii_eqb c c_lp); [|discriminate]. intro H. now inversion H.
  - destruct (cs_prefix kw s) as [r0|] eqn:E; [|discriminate]. rewrite (cs_prefix_ext _ _ u _ E).
    destruct r0 as [|c r']; [discriminate|]. cbn [app]. destruct (ascii_eqb c c_lp); [|discriminate]. intro H. now inversion H.
Qed.

Lemma kw_here_ext tf s u : kw_here tf s = true -> kw_here tf (s ++ u) = true.
Proof.
  unfold kw_here, kw_at. destruct (kw_paren tf kw_required s) as [r|] eqn:A.
  - now rewrite (kw_paren_ext _ _ _ u _ A).
  - destruct (kw_paren tf kw_optional s) as [r|] eqn:B; [|discriminate]. intros _.
    destruct (kw_paren tf kw_required (s ++ u)); [reflexivity|]. now rewrite (kw_paren_ext _ _ _ u _ B).
Qed.

Lemma mentions_here tf s : kw_here tf s = true -> mentions_setup tf s = true.
Proof. intro H. destruct s; cbn [mentions_setup]; now rewrite H. Qed.

Lemma mentions_cons tf c s : mentions_setup tf s = true -> mentions_setup tf (c :: s) = true.
Proof. intro H. cbn [mentions_setup]. rewrite H. apply orb_true_r. Qed.

Lemma mentions_app_l tf a s : mentions_setup tf s = true -> mentions_setup tf (a ++ s) = true.
Proof. intro H. induction a as [|c a IH]; [exact H|]. cbn [app]. now apply mentions_cons. Qed.

Lemma kw_here_nil tf : kw_here tf [] = false.
Proof. destruct tf; reflexivity. Qed.

Lemma mentions_app_r tf s u : mentions_setup tf s = true -> mentions_setup tf (s ++ u) = true.
Proof.
  induction s as [|c s IH]; intro H.
  - cbn [mentions_setup] in H. now rewrite kw_here_nil in H.
  - cbn [mentions_setup] in H. apply orb_true_iff in H. destruct H as [H|H].
    + apply mentions_here. now apply (kw_here_ext tf (c :: s) u).
    + cbn [app]. apply mentions_cons. now apply IH.
Qed.

(* what strip removes: s = a ++ strip s ++ b *)
Lemma drop_ws_split s : exists a, s = a ++ drop_ws s /\ all_ws a = true.
Proof.
  induction s as [|c r [a [IH A]]]; [now exists []|]. destruct (is_pyspace c) eqn:W.
  - rewrite drop_ws_cons_ws by assumption. exists (c :: a). cbn [app]. split; [now f_equal|].
    unfold all_ws in *. cbn [forallb]. now rewrite W.
  - exists []. now rewrite drop_ws_cons_nonws.
Qed.

Lemma rstrip_split s : exists b, s = rstrip s ++ b /\ all_ws b = true.
Proof.
  unfold rstrip. destruct (drop_ws_split (rev s)) as [a [E A]]. exists (rev a). split.
  - rewrite <- rev_app_distr, <- E. symmetry. apply rev_involutive.
  - unfold all_ws in *. now rewrite forallb_rev.
Qed.

Lemma strip_split s : exists a b, s = a ++ strip s ++ b.
Proof.
  destruct (drop_ws_split s) as [a [Ea _]]. destruct (rstrip_split (drop_ws s)) as [b [Eb _]].
  exists a, b. unfold strip. now rewrite <- Eb.
Qed.

Lemma rstrip_app_nonws p c r : is_pyspace c = false -> rstrip (p ++ c :: r) = p ++ c :: rstrip r.
Proof.
  intro W. induction p as [|x p IH]; cbn [app].
  - now apply rstrip_head.
  - rewrite rstrip_cons. replace (all_ws (x :: p ++ c :: r)) with false; [now rewrite IH|].
    unfold all_ws. cbn [forallb]. rewrite forallb_app. cbn [forallb]. rewrite W. cbn [andb]. now rewrite !andb_false_r.
Qed.

Lemma pyspace_not c x : is_pyspace c = true -> is_pyspace x = false -> ascii_eqb c x = false.
Proof. intros Hc Hx. destruct (ascii_eqb_spec c x) as [->|]; [congruence|reflexivity]. Qed.

Lemma hash_not_ws : is_pyspace c_hash = false.
Proof. reflexivity. Qed.
Lemma lp_not_ws : is_pyspace c_lp = false.
Proof. reflexivity. Qed.

Lemma all_ws_no c a : is_pyspace c = false -> all_ws a = true -> mem_ascii c a = false.
Proof.
  intros Wc. induction a as [|x a IH]; [reflexivity|]. unfold all_ws. cbn [forallb mem_ascii]. rewrite andb_true_iff.
  intros [Hx Ha]. rewrite ascii_eqb_sym, (pyspace_not x c Hx Wc). now apply IH.
Qed.

(* the comment-free text of a line whose first visible character is not a hash *)
Lemma drop_ws_before_hash l c r :
  drop_ws l = c :: r -> ascii_eqb c c_hash = false -> drop_ws (before_hash l) = c :: before_hash r.
Proof.
  induction l as [|x l IH]; [discriminate|]. destruct (is_pyspace x) eqn:W.
  - rewrite drop_ws_cons_ws by assumption. intros D H. cbn [before_hash]. rewrite (pyspace_not x c_hash W hash_not_ws).
    rewrite drop_ws_cons_ws by assumption. now apply IH.
  - rewrite drop_ws_cons_nonws by assumption. intros D H. inversion D; subst. cbn [before_hash]. rewrite H.
    now apply drop_ws_cons_nonws.
Qed.

(* ---------------------------------------------------------------- where the command name sits *)

Lemma ci_prefix_split p x r0 :
  ci_prefix p x = Some r0 -> exists p', x = p' ++ r0 /\ forall u, ci_prefix p (p' ++ u) = Some u.
Proof.
  revert x. induction p as [|a p IH]; intros x H.
  - exists []. cbn in H. inversion H. now split.
  - destruct x as [|b x]; [discriminate|]. cbn [ci_prefix] in H. destruct (ascii_eqb a (lower_ascii b)) eqn:E; [|discriminate].
    destruct (IH x H) as [p' [-> F]]. exists (b :: p'). split; [reflexivity|]. intro u. cbn [app ci_prefix]. now rewrite E.
Qed.

Lemma cs_prefix_split p x r0 : cs_prefix p x = Some r0 -> x = p ++ r0.
Proof.
  revert x. induction p as [|a p IH]; intros x H; [cbn in H; now inversion H|].
  destruct x as [|b x]; [discriminate|]. cbn [cs_prefix] in H. destruct (ascii_eqb a b) eqn:E; [|discriminate].
  apply ascii_eqb_eq in E. subst. cbn [app]. f_equal. now apply IH.
Qed.

Lemma kw_paren_split tf kw x r :
  kw_paren tf kw x = Some r -> exists pre, x = pre ++ c_lp :: r /\ kw_paren tf kw (pre ++ [c_lp]) = Some [].
Proof.
  unfold kw_paren. destruct tf.
  - destruct (ci_prefix (lower_str kw) x) as [r0|] eqn:E; [|discriminate].
    destruct (ci_prefix_split _ _ _ E) as [p' [-> F]].
    destruct (drop_ws r0) as [|c r'] eqn:D; [discriminate|]. destruct (ascii_eqb c c_lp) eqn:C; [|discriminate].
    intro H. inversion H; subst. apply ascii_eqb_eq in C. subst c.
    destruct (drop_ws_split r0) as [a [Ea A]]. rewrite D in Ea. exists (p' ++ a). split.
    + now rewrite <- app_assoc, <- Ea.
    + rewrite <- app_assoc, F. rewrite drop_ws_app by assumption. rewrite drop_ws_cons_nonws by reflexivity.
      now rewrite ascii_eqb_refl.
  - destruct (cs_prefix kw x) as [r0|] eqn:E; [|discriminate]. apply cs_prefix_split in E. subst x.
    destruct r0 as [|c r']; [discriminate|]. destruct (ascii_eqb c c_lp) eqn:C; [|discriminate].
    intro H. inversion H; subst. apply ascii_eqb_eq in C. subst c. exists kw. split; [reflexivity|].
    rewrite cs_prefix_app. now rewrite ascii_eqb_refl.
Qed.

Lemma kw_here_split tf x : kw_here tf x = true -> exists pre r, x = pre ++ c_lp :: r /\ kw_here tf (pre ++ [c_lp]) = true.
Proof.
  unfold kw_here, kw_at. destruct (kw_paren tf kw_required x) as [r|] eqn:A.
  - intros _. destruct (kw_paren_split _ _ _ _ A) as [pre [-> K]]. exists pre, r. split; [reflexivity|]. now rewrite K.
  - destruct (kw_paren tf kw_optional x) as [r|] eqn:B; [|discriminate]. intros _.
    destruct (kw_paren_split _ _ _ _ B) as [pre [-> K]]. exists pre, r. split; [reflexivity|].
    destruct (kw_paren tf kw_required (pre ++ [c_lp])); [reflexivity|]. now rewrite K.
Qed.

Lemma kw_here_rstrip tf x : kw_here tf x = true -> kw_here tf (rstrip x) = true.
Proof.
  intro H. destruct (kw_here_split tf x H) as [pre [r [-> K]]]. rewrite rstrip_app_nonws by reflexivity.
  change (pre ++ c_lp :: rstrip r) with (pre ++ [c_lp] ++ rstrip r). rewrite app_assoc. now apply kw_here_ext.
Qed.

(* the first character of a command *)
Definition cmd_head (c : ascii) : Prop := lower_ascii c = "s"%char.

Lemma kw_here_head tf x : kw_here tf x = true -> exists c r, x = c :: r /\ cmd_head c.
Proof.
  unfold kw_here, kw_at, kw_paren, cmd_head. destruct x as [|c r]; [destruct tf; discriminate|]. intro H. exists c, r. split; [reflexivity|].
  destruct tf; cbn [kw_required kw_optional lit String.list_ascii_of_string lower_str map ci_prefix cs_prefix] in H.
  - change (lower_ascii "s"%char) with "s"%char in H. destruct (ascii_eqb "s"%char (lower_ascii c)) eqn:E.
    + apply ascii_eqb_eq in E. now symmetry.
    + discriminate.
  - destruct (ascii_eqb "s"%char c) eqn:E.
    + apply ascii_eqb_eq in E. now subst.
    + discriminate.
Qed.

Lemma cmd_head_facts c : cmd_head c ->
  is_pyspace c = false /\ ascii_eqb c c_hash = false /\ ascii_eqb c "i"%char = false /\ ascii_eqb c "}"%char = false.
Proof.
  unfold cmd_head. intro H. destruct c as [[] [] [] [] [] [] [] []]; try discriminate H; repeat split; reflexivity.
Qed.

Lemma mentions_strip tf s : mentions_setup tf s = false -> mentions_setup tf (strip s) = false.
Proof.
  intro H. destruct (mentions_setup tf (strip s)) eqn:M; [|reflexivity].
  destruct (strip_split s) as [a [b E]]. rewrite E in H.
  rewrite (mentions_app_l tf a _ (mentions_app_r tf _ b M)) in H. discriminate.
Qed.

Lemma has_sub_strip p s : has_sub p s = false -> has_sub p (strip s) = false.
Proof.
  intro H. destruct (has_sub p (strip s)) eqn:M; [|reflexivity].
  destruct (strip_split s) as [a [b E]]. rewrite E in H.
  rewrite (has_sub_app_l p a _ (has_sub_app_r p _ b M)) in H. discriminate.
Qed.

(* ---------------------------------------------------------------- lines_of, unlines *)

Definition no_nl (s : str) : Prop := mem_ascii c_nl s = false.

Lemma split_on_line l r : no_nl l -> split_on c_nl (l ++ c_nl :: r) = l :: split_on c_nl r.
Proof.
  intro H. induction l as [|c l IH]; cbn [app split_on].
  - now rewrite ascii_eqb_refl.
  - unfold no_nl in H. cbn [mem_ascii] in H. rewrite (ascii_eqb_sym c c_nl).
    destruct (ascii_eqb c_nl c); [discriminate|]. now rewrite IH.
Qed.

Lemma lines_of_unlines ls : Forall no_nl ls -> lines_of (unlines ls) = ls.
Proof.
  unfold lines_of. induction 1 as [|l ls H _ IH]; [reflexivity|]. cbn [unlines].
  rewrite split_on_line by assumption. cbn [drop_last_empty].
  destruct (split_on c_nl (unlines ls)) as [|x r] eqn:E; [now apply split_on_nonnil in E|].
  destruct l as [|c l]; [|now rewrite IH]. now rewrite IH.
Qed.
