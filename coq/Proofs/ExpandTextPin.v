(* C17, level A - print / classify round trip for the lines of the exact block:
   classifying the pin line  setupRequired(n -j v)  as expandTableFile writes it gives back (n, -j, v). *)
From Coq Require Import Lia.
From Eupsv Require Import Base.Base Base.BaseLemmas Model.Rx Proofs.RxLib Model.PathAlg Model.Setup Model.Expand Model.ExpandText.
From Eupsv Require Import Proofs.ExpandTextLib Proofs.ExpandText.

(* a character of a product name or version as the round trip needs it: ASCII, no white space, none of
   parentheses, brackets, hash, comma, double quote *)
Definition tok_char (c : ascii) : bool :=
  ascii_ok c && negb (is_pyspace c) &&
  negb (mem_ascii c [c_lp; c_rp; "["%char; "]"%char; c_hash; c_comma; c_dq]).

(* a word: not empty, made of such characters, not starting with a dash *)
Definition tokenish (x : str) : Prop :=
  forallb tok_char x = true /\ match x with c :: _ => ascii_eqb c "-"%char = false | [] => False end.

Lemma tok_char_facts c : tok_char c = true ->
  ascii_ok c = true /\ is_pyspace c = false /\ ascii_eqb c c_lp = false /\ ascii_eqb c c_rp = false /\
  ascii_eqb c "["%char = false /\ ascii_eqb c "]"%char = false /\ ascii_eqb c c_hash = false /\
  ascii_eqb c c_comma = false /\ ascii_eqb c c_dq = false.
Proof.
  unfold tok_char. rewrite !andb_true_iff, !negb_true_iff. intros [[A B] C]. cbn [mem_ascii] in C.
  repeat match type of C with (if ?x then _ else _) = false => destruct x eqn:?; [discriminate|] end.
  repeat split; assumption.
Qed.

Lemma forallb_tok (q : ascii -> bool) x : (forall c, tok_char c = true -> q c = true) -> forallb tok_char x = true -> forallb q x = true.
Proof. intros H. apply forallb_impl. exact H. Qed.

(* ---------------------------------------------------------------- split_set on words and separators *)

Lemma go_word p w : forall acc rest, forallb (fun c => negb (p c)) w = true ->
  split_set_go p acc (w ++ rest) = split_set_go p (acc ++ w) rest.
Proof.
  induction w as [|c w IH]; intros acc rest H; [now rewrite app_nil_r|]. cbn [forallb] in H. apply andb_true_iff in H.
  destruct H as [Hc Hw]. apply negb_true_iff in Hc. cbn [app split_set_go]. rewrite Hc, (IH _ _ Hw), <- app_assoc. reflexivity.
Qed.

Lemma go_sep p c acc rest : p c = true -> acc <> [] -> split_set_go p acc (c :: rest) = acc :: split_set_go p [] rest.
Proof. intros H N. cbn [split_set_go]. rewrite H. destruct acc; [contradiction|reflexivity]. Qed.

Lemma go_seps p s rest : forallb p s = true -> split_set_go p [] (s ++ rest) = split_set_go p [] rest.
Proof.
  induction s as [|c s IH]; [reflexivity|]. cbn [forallb]. rewrite andb_true_iff. intros [H1 H2].
  cbn [app split_set_go]. rewrite H1. now apply IH.
Qed.

Lemma go_end p acc : acc <> [] -> split_set_go p acc [] = [acc].
Proof. destruct acc; [contradiction|reflexivity]. Qed.

(* a word, one or more separators, the rest *)
Lemma split_word p w c s rest : w <> [] -> forallb (fun c => negb (p c)) w = true -> p c = true -> forallb p s = true ->
  split_set p (w ++ c :: s ++ rest) = w :: split_set p rest.
Proof.
  intros N Hw Hc Hs. unfold split_set. rewrite go_word by assumption. cbn [app]. rewrite go_sep by assumption.
  now rewrite go_seps.
Qed.

Lemma split_last_word p w : w <> [] -> forallb (fun c => negb (p c)) w = true -> split_set p w = [w].
Proof.
  intros N Hw. unfold split_set. rewrite <- (app_nil_r w) at 1. rewrite go_word by assumption. now apply go_end.
Qed.

(* ---------------------------------------------------------------- the pin line *)

Definition pin_sline (o : bool) (n v : str) : sline :=
  {| sl_optional := o; sl_name := n; sl_flags := [lit "-j"]; sl_version := Some v; sl_rest := []; sl_logical := None;
     sl_orig := pin_text o n v |}.

Definition pin_args (n v : str) : str := pad15 n ++ lit " -j " ++ v.

Lemma pin_text_eq o n v : pin_text o n v = cmd_name o ++ lit "(" ++ pin_args n v ++ lit ")".
Proof. unfold pin_text, pin_args. now rewrite render_pin. Qed.

Lemma forallb_repeat {A} (q : A -> bool) c n : q c = true -> forallb q (repeat c n) = true.
Proof. intro H. induction n; [reflexivity|]. cbn [repeat forallb]. now rewrite H. Qed.

Lemma pin_args_all (q : ascii -> bool) n v :
  (forall c, tok_char c = true -> q c = true) -> q c_space = true -> q "-"%char = true -> q "j"%char = true ->
  forallb tok_char n = true -> forallb tok_char v = true -> forallb q (pin_args n v) = true.
Proof.
  intros Hq Hs Hd Hj Hn Hv. unfold pin_args, pad15. rewrite !forallb_app. rewrite (forallb_tok q n Hq Hn), (forallb_tok q v Hq Hv).
  rewrite forallb_repeat by assumption. cbn. change (q " "%char) with (q c_space). now rewrite Hs, Hd, Hj.
Qed.

Lemma kw_at_cmd tf o rest : kw_at tf (cmd_name o ++ lit "(" ++ rest) = Some (o, rest).
Proof. destruct tf, o; reflexivity. Qed.

Lemma tokenish_nonnil x : tokenish x -> x <> [].
Proof. intros [_ H] ->. exact H. Qed.

Lemma mem_forallb c (x : str) : forallb (fun d => negb (ascii_eqb d c)) x = true -> mem_ascii c x = false.
Proof.
  induction x as [|d x IH]; [reflexivity|]. cbn [forallb mem_ascii]. rewrite andb_true_iff, negb_true_iff. intros [H1 H2].
  rewrite ascii_eqb_sym, H1. now apply IH.
Qed.

Lemma word_pieces_plain x : tokenish x -> word_pieces x = [x].
Proof.
  intros [F H]. unfold word_pieces. destruct x as [|c r]; [contradiction|].
  assert (Fc : tok_char c = true) by (cbn [forallb] in F; now apply andb_true_iff in F).
  destruct (tok_char_facts c Fc) as [_ [_ [_ [_ [Lb _]]]]]. rewrite Lb. cbn [app].
  destruct (rev (c :: r)) as [|d m] eqn:R; [reflexivity|].
  assert (Fd : tok_char d = true).
  { assert (I : In d (c :: r)) by (apply in_rev; rewrite R; now left). rewrite forallb_forall in F. auto. }
  destruct (tok_char_facts d Fd) as [_ [_ [_ [_ [_ [Rb _]]]]]]. now rewrite Rb.
Qed.

Lemma not_flag x : tokenish x ->
  flag_with_arg x = false /\ flag_plain x = false /\ starts_with (lit "--external") x = false /\ dashed x = false.
Proof.
  intros [_ H]. destruct x as [|c r]; [contradiction|]. unfold flag_with_arg, flag_plain, second_in, dashed.
  cbn [starts_with lit String.list_ascii_of_string]. rewrite (ascii_eqb_sym "-"%char c), H.
  repeat split; destruct r; reflexivity.
Qed.

Lemma inner_match_plain g : forallb not_dq (g ++ [c_rp]) = true -> mem_ascii c_rp g = false ->
  inner_match (g ++ [c_rp]) = Some (g, []).
Proof.
  intros ND NP. unfold inner_match. remember (g ++ [c_rp]) as s eqn:Es. destruct s as [|q r].
  - destruct g; discriminate.
  - pose proof ND as ND'. cbn [forallb] in ND'. apply andb_true_iff in ND'. destruct ND' as [Hq _]. unfold not_dq in Hq.
    apply negb_true_iff in Hq. rewrite Hq. rewrite (span_all not_dq _ ND). rewrite Es, split_last_app by reflexivity.
    reflexivity.
Qed.

Theorem classify_pin tf o n v :
  tokenish n -> tokenish v -> n <> lit "eups" ->
  has_sub (lit "--external") (pin_text o n v) = false ->
  classify_line tf (pin_text o n v) = Inside (LSetup (pin_sline o n v)).
Proof.
  intros Tn Tv Ne Hx. pose proof Tn as [Fn _]. pose proof Tv as [Fv _].
  unfold classify_line. rewrite Hx.
  (* every character is ASCII *)
  replace (forallb ascii_ok (pin_text o n v)) with true.
  2:{ symmetry. rewrite pin_text_eq, !forallb_app. rewrite pin_args_all; try reflexivity; try assumption.
      - destruct o; reflexivity.
      - intros c H. apply (tok_char_facts c H). }
  cbn [negb].
  (* no white space in front, no hash anywhere *)
  destruct (cmd_name_head o) as [cr Ecr].
  assert (Hd : drop_ws (pin_text o n v) = pin_text o n v) by (rewrite pin_text_eq, Ecr; reflexivity).
  rewrite Hd. rewrite pin_text_eq at 1. rewrite Ecr. cbn [app]. change (ascii_eqb "s"%char c_hash) with false. cbv iota.
  assert (NH : mem_ascii c_hash (pin_text o n v) = false).
  { apply mem_forallb. rewrite pin_text_eq, !forallb_app. rewrite pin_args_all; try reflexivity; try assumption.
    - destruct o; reflexivity.
    - intros c H. destruct (tok_char_facts c H) as [_ [_ [_ [_ [_ [_ [Hh _]]]]]]]. now rewrite Hh. }
  rewrite (before_hash_id _ NH).
  replace (mentions_setup tf (pin_text o n v)) with true
    by (symmetry; apply mentions_here; rewrite pin_text_eq; apply kw_here_cmd).
  cbn [negb]. rewrite Hd.
  (* the command pattern *)
  assert (ND : forallb not_dq (pin_args n v ++ lit ")") = true).
  { rewrite forallb_app. rewrite pin_args_all; try reflexivity; try assumption.
    intros c H. destruct (tok_char_facts c H) as [_ [_ [_ [_ [_ [_ [_ [_ Hq]]]]]]]]. unfold not_dq. now rewrite Hq. }
  assert (NP : existsb paren (pin_args n v) = false).
  { apply not_true_is_false. intro X. apply existsb_exists in X. destruct X as [c [I Pc]].
    assert (Q : forallb (fun c => negb (paren c)) (pin_args n v) = true).
    { apply pin_args_all; try reflexivity; try assumption. intros d H.
      destruct (tok_char_facts d H) as [_ [_ [Hl [Hr _]]]]. unfold paren. now rewrite Hl, Hr. }
    rewrite forallb_forall in Q. apply Q in I. now rewrite Pc in I. }
  assert (IM : inner_match (pin_args n v ++ lit ")") = Some (pin_args n v, [])).
  { apply inner_match_plain; [assumption|]. apply mem_forallb. apply pin_args_all; try reflexivity; try assumption.
    intros c H. destruct (tok_char_facts c H) as [_ [_ [_ [Hr _]]]]. now rewrite Hr. }
  unfold cmd_at. rewrite pin_text_eq, kw_at_cmd, IM. cbn [all_ws forallb negb]. rewrite NP.
  rewrite <- pin_text_eq.
  (* the arguments *)
  assert (NS : forall tf', forallb (fun c => negb (is_argsep tf' c)) n = true /\ forallb (fun c => negb (is_argsep tf' c)) v = true).
  { intro tf'. split; (eapply forallb_tok; [|eassumption]); intros c H;
      destruct (tok_char_facts c H) as [_ [Hw [_ [_ [_ [_ [_ [Hc _]]]]]]]]; unfold is_argsep; rewrite Hw, Hc; now destruct tf'. }
  destruct (NS tf) as [Sn Sv].
  assert (SP : split_set (is_argsep tf) (pin_args n v) = [n; lit "-j"; v]).
  { unfold pin_args, pad15. rewrite <- app_assoc.
    change (lit " -j " ++ v) with (c_space :: [] ++ (lit "-j" ++ c_space :: [] ++ v)).
    assert (Rp : forall k, repeat c_space k ++ c_space :: [] ++ (lit "-j" ++ c_space :: [] ++ v)
                           = c_space :: repeat c_space k ++ (lit "-j" ++ c_space :: [] ++ v)).
    { induction k as [|k IH]; [reflexivity|]. cbn [repeat app] in *. now rewrite IH. }
    rewrite Rp. rewrite split_word; [|now apply tokenish_nonnil|assumption|now destruct tf|apply forallb_repeat; now destruct tf].
    rewrite split_word; [|discriminate|now destruct tf|now destruct tf|reflexivity].
    rewrite split_last_word; [reflexivity|now apply tokenish_nonnil|assumption]. }
  unfold classify_args. rewrite SP.
  replace (str_eqb n (lit "eups")) with false by (symmetry; now apply str_eqb_neq).
  destruct (not_flag n Tn) as [A1 [A2 [A3 A4]]]. destruct (not_flag v Tv) as [B1 [B2 [B3 B4]]].
  cbn [scan_args]. rewrite A1, A2, A3, A4, B1, B2, B3, B4. cbn [orb].
  change (flag_with_arg (lit "-j")) with false. change (flag_plain (lit "-j")) with true. cbn [orb].
  rewrite (word_pieces_plain n Tn), (word_pieces_plain v Tv). cbn [app].
  (* the name the closure loop takes *)
  replace (if tf then n else first_piece (pin_args n v)) with n.
  2:{ destruct tf; [reflexivity|]. unfold first_piece, pin_args, pad15. rewrite <- app_assoc.
      assert (Sp : exists rest, repeat c_space (15 - length n) ++ lit " -j " ++ v = c_sp :: rest).
      { destruct (15 - length n); eexists; reflexivity. }
      destruct Sp as [rest ->]. rewrite span_app; [reflexivity| |reflexivity].
      eapply forallb_tok; [|exact Fn]. intros c H. destruct (tok_char_facts c H) as [_ [Hw _]].
      destruct (ascii_eqb c c_sp) eqn:X; [|reflexivity]. apply ascii_eqb_eq in X. subst c. discriminate Hw. }
  rewrite str_eqb_refl. cbn [negb].
  replace (str_eqb v s_lbr) with false.
  2:{ symmetry. apply str_eqb_neq. intros ->. cbn in Fv. discriminate Fv. }
  change (take_bracket []) with (@None str, @nil str).
  assert (St : strip (pin_text o n v) = pin_text o n v) by (rewrite pin_text_eq; apply strip_tight, tight_cmd).
  rewrite St. reflexivity.
Qed.
