(* C17 - [lists_cover] (Proofs/ExpandFull.v), the hypothesis of exact_reproduces about the dependency lists, proved
   for the lists the dependency walk of C13 (Model/DepWalk.v: Table.dependencies with the resolver of C03 inside,
   getDependentProducts without topological sort) returns on the world of the composed setup model
   (Model/SetupFull.v), under the hypotheses exact_reproduces already has about the build (conflict_free: one
   assignment D explains every dependency line of every reachable table, none with -j; no keep in the VRO).

   The tables of the walk are read off the composed world: one dependency line per setup action, with the version /
   expression of the line information and no -t / -k (the composed model has none), so the VRO is handed down
   unchanged (plain_tables) and every line resolves, by vro_lookup_designates (C13 over C03), to what desig - the
   designation conflict_free speaks about - gives: the version D assigns.  Hence every member of the closure
   reach_ok below a product x is reached by the walk from (x, D x) and is listed (dwalk_top_spec). *)
From Coq Require Import Lia.
From Eupsv Require Import Base.Base Base.BaseLemmas Model.PathAlg Model.Setup Model.Resolve Model.ResolveSpec
     Model.SetupFull Model.Expand.
From Eupsv Require Model.Graph Model.DepWalk.
From Eupsv Require Import Proofs.SetupFrame Proofs.SetupFullClosure Proofs.Expand Proofs.ExpandFull.
From Eupsv Require Proofs.DepWalkConst Proofs.DepWalkComplete Proofs.DepWalkEdges Proofs.DepWalkMain.

Import DepWalk.

(* ---------------------------------------------------------------- the tables of the walk, read off the composed world *)

Definition dline_of (x : str) (o j : bool) (li : lineinfo) : dline :=
  mkDline x (li_version li) (li_expr li) [] false o j.

(* one line information per action, as lines_ok reads them *)
Fixpoint dlines_of (acts : list action) (infos : list lineinfo) : list dline :=
  match acts with
  | [] => []
  | ASetup o x j :: r => dline_of x o j (hd no_info infos) :: dlines_of r (tl infos)
  | _ :: r => dlines_of r (tl infos)
  end.

Definition dtables_in (fw : fworld) (w : Setup.world) : dtables :=
  map (fun p => ((p_name p, p_version p), dlines_of (p_actions p) (lines_of fw p))) w.
Definition dtables_of (fw : fworld) : dtables := dtables_in fw (fw_products fw).

Lemma dtable_of_find_pv fw : forall w n v p, find_pv w n v = Some p ->
  dtable_of (dtables_in fw w) n v = Some (dlines_of (p_actions p) (lines_of fw p)).
Proof.
  induction w as [|q w IH]; intros n v p H; [discriminate|]. cbn [find_pv] in H. cbn [dtables_in map dtable_of].
  rewrite (str_eqb_sym n (p_name q)), (str_eqb_sym v (p_version q)).
  destruct (str_eqb (p_name q) n && str_eqb (p_version q) v); [now inversion H|]. now apply IH.
Qed.

Lemma dlines_plain x : forall acts infos, In x (dlines_of acts infos) -> dl_tags x = [] /\ dl_keep x = false.
Proof.
  induction acts as [|a acts IH]; intros infos I; [contradiction|]. destruct a; cbn [dlines_of] in I; try (now apply (IH _ I)).
  destruct I as [<-|I]; [now split|now apply (IH _ I)].
Qed.

Lemma dtable_of_in fw : forall w n v ls, dtable_of (dtables_in fw w) n v = Some ls ->
  exists p, ls = dlines_of (p_actions p) (lines_of fw p).
Proof.
  induction w as [|q w IH]; intros n v ls H; [discriminate|]. cbn [dtables_in map dtable_of] in H.
  destruct (str_eqb n (p_name q) && str_eqb v (p_version q)); [inversion H; eauto|now apply IH in H].
Qed.

Section Walk.
Variable vcmp : str -> str -> comparison.
Variable vmatch : str -> str -> bool.
Variable fw : fworld.
Variable cfg : Setup.config.
Variable rc : Resolve.config.
Variable flavors : list str.
Variable vro : list Resolve.entry.
Variable top : str.
Variable D : str -> option str.

Notation w := (fw_products fw).
Notation db := (db_of cfg fw).
Notation T := (dtables_of fw).

Hypothesis Hwfdb : wf_db db = true.
Hypothesis Hto : forall n, total_order_on vcmp (names_of db n).
Hypothesis Hnokeep : mem_entry EKeep vro = false.
Hypothesis Hlines : forall n v p, reachN fw top n -> D n = Some v -> find_pv w n v = Some p ->
                                  lines_ok vcmp vmatch fw cfg rc flavors vro D (p_actions p) (lines_of fw p).

(* the look-ups of the walk under the VRO of the build *)
Definition wlk : dline -> option found :=
  DepWalkConst.lk_under (line_vro rc) (lookup_at vcmp vmatch rc db flavors) vro.
Definition wlkp : dline -> option str -> option found :=
  DepWalkConst.lkp_under (line_vro rc) (lookup_pinned_at vcmp vmatch rc db flavors) vro.

Lemma line_vro_plain l : dl_tags l = [] -> dl_keep l = false -> line_vro rc vro l = vro.
Proof. intros Ht Hk. unfold line_vro. rewrite Ht, Hk, Hnokeep. reflexivity. Qed.

Lemma tables_plain : DepWalkConst.plain_tables (line_vro rc) vro T.
Proof.
  intros n v ls l Tn I. destruct (dtable_of_in fw _ _ _ _ Tn) as [p ->].
  destruct (dlines_plain l _ _ I). now apply line_vro_plain.
Qed.

(* a line of the composed world resolves to what desig designates *)
Lemma wlk_desig x o j li :
  option_map fd_version (wlk (dline_of x o j li)) = desig vcmp vmatch fw cfg rc flavors vro 1 x li.
Proof.
  unfold wlk, DepWalkConst.lk_under, lookup_at. rewrite line_vro_plain by reflexivity.
  rewrite (DepWalkEdges.vro_lookup_designates vcmp vmatch rc db Hwfdb Hto flavors vro _ 0). reflexivity.
Qed.

Lemma in_dlines o x j : forall acts infos, In (ASetup o x j) acts ->
  lines_ok vcmp vmatch fw cfg rc flavors vro D acts infos ->
  exists li, In (dline_of x o j li) (dlines_of acts infos) /\ j = false /\
             desig vcmp vmatch fw cfg rc flavors vro 1 x li = D x.
Proof.
  induction acts as [|a acts IH]; intros infos I L; [contradiction|]. cbn [lines_ok] in L. destruct L as [La Lr].
  destruct I as [->|I].
  - destruct La as [-> Ld]. exists (hd no_info infos). cbn [dlines_of]. split; [now left|]. split; [reflexivity|assumption].
  - destruct (IH _ I Lr) as [li [Il R]]. exists li. split; [|assumption]. destruct a; cbn [dlines_of]; try assumption. now right.
Qed.

Definition nd (n v : str) : Graph.node := (n, Some v, true).

Lemma table_of_node n v p : find_pv w n v = Some p ->
  dnode_table T (nd n v) = Some (dlines_of (p_actions p) (lines_of fw p)).
Proof. intro F. unfold dnode_table, nd. cbn. now apply dtable_of_find_pv. Qed.

(* the closure below a member of the closure is reached by the walk *)
Lemma reach_is_walked m k : reach_ok fw D m k -> forall vm, reachN fw top m -> D m = Some vm ->
  k = m \/ exists vk, D k = Some vk /\ DepWalkComplete.dreach wlk wlkp T [] (nd m vm) (nd k vk).
Proof.
  induction 1 as [m|m v p o x j k Dm Fm Hin Sx Rxk IH]; intros vm Rm Dvm; [now left|]. right.
  rewrite Dm in Dvm. injection Dvm as <-.
  destruct (in_dlines o x j _ _ Hin (Hlines m v p Rm Dm Fm)) as [li [Il [-> Dx]]].
  inversion Sx as [n vx px Dxv Fx _]; subst n.
  assert (Rx : reachN fw top x) by (eapply reachN_step; [exact Rm|exact (proj1 (find_pv_spec w m v p Fm))|exact Hin]).
  set (l := dline_of x o false li) in *.
  assert (Dl : DepWalkComplete.dline_in T (nd m v) l).
  { exists (dlines_of (p_actions p) (lines_of fw p)). split; [exact (table_of_node m v p Fm)|exact Il]. }
  assert (Tg : DepWalkComplete.dtg wlk wlkp [] l = nd x vx).
  { unfold DepWalkComplete.dtg, DepWalkConst.cresolve. cbn [Graph.pin_of]. pose proof (wlk_desig x o false li) as Q.
    fold l in Q. rewrite Dx, Dxv in Q. destruct (wlk l) as [fd|]; [|discriminate]. cbn in Q. injection Q as Q.
    unfold tgt_of, nd. now rewrite Q. }
  destruct (IH vx Rx Dxv) as [->|[vk [Dk Rk]]].
  - exists vx. split; [assumption|]. rewrite <- Tg. now apply DepWalkComplete.dr_one.
  - exists vk. split; [assumption|]. eapply DepWalkComplete.dr_more; [exact Dl|reflexivity|]. now rewrite Tg.
Qed.

(* ---------------------------------------------------------------- the lists *)

Definition dep_of_entry (en : Graph.entry) : dep :=
  {| d_name := Graph.nname (Graph.enode en); d_optional := Graph.eoptional en; d_depth := Graph.edepth en |}.

(* getDependentProducts(product n v) without topological sort, as names *)
Definition walk_list (fuel : nat) (n v : str) : list dep :=
  match dep_products2 (line_vro rc) (lookup_at vcmp vmatch rc db flavors) (lookup_pinned_at vcmp vmatch rc db flavors)
                      (vro_pref_ok rc vro) vro fuel T T (nd n v) false false with
  | Ok l => map dep_of_entry l
  | Err _ => []
  end.

Definition walk_lists (fuel : nat) (names : list (str * str)) : rawdeps :=
  map (fun nv => (fst nv, snd nv, walk_list fuel (fst nv) (snd nv))) names.

Lemma lookup_raw_walk fuel n v : forall names, In (n, v) names -> lookup_raw (walk_lists fuel names) n v = walk_list fuel n v.
Proof.
  induction names as [|[n' v'] names IH]; intro I; [contradiction|]. cbn [walk_lists map lookup_raw fst snd].
  destruct (str_eqb n' n && str_eqb v' v) eqn:E.
  - apply andb_true_iff in E. destruct E as [E1 E2]. apply str_eqb_eq in E1, E2. now subst.
  - destruct I as [I|I]; [|now apply IH]. inversion I; subst. now rewrite !str_eqb_refl in E.
Qed.

Lemma walk_list_complete fuel n v k vk : length T < fuel -> k <> n ->
  DepWalkComplete.dreach wlk wlkp T [] (nd n v) (nd k vk) -> exists d, In d (walk_list fuel n v) /\ d_name d = k.
Proof.
  intros Hf Nk R. unfold walk_list.
  destruct (DepWalkMain.listing_plain_general (line_vro rc) (lookup_at vcmp vmatch rc db flavors)
              (lookup_pinned_at vcmp vmatch rc db flavors) (vro_pref_ok rc vro) vro fuel T T (nd n v) tables_plain Hf)
    as [l [-> Hl]].
  assert (I : In (nd k vk) (map Graph.enode l)).
  { apply Hl. split; [intro E; inversion E; contradiction|exact R]. }
  apply in_map_iff in I. destruct I as [en [E I]]. exists (dep_of_entry en). split; [now apply in_map|].
  unfold dep_of_entry. cbn [d_name]. now rewrite E.
Qed.

(* [lists_cover] for the lists of the walk.  What ties the table TEXT of top to the composed world stays a
   hypothesis: the setup lines of the classified table name the dependency actions of top's table (the two readers
   of the text - Table._read for the build, the scanner of expandTableFile - see the same commands), none with -j,
   none naming top itself; and the lists were asked for every such line's product at its assigned version. *)
Theorem lists_cover_walk fuel names ls topv ptop :
  length T < fuel ->
  D top = Some topv -> find_pv w top topv = Some ptop ->
  (forall o x j, In (ASetup o x j) (p_actions ptop) ->
     x <> top /\ exists s, In (LSetup s) ls /\ sl_name s = x /\ mem_str (lit "-j") (sl_flags s) = false) ->
  (forall s va, In (LSetup s) ls -> D (sl_name s) = Some va -> In (sl_name s, va) names) ->
  lists_cover fw D top (walk_lists fuel names) ls.
Proof.
  intros Hf Dt Ft Tie Nm k Rk Nk. inversion Rk as [|m v p o x j k' Dm Fm Hin Sx Rxk]; subst; [contradiction|].
  rewrite Dt in Dm. injection Dm as <-. rewrite Ft in Fm. injection Fm as <-.
  destruct (Tie o x j Hin) as [Nx [s [Is [Es Js]]]]. inversion Sx as [n vx px Dx Fx _]; subst n.
  assert (Rtop : reachN fw top top) by constructor.
  assert (Rx : reachN fw top x) by (eapply reachN_step; [exact Rtop|exact (proj1 (find_pv_spec w top topv ptop Ft))|exact Hin]).
  exists s, vx. split; [assumption|]. split; [now rewrite Es|]. split.
  - rewrite Es. eapply ro_dep; [exact Dt|exact Ft|exact Hin|exact Sx|constructor].
  - split; [now rewrite Es|]. destruct (reach_is_walked x k Rxk vx Rx Dx) as [->|[vk [Dk Rw]]]; [left; now rewrite Es|].
    destruct (str_eq_dec k x) as [->|Nkx]; [left; now rewrite Es|]. right. split; [assumption|].
    rewrite Es. rewrite lookup_raw_walk by (rewrite <- Es; apply Nm; [assumption|now rewrite Es]).
    eapply walk_list_complete; eauto.
Qed.
End Walk.
