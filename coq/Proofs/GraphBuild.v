(* The repaired second walk of getDependentProducts (D16): the graph handed to topologicalSort is the
   graph of the closure of the top product, every node with its own edges, whatever the closure holds
   (two versions of one name, stubs, cycles); hence the build order and the exact outcome of the cycle
   check in terms of the declared products. *)
From Coq Require Import Lia Permutation.
From Eupsv Require Import Base.Base Base.BaseLemmas Model.Graph Proofs.GraphLib Proofs.GraphWalk
     Proofs.GraphListing Proofs.GraphLayers Proofs.GraphTarjan Proofs.GraphPartition Proofs.GraphOrder
     Proofs.GraphTarjanLib Proofs.GraphTarjanFull Proofs.GraphTotal.

(* ------------------------------------------------------------ depths per product *)
Lemma dbnode_other NL x : forall i nl m,
  (forall j, ~ In x (nth j NL [])) -> low_get (depth_by_node NL i nl m) x = low_get m x.
Proof.
  induction NL as [|l r IH]; intros i nl m H; simpl; [reflexivity|].
  rewrite IH.
  - apply fold_low_get_out. apply (H 0).
  - intros j. apply (H (S j)).
Qed.

Lemma dbnode_spec NL x : forall i nl m j,
  (forall j', In x (nth j' NL []) -> j' = j) -> In x (nth j NL []) ->
  low_get (depth_by_node NL i nl m) x = Some (nl - (i + j) - 1).
Proof.
  induction NL as [|l r IH]; intros i nl m j Hu Hx; [destruct j; destruct Hx|].
  simpl. destruct j as [|j]; simpl in Hx.
  - rewrite dbnode_other.
    + rewrite (fold_low_get_in l _ m x Hx). f_equal. lia.
    + intros j' Iy. specialize (Hu (S j') Iy). discriminate.
  - rewrite (IH (S i) nl _ j).
    + f_equal. lia.
    + intros j' Iy. specialize (Hu (S j') Iy). lia.
    + exact Hx.
Qed.

(* ------------------------------------------------------------ the graph of the second walk *)
Record closure_graph (w : world) (top : node) (G : graph) : Prop := {
  cgr_edge : forall a b, gedge G a b <-> closure w top a /\ step w a b /\ a <> b;
  cgr_keys : forall n, In n (gkeys G) -> closure w top n;
  cgr_reach : forall n, reach_plus w top n -> In n (gkeys G);
  cgr_nodup : NoDup (gkeys G)
}.

Lemma second_walk_graph w top fuel out1 st1 out2 st2 es :
  length w < fuel -> wf_world w -> node_table w top = Some es ->
  walk_top fuel w [] top = Ok (out1, st1) ->
  walk_top fuel w (pins_fixed top (drop_top top out1)) top = Ok (out2, st2) ->
  closure_graph w top (prepare (pd st2)).
Proof.
  intros Hf Hwf Ttop E1 E2.
  destruct (walk_top_spec w [] top fuel Hf) as [out1' [st1' [E1' Hout1]]].
  rewrite E1 in E1'. inversion E1'. subst out1' st1'. clear E1'.
  set (dp := drop_top top out1) in *.
  set (pins := pins_fixed top dp) in *.
  assert (Hdp : forall q, In q (map enode dp) <-> q <> top /\ reach_plus w top q).
  { intros q. unfold dp. rewrite drop_top_nodes, Hout1. reflexivity. }
  destruct (walk_top_full w pins top fuel es Hf Ttop) as [out2' [st2' [E2' [Hout2 [Hg [Hvis [Hreal Hkeys]]]]]]].
  rewrite E2 in E2'. inversion E2'. subst out2' st2'. clear E2'.
  pose proof (pins_agree w top dp Hwf Hdp) as Hag. fold pins in Hag.
  destruct (reach_agree w pins top Hag) as [Hs Hr].
  assert (Ctop : closure w top top) by (left; reflexivity).
  set (G0 := pd st2) in *.
  assert (Hsrc : forall a, a = top \/ In a (vis st2) -> closure w top a).
  { intros a [-> | H]; [exact Ctop|]. right. apply Hr; [exact Ctop|]. apply Hvis, H. }
  assert (Hsrc' : forall a b, closure w top a -> step w a b -> a = top \/ In a (vis st2)).
  { intros a b [-> | R] S; [auto|]. right. apply Hreal.
    - apply Hr; [exact Ctop | exact R].
    - destruct S as [es_a [e [T _]]]. eapply node_table_real; eauto. }
  constructor.
  - intros a b. split.
    + intros H. apply prepare_gedge in H as [H Ne]. apply Hg in H as [Ha Hst].
      pose proof (Hsrc a Ha) as Ca. split; [exact Ca|]. split; [apply Hs; auto | exact Ne].
    + intros [Ca [S Ne]]. apply prepare_gedge. split; [|exact Ne]. apply Hg. split; [eapply Hsrc'; eauto|].
      apply Hs; auto.
  - intros n H. apply prepare_keys in H as [H | [k H]].
    + apply Hsrc, Hkeys, H.
    + apply Hg in H as [Hk Hst]. pose proof (Hsrc k Hk) as Ck. eapply closure_step; [exact Ck|]. apply Hs; auto.
  - intros n R. destruct (reach_plus_last w top n R) as [k [Ck Sk]]. apply prepare_keys. right. exists k.
    apply Hg. split; [eapply Hsrc'; eauto | apply Hs; auto].
  - apply prepare_keys_nodup. eapply walk_top_pd_nodup; eauto.
Qed.

(* paths of the graph are paths through the tables, and back (self dependencies dropped) *)
Lemma closure_graph_path w top G : closure_graph w top G ->
  forall a b, gpath G a b -> closure w top a /\ reach_plus w a b.
Proof.
  intros CG a b P. induction P as [a b E | a b c E _ [_ IH]].
  - apply (cgr_edge _ _ _ CG) in E as [Ca [S _]]. split; [exact Ca|]. apply rp_one, step_is_stepP, S.
  - apply (cgr_edge _ _ _ CG) in E as [Ca [S _]]. split; [exact Ca|]. eapply rp_more; [apply step_is_stepP, S | exact IH].
Qed.

Lemma closure_graph_reach w top G : closure_graph w top G ->
  forall a b, reach_plus w a b -> closure w top a -> a = b \/ gpath G a b.
Proof.
  intros CG a b R. unfold reach_plus in R. induction R as [a b S | a b c S R IH]; intros Ca.
  - apply step_is_stepP in S. destruct (node_eq_dec a b) as [-> | Ne]; [auto|]. right. apply gp_one.
    apply (cgr_edge _ _ _ CG). auto.
  - apply step_is_stepP in S. assert (Cb : closure w top b) by (eapply closure_step; eauto).
    destruct (node_eq_dec a b) as [-> | Ne]; [apply IH, Cb|].
    assert (E : gedge G a b) by (apply (cgr_edge _ _ _ CG); auto).
    destruct (IH Cb) as [<- | P]; right; [apply gp_one, E | eapply gp_more; eauto].
Qed.

Lemma gpath_trans g a b c : gpath g a b -> gpath g b c -> gpath g a c.
Proof. intros P Q. induction P as [a b E | a b d E _ IH]; [eapply gp_more; eauto | eapply gp_more; [exact E | apply IH, Q]]. Qed.

(* a cycle worth the name: two different products of the closure that need each other *)
Definition proper_cycle (w : world) (top : node) : Prop :=
  exists p q, closure w top p /\ p <> q /\ reach_plus w p q /\ reach_plus w q p.

Lemma closure_graph_cyclic w top G : closure_graph w top G -> proper_cycle w top -> ~ acyclic G.
Proof.
  intros CG [p [q [Cp [Ne [R1 R2]]]]] Ha.
  assert (Cq : closure w top q).
  { destruct Cp as [-> | Rp]; right; [exact R1|]. clear - Rp R1. unfold reach_plus in *.
    induction Rp as [a b S | a b c S _ IH]; [eapply rp_more; eauto | eapply rp_more; [exact S | apply IH, R1]]. }
  destruct (closure_graph_reach w top G CG p q R1 Cp) as [? | P1]; [contradiction|].
  destruct (closure_graph_reach w top G CG q p R2 Cq) as [? | P2]; [congruence|].
  apply (Ha p). eapply gpath_trans; eauto.
Qed.

Lemma closure_graph_acyclic w top G : closure_graph w top G -> ~ proper_cycle w top -> acyclic G.
Proof.
  intros CG Hn a P. apply Hn.
  inversion P as [a' b' E | a' b' c' E P']; subst.
  - apply (cgr_edge _ _ _ CG) in E as [_ [_ Ne]]. congruence.
  - pose proof E as E0. apply (cgr_edge _ _ _ CG) in E as [Ca [S Ne]].
    exists a, b'. split; [exact Ca|]. split; [exact Ne|]. split; [apply rp_one, step_is_stepP, S|].
    apply (closure_graph_path w top G CG b' a P').
Qed.

(* ------------------------------------------------------------ the pieces of a topological listing *)
Lemma dependent_products_inv w top fuel l :
  length w < fuel -> dependent_products fuel w top true = Ok l ->
  exists out1 st1 out2 st2 NL,
    walk_top fuel w [] top = Ok (out1, st1) /\
    (forall q, In q (map enode (drop_top top out1)) <-> q <> top /\ reach_plus w top q) /\
    walk_top fuel w (pins_fixed top (drop_top top out1)) top = Ok (out2, st2) /\
    topo_layers_with node_cmp false (pd st2) = Ok NL /\
    l = topo_finish true NL (drop_top top out1).
Proof.
  intros Hf D. unfold dependent_products, dependent_products_with in D.
  destruct (walk_top_spec w [] top fuel Hf) as [out1 [st1 [E1 Hout1]]]. rewrite E1 in D. cbn [negb] in D.
  cbv zeta in D. unfold pins_for in D.
  destruct (walk_top fuel w (pins_fixed top (drop_top top out1)) top) as [[out2 st2]|] eqn:E2; [|discriminate].
  destruct (topo_layers_with node_cmp false (pd st2)) as [NL|] eqn:ET; [|discriminate].
  inversion D. subst l. exists out1, st1, out2, st2, NL. split; [exact E1|]. split.
  - intros q. rewrite drop_top_nodes, Hout1. reflexivity.
  - auto.
Qed.

(* ------------------------------------------------------------ the build order *)

(* every listed product that needs another listed product has a strictly smaller depth, unless the two
   lie on a common cycle (where no order exists).  No hypothesis on what the closure holds. *)
Theorem build_order_general w top fuel l :
  length w < fuel -> wf_world w ->
  dependent_products fuel w top true = Ok l ->
  forall x y, In x l -> In y l -> step w (enode x) (enode y) ->
    ~ reach_plus w (enode y) (enode x) -> edepth x < edepth y.
Proof.
  intros Hf Hwf D x y Ix Iy Sxy Nyx.
  destruct (dependent_products_inv w top fuel l Hf D) as [out1 [st1 [out2 [st2 [NL [E1 [Hdp [E2 [ET ->]]]]]]]]].
  set (dp := drop_top top out1) in *.
  set (tn := depth_by_node NL 0 (S (length NL)) []).
  set (td := depth_by_name NL 0 (S (length NL)) []).
  destruct (topo_finish_entry true NL dp x Ix) as [x0 [Ix0 [Ex Dx]]].
  destruct (topo_finish_entry true NL dp y Iy) as [y0 [Iy0 [Ey Dy]]].
  fold tn td in Dx, Dy.
  assert (Rx : enode x <> top /\ reach_plus w top (enode x)) by (apply Hdp; rewrite Ex; apply in_map, Ix0).
  assert (Ry : enode y <> top /\ reach_plus w top (enode y)) by (apply Hdp; rewrite Ey; apply in_map, Iy0).
  destruct (reach_first_table _ _ _ _ (proj2 Rx)) as [es Ttop].
  pose proof (second_walk_graph w top fuel out1 st1 out2 st2 es Hf Hwf Ttop E1 E2) as CG.
  set (G := prepare (pd st2)) in *.
  destruct (topo_layers_with_inv _ _ _ _ ET) as [cs [L [Escc [Elay Esort]]]]. fold G in Escc, Elay.
  destruct (scc_correct G (cgr_nodup _ _ _ CG) (prepare_closed (pd st2))) as [cs' [Escc' Sp]].
  rewrite Escc in Escc'. inversion Escc'. subst cs'. clear Escc'.
  pose proof (ss_nodup _ _ Sp) as ND.
  destruct (sort_layers_spec L NL Esort) as [Hlen Hmem].
  (* where a node of G sits, and the depth it gets *)
  assert (Hnode : forall n c, comp_of cs n = Some c ->
            lidx L c < length NL /\ low_get tn n = Some (length NL - lidx L c)).
  { intros n c Hc. apply comp_of_In in Hc as [Ic In_]. set (j := lidx L c).
    assert (Ij : In c (nth j L [])) by (apply (comp_layers_yields _ _ _ _ Elay), Ic).
    assert (Jlt : j < length L).
    { destruct (Nat.lt_ge_cases j (length L)) as [H | H]; [exact H|]. rewrite nth_overflow in Ij by exact H. destruct Ij. }
    split; [lia|].
    assert (Hdb : low_get tn n = Some (S (length NL) - (0 + j) - 1)).
    { apply dbnode_spec.
      - intros j' Iz. apply Hmem in Iz. apply in_concat in Iz as [c' [Ic' Inc']].
        assert (Ics : In c' cs) by (eapply comp_layers_elems; eauto).
        assert (c' = c).
        { rewrite <- (cidx_unique cs c' n ND Ics Inc'). apply cidx_unique; auto. }
        subst c'. eapply comp_layers_unique; eauto.
      - apply Hmem. apply in_concat. exists c. split; [exact Ij | exact In_]. }
    rewrite Hdb. f_equal. lia. }
  assert (Cx : closure w top (enode x)) by (right; apply Rx).
  assert (Nxy : enode x <> enode y).
  { intros Q. apply Nyx. rewrite <- Q. rewrite <- Q in Sxy. apply rp_one, step_is_stepP, Sxy. }
  assert (Exy : gedge G (enode x) (enode y)) by (apply (cgr_edge _ _ _ CG); auto).
  pose proof Exy as [ss [I1 I2]].
  destruct (comp_layers_order _ _ _ _ Elay _ _ _ I1 I2) as [ca [cb [Ha [Hb Hord]]]].
  destruct (Hnode _ _ Ha) as [La Ta]. destruct (Hnode _ _ Hb) as [Lb Tb].
  destruct Hord as [Q | Hord].
  - exfalso. subst cb. apply comp_of_In in Ha as [Ica Ixa]. apply comp_of_In in Hb as [_ Iya].
    destruct (ss_sc _ _ Sp ca Ica) as [_ Hsc]. specialize (Hsc _ _ Iya Ixa).
    destruct (gstar_path G _ _ Hsc) as [Q | P]; [congruence|].
    apply Nyx. apply (closure_graph_path w top G CG _ _ P).
  - unfold relabel in Dx, Dy. rewrite <- Ex in Dx. rewrite <- Ey in Dy. rewrite Ta in Dx. rewrite Tb in Dy.
    unfold edepth in Dx at 2. unfold edepth in Dy at 2. simpl in Dx, Dy. lia.
Qed.

(* on a closure without cycles: every edge between listed products is ordered *)
Theorem build_order w top fuel l :
  length w < fuel -> wf_world w -> acyclic_from w top ->
  dependent_products fuel w top true = Ok l ->
  forall x y, In x l -> In y l -> step w (enode x) (enode y) -> edepth x < edepth y.
Proof.
  intros Hf Hwf Hac D x y Ix Iy Sxy.
  apply (build_order_general w top fuel l Hf Hwf D x y Ix Iy Sxy).
  intros R.
  destruct (listing_topological true node_cmp w top fuel l Hf D) as [HL _].
  assert (Cx : closure w top (enode x)) by (right; apply HL, in_map, Ix).
  apply (Hac _ Cx). eapply rp_more; [apply step_is_stepP, Sxy | exact R].
Qed.

(* ------------------------------------------------------------ the cycle check, in terms of the declared products *)
Lemma topo_graph_closure w top fuel g :
  length w < fuel -> wf_world w -> topo_graph fuel w top = Ok g ->
  (exists es, node_table w top = Some es) -> closure_graph w top g.
Proof.
  intros Hf Hwf Hg [es Ttop]. unfold topo_graph, topo_graph_with, pins_for in Hg.
  destruct (walk_top fuel w [] top) as [[out1 st1]|] eqn:E1; [|discriminate].
  destruct (walk_top fuel w (pins_fixed top (drop_top top out1)) top) as [[out2 st2]|] eqn:E2; [|discriminate].
  inversion Hg. subst g. eapply second_walk_graph; eauto.
Qed.

Lemma gpath_prepare_prepared g a b : gpath (prepare (prepare g)) a b <-> gpath (prepare g) a b.
Proof.
  assert (He : forall x y, gedge (prepare (prepare g)) x y <-> gedge (prepare g) x y).
  { intros x y. rewrite (prepare_gedge (prepare g)). split; [tauto|]. intros H. split; [exact H|].
    apply (prepare_gedge g x y), H. }
  split; intros P; induction P as [x y E | x y z E _ IH].
  - apply gp_one, He, E.
  - eapply gp_more; [apply He, E | exact IH].
  - apply gp_one, He, E.
  - eapply gp_more; [apply He, E | exact IH].
Qed.

Lemma no_table_no_cycle w top : node_table w top = None -> ~ proper_cycle w top.
Proof.
  intros Tn [p [q [Cp [_ [R1 _]]]]].
  assert (Hno : forall x, ~ reach_plus w top x).
  { intros x R. destruct (reach_first_table _ _ _ _ R) as [es T]. congruence. }
  destruct Cp as [-> | Rp]; [apply (Hno _ R1) | apply (Hno _ Rp)].
Qed.

Theorem world_cycle_reported w top fuel g :
  length w < fuel -> wf_world w -> topo_graph fuel w top = Ok g ->
  proper_cycle w top -> check_cycles g = Err Refused.
Proof.
  intros Hf Hwf Hg Hc.
  destruct (node_table w top) as [es|] eqn:Ttop; [|destruct (no_table_no_cycle w top Ttop Hc)].
  pose proof (topo_graph_closure w top fuel g Hf Hwf Hg (ex_intro _ es Ttop)) as CG.
  apply check_cycles_refused; [apply (cgr_nodup _ _ _ CG)|].
  intros Ha. apply (closure_graph_cyclic w top g CG Hc).
  unfold topo_graph, topo_graph_with in Hg.
  destruct (walk_top fuel w [] top) as [[out1 st1]|]; [|discriminate].
  destruct (walk_top fuel w _ top) as [[out2 st2]|]; [|discriminate].
  inversion Hg. subst g. intros a P. apply (Ha a). apply gpath_prepare_prepared, P.
Qed.

Theorem world_without_cycle_passes w top fuel g :
  length w < fuel -> wf_world w -> topo_graph fuel w top = Ok g ->
  ~ proper_cycle w top -> exists NL, check_cycles g = Ok NL.
Proof.
  intros Hf Hwf Hg Hc.
  destruct (node_table w top) as [es|] eqn:Ttop.
  - pose proof (topo_graph_closure w top fuel _ Hf Hwf Hg (ex_intro _ es Ttop)) as CG.
    assert (Hshape : exists g0, g = prepare g0 /\ NoDup (gkeys g0)).
    { unfold topo_graph, topo_graph_with in Hg.
      destruct (walk_top fuel w [] top) as [[out1 st1]|]; [|discriminate].
      destruct (walk_top fuel w _ top) as [[out2 st2]|] eqn:E2; [|discriminate].
      inversion Hg. exists (pd st2). split; [reflexivity|]. eapply walk_top_pd_nodup; eauto. }
    destruct Hshape as [g0 [-> ND0]].
    apply check_cycles_passes; [apply prepare_keys_nodup, ND0|].
    intros a P. apply (proj1 (gpath_prepare_prepared g0 a a)) in P. revert a P. change (acyclic (prepare g0)).
    exact (closure_graph_acyclic w top _ CG Hc).
  - unfold topo_graph, topo_graph_with, walk_top in Hg. rewrite Ttop in Hg. inversion Hg.
    eexists. vm_compute. reflexivity.
Qed.

(* ------------------------------------------------------------ deciding the hypotheses on a concrete world *)
Definition two_versions_b (l : list node) : bool :=
  existsb (fun p => existsb (fun q => str_eqb (nname p) (nname q) && negb (node_eqb p q)) l) l.
