(* Layering of the component graph (utils.topologicalSort after Tarjan): every edge between two
   different components goes to a strictly earlier layer, whatever the component list is. *)
From Coq Require Import Lia.
From Eupsv Require Import Base.Base Base.BaseLemmas Model.Graph Proofs.GraphLib.

Lemma comp_eqb_eq a b : comp_eqb a b = true <-> a = b.
Proof.
  revert b. induction a as [|x a IH]; destruct b as [|y b]; simpl; try (split; congruence).
  rewrite andb_true_iff, node_eqb_eq, IH. split; [intros [-> ->]; reflexivity | intros H; inversion H; auto].
Qed.

Lemma comp_eqb_refl a : comp_eqb a a = true.
Proof. apply comp_eqb_eq. reflexivity. Qed.

Lemma comp_eqb_neq a b : comp_eqb a b = false <-> a <> b.
Proof.
  split.
  - intros H E. apply comp_eqb_eq in E. congruence.
  - intros H. destruct (comp_eqb a b) eqn:E; [apply comp_eqb_eq in E; contradiction | reflexivity].
Qed.

Lemma comp_eq_dec (a b : comp) : {a = b} + {a <> b}.
Proof. destruct (comp_eqb a b) eqn:E; [left; apply comp_eqb_eq, E | right; apply comp_eqb_neq, E]. Qed.

Lemma mem_comp_In c l : mem_comp c l = true <-> In c l.
Proof.
  induction l as [|d l IH]; simpl; [split; [discriminate | tauto]|].
  destruct (comp_eqb c d) eqn:E.
  - apply comp_eqb_eq in E. subst. tauto.
  - apply comp_eqb_neq in E. rewrite IH. split; [tauto | intros [H | H]; [congruence | assumption]].
Qed.

Lemma mem_comp_not_In c l : mem_comp c l = false <-> ~ In c l.
Proof. rewrite <- mem_comp_In. destruct (mem_comp c l); split; congruence. Qed.

(* index of the first layer holding a component *)
Fixpoint lidx (L : list (list comp)) (c : comp) : nat :=
  match L with
  | [] => 0
  | l :: r => if mem_comp c l then 0 else S (lidx r c)
  end.

Definition is_nil {A} (l : list A) : bool := match l with [] => true | _ => false end.

Lemma peel_unfold f m :
  peel (S f) m =
  let ordered := map fst (filter (fun it => match snd it with [] => true | _ => false end) m) in
  match ordered with
  | [] => match m with [] => Ok [] | _ => Err Crash end
  | _ => match peel f (map (fun it => (fst it, remove_comps ordered (snd it)))
                          (filter (fun it => negb (mem_comp (fst it) ordered)) m)) with
         | Err x => Err x
         | Ok L => Ok (ordered :: L)
         end
  end.
Proof. reflexivity. Qed.

Lemma NoDup_map_filter {A B} (f : A -> B) (p : A -> bool) l : NoDup (map f l) -> NoDup (map f (filter p l)).
Proof.
  induction l as [|x l IH]; simpl; [auto|]. intros H. inversion H as [|? ? N D]. subst.
  destruct (p x); simpl; [|auto]. constructor; [|auto].
  intros I. apply N. apply in_map_iff in I as [y [E I]]. apply filter_In in I as [I _].
  rewrite <- E. apply in_map, I.
Qed.

Lemma ordered_In (m : cgraph) c :
  In c (map fst (filter (fun it => match snd it with [] => true | _ => false end) m)) <-> In (c, []) m.
Proof.
  rewrite in_map_iff. split.
  - intros [[k d] [<- H]]. apply filter_In in H as [H1 H2]. simpl in *. destruct d; [exact H1 | discriminate].
  - intros H. exists (c, []). split; [reflexivity|]. apply filter_In. auto.
Qed.

Lemma NoDup_keys_functional {A B} (m : list (A * B)) k v v' :
  NoDup (map fst m) -> In (k, v) m -> In (k, v') m -> v = v'.
Proof.
  induction m as [|[k0 v0] m IH]; simpl; [tauto|]. intros H. inversion H as [|? ? N D]. subst.
  intros [E | I] [E' | I'].
  - congruence.
  - inversion E. subst. exfalso. apply N. apply in_map_iff. exists (k, v'). auto.
  - inversion E'. subst. exfalso. apply N. apply in_map_iff. exists (k, v). auto.
  - auto.
Qed.

(* the heart: a component is yielded strictly after each of its successor components *)
Lemma peel_order f : forall m L,
  peel f m = Ok L -> NoDup (map fst m) ->
  forall c deps d, In (c, deps) m -> In d deps -> lidx L d < lidx L c.
Proof.
  induction f as [|f IH]; intros m L; [discriminate|].
  rewrite peel_unfold. cbv zeta.
  set (ordered := map fst (filter (fun it => match snd it with [] => true | _ => false end) m)).
  destruct ordered as [|o1 orest] eqn:Eo.
  - destruct m; [|discriminate]. intros _ _ c deps d [].
  - rewrite <- Eo. set (m' := map _ _).
    destruct (peel f m') as [L'|] eqn:Ep; [|discriminate].
    intros Q ND c deps d Ic Id. inversion Q. subst L. clear Q.
    assert (Hc : ~ In c ordered).
    { intros I. apply ordered_In in I. pose proof (NoDup_keys_functional m c deps [] ND Ic I). subst. destruct Id. }
    assert (ND' : NoDup (map fst m')).
    { unfold m'. rewrite map_map. simpl. apply NoDup_map_filter. exact ND. }
    assert (Ic' : In (c, remove_comps ordered deps) m').
    { unfold m'. apply in_map_iff. exists (c, deps). split; [reflexivity|]. apply filter_In. split; [exact Ic|].
      simpl. apply negb_true_iff, mem_comp_not_In, Hc. }
    cbn [lidx]. apply mem_comp_not_In in Hc. rewrite Hc.
    destruct (mem_comp d ordered) eqn:Ed; [lia|].
    assert (Id' : In d (remove_comps ordered deps)).
    { unfold remove_comps. apply filter_In. split; [exact Id|]. rewrite Ed. reflexivity. }
    specialize (IH m' L' Ep ND' c _ d Ic' Id'). lia.
Qed.

(* and it is yielded *)
Lemma peel_yields f : forall m L,
  peel f m = Ok L -> forall c deps, In (c, deps) m -> In c (nth (lidx L c) L []).
Proof.
  induction f as [|f IH]; intros m L; [discriminate|].
  rewrite peel_unfold. cbv zeta.
  set (ordered := map fst (filter (fun it => match snd it with [] => true | _ => false end) m)).
  destruct ordered as [|o1 orest] eqn:Eo.
  - destruct m; [|discriminate]. intros _ c deps [].
  - rewrite <- Eo. set (m' := map _ _).
    destruct (peel f m') as [L'|] eqn:Ep; [|discriminate].
    intros Q c deps Ic. inversion Q. subst L. clear Q. cbn [lidx].
    destruct (mem_comp c ordered) eqn:Ec.
    + simpl. apply mem_comp_In, Ec.
    + simpl. apply (IH m' L' Ep c (remove_comps ordered deps)).
      unfold m'. apply in_map_iff. exists (c, deps). split; [reflexivity|]. apply filter_In. split; [exact Ic|].
      simpl. rewrite Ec. reflexivity.
Qed.

(* ------------------------------------------------------------ the component graph *)
Lemma comp_of_In cs n c : comp_of cs n = Some c -> In c cs /\ In n c.
Proof.
  revert c. induction cs as [|c0 r IH]; intros c; simpl; [discriminate|].
  destruct (comp_of r n) as [d|] eqn:E.
  - intros Q. inversion Q. subst. destruct (IH c eq_refl). auto.
  - destruct (mem_node n c0) eqn:M; [|discriminate]. intros Q. inversion Q. subst.
    apply mem_node_In in M. auto.
Qed.

Lemma cg_init_keys cs c : In c (map fst (cg_init cs)) <-> In c cs.
Proof.
  revert c. induction cs as [|c0 r IH]; intros c; simpl; [tauto|].
  destruct (mem_comp c0 (map fst (cg_init r))) eqn:M.
  - rewrite IH. apply mem_comp_In in M. apply IH in M. split; [tauto|]. intros [<- | H]; auto.
  - simpl. rewrite IH. tauto.
Qed.

Lemma cg_init_NoDup cs : NoDup (map fst (cg_init cs)).
Proof.
  induction cs as [|c0 r IH]; simpl; [constructor|].
  destruct (mem_comp c0 (map fst (cg_init r))) eqn:M; [exact IH|].
  simpl. constructor; [apply mem_comp_not_In, M | exact IH].
Qed.

Lemma cg_add_keys c d m : In c (map fst m) -> map fst (cg_add c d m) = map fst m.
Proof.
  induction m as [|[k l] m IH]; simpl; [tauto|].
  destruct (comp_eqb c k) eqn:E; simpl; [reflexivity|].
  intros [H | H]; [apply comp_eqb_neq in E; congruence|]. rewrite IH; auto.
Qed.

Lemma cg_add_has c d m : In c (map fst m) -> exists deps, In (c, deps) (cg_add c d m) /\ In d deps.
Proof.
  induction m as [|[k l] m IH]; simpl; [tauto|].
  destruct (comp_eqb c k) eqn:E.
  - apply comp_eqb_eq in E. subst k. intros _.
    destruct (mem_comp d l) eqn:M.
    + exists l. split; [left; reflexivity | apply mem_comp_In, M].
    + exists (l ++ [d]). split; [left; reflexivity | apply in_or_app; right; left; reflexivity].
  - intros [H | H]; [apply comp_eqb_neq in E; simpl in H; congruence|].
    destruct (IH H) as [deps [I1 I2]]. exists deps. split; [right; exact I1 | exact I2].
Qed.

Lemma cg_add_keeps c d m k deps e :
  In (k, deps) m -> In e deps -> exists deps', In (k, deps') (cg_add c d m) /\ In e deps'.
Proof.
  induction m as [|[k0 l] m IH]; simpl; [tauto|].
  destruct (comp_eqb c k0) eqn:E.
  - intros [Q | I] Ie.
    + inversion Q. subst. destruct (mem_comp d deps).
      * exists deps. split; [left; reflexivity | exact Ie].
      * exists (deps ++ [d]). split; [left; reflexivity | apply in_or_app; left; exact Ie].
    + exists deps. split; [right; exact I | exact Ie].
  - intros [Q | I] Ie.
    + inversion Q. subst. exists deps. split; [left; reflexivity | exact Ie].
    + destruct (IH I Ie) as [deps' [I1 I2]]. exists deps'. split; [right; exact I1 | exact I2].
Qed.

Definition has_edge (m : cgraph) (c d : comp) : Prop := exists deps, In (c, deps) m /\ In d deps.

Lemma cg_edges_spec cs n : forall ss m m',
  cg_edges cs n ss m = Ok m' ->
  (forall c, In c cs -> In c (map fst m)) ->
  map fst m' = map fst m /\
  (forall c d, has_edge m c d -> has_edge m' c d) /\
  (forall s, In s ss -> exists cn c_s, comp_of cs n = Some cn /\ comp_of cs s = Some c_s /\
                                       (cn = c_s \/ has_edge m' cn c_s)).
Proof.
  induction ss as [|s r IH]; intros m m'; simpl.
  - intros Q K. inversion Q. subst. split; [reflexivity|]. split; [auto|]. intros s [].
  - destruct (comp_of cs n) as [cn|] eqn:En; [|discriminate].
    destruct (comp_of cs s) as [c_s|] eqn:Es; [|discriminate].
    intros Q K.
    assert (Kn : In cn (map fst m)) by (apply K; eapply comp_of_In; eauto).
    destruct (comp_eqb cn c_s) eqn:E.
    + destruct (IH m m' Q K) as [H1 [H2 H3]]. split; [exact H1|]. split; [exact H2|].
      intros s' [<- | I].
      * exists cn, c_s. apply comp_eqb_eq in E. auto.
      * apply H3, I.
    + assert (K' : forall c, In c cs -> In c (map fst (cg_add cn c_s m))).
      { intros c I. rewrite cg_add_keys; auto. }
      destruct (IH _ m' Q K') as [H1 [H2 H3]]. split; [rewrite H1; apply cg_add_keys, Kn|]. split.
      * intros c d [deps [I1 I2]]. apply H2. destruct (cg_add_keeps cn c_s m c deps d I1 I2) as [deps' [J1 J2]].
        exists deps'. auto.
      * intros s' [<- | I].
        -- exists cn, c_s. split; [reflexivity|]. split; [exact Es|]. right. apply H2. apply cg_add_has, Kn.
        -- apply H3, I.
Qed.

Lemma cg_of_spec cs : forall g m m',
  cg_of cs g m = Ok m' ->
  (forall c, In c cs -> In c (map fst m)) ->
  map fst m' = map fst m /\
  (forall c d, has_edge m c d -> has_edge m' c d) /\
  (forall n ss s, In (n, ss) g -> In s ss ->
     exists cn c_s, comp_of cs n = Some cn /\ comp_of cs s = Some c_s /\ (cn = c_s \/ has_edge m' cn c_s)).
Proof.
  induction g as [|[n ss] g IH]; intros m m'; simpl.
  - intros Q K. inversion Q. subst. split; [reflexivity|]. split; [auto|]. intros n ss s [].
  - destruct (comp_of cs n) as [cn|] eqn:En; [|discriminate].
    destruct (cg_edges cs n ss m) as [m1|] eqn:E1; [|discriminate].
    intros Q K. destruct (cg_edges_spec cs n ss m m1 E1 K) as [A1 [A2 A3]].
    assert (K1 : forall c, In c cs -> In c (map fst m1)) by (intros c I; rewrite A1; auto).
    destruct (IH m1 m' Q K1) as [B1 [B2 B3]]. split; [congruence|]. split; [auto|].
    intros n' ss' s [Q' | I] Is.
    + inversion Q'. subst. destruct (A3 s Is) as [c1 [c2 [H1 [H2 H3]]]]. exists c1, c2.
      split; [exact H1|]. split; [exact H2|]. destruct H3; auto.
    + eapply B3; eauto.
Qed.

(* layers_respect_edges, for any component list *)
Lemma comp_layers_order check g cs L :
  comp_layers check g cs = Ok L ->
  forall n ss s, In (n, ss) g -> In s ss ->
    exists cn c_s, comp_of cs n = Some cn /\ comp_of cs s = Some c_s /\
                   (cn = c_s \/ lidx L c_s < lidx L cn).
Proof.
  unfold comp_layers. destruct (check && _); [discriminate|].
  destruct (cg_of cs g (cg_init cs)) as [m|] eqn:E; [|discriminate].
  intros P n ss s I1 I2.
  destruct (cg_of_spec cs g _ m E (fun c I => proj2 (cg_init_keys cs c) I)) as [K [_ H]].
  destruct (H n ss s I1 I2) as [cn [c_s [H1 [H2 H3]]]]. exists cn, c_s. split; [exact H1|]. split; [exact H2|].
  destruct H3 as [-> | [deps [J1 J2]]]; [auto|]. right.
  eapply peel_order; eauto. rewrite K. apply cg_init_NoDup.
Qed.

Lemma comp_layers_yields check g cs L :
  comp_layers check g cs = Ok L -> forall c, In c cs -> In c (nth (lidx L c) L []).
Proof.
  unfold comp_layers. destruct (check && _); [discriminate|].
  destruct (cg_of cs g (cg_init cs)) as [m|] eqn:E; [|discriminate].
  intros P c I.
  destruct (cg_of_spec cs g _ m E (fun c I => proj2 (cg_init_keys cs c) I)) as [K _].
  assert (Ik : In c (map fst m)) by (rewrite K; apply cg_init_keys, I).
  apply in_map_iff in Ik as [[c' deps] [<- Ik]]. eapply peel_yields; eauto.
Qed.

(* ------------------------------------------------------------ cycles *)
Definition gedge (g : graph) (a b : node) : Prop := exists ss, In (a, ss) g /\ In b ss.

Inductive gpath (g : graph) : node -> node -> Prop :=
| gp_one a b : gedge g a b -> gpath g a b
| gp_more a b c : gedge g a b -> gpath g b c -> gpath g a c.

(* no self edges and no longer cycle *)
Definition acyclic (g : graph) : Prop := forall a, ~ gpath g a a.

Lemma comp_layers_check_singletons g cs L :
  comp_layers true g cs = Ok L -> forall c, In c cs -> length c <= 1.
Proof.
  unfold comp_layers. destruct (existsb (fun c => Nat.ltb 1 (length c)) cs) eqn:E; [discriminate|]. simpl.
  intros _ c I. destruct (Nat.ltb 1 (length c)) eqn:F.
  - assert (X : existsb (fun c => Nat.ltb 1 (length c)) cs = true) by (apply existsb_exists; eauto). congruence.
  - apply Nat.ltb_ge in F. exact F.
Qed.

(* when the check for cycles passes and the layering completes, the graph has no cycle (self edges aside) *)
Lemma check_passes_acyclic g cs L :
  (forall n ss, In (n, ss) g -> ~ In n ss) ->
  comp_layers true g cs = Ok L -> acyclic g.
Proof.
  intros Hself P.
  assert (Hedge : forall a b, gedge g a b -> lidx L [b] < lidx L [a]).
  { intros a b [ss [I1 I2]].
    destruct (comp_layers_order true g cs L P a ss b I1 I2) as [ca [cb [H1 [H2 H3]]]].
    apply comp_of_In in H1 as [C1 N1]. apply comp_of_In in H2 as [C2 N2].
    pose proof (comp_layers_check_singletons g cs L P ca C1) as L1.
    pose proof (comp_layers_check_singletons g cs L P cb C2) as L2.
    destruct ca as [|x [|? ?]]; simpl in *; try tauto; try lia.
    destruct cb as [|y [|? ?]]; simpl in *; try tauto; try lia.
    destruct N1 as [-> | []]. destruct N2 as [-> | []].
    destruct H3 as [E | H3]; [|exact H3]. inversion E. subst. exfalso. eapply Hself; eauto. }
  assert (Hpath : forall a b, gpath g a b -> lidx L [b] < lidx L [a]).
  { induction 1 as [a b E | a b c E _ IH]; [auto|]. pose proof (Hedge a b E). lia. }
  intros a Pa. pose proof (Hpath a a Pa). lia.
Qed.

(* ------------------------------------------------------------ the fuel of the layering loop suffices *)
Lemma filter_drop_one {A} (p : A -> bool) l x : In x l -> p x = false -> length (filter p l) < length l.
Proof.
  induction l as [|y l IH]; simpl; [tauto|]. intros [-> | I] Px.
  - rewrite Px. clear. induction l as [|z l IH]; simpl; [lia|]. destruct (p z); simpl; lia.
  - specialize (IH I Px). destruct (p y); simpl; lia.
Qed.

Lemma peel_fuel f : forall m, length m < f -> peel f m <> Err OutOfFuel.
Proof.
  induction f as [|f IH]; intros m Hlt; [lia|].
  rewrite peel_unfold. cbv zeta.
  set (ordered := map fst (filter (fun it => match snd it with [] => true | _ => false end) m)).
  destruct ordered as [|o1 orest] eqn:Eo.
  - destruct m; discriminate.
  - rewrite <- Eo. set (m' := map _ _).
    assert (Hm' : length m' < f).
    { unfold m'. rewrite map_length.
      assert (Io : In o1 ordered) by (rewrite Eo; left; reflexivity).
      apply ordered_In in Io.
      pose proof (filter_drop_one (fun it : comp * list comp => negb (mem_comp (fst it) ordered)) m (o1, []) Io) as H.
      simpl in H. assert (Hm : mem_comp o1 ordered = true) by (apply mem_comp_In; rewrite Eo; left; reflexivity).
      rewrite Hm in H. specialize (H eq_refl). lia. }
    specialize (IH m' Hm'). destruct (peel f m') as [L'|e]; [discriminate|]. congruence.
Qed.

Lemma comp_layers_fuel check g cs : comp_layers check g cs <> Err OutOfFuel.
Proof.
  unfold comp_layers. destruct (check && _); [discriminate|].
  assert (G : forall g m, cg_of cs g m <> Err OutOfFuel).
  { induction g0 as [|[n ss] g0 IHg]; intros m; simpl; [discriminate|].
    destruct (comp_of cs n); [|discriminate].
    assert (G2 : forall ss m, cg_edges cs n ss m <> Err OutOfFuel).
    { induction ss0 as [|s ss0 IHs]; intros m0; simpl; [discriminate|].
      destruct (comp_of cs n); [|discriminate]. destruct (comp_of cs s); [|discriminate]. apply IHs. }
    specialize (G2 ss m). destruct (cg_edges cs n ss m) as [m1|e]; [apply IHg | congruence]. }
  specialize (G g (cg_init cs)). destruct (cg_of cs g (cg_init cs)) as [m|e]; [|congruence].
  apply peel_fuel. lia.
Qed.
