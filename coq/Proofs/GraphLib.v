(* Basic lemmas for Model/Graph.v: decidable equality of nodes, membership, string order. *)
From Coq Require Import Lia.
From Eupsv Require Import Base.Base Base.BaseLemmas Model.Graph.

Lemma ostr_eqb_eq a b : ostr_eqb a b = true <-> a = b.
Proof.
  destruct a, b; simpl; try (split; congruence).
  rewrite str_eqb_eq. split; congruence.
Qed.

Lemma ostr_eqb_refl a : ostr_eqb a a = true.
Proof. apply ostr_eqb_eq. reflexivity. Qed.

Lemma bool_eqb_eq a b : Bool.eqb a b = true <-> a = b.
Proof. destruct a, b; simpl; split; congruence. Qed.

Lemma node_eqb_eq (a b : node) : node_eqb a b = true <-> a = b.
Proof.
  destruct a as [[an av] ar], b as [[bn bv] br]. unfold node_eqb, nname, nver, nreal. simpl.
  rewrite !andb_true_iff, str_eqb_eq, ostr_eqb_eq, bool_eqb_eq.
  split; [intros [[-> ->] ->]; reflexivity | intros H; inversion H; auto].
Qed.

Lemma node_eqb_refl a : node_eqb a a = true.
Proof. apply node_eqb_eq. reflexivity. Qed.

Lemma node_eqb_neq (a b : node) : node_eqb a b = false <-> a <> b.
Proof.
  split.
  - intros H E. apply node_eqb_eq in E. congruence.
  - intros H. destruct (node_eqb a b) eqn:E; [apply node_eqb_eq in E; contradiction | reflexivity].
Qed.

Lemma node_eqb_sym a b : node_eqb a b = node_eqb b a.
Proof.
  destruct (node_eqb a b) eqn:E.
  - apply node_eqb_eq in E. subst. symmetry. apply node_eqb_refl.
  - symmetry. apply node_eqb_neq. apply node_eqb_neq in E. congruence.
Qed.

Lemma node_eq_dec (a b : node) : {a = b} + {a <> b}.
Proof. destruct (node_eqb a b) eqn:E; [left; apply node_eqb_eq, E | right; apply node_eqb_neq, E]. Qed.

Lemma mem_node_In x l : mem_node x l = true <-> In x l.
Proof.
  induction l as [|y l IH]; simpl; [split; [discriminate | tauto]|].
  destruct (node_eqb x y) eqn:E.
  - apply node_eqb_eq in E. subst. tauto.
  - apply node_eqb_neq in E. rewrite IH. split; [tauto | intros [H | H]; [congruence | assumption]].
Qed.

Lemma mem_node_not_In x l : mem_node x l = false <-> ~ In x l.
Proof. rewrite <- mem_node_In. destruct (mem_node x l); split; congruence. Qed.

Lemma uniq_nodes_In x l : In x (uniq_nodes l) <-> In x l.
Proof.
  induction l as [|y l IH]; simpl; [tauto|].
  rewrite filter_In, IH. destruct (node_eq_dec x y) as [-> | N].
  - tauto.
  - apply node_eqb_neq in N as N'. rewrite N'. simpl. split; [tauto|]. intros [H | H]; [congruence | tauto].
Qed.

Lemma uniq_nodes_NoDup l : NoDup (uniq_nodes l).
Proof.
  induction l as [|y l IH]; simpl; constructor.
  - rewrite filter_In. intros [_ H]. rewrite node_eqb_refl in H. discriminate.
  - apply NoDup_filter, IH.
Qed.

Lemma nodup_nodes_NoDup l : nodup_nodes l = true <-> NoDup l.
Proof.
  induction l as [|x l IH]; simpl.
  - split; [constructor | reflexivity].
  - rewrite andb_true_iff, negb_true_iff, mem_node_not_In, IH. split.
    + intros [H1 H2]. constructor; assumption.
    + intros H. inversion H. auto.
Qed.

(* table lookup *)
Lemma table_of_In w n v es : table_of w n v = Some es -> In ((n, v), es) w.
Proof.
  induction w as [|[[n' v'] es'] w IH]; simpl; [discriminate|].
  destruct (str_eqb n n' && str_eqb v v') eqn:E.
  - apply andb_true_iff in E as [E1 E2]. apply str_eqb_eq in E1, E2. subst. intros H. inversion H. auto.
  - auto.
Qed.

Lemma node_table_world_nodes w p es : node_table w p = Some es -> In p (world_nodes w).
Proof.
  destruct p as [[n ov] r]. unfold node_table, nreal, nver, nname. simpl.
  destruct r; [|discriminate]. destruct ov as [v|]; [|discriminate].
  intros H. apply table_of_In in H. unfold world_nodes. apply in_map_iff.
  exists ((n, v), es). auto.
Qed.

Lemma node_table_real w p es : node_table w p = Some es -> nreal p = true.
Proof. unfold node_table. destruct (nreal p); [reflexivity | discriminate]. Qed.

(* string order *)
Lemma nat_of_ascii_inj a b : nat_of_ascii a = nat_of_ascii b -> a = b.
Proof. intros H. rewrite <- (ascii_nat_embedding a), <- (ascii_nat_embedding b), H. reflexivity. Qed.

Lemma str_compare_eq a b : str_compare a b = Eq <-> a = b.
Proof.
  revert b. induction a as [|x a IH]; destruct b as [|y b]; simpl; try (split; congruence).
  destruct (Nat.compare (nat_of_ascii x) (nat_of_ascii y)) eqn:E.
  - apply Nat.compare_eq in E. apply nat_of_ascii_inj in E. subst. rewrite IH. split; congruence.
  - split; [discriminate|]. intros H. inversion H. subst. rewrite Nat.compare_refl in E. discriminate.
  - split; [discriminate|]. intros H. inversion H. subst. rewrite Nat.compare_refl in E. discriminate.
Qed.

Lemma str_compare_refl a : str_compare a a = Eq.
Proof. apply str_compare_eq. reflexivity. Qed.
