(* Listings: what getDependentProducts returns, as a set; the uses index and its inverse law. *)
From Coq Require Import Lia.
From Eupsv Require Import Base.Base Base.BaseLemmas Model.Graph Proofs.GraphLib Proofs.GraphWalk.

(* ------------------------------------------------------------ sorting with a total comparison *)
Section Sort.
  Context {A : Type}.
  Variable cmp : A -> A -> option comparison.
  Hypothesis total : forall a b, cmp a b <> None.

  Lemma pinsert_total x l : exists r, pinsert cmp x l = Ok r /\ (forall y, In y r <-> y = x \/ In y l) /\ length r = S (length l).
  Proof.
    induction l as [|z l IH]; simpl.
    - exists [x]. split; [reflexivity|]. split; [|reflexivity]. intros y. simpl. intuition.
    - destruct (cmp x z) as [c|] eqn:E; [|destruct (total x z E)].
      destruct c.
      + exists (x :: z :: l). split; [reflexivity|]. split; [|reflexivity]. intros y. simpl. intuition.
      + exists (x :: z :: l). split; [reflexivity|]. split; [|reflexivity]. intros y. simpl. intuition.
      + destruct IH as [r [E1 [E2 E3]]]. rewrite E1. exists (z :: r). split; [reflexivity|]. split.
        * intros y. simpl. rewrite E2. intuition.
        * simpl. rewrite E3. reflexivity.
  Qed.

  Lemma psort_total l : exists r, psort cmp l = Ok r /\ (forall y, In y r <-> In y l) /\ length r = length l.
  Proof.
    induction l as [|x l IH]; simpl.
    - exists []. split; [reflexivity|]. split; [tauto | reflexivity].
    - destruct IH as [r [E1 [E2 E3]]]. rewrite E1.
      destruct (pinsert_total x r) as [r' [F1 [F2 F3]]]. exists r'. split; [exact F1|]. split.
      + intros y. rewrite F2, E2. simpl. intuition.
      + rewrite F3, E3. reflexivity.
  Qed.
End Sort.

Lemma entry_sort_In l x : In x (entry_sort l) <-> In x l.
Proof.
  unfold entry_sort.
  destruct (psort_total entry_cmp (fun a b => ltac:(discriminate)) l) as [r [E [H _]]].
  rewrite E. apply H.
Qed.

(* ------------------------------------------------------------ de-duplication *)
Lemma keep_last_nodes l q : In q (map enode (keep_last l)) <-> In q (map enode l).
Proof.
  induction l as [|x l IH]; simpl; [tauto|].
  destruct (mem_node (enode x) (map enode l)) eqn:E.
  - rewrite IH. apply mem_node_In in E. split; [tauto|]. intros [<- | H]; auto.
  - simpl. rewrite IH. tauto.
Qed.

Lemma keep_last_NoDup l : NoDup (map enode (keep_last l)).
Proof.
  induction l as [|x l IH]; simpl; [constructor|].
  destruct (mem_node (enode x) (map enode l)) eqn:E; [exact IH|].
  simpl. constructor; [|exact IH]. rewrite keep_last_nodes. apply mem_node_not_In, E.
Qed.

Lemma dedup_nodes_eq l : map enode (dedup l) = map enode (keep_last l).
Proof. unfold dedup. rewrite map_map. reflexivity. Qed.

Lemma relabel_node tn td x : enode (relabel tn td x) = enode x.
Proof. unfold relabel, relabel_pinned. destruct (low_get tn _); [reflexivity|]. destruct (alookup _ td); reflexivity. Qed.

Lemma topo_finish_nodes fx L dp q : In q (map enode (topo_finish fx L dp)) <-> In q (map enode dp).
Proof.
  unfold topo_finish. rewrite dedup_nodes_eq, keep_last_nodes.
  rewrite !in_map_iff. split.
  - intros [x [E H]]. rewrite entry_sort_In in H. apply in_map_iff in H as [y [E2 H]].
    exists y. subst. rewrite relabel_node. auto.
  - intros [x [E H]]. eexists (relabel _ (depth_by_name L 0 (S (length L)) []) x). rewrite relabel_node. split; [exact E|].
    rewrite entry_sort_In. apply in_map. exact H.
Qed.

Lemma topo_finish_NoDup fx L dp : NoDup (map enode (topo_finish fx L dp)).
Proof. unfold topo_finish. rewrite dedup_nodes_eq. apply keep_last_NoDup. Qed.

(* ------------------------------------------------------------ the walk from the top product *)
Lemma resolve_nil w e : resolve w [] e = own_target e.
Proof. reflexivity. Qed.

Lemma walk_top_spec w pins top fuel :
  length w < fuel ->
  exists out st, walk_top fuel w pins top = Ok (out, st) /\
                 forall q, In q (map enode out) <-> reachP w pins top q.
Proof.
  intros Hf. unfold walk_top. destruct (node_table w top) as [es|] eqn:Ht.
  - destruct (walk_ok_all w pins fuel top 1 es (mkW [] [(top, [])])) as [out [st [E Hok]]].
    { pose proof (unvisited_le w (mkW [] [(top, [])])). lia. }
    exists out, st. split; [exact E|]. destruct Hok as [M N L V S _ _ _ _ _ _]. intros q. split.
    + apply (S (reachP w pins top)).
      * intros e Ie. apply rp_one. exists es, e. auto.
      * intros x y. apply reachP_trans_step.
    + assert (Hstep : forall p q', (p = top \/ In p (map enode out)) -> stepP w pins p q' -> In q' (map enode out)).
      { intros p q' Hp [es_p [e [Tp [Ie ->]]]]. destruct Hp as [-> | Hp].
        - rewrite Ht in Tp. inversion Tp. subst. apply L, Ie.
        - apply (N p) with (es_x := es_p); auto.
          apply V; auto. eapply node_table_real; eauto. }
      intros R. assert (G : forall p q', reachP w pins p q' -> (p = top \/ In p (map enode out)) -> In q' (map enode out)).
      { induction 1 as [p q' H | p q' r H H' IH]; intros Hp.
        - eapply Hstep; eauto.
        - apply IH. right. eapply Hstep; eauto. }
      apply (G top q R). auto.
  - exists [], (mkW [] []). split; [reflexivity|]. intros q. simpl. split; [tauto|].
    intros R. exfalso. assert (G : forall p q', reachP w pins p q' -> p = top -> False).
    { induction 1 as [p q' [es [e [T _]]] | p q' r [es [e [T _]]] _ _]; intros ->; congruence. }
    eapply G; eauto.
Qed.

Lemma drop_top_nodes top l q : In q (map enode (drop_top top l)) <-> q <> top /\ In q (map enode l).
Proof.
  unfold drop_top. rewrite !in_map_iff. split.
  - intros [x [<- H]]. apply filter_In in H as [H1 H2]. apply negb_true_iff, node_eqb_neq in H2. eauto.
  - intros [N [x [<- H]]]. exists x. split; [reflexivity|]. apply filter_In. split; [exact H|].
    apply negb_true_iff, node_eqb_neq. exact N.
Qed.

(* reachability in the world as resolved (nothing pinned) *)
Definition step (w : world) (p q : node) : Prop :=
  exists es e, node_table w p = Some es /\ In e es /\ q = own_target e.
Definition reach_plus (w : world) : node -> node -> Prop := reachP w [].

Lemma listing_plain w top fuel :
  length w < fuel ->
  exists l, dependent_products fuel w top false = Ok l /\
            forall q, In q (map enode l) <-> q <> top /\ reach_plus w top q.
Proof.
  intros Hf. unfold dependent_products, dependent_products_with.
  destruct (walk_top_spec w [] top fuel Hf) as [out [st [E H]]]. rewrite E. simpl.
  eexists. split; [reflexivity|]. intros q. rewrite drop_top_nodes, H. reflexivity.
Qed.

Lemma listing_topological fx cmp w top fuel l :
  length w < fuel ->
  dependent_products_with fx cmp fuel w top true = Ok l ->
  (forall q, In q (map enode l) <-> q <> top /\ reach_plus w top q) /\ NoDup (map enode l).
Proof.
  intros Hf. unfold dependent_products_with.
  destruct (walk_top_spec w [] top fuel Hf) as [out [st [E H]]]. rewrite E. cbn [negb].
  cbv zeta. clear E. destruct (walk_top fuel w _ top) as [[o2 st2]|]; [|discriminate].
  destruct (topo_layers_with cmp false (pd st2)) as [L|]; [|discriminate].
  intros Q. inversion Q. subst. split.
  - intros q. rewrite topo_finish_nodes, drop_top_nodes, H. reflexivity.
  - apply topo_finish_NoDup.
Qed.

(* ------------------------------------------------------------ uses *)
Lemma ukey_eqb_eq a b : ukey_eqb a b = true <-> a = b.
Proof.
  destruct a as [an av], b as [bn bv]. unfold ukey_eqb. simpl.
  rewrite andb_true_iff, str_eqb_eq, ostr_eqb_eq. split; [intros [-> ->]; reflexivity | intros H; inversion H; auto].
Qed.

Lemma ukey_eq_dec (a b : ukey) : {a = b} + {a <> b}.
Proof.
  destruct (ukey_eqb a b) eqn:E; [left; apply ukey_eqb_eq, E|].
  right. intros H. apply ukey_eqb_eq in H. congruence.
Qed.

Lemma uniq_keys_In x l : In x (uniq_keys l) <-> In x l.
Proof.
  induction l as [|y l IH]; simpl; [tauto|].
  rewrite filter_In, IH. destruct (ukey_eq_dec x y) as [-> | N]; [tauto|].
  assert (E : ukey_eqb x y = false).
  { destruct (ukey_eqb x y) eqn:E; [apply ukey_eqb_eq in E; contradiction | reflexivity]. }
  rewrite E. simpl. split; [tauto|]. intros [H | H]; [congruence | tauto].
Qed.

Lemma user_eqb_eq a b : user_eqb a b = true <-> a = b.
Proof.
  destruct a, b. unfold user_eqb. simpl. rewrite andb_true_iff, !str_eqb_eq.
  split; [intros [-> ->]; reflexivity | intros H; inversion H; auto].
Qed.

Lemma min_for_user u best l : cuser best = u -> cuser (min_for u best l) = u.
Proof.
  revert best. induction l as [|c r IH]; intros best H; simpl; [exact H|].
  destruct (user_eqb (cuser c) u && Nat.ltb (snd (cprops c)) (snd (cprops best))) eqn:E.
  - apply IH. apply andb_true_iff in E as [E _]. apply user_eqb_eq, E.
  - apply IH, H.
Qed.

Lemma min_for_In u best l : min_for u best l = best \/ In (min_for u best l) l.
Proof.
  revert best. induction l as [|c r IH]; intros best; simpl; [auto|].
  destruct (user_eqb (cuser c) u && Nat.ltb (snd (cprops c)) (snd (cprops best))).
  - destruct (IH c) as [-> | H]; auto.
  - destruct (IH best) as [-> | H]; auto.
Qed.

Lemma min_per_user_users l u : In u (map cuser (min_per_user l)) <-> In u (map cuser l).
Proof.
  induction l as [|c r IH]; simpl; [tauto|].
  rewrite min_for_user by reflexivity.
  split.
  - intros [H | H]; [auto|]. right. apply IH. apply in_map_iff in H as [d [<- H]].
    apply filter_In in H as [H _]. apply in_map, H.
  - intros [H | H]; [auto|]. destruct (user_eqb u (cuser c)) eqn:E.
    + apply user_eqb_eq in E. auto.
    + right. apply IH in H. apply in_map_iff in H as [d [<- H]]. apply in_map_iff. exists d. split; [reflexivity|].
      apply filter_In. split; [exact H|]. rewrite E. reflexivity.
Qed.

Lemma min_per_user_sub l c : In c (min_per_user l) -> In c l.
Proof.
  revert c. induction l as [|d r IH]; intros c; simpl; [tauto|].
  intros [<- | H].
  - destruct (min_for_In (cuser d) d r) as [-> | H]; auto.
  - apply filter_In in H as [H _]. auto.
Qed.

(* the users of a key are the products whose listing holds a product with that key *)
Lemma setup_by_users idx k u :
  In u (map cuser (setup_by idx k)) <->
  exists l, In (u, l) idx /\ exists x, In x l /\ ukey_of (enode x) = k.
Proof.
  unfold setup_by. rewrite in_map_iff. split.
  - intros [c [<- H]]. apply in_flat_map in H as [[u' l] [I H]]. simpl in H.
    apply in_map_iff in H as [x [<- H]]. apply filter_In in H as [H1 H2]. apply ukey_eqb_eq in H2.
    exists l. simpl. split; [exact I|]. exists x. auto.
  - intros [l [I [x [H1 H2]]]]. exists (u, (nver (enode x), eoptional x, edepth x)). split; [reflexivity|].
    apply in_flat_map. exists (u, l). split; [exact I|]. simpl. apply in_map_iff. exists x. split; [reflexivity|].
    apply filter_In. split; [exact H1|]. apply ukey_eqb_eq, H2.
Qed.

Lemma consumers_users idx x ov u :
  In u (map cuser (consumers idx x ov)) <->
  exists l, In (u, l) idx /\ exists e, In e l /\ key_matches x ov (ukey_of (enode e)) = true.
Proof.
  unfold consumers. rewrite in_map_iff. split.
  - intros [c [<- H]]. apply in_flat_map in H as [k [Hk H]]. apply filter_In in Hk as [_ Hm].
    assert (Hu : In (cuser c) (map cuser (min_per_user (setup_by idx k)))) by (apply in_map, H).
    apply min_per_user_users, setup_by_users in Hu as [l [I [e [H1 H2]]]].
    exists l. split; [exact I|]. exists e. split; [exact H1|]. rewrite H2. exact Hm.
  - intros [l [I [e [H1 H2]]]].
    assert (Hu : In u (map cuser (min_per_user (setup_by idx (ukey_of (enode e)))))).
    { apply min_per_user_users, setup_by_users. exists l. split; [exact I|]. exists e. auto. }
    apply in_map_iff in Hu as [c [Ec Hc]]. exists c. split; [exact Ec|].
    apply in_flat_map. exists (ukey_of (enode e)). split; [|exact Hc].
    apply filter_In. split; [|exact H2]. unfold index_keys. apply uniq_keys_In.
    apply in_flat_map. exists (u, l). split; [exact I|]. simpl. apply in_map_iff. exists e. auto.
Qed.

(* every consumer record repeats an entry of the listing of its user *)
Lemma consumers_props idx x ov c :
  In c (consumers idx x ov) ->
  exists l e, In (cuser c, l) idx /\ In e l /\ key_matches x ov (ukey_of (enode e)) = true /\
              cprops c = (nver (enode e), eoptional e, edepth e).
Proof.
  unfold consumers. intros H. apply in_flat_map in H as [k [Hk H]]. apply filter_In in Hk as [_ Hm].
  apply min_per_user_sub in H. unfold setup_by in H. apply in_flat_map in H as [[u l] [I H]]. simpl in H.
  apply in_map_iff in H as [e [<- H]]. apply filter_In in H as [H1 H2]. apply ukey_eqb_eq in H2.
  exists l, e. simpl. rewrite H2. auto.
Qed.

Lemma consumer_cmp_total a b : consumer_cmp a b <> None.
Proof. discriminate. Qed.

Lemma users_total_ok idx x ov :
  exists us, users idx x ov = Ok us /\ (forall c, In c us <-> In c (consumers idx x ov)) /\
             length us = length (consumers idx x ov).
Proof. unfold users. apply psort_total. exact consumer_cmp_total. Qed.

Lemma listings_with_spec fx cmp fuel w ps idx :
  listings_with fx cmp fuel w ps = Ok idx ->
  forall u l, In (u, l) idx <->
              In u ps /\ dependent_products_with fx cmp fuel w (fst u, Some (snd u), true) true = Ok l.
Proof.
  revert idx. induction ps as [|[n v] r IH]; intros idx; simpl.
  - intros E. inversion E. simpl. tauto.
  - destruct (dependent_products_with fx cmp fuel w (n, Some v, true) true) as [l0|] eqn:E0; [|discriminate].
    destruct (listings_with fx cmp fuel w r) as [ls|]; [|discriminate].
    intros E. inversion E. subst. intros u l. simpl. rewrite (IH ls eq_refl). split.
    + intros [H | H]; [inversion H; subst; simpl; auto | tauto].
    + intros [[H | H] D]; [subst; simpl in D; left; congruence | right; auto].
Qed.

(* ------------------------------------------------------------ uses is the inverse of the listings *)
Definition matches (x : str) (ov : option str) (q : node) : Prop :=
  nname q = x /\ match ov with None => True | Some v => nver q = Some v end.

Lemma key_matches_spec x ov q : key_matches x ov (ukey_of q) = true <-> matches x ov q.
Proof.
  unfold key_matches, matches, ukey_of. simpl. rewrite andb_true_iff, str_eqb_eq.
  destruct ov as [v|]; [rewrite ostr_eqb_eq|]; tauto.
Qed.

Definition pnode (y : str * str) : node := (fst y, Some (snd y), true).

Lemma uses_inverse_listing fuel w idx x ov us y :
  uses_index fuel w = Ok idx -> users idx x ov = Ok us ->
  (In y (map cuser us) <->
   In y (map fst w) /\
   exists l, dependent_products fuel w (pnode y) true = Ok l /\ exists q, In q (map enode l) /\ matches x ov q).
Proof.
  intros Hi Hu. destruct (users_total_ok idx x ov) as [us' [E [H _]]]. rewrite Hu in E. inversion E. subst us'.
  assert (Hm : In y (map cuser us) <-> In y (map cuser (consumers idx x ov))).
  { rewrite !in_map_iff. split; intros [c [Q I]]; exists c; (split; [exact Q | apply H, I]). }
  rewrite Hm, consumers_users. unfold uses_index in Hi.
  pose proof (listings_with_spec _ _ _ _ _ _ Hi) as Hs. split.
  - intros [l [I [e [Ie Mk]]]]. apply Hs in I as [I1 I2]. split; [exact I1|]. exists l. split; [exact I2|].
    exists (enode e). split; [apply in_map, Ie | apply key_matches_spec, Mk].
  - intros [I1 [l [I2 [q [Iq Mq]]]]]. exists l. split; [apply Hs; auto|].
    apply in_map_iff in Iq as [e [<- Ie]]. exists e. split; [exact Ie | apply key_matches_spec, Mq].
Qed.

Lemma uses_inverse_reach fuel w idx x ov us y :
  length w < fuel ->
  uses_index fuel w = Ok idx -> users idx x ov = Ok us ->
  (In y (map cuser us) <->
   In y (map fst w) /\ exists q, q <> pnode y /\ reach_plus w (pnode y) q /\ matches x ov q).
Proof.
  intros Hf Hi Hu. rewrite (uses_inverse_listing fuel w idx x ov us y Hi Hu). split.
  - intros [I [l [D [q [Iq Mq]]]]]. split; [exact I|]. exists q.
    destruct (listing_topological _ _ _ _ _ _ Hf D) as [HL _]. apply HL in Iq. tauto.
  - intros [I [q [Ne [R Mq]]]]. split; [exact I|].
    pose proof (listings_with_spec _ _ _ _ _ _ Hi) as Hs.
    apply in_map_iff in I as [[u es] [Eu Iw]]. simpl in Eu. subst u.
    (* the index holds a listing for every declared product *)
    assert (Hex : forall ps idx0, listings_with true node_cmp fuel w ps = Ok idx0 -> forall u, In u ps -> exists l, In (u, l) idx0).
    { induction ps as [|[n v] r IH]; intros idx0; simpl; [intros _ u []|].
      destruct (dependent_products_with true node_cmp fuel w (n, Some v, true) true) as [l0|]; [|discriminate].
      destruct (listings_with true node_cmp fuel w r) as [ls|] eqn:El; [|discriminate].
      intros Q u [<- | Iu]; inversion Q; subst.
      - exists l0. left. reflexivity.
      - destruct (IH ls eq_refl u Iu) as [l Il]. exists l. right. exact Il. }
    destruct (Hex _ _ Hi y) as [l Il]; [apply in_map_iff; exists (y, es); auto|].
    apply Hs in Il as [_ D]. exists l. split; [exact D|]. exists q. split; [|exact Mq].
    destruct (listing_topological _ _ _ _ _ _ Hf D) as [HL _]. apply HL. auto.
Qed.
