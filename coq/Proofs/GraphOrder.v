(* The graph handed to topologicalSort (prepare), cycle reporting, and the build order. *)
From Coq Require Import Lia Permutation.
From Eupsv Require Import Base.Base Base.BaseLemmas Model.Graph Proofs.GraphLib Proofs.GraphWalk
     Proofs.GraphListing Proofs.GraphLayers Proofs.GraphTarjan.

(* ------------------------------------------------------------ prepare *)
Definition prep1 (g : graph) : graph :=
  map (fun it => (fst it, filter (fun s => negb (node_eqb s (fst it))) (uniq_nodes (snd it)))) g.

Lemma prepare_eq g :
  prepare g = prep1 g ++ map (fun s => (s, []))
                             (filter (fun s => negb (mem_node s (gkeys (prep1 g)))) (uniq_nodes (flat_map snd (prep1 g)))).
Proof. reflexivity. Qed.

Lemma prep1_keys g : gkeys (prep1 g) = gkeys g.
Proof. unfold gkeys, prep1. rewrite map_map. reflexivity. Qed.

Lemma prep1_gedge g a b : gedge (prep1 g) a b <-> gedge g a b /\ a <> b.
Proof.
  unfold gedge, prep1. split.
  - intros [ss [I1 I2]]. apply in_map_iff in I1 as [[k l] [Q I1]]. simpl in Q. inversion Q. subst. clear Q.
    apply filter_In in I2 as [I2 I3]. rewrite uniq_nodes_In in I2. apply negb_true_iff, node_eqb_neq in I3.
    split; [exists l; auto | congruence].
  - intros [[l [I1 I2]] Ne]. eexists. split.
    + apply in_map_iff. exists (a, l). split; [reflexivity | exact I1].
    + simpl. apply filter_In. split; [apply uniq_nodes_In, I2|]. apply negb_true_iff, node_eqb_neq. congruence.
Qed.

Lemma gedge_app g1 g2 a b : gedge (g1 ++ g2) a b <-> gedge g1 a b \/ gedge g2 a b.
Proof.
  unfold gedge. split.
  - intros [ss [I1 I2]]. apply in_app_iff in I1 as [I1 | I1]; eauto.
  - intros [[ss [I1 I2]] | [ss [I1 I2]]]; exists ss; (split; [apply in_app_iff; auto | exact I2]).
Qed.

Lemma gedge_leaves l a b : ~ gedge (map (fun s : node => (s, @nil node)) l) a b.
Proof. intros [ss [I1 I2]]. apply in_map_iff in I1 as [s [Q _]]. inversion Q. subst. destruct I2. Qed.

Lemma prepare_gedge g a b : gedge (prepare g) a b <-> gedge g a b /\ a <> b.
Proof.
  rewrite prepare_eq, gedge_app, prep1_gedge. split; [|auto].
  intros [H | H]; [exact H | destruct (gedge_leaves _ _ _ H)].
Qed.

Lemma prepare_no_self g n ss : In (n, ss) (prepare g) -> ~ In n ss.
Proof.
  intros I H. assert (E : gedge (prepare g) n n) by (exists ss; auto).
  apply prepare_gedge in E as [_ E]. congruence.
Qed.

Lemma gedge_mentions (g : graph) a b : gedge g a b -> In a (gkeys g) /\ In b (flat_map snd g).
Proof.
  intros [ss [I1 I2]]. split.
  - apply in_map_iff. exists (a, ss). auto.
  - apply in_flat_map. exists (a, ss). auto.
Qed.

Lemma prepare_keys g n : In n (gkeys (prepare g)) <-> In n (gkeys g) \/ exists k, gedge g k n.
Proof.
  assert (E : In n (gkeys (prepare g)) <->
              In n (gkeys g) \/ (In n (flat_map snd (prep1 g)) /\ ~ In n (gkeys g))).
  { rewrite prepare_eq. unfold gkeys at 1. rewrite map_app, in_app_iff, map_map. simpl. rewrite map_id.
    change (map fst (prep1 g)) with (gkeys (prep1 g)).
    rewrite filter_In, uniq_nodes_In, negb_true_iff, mem_node_not_In, !prep1_keys. reflexivity. }
  rewrite E. clear E. split.
  - intros [H | [H _]]; [auto|]. right. apply in_flat_map in H as [[k l] [I1 I2]]. exists k.
    apply (prep1_gedge g k n). exists l. auto.
  - intros [H | [k E]]; [auto|]. destruct (in_dec node_eq_dec n (gkeys g)) as [I | I]; [auto|]. right. split; [|exact I].
    assert (Ne : k <> n).
    { intros ->. apply I. apply (gedge_mentions g n n E). }
    apply (gedge_mentions (prep1 g) k n). apply prep1_gedge. auto.
Qed.

Lemma prepare_closed g : closed_graph (prepare g).
Proof.
  intros n ss s I1 I2. apply prepare_keys. right. exists n.
  apply (prepare_gedge g n s). exists ss. auto.
Qed.

(* ------------------------------------------------------------ cycle reporting *)
Lemma topo_layers_with_inv cmp check g0 NL :
  topo_layers_with cmp check g0 = Ok NL ->
  exists cs L, scc (prepare g0) = Ok cs /\ comp_layers check (prepare g0) cs = Ok L /\ sort_layers cmp L = Ok NL.
Proof.
  unfold topo_layers_with. destruct (scc (prepare g0)) as [cs|]; [|discriminate].
  destruct (comp_layers check (prepare g0) cs) as [L|] eqn:E; [|discriminate].
  intros H. exists cs, L. auto.
Qed.

Lemma check_cycles_passes_acyclic g0 NL : check_cycles g0 = Ok NL -> acyclic (prepare g0).
Proof.
  intros H. apply topo_layers_with_inv in H as [cs [L [_ [H _]]]].
  eapply check_passes_acyclic; [|exact H]. apply prepare_no_self.
Qed.
