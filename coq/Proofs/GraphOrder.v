(* The graph handed to topologicalSort (prepare), cycle reporting, and the build order. *)
From Coq Require Import Lia Permutation.
From Eupsv Require Import Base.Base Base.BaseLemmas Model.Graph Proofs.GraphLib Proofs.GraphWalk
     Proofs.GraphListing Proofs.GraphLayers Proofs.GraphTarjan.

(* ------------------------------------------------------------ prepare *)
Definition prep1 (g : graph) : graph :=
  map (fun it => (fst it, filter (fun s => negb (node_eqb s (fst it))) (uniq_nodes (snd it)))) g.

Lemma prepare_eq g :
  prepare g = prep1 g ++ map (fun s => (s, []))
                             (filter (fun s => negb (mem_node s (gkeys (prep1 g)))) (uniq_nodes (flat_map snd (prep1 g)))).
Proof. reflexivity. Qed.

Lemma prep1_keys g : gkeys (prep1 g) = gkeys g.
Proof. unfold gkeys, prep1. rewrite map_map. reflexivity. Qed.

Lemma prep1_gedge g a b : gedge (prep1 g) a b <-> gedge g a b /\ a <> b.
Proof.
  unfold gedge, prep1. split.
  - intros [ss [I1 I2]]. apply in_map_iff in I1 as [[k l] [Q I1]]. simpl in Q. inversion Q. subst. clear Q.
    apply filter_In in I2 as [I2 I3]. rewrite uniq_nodes_In in I2. apply negb_true_iff, node_eqb_neq in I3.
    split; [exists l; auto | congruence].
  - intros [[l [I1 I2]] Ne]. eexists. split.
    + apply in_map_iff. exists (a, l). split; [reflexivity | exact I1].
    + simpl. apply filter_In. split; [apply uniq_nodes_In, I2|]. apply negb_true_iff, node_eqb_neq. congruence.
Qed.

Lemma gedge_app g1 g2 a b : gedge (g1 ++ g2) a b <-> gedge g1 a b \/ gedge g2 a b.
Proof.
  unfold gedge. split.
  - intros [ss [I1 I2]]. apply in_app_iff in I1 as [I1 | I1]; eauto.
  - intros [[ss [I1 I2]] | [ss [I1 I2]]]; exists ss; (split; [apply in_app_iff; auto | exact I2]).
Qed.

Lemma gedge_leaves l a b : ~ gedge (map (fun s : node => (s, @nil node)) l) a b.
Proof. intros [ss [I1 I2]]. apply in_map_iff in I1 as [s [Q _]]. inversion Q. subst. destruct I2. Qed.

Lemma prepare_gedge g a b : gedge (prepare g) a b <-> gedge g a b /\ a <> b.
Proof.
  rewrite prepare_eq, gedge_app, prep1_gedge. split; [|auto].
  intros [H | H]; [exact H | destruct (gedge_leaves _ _ _ H)].
Qed.

Lemma prepare_no_self g n ss : In (n, ss) (prepare g) -> ~ In n ss.
Proof.
  intros I H. assert (E : gedge (prepare g) n n) by (exists ss; auto).
  apply prepare_gedge in E as [_ E]. congruence.
Qed.

Lemma gedge_mentions (g : graph) a b : gedge g a b -> In a (gkeys g) /\ In b (flat_map snd g).
Proof.
  intros [ss [I1 I2]]. split.
  - apply in_map_iff. exists (a, ss). auto.
  - apply in_flat_map. exists (a, ss). auto.
Qed.

Lemma prepare_keys g n : In n (gkeys (prepare g)) <-> In n (gkeys g) \/ exists k, gedge g k n.
Proof.
  assert (E : In n (gkeys (prepare g)) <->
              In n (gkeys g) \/ (In n (flat_map snd (prep1 g)) /\ ~ In n (gkeys g))).
  { rewrite prepare_eq. unfold gkeys at 1. rewrite map_app, in_app_iff, map_map. simpl. rewrite map_id.
    change (map fst (prep1 g)) with (gkeys (prep1 g)).
    rewrite filter_In, uniq_nodes_In, negb_true_iff, mem_node_not_In, !prep1_keys. reflexivity. }
  rewrite E. clear E. split.
  - intros [H | [H _]]; [auto|]. right. apply in_flat_map in H as [[k l] [I1 I2]]. exists k.
    apply (prep1_gedge g k n). exists l. auto.
  - intros [H | [k E]]; [auto|]. destruct (in_dec node_eq_dec n (gkeys g)) as [I | I]; [auto|]. right. split; [|exact I].
    assert (Ne : k <> n).
    { intros ->. apply I. apply (gedge_mentions g n n E). }
    apply (gedge_mentions (prep1 g) k n). apply prep1_gedge. auto.
Qed.

Lemma prepare_closed g : closed_graph (prepare g).
Proof.
  intros n ss s I1 I2. apply prepare_keys. right. exists n.
  apply (prepare_gedge g n s). exists ss. auto.
Qed.

(* ------------------------------------------------------------ cycle reporting *)
Lemma topo_layers_with_inv cmp check g0 NL :
  topo_layers_with cmp check g0 = Ok NL ->
  exists cs L, scc (prepare g0) = Ok cs /\ comp_layers check (prepare g0) cs = Ok L /\ sort_layers cmp L = Ok NL.
Proof.
  unfold topo_layers_with. destruct (scc (prepare g0)) as [cs|]; [|discriminate].
  destruct (comp_layers check (prepare g0) cs) as [L|] eqn:E; [|discriminate].
  intros H. exists cs, L. auto.
Qed.

Lemma check_cycles_passes_acyclic g0 NL : check_cycles g0 = Ok NL -> acyclic (prepare g0).
Proof.
  intros H. apply topo_layers_with_inv in H as [cs [L [_ [H _]]]].
  eapply check_passes_acyclic; [|exact H]. apply prepare_no_self.
Qed.

Lemma sort_layers_total L : exists NL, sort_layers node_cmp L = Ok NL.
Proof.
  induction L as [|l r [NL IH]]; simpl; [eauto|].
  destruct (psort_total node_cmp (fun a b => ltac:(discriminate)) (concat l)) as [s [E _]]. rewrite E, IH. eauto.
Qed.

(* a graph with a cycle never passes: the call ends in an error, and not because the model ran out of fuel *)
Lemma cycle_is_reported g0 :
  ~ acyclic (prepare g0) -> exists e, check_cycles g0 = Err e /\ e <> OutOfFuel.
Proof.
  intros Hc. destruct (check_cycles g0) as [NL|e] eqn:E.
  - exfalso. apply Hc. eapply check_cycles_passes_acyclic; eauto.
  - exists e. split; [reflexivity|]. intros ->.
    unfold check_cycles, topo_layers, topo_layers_with in E.
    destruct (scc (prepare g0)) as [cs|e1] eqn:E1.
    + destruct (comp_layers true (prepare g0) cs) as [L|e2] eqn:E2.
      * destruct (sort_layers_total L) as [NL E3]. rewrite E3 in E. discriminate.
      * inversion E. subst. eapply comp_layers_fuel; eauto.
    + inversion E. subst. eapply scc_fuel; eauto.
Qed.

(* ------------------------------------------------------------ the walk from the top, in full *)
Lemma walk_top_full w pins top fuel es :
  length w < fuel -> node_table w top = Some es ->
  exists out st, walk_top fuel w pins top = Ok (out, st) /\
    (forall q, In q (map enode out) <-> reachP w pins top q) /\
    (forall k s, gedge (pd st) k s <-> (k = top \/ In k (vis st)) /\ stepP w pins k s) /\
    (forall k, In k (vis st) -> reachP w pins top k) /\
    (forall q, reachP w pins top q -> nreal q = true -> In q (vis st)) /\
    (forall k, In k (gkeys (pd st)) -> k = top \/ In k (vis st)).
Proof.
  intros Hf Ht. destruct (walk_top_spec w pins top fuel Hf) as [out [st [E Hreach]]].
  exists out, st. split; [exact E|]. split; [exact Hreach|].
  unfold walk_top in E. rewrite Ht in E.
  destruct (walk_ok_all w pins fuel top 1 es (mkW [] [(top, [])])) as [out' [st' [E' Hok]]].
  { pose proof (unvisited_le w (mkW [] [(top, [])])). lia. }
  rewrite E in E'. inversion E'. subst out' st'. clear E'.
  destruct Hok as [M N L V S Em P1 P2 P3 P4 P5]. simpl in *.
  assert (Hnoedge : forall k s, ~ gedge [(top, @nil node)] k s).
  { intros k s [ss [[Q | []] I]]. inversion Q. subst. destruct I. }
  split; [|split; [|split]].
  - intros k s. split.
    + intros H. destruct (P2 k s H) as [H0 | [[-> [e [Ie ->]]] | [H1 [_ H3]]]].
      * destruct (Hnoedge _ _ H0).
      * split; [auto|]. exists es, e. auto.
      * auto.
    + intros [[-> | Hk] [es_k [e [Tk [Ie ->]]]]].
      * rewrite Ht in Tk. inversion Tk. subst. apply P3, Ie.
      * eapply P4; eauto.
  - intros k Hk. apply Hreach. apply Em; auto.
  - intros q Hq Hr. apply V; [apply Hreach, Hq | exact Hr].
  - intros k Hk. destruct (P5 k Hk) as [[<- | []] | [-> | [H _]]]; auto.
Qed.

(* ------------------------------------------------------------ hypotheses of the build-order theorem *)

(* the resolved edges are consistent with the declarations: what a line resolved to is declared, and an
   explicit version that did not resolve is not declared *)
Definition wf_world (w : world) : Prop :=
  forall n v es e, table_of w n v = Some es -> In e es ->
    (forall r, eres e = Some r -> declared w (ename e) r = true) /\
    (forall v', eres e = None -> evers e = Some v' -> declared w (ename e) v' = false).

Definition closure (w : world) (top q : node) : Prop := q = top \/ reach_plus w top q.

(* the signature of D16 (pinned tree), negated: no hypothesis of any theorem about the repaired code *)
Definition one_version_per_name (w : world) (top : node) : Prop :=
  forall p q, closure w top p -> closure w top q -> nname p = nname q -> p = q.

Definition acyclic_from (w : world) (top : node) : Prop :=
  forall p, closure w top p -> ~ reach_plus w p p.

Lemma step_is_stepP w p q : step w p q <-> stepP w [] p q.
Proof. unfold step, stepP, tg. split; intros [es [e H]]; exists es, e; exact H. Qed.

Lemma closure_step w top p q : closure w top p -> step w p q -> closure w top q.
Proof.
  intros [-> | R] S; right.
  - apply rp_one. apply step_is_stepP, S.
  - eapply reachP_trans_step; [exact R | apply step_is_stepP, S].
Qed.

Lemma pin_of_Some pins n v : pin_of pins n = Some v -> In (n, v) pins.
Proof.
  induction pins as [|[k u] r IH]; simpl; [discriminate|].
  destruct (pin_of r n) as [x|] eqn:E.
  - intros Q. inversion Q. subst. right. apply IH. reflexivity.
  - destruct (str_eqb n k) eqn:G; [|discriminate]. apply str_eqb_eq in G. subst. intros Q. inversion Q. auto.
Qed.

Lemma node_table_inv w p es : node_table w p = Some es -> exists n v, p = (n, Some v, true) /\ table_of w n v = Some es.
Proof.
  destruct p as [[n ov] r]. unfold node_table, nreal, nver, nname. simpl.
  destruct r; [|discriminate]. destruct ov as [v|]; [|discriminate]. intros H. exists n, v. auto.
Qed.

Lemma own_target_name e : nname (own_target e) = ename e.
Proof. unfold own_target. destruct (eres e); reflexivity. Qed.

(* a name pinned by the repaired code is the name of exactly one listed product, which is not the top product *)
Lemma pins_fixed_In top dp n v :
  In (n, v) (pins_fixed top dp) ->
  n <> nname top /\ exists x, In x dp /\ nname (enode x) = n /\ nver (enode x) = v /\
                             forall y, In y dp -> nname (enode y) = n -> enode y = enode x.
Proof.
  unfold pins_fixed, pins_pinned. intros H. apply in_map_iff in H as [x [Q H]]. inversion Q. subst. clear Q.
  apply filter_In in H as [Ix Hs]. unfold sole_of_name in Hs. apply andb_true_iff in Hs as [H1 H2].
  split.
  - apply negb_true_iff in H1. intros Q. rewrite Q, str_eqb_refl in H1. discriminate.
  - exists x. split; [exact Ix|]. split; [reflexivity|]. split; [reflexivity|].
    intros y Iy Q. rewrite forallb_forall in H2. specialize (H2 y Iy). rewrite Q, str_eqb_refl in H2.
    simpl in H2. apply node_eqb_eq, H2.
Qed.

(* with resolved edges that agree with the declarations, the versions the repaired second walk pins are the
   versions the lines denote anyway: no hypothesis on the closure (two versions of a name, cycles) *)
Lemma pins_agree w top dp :
  wf_world w ->
  (forall q, In q (map enode dp) <-> q <> top /\ reach_plus w top q) ->
  forall p es e, closure w top p -> node_table w p = Some es -> In e es ->
    resolve w (pins_fixed top dp) e = own_target e.
Proof.
  intros Hwf Hdp p es e Cp Tp Ie.
  set (pins := pins_fixed top dp).
  set (t := own_target e).
  assert (St : step w p t) by (exists es, e; auto).
  assert (Ct : closure w top t) by (eapply closure_step; eauto).
  unfold resolve. fold pins. destruct (pin_of pins (ename e)) as [pv|] eqn:Epin; [|reflexivity].
  apply pin_of_Some in Epin. unfold pins in Epin. apply pins_fixed_In in Epin as [Nn [x [Ix [Nx [Vx Hsole]]]]].
  assert (Nt : t <> top).
  { intros Q. apply Nn. rewrite <- Q. unfold t. symmetry. apply own_target_name. }
  assert (Rt : reach_plus w top t) by (destruct Ct; [contradiction | assumption]).
  assert (Idp : In t (map enode dp)) by (apply Hdp; auto).
  apply in_map_iff in Idp as [y [Ey Iy]].
  assert (Ext : enode x = t).
  { rewrite <- (Hsole y Iy); [exact Ey|]. rewrite Ey. unfold t. apply own_target_name. }
  rewrite <- Vx, Ext. clear Vx Ext Hsole Ix Nx x Ey Iy y.
  destruct (node_table_inv _ _ _ Tp) as [n [v [-> Tn]]]. destruct (Hwf n v es e Tn Ie) as [W1 W2].
  unfold t, own_target in *. destruct (eres e) as [r|] eqn:Er; unfold nver; simpl.
  - rewrite (W1 r eq_refl). reflexivity.
  - destruct (evers e) as [v'|] eqn:Ev; simpl.
    + rewrite (W2 v' eq_refl eq_refl). reflexivity.
    + reflexivity.
Qed.

Lemma reach_agree w pins top :
  (forall p es e, closure w top p -> node_table w p = Some es -> In e es -> resolve w pins e = own_target e) ->
  (forall p q, closure w top p -> (stepP w pins p q <-> step w p q)) /\
  (forall p q, closure w top p -> (reachP w pins p q <-> reach_plus w p q)).
Proof.
  intros Hag.
  assert (Hs : forall p q, closure w top p -> (stepP w pins p q <-> step w p q)).
  { intros p q Cp. unfold stepP, step, tg. split; intros [es [e [T [I ->]]]]; exists es, e; (split; [exact T|]; split; [exact I|]).
    - apply Hag with (p := p) (es := es); auto.
    - symmetry. apply Hag with (p := p) (es := es); auto. }
  split; [exact Hs|]. intros p q Cp. split.
  - intros R. revert Cp. induction R as [p q S | p q r S R IH]; intros Cp.
    + apply rp_one, step_is_stepP, Hs; auto.
    + apply Hs in S; [|exact Cp]. eapply rp_more; [apply step_is_stepP, S|]. apply IH. eapply closure_step; eauto.
  - intros R. unfold reach_plus in R. revert Cp. induction R as [p q S | p q r S R IH]; intros Cp.
    + apply rp_one. apply Hs; [exact Cp | apply step_is_stepP, S].
    + apply step_is_stepP in S. eapply rp_more; [apply Hs; [exact Cp | exact S]|]. apply IH. eapply closure_step; eauto.
Qed.

Lemma reach_plus_last w top x : reach_plus w top x -> exists k, closure w top k /\ step w k x.
Proof.
  unfold reach_plus. intros R.
  assert (G : forall p q, reachP w [] p q -> closure w top p -> exists k, closure w top k /\ step w k q).
  { induction 1 as [p q S | p q r S R' IH]; intros Cp.
    - exists p. split; [exact Cp | apply step_is_stepP, S].
    - apply IH. eapply closure_step; [exact Cp | apply step_is_stepP, S]. }
  apply (G top x R). left. reflexivity.
Qed.

(* ------------------------------------------------------------ layers are disjoint and made of components *)
Lemma peel_elems f : forall m L, peel f m = Ok L -> forall i c, In c (nth i L []) -> In c (map fst m).
Proof.
  induction f as [|f IH]; intros m L; [discriminate|].
  rewrite peel_unfold. cbv zeta.
  set (ordered := map fst (filter (fun it => match snd it with [] => true | _ => false end) m)).
  destruct ordered as [|o1 orest] eqn:Eo.
  - destruct m; [|discriminate]. intros Q. inversion Q. intros [|i] c H; destruct H.
  - rewrite <- Eo. set (m' := map _ _).
    destruct (peel f m') as [L'|] eqn:Ep; [|discriminate].
    intros Q. inversion Q. subst L. clear Q. intros [|i] c H; simpl in H.
    + unfold ordered in H. apply in_map_iff in H as [it [<- H]]. apply filter_In in H as [H _]. apply in_map, H.
    + apply (IH m' L' Ep) in H. unfold m' in H. rewrite map_map in H. simpl in H.
      apply in_map_iff in H as [it [<- H]]. apply filter_In in H as [H _]. apply in_map, H.
Qed.

Lemma peel_unique f : forall m L, peel f m = Ok L ->
  forall i j c, In c (nth i L []) -> In c (nth j L []) -> i = j.
Proof.
  induction f as [|f IH]; intros m L; [discriminate|].
  rewrite peel_unfold. cbv zeta.
  set (ordered := map fst (filter (fun it => match snd it with [] => true | _ => false end) m)).
  destruct ordered as [|o1 orest] eqn:Eo.
  - destruct m; [|discriminate]. intros Q. inversion Q. intros [|i] j c H; destruct H.
  - rewrite <- Eo. set (m' := map _ _).
    destruct (peel f m') as [L'|] eqn:Ep; [|discriminate].
    intros Q. inversion Q. subst L. clear Q.
    assert (Hlater : forall k c, In c (nth k L' []) -> ~ In c ordered).
    { intros k c H. apply (peel_elems f m' L' Ep) in H. unfold m' in H. rewrite map_map in H. simpl in H.
      apply in_map_iff in H as [it [<- H]]. apply filter_In in H as [_ H].
      apply negb_true_iff, mem_comp_not_In in H. exact H. }
    intros [|i] [|j] c Hi Hj; simpl in Hi, Hj.
    + reflexivity.
    + exfalso. eapply Hlater; eauto.
    + exfalso. eapply Hlater; eauto.
    + f_equal. eapply IH; eauto.
Qed.

Lemma comp_layers_elems check g cs L :
  comp_layers check g cs = Ok L -> forall i c, In c (nth i L []) -> In c cs.
Proof.
  unfold comp_layers. destruct (check && _); [discriminate|].
  destruct (cg_of cs g (cg_init cs)) as [m|] eqn:E; [|discriminate].
  intros P i c H. apply (peel_elems _ _ _ P) in H.
  destruct (cg_of_spec cs g _ m E (fun c I => proj2 (cg_init_keys cs c) I)) as [K _].
  rewrite K in H. apply cg_init_keys, H.
Qed.

Lemma comp_layers_unique check g cs L :
  comp_layers check g cs = Ok L -> forall i j c, In c (nth i L []) -> In c (nth j L []) -> i = j.
Proof.
  unfold comp_layers. destruct (check && _); [discriminate|].
  destruct (cg_of cs g (cg_init cs)) as [m|]; [|discriminate].
  intros P. eapply peel_unique; eauto.
Qed.

Lemma node_cmp_total a b : node_cmp a b <> None.
Proof. discriminate. Qed.

Lemma sort_layers_spec L : forall NL, sort_layers node_cmp L = Ok NL ->
  length NL = length L /\ forall i x, In x (nth i NL []) <-> In x (concat (nth i L [])).
Proof.
  induction L as [|l r IH]; intros NL; simpl.
  - intros Q. inversion Q. split; [reflexivity|]. intros [|i] x; simpl; tauto.
  - destruct (psort_total node_cmp node_cmp_total (concat l)) as [s [E [H _]]]. rewrite E.
    destruct (sort_layers node_cmp r) as [r'|]; [|discriminate].
    intros Q. inversion Q. subst NL. destruct (IH r' eq_refl) as [H1 H2]. split; [simpl; congruence|].
    intros [|i] x; simpl; [apply H | apply H2].
Qed.

(* ------------------------------------------------------------ entries of the final listing *)
Lemma keep_last_sub l x : In x (keep_last l) -> In x l.
Proof.
  induction l as [|y l IH]; simpl; [tauto|].
  destruct (mem_node (enode y) (map enode l)); [auto|]. intros [H | H]; auto.
Qed.

Lemma topo_finish_entry fx NL dp x :
  In x (topo_finish fx NL dp) ->
  exists y, In y dp /\ enode x = enode y /\
            edepth x = edepth (relabel (if fx then depth_by_node NL 0 (S (length NL)) [] else [])
                                       (depth_by_name NL 0 (S (length NL)) []) y).
Proof.
  unfold topo_finish, dedup. intros H. apply in_map_iff in H as [z [<- H]]. apply keep_last_sub in H.
  rewrite entry_sort_In in H. apply in_map_iff in H as [y [<- H]].
  exists y. split; [exact H|]. split; [apply relabel_node | reflexivity].
Qed.

Lemma reach_first_table w pins p q : reachP w pins p q -> exists es, node_table w p = Some es.
Proof. intros [p' q' [es [e [T _]]] | p' q' r [es [e [T _]]] _]; eauto. Qed.

(* ------------------------------------------------------------ the listing is sorted by depth *)
From Coq Require Import Sorted.

Definition depth_le (a b : entry) : Prop := edepth a <= edepth b.

Lemma entry_cmp_gt a b : entry_cmp a b = Some Gt -> edepth b <= edepth a.
Proof.
  unfold entry_cmp, lex. destruct (Nat.compare (edepth a) (edepth b)) eqn:E.
  - apply Nat.compare_eq in E. lia.
  - discriminate.
  - apply Nat.compare_gt_iff in E. lia.
Qed.

Lemma entry_cmp_not_gt a b c : entry_cmp a b = Some c -> c <> Gt -> edepth a <= edepth b.
Proof.
  unfold entry_cmp, lex. destruct (Nat.compare (edepth a) (edepth b)) eqn:E.
  - apply Nat.compare_eq in E. lia.
  - apply Nat.compare_lt_iff in E. lia.
  - intros Q. inversion Q. congruence.
Qed.

Lemma pinsert_sorted x : forall l r,
  StronglySorted depth_le l -> pinsert entry_cmp x l = Ok r -> StronglySorted depth_le r.
Proof.
  induction l as [|y l IH]; intros r Hs; cbn [pinsert].
  - intros Q. inversion Q. constructor; constructor.
  - destruct (entry_cmp x y) as [c|] eqn:E; [|discriminate].
    inversion Hs as [|? ? Hs' Hall]. subst.
    assert (Hle : c <> Gt -> StronglySorted depth_le (x :: y :: l)).
    { intros Hc. pose proof (entry_cmp_not_gt x y c E Hc) as Hxy. constructor; [exact Hs|].
      constructor; [exact Hxy|]. eapply Forall_impl; [|exact Hall]. intros z Hz. unfold depth_le in *. lia. }
    destruct c.
    + intros Q. inversion Q. apply Hle. discriminate.
    + intros Q. inversion Q. apply Hle. discriminate.
    + destruct (pinsert entry_cmp x l) as [r'|] eqn:E'; [|discriminate]. intros Q. inversion Q. subst r.
      constructor; [apply IH; auto|].
      destruct (pinsert_total entry_cmp (fun a b => ltac:(discriminate)) x l) as [r'' [F1 [F2 _]]].
      rewrite E' in F1. inversion F1. subst r''.
      apply Forall_forall. intros z Hz. apply F2 in Hz as [-> | Hz].
      * apply entry_cmp_gt, E.
      * rewrite Forall_forall in Hall. apply Hall, Hz.
Qed.

Lemma entry_sort_sorted l : StronglySorted depth_le (entry_sort l).
Proof.
  unfold entry_sort.
  assert (G : forall l r, psort entry_cmp l = Ok r -> StronglySorted depth_le r).
  { induction l0 as [|x l0 IH]; intros r; simpl.
    - intros Q. inversion Q. constructor.
    - destruct (psort entry_cmp l0) as [r0|]; [|discriminate]. intros Q. eapply pinsert_sorted; [|exact Q]. apply IH. reflexivity. }
  destruct (psort_total entry_cmp (fun a b => ltac:(discriminate)) l) as [r [E _]]. rewrite E. eapply G; eauto.
Qed.

Lemma keep_last_sorted l : StronglySorted depth_le l -> StronglySorted depth_le (keep_last l).
Proof.
  induction l as [|x l IH]; simpl; [auto|]. intros Hs. inversion Hs as [|? ? Hs' Hall]. subst.
  destruct (mem_node (enode x) (map enode l)); [auto|].
  constructor; [auto|]. apply Forall_forall. intros z Hz. apply keep_last_sub in Hz.
  rewrite Forall_forall in Hall. auto.
Qed.

Lemma map_sorted (f : entry -> entry) l :
  (forall x, edepth (f x) = edepth x) -> StronglySorted depth_le l -> StronglySorted depth_le (map f l).
Proof.
  intros Hf. induction 1 as [|x l Hs IH Hall]; simpl; constructor; [exact IH|].
  apply Forall_forall. intros z Hz. apply in_map_iff in Hz as [z0 [<- Hz0]].
  rewrite Forall_forall in Hall. unfold depth_le. rewrite !Hf. apply Hall, Hz0.
Qed.

Lemma topo_finish_sorted fx NL dp : StronglySorted depth_le (topo_finish fx NL dp).
Proof.
  unfold topo_finish, dedup. apply map_sorted; [reflexivity|]. apply keep_last_sorted, entry_sort_sorted.
Qed.

Lemma listing_sorted fx cmp fuel w top l :
  dependent_products_with fx cmp fuel w top true = Ok l -> StronglySorted depth_le l.
Proof.
  unfold dependent_products_with. destruct (walk_top fuel w [] top) as [[o1 s1]|]; [|discriminate].
  cbn [negb]. cbv zeta. destruct (walk_top fuel w _ top) as [[o2 s2]|]; [|discriminate].
  destruct (topo_layers_with cmp false (pd s2)) as [L|]; [|discriminate].
  intros Q. inversion Q. apply topo_finish_sorted.
Qed.

Lemma sorted_suffix l1 : forall l2, StronglySorted depth_le (l1 ++ l2) -> StronglySorted depth_le l2.
Proof. induction l1 as [|x l1 IH]; simpl; intros l2 H; [exact H|]. inversion H. auto. Qed.

(* ------------------------------------------------------------ deciding the hypotheses on a concrete world *)
Definition closure_list (fuel : nat) (w : world) (top : node) : option (list node) :=
  match walk_top fuel w [] top with Ok (out, _) => Some (top :: map enode out) | Err _ => None end.

Definition one_version_b (l : list node) : bool :=
  forallb (fun p => forallb (fun q => implb (str_eqb (nname p) (nname q)) (node_eqb p q)) l) l.

Definition acyclic_b (fuel : nat) (w : world) (l : list node) : bool :=
  forallb (fun p => match walk_top fuel w [] p with
                    | Ok (out, _) => negb (mem_node p (map enode out))
                    | Err _ => false
                    end) l.

Definition wf_world_b (w : world) : bool :=
  forallb (fun it => forallb (fun e =>
    match eres e with
    | Some r => declared w (ename e) r
    | None => match evers e with Some v => negb (declared w (ename e) v) | None => true end
    end) (snd it)) w.

Lemma hyps_by_computation fuel w top l :
  length w < fuel -> closure_list fuel w top = Some l ->
  acyclic_b fuel w l = true -> wf_world_b w = true ->
  wf_world w /\ acyclic_from w top.
Proof.
  intros Hf Hc H2 H3. unfold closure_list in Hc.
  destruct (walk_top_spec w [] top fuel Hf) as [out [st [E Hout]]]. rewrite E in Hc. inversion Hc. subst l. clear Hc.
  assert (Hcl : forall q, closure w top q -> In q (top :: map enode out)).
  { intros q [-> | R]; [left; reflexivity | right; apply Hout, R]. }
  split.
  - intros n v es e T Ie. apply table_of_In in T. unfold wf_world_b in H3. rewrite forallb_forall in H3.
    specialize (H3 _ T). simpl in H3. rewrite forallb_forall in H3. specialize (H3 e Ie). split.
    + intros r Er. rewrite Er in H3. exact H3.
    + intros v' Er Ev. rewrite Er, Ev in H3. apply negb_true_iff, H3.
  - intros p Cp R. unfold acyclic_b in H2. rewrite forallb_forall in H2. specialize (H2 p (Hcl p Cp)).
    destruct (walk_top_spec w [] p fuel Hf) as [outp [stp [Ep Hp]]]. rewrite Ep in H2.
    apply negb_true_iff, mem_node_not_In in H2. apply H2, Hp, R.
Qed.
