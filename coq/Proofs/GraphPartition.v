(* Soundness of the partition checker [partition_ok]: a component list it accepts is exactly the
   partition of the graph into strongly connected components. *)
From Coq Require Import Lia.
From Eupsv Require Import Base.Base Base.BaseLemmas Model.Graph Proofs.GraphLib Proofs.GraphLayers Proofs.GraphTarjan.

(* reflexive-transitive reachability *)
Inductive gstar (g : graph) : node -> node -> Prop :=
| gs_refl a : gstar g a a
| gs_step a b c : gstar g a b -> gedge g b c -> gstar g a c.

Lemma gstar_trans g a b c : gstar g a b -> gstar g b c -> gstar g a c.
Proof.
  intros H1 H2. revert H1. induction H2 as [b | b c d H IH E]; intros H1; [exact H1|].
  eapply gs_step; [apply IH, H1 | exact E].
Qed.

Lemma gstar_path g a b : gstar g a b -> a = b \/ gpath g a b.
Proof.
  induction 1 as [a | a b c H IH E]; [auto|]. right.
  destruct IH as [-> | P]; [apply gp_one, E | eapply gpath_snoc; eauto].
Qed.

Lemma gpath_star g a b : gpath g a b -> gstar g a b.
Proof.
  induction 1 as [a b E | a b c E _ IH].
  - eapply gs_step; [apply gs_refl | exact E].
  - eapply gstar_trans; [eapply gs_step; [apply gs_refl | exact E] | exact IH].
Qed.

Lemma succs_of_gedge g n l s : succs_of g n = Some l -> In s l -> gedge g n s.
Proof. intros H I. exists l. split; [apply succs_of_In, H | exact I]. Qed.

Lemma reach_set_sound g fuel : forall cur x,
  In x (reach_set fuel g cur) -> exists c, In c cur /\ gstar g c x.
Proof.
  induction fuel as [|f IH]; intros cur x; simpl.
  - intros H. exists x. split; [exact H | apply gs_refl].
  - intros H. apply IH in H as [c [Ic Sc]]. apply uniq_nodes_In, in_app_iff in Ic as [Ic | Ic].
    + eauto.
    + apply in_flat_map in Ic as [n [In_ Is]]. exists n. split; [exact In_|].
      destruct (succs_of g n) as [l|] eqn:E; [|destruct Is].
      eapply gstar_trans; [|exact Sc]. eapply gs_step; [apply gs_refl | eapply succs_of_gedge; eauto].
Qed.

Lemma index_of_comp_In cs n : forall i j, index_of_comp cs n i = Some j -> i <= j /\ In n (nth (j - i) cs []).
Proof.
  induction cs as [|c r IH]; intros i j; simpl; [discriminate|].
  destruct (mem_node n c) eqn:M.
  - intros Q. inversion Q. subst. split; [lia|]. rewrite Nat.sub_diag. apply mem_node_In, M.
  - intros Q. apply IH in Q as [Q1 Q2]. split; [lia|].
    replace (j - i) with (S (j - S i)) by lia. exact Q2.
Qed.

Lemma index_of_comp_Some cs n : In n (concat cs) -> forall i, exists j, index_of_comp cs n i = Some j.
Proof.
  induction cs as [|c r IH]; simpl; [tauto|]. intros H i.
  destruct (mem_node n c) eqn:M; [eauto|].
  apply in_app_iff in H as [H | H]; [apply mem_node_In in H; congruence|]. apply IH, H.
Qed.

Definition same_comp (cs : list comp) (a b : node) : Prop := exists c, In c cs /\ In a c /\ In b c.

Theorem partition_ok_sound g cs :
  partition_ok g cs = true ->
  NoDup (concat cs) /\
  (forall n, In n (gkeys g) <-> In n (concat cs)) /\
  (forall a b, In a (gkeys g) -> In b (gkeys g) ->
     (same_comp cs a b <-> a = b \/ (gpath g a b /\ gpath g b a))).
Proof.
  unfold partition_ok. rewrite !andb_true_iff. intros [[[[H1 H2] H3] H4] H5].
  apply nodup_nodes_NoDup in H1.
  rewrite forallb_forall in H2, H3, H4, H5.
  assert (Hk : forall n, In n (gkeys g) <-> In n (concat cs)).
  { intros n. split; intros H; [apply mem_node_In, H2, H | apply mem_node_In, H3, H]. }
  split; [exact H1|]. split; [exact Hk|].
  (* the index does not increase along edges, hence along paths *)
  assert (Hedge : forall a b, gedge g a b -> forall i j,
             index_of_comp cs a 0 = Some i -> index_of_comp cs b 0 = Some j -> j <= i).
  { intros a b [ss [I1 I2]] i j Ei Ej. specialize (H4 (a, ss) I1). simpl in H4.
    rewrite forallb_forall in H4. specialize (H4 b I2). rewrite Ei, Ej in H4. apply Nat.leb_le, H4. }
  assert (Hidx : forall a b, gedge g a b -> exists i j, index_of_comp cs a 0 = Some i /\ index_of_comp cs b 0 = Some j).
  { intros a b [ss [I1 I2]]. specialize (H4 (a, ss) I1). simpl in H4.
    rewrite forallb_forall in H4. specialize (H4 b I2).
    destruct (index_of_comp cs a 0) as [i|]; [|discriminate].
    destruct (index_of_comp cs b 0) as [j|]; [|discriminate]. eauto. }
  assert (Hpath : forall a b, gpath g a b -> exists i j,
             index_of_comp cs a 0 = Some i /\ index_of_comp cs b 0 = Some j /\ j <= i).
  { induction 1 as [a b E | a b c E _ IH].
    - destruct (Hidx a b E) as [i [j [Ei Ej]]]. exists i, j. split; [exact Ei|]. split; [exact Ej|]. eapply Hedge; eauto.
    - destruct (Hidx a b E) as [i [j [Ei Ej]]]. destruct IH as [j' [k [Ej' [Ek Le]]]].
      rewrite Ej in Ej'. inversion Ej'. subst j'. exists i, k. split; [exact Ei|]. split; [exact Ek|].
      pose proof (Hedge a b E i j Ei Ej). lia. }
  intros a b Ka Kb. split.
  - intros [c [Ic [Ia Ib]]]. specialize (H5 c Ic). destruct c as [|h c']; [discriminate|].
    rewrite forallb_forall in H5.
    pose proof (H5 a Ia) as Ha. pose proof (H5 b Ib) as Hb.
    apply andb_true_iff in Ha as [Ha1 Ha2]. apply andb_true_iff in Hb as [Hb1 Hb2].
    apply mem_node_In, reach_set_sound in Ha1 as [x [[<- | []] Sha]].
    apply mem_node_In, reach_set_sound in Ha2 as [x [[<- | []] Sah]].
    apply mem_node_In, reach_set_sound in Hb1 as [x [[<- | []] Shb]].
    apply mem_node_In, reach_set_sound in Hb2 as [x [[<- | []] Sbh]].
    destruct (node_eq_dec a b) as [-> | Ne]; [auto|]. right. split.
    + destruct (gstar_path g a b (gstar_trans _ _ _ _ Sah Shb)); [contradiction | assumption].
    + destruct (gstar_path g b a (gstar_trans _ _ _ _ Sbh Sha)); [congruence | assumption].
  - intros [-> | [P1 P2]].
    + apply Hk in Kb. apply in_concat in Kb as [c [Ic Ib]]. exists c. auto.
    + destruct (Hpath a b P1) as [i [j [Ei [Ej L1]]]]. destruct (Hpath b a P2) as [j' [i' [Ej' [Ei' L2]]]].
      rewrite Ej in Ej'. rewrite Ei in Ei'. inversion Ej'. inversion Ei'. subst j' i'.
      assert (i = j) by lia. subst j.
      apply index_of_comp_In in Ei as [_ Ia]. apply index_of_comp_In in Ej as [_ Ib].
      rewrite Nat.sub_0_r in Ia, Ib. exists (nth i cs []). split; [|auto].
      destruct (nth_in_or_default i cs []) as [H | H]; [exact H|]. rewrite H in Ia. destruct Ia.
Qed.
