(* Tarjan's algorithm as written in utils.stronglyConnectedComponents, on graphs without cycles:
   every component it reports is a single node and every node is reported.  (Correctness on cyclic
   graphs is not proved; there the partition is validated by the checker of Proofs/GraphPartition.v.) *)
From Coq Require Import Lia.
From Eupsv Require Import Base.Base Base.BaseLemmas Model.Graph Proofs.GraphLib Proofs.GraphLayers.

Lemma low_get_set_same l n v : low_get (low_set l n v) n = Some v.
Proof.
  induction l as [|[k v'] l IH]; simpl.
  - rewrite node_eqb_refl. reflexivity.
  - destruct (node_eqb n k) eqn:E; simpl; rewrite E; [reflexivity | exact IH].
Qed.

Lemma low_get_set_other l n v x : x <> n -> low_get (low_set l n v) x = low_get l x.
Proof.
  intros N. induction l as [|[k v'] l IH]; simpl.
  - apply node_eqb_neq in N. rewrite N. reflexivity.
  - destruct (node_eqb n k) eqn:E; simpl.
    + apply node_eqb_eq in E. subst k. apply node_eqb_neq in N. rewrite N. reflexivity.
    + destruct (node_eqb x k); auto.
Qed.

Lemma low_get_None l x : low_get l x = None <-> ~ In x (map fst l).
Proof.
  induction l as [|[k v] l IH]; simpl; [tauto|].
  destruct (node_eqb x k) eqn:E.
  - apply node_eqb_eq in E. subst. split; [discriminate | tauto].
  - apply node_eqb_neq in E. rewrite IH. split; [intros H [Q | Q]; [congruence | tauto] | tauto].
Qed.

Lemma low_get_Some_In l x v : low_get l x = Some v -> In x (map fst l).
Proof.
  intros H. destruct (in_dec node_eq_dec x (map fst l)) as [I | I]; [exact I|].
  apply low_get_None in I. congruence.
Qed.

Lemma low_set_dom_in l n v : In n (map fst l) -> map fst (low_set l n v) = map fst l.
Proof.
  induction l as [|[k v'] l IH]; simpl; [tauto|].
  destruct (node_eqb n k) eqn:E; simpl.
  - apply node_eqb_eq in E. subst. reflexivity.
  - intros [H | H]; [apply node_eqb_neq in E; congruence|]. rewrite IH; auto.
Qed.

Lemma low_set_dom_new l n v : ~ In n (map fst l) -> map fst (low_set l n v) = map fst l ++ [n].
Proof.
  induction l as [|[k v'] l IH]; simpl; [reflexivity|].
  intros H. destruct (node_eqb n k) eqn:E; simpl.
  - apply node_eqb_eq in E. subst. tauto.
  - rewrite IH; tauto.
Qed.

Lemma succs_of_In g n ss : succs_of g n = Some ss -> In (n, ss) g.
Proof.
  induction g as [|[k l] g IH]; simpl; [discriminate|].
  destruct (node_eqb n k) eqn:E.
  - apply node_eqb_eq in E. subst. intros Q. inversion Q. auto.
  - auto.
Qed.

Lemma gpath_snoc g a b c : gpath g a b -> gedge g b c -> gpath g a c.
Proof.
  induction 1 as [a b E | a b c' E _ IH]; intros F.
  - eapply gp_more; [exact E | apply gp_one, F].
  - eapply gp_more; [exact E | apply IH, F].
Qed.

Lemma NoDup_snoc {A} (l : list A) x : NoDup l -> ~ In x l -> NoDup (l ++ [x]).
Proof.
  induction l as [|y l IH]; simpl; intros H N.
  - constructor; [tauto | constructor].
  - inversion H. subst. constructor.
    + rewrite in_app_iff. simpl. intros [I | [E | []]]; [contradiction | subst; tauto].
    + apply IH; tauto.
Qed.

Section Dag.
  Variable g : graph.
  Hypothesis Hacyc : acyclic g.
  Hypothesis Hclosed : forall n ss s, In (n, ss) g -> In s ss -> In s (gkeys g).
  Let N := length g.

  Definition dom (st : tstate) : list node := map fst (low st).

  Record tinv (st : tstate) : Prop := {
    ti_nodup : NoDup (dom st);
    ti_keys : incl (dom st) (gkeys g)
  }.

  (* what a completed visit has done *)
  Record tpost (st st' : tstate) : Prop := {
    tp_stack : stack st' = stack st;
    tp_old : forall x v, low_get (low st) x = Some v -> low_get (low st') x = Some v;
    tp_new : forall x, In x (dom st') -> ~ In x (dom st) -> low_get (low st') x = Some N /\ In [x] (comps st');
    tp_comps_mono : forall c, In c (comps st) -> In c (comps st');
    tp_comps_new : forall c, In c (comps st') -> In c (comps st) \/ exists x, c = [x] /\ In x (dom st');
    tp_inv : tinv st'
  }.

  Lemma tpost_refl st : tinv st -> tpost st st.
  Proof. intros I. constructor; auto. tauto. Qed.

  Lemma tpost_dom_mono st st' : tpost st st' -> incl (dom st) (dom st').
  Proof.
    intros P x Hx. unfold dom in *.
    destruct (low_get (low st) x) as [v|] eqn:E.
    - eapply low_get_Some_In. apply (tp_old _ _ P), E.
    - apply low_get_None in E. contradiction.
  Qed.

  Lemma tpost_trans st1 st2 st3 : tpost st1 st2 -> tpost st2 st3 -> tpost st1 st3.
  Proof.
    intros P Q. constructor.
    - rewrite (tp_stack _ _ Q). apply (tp_stack _ _ P).
    - intros x v H. apply (tp_old _ _ Q), (tp_old _ _ P), H.
    - intros x H3 H1. destruct (in_dec node_eq_dec x (dom st2)) as [H2 | H2].
      + destruct (tp_new _ _ P x H2 H1) as [A B]. split; [apply (tp_old _ _ Q), A | apply (tp_comps_mono _ _ Q), B].
      + apply (tp_new _ _ Q x H3 H2).
    - intros c H. apply (tp_comps_mono _ _ Q), (tp_comps_mono _ _ P), H.
    - intros c H. destruct (tp_comps_new _ _ Q c H) as [H' | H']; [|auto].
      destruct (tp_comps_new _ _ P c H') as [H'' | [x [E Hx]]]; [auto|]. right. exists x. split; [exact E|].
      eapply tpost_dom_mono; eauto.
    - apply (tp_inv _ _ Q).
  Qed.

  (* every node already numbered is finished or lies on a path to n *)
  Definition tpre (st : tstate) (n : node) : Prop :=
    forall x v, low_get (low st) x = Some v -> v = N \/ gpath g x n.

  Definition rec_dag (rec : node -> tstate -> res tstate) : Prop :=
    forall s st st', rec s st = Ok st' -> tinv st -> In s (gkeys g) -> tpre st s ->
                     tpost st st' /\ In s (dom st').

  Lemma visit_succs_dag rec n num :
    rec_dag rec -> num <= N ->
    forall ss st st',
      (forall s, In s ss -> gedge g n s /\ In s (gkeys g)) ->
      visit_succs rec n ss st = Ok st' ->
      tinv st -> low_get (low st) n = Some num ->
      (forall x v, low_get (low st) x = Some v -> v = N \/ x = n \/ gpath g x n) ->
      tpost st st' /\ low_get (low st') n = Some num.
  Proof.
    intros Hrec Hnum. induction ss as [|s r IH]; intros st st' Hss; simpl.
    - intros Q I Ln A. inversion Q. subst. split; [apply tpost_refl, I | exact Ln].
    - destruct (rec s st) as [st1|] eqn:E1; [|discriminate].
      destruct (low_get (low st1) n) as [a|] eqn:La; [|discriminate].
      destruct (low_get (low st1) s) as [b|] eqn:Lb; [|discriminate].
      intros Q I Ln A.
      destruct (Hss s (or_introl eq_refl)) as [Es Ks].
      assert (Pre : tpre st s).
      { intros x v Lx. destruct (A x v Lx) as [-> | [-> | P]]; [auto | right; apply gp_one, Es | right; eapply gpath_snoc; eauto]. }
      destruct (Hrec s st st1 E1 I Ks Pre) as [P1 D1].
      assert (Ea : a = num).
      { pose proof (tp_old _ _ P1 n num Ln) as X. congruence. }
      assert (Eb : b = N).
      { destruct (low_get (low st) s) as [v|] eqn:Ls.
        - pose proof (tp_old _ _ P1 s v Ls) as X. rewrite Lb in X. inversion X. subst v.
          destruct (A s b Ls) as [-> | [-> | P]]; [reflexivity | |].
          + exfalso. apply (Hacyc n). apply gp_one, Es.
          + exfalso. apply (Hacyc s). eapply gpath_snoc; eauto.
        - apply low_get_None in Ls. destruct (tp_new _ _ P1 s D1 Ls) as [X _]. congruence. }
      subst a b. rewrite Nat.min_l in Q by exact Hnum.
      set (st2 := mkT (low_set (low st1) n num) (stack st1) (comps st1)) in *.
      assert (Same : forall x, low_get (low st2) x = low_get (low st1) x).
      { intros x. unfold st2. simpl. destruct (node_eq_dec x n) as [-> | Ne].
        - rewrite low_get_set_same. symmetry. exact La.
        - apply low_get_set_other, Ne. }
      assert (Dom2 : dom st2 = dom st1).
      { unfold dom, st2. simpl. apply low_set_dom_in. eapply low_get_Some_In; eauto. }
      assert (P12 : tpost st1 st2).
      { constructor.
        - reflexivity.
        - intros x v H. rewrite Same. exact H.
        - intros x H1 H2. rewrite Dom2 in H1. contradiction.
        - intros c H. exact H.
        - intros c H. left. exact H.
        - destruct (tp_inv _ _ P1) as [X Y]. constructor; rewrite Dom2; assumption. }
      assert (P02 : tpost st st2) by (eapply tpost_trans; eauto).
      assert (A2 : forall x v, low_get (low st2) x = Some v -> v = N \/ x = n \/ gpath g x n).
      { intros x v Lx. rewrite Same in Lx.
        destruct (low_get (low st) x) as [v0|] eqn:L0.
        - pose proof (tp_old _ _ P1 x v0 L0) as X. rewrite Lx in X. inversion X. subst. eapply A; eauto.
        - apply low_get_None in L0. destruct (tp_new _ _ P1 x (low_get_Some_In _ _ _ Lx) L0) as [X _].
          left. congruence. }
      assert (Ln2 : low_get (low st2) n = Some num) by (rewrite Same; exact La).
      destruct (IH st2 st' (fun s' H => Hss s' (or_intror H)) Q (tp_inv _ _ P02) Ln2 A2) as [P23 L3].
      split; [eapply tpost_trans; eauto | exact L3].
  Qed.

  Lemma visit_dag fuel : rec_dag (visit fuel g).
  Proof.
    induction fuel as [|f IH]; intros n st st'; [discriminate|].
    cbn [visit]. destruct (low_get (low st) n) as [v|] eqn:Ln.
    - intros Q I K _. inversion Q. subst. split; [apply tpost_refl, I | eapply low_get_Some_In; eauto].
    - destruct (succs_of g n) as [ss|] eqn:Es; [|discriminate].
      set (num := length (low st)). set (pos := length (stack st)).
      set (st1 := mkT (low_set (low st) n num) (stack st ++ [n]) (comps st)).
      destruct (visit_succs (visit f g) n ss st1) as [st2|] eqn:E2; [|discriminate].
      destruct (low_get (low st2) n) as [l|] eqn:L2; [|discriminate].
      intros Q I K Pre.
      apply low_get_None in Ln as Nn.
      assert (Dom1 : dom st1 = dom st ++ [n]) by (unfold dom, st1; simpl; apply low_set_dom_new, Nn).
      assert (I1 : tinv st1).
      { destruct I as [X Y]. constructor; rewrite Dom1.
        - apply NoDup_snoc; auto.
        - intros x H. apply in_app_iff in H as [H | [<- | []]]; auto. }
      assert (Hnum : num <= N).
      { unfold num, N. destruct I as [X Y]. unfold dom in *.
        rewrite <- (map_length fst (low st)). unfold gkeys in Y. rewrite <- (map_length fst g).
        apply NoDup_incl_length; assumption. }
      assert (Hss : forall s, In s ss -> gedge g n s /\ In s (gkeys g)).
      { intros s Hs. apply succs_of_In in Es. split; [exists ss; auto|]. apply Hclosed with (n := n) (ss := ss); auto. }
      assert (A1 : forall x v, low_get (low st1) x = Some v -> v = N \/ x = n \/ gpath g x n).
      { intros x v Lx. destruct (node_eq_dec x n) as [-> | Ne]; [auto|].
        unfold st1 in Lx. simpl in Lx. rewrite low_get_set_other in Lx by exact Ne.
        destruct (Pre x v Lx); auto. }
      assert (L1 : low_get (low st1) n = Some num) by (unfold st1; simpl; apply low_get_set_same).
      destruct (visit_succs_dag (visit f g) n num IH Hnum ss st1 st2 Hss E2 I1 L1 A1) as [P12 Ln2].
      rewrite L2 in Ln2. inversion Ln2. subst l. rewrite Nat.eqb_refl in Q. inversion Q. subst st'. clear Q.
      assert (Stk : stack st2 = stack st ++ [n]) by (rewrite (tp_stack _ _ P12); reflexivity).
      assert (Sk : skipn pos (stack st2) = [n]).
      { rewrite Stk. unfold pos. rewrite skipn_app, skipn_all, Nat.sub_diag. reflexivity. }
      assert (Fn : firstn pos (stack st2) = stack st).
      { rewrite Stk. unfold pos. rewrite firstn_app, firstn_all, Nat.sub_diag. simpl. apply app_nil_r. }
      rewrite Sk, Fn. cbn [fold_left].
      assert (Dn2 : In n (dom st2)) by (unfold dom; eapply low_get_Some_In; eauto).
      assert (Dom3 : map fst (low_set (low st2) n (length g)) = dom st2) by (apply low_set_dom_in, Dn2).
      split.
      + constructor; cbn [stack low comps].
        * reflexivity.
        * intros x v Lx. assert (Ne : x <> n) by (intros ->; congruence).
          rewrite low_get_set_other by exact Ne. apply (tp_old _ _ P12). unfold st1. simpl.
          rewrite low_get_set_other by exact Ne. exact Lx.
        * intros x Hx Hnx. unfold dom in Hx. cbn [low] in Hx. rewrite Dom3 in Hx.
          destruct (node_eq_dec x n) as [-> | Ne].
          -- split; [apply low_get_set_same | apply in_or_app; right; left; reflexivity].
          -- rewrite low_get_set_other by exact Ne.
             assert (Hn1 : ~ In x (dom st1)).
             { rewrite Dom1. intros H. apply in_app_iff in H as [H | [<- | []]]; tauto. }
             destruct (tp_new _ _ P12 x Hx Hn1) as [X Y]. split; [exact X | apply in_or_app; left; exact Y].
        * intros c H. apply in_or_app. left. apply (tp_comps_mono _ _ P12). exact H.
        * intros c H. apply in_app_iff in H as [H | [<- | []]].
          -- destruct (tp_comps_new _ _ P12 c H) as [H' | [x [E Hx]]]; [auto|]. right. exists x. split; [exact E|].
             unfold dom. cbn [low]. rewrite Dom3. exact Hx.
          -- right. exists n. split; [reflexivity|]. unfold dom. cbn [low]. rewrite Dom3. exact Dn2.
        * destruct (tp_inv _ _ P12) as [X Y]. constructor; unfold dom; cbn [low]; rewrite Dom3; assumption.
      + unfold dom. cbn [low]. rewrite Dom3. exact Dn2.
  Qed.
End Dag.

Lemma fold_low_set_dom comp : forall lw v x,
  In x (map fst lw) -> In x (map fst (fold_left (fun lw it => low_set lw it v) comp lw)).
Proof.
  induction comp as [|c comp IHc]; intros lw v x Hx; simpl; [exact Hx|].
  apply IHc. destruct (in_dec node_eq_dec c (map fst lw)) as [I | I].
  - rewrite low_set_dom_in by exact I. exact Hx.
  - rewrite low_set_dom_new by exact I. apply in_or_app. auto.
Qed.

Definition closed_graph (g : graph) : Prop := forall n ss s, In (n, ss) g -> In s ss -> In s (gkeys g).

Lemma visit_all_dag g (Ha : acyclic g) (Hc : closed_graph g) fuel : forall ns st st',
  visit_all fuel g ns st = Ok st' ->
  incl ns (gkeys g) ->
  tinv g st ->
  (forall x v, low_get (low st) x = Some v -> v = length g) ->
  (forall x, In x (dom st) -> In [x] (comps st)) ->
  (forall c, In c (comps st) -> exists x, c = [x] /\ In x (gkeys g)) ->
  (forall x, In x ns -> In x (dom st')) /\
  (forall x, In x (dom st') -> In [x] (comps st')) /\
  (forall c, In c (comps st') -> exists x, c = [x] /\ In x (gkeys g)).
Proof.
  induction ns as [|n r IH]; intros st st'; simpl.
  - intros Q _ _ _ A B. inversion Q. subst. split; [intros x []|]. auto.
  - destruct (visit fuel g n st) as [st1|] eqn:E; [|discriminate].
    intros Q K I D A B.
    assert (Pre : tpre g st n) by (intros x v L; left; eapply D; eauto).
    destruct (visit_dag g Ha Hc fuel n st st1 E I (K n (or_introl eq_refl)) Pre) as [P Dn].
    assert (D1 : forall x v, low_get (low st1) x = Some v -> v = length g).
    { intros x v L. destruct (low_get (low st) x) as [v0|] eqn:L0.
      - pose proof (tp_old _ _ _ P x v0 L0) as X. rewrite L in X. inversion X. subst. eapply D; eauto.
      - apply low_get_None in L0. destruct (tp_new _ _ _ P x (low_get_Some_In _ _ _ L) L0) as [X _]. congruence. }
    assert (A1 : forall x, In x (dom st1) -> In [x] (comps st1)).
    { intros x H. destruct (in_dec node_eq_dec x (dom st)) as [H0 | H0].
      - apply (tp_comps_mono _ _ _ P), A, H0.
      - apply (tp_new _ _ _ P x H H0). }
    assert (B1 : forall c, In c (comps st1) -> exists x, c = [x] /\ In x (gkeys g)).
    { intros c H. destruct (tp_comps_new _ _ _ P c H) as [H0 | [x [Ec Hx]]]; [auto|]. exists x. split; [exact Ec|].
      apply (ti_keys _ _ (tp_inv _ _ _ P)), Hx. }
    destruct (IH st1 st' Q (fun x H => K x (or_intror H)) (tp_inv _ _ _ P) D1 A1 B1) as [R1 [R2 R3]].
    split; [|auto]. intros x [<- | H]; [|auto].
    (* n stays in the domain *)
    clear - Dn Q. revert st1 Dn Q. induction r as [|m r IHr]; intros st1 Dn; simpl.
    + intros Q. inversion Q. subst. exact Dn.
    + destruct (visit fuel g m st1) as [st2|] eqn:E2; [|discriminate]. intros Q.
      apply (IHr st2); [|exact Q].
      (* visit never removes a node from low *)
      clear - Dn E2. revert m st1 st2 Dn E2.
      assert (G : forall f m st1 st2, visit f g m st1 = Ok st2 -> incl (dom st1) (dom st2)).
      { induction f as [|f IHf]; intros m st1 st2; [discriminate|].
        cbn [visit]. destruct (low_get (low st1) m) eqn:Lm.
        - intros Q. inversion Q. subst. apply incl_refl.
        - destruct (succs_of g m) as [ss|]; [|discriminate].
          set (st0 := mkT _ _ _).
          assert (G2 : forall ss sta stb, visit_succs (visit f g) m ss sta = Ok stb -> incl (dom sta) (dom stb)).
          { induction ss0 as [|s ss0 IHs]; intros sta stb; simpl.
            - intros Q. inversion Q. subst. apply incl_refl.
            - destruct (visit f g s sta) as [stc|] eqn:Ec; [|discriminate].
              destruct (low_get (low stc) m) as [a|] eqn:La; [|discriminate].
              destruct (low_get (low stc) s) as [b|]; [|discriminate].
              intros Q. apply IHs in Q. intros x Hx. apply Q. unfold dom. cbn [low].
              rewrite low_set_dom_in by (eapply low_get_Some_In; eauto).
              apply (IHf s sta stc Ec), Hx. }
          destruct (visit_succs (visit f g) m ss st0) as [std|] eqn:Ed; [|discriminate].
          apply G2 in Ed. destruct (low_get (low std) m) as [l|] eqn:Ll; [|discriminate].
          assert (D0 : incl (dom st1) (dom st0)).
          { unfold st0, dom. cbn [low]. apply low_get_None in Lm. rewrite low_set_dom_new by exact Lm.
            intros x Hx. apply in_or_app. auto. }
          destruct (Nat.eqb (length (low st1)) l).
          + intros Q. inversion Q. subst. intros x Hx. apply D0, Ed in Hx. unfold dom. cbn [low].
            apply fold_low_set_dom. exact Hx.
          + intros Q. inversion Q. subst. intros x Hx. apply Ed, D0, Hx. }
      intros m st1 st2 Dn E2. eapply G; eauto.
Qed.

Theorem scc_dag g cs :
  acyclic g -> closed_graph g -> scc g = Ok cs ->
  (forall c, In c cs -> exists x, c = [x] /\ In x (gkeys g)) /\ (forall n, In n (gkeys g) -> In [n] cs).
Proof.
  intros Ha Hc. unfold scc.
  destruct (visit_all (S (length g)) g (gkeys g) (mkT [] [] [])) as [st|] eqn:E; [|discriminate].
  intros Q. inversion Q. subst.
  destruct (visit_all_dag g Ha Hc _ _ _ _ E (incl_refl _)) as [R1 [R2 R3]]; simpl; try tauto.
  - constructor; simpl; [constructor | intros x []].
  - discriminate.
  - split; [exact R3|]. intros n H. apply R2, R1, H.
Qed.

(* ------------------------------------------------------------ the fuel given to Tarjan and to the layering suffices *)
Lemma visit_dom_mono g f : forall m st1 st2, visit f g m st1 = Ok st2 -> incl (dom st1) (dom st2).
Proof.
  induction f as [|f IHf]; intros m st1 st2; [discriminate|].
  cbn [visit]. destruct (low_get (low st1) m) eqn:Lm.
  - intros Q. inversion Q. subst. apply incl_refl.
  - destruct (succs_of g m) as [ss|]; [|discriminate].
    set (st0 := mkT _ _ _).
    assert (G2 : forall ss sta stb, visit_succs (visit f g) m ss sta = Ok stb -> incl (dom sta) (dom stb)).
    { induction ss0 as [|s ss0 IHs]; intros sta stb; simpl.
      - intros Q. inversion Q. subst. apply incl_refl.
      - destruct (visit f g s sta) as [stc|] eqn:Ec; [|discriminate].
        destruct (low_get (low stc) m) as [a|] eqn:La; [|discriminate].
        destruct (low_get (low stc) s) as [b|]; [|discriminate].
        intros Q. apply IHs in Q. intros x Hx. apply Q. unfold dom. cbn [low].
        rewrite low_set_dom_in by (eapply low_get_Some_In; eauto).
        apply (IHf s sta stc Ec), Hx. }
    destruct (visit_succs (visit f g) m ss st0) as [std|] eqn:Ed; [|discriminate].
    apply G2 in Ed. destruct (low_get (low std) m) as [l|] eqn:Ll; [|discriminate].
    assert (D0 : incl (dom st1) (dom st0)).
    { unfold st0, dom. cbn [low]. apply low_get_None in Lm. rewrite low_set_dom_new by exact Lm.
      intros x Hx. apply in_or_app. auto. }
    destruct (Nat.eqb (length (low st1)) l).
    + intros Q. inversion Q. subst. intros x Hx. apply D0, Ed in Hx. unfold dom. cbn [low].
      apply fold_low_set_dom. exact Hx.
    + intros Q. inversion Q. subst. intros x Hx. apply Ed, D0, Hx.
Qed.

Lemma filter_len_le {A} (f : A -> bool) l : length (filter f l) <= length l.
Proof. induction l as [|x l IHl]; simpl; [lia|]. destruct (f x); simpl; lia. Qed.

Definition unnumbered (g : graph) (st : tstate) : nat :=
  length (filter (fun k => negb (mem_node k (dom st))) (gkeys g)).

Lemma unnumbered_mono g st st' : incl (dom st) (dom st') -> unnumbered g st' <= unnumbered g st.
Proof.
  intros H. unfold unnumbered. induction (gkeys g) as [|k l IH]; simpl; [lia|].
  destruct (mem_node k (dom st')) eqn:A; destruct (mem_node k (dom st)) eqn:B; simpl; try lia.
  apply mem_node_In in B. apply H in B. apply mem_node_not_In in A. contradiction.
Qed.

Lemma unnumbered_add g st st' n :
  In n (gkeys g) -> ~ In n (dom st) -> incl (n :: dom st) (dom st') -> unnumbered g st' < unnumbered g st.
Proof.
  intros K N H. unfold unnumbered. induction (gkeys g) as [|k l IH]; simpl; [destruct K|].
  assert (Hle : length (filter (fun k => negb (mem_node k (dom st'))) l) <= length (filter (fun k => negb (mem_node k (dom st))) l)).
  { clear - H. induction l as [|k l IH]; simpl; [lia|].
    destruct (mem_node k (dom st')) eqn:A; destruct (mem_node k (dom st)) eqn:B; simpl; try lia.
    apply mem_node_In in B. apply mem_node_not_In in A. exfalso. apply A, H. simpl. auto. }
  destruct K as [-> | K].
  - assert (A : mem_node n (dom st') = true) by (apply mem_node_In, H; simpl; auto).
    assert (B : mem_node n (dom st) = false) by (apply mem_node_not_In, N).
    rewrite A, B. simpl. lia.
  - specialize (IH K). destruct (mem_node k (dom st')) eqn:A; destruct (mem_node k (dom st)) eqn:B; simpl; try lia.
    apply mem_node_In in B. apply mem_node_not_In in A. exfalso. apply A, H. simpl. auto.
Qed.

Lemma visit_fuel g f : forall n st, unnumbered g st < f -> visit f g n st <> Err OutOfFuel.
Proof.
  induction f as [|f IH]; intros n st Hlt; [lia|].
  cbn [visit]. destruct (low_get (low st) n) eqn:Ln; [discriminate|].
  destruct (succs_of g n) as [ss|] eqn:Es; [|discriminate].
  set (st1 := mkT _ _ _).
  apply low_get_None in Ln.
  assert (D1 : incl (n :: dom st) (dom st1)).
  { unfold st1, dom. cbn [low]. rewrite low_set_dom_new by exact Ln. intros x [<- | Hx]; apply in_or_app; simpl; auto. }
  assert (Kn : In n (gkeys g)).
  { apply succs_of_In in Es. apply in_map_iff. exists (n, ss). auto. }
  assert (H1 : unnumbered g st1 < f).
  { pose proof (unnumbered_add g st st1 n Kn Ln D1). lia. }
  assert (G : forall ss sta, unnumbered g sta < f -> visit_succs (visit f g) n ss sta <> Err OutOfFuel).
  { induction ss0 as [|s ss0 IHs]; intros sta Ha; simpl; [discriminate|].
    destruct (visit f g s sta) as [stc|e] eqn:Ec.
    - destruct (low_get (low stc) n) as [a|] eqn:La; [|discriminate].
      destruct (low_get (low stc) s) as [b|]; [|discriminate].
      apply IHs. apply visit_dom_mono in Ec.
      assert (Dom : dom (mkT (low_set (low stc) n (Nat.min a b)) (stack stc) (comps stc)) = dom stc).
      { unfold dom. cbn [low]. apply low_set_dom_in. eapply low_get_Some_In; eauto. }
      pose proof (unnumbered_mono g sta stc Ec). unfold unnumbered in *. rewrite Dom. lia.
    - intros Q. inversion Q. subst e. eapply IH; eauto. }
  specialize (G ss st1 H1).
  destruct (visit_succs (visit f g) n ss st1) as [st2|e]; [|congruence].
  destruct (low_get (low st2) n); [|discriminate]. destruct (Nat.eqb _ _); discriminate.
Qed.

Lemma scc_fuel g : scc g <> Err OutOfFuel.
Proof.
  unfold scc.
  assert (G : forall ns st, visit_all (S (length g)) g ns st <> Err OutOfFuel).
  { induction ns as [|n r IH]; intros st; cbn [visit_all]; [discriminate|].
    destruct (visit (S (length g)) g n st) as [st1|e] eqn:E; [apply IH|].
    intros Q. inversion Q. subst e. eapply visit_fuel; [|exact E].
    unfold unnumbered, gkeys. pose proof (filter_len_le (fun k => negb (mem_node k (dom st))) (map fst g)).
    rewrite map_length in H. lia. }
  specialize (G (gkeys g) (mkT [] [] [])). destruct (visit_all _ _ _ _); [discriminate | congruence].
Qed.
