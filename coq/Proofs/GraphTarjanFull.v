(* Tarjan's algorithm as written in utils.stronglyConnectedComponents is correct on every graph
   (a python dict: distinct keys) that is closed under successors: [scc g] answers, and the answer
   is the partition of the nodes into strongly connected components, listed in reverse topological
   order (every edge stays inside its component or goes to a component listed earlier).

   The proof follows the usual invariant (Chen, Cohen, Levy, Merz, Thery): the numbered nodes are
   split into the stack and the finished components; the number of a node is its position in the
   list of numbered nodes (low is filled in visiting order and never shrinks); on the stack an earlier
   node reaches every later one; every stack node reaches a node that is still being visited
   ([gr], a ghost list) at or below it; the low link of a stack node is the number of a stack node it
   reaches; no finished node has an unnumbered successor. *)
From Coq Require Import Lia Permutation.
From Eupsv Require Import Base.Base Base.BaseLemmas Model.Graph Proofs.GraphLib Proofs.GraphLayers
     Proofs.GraphTarjan Proofs.GraphPartition Proofs.GraphTarjanLib.

Section Tarjan.
  Variable g : graph.
  Hypothesis Hnd : NoDup (gkeys g).
  Hypothesis Hclosed : closed_graph g.

  Definition lw (st : tstate) (x : node) : option nat := low_get (low st) x.

  Record Inv (st : tstate) (gr : list node) : Prop := {
    i_nodupD : NoDup (dom st);
    i_keys : incl (dom st) (gkeys g);
    i_perm : Permutation (dom st) (stack st ++ concat (comps st));
    i_gr : incl gr (stack st);
    i_lowC : forall x, In x (concat (comps st)) -> lw st x = Some (length g);
    i_lowS : forall x, In x (stack st) ->
               exists z, In z (stack st) /\ lw st x = Some (idx (dom st) z) /\
                         idx (dom st) z <= idx (dom st) x /\ gstar g x z;
    i_chain : forall x y, In x (stack st) -> In y (stack st) -> idx (dom st) x <= idx (dom st) y -> gstar g x y;
    i_togray : forall y, In y (stack st) ->
               exists z, In z gr /\ idx (dom st) z <= idx (dom st) y /\ gstar g y z;
    i_nbw : forall x y, In x (dom st) -> ~ In x gr -> gedge g x y -> In y (dom st);
    i_sc : forall c, In c (comps st) -> c <> [] /\ forall a b, In a c -> In b c -> gstar g a b;
    i_topo : forall x y, In x (concat (comps st)) -> gedge g x y ->
               In y (concat (comps st)) /\ cidx (comps st) y <= cidx (comps st) x
  }.

  (* ---------------------------------------------------------- consequences *)
  Lemma inv_stack_dom st gr x : Inv st gr -> In x (stack st) -> In x (dom st).
  Proof.
    intros I H. apply (Permutation_in x (Permutation_sym (i_perm _ _ I))). apply in_or_app. auto.
  Qed.

  Lemma inv_comps_dom st gr x : Inv st gr -> In x (concat (comps st)) -> In x (dom st).
  Proof.
    intros I H. apply (Permutation_in x (Permutation_sym (i_perm _ _ I))). apply in_or_app. auto.
  Qed.

  Lemma inv_dom_split st gr x : Inv st gr -> In x (dom st) -> In x (stack st) \/ In x (concat (comps st)).
  Proof. intros I H. apply in_app_iff. apply (Permutation_in x (i_perm _ _ I)), H. Qed.

  Lemma inv_nodup_sc st gr : Inv st gr -> NoDup (stack st ++ concat (comps st)).
  Proof. intros I. eapply Permutation_NoDup; [apply (i_perm _ _ I) | apply (i_nodupD _ _ I)]. Qed.

  Lemma inv_nodupS st gr : Inv st gr -> NoDup (stack st).
  Proof. intros I. apply inv_nodup_sc, NoDup_app_inv in I. tauto. Qed.

  Lemma inv_nodupC st gr : Inv st gr -> NoDup (concat (comps st)).
  Proof. intros I. apply inv_nodup_sc, NoDup_app_inv in I. tauto. Qed.

  Lemma inv_disj st gr x : Inv st gr -> In x (stack st) -> ~ In x (concat (comps st)).
  Proof. intros I. apply inv_nodup_sc, NoDup_app_inv in I. apply I. Qed.

  Lemma inv_len st gr : Inv st gr -> length (dom st) <= length g.
  Proof.
    intros I. rewrite <- (map_length fst g). apply NoDup_incl_length; [apply (i_nodupD _ _ I) | apply (i_keys _ _ I)].
  Qed.

  Lemma inv_empty_stack st : Inv st [] -> stack st = [].
  Proof.
    intros I. destruct (stack st) as [|y r] eqn:E; [reflexivity|].
    destruct (i_togray _ _ I y) as [z [[] _]]. rewrite E. left. reflexivity.
  Qed.

  Lemma lw_dom st x v : lw st x = Some v -> In x (dom st).
  Proof. apply low_get_Some_In. Qed.

  Lemma dom_lw st x : In x (dom st) -> exists v, lw st x = Some v.
  Proof.
    intros H. unfold lw. destruct (low_get (low st) x) as [v|] eqn:E; [eauto|].
    apply low_get_None in E. contradiction.
  Qed.

  (* the low link of a stack node is at most its number, which is below the number of nodes *)
  Lemma inv_low_le st gr x v : Inv st gr -> In x (stack st) -> lw st x = Some v -> v <= idx (dom st) x /\ v < length g.
  Proof.
    intros I Hx L. destruct (i_lowS _ _ I x Hx) as [z [_ [Lz [Le _]]]]. rewrite L in Lz. inversion Lz. subst v.
    split; [exact Le|]. pose proof (idx_lt (dom st) x (inv_stack_dom _ _ _ I Hx)). pose proof (inv_len _ _ I). lia.
  Qed.

  Lemma gedge_succs n ss t : succs_of g n = Some ss -> gedge g n t -> In t ss.
  Proof.
    intros E [ss' [I1 I2]]. rewrite (In_succs_of g n ss' Hnd I1) in E. inversion E. subst. exact I2.
  Qed.

  (* ---------------------------------------------------------- a node is numbered and pushed *)
  Lemma Inv_push st gr n :
    Inv st gr -> In n (gkeys g) -> ~ In n (dom st) -> (forall x, In x (stack st) -> gstar g x n) ->
    Inv (mkT (low_set (low st) n (length (low st))) (stack st ++ [n]) (comps st)) (gr ++ [n]).
  Proof.
    intros I K Nn R.
    assert (Dom : dom (mkT (low_set (low st) n (length (low st))) (stack st ++ [n]) (comps st)) = dom st ++ [n]).
    { unfold dom. cbn [low]. apply low_set_dom_new, Nn. }
    assert (Len : length (low st) = length (dom st)) by (unfold dom; rewrite map_length; reflexivity).
    assert (Old : forall x, In x (dom st) -> idx (dom st ++ [n]) x = idx (dom st) x) by (intros; apply idx_app_l; assumption).
    assert (New : idx (dom st ++ [n]) n = length (dom st)) by (apply idx_snoc_new, Nn).
    assert (LwOld : forall x, x <> n -> lw (mkT (low_set (low st) n (length (low st))) (stack st ++ [n]) (comps st)) x = lw st x).
    { intros x Ne. unfold lw. cbn [low]. apply low_get_set_other, Ne. }
    constructor; rewrite ?Dom; cbn [stack comps].
    - apply NoDup_snoc; [apply (i_nodupD _ _ I) | exact Nn].
    - intros x H. apply in_app_iff in H as [H | [<- | []]]; [apply (i_keys _ _ I), H | exact K].
    - rewrite <- app_assoc. eapply Permutation_trans; [apply Permutation_app_tail, (i_perm _ _ I)|].
      rewrite <- app_assoc. apply Permutation_app_head, Permutation_app_comm.
    - intros x H. apply in_app_iff in H as [H | H]; apply in_or_app; [left; apply (i_gr _ _ I), H | right; exact H].
    - intros x H. rewrite LwOld; [apply (i_lowC _ _ I), H|]. intros ->. apply Nn. eapply inv_comps_dom; eauto.
    - intros x H. apply in_app_iff in H as [H | [<- | []]].
      + destruct (i_lowS _ _ I x H) as [z [Hz [Lz [Le Rz]]]]. exists z.
        split; [apply in_or_app; left; exact Hz|].
        rewrite !Old by (eapply inv_stack_dom; eauto).
        rewrite LwOld; [auto|]. intros ->. apply Nn. eapply inv_stack_dom; eauto.
      + exists n. split; [apply in_or_app; right; left; reflexivity|].
        split; [|split; [lia | apply gs_refl]].
        unfold lw. cbn [low]. rewrite low_get_set_same, New, Len. reflexivity.
    - intros x y Hx Hy. apply in_app_iff in Hx as [Hx | [<- | []]]; apply in_app_iff in Hy as [Hy | [<- | []]].
      + rewrite !Old by (eapply inv_stack_dom; eauto). apply (i_chain _ _ I); assumption.
      + intros _. apply R, Hx.
      + rewrite New, Old by (eapply inv_stack_dom; eauto). intros Le.
        pose proof (idx_lt (dom st) y (inv_stack_dom _ _ _ I Hy)). lia.
      + intros _. apply gs_refl.
    - intros y H. apply in_app_iff in H as [H | [<- | []]].
      + destruct (i_togray _ _ I y H) as [z [Hz [Le Rz]]]. exists z. split; [apply in_or_app; left; exact Hz|].
        rewrite !Old; [auto | eapply inv_stack_dom; eauto | eapply inv_stack_dom; [exact I | apply (i_gr _ _ I), Hz]].
      + exists n. split; [apply in_or_app; right; left; reflexivity|]. split; [lia | apply gs_refl].
    - intros x y Hx Ng E. apply in_or_app. left.
      apply in_app_iff in Hx as [Hx | [<- | []]].
      + apply (i_nbw _ _ I x y Hx); [|exact E]. intros J. apply Ng. apply in_or_app. auto.
      + exfalso. apply Ng. apply in_or_app. right. left. reflexivity.
    - apply (i_sc _ _ I).
    - apply (i_topo _ _ I).
  Qed.

  (* ---------------------------------------------------------- the low link of a stack node is lowered *)
  Lemma Inv_low st gr n v :
    Inv st gr -> In n (stack st) ->
    (exists z, In z (stack st) /\ v = idx (dom st) z /\ idx (dom st) z <= idx (dom st) n /\ gstar g n z) ->
    Inv (mkT (low_set (low st) n v) (stack st) (comps st)) gr.
  Proof.
    intros I Hn [z [Hz [Ev [Le Rz]]]].
    assert (Dn : In n (dom st)) by (eapply inv_stack_dom; eauto).
    assert (Dom : dom (mkT (low_set (low st) n v) (stack st) (comps st)) = dom st).
    { unfold dom. cbn [low]. apply low_set_dom_in, Dn. }
    assert (LwOld : forall x, x <> n -> lw (mkT (low_set (low st) n v) (stack st) (comps st)) x = lw st x).
    { intros x Ne. unfold lw. cbn [low]. apply low_get_set_other, Ne. }
    constructor; rewrite ?Dom; cbn [stack comps]; try apply I.
    - intros x H. rewrite LwOld; [apply (i_lowC _ _ I), H|]. intros ->. apply (inv_disj _ _ _ I Hn H).
    - intros x H. destruct (node_eq_dec x n) as [-> | Ne].
      + exists z. split; [exact Hz|]. split; [|auto]. unfold lw. cbn [low]. rewrite low_get_set_same, Ev. reflexivity.
      + rewrite LwOld by exact Ne. apply (i_lowS _ _ I), H.
  Qed.

  (* ---------------------------------------------------------- the frame of one call of visit:
     S0, D0 are the stack and the numbered nodes when n was met; since then n and [nd] were numbered
     and n and [above] are on the stack *)
  Section Frame.
    Variables (st : tstate) (S0 D0 above nd : list node) (n : node).
    Hypothesis Fs : stack st = S0 ++ n :: above.
    Hypothesis Fd : dom st = D0 ++ n :: nd.
    Hypothesis Fa : incl above nd.
    Hypothesis F0 : incl S0 D0.
    Hypothesis Fn : NoDup (dom st).

    Lemma fr_n_notin : ~ In n D0.
    Proof. rewrite Fd in Fn. apply NoDup_remove_2 in Fn. intros H. apply Fn. apply in_or_app. auto. Qed.

    Lemma fr_nd_notin y : In y nd -> ~ In y D0 /\ y <> n.
    Proof.
      intros H. rewrite Fd in Fn. apply NoDup_app_inv in Fn as [_ [Fn2 Fn3]]. split.
      - intros J. apply (Fn3 y J). right. exact H.
      - intros ->. inversion Fn2. contradiction.
    Qed.

    Lemma fr_idx_n : idx (dom st) n = length D0.
    Proof. rewrite Fd. rewrite idx_app_r by apply fr_n_notin. simpl. rewrite node_eqb_refl. lia. Qed.

    Lemma fr_idx_old t : In t D0 -> idx (dom st) t = idx D0 t /\ idx (dom st) t < length D0.
    Proof. intros H. rewrite Fd, idx_app_l by exact H. split; [reflexivity | apply idx_lt, H]. Qed.

    Lemma fr_idx_new y : In y nd -> length D0 < idx (dom st) y.
    Proof.
      intros H. destruct (fr_nd_notin y H) as [H1 H2]. rewrite Fd, idx_app_r by exact H1. simpl.
      apply node_eqb_neq in H2. rewrite H2. lia.
    Qed.

    Lemma fr_below z : In z (stack st) -> idx (dom st) z < length D0 -> In z S0.
    Proof.
      intros Hz Hlt. rewrite Fs in Hz. apply in_app_iff in Hz as [Hz | [<- | Hz]]; [exact Hz | |].
      - rewrite fr_idx_n in Hlt. lia.
      - pose proof (fr_idx_new z (Fa z Hz)). lia.
    Qed.

    Lemma fr_above_idx y : In y (n :: above) -> length D0 <= idx (dom st) y.
    Proof. intros [<- | H]; [rewrite fr_idx_n; lia | pose proof (fr_idx_new y (Fa y H)); lia]. Qed.

    Lemma fr_S0_stack x : In x S0 -> In x (stack st).
    Proof. intros H. rewrite Fs. apply in_or_app. auto. Qed.

    Lemma fr_n_stack : In n (stack st).
    Proof. rewrite Fs. apply in_or_app. right. left. reflexivity. Qed.

    Lemma fr_above_stack y : In y above -> In y (stack st).
    Proof. intros H. rewrite Fs. apply in_or_app. right. right. exact H. Qed.

    Lemma fr_n_dom : In n (dom st).
    Proof. rewrite Fd. apply in_or_app. right. left. reflexivity. Qed.
  End Frame.

  (* ---------------------------------------------------------- n is finished but is not a root *)
  Lemma Inv_ungray st gr0 n S0 D0 above nd :
    Inv st (gr0 ++ [n]) -> stack st = S0 ++ n :: above -> dom st = D0 ++ n :: nd -> incl above nd ->
    incl S0 D0 -> incl gr0 S0 ->
    (forall t, gedge g n t -> In t (dom st)) ->
    (forall v, lw st n = Some v -> v < length D0) ->
    Inv st gr0.
  Proof.
    intros I Fs Fd Fa F0 Fg Hvis Hlow.
    pose proof (i_nodupD _ _ I) as Fn.
    assert (GrOld : forall z, In z (gr0 ++ [n]) -> idx (dom st) z < length D0 -> In z gr0).
    { intros z Hz Hlt. apply in_app_iff in Hz as [Hz | [<- | []]]; [exact Hz|].
      rewrite (fr_idx_n _ _ _ _ Fd Fn) in Hlt. lia. }
    constructor; try apply I.
    - intros x H. apply (fr_S0_stack _ _ _ _ Fs), Fg, H.
    - intros y Hy. destruct (i_togray _ _ I y Hy) as [z [Hz [Le Rz]]].
      apply in_app_iff in Hz as [Hz | [<- | []]]; [exists z; auto|].
      pose proof (fr_n_stack _ _ _ _ Fs) as Sn.
      destruct (i_lowS _ _ I n Sn) as [z1 [Hz1 [L1 [Le1 R1]]]].
      specialize (Hlow _ L1).
      pose proof (fr_below _ _ _ _ _ _ Fs Fd Fa Fn z1 Hz1 Hlow) as Z1.
      destruct (i_togray _ _ I z1 Hz1) as [z2 [Hz2 [Le2 R2]]].
      assert (Z2 : In z2 gr0) by (apply GrOld; [exact Hz2 | lia]).
      exists z2. split; [exact Z2|]. split; [lia|].
      eapply gstar_trans; [exact Rz|]. eapply gstar_trans; [exact R1 | exact R2].
    - intros x y Hx Ng E. destruct (node_eq_dec x n) as [-> | Ne]; [apply Hvis, E|].
      apply (i_nbw _ _ I x y Hx); [|exact E]. intros J. apply in_app_iff in J as [J | [J | []]]; [contradiction | congruence].
  Qed.

  (* ---------------------------------------------------------- n is a root: its component leaves the stack *)
  Lemma cidx_last (cs : list (list node)) (c : list node) x : In x c -> ~ In x (concat cs) -> cidx (cs ++ [c]) x = length cs.
  Proof.
    intros H N. rewrite cidx_app_r by exact N. simpl. apply mem_node_In in H. rewrite H. apply Nat.add_0_r.
  Qed.

  Lemma Inv_emit st gr0 n S0 D0 above nd :
    Inv st (gr0 ++ [n]) -> stack st = S0 ++ n :: above -> dom st = D0 ++ n :: nd -> incl above nd ->
    incl S0 D0 -> incl gr0 S0 ->
    (forall t, gedge g n t -> In t (dom st)) ->
    (forall y t, In y (n :: above) -> In t S0 -> ~ gedge g y t) ->
    Inv (mkT (fold_left (fun lw it => low_set lw it (length g)) (n :: above) (low st)) S0
             (comps st ++ [n :: above])) gr0.
  Proof.
    intros I Fs Fd Fa F0 Fg Hvis Hno.
    pose proof (i_nodupD _ _ I) as Fn.
    set (cmpn := n :: above) in *.
    set (st' := mkT _ _ _).
    assert (CompS : forall x, In x cmpn -> In x (stack st)).
    { intros x H. rewrite Fs. apply in_or_app. right. exact H. }
    assert (Dom : dom st' = dom st).
    { unfold dom, st'. cbn [low]. apply fold_low_dom. intros x H. eapply inv_stack_dom; eauto. }
    assert (LwIn : forall x, In x cmpn -> lw st' x = Some (length g)).
    { intros x H. unfold lw, st'. cbn [low]. apply fold_low_get_in, H. }
    assert (LwOut : forall x, ~ In x cmpn -> lw st' x = lw st x).
    { intros x H. unfold lw, st'. cbn [low]. apply fold_low_get_out, H. }
    pose proof (inv_nodupS _ _ I) as NDS. rewrite Fs in NDS. apply NoDup_app_inv in NDS as [ND0 [NDc Disj]].
    assert (S0S : forall x, In x S0 -> In x (stack st)) by (intros x H; rewrite Fs; apply in_or_app; auto).
    assert (S0lt : forall x, In x S0 -> idx (dom st) x < length D0).
    { intros x H. apply (fr_idx_old _ _ _ _ Fd x (F0 x H)). }
    assert (GrOld : forall z, In z (gr0 ++ [n]) -> idx (dom st) z < length D0 -> In z gr0).
    { intros z Hz Hlt. apply in_app_iff in Hz as [Hz | [<- | []]]; [exact Hz|].
      rewrite (fr_idx_n _ _ _ _ Fd Fn) in Hlt. lia. }
    assert (CC : concat (comps st ++ [cmpn]) = concat (comps st) ++ cmpn).
    { rewrite concat_app. simpl. rewrite app_nil_r. reflexivity. }
    assert (Stk : stack st' = S0) by reflexivity.
    assert (Cmp : comps st' = comps st ++ [cmpn]) by reflexivity.
    constructor; rewrite ?Dom, ?Stk, ?Cmp.
    - exact Fn.
    - apply (i_keys _ _ I).
    - rewrite CC. eapply Permutation_trans; [apply (i_perm _ _ I)|]. rewrite Fs.
      rewrite <- app_assoc. apply Permutation_app_head, Permutation_app_comm.
    - exact Fg.
    - intros x H. rewrite CC in H. destruct (in_dec node_eq_dec x cmpn) as [J | J]; [apply LwIn, J|].
      rewrite LwOut by exact J. apply (i_lowC _ _ I). apply in_app_iff in H as [H | H]; [exact H | contradiction].
    - intros x H. rewrite LwOut by (apply Disj, H).
      destruct (i_lowS _ _ I x (S0S x H)) as [z [Hz [Lz [Le Rz]]]]. exists z. split; [|auto].
      apply (fr_below _ _ _ _ _ _ Fs Fd Fa Fn z Hz). pose proof (S0lt x H). lia.
    - intros x y Hx Hy. apply (i_chain _ _ I); auto.
    - intros y H. destruct (i_togray _ _ I y (S0S y H)) as [z [Hz [Le Rz]]]. exists z. split; [|auto].
      apply GrOld; [exact Hz|]. pose proof (S0lt y H). lia.
    - intros x y Hx Ng E. destruct (node_eq_dec x n) as [-> | Ne]; [apply Hvis, E|].
      apply (i_nbw _ _ I x y Hx); [|exact E]. intros J. apply in_app_iff in J as [J | [J | []]]; [contradiction | congruence].
    - intros c H. apply in_app_iff in H as [H | [<- | []]]; [apply (i_sc _ _ I), H|].
      split; [discriminate|]. intros a b Ha Hb.
      assert (Sn : In n (stack st)) by (apply CompS; left; reflexivity).
      eapply gstar_trans with (b := n).
      + destruct (i_togray _ _ I a (CompS a Ha)) as [z [Hz [Le Rz]]]. eapply gstar_trans; [exact Rz|].
        apply (i_chain _ _ I); [apply (i_gr _ _ I), Hz | exact Sn|].
        rewrite (fr_idx_n _ _ _ _ Fd Fn). apply in_app_iff in Hz as [Hz | [<- | []]].
        * pose proof (S0lt z (Fg z Hz)). lia.
        * rewrite (fr_idx_n _ _ _ _ Fd Fn). lia.
      + apply (i_chain _ _ I); [exact Sn | apply CompS, Hb|].
        rewrite (fr_idx_n _ _ _ _ Fd Fn). apply (fr_above_idx _ _ _ _ _ Fd Fa Fn b Hb).
    - intros x y Hx E. rewrite CC in Hx. rewrite CC.
      apply in_app_iff in Hx as [Hx | Hx].
      + destruct (i_topo _ _ I x y Hx E) as [Hy Le]. split; [apply in_or_app; left; exact Hy|].
        rewrite !cidx_app_l by assumption. exact Le.
      + assert (Nx : ~ In x (concat (comps st))) by (apply (inv_disj _ _ _ I), CompS, Hx).
        rewrite (cidx_last _ cmpn x Hx Nx).
        assert (Dy : In y (dom st)).
        { destruct Hx as [<- | Hx]; [apply Hvis, E|].
          apply (i_nbw _ _ I x y); [eapply inv_stack_dom; [exact I | apply CompS; right; exact Hx] | | exact E].
          intros J. apply in_app_iff in J as [J | [J | []]].
          - apply (Disj x (Fg x J)). right. exact Hx.
          - subst x. inversion NDc. contradiction. }
        destruct (inv_dom_split _ _ _ I Dy) as [Sy | Cy].
        * rewrite Fs in Sy. apply in_app_iff in Sy as [Sy | Sy]; [exfalso; apply (Hno x y Hx Sy E)|].
          assert (Ny : ~ In y (concat (comps st))) by (apply (inv_disj _ _ _ I), CompS, Sy).
          split; [apply in_or_app; right; exact Sy|]. rewrite (cidx_last _ cmpn y Sy Ny). lia.
        * split; [apply in_or_app; left; exact Cy|]. rewrite cidx_app_l by exact Cy.
          pose proof (cidx_lt _ _ Cy). lia.
  Qed.

  (* every stack node reaches the node being visited *)
  Lemma reach_top st gr0 n S0 D0 above nd :
    Inv st (gr0 ++ [n]) -> stack st = S0 ++ n :: above -> dom st = D0 ++ n :: nd ->
    incl S0 D0 -> incl gr0 S0 ->
    forall x, In x (stack st) -> gstar g x n.
  Proof.
    intros I Fs Fd F0 Fg x Hx. pose proof (i_nodupD _ _ I) as Fn.
    destruct (i_togray _ _ I x Hx) as [z [Hz [Le Rz]]]. eapply gstar_trans; [exact Rz|].
    apply (i_chain _ _ I); [apply (i_gr _ _ I), Hz | apply (fr_n_stack _ _ _ _ Fs)|].
    rewrite (fr_idx_n _ _ _ _ Fd Fn). apply in_app_iff in Hz as [Hz | [<- | []]].
    - pose proof (fr_idx_old _ _ _ _ Fd z (F0 z (Fg z Hz))). lia.
    - rewrite (fr_idx_n _ _ _ _ Fd Fn). lia.
  Qed.

  (* ---------------------------------------------------------- what a completed visit has done *)
  Record Post (gr : list node) (s : node) (st st' : tstate) : Prop := {
    p_inv : Inv st' gr;
    p_dom : exists e, dom st' = dom st ++ e;
    p_stack : exists ns, stack st' = stack st ++ ns /\ (forall y, In y ns -> ~ In y (dom st)) /\
                (forall v y t, lw st' s = Some v -> In y ns -> In t (stack st) -> gedge g y t ->
                               v <= idx (dom st') t);
    p_in : In s (dom st');
    p_low : forall x, In x (stack st) -> lw st' x = lw st x
  }.

  Definition rec_ok (rec : node -> tstate -> res tstate) : Prop :=
    forall gr s st st', rec s st = Ok st' -> Inv st gr -> In s (gkeys g) ->
      (forall x, In x (stack st) -> gstar g x s) -> Post gr s st st'.

  (* the loop over the successors of n *)
  Definition L (gr0 S0 D0 : list node) (n : node) (st : tstate) (v : nat) : Prop :=
    Inv st (gr0 ++ [n]) /\
    exists above nd, stack st = S0 ++ n :: above /\ dom st = D0 ++ n :: nd /\ incl above nd /\
      lw st n = Some v /\
      (forall y t, In y above -> In t S0 -> gedge g y t -> v <= idx (dom st) t).

  Lemma gedge_key a b : gedge g a b -> In b (gkeys g).
  Proof. intros [ss [I1 I2]]. eapply Hclosed; eauto. Qed.

  Lemma loop rec gr0 S0 D0 n : rec_ok rec -> incl S0 D0 -> incl gr0 S0 ->
    forall ss st v st',
      (forall s, In s ss -> gedge g n s) ->
      L gr0 S0 D0 n st v ->
      visit_succs rec n ss st = Ok st' ->
      exists v', L gr0 S0 D0 n st' v' /\ v' <= v /\
        (forall t, In t ss -> In t (dom st') /\ (In t S0 -> v' <= idx (dom st') t)) /\
        (forall x, In x S0 -> lw st' x = lw st x) /\
        (exists e, dom st' = dom st ++ e).
  Proof.
    intros Hrec F0 Fg. induction ss as [|s r IH]; intros st v st' Hss HL; cbn [visit_succs].
    - intros Q. inversion Q. subst st'. exists v. split; [exact HL|]. split; [lia|].
      split; [intros t []|]. split; [reflexivity|]. exists []. symmetry. apply app_nil_r.
    - destruct (rec s st) as [st1|] eqn:E1; [|discriminate].
      destruct (low_get (low st1) n) as [a|] eqn:La; [|discriminate].
      destruct (low_get (low st1) s) as [b|] eqn:Lb; [|discriminate].
      set (st2 := mkT (low_set (low st1) n (Nat.min a b)) (stack st1) (comps st1)).
      intros Q.
      destruct HL as [I [above [nd [Fs [Fd [Fa [Ln X]]]]]]].
      pose proof (i_nodupD _ _ I) as Fn.
      assert (Es : gedge g n s) by (apply Hss; left; reflexivity).
      assert (Pre : forall x, In x (stack st) -> gstar g x s).
      { intros x Hx. eapply gs_step; [|exact Es]. eapply reach_top; eauto. }
      pose proof (Hrec _ s st st1 E1 I (gedge_key _ _ Es) Pre) as P.
      pose proof (p_inv _ _ _ _ P) as I1.
      destruct (p_dom _ _ _ _ P) as [e1 De1].
      destruct (p_stack _ _ _ _ P) as [ns [Ss1 [Nns Xs]]].
      assert (Sn : In n (stack st)) by apply (fr_n_stack _ _ _ _ Fs).
      assert (Ea : a = v).
      { pose proof (p_low _ _ _ _ P n Sn) as H. unfold lw in H, Ln. rewrite La, Ln in H. inversion H. reflexivity. }
      subst a.
      assert (Fs1 : stack st1 = S0 ++ n :: (above ++ ns)).
      { rewrite Ss1, Fs, <- app_assoc. reflexivity. }
      assert (Fd1 : dom st1 = D0 ++ n :: (nd ++ e1)).
      { rewrite De1, Fd, <- app_assoc. reflexivity. }
      assert (Sn1 : In n (stack st1)) by apply (fr_n_stack _ _ _ _ Fs1).
      assert (Fa1 : incl (above ++ ns) (nd ++ e1)).
      { intros y Hy. apply in_app_iff in Hy as [Hy | Hy]; apply in_or_app; [left; apply Fa, Hy|right].
        assert (Dy : In y (dom st1)).
        { eapply inv_stack_dom; [exact I1|]. rewrite Ss1. apply in_or_app. auto. }
        rewrite De1 in Dy. apply in_app_iff in Dy as [Dy | Dy]; [destruct (Nns y Hy Dy) | exact Dy]. }
      assert (OldIdx : forall t, In t (dom st) -> idx (dom st1) t = idx (dom st) t).
      { intros t Ht. rewrite De1. apply idx_app_l, Ht. }
      destruct (inv_low_le _ _ n v I1 Sn1 La) as [Vle Vlt].
      assert (Wit : exists z, In z (stack st1) /\ Nat.min v b = idx (dom st1) z /\
                              idx (dom st1) z <= idx (dom st1) n /\ gstar g n z).
      { destruct (Nat.le_gt_cases v b) as [Hle | Hgt].
        - rewrite Nat.min_l by exact Hle. destruct (i_lowS _ _ I1 n Sn1) as [z [Hz [Lz [Le Rz]]]].
          exists z. unfold lw in Lz. rewrite La in Lz. inversion Lz. auto.
        - rewrite Nat.min_r by lia.
          destruct (inv_dom_split _ _ s I1 (p_in _ _ _ _ P)) as [Hs | Hs].
          + destruct (i_lowS _ _ I1 s Hs) as [z [Hz [Lz [Le Rz]]]]. unfold lw in Lz. rewrite Lb in Lz. inversion Lz.
            exists z. split; [exact Hz|]. split; [reflexivity|]. split; [lia|].
            eapply gstar_step_l; eauto.
          + pose proof (i_lowC _ _ I1 s Hs) as H. unfold lw in H. rewrite Lb in H. inversion H. lia. }
      pose proof (Inv_low st1 _ n (Nat.min v b) I1 Sn1 Wit) as I2. fold st2 in I2.
      assert (Dom2 : dom st2 = dom st1).
      { unfold dom, st2. cbn [low]. apply low_set_dom_in. eapply low_get_Some_In; eauto. }
      assert (L2 : L gr0 S0 D0 n st2 (Nat.min v b)).
      { split; [exact I2|]. exists (above ++ ns), (nd ++ e1). rewrite Dom2.
        split; [exact Fs1|]. split; [exact Fd1|]. split; [exact Fa1|].
        split; [unfold lw, st2; cbn [low]; apply low_get_set_same|].
        intros y t Hy Ht E.
        assert (St : In t (stack st)) by (apply (fr_S0_stack _ _ _ _ Fs), Ht).
        apply in_app_iff in Hy as [Hy | Hy].
        - rewrite OldIdx by (eapply inv_stack_dom; eauto). pose proof (X y t Hy Ht E). lia.
        - pose proof (Xs b y t Lb Hy St E). lia. }
      destruct (IH st2 (Nat.min v b) st' (fun s' H => Hss s' (or_intror H)) L2 Q)
        as [v' [HL' [Hle [Hexp [Hlow [e2 De2]]]]]].
      exists v'. split; [exact HL'|]. split; [lia|].
      split; [|split].
      + intros t [<- | Ht]; [|apply Hexp, Ht].
        assert (Ds : In s (dom st2)) by (rewrite Dom2; apply (p_in _ _ _ _ P)).
        split; [rewrite De2; apply in_or_app; left; exact Ds|].
        intros Hs0. rewrite De2, idx_app_l, Dom2 by exact Ds.
        assert (Ss : In s (stack st1)) by (apply (fr_S0_stack _ _ _ _ Fs1), Hs0).
        destruct (inv_low_le _ _ s b I1 Ss Lb) as [Ble _]. lia.
      + intros x Hx. rewrite Hlow by exact Hx.
        assert (Ne : x <> n).
        { intros ->. pose proof (inv_nodupS _ _ I) as ND. rewrite Fs in ND. apply NoDup_remove_2 in ND.
          apply ND. apply in_or_app. auto. }
        unfold lw, st2. cbn [low]. rewrite low_get_set_other by exact Ne.
        apply (p_low _ _ _ _ P). apply (fr_S0_stack _ _ _ _ Fs), Hx.
      + exists (e1 ++ e2). rewrite De2, Dom2, De1, <- app_assoc. reflexivity.
  Qed.

  (* ---------------------------------------------------------- visit *)
  Lemma Post_refl gr s st : Inv st gr -> In s (dom st) -> Post gr s st st.
  Proof.
    intros I H. constructor; auto.
    - exists []. symmetry. apply app_nil_r.
    - exists []. split; [symmetry; apply app_nil_r|]. split; intros; contradiction.
  Qed.

  Lemma visit_ok fuel : rec_ok (visit fuel g).
  Proof.
    induction fuel as [|f IH]; intros gr0 n st st'; [discriminate|].
    cbn [visit]. destruct (low_get (low st) n) as [v0|] eqn:Ln.
    - intros Q I _ _. inversion Q. subst st'. apply Post_refl; [exact I | eapply low_get_Some_In; eauto].
    - destruct (succs_of g n) as [ss|] eqn:Es; [|discriminate].
      set (num := length (low st)).
      set (st1 := mkT (low_set (low st) n num) (stack st ++ [n]) (comps st)).
      destruct (visit_succs (visit f g) n ss st1) as [st2|] eqn:E2; [|discriminate].
      destruct (low_get (low st2) n) as [l|] eqn:L2; [|discriminate].
      intros Q I K Pre.
      apply low_get_None in Ln as Nn. fold (dom st) in Nn.
      set (S0 := stack st) in *. set (D0 := dom st) in *.
      assert (Hnum : num = length D0) by (unfold num, D0, dom; rewrite map_length; reflexivity).
      assert (F0 : incl S0 D0) by (intros x Hx; eapply inv_stack_dom; eauto).
      assert (Fg : incl gr0 S0) by apply (i_gr _ _ I).
      pose proof (Inv_push st gr0 n I K Nn Pre) as I1. fold num in I1. fold st1 in I1.
      assert (L1 : L gr0 S0 D0 n st1 num).
      { split; [exact I1|]. exists [], []. split; [reflexivity|].
        split; [unfold dom, st1; cbn [low]; apply low_set_dom_new, Nn|]. split; [apply incl_refl|].
        split; [unfold lw, st1; cbn [low]; apply low_get_set_same|]. intros y t []. }
      assert (Hss : forall s, In s ss -> gedge g n s).
      { intros s Hs. exists ss. split; [apply succs_of_In, Es | exact Hs]. }
      destruct (loop (visit f g) gr0 S0 D0 n IH F0 Fg ss st1 num st2 Hss L1 E2)
        as [v' [[I2 [above [nd [Fs [Fd [Fa [Ln2 X]]]]]]] [Hle [Hexp [Hlow [e2 De2]]]]]].
      pose proof (i_nodupD _ _ I2) as Fn.
      assert (El : l = v') by (unfold lw in Ln2; rewrite L2 in Ln2; inversion Ln2; reflexivity). subst l.
      assert (Hvis : forall t, gedge g n t -> In t (dom st2)).
      { intros t E. apply Hexp. eapply gedge_succs; eauto. }
      assert (Low0 : forall x, In x S0 -> lw st2 x = lw st x).
      { intros x Hx. rewrite Hlow by exact Hx. unfold lw, st1. cbn [low]. apply low_get_set_other.
        intros ->. apply Nn, F0, Hx. }
      assert (Xall : forall y t, In y (n :: above) -> In t S0 -> gedge g y t -> v' <= idx (dom st2) t).
      { intros y t [<- | Hy] Ht E; [|eapply X; eauto]. apply Hexp; [eapply gedge_succs; eauto | exact Ht]. }
      assert (Sk : skipn (length S0) (stack st2) = n :: above).
      { rewrite Fs, skipn_app, skipn_all, Nat.sub_diag. reflexivity. }
      assert (Fi : firstn (length S0) (stack st2) = S0).
      { rewrite Fs, firstn_app, firstn_all, Nat.sub_diag. simpl. apply app_nil_r. }
      destruct (Nat.eqb num v') eqn:Eq.
      + (* n is a root *)
        apply Nat.eqb_eq in Eq. rewrite Sk, Fi in Q. injection Q as Q. subst st'.
        assert (Hno : forall y t, In y (n :: above) -> In t S0 -> ~ gedge g y t).
        { intros y t Hy Ht E. pose proof (Xall y t Hy Ht E) as H1.
          pose proof (fr_idx_old _ _ _ _ Fd t (F0 t Ht)) as [_ H2]. lia. }
        pose proof (Inv_emit st2 gr0 n S0 D0 above nd I2 Fs Fd Fa F0 Fg Hvis Hno) as I3.
        set (st3 := mkT (fold_left _ _ _) _ _) in *.
        assert (Dom3 : dom st3 = dom st2).
        { unfold dom, st3. cbn [low]. apply fold_low_dom. intros x Hx. eapply inv_stack_dom; [exact I2|].
          rewrite Fs. apply in_or_app. right. exact Hx. }
        constructor.
        * exact I3.
        * exists (n :: nd). rewrite Dom3. exact Fd.
        * exists []. split; [symmetry; apply app_nil_r|]. split; intros; contradiction.
        * rewrite Dom3. apply (fr_n_dom _ _ _ _ Fd).
        * intros x Hx. rewrite <- (Low0 x Hx). unfold lw, st3. cbn [low]. apply fold_low_get_out.
          pose proof (inv_nodupS _ _ I2) as ND. rewrite Fs in ND. apply NoDup_app_inv in ND as [_ [_ ND]].
          apply ND, Hx.
      + (* n is not a root: it stays on the stack *)
        apply Nat.eqb_neq in Eq. inversion Q. subst st'. clear Q.
        assert (Hlt : forall v, lw st2 n = Some v -> v < length D0).
        { intros v Hv. rewrite Ln2 in Hv. inversion Hv. subst v. lia. }
        constructor.
        * eapply Inv_ungray; eauto.
        * exists (n :: nd). exact Fd.
        * exists (n :: above). split; [exact Fs|]. split.
          -- intros y [<- | Hy]; [exact Nn|]. apply (fr_nd_notin _ _ _ _ Fd Fn y (Fa y Hy)).
          -- intros v y t Hv Hy Ht E. rewrite Ln2 in Hv. inversion Hv. subst v. eapply Xall; eauto.
        * apply (fr_n_dom _ _ _ _ Fd).
        * exact Low0.
  Qed.

  (* ---------------------------------------------------------- the outer loop *)
  Lemma Inv_init : Inv (mkT [] [] []) [].
  Proof.
    constructor; simpl; try (intros; contradiction); try constructor.
    - intros x [].
    - intros x [].
  Qed.

  Lemma visit_all_ok fuel : forall ns st st',
    visit_all fuel g ns st = Ok st' -> Inv st [] -> incl ns (gkeys g) ->
    Inv st' [] /\ (forall x, In x ns -> In x (dom st')) /\ incl (dom st) (dom st').
  Proof.
    induction ns as [|n r IH]; intros st st'; cbn [visit_all].
    - intros Q I _. inversion Q. subst. split; [exact I|]. split; [intros x []|apply incl_refl].
    - destruct (visit fuel g n st) as [st1|] eqn:E; [|discriminate]. intros Q I K.
      assert (Pre : forall x, In x (stack st) -> gstar g x n).
      { intros x Hx. rewrite (inv_empty_stack _ I) in Hx. destruct Hx. }
      pose proof (visit_ok fuel [] n st st1 E I (K n (or_introl eq_refl)) Pre) as P.
      destruct (IH st1 st' Q (p_inv _ _ _ _ P) (fun x H => K x (or_intror H))) as [I' [H1 H2]].
      split; [exact I'|]. destruct (p_dom _ _ _ _ P) as [e De]. split.
      + intros x [<- | Hx]; [apply H2, (p_in _ _ _ _ P) | apply H1, Hx].
      + intros x Hx. apply H2. rewrite De. apply in_or_app. auto.
  Qed.

  (* ---------------------------------------------------------- no exception, enough fuel *)
  Lemma visit_succs_mono rec n :
    (forall s a b, rec s a = Ok b -> incl (dom a) (dom b)) ->
    forall ss sta stb, visit_succs rec n ss sta = Ok stb -> incl (dom sta) (dom stb).
  Proof.
    intros Hrec. induction ss as [|s ss IHs]; intros sta stb; simpl.
    - intros Q. inversion Q. subst. apply incl_refl.
    - destruct (rec s sta) as [stc|] eqn:Ec; [|discriminate].
      destruct (low_get (low stc) n) as [a|] eqn:La; [|discriminate].
      destruct (low_get (low stc) s) as [b|]; [|discriminate].
      intros Q. apply IHs in Q. intros x Hx. apply Q. unfold dom. cbn [low].
      rewrite low_set_dom_in by (eapply low_get_Some_In; eauto).
      apply (Hrec s sta stc Ec), Hx.
  Qed.

  Lemma visit_in_dom f n st st' : visit f g n st = Ok st' -> In n (dom st').
  Proof.
    destruct f as [|f]; [discriminate|]. cbn [visit].
    destruct (low_get (low st) n) as [v|] eqn:Ln.
    - intros Q. inversion Q. subst. eapply low_get_Some_In; eauto.
    - destruct (succs_of g n) as [ss|]; [|discriminate].
      set (st0 := mkT _ _ _).
      destruct (visit_succs (visit f g) n ss st0) as [std|] eqn:Ed; [|discriminate].
      apply (visit_succs_mono _ n (visit_dom_mono g f)) in Ed.
      assert (D0 : In n (dom st0)).
      { unfold st0, dom. cbn [low]. apply low_get_None in Ln. rewrite low_set_dom_new by exact Ln.
        apply in_or_app. right. left. reflexivity. }
      apply Ed in D0.
      destruct (low_get (low std) n) as [l|]; [|discriminate].
      destruct (Nat.eqb _ _); intros Q; inversion Q; subst; [|exact D0].
      unfold dom. cbn [low]. apply fold_low_set_dom. exact D0.
  Qed.

  Lemma visit_total f : forall n st, unnumbered g st < f -> In n (gkeys g) -> exists st', visit f g n st = Ok st'.
  Proof.
    induction f as [|f IH]; intros n st Hlt K; [lia|].
    cbn [visit]. destruct (low_get (low st) n) as [v|] eqn:Ln; [eauto|].
    destruct (succs_of_key g n K) as [ss Es]. rewrite Es.
    set (st1 := mkT _ _ _).
    apply low_get_None in Ln.
    assert (D1 : incl (n :: dom st) (dom st1)).
    { unfold st1, dom. cbn [low]. rewrite low_set_dom_new by exact Ln. intros x [<- | Hx]; apply in_or_app; simpl; auto. }
    assert (H1 : unnumbered g st1 < f).
    { pose proof (unnumbered_add g st st1 n K Ln D1). lia. }
    assert (Kss : forall s, In s ss -> In s (gkeys g)).
    { intros s Hs. apply succs_of_In in Es. eapply Hclosed; eauto. }
    assert (G : forall ss sta, (forall s, In s ss -> In s (gkeys g)) -> In n (dom sta) -> unnumbered g sta < f ->
                exists stb, visit_succs (visit f g) n ss sta = Ok stb /\ incl (dom sta) (dom stb)).
    { clear - IH. induction ss as [|s ss IHs]; intros sta Ks Dn Ha; simpl.
      - exists sta. split; [reflexivity | apply incl_refl].
      - destruct (IH s sta Ha (Ks s (or_introl eq_refl))) as [stc Ec]. rewrite Ec.
        pose proof (visit_dom_mono g f s sta stc Ec) as Mono.
        destruct (dom_lw stc n (Mono n Dn)) as [a La]. unfold lw in La. rewrite La.
        destruct (dom_lw stc s (visit_in_dom f s sta stc Ec)) as [b Lb]. unfold lw in Lb. rewrite Lb.
        set (std := mkT _ _ _).
        assert (Dom : dom std = dom stc).
        { unfold dom, std. cbn [low]. apply low_set_dom_in. eapply low_get_Some_In; eauto. }
        destruct (IHs std (fun s' H => Ks s' (or_intror H))) as [stb [Eb Mb]].
        + rewrite Dom. apply Mono, Dn.
        + pose proof (unnumbered_mono g sta stc Mono). unfold unnumbered in *. rewrite Dom. lia.
        + exists stb. split; [exact Eb|]. intros x Hx. apply Mb. rewrite Dom. apply Mono, Hx. }
    destruct (G ss st1 Kss (D1 n (or_introl eq_refl)) H1) as [st2 [E2 M2]]. rewrite E2.
    destruct (dom_lw st2 n (M2 n (D1 n (or_introl eq_refl)))) as [l Ll]. unfold lw in Ll. rewrite Ll.
    destruct (Nat.eqb _ _); eauto.
  Qed.

  Lemma visit_all_total fuel : length g < fuel -> forall ns st, incl ns (gkeys g) -> exists st', visit_all fuel g ns st = Ok st'.
  Proof.
    intros Hf. induction ns as [|n r IH]; intros st K; cbn [visit_all]; [eauto|].
    destruct (visit_total fuel n st) as [st1 E].
    - unfold unnumbered, gkeys. pose proof (filter_len_le (fun k => negb (mem_node k (dom st))) (map fst g)) as H.
      rewrite map_length in H. lia.
    - apply K. left. reflexivity.
    - rewrite E. apply IH. intros x Hx. apply K. right. exact Hx.
  Qed.
End Tarjan.

(* ------------------------------------------------------------ the result *)

(* the component list is a partition of the nodes; every component is strongly connected; an edge
   leaving a component goes to a component listed earlier (reverse topological order) *)
Record scc_spec (g : graph) (cs : list (list node)) : Prop := {
  ss_nodup : NoDup (concat cs);
  ss_cover : forall n, In n (gkeys g) <-> In n (concat cs);
  ss_sc : forall c, In c cs -> c <> [] /\ forall a b, In a c -> In b c -> gstar g a b;
  ss_topo : forall x y, In x (concat cs) -> gedge g x y -> In y (concat cs) /\ cidx cs y <= cidx cs x
}.

Theorem scc_correct g : NoDup (gkeys g) -> closed_graph g -> exists cs, scc g = Ok cs /\ scc_spec g cs.
Proof.
  intros Hnd Hc. unfold scc.
  destruct (visit_all_total g Hc (S (length g)) (Nat.lt_succ_diag_r _) (gkeys g) (mkT [] [] []) (incl_refl _)) as [st E].
  rewrite E. exists (comps st). split; [reflexivity|].
  destruct (visit_all_ok g Hnd Hc _ _ _ _ E (Inv_init g) (incl_refl _)) as [I [Hall _]].
  pose proof (inv_empty_stack g st I) as Es.
  pose proof (i_perm g _ _ I) as Perm. rewrite Es in Perm. simpl in Perm.
  constructor.
  - eapply inv_nodupC; eauto.
  - intros n. split.
    + intros H. apply (Permutation_in n Perm), Hall, H.
    + intros H. apply (i_keys g _ _ I). apply (Permutation_in n (Permutation_sym Perm)), H.
  - apply (i_sc g _ _ I).
  - apply (i_topo g _ _ I).
Qed.

(* the position of the component does not increase along a path *)
Lemma scc_spec_star g cs : scc_spec g cs -> forall a b, gstar g a b -> In a (concat cs) ->
  In b (concat cs) /\ cidx cs b <= cidx cs a.
Proof.
  intros S a b H. induction H as [a | a b c H IH E]; intros Ha; [split; [exact Ha | lia]|].
  destruct (IH Ha) as [Hb Le]. destruct (ss_topo _ _ S b c Hb E) as [Hc Le']. split; [exact Hc | lia].
Qed.

(* two nodes are in one component exactly when each reaches the other: the components are the
   strongly connected components, in particular they are maximal *)
Theorem scc_spec_components g cs : scc_spec g cs ->
  forall a b, In a (gkeys g) -> In b (gkeys g) -> (same_comp cs a b <-> gstar g a b /\ gstar g b a).
Proof.
  intros S a b Ka Kb. split.
  - intros [c [Ic [Ia Ib]]]. destruct (ss_sc _ _ S c Ic) as [_ H]. auto.
  - intros [H1 H2]. apply (ss_cover _ _ S) in Ka, Kb.
    destruct (scc_spec_star g cs S a b H1 Ka) as [_ L1]. destruct (scc_spec_star g cs S b a H2 Kb) as [_ L2].
    assert (Eq : cidx cs a = cidx cs b) by lia.
    exists (nth (cidx cs a) cs []). split; [apply nth_In, cidx_lt, Ka|].
    split; [apply cidx_nth, Ka | rewrite Eq; apply cidx_nth, Kb].
Qed.

Corollary scc_spec_components_path g cs : scc_spec g cs ->
  forall a b, In a (gkeys g) -> In b (gkeys g) ->
    (same_comp cs a b <-> a = b \/ (gpath g a b /\ gpath g b a)).
Proof.
  intros S a b Ka Kb. rewrite (scc_spec_components g cs S a b Ka Kb). split.
  - intros [H1 H2]. destruct (node_eq_dec a b) as [-> | Ne]; [auto|]. right.
    destruct (gstar_path g a b H1) as [? | P1]; [contradiction|].
    destruct (gstar_path g b a H2) as [? | P2]; [congruence|]. auto.
  - intros [-> | [P1 P2]]; [split; apply gs_refl | split; apply gpath_star; assumption].
Qed.

