(* Helper lemmas for the general correctness proof of Tarjan's algorithm (Proofs/GraphTarjanFull.v):
   positions in the list of numbered nodes, positions in the component list, the loop that marks a
   finished component, edges of a graph whose keys are distinct. *)
From Coq Require Import Lia Permutation.
From Eupsv Require Import Base.Base Base.BaseLemmas Model.Graph Proofs.GraphLib Proofs.GraphLayers
     Proofs.GraphTarjan Proofs.GraphPartition.

(* ------------------------------------------------------------ lists *)
Lemma NoDup_app_inv {A} (a b : list A) :
  NoDup (a ++ b) -> NoDup a /\ NoDup b /\ (forall x, In x a -> ~ In x b).
Proof.
  induction a as [|y a IH]; simpl; intros H.
  - split; [constructor|]. split; [exact H | tauto].
  - inversion H as [|? ? N D]. subst. destruct (IH D) as [H1 [H2 H3]]. split.
    + constructor; [|exact H1]. intros I. apply N. apply in_or_app. auto.
    + split; [exact H2|]. intros x [<- | I]; [|auto]. intros J. apply N. apply in_or_app. auto.
Qed.

Lemma NoDup_app_intro {A} (a b : list A) :
  NoDup a -> NoDup b -> (forall x, In x a -> ~ In x b) -> NoDup (a ++ b).
Proof.
  induction a as [|y a IH]; simpl; intros H1 H2 H3; [exact H2|].
  inversion H1 as [|? ? N D]. subst. constructor.
  - intros I. apply in_app_iff in I as [I | I]; [contradiction|]. apply (H3 y); auto.
  - apply IH; auto.
Qed.

(* ------------------------------------------------------------ position of a node in a list *)
Fixpoint idx (D : list node) (x : node) : nat :=
  match D with
  | [] => 0
  | y :: r => if node_eqb x y then 0 else S (idx r x)
  end.

Lemma idx_lt D x : In x D -> idx D x < length D.
Proof.
  induction D as [|y D IH]; simpl; [tauto|]. intros H.
  destruct (node_eqb x y) eqn:E; [lia|]. apply node_eqb_neq in E.
  destruct H as [H | H]; [congruence|]. specialize (IH H). lia.
Qed.

Lemma idx_notin D x : ~ In x D -> idx D x = length D.
Proof.
  induction D as [|y D IH]; simpl; [reflexivity|]. intros H.
  destruct (node_eqb x y) eqn:E; [apply node_eqb_eq in E; subst; tauto|]. rewrite IH; tauto.
Qed.

Lemma idx_app_l A B x : In x A -> idx (A ++ B) x = idx A x.
Proof.
  induction A as [|y A IH]; simpl; [tauto|]. intros H.
  destruct (node_eqb x y) eqn:E; [reflexivity|]. apply node_eqb_neq in E.
  destruct H as [H | H]; [congruence|]. rewrite IH; auto.
Qed.

Lemma idx_app_r A B x : ~ In x A -> idx (A ++ B) x = length A + idx B x.
Proof.
  induction A as [|y A IH]; simpl; [reflexivity|]. intros H.
  destruct (node_eqb x y) eqn:E; [apply node_eqb_eq in E; subst; tauto|]. rewrite IH; tauto.
Qed.

Lemma idx_lt_In A B x : idx (A ++ B) x < length A -> In x A.
Proof.
  intros H. destruct (in_dec node_eq_dec x A) as [I | I]; [exact I|].
  rewrite idx_app_r in H by exact I. lia.
Qed.

Lemma idx_inj D x y : In x D -> idx D x = idx D y -> x = y.
Proof.
  induction D as [|z D IH]; simpl; [tauto|]. intros H.
  destruct (node_eqb x z) eqn:E1; destruct (node_eqb y z) eqn:E2; try discriminate.
  - apply node_eqb_eq in E1, E2. congruence.
  - intros Q. apply node_eqb_neq in E1. destruct H as [H | H]; [congruence|]. apply IH; [exact H | lia].
Qed.

Lemma idx_snoc_new D n : ~ In n D -> idx (D ++ [n]) n = length D.
Proof. intros H. rewrite idx_app_r by exact H. simpl. rewrite node_eqb_refl. lia. Qed.

(* ------------------------------------------------------------ position of the component of a node *)
Fixpoint cidx (cs : list (list node)) (x : node) : nat :=
  match cs with
  | [] => 0
  | c :: r => if mem_node x c then 0 else S (cidx r x)
  end.

Lemma cidx_lt cs x : In x (concat cs) -> cidx cs x < length cs.
Proof.
  induction cs as [|c r IH]; simpl; [tauto|]. intros H.
  destruct (mem_node x c) eqn:M; [lia|]. apply mem_node_not_In in M.
  apply in_app_iff in H as [H | H]; [contradiction|]. specialize (IH H). lia.
Qed.

Lemma cidx_app_l A B x : In x (concat A) -> cidx (A ++ B) x = cidx A x.
Proof.
  induction A as [|c A IH]; simpl; [tauto|]. intros H.
  destruct (mem_node x c) eqn:M; [reflexivity|]. apply mem_node_not_In in M.
  apply in_app_iff in H as [H | H]; [contradiction|]. rewrite IH; auto.
Qed.

Lemma cidx_app_r A B x : ~ In x (concat A) -> cidx (A ++ B) x = length A + cidx B x.
Proof.
  induction A as [|c A IH]; simpl; [reflexivity|]. intros H.
  destruct (mem_node x c) eqn:M.
  - apply mem_node_In in M. exfalso. apply H. apply in_or_app. auto.
  - rewrite IH; [reflexivity|]. intros I. apply H. apply in_or_app. auto.
Qed.

Lemma cidx_nth cs x : In x (concat cs) -> In x (nth (cidx cs x) cs []).
Proof.
  induction cs as [|c r IH]; simpl; [tauto|]. intros H.
  destruct (mem_node x c) eqn:M; [apply mem_node_In, M|]. apply mem_node_not_In in M.
  apply in_app_iff in H as [H | H]; [contradiction|]. apply IH, H.
Qed.

Lemma nth_In_concat (cs : list (list node)) i x : In x (nth i cs []) -> In x (concat cs).
Proof.
  revert i. induction cs as [|c r IH]; intros [|i]; simpl; try tauto.
  - intros H. apply in_or_app. auto.
  - intros H. apply in_or_app. right. eapply IH; eauto.
Qed.

(* in a list of pairwise disjoint components a node has one position *)
Lemma cidx_unique cs c x : NoDup (concat cs) -> In c cs -> In x c -> nth (cidx cs x) cs [] = c.
Proof.
  induction cs as [|c0 r IH]; simpl; [tauto|]. intros ND Ic Ix.
  destruct (mem_node x c0) eqn:M.
  - destruct Ic as [-> | Ic]; [reflexivity|]. apply mem_node_In in M. exfalso.
    apply NoDup_app_inv in ND as [_ [_ ND]]. apply (ND x M). apply in_concat. exists c. auto.
  - apply mem_node_not_In in M. destruct Ic as [-> | Ic]; [contradiction|].
    apply IH; auto. apply NoDup_app_inv in ND. tauto.
Qed.

(* ------------------------------------------------------------ marking a finished component *)
Lemma fold_low_get_out comp v : forall lw x,
  ~ In x comp -> low_get (fold_left (fun lw it => low_set lw it v) comp lw) x = low_get lw x.
Proof.
  induction comp as [|c comp IH]; intros lw x H; simpl; [reflexivity|].
  rewrite IH by (intros J; apply H; right; exact J).
  apply low_get_set_other. intros ->. apply H. left. reflexivity.
Qed.

Lemma fold_low_get_in comp v : forall lw x,
  In x comp -> low_get (fold_left (fun lw it => low_set lw it v) comp lw) x = Some v.
Proof.
  induction comp as [|c comp IH]; intros lw x; simpl; [tauto|]. intros H.
  destruct (in_dec node_eq_dec x comp) as [I | I]; [apply IH, I|].
  destruct H as [-> | H]; [|contradiction].
  rewrite fold_low_get_out by exact I. apply low_get_set_same.
Qed.

Lemma fold_low_dom comp v : forall lw,
  incl comp (map fst lw) -> map fst (fold_left (fun lw it => low_set lw it v) comp lw) = map fst lw.
Proof.
  induction comp as [|c comp IH]; intros lw H; simpl; [reflexivity|].
  assert (Hc : In c (map fst lw)) by (apply H; left; reflexivity).
  rewrite IH.
  - apply low_set_dom_in, Hc.
  - rewrite low_set_dom_in by exact Hc. intros y Hy. apply H. right. exact Hy.
Qed.

(* ------------------------------------------------------------ graphs with distinct keys *)
Lemma In_succs_of g n ss : NoDup (gkeys g) -> In (n, ss) g -> succs_of g n = Some ss.
Proof.
  induction g as [|[k l] g IH]; simpl; [tauto|]. intros ND H. inversion ND as [|? ? Nk ND']. subst.
  destruct (node_eqb n k) eqn:E.
  - apply node_eqb_eq in E. subst k. destruct H as [H | H]; [congruence|].
    exfalso. apply Nk. apply in_map_iff. exists (n, ss). auto.
  - apply node_eqb_neq in E. destruct H as [H | H]; [congruence|]. apply IH; auto.
Qed.

Lemma succs_of_key g n : In n (gkeys g) -> exists ss, succs_of g n = Some ss.
Proof.
  induction g as [|[k l] g IH]; simpl; [tauto|]. intros H.
  destruct (node_eqb n k) eqn:E; [eauto|]. apply node_eqb_neq in E.
  destruct H as [H | H]; [congruence|]. apply IH, H.
Qed.

Lemma gstar_edge g a b : gedge g a b -> gstar g a b.
Proof. intros E. eapply gs_step; [apply gs_refl | exact E]. Qed.

Lemma gstar_step_l g a b c : gedge g a b -> gstar g b c -> gstar g a c.
Proof. intros E H. eapply gstar_trans; [apply gstar_edge, E | exact H]. Qed.
