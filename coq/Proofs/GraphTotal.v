(* Totality of the topological pipeline (utils.topologicalSort, Eups.getDependentProducts(topological),
   Eups.uses) and the exact outcome of the cycle check, from the general correctness of Tarjan's
   algorithm (Proofs/GraphTarjanFull.v):

   - the component graph built from a correct component list is acyclic (components are listed in
     reverse topological order), so the layering loop always finds a component without successors:
     [comp_layers false] answers on every graph, cyclic or not;
   - hence [dependent_products fuel w top true] answers on every world;
   - [check_cycles] raises its own RuntimeError ([Err Refused]) exactly on the graphs with a cycle. *)
From Coq Require Import Lia Permutation.
From Eupsv Require Import Base.Base Base.BaseLemmas Model.Graph Proofs.GraphLib Proofs.GraphWalk
     Proofs.GraphListing Proofs.GraphLayers Proofs.GraphTarjan Proofs.GraphPartition Proofs.GraphOrder
     Proofs.GraphTarjanLib Proofs.GraphTarjanFull.

(* ------------------------------------------------------------ the component of a node *)
Lemma comp_of_Some cs n : In n (concat cs) -> exists c, comp_of cs n = Some c.
Proof.
  induction cs as [|c0 r IH]; simpl; [tauto|]. intros H.
  destruct (comp_of r n) as [d|] eqn:E; [eauto|].
  apply in_app_iff in H as [H | H].
  - apply mem_node_In in H. rewrite H. eauto.
  - destruct (IH H) as [c Q]. discriminate.
Qed.

Lemma cidx_same cs c x y : NoDup (concat cs) -> In c cs -> In x c -> In y c -> cidx cs x = cidx cs y.
Proof.
  induction cs as [|c0 r IH]; simpl; [tauto|]. intros ND [-> | Ic] Hx Hy.
  - apply mem_node_In in Hx, Hy. rewrite Hx, Hy. reflexivity.
  - apply NoDup_app_inv in ND as [_ [ND2 Disj]].
    assert (Nx : mem_node x c0 = false).
    { apply mem_node_not_In. intros J. apply (Disj x J). apply in_concat. exists c. auto. }
    assert (Ny : mem_node y c0 = false).
    { apply mem_node_not_In. intros J. apply (Disj y J). apply in_concat. exists c. auto. }
    rewrite Nx, Ny. f_equal. apply IH; auto.
Qed.

Lemma comp_of_nth cs n c : NoDup (concat cs) -> comp_of cs n = Some c -> nth (cidx cs n) cs [] = c.
Proof. intros ND H. apply comp_of_In in H as [H1 H2]. apply cidx_unique; auto. Qed.

(* ------------------------------------------------------------ the component graph: no exception, and
   every edge it holds comes from an edge of the graph between two different components *)
Lemma cg_add_edge_inv c d m k e : has_edge (cg_add c d m) k e -> has_edge m k e \/ (k = c /\ e = d).
Proof.
  induction m as [|[k0 l] m IH]; simpl.
  - intros [deps [[Q | []] I]]. inversion Q. subst. destruct I as [<- | []]. auto.
  - destruct (comp_eqb c k0) eqn:E.
    + apply comp_eqb_eq in E. subst k0. intros [deps [[Q | I1] I2]].
      * inversion Q. subst k deps. clear Q. destruct (mem_comp d l) eqn:M.
        -- left. exists l. split; [left; reflexivity | exact I2].
        -- apply in_app_iff in I2 as [I2 | [<- | []]]; [|auto]. left. exists l. split; [left; reflexivity | exact I2].
      * left. exists deps. split; [right; exact I1 | exact I2].
    + intros [deps [[Q | I1] I2]].
      * inversion Q. subst. left. exists deps. split; [left; reflexivity | exact I2].
      * destruct IH as [[deps' [J1 J2]] | H]; [exists deps; auto | | auto].
        left. exists deps'. split; [right; exact J1 | exact J2].
Qed.

Lemma cg_edges_total cs n cn : comp_of cs n = Some cn -> forall ss m,
  (forall s, In s ss -> exists c, comp_of cs s = Some c) ->
  exists m', cg_edges cs n ss m = Ok m' /\
    forall k e, has_edge m' k e ->
      has_edge m k e \/ (k = cn /\ k <> e /\ exists s, In s ss /\ comp_of cs s = Some e).
Proof.
  intros En. induction ss as [|s r IH]; intros m Hs; simpl.
  - exists m. split; [reflexivity | auto].
  - rewrite En. destruct (Hs s (or_introl eq_refl)) as [c_s Es]. rewrite Es.
    destruct (IH (if comp_eqb cn c_s then m else cg_add cn c_s m) (fun s' H => Hs s' (or_intror H)))
      as [m' [Em' H]].
    exists m'. split; [exact Em'|]. intros k e Hke. destruct (H k e Hke) as [H0 | [H1 [H2 [s' [H3 H4]]]]].
    + destruct (comp_eqb cn c_s) eqn:E; [auto|]. apply comp_eqb_neq in E.
      apply cg_add_edge_inv in H0 as [H0 | [-> ->]]; [auto|]. right. split; [reflexivity|]. split; [exact E|].
      exists s. auto.
    + right. split; [exact H1|]. split; [exact H2|]. exists s'. auto.
Qed.

Lemma cg_of_total cs : forall (g : graph) m,
  (forall n ss, In (n, ss) g -> (exists c, comp_of cs n = Some c) /\ forall s, In s ss -> exists c, comp_of cs s = Some c) ->
  exists m', cg_of cs g m = Ok m' /\
    forall k e, has_edge m' k e ->
      has_edge m k e \/
      exists n ss s, In (n, ss) g /\ In s ss /\ comp_of cs n = Some k /\ comp_of cs s = Some e /\ k <> e.
Proof.
  induction g as [|[n ss] g IH]; intros m Hg; simpl.
  - exists m. split; [reflexivity | auto].
  - destruct (Hg n ss (or_introl eq_refl)) as [[cn En] Hs]. rewrite En.
    destruct (cg_edges_total cs n cn En ss m Hs) as [m1 [E1 H1]]. rewrite E1.
    destruct (IH m1 (fun n' ss' H => Hg n' ss' (or_intror H))) as [m' [E' H']].
    exists m'. split; [exact E'|]. intros k e Hke.
    destruct (H' k e Hke) as [H0 | [n' [ss' [s [A [B C]]]]]].
    + destruct (H1 k e H0) as [H00 | [A [B [s [C D]]]]]; [auto|]. subst k. right. exists n, ss, s. auto.
    + right. exists n', ss', s. auto.
Qed.

Lemma cg_init_no_edge cs k e : ~ has_edge (cg_init cs) k e.
Proof.
  induction cs as [|c r IH]; simpl; [intros [deps [[] _]]|].
  destruct (mem_comp c (map fst (cg_init r))); [exact IH|].
  intros [deps [[Q | I1] I2]]; [inversion Q; subst; destruct I2|]. apply IH. exists deps. auto.
Qed.

(* ------------------------------------------------------------ the layering loop ends when the component
   graph is acyclic: [rank] decreases along its edges *)
Lemma min_rank_entry (rank : comp -> nat) (m : cgraph) :
  m <> [] -> exists c deps, In (c, deps) m /\ forall c' deps', In (c', deps') m -> rank c <= rank c'.
Proof.
  induction m as [|[c deps] m IH]; [congruence|]. intros _.
  destruct m as [|x m'].
  - exists c, deps. split; [left; reflexivity|]. intros c' deps' [Q | []]. inversion Q. lia.
  - destruct IH as [c1 [d1 [I1 H1]]]; [discriminate|].
    destruct (Nat.le_gt_cases (rank c) (rank c1)) as [Hle | Hgt].
    + exists c, deps. split; [left; reflexivity|]. intros c' deps' [Q | I]; [inversion Q; lia|].
      specialize (H1 c' deps' I). lia.
    + exists c1, d1. split; [right; exact I1|]. intros c' deps' [Q | I]; [inversion Q; subst; lia|].
      apply (H1 c' deps' I).
Qed.

Lemma peel_total (rank : comp -> nat) f : forall m,
  NoDup (map fst m) ->
  (forall c deps d, In (c, deps) m -> In d deps -> In d (map fst m) /\ rank d < rank c) ->
  length m < f -> exists L, peel f m = Ok L.
Proof.
  induction f as [|f IH]; intros m ND Hr Hlt; [lia|].
  rewrite peel_unfold. cbv zeta.
  set (ordered := map fst (filter (fun it => match snd it with [] => true | _ => false end) m)).
  destruct ordered as [|o1 orest] eqn:Eo.
  - destruct m as [|x m']; [eauto|]. exfalso.
    destruct (min_rank_entry rank (x :: m')) as [c [deps [Ic Hmin]]]; [discriminate|].
    destruct deps as [|d deps].
    + assert (Io : In c ordered) by (apply ordered_In; exact Ic). rewrite Eo in Io. destruct Io.
    + destruct (Hr c (d :: deps) d Ic (or_introl eq_refl)) as [Kd Rd].
      apply in_map_iff in Kd as [[d' deps'] [Q Id]]. simpl in Q. subst d'.
      specialize (Hmin d deps' Id). lia.
  - rewrite <- Eo. set (m' := map _ _).
    assert (Hm' : length m' < f).
    { unfold m'. rewrite map_length.
      assert (Io : In o1 ordered) by (rewrite Eo; left; reflexivity).
      apply ordered_In in Io.
      pose proof (filter_drop_one (fun it : comp * list comp => negb (mem_comp (fst it) ordered)) m (o1, []) Io) as H.
      simpl in H. assert (Hm : mem_comp o1 ordered = true) by (apply mem_comp_In; rewrite Eo; left; reflexivity).
      rewrite Hm in H. specialize (H eq_refl). lia. }
    assert (ND' : NoDup (map fst m')).
    { unfold m'. rewrite map_map. simpl. apply NoDup_map_filter. exact ND. }
    assert (Hr' : forall c deps d, In (c, deps) m' -> In d deps -> In d (map fst m') /\ rank d < rank c).
    { intros c deps d Ic Id. unfold m' in Ic. apply in_map_iff in Ic as [[c0 deps0] [Q Ic]]. simpl in Q.
      inversion Q. subst c deps. clear Q. apply filter_In in Ic as [Ic Hc]. simpl in Hc.
      unfold remove_comps in Id. apply filter_In in Id as [Id Hd].
      destruct (Hr c0 deps0 d Ic Id) as [Kd Rd]. split; [|exact Rd].
      apply in_map_iff in Kd as [[d' deps'] [Q Kd]]. simpl in Q. subst d'.
      unfold m'. rewrite map_map. simpl. apply in_map_iff. exists (d, deps'). split; [reflexivity|].
      apply filter_In. split; [exact Kd | exact Hd]. }
    destruct (IH m' ND' Hr' Hm') as [L' EL]. rewrite EL. eauto.
Qed.

(* ------------------------------------------------------------ the layering of a correct component list *)
Definition crank (cs : list (list node)) (c : comp) : nat :=
  match c with [] => 0 | x :: _ => cidx cs x end.

Lemma crank_of cs c x : NoDup (concat cs) -> In c cs -> In x c -> crank cs c = cidx cs x.
Proof.
  intros ND Ic Ix. destruct c as [|y c']; [destruct Ix|]. simpl.
  apply (cidx_same cs (y :: c')); auto. left. reflexivity.
Qed.

Lemma comp_layers_total check g cs :
  closed_graph g -> scc_spec g cs ->
  (check = false \/ forall c, In c cs -> length c <= 1) ->
  exists L, comp_layers check g cs = Ok L.
Proof.
  intros Hc S Hchk. unfold comp_layers.
  assert (Echk : check && existsb (fun c => Nat.ltb 1 (length c)) cs = false).
  { destruct Hchk as [-> | H]; [reflexivity|]. apply andb_false_iff. right.
    destruct (existsb (fun c => Nat.ltb 1 (length c)) cs) eqn:E; [|reflexivity].
    apply existsb_exists in E as [c [Ic Lc]]. apply Nat.ltb_lt in Lc. specialize (H c Ic). lia. }
  rewrite Echk.
  pose proof (ss_nodup _ _ S) as ND.
  assert (Hg : forall n ss, In (n, ss) g ->
            (exists c, comp_of cs n = Some c) /\ forall s, In s ss -> exists c, comp_of cs s = Some c).
  { intros n ss I. split.
    - apply comp_of_Some, (ss_cover _ _ S). apply in_map_iff. exists (n, ss). auto.
    - intros s Is. apply comp_of_Some, (ss_cover _ _ S). eapply Hc; eauto. }
  destruct (cg_of_total cs g (cg_init cs) Hg) as [m [Em Hm]]. rewrite Em.
  destruct (cg_of_spec cs g _ m Em (fun c I => proj2 (cg_init_keys cs c) I)) as [K _].
  apply (peel_total (crank cs)).
  - rewrite K. apply cg_init_NoDup.
  - intros c deps d Ic Id.
    destruct (Hm c d (ex_intro _ deps (conj Ic Id))) as [H0 | [n [ss [s [A [B [Cn [Cs Ne]]]]]]]].
    + destruct (cg_init_no_edge _ _ _ H0).
    + pose proof (comp_of_In _ _ _ Cn) as [Ic' In_]. pose proof (comp_of_In _ _ _ Cs) as [Id' Is].
      split; [rewrite K; apply cg_init_keys, Id'|].
      rewrite (crank_of cs c n ND Ic' In_), (crank_of cs d s ND Id' Is).
      assert (Kn : In n (concat cs)) by (apply in_concat; eauto).
      destruct (ss_topo _ _ S n s Kn (ex_intro _ ss (conj A B))) as [_ Le].
      destruct (Nat.eq_dec (cidx cs s) (cidx cs n)) as [Eq | Neq]; [|lia].
      exfalso. apply Ne. rewrite <- (comp_of_nth cs n c ND Cn), <- (comp_of_nth cs s d ND Cs), Eq. reflexivity.
  - lia.
Qed.

(* ------------------------------------------------------------ prepare keeps the keys distinct *)
Lemma prepare_keys_nodup g : NoDup (gkeys g) -> NoDup (gkeys (prepare g)).
Proof.
  intros ND. rewrite prepare_eq. unfold gkeys at 1. rewrite map_app, map_map. simpl. rewrite map_id.
  change (map fst (prep1 g)) with (gkeys (prep1 g)). rewrite prep1_keys.
  apply NoDup_app_intro; [exact ND | apply NoDup_filter, uniq_nodes_NoDup|].
  intros x Hx J. apply filter_In in J as [_ J]. apply negb_true_iff, mem_node_not_In in J.
  contradiction.
Qed.

(* ------------------------------------------------------------ topologicalSort answers *)
Lemma topo_layers_total check g0 :
  NoDup (gkeys g0) -> (check = false \/ acyclic (prepare g0)) -> exists NL, topo_layers check g0 = Ok NL.
Proof.
  intros ND Hchk. unfold topo_layers, topo_layers_with.
  destruct (scc_correct (prepare g0) (prepare_keys_nodup g0 ND) (prepare_closed g0)) as [cs [E S]]. rewrite E.
  destruct (comp_layers_total check (prepare g0) cs (prepare_closed g0) S) as [L EL].
  { destruct Hchk as [-> | Ha]; [auto|]. right. intros c Ic.
    destruct (scc_dag (prepare g0) cs Ha (prepare_closed g0) E) as [H _].
    destruct (H c Ic) as [x [-> _]]. simpl. lia. }
  rewrite EL. apply sort_layers_total.
Qed.

(* ------------------------------------------------------------ productDictionary has distinct keys *)
Lemma pd_ensure_l_nodup k m : NoDup (gkeys m) -> NoDup (gkeys (pd_ensure_l k m)).
Proof.
  induction m as [|[k' l] m IH]; simpl; intros H.
  - constructor; [intros [] | constructor].
  - destruct (node_eqb k k') eqn:E; [exact H|]. apply node_eqb_neq in E. simpl.
    inversion H as [|? ? N D]. subst. constructor; [|apply IH, D].
    intros J. apply gkeys_pd_ensure in J as [J | J]; [contradiction | congruence].
Qed.

Lemma pd_add_l_nodup k t m : NoDup (gkeys m) -> NoDup (gkeys (pd_add_l k t m)).
Proof.
  induction m as [|[k' l] m IH]; simpl; intros H.
  - constructor; [intros [] | constructor].
  - destruct (node_eqb k k') eqn:E; [exact H|]. apply node_eqb_neq in E. simpl.
    inversion H as [|? ? N D]. subst. constructor; [|apply IH, D].
    intros J. apply gkeys_pd_add in J as [J | J]; [contradiction | congruence].
Qed.

Definition pd_nodup (st : wstate) : Prop := NoDup (gkeys (pd st)).

Lemma walk_lines_pd_nodup w pins rec :
  (forall t d es st r st', rec t d es st = Ok (r, st') -> pd_nodup st -> pd_nodup st') ->
  forall es tp d st r st', walk_lines w pins rec tp d es st = Ok (r, st') -> pd_nodup st -> pd_nodup st'.
Proof.
  intros Hrec. induction es as [|e es IH]; intros tp d st r st'; cbn [walk_lines].
  - intros Q H. inversion Q. subst. exact H.
  - cbv zeta. set (t := resolve w pins e).
    destruct (nreal t && negb (mem_node t (vis st))).
    + destruct (node_table w t) as [es'|].
      * destruct (rec t (S d) es' (pd_ensure t (mark t st))) as [[l1 st2]|] eqn:E1; [|discriminate].
        destruct (walk_lines w pins rec tp d es (pd_add tp t st2)) as [[l2 st3]|] eqn:E2; [|discriminate].
        intros Q H. inversion Q. subst.
        apply (IH _ _ _ _ _ E2). unfold pd_nodup, pd_add. cbn [pd]. apply pd_add_l_nodup.
        apply (Hrec _ _ _ _ _ _ E1). unfold pd_nodup, pd_ensure, mark. cbn [pd]. apply pd_ensure_l_nodup, H.
      * destruct (walk_lines w pins rec tp d es (pd_add tp t (mark t st))) as [[l2 st3]|] eqn:E2; [|discriminate].
        intros Q H. inversion Q. subst.
        apply (IH _ _ _ _ _ E2). unfold pd_nodup, pd_add, mark. cbn [pd]. apply pd_add_l_nodup, H.
    + destruct (walk_lines w pins rec tp d es (pd_add tp t st)) as [[l2 st3]|] eqn:E2; [|discriminate].
      intros Q H. inversion Q. subst.
      apply (IH _ _ _ _ _ E2). unfold pd_nodup, pd_add. cbn [pd]. apply pd_add_l_nodup, H.
Qed.

Lemma walk_pd_nodup w pins fuel : forall t d es st r st',
  walk fuel w pins t d es st = Ok (r, st') -> pd_nodup st -> pd_nodup st'.
Proof.
  induction fuel as [|f IH]; intros t d es st r st'; [discriminate|].
  cbn [walk]. apply walk_lines_pd_nodup. exact IH.
Qed.

Lemma walk_top_pd_nodup w pins fuel top out st : walk_top fuel w pins top = Ok (out, st) -> NoDup (gkeys (pd st)).
Proof.
  unfold walk_top. destruct (node_table w top) as [es|].
  - intros H. apply walk_pd_nodup in H; [exact H|]. unfold pd_nodup. simpl. constructor; [intros [] | constructor].
  - intros Q. inversion Q. simpl. constructor.
Qed.

(* ------------------------------------------------------------ getDependentProducts(topological) and uses answer *)
Lemma dependent_products_total w top fuel :
  length w < fuel -> exists l, dependent_products fuel w top true = Ok l.
Proof.
  intros Hf. unfold dependent_products, dependent_products_with.
  destruct (walk_top_spec w [] top fuel Hf) as [out1 [st1 [E1 _]]]. rewrite E1. cbn [negb]. cbv zeta.
  destruct (walk_top_spec w (pins_for true top (drop_top top out1)) top fuel Hf)
    as [out2 [st2 [E2 _]]].
  rewrite E2.
  destruct (topo_layers_total false (pd st2) (walk_top_pd_nodup _ _ _ _ _ _ E2) (or_introl eq_refl)) as [NL EL].
  unfold topo_layers in EL. rewrite EL. eauto.
Qed.

Lemma uses_index_total w fuel : length w < fuel -> exists idx, uses_index fuel w = Ok idx.
Proof.
  intros Hf. unfold uses_index. induction (map fst w) as [|[n v] ps IH]; simpl; [eauto|].
  destruct (dependent_products_total w (n, Some v, true) fuel Hf) as [l El].
  unfold dependent_products in El. rewrite El. destruct IH as [idx Ei]. rewrite Ei. eauto.
Qed.

Lemma topo_graph_keys_nodup fuel w top g : topo_graph fuel w top = Ok g -> NoDup (gkeys g).
Proof.
  unfold topo_graph, topo_graph_with. destruct (walk_top fuel w [] top) as [[l st]|]; [|discriminate].
  destruct (walk_top fuel w _ top) as [[l2 st2]|] eqn:E2; [|discriminate].
  intros Q. inversion Q. apply prepare_keys_nodup. eapply walk_top_pd_nodup; eauto.
Qed.

(* ------------------------------------------------------------ the cycle check, exactly *)
Lemma check_cycles_refused g0 : NoDup (gkeys g0) -> ~ acyclic (prepare g0) -> check_cycles g0 = Err Refused.
Proof.
  intros ND Hcyc. unfold check_cycles, topo_layers, topo_layers_with.
  set (g := prepare g0) in *.
  destruct (scc_correct g (prepare_keys_nodup g0 ND) (prepare_closed g0)) as [cs [E S]]. rewrite E.
  unfold comp_layers. destruct (existsb (fun c => Nat.ltb 1 (length c)) cs) eqn:Ex; [reflexivity|].
  exfalso. apply Hcyc. intros a P.
  assert (Hsmall : forall c, In c cs -> length c <= 1).
  { intros c Ic. destruct (Nat.ltb 1 (length c)) eqn:F; [|apply Nat.ltb_ge in F; exact F].
    assert (X : existsb (fun c => Nat.ltb 1 (length c)) cs = true) by (apply existsb_exists; eauto). congruence. }
  assert (Hab : exists b, a <> b /\ gedge g a b /\ gstar g b a).
  { inversion P as [a' b' Eab | a' b' c' Eab P']; subst.
    - exfalso. apply (prepare_gedge g0 a a) in Eab as [_ Ne]. congruence.
    - exists b'. split; [apply (prepare_gedge g0 a b'), Eab|]. split; [exact Eab | apply gpath_star, P']. }
  destruct Hab as [b [Ne [Eab Rba]]].
  assert (Ka : In a (gkeys g)) by apply (gedge_mentions g a b Eab).
  assert (Kb : In b (gkeys g)).
  { destruct Eab as [ss [I1 I2]]. eapply (prepare_closed g0); eauto. }
  destruct (proj2 (scc_spec_components g cs S a b Ka Kb) (conj (gstar_edge g a b Eab) Rba)) as [c [Ic [Ia Ib]]].
  specialize (Hsmall c Ic). destruct c as [|x [|y c']]; simpl in *; try tauto; try lia.
  destruct Ia as [<- | []]. destruct Ib as [<- | []]. congruence.
Qed.

Lemma check_cycles_passes g0 : NoDup (gkeys g0) -> acyclic (prepare g0) -> exists NL, check_cycles g0 = Ok NL.
Proof. intros ND Ha. apply topo_layers_total; auto. Qed.

(* ------------------------------------------------------------ deciding the hypotheses on a concrete graph *)
Definition graph_ok_b (g : graph) : bool :=
  nodup_nodes (gkeys g) && forallb (fun it => forallb (fun s => mem_node s (gkeys g)) (snd it)) g.

Lemma graph_ok_by_computation g : graph_ok_b g = true -> NoDup (gkeys g) /\ closed_graph g.
Proof.
  unfold graph_ok_b. rewrite andb_true_iff. intros [H1 H2]. split; [apply nodup_nodes_NoDup, H1|].
  intros n ss s I1 I2. apply mem_node_In. rewrite forallb_forall in H2. specialize (H2 _ I1). simpl in H2.
  rewrite forallb_forall in H2. apply H2, I2.
Qed.
