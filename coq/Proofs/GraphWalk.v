(* The recursive table walk (Table.dependencies): termination on every world, soundness and
   completeness with respect to reachability. *)
From Coq Require Import Lia.
From Eupsv Require Import Base.Base Base.BaseLemmas Model.Graph Proofs.GraphLib Proofs.GraphLayers.

(* productDictionary as a graph *)
Lemma gedge_cons k l (m : graph) a b : gedge ((k, l) :: m) a b <-> (a = k /\ In b l) \/ gedge m a b.
Proof.
  unfold gedge. simpl. split.
  - intros [ss [[Q | I1] I2]]; [inversion Q; subst; auto | right; exists ss; auto].
  - intros [[-> I] | [ss [I1 I2]]]; [exists l; auto | exists ss; auto].
Qed.

Lemma gedge_pd_add k t m a b : gedge (pd_add_l k t m) a b <-> gedge m a b \/ (a = k /\ b = t).
Proof.
  induction m as [|[k' l] m IH]; simpl.
  - rewrite gedge_cons. simpl. unfold gedge. simpl. split.
    + intros [[-> [<- | []]] | [ss [[] _]]]. auto.
    + intros [[ss [[] _]] | [-> ->]]. auto.
  - destruct (node_eqb k k') eqn:E.
    + apply node_eqb_eq in E. subst k'. rewrite !gedge_cons, in_app_iff. simpl. intuition (subst; auto).
    + rewrite !gedge_cons, IH. intuition.
Qed.

Lemma gkeys_pd_add k t m x : In x (gkeys (pd_add_l k t m)) <-> In x (gkeys m) \/ x = k.
Proof.
  unfold gkeys. induction m as [|[k' l] m IH]; simpl.
  - intuition.
  - destruct (node_eqb k k') eqn:E; simpl.
    + apply node_eqb_eq in E. subst. intuition.
    + rewrite IH. intuition.
Qed.

Lemma gedge_pd_ensure k m a b : gedge (pd_ensure_l k m) a b <-> gedge m a b.
Proof.
  induction m as [|[k' l] m IH]; simpl.
  - rewrite gedge_cons. simpl. unfold gedge. simpl. split; [intros [[_ []] | H]; exact H | auto].
  - destruct (node_eqb k k') eqn:E; [reflexivity|]. rewrite !gedge_cons, IH. reflexivity.
Qed.

Lemma gkeys_pd_ensure k m x : In x (gkeys (pd_ensure_l k m)) <-> In x (gkeys m) \/ x = k.
Proof.
  unfold gkeys. induction m as [|[k' l] m IH]; simpl.
  - intuition.
  - destruct (node_eqb k k') eqn:E; simpl.
    + apply node_eqb_eq in E. subst. intuition.
    + rewrite IH. intuition.
Qed.

Section Walk.
  Variable w : world.
  Variable pins : list (str * option str).

  Definition tg (e : edge) : node := resolve w pins e.

  (* one dependency line of the table of p denotes q *)
  Definition stepP (p q : node) : Prop :=
    exists es e, node_table w p = Some es /\ In e es /\ q = tg e.

  Inductive reachP : node -> node -> Prop :=
  | rp_one p q : stepP p q -> reachP p q
  | rp_more p q r : stepP p q -> reachP q r -> reachP p r.

  Lemma reachP_trans_step p q r : reachP p q -> stepP q r -> reachP p r.
  Proof.
    induction 1 as [p q H | p q r' H H' IH]; intros S.
    - eapply rp_more; [exact H | apply rp_one, S].
    - eapply rp_more; [exact H | apply IH, S].
  Qed.

  Definition unvisited (st : wstate) : nat :=
    length (filter (fun k => negb (mem_node k (vis st))) (world_nodes w)).

  Lemma filter_length_le {A} (f g : A -> bool) l :
    (forall x, f x = true -> g x = true) -> length (filter f l) <= length (filter g l).
  Proof.
    intros H. induction l as [|x l IH]; simpl; [lia|].
    destruct (f x) eqn:F.
    - rewrite (H _ F). simpl. lia.
    - destruct (g x); simpl; lia.
  Qed.

  Lemma filter_length_lt {A} (f g : A -> bool) l x :
    (forall y, f y = true -> g y = true) -> In x l -> f x = false -> g x = true ->
    length (filter f l) < length (filter g l).
  Proof.
    intros H. induction l as [|y l IH]; simpl; [tauto|].
    intros [-> | I] F G.
    - rewrite F, G. simpl. pose proof (filter_length_le f g l H). lia.
    - specialize (IH I F G). destruct (f y) eqn:Fy.
      + rewrite (H _ Fy). simpl. lia.
      + destruct (g y); simpl; lia.
  Qed.

  Lemma unvisited_mono st st' : incl (vis st) (vis st') -> unvisited st' <= unvisited st.
  Proof.
    intros H. apply filter_length_le. intros x. rewrite !negb_true_iff, !mem_node_not_In. auto.
  Qed.

  Lemma unvisited_mark t st : In t (world_nodes w) -> ~ In t (vis st) -> unvisited (mark t st) < unvisited st.
  Proof.
    intros I N. unfold unvisited. apply filter_length_lt with (x := t); auto.
    - intros y. rewrite !negb_true_iff, !mem_node_not_In. simpl. tauto.
    - rewrite negb_false_iff, mem_node_In. simpl. auto.
    - rewrite negb_true_iff, mem_node_not_In. exact N.
  Qed.

  (* what one call of the walk guarantees *)
  Record walk_ok (tp : node) (st : wstate) (es : list edge) (out : list entry) (st' : wstate) : Prop := {
    wo_mono : incl (vis st) (vis st');
    wo_new : forall x, In x (vis st') -> ~ In x (vis st) ->
             forall es_x e, node_table w x = Some es_x -> In e es_x -> In (tg e) (map enode out);
    wo_lines : forall e, In e es -> In (tg e) (map enode out);
    wo_vis : forall t, In t (map enode out) -> nreal t = true -> In t (vis st');
    wo_sound : forall R : node -> Prop,
        (forall e, In e es -> R (tg e)) -> (forall x y, R x -> stepP x y -> R y) ->
        forall t, In t (map enode out) -> R t;
    wo_emitted : forall x, In x (vis st') -> ~ In x (vis st) -> In x (map enode out);
    (* productDictionary *)
    wo_pd_mono : forall k s, gedge (pd st) k s -> gedge (pd st') k s;
    wo_pd_sound : forall k s, gedge (pd st') k s ->
        gedge (pd st) k s \/ (k = tp /\ exists e, In e es /\ s = tg e) \/
        (In k (vis st') /\ ~ In k (vis st) /\ stepP k s);
    wo_pd_lines : forall e, In e es -> gedge (pd st') tp (tg e);
    wo_pd_new : forall x, In x (vis st') -> ~ In x (vis st) ->
        forall es_x e, node_table w x = Some es_x -> In e es_x -> gedge (pd st') x (tg e);
    wo_pd_keys : forall k, In k (gkeys (pd st')) ->
        In k (gkeys (pd st)) \/ k = tp \/ (In k (vis st') /\ ~ In k (vis st))
  }.

  Definition rec_ok (rec : node -> nat -> list edge -> wstate -> res (list entry * wstate)) (n : nat) : Prop :=
    forall t d es st, unvisited st < n ->
      exists out st', rec t d es st = Ok (out, st') /\ walk_ok t st es out st'.

  Lemma vis_pd_add k t st : vis (pd_add k t st) = vis st.
  Proof. reflexivity. Qed.
  Lemma vis_pd_ensure k st : vis (pd_ensure k st) = vis st.
  Proof. reflexivity. Qed.

  (* the effect of handling one line before the rest of the loop: the recursive call, if any *)
  Record sub_ok (st : wstate) (t : node) (l1 : list entry) (st2 : wstate) : Prop := {
    so_mono : incl (vis st) (vis st2);
    so_vis : nreal t = true -> In t (vis st2);
    so_new : forall x, In x (vis st2) -> ~ In x (vis st) ->
             forall es_x e', node_table w x = Some es_x -> In e' es_x -> In (tg e') (map enode l1);
    so_out_vis : forall q, In q (map enode l1) -> nreal q = true -> In q (vis st2);
    so_sound : forall R : node -> Prop, R t -> (forall x y, R x -> stepP x y -> R y) ->
               forall q, In q (map enode l1) -> R q;
    so_emitted : forall x, In x (vis st2) -> ~ In x (vis st) -> x = t \/ In x (map enode l1);
    so_pd_mono : forall k s, gedge (pd st) k s -> gedge (pd st2) k s;
    so_pd_sound : forall k s, gedge (pd st2) k s ->
                  gedge (pd st) k s \/ (In k (vis st2) /\ ~ In k (vis st) /\ stepP k s);
    so_pd_new : forall x, In x (vis st2) -> ~ In x (vis st) ->
                forall es_x e', node_table w x = Some es_x -> In e' es_x -> gedge (pd st2) x (tg e');
    so_pd_keys : forall k, In k (gkeys (pd st2)) -> In k (gkeys (pd st)) \/ (In k (vis st2) /\ ~ In k (vis st))
  }.

  Lemma sub_call_ok rec n : rec_ok rec n -> forall t depth st, unvisited st <= n ->
    exists l1 st2,
      (if nreal t && negb (mem_node t (vis st))
       then match node_table w t with
            | Some es' => rec t (S depth) es' (pd_ensure t (mark t st))
            | None => Ok ([], mark t st)
            end
       else Ok ([], st)) = Ok (l1, st2) /\ sub_ok st t l1 st2.
  Proof.
    intros Hrec t depth st Hn.
    destruct (nreal t) eqn:Hr; simpl.
    2:{ exists [], st. split; [reflexivity|]. constructor; try (intros; simpl in *; tauto); try apply incl_refl. intros; congruence. }
    destruct (mem_node t (vis st)) eqn:Hm; simpl.
    { apply mem_node_In in Hm. exists [], st. split; [reflexivity|].
      constructor; try (intros; simpl in *; tauto). apply incl_refl. }
    apply mem_node_not_In in Hm.
    destruct (node_table w t) as [es'|] eqn:Ht.
    - assert (Hlt : unvisited (pd_ensure t (mark t st)) < n).
      { pose proof (unvisited_mark t st (node_table_world_nodes _ _ _ Ht) Hm).
        unfold unvisited in *. simpl in *. lia. }
      destruct (Hrec t (S depth) es' _ Hlt) as [l1 [st2 [E Hok]]].
      exists l1, st2. split; [exact E|].
      destruct Hok as [M N L V S Em P1 P2 P3 P4 P5]. simpl in M, N, Em, P1, P2, P4, P5.
      assert (Hnew : forall x, In x (vis st2) -> ~ In x (vis st) -> x = t \/ (x <> t /\ ~ (t = x \/ In x (vis st)))).
      { intros x Hx Hnx. destruct (node_eq_dec x t) as [-> | Ne]; [auto|]. right. split; [exact Ne|].
        intros [Q | Q]; [congruence | tauto]. }
      constructor.
      + intros x Hx. apply M. simpl. auto.
      + intros _. apply M. simpl. auto.
      + intros x Hx Hnx es_x e' Tx Ie. destruct (Hnew x Hx Hnx) as [-> | [Ne Nn]].
        * rewrite Ht in Tx. inversion Tx. subst. apply L, Ie.
        * apply (N x Hx Nn es_x); auto.
      + exact V.
      + intros R Rt Rc q Hq. apply (S R); auto.
        intros e' Ie. apply (Rc t); auto. exists es', e'. auto.
      + intros x Hx Hnx. destruct (Hnew x Hx Hnx) as [-> | [Ne Nn]]; [auto|]. right. apply Em; auto.
      + intros k s H. apply P1. apply (proj2 (gedge_pd_ensure _ _ _ _)). exact H.
      + intros k s H. destruct (P2 k s H) as [H1 | [[-> [e' [Ie ->]]] | [H1 [H2 H3]]]].
        * left. apply (proj1 (gedge_pd_ensure _ _ _ _)) in H1. exact H1.
        * right. split; [apply M; simpl; auto|]. split; [exact Hm|]. exists es', e'. auto.
        * right. split; [exact H1|]. split; [tauto | exact H3].
      + intros x Hx Hnx es_x e' Tx Ie. destruct (Hnew x Hx Hnx) as [-> | [Ne Nn]].
        * rewrite Ht in Tx. inversion Tx. subst. apply P3, Ie.
        * apply (P4 x Hx Nn es_x); auto.
      + intros k H. destruct (P5 k H) as [H1 | [-> | [H1 H2]]].
        * apply (proj1 (gkeys_pd_ensure _ _ _)) in H1. destruct H1 as [H1 | ->]; [auto|]. right. split; [apply M; simpl; auto | exact Hm].
        * right. split; [apply M; simpl; auto | exact Hm].
        * right. split; [exact H1 | tauto].
    - exists [], (mark t st). split; [reflexivity|]. constructor; simpl; try (intros; tauto).
      + intros x Hx. simpl. auto.
      + intros x [<- | Hx] Hnx es_x e' Tx Ie; [congruence | tauto].
      + intros x [<- | Hx] Hnx; tauto.
      + intros x [<- | Hx] Hnx es_x e' Tx Ie; [congruence | tauto].
  Qed.

  Lemma walk_lines_ok rec n :
    rec_ok rec n ->
    forall es tp depth st, unvisited st <= n ->
      exists out st', walk_lines w pins rec tp depth es st = Ok (out, st') /\ walk_ok tp st es out st'.
  Proof.
    intros Hrec. induction es as [|e r IH]; intros tp depth st Hn.
    - exists [], st. split; [reflexivity|]. constructor; simpl; try tauto. apply incl_refl.
    - cbn [walk_lines]. fold (tg e). set (t := tg e).
      destruct (sub_call_ok rec n Hrec t depth st Hn) as [l1 [st2 [E Hs]]]. rewrite E.
      destruct Hs as [M2 V2 N2 Q2 S2 E2 A1 A2 A3 A4].
      assert (Hn2 : unvisited (pd_add tp t st2) <= n).
      { pose proof (unvisited_mono st st2 M2). unfold unvisited in *. simpl in *. lia. }
      destruct (IH tp depth (pd_add tp t st2) Hn2) as [l2 [st3 [E3 Hok3]]]. rewrite E3.
      exists ((t, eopt e, depth) :: l1 ++ l2), st3. split; [reflexivity|].
      destruct Hok3 as [M3 N3 L3 V3 S3 Em3 B1 B2 B3 B4 B5]. simpl in M3, N3, Em3, B1, B2, B4, B5.
      constructor.
      + intros x Hx. apply M3, M2, Hx.
      + intros x Hx Hnx es_x e' Tx Ie. simpl. rewrite map_app, in_app_iff. right.
        destruct (in_dec node_eq_dec x (vis st2)) as [I2 | I2].
        * left. eapply N2; eauto.
        * right. eapply N3; eauto.
      + intros e' [<- | Ie]; simpl; [left; reflexivity|]. right. rewrite map_app, in_app_iff. right. apply L3, Ie.
      + intros q Hq Hr. simpl in Hq. rewrite map_app, in_app_iff in Hq.
        destruct Hq as [<- | [Hq | Hq]].
        * apply M3. apply V2, Hr.
        * apply M3. apply Q2; auto.
        * apply V3; auto.
      + intros R Rl Rc q Hq. simpl in Hq. rewrite map_app, in_app_iff in Hq.
        destruct Hq as [<- | [Hq | Hq]].
        * apply Rl. simpl. auto.
        * apply (S2 R); auto. apply Rl. simpl. auto.
        * apply (S3 R); auto. intros e' Ie. apply Rl. simpl. auto.
      + intros x Hx Hnx. simpl. rewrite map_app, in_app_iff.
        destruct (in_dec node_eq_dec x (vis st2)) as [I2 | I2].
        * destruct (E2 x I2 Hnx) as [-> | H]; auto.
        * right. right. apply Em3; auto.
      + intros k s H. apply B1. apply (proj2 (gedge_pd_add _ _ _ _ _)). left. apply A1, H.
      + intros k s H. destruct (B2 k s H) as [H1 | [[-> [e' [Ie ->]]] | [H1 [H2 H3]]]].
        * apply (proj1 (gedge_pd_add _ _ _ _ _)) in H1. destruct H1 as [H1 | [-> ->]].
          -- destruct (A2 k s H1) as [H0 | [H0 [H0' H0'']]]; [auto|]. right. right. split; [apply M3, H0 | auto].
          -- right. left. split; [reflexivity|]. exists e. simpl. auto.
        * right. left. split; [reflexivity|]. exists e'. simpl. auto.
        * right. right. split; [exact H1|]. split; [intros Q; apply H2, M2, Q | exact H3].
      + intros e' [<- | Ie].
        * apply B1. apply (proj2 (gedge_pd_add _ _ _ _ _)). right. auto.
        * apply B3, Ie.
      + intros x Hx Hnx es_x e' Tx Ie.
        destruct (in_dec node_eq_dec x (vis st2)) as [I2 | I2].
        * apply B1. apply (proj2 (gedge_pd_add _ _ _ _ _)). left. eapply A3; eauto.
        * eapply B4; eauto.
      + intros k H. destruct (B5 k H) as [H1 | [-> | [H1 H2]]].
        * apply (proj1 (gkeys_pd_add _ _ _ _)) in H1. destruct H1 as [H1 | ->]; [|auto].
          destruct (A4 k H1) as [H0 | [H0 H0']]; [auto|]. right. right. split; [apply M3, H0 | exact H0'].
        * auto.
        * right. right. split; [exact H1 | intros Q; apply H2, M2, Q].
  Qed.

  Lemma walk_ok_all fuel : rec_ok (walk fuel w pins) fuel.
  Proof.
    induction fuel as [|f IH]; intros t d es st Hlt; [lia|].
    cbn [walk]. apply walk_lines_ok with (n := f); [exact IH | lia].
  Qed.

  Lemma filter_length_le_all {A} (f : A -> bool) l : length (filter f l) <= length l.
  Proof. induction l as [|x l IHl]; simpl; [lia|]. destruct (f x); simpl; lia. Qed.

  Lemma unvisited_le st : unvisited st <= length w.
  Proof.
    unfold unvisited. etransitivity; [apply filter_length_le_all|].
    unfold world_nodes. rewrite map_length. lia.
  Qed.
End Walk.
