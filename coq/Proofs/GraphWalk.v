(* The recursive table walk (Table.dependencies): termination on every world, soundness and
   completeness with respect to reachability. *)
From Coq Require Import Lia.
From Eupsv Require Import Base.Base Base.BaseLemmas Model.Graph Proofs.GraphLib.

Section Walk.
  Variable w : world.
  Variable pins : list (str * option str).

  Definition tg (e : edge) : node := resolve w pins e.

  (* one dependency line of the table of p denotes q *)
  Definition stepP (p q : node) : Prop :=
    exists es e, node_table w p = Some es /\ In e es /\ q = tg e.

  Inductive reachP : node -> node -> Prop :=
  | rp_one p q : stepP p q -> reachP p q
  | rp_more p q r : stepP p q -> reachP q r -> reachP p r.

  Lemma reachP_trans_step p q r : reachP p q -> stepP q r -> reachP p r.
  Proof.
    induction 1 as [p q H | p q r' H H' IH]; intros S.
    - eapply rp_more; [exact H | apply rp_one, S].
    - eapply rp_more; [exact H | apply IH, S].
  Qed.

  Definition unvisited (st : wstate) : nat :=
    length (filter (fun k => negb (mem_node k (vis st))) (world_nodes w)).

  Lemma filter_length_le {A} (f g : A -> bool) l :
    (forall x, f x = true -> g x = true) -> length (filter f l) <= length (filter g l).
  Proof.
    intros H. induction l as [|x l IH]; simpl; [lia|].
    destruct (f x) eqn:F.
    - rewrite (H _ F). simpl. lia.
    - destruct (g x); simpl; lia.
  Qed.

  Lemma filter_length_lt {A} (f g : A -> bool) l x :
    (forall y, f y = true -> g y = true) -> In x l -> f x = false -> g x = true ->
    length (filter f l) < length (filter g l).
  Proof.
    intros H. induction l as [|y l IH]; simpl; [tauto|].
    intros [-> | I] F G.
    - rewrite F, G. simpl. pose proof (filter_length_le f g l H). lia.
    - specialize (IH I F G). destruct (f y) eqn:Fy.
      + rewrite (H _ Fy). simpl. lia.
      + destruct (g y); simpl; lia.
  Qed.

  Lemma unvisited_mono st st' : incl (vis st) (vis st') -> unvisited st' <= unvisited st.
  Proof.
    intros H. apply filter_length_le. intros x. rewrite !negb_true_iff, !mem_node_not_In. auto.
  Qed.

  Lemma unvisited_mark t st : In t (world_nodes w) -> ~ In t (vis st) -> unvisited (mark t st) < unvisited st.
  Proof.
    intros I N. unfold unvisited. apply filter_length_lt with (x := t); auto.
    - intros y. rewrite !negb_true_iff, !mem_node_not_In. simpl. tauto.
    - rewrite negb_false_iff, mem_node_In. simpl. auto.
    - rewrite negb_true_iff, mem_node_not_In. exact N.
  Qed.

  (* what one call of the walk guarantees *)
  Record walk_ok (st : wstate) (es : list edge) (out : list entry) (st' : wstate) : Prop := {
    wo_mono : incl (vis st) (vis st');
    wo_new : forall x, In x (vis st') -> ~ In x (vis st) ->
             forall es_x e, node_table w x = Some es_x -> In e es_x -> In (tg e) (map enode out);
    wo_lines : forall e, In e es -> In (tg e) (map enode out);
    wo_vis : forall t, In t (map enode out) -> nreal t = true -> In t (vis st');
    wo_sound : forall R : node -> Prop,
        (forall e, In e es -> R (tg e)) -> (forall x y, R x -> stepP x y -> R y) ->
        forall t, In t (map enode out) -> R t
  }.

  Definition rec_ok (rec : node -> nat -> list edge -> wstate -> res (list entry * wstate)) (n : nat) : Prop :=
    forall t d es st, unvisited st < n ->
      exists out st', rec t d es st = Ok (out, st') /\ walk_ok st es out st'.

  Lemma vis_pd_add k t st : vis (pd_add k t st) = vis st.
  Proof. reflexivity. Qed.
  Lemma vis_pd_ensure k st : vis (pd_ensure k st) = vis st.
  Proof. reflexivity. Qed.

  Lemma walk_lines_ok rec n :
    rec_ok rec n ->
    forall es tp depth st, unvisited st <= n ->
      exists out st', walk_lines w pins rec tp depth es st = Ok (out, st') /\ walk_ok st es out st'.
  Proof.
    intros Hrec. induction es as [|e r IH]; intros tp depth st Hn.
    - exists [], st. split; [reflexivity|]. constructor; simpl; try tauto. apply incl_refl.
    - cbn [walk_lines]. fold (tg e). set (t := tg e).
      (* the sub-call *)
      assert (Hsub : exists l1 st2,
                 (if nreal t && negb (mem_node t (vis st))
                  then match node_table w t with
                       | Some es' => rec t (S depth) es' (pd_ensure t (mark t st))
                       | None => Ok ([], mark t st)
                       end
                  else Ok ([], st)) = Ok (l1, st2) /\
                 incl (vis st) (vis st2) /\
                 (nreal t = true -> In t (vis st2)) /\
                 (forall x, In x (vis st2) -> ~ In x (vis st) ->
                    forall es_x e', node_table w x = Some es_x -> In e' es_x -> In (tg e') (map enode l1)) /\
                 (forall q, In q (map enode l1) -> nreal q = true -> In q (vis st2)) /\
                 (forall R : node -> Prop, R t -> (forall x y, R x -> stepP x y -> R y) ->
                    forall q, In q (map enode l1) -> R q)).
      { destruct (nreal t) eqn:Hr; simpl.
        2:{ exists [], st. repeat split; try (intros; simpl in *; tauto); try apply incl_refl. discriminate. }
        destruct (mem_node t (vis st)) eqn:Hm; simpl.
        { apply mem_node_In in Hm. exists [], st. repeat split; try (intros; simpl in *; tauto). apply incl_refl. }
        apply mem_node_not_In in Hm.
        destruct (node_table w t) as [es'|] eqn:Ht.
        - assert (Hlt : unvisited (pd_ensure t (mark t st)) < n).
          { pose proof (unvisited_mark t st (node_table_world_nodes _ _ _ Ht) Hm).
            unfold unvisited in *. simpl in *. lia. }
          destruct (Hrec t (S depth) es' _ Hlt) as [l1 [st2 [E Hok]]].
          exists l1, st2. split; [exact E|]. destruct Hok as [M N L V S].
          simpl in M. repeat split.
          + intros x Hx. apply M. simpl. auto.
          + intros _. apply M. simpl. auto.
          + intros x Hx Hnx es_x e' Tx Ie.
            destruct (node_eq_dec x t) as [-> | Ne].
            * rewrite Ht in Tx. inversion Tx. subst. apply L, Ie.
            * apply (N x Hx) with (es_x := es_x); auto. simpl. intros [Q | Q]; [congruence | tauto].
          + exact V.
          + intros R Rt Rc q Hq. apply (S R); auto.
            intros e' Ie. apply (Rc t); auto. exists es', e'. auto.
        - exists [], (mark t st). repeat split; try (intros; simpl in *; tauto).
          + intros x Hx. simpl. auto.
          + intros x Hx Hnx es_x e' Tx Ie. simpl in Hx. destruct Hx as [<- | Hx]; [congruence | tauto]. }
      destruct Hsub as [l1 [st2 [E [M2 [V2 [N2 [Q2 S2]]]]]]]. rewrite E.
      assert (Hn2 : unvisited (pd_add tp t st2) <= n).
      { pose proof (unvisited_mono st st2 M2). unfold unvisited in *. simpl in *. lia. }
      destruct (IH tp depth (pd_add tp t st2) Hn2) as [l2 [st3 [E3 Hok3]]]. rewrite E3.
      exists ((t, eopt e, depth) :: l1 ++ l2), st3. split; [reflexivity|].
      destruct Hok3 as [M3 N3 L3 V3 S3]. simpl in M3, N3.
      constructor.
      + intros x Hx. apply M3, M2, Hx.
      + intros x Hx Hnx es_x e' Tx Ie. simpl. rewrite map_app, in_app_iff. right.
        destruct (in_dec node_eq_dec x (vis st2)) as [I2 | I2].
        * left. eapply N2; eauto.
        * right. eapply N3; eauto.
      + intros e' [<- | Ie]; simpl; [left; reflexivity|]. right. rewrite map_app, in_app_iff. right. apply L3, Ie.
      + intros q Hq Hr. simpl in Hq. rewrite map_app, in_app_iff in Hq.
        destruct Hq as [<- | [Hq | Hq]].
        * apply M3. simpl. apply V2, Hr.
        * apply M3. simpl. apply Q2; auto.
        * apply V3; auto.
      + intros R Rl Rc q Hq. simpl in Hq. rewrite map_app, in_app_iff in Hq.
        destruct Hq as [<- | [Hq | Hq]].
        * apply Rl. simpl. auto.
        * apply (S2 R); auto. apply Rl. simpl. auto.
        * apply (S3 R); auto. intros e' Ie. apply Rl. simpl. auto.
  Qed.

  Lemma walk_ok_all fuel : rec_ok (walk fuel w pins) fuel.
  Proof.
    induction fuel as [|f IH]; intros t d es st Hlt; [lia|].
    cbn [walk]. apply walk_lines_ok with (n := f); [exact IH | lia].
  Qed.

  Lemma filter_length_le_all {A} (f : A -> bool) l : length (filter f l) <= length l.
  Proof. induction l as [|x l IHl]; simpl; [lia|]. destruct (f x); simpl; lia. Qed.

  Lemma unvisited_le st : unvisited st <= length w.
  Proof.
    unfold unvisited. etransitivity; [apply filter_length_le_all|].
    unfold world_nodes. rewrite map_length. lia.
  Qed.
End Walk.
