(* Soundness of the dry-run analyser of Model/Guards.v *)
From Coq Require Import List Bool Arith Lia.
Import ListNotations.
From Eupsv Require Import Model.Guards.

Lemma never_normal_sound body_of na s o w :
  exec body_of na s o w -> never_normal na s = true -> o <> ONormal.
Proof.
  induction 1; cbn [never_normal]; intro Hn; try discriminate; try congruence.
  - (* seq, a normal *) apply orb_true_iff in Hn. destruct Hn as [Hn|Hn].
    + exfalso. now apply IHexec1.
    + now apply IHexec2.
  - subst. now apply IHexec.
  - subst. now apply IHexec.
  - subst. now apply IHexec.
  - subst. now apply IHexec.
  - apply andb_true_iff in Hn. now apply IHexec.
  - apply andb_true_iff in Hn. now apply IHexec.
Qed.

Lemma table_justified_from_nth prog oks na i rest :
  table_justified_from prog oks na i rest = true ->
  forall j, j < length rest -> ok_in oks (i + j) = true ->
            safe (ok_in oks) na (nth j rest SRaise) = true.
Proof.
  revert i. induction rest as [|b rest IH]; intros i H j Hj Hok; [simpl in Hj; lia|].
  cbn [table_justified_from] in H. apply andb_true_iff in H. destruct H as [Hb Hr].
  destruct j as [|j].
  - rewrite Nat.add_0_r in Hok. rewrite Hok in Hb. exact Hb.
  - cbn [nth]. apply (IH (S i) Hr j); [simpl in Hj; lia|].
    now replace (S i + j) with (i + S j) by lia.
Qed.

Lemma table_justified_body prog oks na f :
  table_justified prog oks na = true -> ok_in oks f = true ->
  safe (ok_in oks) na (body_in prog f) = true.
Proof.
  intros H Hok. unfold body_in. destruct (Nat.lt_ge_cases f (length prog)) as [Hlt|Hge].
  - now apply (table_justified_from_nth prog oks na 0 prog H f Hlt).
  - now rewrite nth_overflow.
Qed.

(* no reachable write: every execution of a statement the analyser accepts performs no write,
   whatever the opaque conditions, iteration counts, exceptions and callees do *)
Theorem safe_sound_gen prog oks na :
  table_justified prog oks na = true ->
  forall s o w, exec (body_in prog) na s o w -> safe (ok_in oks) na s = true -> w = [].
Proof.
  intros HT s o w He. induction He; cbn [safe]; intro Hs; try reflexivity; try discriminate;
    repeat match goal with
           | H : _ && _ = true |- _ => apply andb_true_iff in H; destruct H
           end; subst; auto.
  - (* seq normal *)
    match goal with H : _ || _ = true |- _ => apply orb_true_iff in H; destruct H as [Hn|Hb] end.
    + exfalso. now apply (never_normal_sound _ _ _ _ _ He1 Hn).
    + rewrite IHHe1, IHHe2 by assumption. reflexivity.
  - (* loop iteration, normal *)
    rewrite IHHe1 by assumption. rewrite IHHe2; [reflexivity|]. cbn [safe]. apply andb_true_iff. now split.
  - (* loop iteration, continue *)
    rewrite IHHe1 by assumption. rewrite IHHe2; [reflexivity|]. cbn [safe]. apply andb_true_iff. now split.
  - (* try, no handler *)
    rewrite IHHe1, IHHe2 by assumption. reflexivity.
  - (* try, handler *)
    rewrite IHHe1, IHHe2, IHHe3 by assumption. reflexivity.
  - (* call *) apply IHHe. now apply table_justified_body.
  - apply IHHe. now apply table_justified_body.
Qed.
