(* C11 - legacy Flavor= groups: Table._rewrite turns a group of Flavor= lines followed by
   commands (new style) and a Group: / Flavor= / Common: / End: block (old style) into
   exactly the lines of the if block over the disjunction of the flavors. *)
From Coq Require Import Lia.
From Eupsv Require Import Base.Base Base.BaseLemmas Model.Rx Model.Cond Model.Args Model.Legacy
  Model.Blocks Model.TableSpec Proofs.RxLib Proofs.CondEval Proofs.CondTok Proofs.ArgsRT
  Proofs.BlocksB Proofs.Lines.

(* ---------------------------------------------------------------- the condition text *)

Definition eq_text (f : str) : str := lit "FLAVOR == " ++ f.

Fixpoint cond_text_from (acc : str) (fs : list str) : str :=
  match fs with
  | [] => acc
  | f :: r => cond_text_from (acc ++ lit " || " ++ eq_text f) r
  end.
Definition cond_text (fs : list str) : str :=
  match fs with [] => [] | f :: r => cond_text_from (eq_text f) r end.

Lemma print_flavor_atom f : print_cond (flavor_atom f) = eq_text f.
Proof. unfold flavor_atom, eq_text. cbn. now rewrite app_nil_r. Qed.

Lemma print_disj_from acc fs :
  print_cond (flavor_disj_from acc fs) = cond_text_from (print_cond acc) fs.
Proof.
  revert acc. induction fs as [|f r IH]; intros acc; [reflexivity|].
  cbn [flavor_disj_from cond_text_from]. rewrite IH. f_equal.
  change (print_cond (Bin 1 1 BOr acc (flavor_atom f)))
    with (print_cond acc ++ sp 1 ++ pr_bin BOr ++ sp 1 ++ print_cond (flavor_atom f)).
  rewrite print_flavor_atom. reflexivity.
Qed.

Lemma print_disj fs : fs <> [] -> print_cond (flavor_disj fs) = cond_text fs.
Proof.
  destruct fs as [|f r]; [congruence|]. intros _. unfold flavor_disj, cond_text.
  now rewrite print_disj_from, print_flavor_atom.
Qed.

Lemma denote_disj_from e acc fs :
  denote e (flavor_disj_from acc fs) = denote e acc || mem_str (ce_flavor e) fs.
Proof.
  revert acc. induction fs as [|f r IH]; intros acc; [cbn; now rewrite orb_false_r|].
  cbn [flavor_disj_from mem_str]. rewrite IH. cbn [denote flavor_atom denote_atom].
  destruct (denote e acc), (str_eqb (ce_flavor e) f); reflexivity.
Qed.

Lemma denote_disj e fs : fs <> [] -> denote e (flavor_disj fs) = mem_str (ce_flavor e) fs.
Proof.
  destruct fs as [|f r]; [congruence|]. intros _. unfold flavor_disj. rewrite denote_disj_from.
  cbn [denote flavor_atom denote_atom mem_str]. destruct (str_eqb (ce_flavor e) f); reflexivity.
Qed.

Lemma wf_disj_from acc fs : wf_cond acc = true -> forallb wf_lit fs = true -> wf_cond (flavor_disj_from acc fs) = true.
Proof.
  revert acc. induction fs as [|f r IH]; intros acc Ha Hf; [exact Ha|].
  cbn [forallb] in Hf. apply andb_true_iff in Hf. destruct Hf as [H1 H2].
  cbn [flavor_disj_from]. apply IH; [|exact H2]. cbn [wf_cond flavor_atom]. now rewrite Ha, H1.
Qed.

Lemma wf_flavors_parts fs : wf_flavors fs = true ->
  fs <> [] /\ forallb wf_lit fs = true /\ forallb (fun f => negb (str_eqb (lower_str f) (lit "any"))) fs = true.
Proof.
  unfold wf_flavors. rewrite !andb_true_iff. intros [[H1 H2] H3]. repeat split; auto.
  destruct fs; [discriminate|congruence].
Qed.

Lemma wf_disj fs : wf_flavors fs = true -> wf_cond (flavor_disj fs) = true.
Proof.
  intros H. destruct (wf_flavors_parts fs H) as (Hn & Hl & _). destruct fs as [|f r]; [congruence|].
  cbn [forallb] in Hl. apply andb_true_iff in Hl. destruct Hl as [H1 H2].
  unfold flavor_disj. apply wf_disj_from; [|exact H2]. cbn [wf_cond flavor_atom]. now rewrite H1.
Qed.

(* ---------------------------------------------------------------- a Flavor= line *)

Lemma wf_lit_okl2 f : wf_lit f = true -> okl2 f = true /\ first_alpha f = true /\ forallb is_wordc f = true.
Proof.
  unfold wf_lit. rewrite !andb_true_iff. intros [[[Ha Hw] _] _]. repeat split; auto.
  eapply forallb_impl; [|exact Hw]. apply wordc_okc2.
Qed.

Lemma flavor_line_prep f : wf_lit f = true -> prep_line (flavor_line f) = flavor_line f.
Proof.
  intros H. destruct (wf_lit_okl2 f H) as (Ho & _).
  pose proof (prep_content [] (flavor_line f) [] eq_refl eq_refl) as P.
  cbn [app] in P. rewrite !app_nil_r in P. apply P; try reflexivity.
  unfold flavor_line. rewrite okl_app. rewrite (okl2_okl _ Ho). reflexivity.
Qed.

Lemma wordc_wdp c : is_wordc c = is_wdp c.
Proof. unfold is_wordc, is_wdp. destruct (is_word c); cbn [orb]; [reflexivity|apply orb_comm]. Qed.

Lemma flavor_line_key f rest : wf_lit f = true ->
  key_eq (lit "flavor") is_wdp (flavor_line f ++ rest) =
  match span is_wdp (f ++ rest) with ([], _) => None | (g, _) => Some g end.
Proof.
  intros H. destruct (wf_lit_okl2 f H) as (_ & Ha & _).
  unfold key_eq, flavor_line. rewrite <- app_assoc.
  change (lit "Flavor=" ++ f ++ rest) with (lit "Flavor" ++ c_eq :: f ++ rest).
  rewrite (ci_prefix_app (lit "flavor") (lit "Flavor") _ eq_refl).
  unfold drop_ws at 1. rewrite drop_while_stop by reflexivity. rewrite ascii_eqb_refl.
  destruct f as [|c f]; [discriminate|]. cbn [first_alpha] in Ha. cbn [app].
  unfold drop_ws. rewrite drop_while_stop; [reflexivity|].
  destruct (is_pyspace c) eqn:E; [|reflexivity]. destruct (pyspace_facts c E) as (_ & _ & W & _).
  destruct c as [[] [] [] [] [] [] [] []]; vm_compute in E, Ha; discriminate.
Qed.

Lemma flavor_line_key_exact f : wf_lit f = true -> key_eq (lit "flavor") is_wdp (flavor_line f) = Some f.
Proof.
  intros H. pose proof (flavor_line_key f [] H) as K. rewrite !app_nil_r in K. rewrite K.
  destruct (wf_lit_okl2 f H) as (_ & Ha & Hw).
  rewrite span_all by (eapply forallb_impl; [|exact Hw]; intros c Hc; now rewrite <- wordc_wdp).
  destruct f; [discriminate|reflexivity].
Qed.

Lemma flavor_line_facts f : wf_lit f = true ->
  key_eq (lit "file") is_word (flavor_line f) = None /\
  synonyms (flavor_line f) = flavor_line f /\
  key_eq (lit "action") is_wdp (flavor_line f) = None /\
  qualifiers_match (flavor_line f) = false /\
  key_colon (lit "group:") (flavor_line f) = false /\
  key_colon (lit "common:") (flavor_line f) = false /\
  key_colon (lit "end:") (flavor_line f) = false.
Proof.
  intros H. destruct (wf_lit_okl2 f H) as (Ho & _).
  assert (M : forall k, mismatch k (lit "flavor=") = true -> ci_prefix k (flavor_line f) = None).
  { intros k Hk. unfold flavor_line. apply ci_prefix_mismatch. exact Hk. }
  unfold key_eq, qualifiers_match, key_colon.
  rewrite !M by reflexivity. repeat split; try reflexivity.
  apply synonyms_id, okl2_no_syn. unfold flavor_line. rewrite okl2_app, Ho. reflexivity.
Qed.

(* new style, first Flavor= line of a group (not inside Group:) *)
Lemma rewrite_flavor_first f rest : wf_lit f = true ->
  rewrite_go false false NG0 [] (flavor_line f :: rest)
  = rewrite_go false false NGFlavors (eq_text f) rest.
Proof.
  intros H. destruct (flavor_line_facts f H) as (F1 & F2 & F3 & F4 & F5 & _).
  cbn [rewrite_go]. rewrite (flavor_line_prep f H).
  destruct (flavor_line f) as [|c0 l0] eqn:El; [discriminate El|]. rewrite <- El in *.
  rewrite F1. cbn [andb]. rewrite F2, F3, F4, F5, (flavor_line_key_exact f H).
  unfold eq_text. destruct (rewrite_go false false NGFlavors (lit "FLAVOR == " ++ f) rest); reflexivity.
Qed.

(* new style, a further Flavor= line *)
Lemma rewrite_flavor_more cond f rest : wf_lit f = true ->
  rewrite_go false false NGFlavors cond (flavor_line f :: rest)
  = rewrite_go false false NGFlavors (cond ++ lit " || " ++ eq_text f) rest.
Proof.
  intros H. destruct (flavor_line_facts f H) as (F1 & F2 & F3 & F4 & F5 & _).
  cbn [rewrite_go]. rewrite (flavor_line_prep f H).
  destruct (flavor_line f) as [|c0 l0] eqn:El; [discriminate El|]. rewrite <- El in *.
  rewrite F1. cbn [andb]. rewrite F2, F3, F4, F5, (flavor_line_key_exact f H).
  unfold eq_text. reflexivity.
Qed.

(* old style, a Flavor= line between Group: and Common: *)
Lemma rewrite_flavor_group cond f rest : wf_lit f = true -> str_eqb (lower_str f) (lit "any") = false ->
  rewrite_go false true NG0 cond (flavor_line f :: rest)
  = rewrite_go false true NG0 (cond ++ (match cond with [] => [] | _ => lit " || " end) ++ eq_text f) rest.
Proof.
  intros H Hany. destruct (flavor_line_facts f H) as (F1 & F2 & F3 & F4 & F5 & F6 & F7).
  cbn [rewrite_go]. rewrite (flavor_line_prep f H).
  destruct (flavor_line f) as [|c0 l0] eqn:El; [discriminate El|]. rewrite <- El in *.
  rewrite F1. cbn [andb]. rewrite F2, F3, F4, F5, F6, F7, (flavor_line_key_exact f H), Hany.
  unfold eq_text. reflexivity.
Qed.

Lemma rewrite_flavors_more cond fs rest : forallb wf_lit fs = true ->
  rewrite_go false false NGFlavors cond (map flavor_line fs ++ rest)
  = rewrite_go false false NGFlavors (cond_text_from cond fs) rest.
Proof.
  revert cond. induction fs as [|f r IH]; intros cond H; [reflexivity|].
  cbn [forallb] in H. apply andb_true_iff in H. destruct H as [H1 H2].
  cbn [map app cond_text_from]. rewrite rewrite_flavor_more by exact H1. now apply IH.
Qed.

Lemma rewrite_flavors_group cond fs rest :
  cond <> [] -> forallb wf_lit fs = true ->
  forallb (fun f => negb (str_eqb (lower_str f) (lit "any"))) fs = true ->
  rewrite_go false true NG0 cond (map flavor_line fs ++ rest)
  = rewrite_go false true NG0 (cond_text_from cond fs) rest.
Proof.
  revert cond. induction fs as [|f r IH]; intros cond Hc H Ha; [reflexivity|].
  cbn [forallb] in H, Ha. apply andb_true_iff in H. apply andb_true_iff in Ha.
  destruct H as [H1 H2]. destruct Ha as [A1 A2]. apply negb_true_iff in A1.
  cbn [map app cond_text_from]. rewrite rewrite_flavor_group by assumption.
  destruct cond as [|c0 cond']; [congruence|]. apply IH; auto. discriminate.
Qed.

(* ---------------------------------------------------------------- the first command after the Flavor= lines *)

Lemma rewrite_keep_flavors cond raw l h r rest :
  prep_line raw = l -> l = h ++ r -> nonempty l = true -> head_pass h = true -> no_syn l = true ->
  rewrite_go false false NGFlavors cond (raw :: rest)
  = bind (rewrite_go false false NGBody cond rest) (fun o => Ok (if_line cond :: l :: o)).
Proof.
  intros Hp Hl Hne Hh Hs. unfold head_pass, legacy_keys in Hh. cbn [forallb] in Hh.
  rewrite !andb_true_iff in Hh. destruct Hh as (K1 & K2 & K3 & K4 & K5 & K6 & K7 & _).
  cbn [rewrite_go]. rewrite Hp. destruct l as [|c0 l0] eqn:El; [discriminate|]. rewrite <- El in *.
  clear El. rewrite Hl at 1. rewrite (key_eq_mismatch _ _ h r K1). cbn [andb].
  rewrite (synonyms_id l Hs). rewrite Hl.
  rewrite (key_eq_mismatch _ _ h r K2).
  unfold qualifiers_match. rewrite (ci_prefix_mismatch _ h r K3).
  unfold key_colon. rewrite (ci_prefix_mismatch _ h r K4).
  rewrite (key_eq_mismatch _ _ h r K5). cbn [app]. reflexivity.
Qed.

Lemma rewrite_cmd_flavors cond c rest : wf_cmd c = true ->
  rewrite_go false false NGFlavors cond (cmd_lines c ++ rest)
  = bind (rewrite_go false false NGBody cond rest) (fun o => Ok (if_line cond :: cmd_out c :: o)).
Proof.
  intros H. destruct (wf_cmd_parts c H) as (_ & _ & Hj & [I1 I2] & _ & _ & Ha & _).
  destruct (cmd_core_ok c H) as [Hsp Hok Hf Hh Hs].
  unfold cmd_lines. rewrite <- app_assoc. cbn [app]. rewrite rewrite_junk by exact Hj.
  destruct (wf_after_split _ Ha) as (Wa & _).
  apply (rewrite_keep_flavors cond _ (cmd_out c) (cl_spell (c_lay c))
           ((cl_sp (c_lay c) ++ c_lp :: print_args (cl_args (c_lay c)) (c_args c) ++ c_rp :: cmd_tail c) ++ ws_of (cl_after (c_lay c)))).
  - unfold cmd_line, cmd_out. now apply prep_content.
  - unfold cmd_out. rewrite Hsp at 1. now rewrite <- app_assoc.
  - unfold cmd_out. destruct (cmd_core c); [discriminate|reflexivity].
  - exact Hh.
  - unfold cmd_out. now apply no_syn_app_ws.
Qed.

(* ---------------------------------------------------------------- the fixed lines of the old form *)

Lemma rewrite_group_line rest :
  rewrite_go false false NG0 [] (lit "Group:" :: rest) = rewrite_go false true NG0 [] rest.
Proof. reflexivity. Qed.

Lemma rewrite_common_line cond rest :
  rewrite_go false true NG0 cond (lit "Common:" :: rest)
  = bind (rewrite_go false true NG0 cond rest) (fun o => Ok (if_line cond :: o)).
Proof. reflexivity. Qed.

Lemma rewrite_end_line cond rest :
  rewrite_go false true NG0 cond (lit "End:" :: rest)
  = bind (rewrite_go false false NG0 cond rest) (fun o => Ok (lit "}" :: o)).
Proof. reflexivity. Qed.

Lemma rewrite_eof ig ng cond : rewrite_go false ig ng cond [[]] = match ng with NG0 => Ok [] | _ => Ok [lit "}"] end.
Proof. reflexivity. Qed.

(* ---------------------------------------------------------------- the three texts rewrite to the same lines *)

Definition group_out (fs : list str) (body : list cmd) : list str :=
  if_line (cond_text fs) :: map cmd_out body ++ [lit "}"].

Lemma flavor_line_nn f : wf_lit f = true -> no_newline (flavor_line f) = true.
Proof.
  intros H. destruct (wf_lit_okl2 f H) as (Ho & _). apply okl_no_newline. unfold flavor_line.
  rewrite okl_app, (okl2_okl _ Ho). reflexivity.
Qed.

Lemma flavor_lines_nn fs : forallb wf_lit fs = true -> Forall (fun l => no_newline l = true) (map flavor_line fs).
Proof.
  induction fs as [|f r IH]; cbn [forallb map]; [constructor|]. rewrite andb_true_iff. intros [H1 H2].
  constructor; [now apply flavor_line_nn|now apply IH].
Qed.

Lemma rewrite_new_group fs body :
  wf_flavors fs = true -> forallb wf_cmd body = true -> is_nil body = false ->
  rewrite (split_lines (print_new_group fs body)) = Ok (group_out fs body).
Proof.
  intros Hf Hb Hne. destruct (wf_flavors_parts fs Hf) as (Hn & Hl & _).
  unfold print_new_group, as_text. rewrite split_lines_print.
  2:{ apply Forall_app. split; [now apply flavor_lines_nn|now apply cmds_lines_nn]. }
  destruct fs as [|f fr]; [congruence|]. destruct body as [|c0 cr]; [discriminate|].
  cbn [forallb] in Hl, Hb. apply andb_true_iff in Hl. apply andb_true_iff in Hb.
  destruct Hl as [L1 L2]. destruct Hb as [B1 B2].
  unfold rewrite. cbn [map app]. rewrite rewrite_flavor_first by exact L1.
  rewrite <- app_assoc, rewrite_flavors_more by exact L2.
  cbn [flat_map]. rewrite <- !app_assoc. rewrite rewrite_cmd_flavors by exact B1.
  pose proof (emits_cmds cr B2 false NGBody (cond_text_from (eq_text f) fr) [[]]) as E. unfold R in E.
  rewrite E by discriminate. rewrite rewrite_eof. cbn [bind]. unfold group_out, cond_text. cbn [map app].
  reflexivity.
Qed.

Lemma rewrite_old_group fs body :
  wf_flavors fs = true -> forallb wf_cmd body = true ->
  rewrite (split_lines (print_old_group fs body)) = Ok (group_out fs body).
Proof.
  intros Hf Hb. destruct (wf_flavors_parts fs Hf) as (Hn & Hl & Ha).
  unfold print_old_group, as_text. rewrite split_lines_print.
  2:{ repeat (apply Forall_app; split); try (constructor; [reflexivity|constructor]).
      - now apply flavor_lines_nn.
      - now apply cmds_lines_nn. }
  destruct fs as [|f fr]; [congruence|].
  cbn [forallb] in Hl, Ha. apply andb_true_iff in Hl. apply andb_true_iff in Ha.
  destruct Hl as [L1 L2]. destruct Ha as [A1 A2]. apply negb_true_iff in A1.
  unfold rewrite. cbn [map app]. rewrite rewrite_group_line.
  rewrite rewrite_flavor_group by assumption. cbn [app].
  rewrite <- app_assoc, rewrite_flavors_group; auto.
  2:{ unfold eq_text. discriminate. }
  cbn [app]. rewrite rewrite_common_line.
  pose proof (emits_cmds body Hb true NG0 (cond_text_from (eq_text f) fr) (lit "End:" :: [[]])) as E.
  unfold R in E. rewrite <- app_assoc. cbn [app]. rewrite E by discriminate.
  rewrite rewrite_end_line, rewrite_eof. cbn [bind]. unfold group_out, cond_text. reflexivity.
Qed.

Lemma rewrite_chain fs body :
  wf_flavors fs = true -> forallb wf_cmd body = true ->
  let chain := [IChain (mkBranch (flavor_disj fs) body plain_blay) [] None plain_blay] in
  wf_items chain = true /\
  rewrite (split_lines (print_table chain)) = Ok (group_out fs body).
Proof.
  intros Hf Hb chain. destruct (wf_flavors_parts fs Hf) as (Hn & _).
  assert (W : wf_items chain = true).
  { unfold chain. cbn [wf_items forallb wf_item]. unfold wf_branch. cbn [b_cond b_body b_lay].
    rewrite (wf_disj fs Hf), Hb. reflexivity. }
  split; [exact W|].
  unfold print_table. rewrite split_lines_print.
  2:{ apply Forall_flat_map. intros i Hi. apply item_lines_nn. unfold wf_items in W. rewrite forallb_forall in W. now apply W. }
  unfold rewrite. pose proof (emits_items chain W false NG0 [] [[]]) as E. unfold R in E. rewrite E by discriminate.
  rewrite rewrite_eof. cbn [bind]. rewrite app_nil_r.
  unfold chain. cbn [flat_map item_outs b_lay b_body app]. rewrite !app_nil_r.
  unfold brace_out. cbn [bl_after plain_blay]. unfold ws_of. cbn [span fst]. rewrite !app_nil_r.
  unfold group_out. rewrite <- (print_disj fs Hn).
  unfold if_core, if_line, close_core. cbn [b_lay b_cond plain_blay bl_s1 bl_s2].
  reflexivity.
Qed.

(* ---------------------------------------------------------------- the theorem *)

Lemma legacy_groups top e fs body :
  wf_env e = true -> wf_flavors fs = true -> forallb wf_cmd body = true -> is_nil body = false ->
  let chain := [IChain (mkBranch (flavor_disj fs) body plain_blay) [] None plain_blay] in
  read_text true true top (print_new_group fs body) = read_text true true top (print_table chain) /\
  read_text true true top (print_old_group fs body) = read_text true true top (print_table chain) /\
  table_actions true true top (print_new_group fs body) e
  = Ok (if mem_str (ce_flavor e) fs then denote_body top body else []) /\
  table_actions true true top (print_old_group fs body) e
  = Ok (if mem_str (ce_flavor e) fs then denote_body top body else []).
Proof.
  intros He Hf Hb Hne chain.
  destruct (rewrite_chain fs body Hf Hb) as [W RC]. fold chain in W, RC.
  pose proof (rewrite_new_group fs body Hf Hb Hne) as RN.
  pose proof (rewrite_old_group fs body Hf Hb) as RO.
  destruct (wf_flavors_parts fs Hf) as (Hn & _).
  assert (E1 : read_text true true top (print_new_group fs body) = read_text true true top (print_table chain)).
  { unfold read_text. now rewrite RN, RC. }
  assert (E2 : read_text true true top (print_old_group fs body) = read_text true true top (print_table chain)).
  { unfold read_text. now rewrite RO, RC. }
  assert (A : table_actions true true top (print_table chain) e
              = Ok (if mem_str (ce_flavor e) fs then denote_body top body else [])).
  { unfold table_actions. rewrite (read_text_print true top chain W). unfold read_blocks_sel.
    rewrite (read_blocks_r_items top (fun c Hc => split_print_args _ _ (proj1 (proj2 (wf_cmd_parts c Hc)))) chain W).
    cbn [bind].
    assert (Hcond : forall c, wf_cond c = true -> eval_cond true e (print_cond c) = Ok (denote e c)).
    { intros c Hc. unfold eval_cond, eval_value. rewrite (tokenize_print_cond c Hc), (eval_tokens_sound e He c Hc). reflexivity. }
    rewrite (select_compile top e Hcond chain [] W). cbn [app].
    unfold chain, denote_items. cbn [flat_map denote_item pick_branch b_cond b_body]. rewrite app_nil_r.
    now rewrite (denote_disj e fs Hn). }
  repeat split; auto.
  - unfold table_actions in *. now rewrite E1.
  - unfold table_actions in *. now rewrite E2.
Qed.
