(* C11 - legacy table files in full: every line kind Table._rewrite recognises (Group: /
   Common: / End:, Flavor =, Qualifiers =, Action =, File =, Product =, blank and comment
   lines) in every position its state machine allows.  The text of a legacy file
   (Model/LegacySpec.v) is rewritten to exactly the lines of the corresponding if blocks. *)
From Coq Require Import Lia.
From Eupsv Require Import Base.Base Base.BaseLemmas Model.Rx Model.Cond Model.Args Model.Legacy
  Model.Blocks Model.TableSpec Model.LegacySpec Proofs.RxLib Proofs.CondEval Proofs.CondTok Proofs.ArgsRT
  Proofs.BlocksB Proofs.Lines Proofs.LegacyEq.

(* ---------------------------------------------------------------- characters *)

Lemma plain_okc2 c : plain_char c = true -> okc2 c = true.
Proof.
  unfold plain_char, okc2, okc. destruct (ascii_eqb c c_hash), (ascii_eqb c c_nl), (ascii_eqb c (chr 13)), (ascii_eqb c c_dollar);
    cbn; congruence.
Qed.

Lemma plain_okl2 s : forallb plain_char s = true -> okl2 s = true.
Proof. apply forallb_impl. exact plain_okc2. Qed.

Lemma ws_ok_parts s : ws_ok s = true -> all_ws s = true /\ no_newline s = true.
Proof. unfold ws_ok. now rewrite andb_true_iff. Qed.

Lemma ws_ok_okl2 s : ws_ok s = true -> okl2 s = true.
Proof. intros H. destruct (ws_ok_parts s H). now apply ws_okl2. Qed.

Lemma pyspace_not_wdp c : is_pyspace c = true -> is_wdp c = false.
Proof. destruct c as [[] [] [] [] [] [] [] []]; vm_compute; intros H; try discriminate H; reflexivity. Qed.

Lemma pyspace_not_word c : is_pyspace c = true -> is_word c = false.
Proof. intros H. now destruct (pyspace_facts c H) as (_ & _ & W & _). Qed.

Lemma word_wdp c : is_word c = true -> is_wdp c = true.
Proof. unfold is_wdp. intros ->. reflexivity. Qed.

Lemma wdp_okl2 s : forallb is_wdp s = true -> okl2 s = true.
Proof. apply forallb_impl. intros c H. apply wordc_okc2. now rewrite wordc_wdp. Qed.

Lemma word_okl2 s : forallb is_word s = true -> okl2 s = true.
Proof. intros H. apply wdp_okl2. eapply forallb_impl; [|exact H]. exact word_wdp. Qed.

Lemma wf_key_parts word key : wf_key word key = true ->
  lower_str key = word /\ okl2 key = true /\ starts_nonblank key = true.
Proof.
  unfold wf_key. rewrite !andb_true_iff. intros [[H1 H2] H3]. repeat split; auto.
  - now apply str_eqb_eq.
  - now apply plain_okl2.
Qed.

(* ---------------------------------------------------------------- a line  key = value *)

Lemma keyed_okl2 key s1 s2 v :
  okl2 key = true -> ws_ok s1 = true -> ws_ok s2 = true -> okl2 v = true -> okl2 (keyed_core key s1 s2 v) = true.
Proof.
  intros Hk H1 H2 Hv. unfold keyed_core. rewrite !okl2_app. cbn [okl2 forallb]. fold (okl2 (s2 ++ v)).
  rewrite okl2_app, Hk, (ws_ok_okl2 _ H1), (ws_ok_okl2 _ H2), Hv. reflexivity.
Qed.

(* what is left of a line  indent core after  whose core starts with a key word *)
Lemma headed_prep indent key r after :
  ws_ok indent = true -> starts_nonblank key = true -> okl2 (key ++ r) = true -> wf_after after = true ->
  let l := (key ++ r) ++ ws_of after in
  prep_line (indent ++ (key ++ r) ++ after) = l /\ no_syn l = true /\ nonempty l = true.
Proof.
  intros Hi Hs Ho Ha l. destruct (ws_ok_parts _ Hi) as [I1 I2]. split; [|split].
  - apply prep_content; auto using okl2_okl. destruct key; [discriminate|exact Hs].
  - apply no_syn_app_ws; [now apply ws_of_ws|now apply okl2_no_syn].
  - unfold l. destruct key; [discriminate|reflexivity].
Qed.

Lemma key_eq_hit kw cls key s1 s2 val w :
  lower_str key = kw -> all_ws s1 = true -> all_ws s2 = true ->
  nonempty val = true -> forallb cls val = true -> (forall c, is_pyspace c = true -> cls c = false) ->
  all_ws w = true ->
  key_eq kw cls (keyed_core key s1 s2 val ++ w) = Some val.
Proof.
  intros Hk H1 H2 Hn Hv Hc Hw. unfold key_eq, keyed_core. rewrite <- app_assoc.
  rewrite (ci_prefix_app kw key _ Hk). rewrite <- app_assoc. rewrite drop_ws_app by exact H1.
  cbn [app]. unfold drop_ws at 1. rewrite drop_while_stop by reflexivity. rewrite ascii_eqb_refl.
  rewrite <- app_assoc. rewrite drop_ws_app by exact H2.
  destruct val as [|v0 val]; [discriminate|]. cbn [forallb] in Hv. apply andb_true_iff in Hv. destruct Hv as [Hv0 Hv].
  assert (E0 : is_pyspace v0 = false).
  { destruct (is_pyspace v0) eqn:E; [|reflexivity]. rewrite (Hc v0 E) in Hv0. discriminate. }
  cbn [app]. unfold drop_ws. rewrite drop_while_stop by exact E0.
  change (v0 :: val ++ w) with ((v0 :: val) ++ w).
  destruct w as [|x w].
  - rewrite app_nil_r, span_all; [reflexivity|]. cbn [forallb]. now rewrite Hv0, Hv.
  - cbn [all_ws forallb] in Hw. apply andb_true_iff in Hw. destruct Hw as [Hx _].
    rewrite span_app; [reflexivity| |apply Hc, Hx]. cbn [forallb]. now rewrite Hv0, Hv.
Qed.

Lemma key_miss k cls key r kw : lower_str key = kw -> mismatch k kw = true -> key_eq k cls (key ++ r) = None.
Proof. intros <- H. now apply key_eq_mismatch. Qed.

Lemma colon_miss k key r kw : lower_str key = kw -> mismatch k kw = true -> key_colon k (key ++ r) = false.
Proof. intros <- H. unfold key_colon. now rewrite (ci_prefix_mismatch k key r H). Qed.

Lemma qual_miss key r kw : lower_str key = kw -> mismatch (lit "qualifiers") kw = true -> qualifiers_match (key ++ r) = false.
Proof. intros <- H. unfold qualifiers_match. now rewrite (ci_prefix_mismatch _ key r H). Qed.

Lemma key_miss2 k cls key r w kw : lower_str key = kw -> mismatch k kw = true -> key_eq k cls ((key ++ r) ++ w) = None.
Proof. intros H1 H2. rewrite <- app_assoc. now apply (key_miss k cls key _ kw). Qed.
Lemma colon_miss2 k key r w kw : lower_str key = kw -> mismatch k kw = true -> key_colon k ((key ++ r) ++ w) = false.
Proof. intros H1 H2. rewrite <- app_assoc. now apply (colon_miss k key _ kw). Qed.
Lemma qual_miss2 key r w kw : lower_str key = kw -> mismatch (lit "qualifiers") kw = true -> qualifiers_match ((key ++ r) ++ w) = false.
Proof. intros H1 H2. rewrite <- app_assoc. now apply (qual_miss key _ kw). Qed.

Lemma colon_hit kw key w : lower_str key = kw -> all_ws w = true -> key_colon kw (key ++ w) = true.
Proof. intros Hk Hw. unfold key_colon. now rewrite (ci_prefix_app kw key w Hk). Qed.

Lemma qual_hit key s1 s2 val w :
  lower_str key = lit "qualifiers" -> all_ws s1 = true -> all_ws s2 = true ->
  forallb (fun c => negb (ascii_eqb c c_dq)) val = true ->
  qualifiers_match (keyed_core key s1 s2 (c_dq :: val ++ [c_dq]) ++ w) = true.
Proof.
  intros Hk H1 H2 Hv. unfold qualifiers_match, keyed_core. rewrite <- app_assoc.
  rewrite (ci_prefix_app _ key _ Hk). rewrite <- app_assoc. rewrite drop_ws_app by exact H1.
  cbn [app]. unfold drop_ws at 1. rewrite drop_while_stop by reflexivity. rewrite ascii_eqb_refl.
  rewrite <- app_assoc. rewrite drop_ws_app by exact H2.
  cbn [app]. unfold drop_ws. rewrite drop_while_stop by reflexivity. rewrite ascii_eqb_refl.
  rewrite <- app_assoc. cbn [app]. rewrite span_app; [reflexivity|exact Hv|]. now rewrite ascii_eqb_refl.
Qed.

Lemma rewrite_skip_any o ig ng cond raw rest :
  prep_line raw = [] -> rewrite_go o ig ng cond (raw :: rest) = rewrite_go o ig ng cond rest.
Proof. intros H. cbn [rewrite_go]. now rewrite H. Qed.

(* ---------------------------------------------------------------- ignorable lines: dropped in every state *)

Ltac open_line Hp :=
  cbn [rewrite_go]; rewrite Hp;
  match goal with |- context [match ?l with [] => _ | _ :: _ => _ end] =>
    let El := fresh "El" in destruct l eqn:El; [discriminate|]; rewrite <- El in *; clear El end.

Ltac rwk H := let X := fresh "X" in pose proof H as X; unfold keyed_core in X; rewrite X; clear X.

Lemma rewrite_ign P g : wf_ign P g = true -> forall o ig ng cond rest, (P = true -> o = true) ->
  rewrite_go o ig ng cond (ign_line g :: rest) = rewrite_go (o || is_file_ign g) ig ng cond rest.
Proof.
  intros Hw o ig ng cond rest HP. destruct g as [s|k indent key s1 s2 val after].
  - cbn [ign_line is_file_ign]. rewrite orb_false_r. apply rewrite_skip_any. now apply prep_junk.
  - cbn [wf_ign] in Hw. rewrite !andb_true_iff in Hw. destruct Hw as [[[[[Hi H1] H2] Ha] Hk] Hv].
    destruct (wf_key_parts _ _ Hk) as (Kl & Ko & Ks).
    destruct (ws_ok_parts _ H1) as [A1 _]. destruct (ws_ok_parts _ H2) as [A2 _].
    assert (Ww : all_ws (ws_of after) = true) by now apply ws_of_ws.
    assert (Ov : okl2 (ign_val k val) = true).
    { destruct k; cbn [ign_val]; rewrite ?andb_true_iff in Hv.
      - apply word_okl2. tauto.
      - apply word_okl2. tauto.
      - apply wdp_okl2. tauto.
      - destruct Hv as [Hv _]. cbn [okl2 forallb]. fold (okl2 (val ++ [c_dq])). rewrite okl2_app, (plain_okl2 _ Hv). reflexivity. }
    pose proof (keyed_okl2 key s1 s2 _ Ko H1 H2 Ov) as Oc.
    cbn [ign_line]. unfold keyed_core in *.
    destruct (headed_prep indent key (s1 ++ c_eq :: s2 ++ ign_val k val) after Hi Ks Oc Ha) as (Hp & Hs & Hn).
    set (l := (key ++ s1 ++ c_eq :: s2 ++ ign_val k val) ++ ws_of after) in *.
    destruct k; cbn [ign_val ikind_key is_file_ign] in *.
    + (* File = Table *)
      apply andb_true_iff in Hv. destruct Hv as [Vw Vt].
      assert (Vn : nonempty val = true) by (destruct val; [discriminate Vt|reflexivity]).
      open_line Hp. unfold l.
      rwk (key_eq_hit (lit "file") is_word key s1 s2 val (ws_of after) Kl A1 A2 Vn Vw pyspace_not_word Ww).
      rewrite Vt. now rewrite orb_true_r.
    + (* Product = name *)
      rewrite !andb_true_iff in Hv. destruct Hv as [[Vp Vn] Vw]. rewrite (HP Vp). cbn [orb].
      open_line Hp. unfold l. rewrite (key_miss2 (lit "file") _ key _ _ _ Kl eq_refl).
      rwk (key_eq_hit (lit "product") is_word key s1 s2 val (ws_of after) Kl A1 A2 Vn Vw pyspace_not_word Ww).
      reflexivity.
    + (* Action = setup *)
      rewrite !andb_true_iff in Hv. destruct Hv as [[Vn Vw] Vs]. rewrite orb_false_r.
      open_line Hp. rewrite (synonyms_id l Hs). unfold l.
      rewrite (key_miss2 (lit "file") _ key _ _ _ Kl eq_refl), (key_miss2 (lit "product") _ key _ _ _ Kl eq_refl). rewrite andb_false_r.
      rwk (key_eq_hit (lit "action") is_wdp key s1 s2 val (ws_of after) Kl A1 A2 Vn Vw pyspace_not_wdp Ww).
      now rewrite Vs.
    + (* Qualifiers = "" *)
      apply andb_true_iff in Hv. destruct Hv as [_ Vq]. rewrite orb_false_r.
      open_line Hp. rewrite (synonyms_id l Hs). unfold l.
      rewrite (key_miss2 (lit "file") _ key _ _ _ Kl eq_refl), (key_miss2 (lit "product") _ key _ _ _ Kl eq_refl). rewrite andb_false_r.
      rewrite (key_miss2 (lit "action") _ key _ _ _ Kl eq_refl).
      rwk (qual_hit key s1 s2 val (ws_of after) Kl A1 A2 Vq). reflexivity.
Qed.

Lemma rewrite_igns P gs : forallb (wf_ign P) gs = true -> forall o ig ng cond rest, (P = true -> o = true) ->
  rewrite_go o ig ng cond (map ign_line gs ++ rest) = rewrite_go (o || has_file gs) ig ng cond rest.
Proof.
  induction gs as [|g gs IH]; intros Hw o ig ng cond rest HP.
  - cbn [map app has_file existsb]. now rewrite orb_false_r.
  - cbn [forallb] in Hw. apply andb_true_iff in Hw. destruct Hw as [H1 H2].
    cbn [map app]. rewrite (rewrite_ign P g H1) by exact HP.
    rewrite (IH H2). 2:{ intros Hp. now rewrite (HP Hp). }
    unfold has_file. cbn [existsb]. now rewrite orb_assoc.
Qed.

(* ---------------------------------------------------------------- kept lines, whatever has been seen of File = *)

Definition pm (h : str) : bool := mismatch (lit "product") (lower_str h).

Lemma rewrite_keepO o ig ng cond raw l h r rest :
  ng <> NGFlavors ->
  prep_line raw = l -> l = h ++ r -> nonempty l = true -> head_pass h = true -> pm h = true -> no_syn l = true ->
  rewrite_go o ig ng cond (raw :: rest)
  = bind (rewrite_go o ig ng cond rest) (fun out => Ok (l :: out)).
Proof.
  intros Hng Hp Hl Hne Hh Hpm Hs. unfold head_pass, legacy_keys in Hh. cbn [forallb] in Hh.
  rewrite !andb_true_iff in Hh. destruct Hh as (K1 & K2 & K3 & K4 & K5 & K6 & K7 & _).
  open_line Hp. rewrite (synonyms_id l Hs). rewrite Hl.
  rewrite (key_eq_mismatch _ _ h r K1), (key_eq_mismatch _ _ h r Hpm), andb_false_r.
  rewrite (key_eq_mismatch _ _ h r K2).
  unfold qualifiers_match. rewrite (ci_prefix_mismatch _ h r K3).
  unfold key_colon. rewrite (ci_prefix_mismatch _ h r K4), (ci_prefix_mismatch _ h r K6), (ci_prefix_mismatch _ h r K7).
  rewrite (key_eq_mismatch _ _ h r K5). cbn [app].
  destruct ig, ng; try congruence; reflexivity.
Qed.

(* the first line of the body of a new-style group opens the if block *)
Lemma rewrite_keepO_flavors o cond raw l h r rest :
  prep_line raw = l -> l = h ++ r -> nonempty l = true -> head_pass h = true -> pm h = true -> no_syn l = true ->
  rewrite_go o false NGFlavors cond (raw :: rest)
  = bind (rewrite_go o false NGBody cond rest) (fun out => Ok (if_line cond :: l :: out)).
Proof.
  intros Hp Hl Hne Hh Hpm Hs. unfold head_pass, legacy_keys in Hh. cbn [forallb] in Hh.
  rewrite !andb_true_iff in Hh. destruct Hh as (K1 & K2 & K3 & K4 & K5 & K6 & K7 & _).
  open_line Hp. rewrite (synonyms_id l Hs). rewrite Hl.
  rewrite (key_eq_mismatch _ _ h r K1), (key_eq_mismatch _ _ h r Hpm), andb_false_r.
  rewrite (key_eq_mismatch _ _ h r K2).
  unfold qualifiers_match. rewrite (ci_prefix_mismatch _ h r K3).
  unfold key_colon. rewrite (ci_prefix_mismatch _ h r K4).
  rewrite (key_eq_mismatch _ _ h r K5). cbn [app]. reflexivity.
Qed.

Lemma rewrite_junkO o ig ng cond junk rest :
  forallb wf_junk junk = true ->
  rewrite_go o ig ng cond (junk ++ rest) = rewrite_go o ig ng cond rest.
Proof.
  induction junk as [|j junk IH]; [reflexivity|]. cbn [forallb]. rewrite andb_true_iff. intros [H1 H2].
  cbn [app]. rewrite rewrite_skip_any by (apply prep_junk, H1). now apply IH.
Qed.

Definition emitsO (X Y : list str) : Prop :=
  forall o ig ng cond rest, ng <> NGFlavors ->
    rewrite_go o ig ng cond (X ++ rest) = bind (rewrite_go o ig ng cond rest) (fun out => Ok (Y ++ out)).

Lemma emitsO_nil : emitsO [] [].
Proof. intros o ig ng cd rest _. cbn [app]. destruct (rewrite_go o ig ng cd rest); reflexivity. Qed.

Lemma emitsO_app X1 Y1 X2 Y2 : emitsO X1 Y1 -> emitsO X2 Y2 -> emitsO (X1 ++ X2) (Y1 ++ Y2).
Proof.
  intros H1 H2 o ig ng cd rest Hng. rewrite <- app_assoc, H1, H2 by exact Hng.
  destruct (rewrite_go o ig ng cd rest); cbn [bind]; [|reflexivity]. now rewrite app_assoc.
Qed.

Lemma emitsO_flat_map {A} (f g : A -> list str) l :
  (forall x, In x l -> emitsO (f x) (g x)) -> emitsO (flat_map f l) (flat_map g l).
Proof.
  induction l as [|x l IH]; intros H; [apply emitsO_nil|]. cbn [flat_map].
  apply emitsO_app; [apply H; left; reflexivity|]. apply IH. intros y Hy. apply H. right. exact Hy.
Qed.

Lemma emitsO_line junk indent core h r after :
  forallb wf_junk junk = true -> all_ws indent = true -> no_newline indent = true ->
  core_ok core h r -> pm h = true -> wf_after after = true ->
  emitsO (junk ++ [indent ++ core ++ after]) [core ++ ws_of after].
Proof.
  intros Hj Hi Hn [Hsp Hok Hf Hh Hs] Hpm Ha o ig ng cd rest Hng. rewrite <- app_assoc. cbn [app].
  rewrite rewrite_junkO by exact Hj. destruct (wf_after_split after Ha) as (Wa & _).
  apply (rewrite_keepO _ _ _ _ _ _ h (r ++ ws_of after)); auto.
  - now apply prep_content.
  - now rewrite Hsp, app_assoc.
  - destruct core; [discriminate|reflexivity].
  - now apply no_syn_app_ws.
Qed.

Lemma spell_pm c : wf_cmd c = true -> pm (cl_spell (c_lay c)) = true.
Proof.
  intros H. destruct (wf_cmd_parts c H) as (Hs & _). apply str_eqb_eq in Hs. unfold pm. rewrite Hs.
  destruct (c_kind c); reflexivity.
Qed.

Lemma emitsO_cmd c : wf_cmd c = true -> emitsO (cmd_lines c) [cmd_out c].
Proof.
  intros H. destruct (wf_cmd_parts c H) as (_ & _ & Hj & [I1 I2] & _ & _ & Ha & _).
  unfold cmd_lines, cmd_line, cmd_out. eapply emitsO_line; eauto using cmd_core_ok, spell_pm.
Qed.

Lemma emitsO_cmds body : forallb wf_cmd body = true -> emitsO (flat_map cmd_lines body) (map cmd_out body).
Proof.
  intros H. rewrite <- flat_map_singleton.
  apply emitsO_flat_map. intros c Hc. apply emitsO_cmd. rewrite forallb_forall in H. now apply H.
Qed.

Lemma emitsO_brace l core h r : wf_bracelay l = true -> core_ok core h r -> pm h = true ->
  emitsO (brace_line l core) [brace_out l core].
Proof.
  intros Hl Hc Hpm. destruct (wf_bracelay_parts _ Hl) as (Hj & [I1 I2] & _ & _ & _ & _ & Ha).
  unfold brace_line, brace_out. eapply emitsO_line; eauto.
Qed.

Lemma emitsO_item i : wf_item i = true -> emitsO (item_lines i) (item_outs i).
Proof.
  destruct i as [c|b0 elifs els cl]; cbn [wf_item item_lines item_outs].
  - apply emitsO_cmd.
  - rewrite !andb_true_iff. intros [[[Hb0 Hel] Hels] Hcl].
    destruct (wf_branch_parts _ Hb0) as (_ & Hc0 & Hl0).
    apply emitsO_app; [apply (emitsO_brace _ _ _ _ Hl0 (if_core_ok b0 Hb0) eq_refl)|].
    apply emitsO_app; [apply emitsO_cmds, Hc0|].
    apply emitsO_app.
    { apply emitsO_flat_map. intros b Hb. rewrite forallb_forall in Hel. specialize (Hel b Hb).
      destruct (wf_branch_parts _ Hel) as (_ & Hcb & Hlb).
      destruct (elif_core_ok b Hel) as (r & Hok & _).
      apply emitsO_app; [apply (emitsO_brace _ _ _ _ Hlb Hok eq_refl)|apply emitsO_cmds, Hcb]. }
    apply emitsO_app.
    { destruct els as [[eb el]|]; [|apply emitsO_nil]. apply andb_true_iff in Hels. destruct Hels as [He1 He2].
      destruct (else_core_ok el He2) as (r & Hok & _).
      apply emitsO_app; [apply (emitsO_brace _ _ _ _ He2 Hok eq_refl)|apply emitsO_cmds, He1]. }
    apply (emitsO_brace _ _ _ _ Hcl close_core_ok eq_refl).
Qed.

(* ---------------------------------------------------------------- Flavor = lines *)

Lemma rewrite_flav_line P f : wf_flav P f = true -> wf_lit (fl_name f) = true ->
  forall o ig ng cond rest,
  rewrite_go o ig ng cond (flav_line f :: rest) =
    let g := fl_name f in
    if ig then
      rewrite_go o ig ng (cond ++ (match cond with [] => [] | _ => lit " || " end) ++
                          (if str_eqb (lower_str g) (lit "any") then lit "FLAVOR =~ .*" else lit "FLAVOR == " ++ g)) rest
    else match ng with
         | NGFlavors => rewrite_go o ig ng (cond ++ lit " || FLAVOR == " ++ g) rest
         | _ => bind (rewrite_go o ig NGFlavors (lit "FLAVOR == " ++ g) rest)
                     (fun out => Ok ((match ng with NGBody => [lit "}"] | _ => [] end) ++ out))
         end.
Proof.
  intros Hw Hlit o ig ng cond rest. destruct f as [pre indent key s1 s2 name after].
  unfold wf_flav in Hw. cbn [fl_pre fl_indent fl_key fl_s1 fl_s2 fl_name fl_after] in *.
  rewrite !andb_true_iff in Hw. destruct Hw as [[[[[_ Hi] H1] H2] Ha] Hk].
  destruct (wf_key_parts _ _ Hk) as (Kl & Ko & Ks).
  destruct (ws_ok_parts _ H1) as [A1 _]. destruct (ws_ok_parts _ H2) as [A2 _].
  assert (Ww : all_ws (ws_of after) = true) by now apply ws_of_ws.
  destruct (wf_lit_okl2 name Hlit) as (On & Fa & Fw).
  assert (Nn : nonempty name = true) by (destruct name; [discriminate Fa|reflexivity]).
  assert (Nw : forallb is_wdp name = true).
  { eapply forallb_impl; [|exact Fw]. intros c Hc. now rewrite <- wordc_wdp. }
  pose proof (keyed_okl2 key s1 s2 _ Ko H1 H2 On) as Oc.
  unfold flav_line. cbn [fl_pre fl_indent fl_key fl_s1 fl_s2 fl_name fl_after]. unfold keyed_core in *.
  destruct (headed_prep indent key (s1 ++ c_eq :: s2 ++ name) after Hi Ks Oc Ha) as (Hp & Hs & Hn).
  set (l := (key ++ s1 ++ c_eq :: s2 ++ name) ++ ws_of after) in *.
  open_line Hp. rewrite (synonyms_id l Hs). unfold l.
  rewrite (key_miss2 (lit "file") _ key _ _ _ Kl eq_refl), (key_miss2 (lit "product") _ key _ _ _ Kl eq_refl), andb_false_r.
  rewrite (key_miss2 (lit "action") _ key _ _ _ Kl eq_refl).
  rewrite (qual_miss2 key _ _ _ Kl eq_refl).
  rewrite (colon_miss2 (lit "group:") key _ _ _ Kl eq_refl), (colon_miss2 (lit "common:") key _ _ _ Kl eq_refl),
    (colon_miss2 (lit "end:") key _ _ _ Kl eq_refl).
  rwk (key_eq_hit (lit "flavor") is_wdp key s1 s2 name (ws_of after) Kl A1 A2 Nn Nw pyspace_not_wdp Ww).
  destruct ig, ng; reflexivity.
Qed.

Definition flavs_file (fs : list flav) : bool := existsb (fun f => has_file (fl_pre f)) fs.
Definition bcmds_file (bs : list bcmd) : bool := existsb (fun b => has_file (bc_pre b)) bs.

Lemma wf_flav_pre P f : wf_flav P f = true -> forallb (wf_ign P) (fl_pre f) = true.
Proof. unfold wf_flav. rewrite !andb_true_iff. tauto. Qed.

Lemma HPor (P o h : bool) : (P = true -> o = true) -> P = true -> o || h = true.
Proof. intros H Hp. now rewrite (H Hp). Qed.

(* further Flavor = lines of a new-style group *)
Lemma rewrite_flavs_more P fs : forallb (wf_flav P) fs = true -> forallb wf_lit (map fl_name fs) = true ->
  forall o cond rest, (P = true -> o = true) ->
  rewrite_go o false NGFlavors cond (flat_map flav_lines fs ++ rest)
  = rewrite_go (o || flavs_file fs) false NGFlavors (cond_text_from cond (map fl_name fs)) rest.
Proof.
  induction fs as [|f fs IH]; intros Hw Hl o cond rest HP.
  - cbn. now rewrite orb_false_r.
  - cbn [forallb map] in Hw, Hl. apply andb_true_iff in Hw. apply andb_true_iff in Hl.
    destruct Hw as [W1 W2]. destruct Hl as [L1 L2].
    cbn [flat_map]. unfold flav_lines at 1. rewrite <- !app_assoc.
    rewrite (rewrite_igns P _ (wf_flav_pre P f W1)) by exact HP. cbn [app].
    rewrite (rewrite_flav_line P f W1 L1). cbn zeta.
    rewrite (IH W2 L2) by (now apply HPor). cbn [map cond_text_from flavs_file existsb].
    rewrite orb_assoc. reflexivity.
Qed.

(* the Flavor = lines that open a new-style group *)
Lemma rewrite_flavs_open P fs : forallb (wf_flav P) fs = true -> wf_flavors (map fl_name fs) = true ->
  forall o ng cond rest, ng <> NGFlavors -> (P = true -> o = true) ->
  rewrite_go o false ng cond (flat_map flav_lines fs ++ rest)
  = bind (rewrite_go (o || flavs_file fs) false NGFlavors (cond_text (map fl_name fs)) rest)
         (fun out => Ok ((match ng with NGBody => [lit "}"] | _ => [] end) ++ out)).
Proof.
  intros Hw Hf o ng cond rest Hng HP. destruct (wf_flavors_parts _ Hf) as (Hn & Hl & _).
  destruct fs as [|f fs]; [now elim Hn|].
  cbn [forallb map] in Hw, Hl. apply andb_true_iff in Hw. apply andb_true_iff in Hl.
  destruct Hw as [W1 W2]. destruct Hl as [L1 L2].
  cbn [flat_map]. unfold flav_lines at 1. rewrite <- !app_assoc.
  rewrite (rewrite_igns P _ (wf_flav_pre P f W1)) by exact HP. cbn [app].
  rewrite (rewrite_flav_line P f W1 L1). cbn zeta.
  assert (E : rewrite_go (o || has_file (fl_pre f)) false NGFlavors (lit "FLAVOR == " ++ fl_name f) (flat_map flav_lines fs ++ rest)
              = rewrite_go (o || flavs_file (f :: fs)) false NGFlavors (cond_text (map fl_name (f :: fs))) rest).
  { rewrite (rewrite_flavs_more P fs W2 L2) by (now apply HPor). cbn [map cond_text flavs_file existsb].
    rewrite orb_assoc. reflexivity. }
  destruct ng; try congruence; rewrite E; reflexivity.
Qed.

(* the Flavor = lines between Group: and Common: *)
Lemma rewrite_flavs_group P fs : forallb (wf_flav P) fs = true -> forallb wf_lit (map fl_name fs) = true ->
  forallb (fun f => negb (str_eqb (lower_str f) (lit "any"))) (map fl_name fs) = true ->
  forall o ng cond rest, cond <> [] -> (P = true -> o = true) ->
  rewrite_go o true ng cond (flat_map flav_lines fs ++ rest)
  = rewrite_go (o || flavs_file fs) true ng (cond_text_from cond (map fl_name fs)) rest.
Proof.
  induction fs as [|f fs IH]; intros Hw Hl Ha o ng cond rest Hc HP.
  - cbn. now rewrite orb_false_r.
  - cbn [forallb map] in Hw, Hl, Ha. apply andb_true_iff in Hw. apply andb_true_iff in Hl. apply andb_true_iff in Ha.
    destruct Hw as [W1 W2]. destruct Hl as [L1 L2]. destruct Ha as [A1 A2]. apply negb_true_iff in A1.
    cbn [flat_map]. unfold flav_lines at 1. rewrite <- !app_assoc.
    rewrite (rewrite_igns P _ (wf_flav_pre P f W1)) by exact HP. cbn [app].
    rewrite (rewrite_flav_line P f W1 L1). cbn zeta. rewrite A1.
    destruct cond as [|c0 cond']; [congruence|].
    rewrite (IH W2 L2 A2) by (try (now apply HPor); destruct cond'; discriminate).
    cbn [map cond_text_from flavs_file existsb]. rewrite orb_assoc. reflexivity.
Qed.

Lemma rewrite_flavs_group_first P fs : forallb (wf_flav P) fs = true -> wf_flavors (map fl_name fs) = true ->
  forall o ng rest, (P = true -> o = true) ->
  rewrite_go o true ng [] (flat_map flav_lines fs ++ rest)
  = rewrite_go (o || flavs_file fs) true ng (cond_text (map fl_name fs)) rest.
Proof.
  intros Hw Hf o ng rest HP. destruct (wf_flavors_parts _ Hf) as (Hn & Hl & Ha).
  destruct fs as [|f fs]; [now elim Hn|].
  cbn [forallb map] in Hw, Hl, Ha. apply andb_true_iff in Hw. apply andb_true_iff in Hl. apply andb_true_iff in Ha.
  destruct Hw as [W1 W2]. destruct Hl as [L1 L2]. destruct Ha as [A1 A2]. apply negb_true_iff in A1.
  cbn [flat_map]. unfold flav_lines at 1. rewrite <- !app_assoc.
  rewrite (rewrite_igns P _ (wf_flav_pre P f W1)) by exact HP. cbn [app].
  rewrite (rewrite_flav_line P f W1 L1). cbn zeta. rewrite A1. cbn [app].
  rewrite (rewrite_flavs_group P fs W2 L2 A2) by (try (now apply HPor); discriminate).
  cbn [map cond_text flavs_file existsb]. rewrite orb_assoc. reflexivity.
Qed.

(* ---------------------------------------------------------------- Group: / Common: / End: *)

Lemma kw_prep word l : wf_kw word l = true ->
  let t := kw_key l ++ ws_of (kw_after l) in
  prep_line (kw_line l) = t /\ no_syn t = true /\ nonempty t = true /\ lower_str (kw_key l) = word
  /\ all_ws (ws_of (kw_after l)) = true.
Proof.
  unfold wf_kw. rewrite !andb_true_iff. intros [[Hi Hk] Ha]. cbv zeta.
  destruct (wf_key_parts _ _ Hk) as (Kl & Ko & Ks).
  assert (Oc : okl2 (kw_key l ++ []) = true) by now rewrite app_nil_r.
  destruct (headed_prep (kw_indent l) (kw_key l) [] (kw_after l) Hi Ks Oc Ha) as (Hp & Hs & Hn).
  rewrite app_nil_r in Hp, Hs, Hn. repeat split; auto. now apply ws_of_ws.
Qed.

Lemma rewrite_group_kw l : wf_kw (lit "group:") l = true -> forall o ig ng cond rest,
  rewrite_go o ig ng cond (kw_line l :: rest) = rewrite_go o true ng [] rest.
Proof.
  intros Hw o ig ng cond rest. destruct (kw_prep _ l Hw) as (Hp & Hs & Hn & Kl & Ww).
  set (t := kw_key l ++ ws_of (kw_after l)) in *.
  open_line Hp. rewrite (synonyms_id t Hs). unfold t.
  rewrite (key_miss (lit "file") _ _ _ _ Kl eq_refl), (key_miss (lit "product") _ _ _ _ Kl eq_refl), andb_false_r.
  rewrite (key_miss (lit "action") _ _ _ _ Kl eq_refl), (qual_miss _ _ _ Kl eq_refl).
  now rewrite (colon_hit _ _ _ Kl Ww).
Qed.

Lemma rewrite_common_kw l : wf_kw (lit "common:") l = true -> forall o ng cond rest,
  rewrite_go o true ng cond (kw_line l :: rest)
  = bind (rewrite_go o true ng cond rest) (fun out => Ok (if_line cond :: out)).
Proof.
  intros Hw o ng cond rest. destruct (kw_prep _ l Hw) as (Hp & Hs & Hn & Kl & Ww).
  set (t := kw_key l ++ ws_of (kw_after l)) in *.
  open_line Hp. rewrite (synonyms_id t Hs). unfold t.
  rewrite (key_miss (lit "file") _ _ _ _ Kl eq_refl), (key_miss (lit "product") _ _ _ _ Kl eq_refl), andb_false_r.
  rewrite (key_miss (lit "action") _ _ _ _ Kl eq_refl), (qual_miss _ _ _ Kl eq_refl).
  rewrite (colon_miss (lit "group:") _ _ _ Kl eq_refl).
  now rewrite (colon_hit _ _ _ Kl Ww).
Qed.

Lemma rewrite_end_kw l : wf_kw (lit "end:") l = true -> forall o ng cond rest,
  rewrite_go o true ng cond (kw_line l :: rest)
  = bind (rewrite_go o false ng cond rest) (fun out => Ok (lit "}" :: out)).
Proof.
  intros Hw o ng cond rest. destruct (kw_prep _ l Hw) as (Hp & Hs & Hn & Kl & Ww).
  set (t := kw_key l ++ ws_of (kw_after l)) in *.
  open_line Hp. rewrite (synonyms_id t Hs). unfold t.
  rewrite (key_miss (lit "file") _ _ _ _ Kl eq_refl), (key_miss (lit "product") _ _ _ _ Kl eq_refl), andb_false_r.
  rewrite (key_miss (lit "action") _ _ _ _ Kl eq_refl), (qual_miss _ _ _ Kl eq_refl).
  rewrite (colon_miss (lit "group:") _ _ _ Kl eq_refl), (colon_miss (lit "common:") _ _ _ Kl eq_refl).
  now rewrite (colon_hit _ _ _ Kl Ww).
Qed.

(* ---------------------------------------------------------------- commands with ignorable lines before them *)

Lemma wf_bcmd_parts P b : wf_bcmd P b = true -> forallb (wf_ign P) (bc_pre b) = true /\ wf_cmd (bc_cmd b) = true.
Proof. unfold wf_bcmd. now rewrite andb_true_iff. Qed.

Lemma rewrite_bcmds P body : forallb (wf_bcmd P) body = true ->
  forall o ig ng cond rest, ng <> NGFlavors -> (P = true -> o = true) ->
  rewrite_go o ig ng cond (flat_map bcmd_lines body ++ rest)
  = bind (rewrite_go (o || bcmds_file body) ig ng cond rest)
         (fun out => Ok (map cmd_out (map bc_cmd body) ++ out)).
Proof.
  induction body as [|b body IH]; intros Hw o ig ng cond rest Hng HP.
  - cbn. rewrite orb_false_r. destruct (rewrite_go o ig ng cond rest); reflexivity.
  - cbn [forallb] in Hw. apply andb_true_iff in Hw. destruct Hw as [W1 W2].
    destruct (wf_bcmd_parts P b W1) as [Wp Wc].
    cbn [flat_map]. unfold bcmd_lines at 1. rewrite <- !app_assoc.
    rewrite (rewrite_igns P _ Wp) by exact HP.
    rewrite (emitsO_cmd _ Wc) by exact Hng.
    rewrite (IH W2) by (try exact Hng; now apply HPor).
    cbn [map bcmds_file existsb]. rewrite orb_assoc.
    fold (bcmds_file body). destruct (rewrite_go (o || has_file (bc_pre b) || bcmds_file body) ig ng cond rest); reflexivity.
Qed.

(* the body of a new-style group: its first command opens the if block *)
Lemma rewrite_body_open P body : forallb (wf_bcmd P) body = true -> is_nil body = false ->
  forall o cond rest, (P = true -> o = true) ->
  rewrite_go o false NGFlavors cond (flat_map bcmd_lines body ++ rest)
  = bind (rewrite_go (o || bcmds_file body) false NGBody cond rest)
         (fun out => Ok (if_line cond :: map cmd_out (map bc_cmd body) ++ out)).
Proof.
  intros Hw Hne o cond rest HP. destruct body as [|b body]; [discriminate|].
  cbn [forallb] in Hw. apply andb_true_iff in Hw. destruct Hw as [W1 W2].
  destruct (wf_bcmd_parts P b W1) as [Wp Wc].
  cbn [flat_map]. unfold bcmd_lines at 1. rewrite <- !app_assoc.
  rewrite (rewrite_igns P _ Wp) by exact HP.
  set (c := bc_cmd b) in *.
  destruct (wf_cmd_parts c Wc) as (_ & _ & Hj & [I1 I2] & _ & _ & Ha & _).
  destruct (cmd_core_ok c Wc) as [Hsp Hok Hf Hh Hs].
  unfold cmd_lines. rewrite <- app_assoc. cbn [app]. rewrite rewrite_junkO by exact Hj.
  destruct (wf_after_split _ Ha) as (Wa & _).
  rewrite (rewrite_keepO_flavors _ cond _ (cmd_out c) (cl_spell (c_lay c))
           ((cl_sp (c_lay c) ++ c_lp :: print_args (cl_args (c_lay c)) (c_args c) ++ c_rp :: cmd_tail c) ++ ws_of (cl_after (c_lay c)))).
  - rewrite (rewrite_bcmds P body W2) by (try discriminate; now apply HPor).
    cbn [map bcmds_file existsb]. rewrite orb_assoc. fold c.
    fold (bcmds_file body). destruct (rewrite_go (o || has_file (bc_pre b) || bcmds_file body) false NGBody cond rest); reflexivity.
  - unfold cmd_line, cmd_out. now apply prep_content.
  - unfold cmd_out. rewrite Hsp at 1. now rewrite <- app_assoc.
  - unfold cmd_out. destruct (cmd_core c); [discriminate|reflexivity].
  - exact Hh.
  - now apply spell_pm.
  - unfold cmd_out. now apply no_syn_app_ws.
Qed.

(* ---------------------------------------------------------------- groups *)

Lemma item_outs_group fs body : wf_flavors (map fl_name fs) = true ->
  item_outs (group_item fs body) = group_out (map fl_name fs) (map bc_cmd body).
Proof.
  intros Hf. destruct (wf_flavors_parts _ Hf) as (Hn & _).
  unfold group_item. cbn [item_outs b_lay b_body flat_map app].
  unfold brace_out. cbn [bl_after plain_blay]. unfold ws_of. cbn [span fst]. rewrite !app_nil_r.
  unfold group_out. rewrite <- (print_disj _ Hn).
  unfold if_core, if_line, close_core. cbn [b_lay b_cond plain_blay bl_s1 bl_s2]. reflexivity.
Qed.

Definition telem_file (t : telem) : bool :=
  match t with
  | TItem pre _ => has_file pre
  | TOld pre _ fs pc _ body pe _ => has_file pre || flavs_file fs || has_file pc || bcmds_file body || has_file pe
  end.

Lemma rewrite_old P pre g fs pc cm body pe en :
  wf_telem P (TOld pre g fs pc cm body pe en) = true ->
  forall o ng cond rest, ng <> NGFlavors -> (P = true -> o = true) ->
  rewrite_go o false ng cond (telem_lines (TOld pre g fs pc cm body pe en) ++ rest)
  = bind (rewrite_go (o || telem_file (TOld pre g fs pc cm body pe en)) false ng (cond_text (map fl_name fs)) rest)
         (fun out => Ok (group_out (map fl_name fs) (map bc_cmd body) ++ out)).
Proof.
  cbn [wf_telem]. rewrite !andb_true_iff.
  intros [[[[[[[[Wpre Wg] Wfs] Wfl] Wpc] Wcm] Wb] Wpe] Wen] o ng cond rest Hng HP.
  cbn [telem_lines telem_file]. rewrite <- !app_assoc. cbn [app].
  rewrite (rewrite_igns P _ Wpre) by exact HP.
  rewrite (rewrite_group_kw _ Wg).
  rewrite (rewrite_flavs_group_first P fs Wfs Wfl) by (now apply HPor).
  rewrite (rewrite_igns P _ Wpc) by (intros Hp; now rewrite (HP Hp)).
  rewrite (rewrite_common_kw _ Wcm).
  rewrite (rewrite_bcmds P body Wb) by (try exact Hng; intros Hp; now rewrite (HP Hp)).
  rewrite (rewrite_igns P _ Wpe) by (intros Hp; now rewrite (HP Hp)).
  rewrite (rewrite_end_kw _ Wen).
  rewrite !orb_assoc.
  match goal with |- context [rewrite_go ?a false ng ?c rest] => destruct (rewrite_go a false ng c rest) end; [|reflexivity].
  cbn [bind]. unfold group_out. cbn [app]. now rewrite <- app_assoc.
Qed.

Definition tops_file (ts : list telem) : bool := existsb telem_file ts.

Lemma rewrite_tops P tops : forallb (wf_telem P) tops = true ->
  forall o cond rest, (P = true -> o = true) ->
  exists cond',
    rewrite_go o false NG0 cond (flat_map telem_lines tops ++ rest)
    = bind (rewrite_go (o || tops_file tops) false NG0 cond' rest)
           (fun out => Ok (flat_map item_outs (flat_map telem_items tops) ++ out)).
Proof.
  induction tops as [|t tops IH]; intros Hw o cond rest HP.
  - exists cond. cbn. rewrite orb_false_r. destruct (rewrite_go o false NG0 cond rest); reflexivity.
  - cbn [forallb] in Hw. apply andb_true_iff in Hw. destruct Hw as [W1 W2].
    cbn [flat_map tops_file existsb]. rewrite <- app_assoc.
    destruct t as [pre i|pre g fs pc cm body pe en].
    + cbn [wf_telem] in W1. apply andb_true_iff in W1. destruct W1 as [Wp Wi].
      cbn [telem_lines telem_items telem_file]. rewrite <- app_assoc.
      rewrite (rewrite_igns P _ Wp) by exact HP.
      rewrite (emitsO_item i Wi) by discriminate.
      destruct (IH W2 (o || has_file pre) cond rest (HPor _ _ _ HP)) as [c' E]. exists c'. rewrite E.
      rewrite orb_assoc. cbn [flat_map app]. fold (tops_file tops).
      match goal with |- context [rewrite_go ?a false NG0 c' rest] => destruct (rewrite_go a false NG0 c' rest) end; [|reflexivity].
      cbn [bind]. rewrite ?app_nil_r, <- ?app_assoc. reflexivity.
    + rewrite (rewrite_old P _ _ _ _ _ _ _ _ W1) by (try exact HP; discriminate).
      destruct (IH W2 (o || telem_file (TOld pre g fs pc cm body pe en)) (cond_text (map fl_name fs)) rest (HPor _ _ _ HP)) as [c' E].
      exists c'. rewrite E. rewrite orb_assoc. cbn [telem_items flat_map app].
      cbn [wf_telem] in W1. rewrite !andb_true_iff in W1. destruct W1 as [[[[[[[[_ _] _] Wfl] _] _] _] _] _].
      rewrite (item_outs_group fs body Wfl). fold (tops_file tops).
      match goal with |- context [rewrite_go ?a false NG0 c' rest] => destruct (rewrite_go a false NG0 c' rest) end; [|reflexivity].
      cbn [bind]. rewrite ?app_nil_r, <- ?app_assoc. reflexivity.
Qed.

Definition closing (ng : newgrp) : list str := match ng with NGBody => [lit "}"] | _ => [] end.
Definition ngroup_out (g : ngroup) : list str := group_out (map fl_name (ng_flavors g)) (map bc_cmd (ng_body g)).

Lemma rewrite_ngroups P gs tail : forallb (wf_ngroup P) gs = true -> forallb (wf_ign P) tail = true ->
  forall o ng cond, ng <> NGFlavors -> (P = true -> o = true) ->
  rewrite_go o false ng cond (flat_map ngroup_lines gs ++ map ign_line tail ++ [[]])
  = Ok (closing ng ++ flat_map ngroup_out gs).
Proof.
  induction gs as [|g gs IH]; intros Hw Ht o ng cond Hng HP.
  - cbn [flat_map app]. rewrite (rewrite_igns P _ Ht) by exact HP. rewrite app_nil_r.
    destruct ng; try congruence; reflexivity.
  - cbn [forallb] in Hw. apply andb_true_iff in Hw. destruct Hw as [W1 W2].
    unfold wf_ngroup in W1. rewrite !andb_true_iff in W1. destruct W1 as [[[Wfs Wfl] Wb] Wn]. apply negb_true_iff in Wn.
    cbn [flat_map]. unfold ngroup_lines at 1. rewrite <- !app_assoc.
    rewrite (rewrite_flavs_open P _ Wfs Wfl) by assumption.
    rewrite (rewrite_body_open P _ Wb Wn) by (now apply HPor).
    rewrite (IH W2 Ht) by (try discriminate; intros Hp; now rewrite (HP Hp)).
    cbn [bind closing]. unfold ngroup_out at 2, group_out. cbn [app]. now rewrite <- !app_assoc.
Qed.

(* ---------------------------------------------------------------- the whole file *)

Lemma ngroups_outs P gs : forallb (wf_ngroup P) gs = true ->
  flat_map item_outs (map (fun g => group_item (ng_flavors g) (ng_body g)) gs) = flat_map ngroup_out gs.
Proof.
  induction gs as [|g gs IH]; [reflexivity|]. cbn [forallb]. rewrite andb_true_iff. intros [W1 W2].
  cbn [map flat_map]. rewrite (IH W2). f_equal.
  unfold wf_ngroup in W1. rewrite !andb_true_iff in W1. destruct W1 as [[[_ Wfl] _] _].
  now apply item_outs_group.
Qed.

Lemma wf_ltable_parts t : wf_ltable t = true ->
  forallb (wf_ign false) (lt_head t) = true /\ forallb (wf_telem (lt_prod t)) (lt_top t) = true /\
  forallb (wf_ngroup (lt_prod t)) (lt_groups t) = true /\ forallb (wf_ign (lt_prod t)) (lt_tail t) = true.
Proof. unfold wf_ltable. cbv zeta. rewrite !andb_true_iff. tauto. Qed.

Lemma rewrite_legacy t : wf_ltable t = true ->
  rewrite (legacy_lines t ++ [[]]) = Ok (flat_map item_outs (legacy_items t)).
Proof.
  intros H. destruct (wf_ltable_parts t H) as (Wh & Wt & Wg & Wl).
  unfold rewrite, legacy_lines. rewrite <- !app_assoc.
  rewrite (rewrite_igns false _ Wh) by discriminate. cbn [orb]. fold (lt_prod t).
  destruct (rewrite_tops _ _ Wt (lt_prod t) [] (flat_map ngroup_lines (lt_groups t) ++ map ign_line (lt_tail t) ++ [[]]) (fun E => E))
    as [c' E]. rewrite E.
  rewrite (rewrite_ngroups _ _ _ Wg Wl) by (try discriminate; intros Hp; now rewrite Hp).
  cbn [bind closing app]. unfold legacy_items. now rewrite flat_map_app, (ngroups_outs _ _ Wg).
Qed.

(* ---------------------------------------------------------------- readlines: no line holds a line end *)

Definition nn (l : str) : Prop := no_newline l = true.

Lemma keyed_line_nn indent core after :
  ws_ok indent = true -> okl2 core = true -> wf_after after = true -> nn (indent ++ core ++ after).
Proof.
  intros Hi Ho Ha. destruct (ws_ok_parts _ Hi) as [_ I2]. apply line_no_newline; auto using okl2_okl.
Qed.

Lemma ign_nn P g : wf_ign P g = true -> nn (ign_line g).
Proof.
  destruct g as [s|k indent key s1 s2 val after]; cbn [wf_ign ign_line].
  - intros H. unfold wf_junk, wf_after in H. apply andb_true_iff in H. now destruct H.
  - rewrite !andb_true_iff. intros [[[[[Hi H1] H2] Ha] Hk] Hv].
    destruct (wf_key_parts _ _ Hk) as (Kl & Ko & Ks).
    apply keyed_line_nn; auto. apply keyed_okl2; auto.
    destruct k; cbn [ign_val]; rewrite ?andb_true_iff in Hv.
    + apply word_okl2. tauto.
    + apply word_okl2. tauto.
    + apply wdp_okl2. tauto.
    + destruct Hv as [Hv _]. cbn [okl2 forallb]. fold (okl2 (val ++ [c_dq])). rewrite okl2_app, (plain_okl2 _ Hv). reflexivity.
Qed.

Lemma igns_nn P gs : forallb (wf_ign P) gs = true -> Forall nn (map ign_line gs).
Proof.
  induction gs as [|g gs IH]; cbn [forallb map]; [constructor|]. rewrite andb_true_iff. intros [H1 H2].
  constructor; [now apply (ign_nn P)|now apply IH].
Qed.

Lemma kw_nn word l : wf_kw word l = true -> nn (kw_line l).
Proof.
  unfold wf_kw. rewrite !andb_true_iff. intros [[Hi Hk] Ha]. destruct (wf_key_parts _ _ Hk) as (_ & Ko & _).
  unfold kw_line. now apply keyed_line_nn.
Qed.

Lemma flav_lines_nn P f : wf_flav P f = true -> wf_lit (fl_name f) = true -> Forall nn (flav_lines f).
Proof.
  intros Hw Hl. pose proof (wf_flav_pre P f Hw) as Hp. unfold wf_flav in Hw. rewrite !andb_true_iff in Hw.
  destruct Hw as [[[[[_ Hi] H1] H2] Ha] Hk]. destruct (wf_key_parts _ _ Hk) as (_ & Ko & _).
  destruct (wf_lit_okl2 _ Hl) as (On & _).
  unfold flav_lines. apply Forall_app. split; [now apply (igns_nn P)|]. constructor; [|constructor].
  unfold flav_line. apply keyed_line_nn; auto. now apply keyed_okl2.
Qed.

Lemma flavs_lines_nn P fs : forallb (wf_flav P) fs = true -> forallb wf_lit (map fl_name fs) = true ->
  Forall nn (flat_map flav_lines fs).
Proof.
  induction fs as [|f fs IH]; cbn [forallb map flat_map]; [constructor|]. rewrite !andb_true_iff.
  intros [W1 W2] [L1 L2]. apply Forall_app. split; [now apply (flav_lines_nn P)|now apply IH].
Qed.

Lemma bcmds_lines_nn P body : forallb (wf_bcmd P) body = true -> Forall nn (flat_map bcmd_lines body).
Proof.
  intros H. apply Forall_flat_map. intros b Hb. rewrite forallb_forall in H. specialize (H b Hb).
  destruct (wf_bcmd_parts P b H) as [Wp Wc]. unfold bcmd_lines. apply Forall_app. split.
  - now apply (igns_nn P).
  - now apply cmd_lines_nn.
Qed.

Lemma telem_lines_nn P t : wf_telem P t = true -> Forall nn (telem_lines t).
Proof.
  destruct t as [pre i|pre g fs pc cm body pe en]; cbn [wf_telem telem_lines].
  - rewrite andb_true_iff. intros [Wp Wi]. apply Forall_app. split; [now apply (igns_nn P)|now apply item_lines_nn].
  - rewrite !andb_true_iff. intros [[[[[[[[Wpre Wg] Wfs] Wfl] Wpc] Wcm] Wb] Wpe] Wen].
    destruct (wf_flavors_parts _ Wfl) as (_ & Hl & _).
    repeat (apply Forall_app; split); try (constructor; [|constructor]);
      eauto using igns_nn, kw_nn, flavs_lines_nn, bcmds_lines_nn.
Qed.

Lemma ngroup_lines_nn P g : wf_ngroup P g = true -> Forall nn (ngroup_lines g).
Proof.
  unfold wf_ngroup. rewrite !andb_true_iff. intros [[[Wfs Wfl] Wb] _].
  destruct (wf_flavors_parts _ Wfl) as (_ & Hl & _).
  unfold ngroup_lines. apply Forall_app. split; eauto using flavs_lines_nn, bcmds_lines_nn.
Qed.

Lemma legacy_lines_nn t : wf_ltable t = true -> Forall nn (legacy_lines t).
Proof.
  intros H. destruct (wf_ltable_parts t H) as (Wh & Wt & Wg & Wl).
  unfold legacy_lines. repeat (apply Forall_app; split).
  - now apply (igns_nn false).
  - apply Forall_flat_map. intros x Hx. rewrite forallb_forall in Wt. now apply (telem_lines_nn (lt_prod t)), Wt.
  - apply Forall_flat_map. intros x Hx. rewrite forallb_forall in Wg. now apply (ngroup_lines_nn (lt_prod t)), Wg.
  - now apply (igns_nn (lt_prod t)).
Qed.

(* ---------------------------------------------------------------- the corresponding items *)

Lemma bcmds_wf P body : forallb (wf_bcmd P) body = true -> forallb wf_cmd (map bc_cmd body) = true.
Proof.
  induction body as [|b body IH]; [reflexivity|]. cbn [forallb map]. rewrite !andb_true_iff. intros [H1 H2].
  split; [now destruct (wf_bcmd_parts P b H1)|now apply IH].
Qed.

Lemma wf_group_item P fs body : wf_flavors (map fl_name fs) = true -> forallb (wf_bcmd P) body = true ->
  wf_item (group_item fs body) = true.
Proof.
  intros Hf Hb. unfold group_item. cbn [wf_item forallb]. unfold wf_branch. cbn [b_cond b_body b_lay].
  rewrite (wf_disj _ Hf), (bcmds_wf P body Hb). reflexivity.
Qed.

Lemma legacy_items_wf t : wf_ltable t = true -> wf_items (legacy_items t) = true.
Proof.
  intros H. destruct (wf_ltable_parts t H) as (_ & Wt & Wg & _).
  unfold wf_items, legacy_items. rewrite forallb_app. apply andb_true_iff. split.
  - induction (lt_top t) as [|x l IH]; [reflexivity|]. cbn [forallb] in Wt. apply andb_true_iff in Wt. destruct Wt as [W1 W2].
    cbn [flat_map]. rewrite forallb_app, (IH W2), andb_true_r.
    destruct x as [pre i|pre g fs pc cm body pe en]; cbn [wf_telem telem_items forallb] in *.
    + apply andb_true_iff in W1. destruct W1 as [_ ->]. reflexivity.
    + rewrite !andb_true_iff in W1. destruct W1 as [[[[[[[[_ _] _] Wfl] _] _] Wb] _] _].
      now rewrite (wf_group_item _ fs body Wfl Wb).
  - induction (lt_groups t) as [|x l IH]; [reflexivity|]. cbn [forallb] in Wg. apply andb_true_iff in Wg. destruct Wg as [W1 W2].
    cbn [map forallb]. rewrite (IH W2), andb_true_r.
    unfold wf_ngroup in W1. rewrite !andb_true_iff in W1. destruct W1 as [[[_ Wfl] Wb] _].
    now apply (wf_group_item (lt_prod t)).
Qed.

(* the text of a legacy file is read as the classified lines of the corresponding items:
   exactly what the text of those items is read as *)
Lemma legacy_file_read eb top t : wf_ltable t = true ->
  read_text true eb top (print_legacy t) = read_text true eb top (print_table (legacy_items t)).
Proof.
  intros H. rewrite (read_text_print eb top _ (legacy_items_wf t H)).
  unfold read_text, print_legacy, as_text. rewrite split_lines_print by (apply legacy_lines_nn, H).
  rewrite (rewrite_legacy t H). cbn [bind]. now rewrite (classify_items _ (legacy_items_wf t H)).
Qed.

(* and the corresponding items mean what the legacy file says *)
Lemma denote_group_item e top fs body : wf_flavors (map fl_name fs) = true ->
  denote_item e top (group_item fs body) = denote_group e top fs body.
Proof.
  intros Hf. destruct (wf_flavors_parts _ Hf) as (Hn & _).
  unfold group_item, denote_group. cbn [denote_item pick_branch b_cond b_body]. now rewrite (denote_disj e _ Hn).
Qed.

Lemma denote_legacy_items e top t : wf_ltable t = true ->
  denote_items e top (legacy_items t) = denote_legacy e top t.
Proof.
  intros H. destruct (wf_ltable_parts t H) as (_ & Wt & Wg & _).
  unfold denote_items, legacy_items, denote_legacy. rewrite flat_map_app. f_equal.
  - induction (lt_top t) as [|x l IH]; [reflexivity|]. cbn [forallb] in Wt. apply andb_true_iff in Wt. destruct Wt as [W1 W2].
    cbn [flat_map]. rewrite flat_map_app, (IH W2). f_equal.
    destruct x as [pre i|pre g fs pc cm body pe en]; cbn [wf_telem telem_items flat_map denote_telem] in *.
    + now rewrite app_nil_r.
    + rewrite !andb_true_iff in W1. destruct W1 as [[[[[[[[_ _] _] Wfl] _] _] _] _] _].
      now rewrite app_nil_r, (denote_group_item e top fs body Wfl).
  - induction (lt_groups t) as [|x l IH]; [reflexivity|]. cbn [forallb] in Wg. apply andb_true_iff in Wg. destruct Wg as [W1 W2].
    cbn [map flat_map]. rewrite (IH W2). f_equal.
    unfold wf_ngroup in W1. rewrite !andb_true_iff in W1. destruct W1 as [[[_ Wfl] _] _].
    now apply denote_group_item.
Qed.
